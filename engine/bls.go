package main

import (
	"fmt"

	"golang.org/x/tools/go/ssa"
)

// BLS is modelled by uninterpreted functions. A deserialised key/signature object carries its compressed bytes
// (one wide term) in its first cell; every blsu entry point zrnt uses is intercepted, so the cell is never
// interpreted by real code.
const blsu = "github.com/protolambda/bls12-381-util."

func (e *Engine) bytesOfArrayPtr(st *State, p Ptr, n int) *Term {
	o := e.obj(st, p.Obj)
	return concatBytes(o.cells[p.Off : p.Off+n])
}

func blsKeyTerm(e *Engine, st *State, v Value) *Term {
	p := e.ptrOf(st, v)
	if p.Obj == 0 {
		e.goPanic(st, "nil BLS object")
	}
	t, ok := e.obj(st, p.Obj).cells[p.Off].(*Term)
	if !ok || (t.W != 384 && t.W != 768) {
		e.unsupported(st, "BLS object was not produced by a modelled Deserialize/Aggregate")
	}
	return t
}

func msgTerm(e *Engine, st *State, v Value) (*Term, int) {
	s := v.(SliceV)
	cells := e.sliceCells(st, s)
	if len(cells) == 0 {
		return BVu(0, 8), 0
	}
	return concatBytes(cells), len(cells)
}

func blsValidPk(k *Term) *Term  { return UF("bls_pk_valid", 0, k) }
func blsValidSig(s *Term) *Term { return UF("bls_sig_valid", 0, s) }
func blsVerify(pk, msg *Term, mlen int, sig *Term) *Term {
	return UF(fmt.Sprintf("bls_verify_%d", mlen), 0, pk, msg, sig)
}
func blsFastAgg(pks []*Term, msg *Term, mlen int, sig *Term) *Term {
	args := append(append([]*Term{}, pks...), msg, sig)
	return UF(fmt.Sprintf("bls_fastaggverify_%d_%d", len(pks), mlen), 0, args...)
}

func init() {
	deser := func(n int, valid func(*Term) *Term) intrinsic {
		return func(e *Engine, st *State, a []Value, in ssa.Instruction) Value {
			dst := e.ptrOf(st, a[0])
			src := e.ptrOf(st, a[1])
			k := e.bytesOfArrayPtr(st, src, n)
			if !e.decide(st, valid(k)) {
				return e.errorValue(st, "invalid BLS encoding")
			}
			o := e.objW(st, dst.Obj)
			o.cells[dst.Off] = k
			return Iface{}
		}
	}
	intrinsics["(*"+blsu+"Pubkey).Deserialize"] = deser(48, blsValidPk)
	intrinsics["(*"+blsu+"Signature).Deserialize"] = deser(96, blsValidSig)
	ser := func(n int) intrinsic {
		return func(e *Engine, st *State, a []Value, in ssa.Instruction) Value {
			k := blsKeyTerm(e, st, a[0])
			out := make(Agg, n)
			for i := range out {
				out[i] = Extract(k, 8*(n-i)-1, 8*(n-i-1))
			}
			return out
		}
	}
	intrinsics["(*"+blsu+"Pubkey).Serialize"] = ser(48)
	intrinsics["(*"+blsu+"Signature).Serialize"] = ser(96)
	intrinsics[blsu+"Verify"] = func(e *Engine, st *State, a []Value, in ssa.Instruction) Value {
		m, l := msgTerm(e, st, a[1])
		return blsVerify(blsKeyTerm(e, st, a[0]), m, l, blsKeyTerm(e, st, a[2]))
	}
	fav := func(e *Engine, st *State, a []Value, in ssa.Instruction) Value {
		s := a[0].(SliceV)
		var pks []*Term
		for _, c := range e.sliceCells(st, s) {
			pks = append(pks, blsKeyTerm(e, st, c))
		}
		m, l := msgTerm(e, st, a[1])
		return blsFastAgg(pks, m, l, blsKeyTerm(e, st, a[2]))
	}
	intrinsics[blsu+"FastAggregateVerify"] = fav
	intrinsics[blsu+"Eth2FastAggregateVerify"] = func(e *Engine, st *State, a []Value, in ssa.Instruction) Value {
		s := a[0].(SliceV)
		if s.Len == 0 {
			// the Eth2 variant accepts the point-at-infinity signature for an empty participant set
			sig := blsKeyTerm(e, st, a[2])
			inf := make([]byte, 96)
			inf[0] = 0xc0
			c := BVu(0, 768)
			_ = inf
			c = Concat(BVu(0xc0, 8), BVu(0, 760))
			return Cmp("=", sig, c)
		}
		return fav(e, st, a, in)
	}
	intrinsics[blsu+"AggregatePubkeys"] = func(e *Engine, st *State, a []Value, in ssa.Instruction) Value {
		s := a[0].(SliceV)
		var pks []*Term
		for _, c := range e.sliceCells(st, s) {
			pks = append(pks, blsKeyTerm(e, st, c))
		}
		if len(pks) == 0 {
			return Tuple{Ptr{}, e.errorValue(st, "no pubkeys to aggregate")}
		}
		agg := UF(fmt.Sprintf("bls_aggpk_%d", len(pks)), 384, pks...)
		id := e.alloc(st, []Value{agg}, "aggregate pubkey")
		return Tuple{Ptr{Obj: id}, Iface{}}
	}
	// harness-side access to the same uninterpreted functions
	arr := func(v Value) *Term { return concatBytes([]Value(v.(Agg))) }
	intrinsics[zz+"BLSPubkeyValid"] = func(e *Engine, st *State, a []Value, in ssa.Instruction) Value { return blsValidPk(arr(a[0])) }
	intrinsics[zz+"BLSSigValid"] = func(e *Engine, st *State, a []Value, in ssa.Instruction) Value { return blsValidSig(arr(a[0])) }
	intrinsics[zz+"BLSVerify"] = func(e *Engine, st *State, a []Value, in ssa.Instruction) Value {
		m, l := msgTerm(e, st, a[1])
		return blsVerify(arr(a[0]), m, l, arr(a[2]))
	}
	intrinsics[zz+"BLSFastAggregateVerify"] = func(e *Engine, st *State, a []Value, in ssa.Instruction) Value {
		s := a[0].(SliceV)
		cells := e.sliceCells(st, s)
		var pks []*Term
		for i := 0; i < s.Len; i++ {
			pks = append(pks, concatBytes(cells[i*48:(i+1)*48]))
		}
		m, l := msgTerm(e, st, a[1])
		return blsFastAgg(pks, m, l, arr(a[2]))
	}
}
