package main

import (
	"fmt"
	"go/types"
	"strings"

	"golang.org/x/tools/go/ssa"
)

// resolveCall evaluates the callee and arguments of a call.
func (e *Engine) resolveCall(st *State, fr *Frame, c *ssa.CallCommon) (FuncV, []Value) {
	var args []Value
	var fv FuncV
	if c.IsInvoke() {
		recv := e.get(st, fr, c.Value).(Iface)
		if recv.T == nil {
			e.goPanic(st, "nil pointer dereference (method call on nil interface "+c.Method.Name()+")")
		}
		m := e.prog.LookupMethod(recv.T, c.Method.Pkg(), c.Method.Name())
		if m == nil {
			panic(fmt.Sprintf("method %s not found on %v", c.Method.Name(), recv.T))
		}
		fv = FuncV{Fn: m}
		args = append(args, recv.V)
	} else {
		v := e.get(st, fr, c.Value)
		f, ok := v.(FuncV)
		if !ok {
			panic(fmt.Sprintf("call of non-function %T", v))
		}
		fv = f
	}
	for _, a := range c.Args {
		args = append(args, e.get(st, fr, a))
	}
	return fv, args
}

func (e *Engine) callOp(st *State, fr *Frame, c *ssa.CallCommon, in ssa.Instruction) {
	fv, args := e.resolveCall(st, fr, c)
	if fv.Bi != nil {
		res := e.builtin(st, fr, fv.Bi, c, args)
		e.deliver(st, res)
		return
	}
	e.invoke(st, fv, args, in)
}

func fnName(fn *ssa.Function) string {
	if o := fn.Origin(); o != nil {
		return o.String()
	}
	return fn.String()
}

var ctxStubs = map[string]string{"context.WithTimeout": "CtxWithTimeoutStub", "context.WithDeadline": "CtxWithDeadlineStub", "context.WithCancel": "CtxWithCancelStub"}

// invoke calls fv with args; the current top frame is positioned at the calling instruction.
func (e *Engine) invoke(st *State, fv FuncV, args []Value, in ssa.Instruction) {
	if fv.Bi != nil {
		res := e.builtin(st, st.top(), fv.Bi, nil, args)
		e.deliver(st, res)
		return
	}
	if fv.Fn == nil {
		e.goPanic(st, "call of nil function")
	}
	fn := fv.Fn
	name := fnName(fn)
	if fn.Name() == "init" && fn.Synthetic != "" && fn.Pkg != nil && fn.Signature.Recv() == nil {
		if !allowInit(fn.Pkg.Pkg.Path()) || fn.Pkg.Pkg.Path() == "github.com/protolambda/zrnt/eth2/zzverif" {
			e.deliver(st, nil)
			return
		}
	}
	if name == "sort.Slice" || name == "sort.SliceStable" {
		if zp := e.prog.ImportedPackage("github.com/protolambda/zrnt/eth2/zzverif"); zp != nil {
			e.stubsUsed["override:"+name+" -> insertion sort through the real less closure"]++
			fn = zp.Func("SortSliceStub")
			name = fnName(fn)
		}
	}
	if stub, ok := ctxStubs[name]; ok {
		if zp := e.prog.ImportedPackage("github.com/protolambda/zrnt/eth2/zzverif"); zp != nil && zp.Func(stub) != nil {
			e.stubsUsed["override:"+name+" -> the parent context (a deadline never fires by itself; the parent's cancellation stays visible)"]++
			fn = zp.Func(stub)
			name = fnName(fn)
		}
	}
	if ov, ok := e.overrides[name]; ok && ov != st.top().fn && (e.overrideGroup[ov] == "" || st.aux["ovr:"+e.overrideGroup[ov]] == 1) {
		e.stubsUsed["override:"+name]++
		fn = ov
		name = fnName(fn)
	} else if intr, ok := intrinsics[name]; ok {
		e.stubsUsed[name]++
		res := intr(e, st, args, in)
		e.deliver(st, res)
		return
	} else if strings.HasPrefix(name, zz) && name != zz+"SortSliceStub" && !strings.HasPrefix(name, zz+"Ctx") {
		panic("unknown zzverif function " + name)
	}
	_, isDefer := in.(*ssa.RunDefers)
	if fn.Blocks == nil {
		e.unsupported(st, "call to function without body: "+name)
	}
	if e.traceOn {
		st.trace = append(st.trace, "call "+name)
	}
	e.pushFrame(st, fn, args, fv.Env, isDefer)
}

func (e *Engine) builtin(st *State, fr *Frame, b *ssa.Builtin, c *ssa.CallCommon, args []Value) Value {
	switch b.Name() {
	case "len":
		switch x := args[0].(type) {
		case SliceV:
			return BVu(uint64(x.Len), 64)
		case string:
			return BVu(uint64(len(x)), 64)
		case MapV:
			if x.Obj == 0 {
				return BVu(0, 64)
			}
			return BVu(uint64(len(e.obj(st, x.Obj).m.Keys)), 64)
		case SymStr:
			return BVu(uint64(len(x.bytes)), 64)
		case nil:
			return BVu(0, 64) // nil chan
		}
		panic(fmt.Sprintf("len of %T", args[0]))
	case "cap":
		switch x := args[0].(type) {
		case SliceV:
			return BVu(uint64(x.Cap), 64)
		}
		panic(fmt.Sprintf("cap of %T", args[0]))
	case "append":
		s := args[0].(SliceV)
		var srcCells []Value
		var n int
		stride := s.Stride
		switch t := args[1].(type) {
		case SliceV:
			n = t.Len
			if stride == 0 {
				stride = t.Stride
			}
			if n > 0 {
				o := e.obj(st, t.Obj)
				srcCells = append([]Value(nil), o.cells[t.Off:t.Off+n*t.Stride]...)
			}
		case string:
			n = len(t)
			stride = 1
			for i := 0; i < n; i++ {
				srcCells = append(srcCells, BVu(uint64(t[i]), 8))
			}
		default:
			panic(fmt.Sprintf("append of %T", args[1]))
		}
		if n == 0 {
			return s
		}
		if stride == 0 {
			panic("append: unknown stride")
		}
		if s.Len+n <= s.Cap && s.Obj != 0 {
			o := e.objW(st, s.Obj)
			copy(o.cells[s.Off+s.Len*stride:], srcCells)
			if e.record {
				e.logAccess(st, Ptr{s.Obj, s.Off + s.Len*stride}, n*stride, true)
			}
			return SliceV{Obj: s.Obj, Off: s.Off, Len: s.Len + n, Cap: s.Cap, Stride: stride}
		}
		newcap := 2 * s.Cap
		if newcap < s.Len+n {
			newcap = s.Len + n
		}
		cells := make([]Value, newcap*stride)
		if s.Len > 0 {
			o := e.obj(st, s.Obj)
			copy(cells, o.cells[s.Off:s.Off+s.Len*stride])
		}
		copy(cells[s.Len*stride:], srcCells)
		// zero-fill the tail
		if newcap > s.Len+n {
			var et types.Type
			if c != nil {
				et = c.Args[0].Type().Underlying().(*types.Slice).Elem()
			}
			tail := cells[(s.Len+n)*stride:]
			if et != nil {
				z := appendZero(nil, et)
				for i := 0; i+len(z) <= len(tail); i += len(z) {
					copy(tail[i:], z)
				}
			} else {
				// unknown element type (deferred/bound call): replicate zero pattern from a source element's kinds
				for i := range tail {
					tail[i] = zeroLike(srcCells[i%stride])
				}
			}
		}
		id := e.alloc(st, cells, "append")
		return SliceV{Obj: id, Len: s.Len + n, Cap: newcap, Stride: stride}
	case "copy":
		d := args[0].(SliceV)
		var src []Value
		var n int
		switch t := args[1].(type) {
		case SliceV:
			n = t.Len
			if n > d.Len {
				n = d.Len
			}
			if n > 0 {
				o := e.obj(st, t.Obj)
				src = append([]Value(nil), o.cells[t.Off:t.Off+n*t.Stride]...)
			}
		case string:
			n = len(t)
			if n > d.Len {
				n = d.Len
			}
			for i := 0; i < n; i++ {
				src = append(src, BVu(uint64(t[i]), 8))
			}
		default:
			panic(fmt.Sprintf("copy from %T", args[1]))
		}
		if n > 0 {
			o := e.objW(st, d.Obj)
			copy(o.cells[d.Off:], src)
			if e.record {
				e.logAccess(st, Ptr{d.Obj, d.Off}, len(src), true)
			}
		}
		return BVu(uint64(n), 64)
	case "delete":
		e.mapDelete(st, args[0].(MapV), args[1])
		return nil
	case "print", "println":
		return nil
	case "min", "max":
		r := args[0].(*Term)
		_, signed, _ := intWidth(c.Args[0].Type())
		lt := "bvult"
		if signed {
			lt = "bvslt"
		}
		for _, a := range args[1:] {
			t := a.(*Term)
			if b.Name() == "min" {
				r = Ite(Cmp(lt, t, r), t, r)
			} else {
				r = Ite(Cmp(lt, r, t), t, r)
			}
		}
		return r
	case "clear":
		switch x := args[0].(type) {
		case MapV:
			if x.Obj != 0 {
				o := e.objW(st, x.Obj)
				o.m = &MapData{}
			}
			return nil
		}
		panic("clear on slice unsupported")
	case "recover":
		return Iface{}
	case "ssa:wrapnilchk":
		p := e.ptrOf(st, args[0])
		if p.Obj == 0 {
			e.goPanic(st, "value method called using nil pointer")
		}
		return p
	}
	e.unsupported(st, "builtin "+b.Name())
	return nil
}

func zeroLike(v Value) Value {
	switch x := v.(type) {
	case *Term:
		if x.W == 0 {
			return Bool(false)
		}
		return BVu(0, x.W)
	case string:
		return ""
	case Ptr:
		return Ptr{}
	case SliceV:
		return SliceV{}
	case MapV:
		return MapV{}
	case Iface:
		return Iface{}
	case FuncV:
		return FuncV{}
	}
	return nil
}

// ---------- maps ----------

// mapFind returns the index of key in md, or -1. May fork.
func (e *Engine) mapFind(st *State, md *MapData, key Value) int {
	for i, k := range md.Keys {
		if sameValue(k, key) {
			return i
		}
	}
	for i, k := range md.Keys {
		if e.decide(st, eqValue(k, key)) {
			return i
		}
	}
	return -1
}

func (e *Engine) resolveValue(st *State, v Value) Value {
	if len(st.subst) == 0 {
		return v
	}
	switch x := v.(type) {
	case *Term:
		return st.resolve(x)
	case Agg:
		out := make(Agg, len(x))
		for i := range x {
			out[i] = e.resolveValue(st, x[i])
		}
		return out
	}
	return v
}

func (e *Engine) mapUpdate(st *State, fr *Frame, x *ssa.MapUpdate) {
	m := e.get(st, fr, x.Map).(MapV)
	if m.Obj == 0 {
		e.goPanic(st, "assignment to entry in nil map")
	}
	key := e.mapKey(st, e.get(st, fr, x.Key))
	val := e.get(st, fr, x.Value)
	md := e.obj(st, m.Obj).m
	i := e.mapFind(st, md, key)
	o := e.objW(st, m.Obj)
	if e.record {
		e.logAccess(st, Ptr{m.Obj, 0}, 1, true)
	}
	nd := &MapData{Keys: md.Keys, Vals: append([]Value(nil), md.Vals...)}
	if i >= 0 {
		nd.Vals[i] = val
	} else {
		nd.Keys = append(append([]Value(nil), md.Keys...), key)
		nd.Vals = append(nd.Vals, val)
	}
	o.m = nd
}

// mapKey normalises a key value (interfaces holding comparable values stay as they are).
func (e *Engine) mapKey(st *State, k Value) Value {
	return e.resolveValue(st, k)
}

func (e *Engine) mapDelete(st *State, m MapV, key Value) {
	if m.Obj == 0 {
		return
	}
	key = e.mapKey(st, key)
	md := e.obj(st, m.Obj).m
	i := e.mapFind(st, md, key)
	if i < 0 {
		return
	}
	o := e.objW(st, m.Obj)
	if e.record {
		e.logAccess(st, Ptr{m.Obj, 0}, 1, true)
	}
	nd := &MapData{}
	nd.Keys = append(append([]Value(nil), md.Keys[:i]...), md.Keys[i+1:]...)
	nd.Vals = append(append([]Value(nil), md.Vals[:i]...), md.Vals[i+1:]...)
	o.m = nd
}

func (e *Engine) lookup(st *State, fr *Frame, x *ssa.Lookup) {
	base := e.get(st, fr, x.X)
	if s, ok := base.(string); ok {
		idx := e.idxTerm(st, fr, x.Index)
		e.boundsCheck(st, idx, len(s), "string")
		i := int(e.concretize(st, idx, "string index"))
		e.setReg(fr, x, BVu(uint64(s[i]), 8))
		return
	}
	m := base.(MapV)
	mt := x.X.Type().Underlying().(*types.Map)
	var res Value
	found := false
	if m.Obj != 0 {
		key := e.mapKey(st, e.get(st, fr, x.Index))
		md := e.obj(st, m.Obj).m
		if e.record {
			e.logAccess(st, Ptr{m.Obj, 0}, 1, false)
		}
		if i := e.mapFind(st, md, key); i >= 0 {
			res = md.Vals[i]
			found = true
		}
	}
	if !found {
		res = zero(mt.Elem())
	}
	if x.CommaOk {
		e.setReg(fr, x, Tuple{res, Bool(found)})
	} else {
		e.setReg(fr, x, res)
	}
}

func (e *Engine) rangeOp(st *State, fr *Frame, x *ssa.Range) {
	base := e.get(st, fr, x.X)
	e.nextObj++
	o := &Obj{cells: []Value{BVu(0, 64), base}, owner: st.epoch, note: "iter"}
	if m, ok := base.(MapV); ok && m.Obj != 0 {
		o.m = e.obj(st, m.Obj).m
		if e.record {
			e.logAccess(st, Ptr{m.Obj, 0}, 1, false)
		}
	}
	st.objs[e.nextObj] = o
	e.setReg(fr, x, IterV{Obj: e.nextObj})
}

func (e *Engine) nextOp(st *State, fr *Frame, x *ssa.Next) {
	it := e.get(st, fr, x.Iter).(IterV)
	o := e.obj(st, it.Obj)
	pos := int(o.cells[0].(*Term).U64())
	tt := x.Type().(*types.Tuple)
	if x.IsString {
		s := o.cells[1].(string)
		if pos >= len(s) {
			e.setReg(fr, x, Tuple{Bool(false), BVu(0, 64), BVu(0, 32)})
			return
		}
		rs := []rune(s[pos:])
		r := rs[0]
		w := len(string(r))
		ow := e.objW(st, it.Obj)
		ow.cells[0] = BVu(uint64(pos+w), 64)
		e.setReg(fr, x, Tuple{Bool(true), BVu(uint64(pos), 64), BVu(uint64(r), 32)})
		return
	}
	m := o.cells[1].(MapV)
	zeroK, zeroV := zero(tt.At(1).Type()), zero(tt.At(2).Type())
	if m.Obj == 0 || o.m == nil {
		e.setReg(fr, x, Tuple{Bool(false), zeroK, zeroV})
		return
	}
	cur := e.obj(st, m.Obj).m
	for pos < len(o.m.Keys) {
		k := o.m.Keys[pos]
		pos++
		// skip entries deleted since the snapshot; use the current value
		for i, ck := range cur.Keys {
			if sameValue(ck, k) {
				ow := e.objW(st, it.Obj)
				ow.cells[0] = BVu(uint64(pos), 64)
				e.setReg(fr, x, Tuple{Bool(true), k, cur.Vals[i]})
				return
			}
		}
	}
	ow := e.objW(st, it.Obj)
	ow.cells[0] = BVu(uint64(pos), 64)
	e.setReg(fr, x, Tuple{Bool(false), zeroK, zeroV})
}
