package main

import (
	"math"
	"fmt"
	"go/constant"
	"go/token"
	"go/types"
	"math/big"
	"os"
	"strings"

	"golang.org/x/tools/go/ssa"
)

type deferred struct {
	fn   Value // FuncV (nil for invoke-mode => recv+method resolved at defer time)
	args []Value
}

type fnInfo struct {
	idx    map[ssa.Value]int
	n      int
	defBlk []*ssa.BasicBlock
	ipdom  []int // immediate post-dominator block index per block, -1 = exit
	hasPdo bool
}

type Frame struct {
	fn       *ssa.Function
	fi       *fnInfo
	block    *ssa.BasicBlock
	prev     *ssa.BasicBlock
	ip       int
	regs     []Value
	env      []Value
	defers   []deferred
	discard  bool // result not delivered to a caller register (defers, init)
	injected bool // pushed by the engine between two instructions (interleaving hook): returning changes nothing
	inDefers bool // the frame is executing its RunDefers instruction
}

type Outcome struct {
	Kind   string            `json:"kind"` // return, panic, assert, unknown, unwind, unsupported, deadlock, infeasible
	Msg    string            `json:"msg"`
	Site   string            `json:"site"`
	Model  map[string]string `json:"model,omitempty"`
	Nondet []NdRec           `json:"nondet,omitempty"`
	Trace  []string          `json:"trace,omitempty"`
	pc     []*Term
	nd     []ndVar
}

type NdRec struct {
	Name  string `json:"name"`
	Kind  string `json:"kind"`
	W     int    `json:"w"`
	Value string `json:"value"`
}

type ndVar struct {
	t    *Term
	kind string
	cval uint64 // for choose
}

type State struct {
	frames []*Frame
	objs   map[int]*Obj
	epoch  int
	pc     []*Term
	known  map[int]bool
	subst  map[int]*Term
	memo   map[int]*Term
	steps  int
	nd     []ndVar
	trace  []string
	held   []Ptr // locks held (for access recording)
	acc    []Access
	aux    map[string]int // misc per-path counters
	budget int
	deadline int
	inject  *FuncV // callback to run before the next instruction
	onUnlock *FuncV
}

type Access struct {
	Obj, Off int
	Write    bool
	Site     string
	Held     string
}

// control signals
type forkReq struct {
	cond   *Term
	subT   *Term // optional: substitute subT := subV on the true side
	subV   *Term
}
type pathEnd struct{ o *Outcome }

type Engine struct {
	prog      *ssa.Program
	fast      *Solver
	strong    *Solver
	alts      map[string]*Solver // fallback obligation solvers, started on first use
	altNames  []string
	strongT   int
	stagedSet bool
	fallbackHits map[string]int
	fallbackErr  map[string]int
	nextObj   int
	nextEpoch int
	base      map[int]*Obj
	globals   map[*ssa.Global]int
	fninfo    map[*ssa.Function]*fnInfo
	outcomes  []*Outcome
	maxSteps  int
	verbose   bool
	stats     Stats
	reached   map[string]int
	witnessed map[string]bool
	params    map[string]int
	tier      int
	merge     bool
	mergeCap  int
	inMerge   int
	funcsHit  map[string]int
	initPkgs  map[string]bool
	record    bool // access recording (C17)
	asserts   map[string]*AssertStat
	traceOn   bool
	symPtrs   bool
	sharedMax int
	lockset   map[[2]int]*lockSet
	prefix    []int
	qprof     map[string]int
	mergeOK   map[siteKey]int
	mergeBad  map[siteKey]int
	lastAbort string
	absHashMod bool
	overrides map[string]*ssa.Function
	overrideGroup map[*ssa.Function]string
	stubsUsed map[string]int
	ndSeq     int
}

type AssertStat struct {
	Checked, Folded, Unsat, Sat, Unknown int
}

type Stats struct {
	Paths, Forks, Steps, Merges, MergeFails int
	Concretize, Cut                         int
}

func (e *Engine) info(fn *ssa.Function) *fnInfo {
	if fi, ok := e.fninfo[fn]; ok {
		return fi
	}
	fi := &fnInfo{idx: map[ssa.Value]int{}}
	for _, p := range fn.Params {
		fi.idx[p] = fi.n
		fi.n++
		fi.defBlk = append(fi.defBlk, nil)
	}
	for _, b := range fn.Blocks {
		for _, in := range b.Instrs {
			if v, ok := in.(ssa.Value); ok {
				fi.idx[v] = fi.n
				fi.n++
				fi.defBlk = append(fi.defBlk, b)
			}
		}
	}
	e.fninfo[fn] = fi
	return fi
}

func (st *State) top() *Frame { return st.frames[len(st.frames)-1] }

func (e *Engine) newEpoch() int { e.nextEpoch++; return e.nextEpoch }

func (e *Engine) clone(st *State) *State {
	n := &State{pc: append([]*Term(nil), st.pc...), steps: st.steps, nd: append([]ndVar(nil), st.nd...), budget: st.budget, deadline: st.deadline, inject: st.inject, onUnlock: st.onUnlock}
	n.known = make(map[int]bool, len(st.known))
	for k := range st.known {
		n.known[k] = true
	}
	if len(st.subst) > 0 {
		n.subst = make(map[int]*Term, len(st.subst))
		for k, v := range st.subst {
			n.subst[k] = v
		}
	}
	n.objs = make(map[int]*Obj, len(st.objs))
	for k, v := range st.objs {
		n.objs[k] = v
	}
	st.epoch = e.newEpoch()
	n.epoch = e.newEpoch()
	for _, f := range st.frames {
		nf := *f
		nf.regs = append([]Value(nil), f.regs...)
		nf.defers = append([]deferred(nil), f.defers...)
		n.frames = append(n.frames, &nf)
	}
	if st.trace != nil {
		n.trace = append([]string(nil), st.trace...)
	}
	n.held = append([]Ptr(nil), st.held...)
	if st.acc != nil {
		n.acc = append([]Access(nil), st.acc...)
	}
	if st.aux != nil {
		n.aux = map[string]int{}
		for k, v := range st.aux {
			n.aux[k] = v
		}
	}
	return n
}

func (st *State) addPC(c *Term) {
	if c.IsTrue() || st.known[c.id] {
		return
	}
	st.pc = append(st.pc, c)
	st.known[c.id] = true
}

func (st *State) setSubst(t, v *Term) {
	if st.subst == nil {
		st.subst = map[int]*Term{}
	}
	st.subst[t.id] = v
	st.memo = nil
}

// resolve applies the state's substitutions to a term.
func (st *State) resolve(t *Term) *Term {
	if len(st.subst) == 0 || t.IsConst() {
		return t
	}
	if st.memo == nil {
		st.memo = map[int]*Term{}
	}
	if r, ok := st.memo[t.id]; ok {
		return r
	}
	var r *Term
	if c, ok := st.subst[t.id]; ok {
		r = c
	} else if len(t.Args) == 0 {
		r = t
	} else {
		args := make([]*Term, len(t.Args))
		changed := false
		for i, a := range t.Args {
			args[i] = st.resolve(a)
			if args[i] != a {
				changed = true
			}
		}
		if !changed {
			r = t
		} else {
			r = rebuild(t, args)
		}
	}
	st.memo[t.id] = r
	return r
}

func rebuild(t *Term, a []*Term) *Term {
	switch t.Op {
	case "bvadd", "bvsub", "bvmul", "bvand", "bvor", "bvxor", "bvudiv", "bvurem", "bvshl", "bvlshr", "bvashr", "bvsdiv", "bvsrem":
		return BinBV(t.Op, a[0], a[1])
	case "=", "bvult", "bvule", "bvslt", "bvsle":
		return Cmp(t.Op, a[0], a[1])
	case "not":
		return Not(a[0])
	case "and":
		return And(a[0], a[1])
	case "or":
		return Or(a[0], a[1])
	case "ite":
		return Ite(a[0], a[1], a[2])
	case "extract":
		return Extract(a[0], t.Hi, t.Lo)
	case "concat":
		return Concat(a[0], a[1])
	case "zext":
		return ZExt(a[0], t.W)
	case "sext":
		return SExt(a[0], t.W)
	case "uf":
		return UF(t.Name, t.W, a...)
	case "fp":
		return FP(t.Name, t.W, a...)
	}
	panic("rebuild " + t.Op)
}

// ---------- memory ----------

func (e *Engine) obj(st *State, id int) *Obj {
	if o, ok := st.objs[id]; ok {
		return o
	}
	if o, ok := e.base[id]; ok {
		return o
	}
	panic(fmt.Sprintf("no object %d", id))
}

func (e *Engine) objW(st *State, id int) *Obj {
	o := e.obj(st, id)
	if o.owner == st.epoch {
		return o
	}
	n := &Obj{cells: append([]Value(nil), o.cells...), m: o.m, mtyp: o.mtyp, owner: st.epoch, note: o.note}
	st.objs[id] = n
	return n
}

func (e *Engine) alloc(st *State, cells []Value, note string) int {
	e.nextObj++
	st.objs[e.nextObj] = &Obj{cells: cells, owner: st.epoch, note: note}
	return e.nextObj
}

func (e *Engine) allocZero(st *State, t types.Type, note string) int {
	return e.alloc(st, appendZero(make([]Value, 0, sizeOf(t)), t), note)
}

func (e *Engine) load(st *State, p Ptr, t types.Type) Value {
	if p.Obj == 0 {
		e.goPanic(st, "nil pointer dereference")
	}
	o := e.obj(st, p.Obj)
	n := sizeOf(t)
	if p.Off < 0 || p.Off+n > len(o.cells) {
		panic(fmt.Sprintf("load out of object: off=%d n=%d len=%d type=%v note=%s", p.Off, n, len(o.cells), t, o.note))
	}
	if e.record {
		e.logAccess(st, p, n, false)
	}
	if isAgg(t) {
		return Agg(append([]Value(nil), o.cells[p.Off:p.Off+n]...))
	}
	return o.cells[p.Off]
}

func (e *Engine) store(st *State, p Ptr, t types.Type, v Value) {
	if p.Obj == 0 {
		e.goPanic(st, "nil pointer dereference")
	}
	n := sizeOf(t)
	o := e.objW(st, p.Obj)
	if p.Off < 0 || p.Off+n > len(o.cells) {
		panic(fmt.Sprintf("store out of object: off=%d n=%d len=%d type=%v", p.Off, n, len(o.cells), t))
	}
	if e.record {
		e.logAccess(st, p, n, true)
	}
	if isAgg(t) {
		a := v.(Agg)
		if len(a) != n {
			panic(fmt.Sprintf("store agg size mismatch %d vs %d for %v", len(a), n, t))
		}
		copy(o.cells[p.Off:], a)
		return
	}
	o.cells[p.Off] = v
}

func (e *Engine) logAccess(st *State, p Ptr, n int, w bool) {
	if len(st.frames) == 0 || st.aux["rec"] != 1 || p.Obj > e.sharedMax || p.Obj == 0 {
		return
	}
	fn := st.top().fn.String()
	if strings.Contains(fn, "VerifHarness") || strings.Contains(fn, "zz_verif") || strings.Contains(st.top().fn.Name(), "vHarness") {
		return // the harness's own observations are not part of the component
	}
	site := e.site(st)
	for c := 0; c < n; c++ {
		key := [2]int{p.Obj, p.Off + c}
		ls := e.lockset[key]
		if ls == nil {
			ls = &lockSet{}
			e.lockset[key] = ls
		}
		cur := map[[2]int]bool{}
		for _, h := range st.held {
			if h.Off >= 0 {
				cur[[2]int{h.Obj, h.Off}] = true // write-mode lock
			} else if !w {
				cur[[2]int{h.Obj, -h.Off - 1}] = true // read-mode lock protects reads only
			}
		}
		if !ls.init {
			ls.init = true
			ls.cands = cur
		} else {
			for k := range ls.cands {
				if !cur[k] {
					delete(ls.cands, k)
				}
			}
		}
		ls.n++
		if w {
			ls.writes++
			if ls.wsite == "" || len(cur) == 0 {
				ls.wsite = site
			}
		} else if ls.rsite == "" || len(cur) == 0 {
			ls.rsite = site
		}
	}
}

type lockSet struct {
	init   bool
	cands  map[[2]int]bool
	n      int
	writes int
	wsite  string
	rsite  string
}

// ---------- outcomes / signals ----------

func (e *Engine) site(st *State) string {
	if len(st.frames) == 0 {
		return "?"
	}
	var parts []string
	for i := len(st.frames) - 1; i >= 0 && len(parts) < 4; i-- {
		fr := st.frames[i]
		pos := token.NoPos
		if fr.block != nil && fr.ip < len(fr.block.Instrs) {
			pos = fr.block.Instrs[fr.ip].Pos()
			if pos == token.NoPos {
				// look backwards for a position
				for k := fr.ip; k >= 0 && pos == token.NoPos; k-- {
					pos = fr.block.Instrs[k].Pos()
				}
			}
		}
		p := e.prog.Fset.Position(pos)
		fn := fr.fn.String()
		if pos != token.NoPos {
			f := p.Filename
			if i := strings.LastIndex(f, "/"); i >= 0 {
				f = f[i+1:]
			}
			parts = append(parts, fmt.Sprintf("%s(%s:%d)", fn, f, p.Line))
		} else {
			parts = append(parts, fn)
		}
	}
	return strings.Join(parts, " < ")
}

func (e *Engine) end(st *State, kind, msg string) {
	panic(pathEnd{&Outcome{Kind: kind, Msg: msg, Site: e.site(st), pc: st.pc, nd: st.nd, Trace: st.trace}})
}

func (e *Engine) goPanic(st *State, msg string) { e.end(st, "panic", msg) }

func (e *Engine) unsupported(st *State, msg string) { e.end(st, "unsupported", msg) }

// ---------- decisions ----------

func (e *Engine) feasible(st *State, c *Term) bool {
	if e.qprof != nil {
		e.qprof[e.site(st)+" :: "+c.Op]++
	}
	r := e.fast.Check(append(append(make([]*Term, 0, len(st.pc)+1), st.pc...), c))
	e.fast.Pop()
	return r != "unsat"
}

// decide returns the truth of c on this path, forking (via forkReq) if both are feasible.
func (e *Engine) decide(st *State, c *Term) bool {
	c = st.resolve(c)
	if c.IsTrue() {
		return true
	}
	if c.IsFalse() {
		return false
	}
	if st.known[c.id] {
		return true
	}
	nc := Not(c)
	if st.known[nc.id] {
		return false
	}
	if c.Op == "and" {
		// decide conjuncts separately (keeps conditions small and reusable)
		return e.decide(st, c.Args[0]) && e.decide(st, c.Args[1])
	}
	if c.Op == "or" {
		return e.decide(st, c.Args[0]) || e.decide(st, c.Args[1])
	}
	if !e.feasible(st, c) {
		st.known[nc.id] = true
		return false
	}
	if !e.feasible(st, nc) {
		st.known[c.id] = true
		return true
	}
	panic(forkReq{cond: c})
}

// concretize returns a concrete value for t, forking over its feasible values.
func (e *Engine) concretize(st *State, t *Term, why string) uint64 {
	for {
		t = st.resolve(t)
		if t.IsConst() {
			return t.U64()
		}
		e.stats.Concretize++
		r := e.fast.Check(st.pc)
		if r == "unsat" {
			e.fast.Pop()
			e.end(st, "infeasible", "concretize")
		}
		if r != "sat" {
			e.fast.Pop()
			e.end(st, "unknown", "concretize("+why+"): solver said "+r)
		}
		v := e.fast.ValueBV(t)
		e.fast.Pop()
		cv := BV(v, t.W)
		c := Cmp("=", t, cv)
		if st.known[c.id] {
			st.setSubst(t, cv)
			continue
		}
		if !e.feasible(st, Not(c)) {
			st.known[c.id] = true
			st.setSubst(t, cv)
			continue
		}
		panic(forkReq{cond: c, subT: t, subV: cv})
	}
}

// ---------- operand evaluation ----------

func constVal(c *ssa.Const) Value {
	t := c.Type()
	if c.Value == nil {
		return zero(t)
	}
	if w, _, ok := intWidth(t); ok {
		v := constant.ToInt(c.Value)
		bi, _ := new(big.Int).SetString(v.ExactString(), 10)
		if bi == nil {
			panic("const int parse " + v.ExactString())
		}
		return BV(bi, w)
	}
	if isBool(t) {
		return Bool(constant.BoolVal(c.Value))
	}
	if isString(t) {
		return constant.StringVal(c.Value)
	}
	if isFloat(t) {
		if b, ok := t.Underlying().(*types.Basic); ok && (b.Kind() == types.Float64 || b.Kind() == types.UntypedFloat) {
			f, _ := constant.Float64Val(constant.ToFloat(c.Value))
			return FloatV{T: BVu(math.Float64bits(f), 64)}
		}
		return FloatV{}
	}
	panic(fmt.Sprintf("const of type %v unsupported", t))
}

func (e *Engine) globalPtr(st *State, g *ssa.Global) Ptr {
	id, ok := e.globals[g]
	if !ok {
		e.nextObj++
		id = e.nextObj
		e.globals[g] = id
		t := g.Type().(*types.Pointer).Elem()
		cells := appendZero(make([]Value, 0, sizeOf(t)), t)
		// package context is not initialised (its init closes a channel); its two sentinel errors are given their values here
		if g.Pkg != nil && g.Pkg.Pkg.Path() == "context" && len(cells) == 1 {
			switch g.Name() {
			case "Canceled":
				if ep := e.prog.ImportedPackage("errors"); ep != nil {
					e.nextObj++
					sid := e.nextObj
					e.base[sid] = &Obj{cells: []Value{"context canceled"}, owner: 0, note: "context.Canceled"}
					cells[0] = Iface{T: types.NewPointer(ep.Type("errorString").Type()), V: Ptr{Obj: sid}}
				}
			case "DeadlineExceeded":
				if dt := g.Pkg.Type("deadlineExceededError"); dt != nil {
					cells[0] = Iface{T: dt.Type(), V: Agg{}}
				}
			}
		}
		e.base[id] = &Obj{cells: cells, owner: 0, note: "global " + g.String()}
	}
	return Ptr{Obj: id}
}

func (e *Engine) get(st *State, fr *Frame, v ssa.Value) Value {
	switch x := v.(type) {
	case *ssa.Const:
		return constVal(x)
	case *ssa.Function:
		return FuncV{Fn: x}
	case *ssa.Builtin:
		return FuncV{Bi: x}
	case *ssa.Global:
		return e.globalPtr(st, x)
	case *ssa.FreeVar:
		for i, fv := range fr.fn.FreeVars {
			if fv == x {
				return fr.env[i]
			}
		}
		panic("freevar not found")
	}
	i, ok := fr.fi.idx[v]
	if !ok {
		panic(fmt.Sprintf("no register for %s (%T) in %s", v.Name(), v, fr.fn))
	}
	r := fr.regs[i]
	if t, ok := r.(*Term); ok && len(st.subst) > 0 {
		return st.resolve(t)
	}
	return r
}

func (e *Engine) getTerm(st *State, fr *Frame, v ssa.Value) *Term {
	x := e.get(st, fr, v)
	t, ok := x.(*Term)
	if !ok {
		if _, isF := x.(FloatV); isF {
			e.unsupported(st, "floating point")
		}
		panic(fmt.Sprintf("expected scalar for %s, got %T in %s", v.Name(), x, fr.fn))
	}
	return t
}

func (e *Engine) setReg(fr *Frame, v ssa.Value, val Value) {
	fr.regs[fr.fi.idx[v]] = val
}

// ---------- arithmetic ----------

// strBytes returns the bytes of a concrete or symbolic string value.
func strBytes(v Value) ([]Value, bool) {
	switch x := v.(type) {
	case string:
		out := make([]Value, len(x))
		for i := 0; i < len(x); i++ {
			out[i] = BVu(uint64(x[i]), 8)
		}
		return out, true
	case SymStr:
		return x.bytes, true
	}
	return nil, false
}

func (e *Engine) binop(st *State, op token.Token, xt types.Type, a, b Value) Value {
	_, symA := a.(SymStr)
	_, symB := b.(SymStr)
	if symA || symB {
		ba, ok1 := strBytes(a)
		bb, ok2 := strBytes(b)
		if !ok1 || !ok2 {
			panic("string op with non-string")
		}
		switch op {
		case token.ADD:
			return SymStr{bytes: append(append([]Value(nil), ba...), bb...)}
		case token.EQL, token.NEQ:
			var eq *Term
			if len(ba) != len(bb) {
				eq = Bool(false)
			} else {
				eq = Bool(true)
				for i := range ba {
					eq = And(eq, Cmp("=", ba[i].(*Term), bb[i].(*Term)))
				}
			}
			if op == token.NEQ {
				return Not(eq)
			}
			return eq
		}
		e.unsupported(st, "ordering of symbolic strings")
	}
	if sa, ok := a.(string); ok {
		sb, ok2 := b.(string)
		if !ok2 {
			panic("string op with non-string")
		}
		switch op {
		case token.ADD:
			return sa + sb
		case token.EQL:
			return Bool(sa == sb)
		case token.NEQ:
			return Bool(sa != sb)
		case token.LSS:
			return Bool(sa < sb)
		case token.LEQ:
			return Bool(sa <= sb)
		case token.GTR:
			return Bool(sa > sb)
		case token.GEQ:
			return Bool(sa >= sb)
		}
		panic("string op " + op.String())
	}
	if fa, ok := a.(FloatV); ok {
		fb, ok2 := b.(FloatV)
		if !ok2 || fa.T == nil || fb.T == nil {
			e.unsupported(st, "floating point arithmetic (only float64 is encoded)")
		}
		switch op {
		case token.ADD:
			return FloatV{T: FP("fp.add", 64, fa.T, fb.T)}
		case token.SUB:
			return FloatV{T: FP("fp.sub", 64, fa.T, fb.T)}
		case token.MUL:
			return FloatV{T: FP("fp.mul", 64, fa.T, fb.T)}
		case token.QUO:
			return FloatV{T: FP("fp.div", 64, fa.T, fb.T)}
		case token.LSS:
			return FP("fp.lt", 0, fa.T, fb.T)
		case token.LEQ:
			return FP("fp.le", 0, fa.T, fb.T)
		case token.GTR:
			return FP("fp.lt", 0, fb.T, fa.T)
		case token.GEQ:
			return FP("fp.le", 0, fb.T, fa.T)
		case token.EQL:
			return FP("fp.eq", 0, fa.T, fb.T)
		case token.NEQ:
			return Not(FP("fp.eq", 0, fa.T, fb.T))
		}
		e.unsupported(st, "floating point operator "+op.String())
	}
	switch op {
	case token.EQL:
		return eqValue(a, b)
	case token.NEQ:
		return Not(eqValue(a, b))
	}
	x, ok1 := a.(*Term)
	y, ok2 := b.(*Term)
	if !ok1 || !ok2 {
		panic(fmt.Sprintf("binop %s on %T,%T", op, a, b))
	}
	if x.W == 0 { // bool ops
		switch op {
		case token.AND, token.LAND:
			return And(x, y)
		case token.OR, token.LOR:
			return Or(x, y)
		case token.XOR:
			return Not(Cmp("=", x, y))
		case token.AND_NOT:
			return And(x, Not(y))
		}
		panic("bool op " + op.String())
	}
	_, signed, _ := intWidth(xt)
	switch op {
	case token.ADD:
		return BinBV("bvadd", x, y)
	case token.SUB:
		return BinBV("bvsub", x, y)
	case token.MUL:
		return BinBV("bvmul", x, y)
	case token.QUO, token.REM:
		if e.decide(st, Cmp("=", y, BVu(0, y.W))) {
			e.goPanic(st, "integer divide by zero")
		}
		if op == token.QUO {
			if signed {
				return BinBV("bvsdiv", x, y)
			}
			return DivNZ("bvudiv", x, y)
		}
		if signed {
			return BinBV("bvsrem", x, y)
		}
		if y.IsConst() && !x.IsConst() && e.absHashMod && hashDerived(x) && pureHashBits(x) && hiBound(x).BitLen() > 32 &&
			new(big.Int).And(y.C, new(big.Int).Sub(y.C, big.NewInt(1))).Sign() != 0 {
			// hash % c for a non-power-of-two c: the hash is uninterpreted, so its residue is an arbitrary
			// function of the same input bounded by c. Small moduli are case-split at once.
			r := UF("uremabs_"+y.C.String(), x.W, x)
			bound := mk(&Term{Op: "bvult", W: 0, Args: []*Term{r, y}}) // raw: the folding layer already assumes it
			if !st.known[bound.id] {
				st.pc = append(st.pc, bound)
				st.known[bound.id] = true
			}
			e.stubsUsed["abstraction: (uninterpreted hash) % "+y.C.String()]++
			if y.C.IsInt64() && y.C.Int64() <= 4096 {
				return BVu(e.concretize(st, r, "hash modulus"), x.W)
			}
			return r
		}
		if y.IsConst() && !x.IsConst() && e.absHashMod && hashDerived(x) && pureHashBits(x) && y.C.IsInt64() && y.C.Int64() <= 4096 {
			// hash % 2^k (small): exact, but case-split at once so that indices derived from it are concrete
			return BVu(e.concretize(st, DivNZ("bvurem", x, y), "hash modulus"), x.W)
		}
		return DivNZ("bvurem", x, y)
	case token.AND:
		return BinBV("bvand", x, y)
	case token.OR:
		return BinBV("bvor", x, y)
	case token.XOR:
		return BinBV("bvxor", x, y)
	case token.AND_NOT:
		return BinBV("bvand", x, BinBV("bvxor", y, BV(mask(y.W), y.W)))
	case token.SHL, token.SHR:
		cnt := y
		if cnt.W < x.W {
			cnt = ZExt(cnt, x.W)
		} else if cnt.W > x.W {
			bigc := Not(Cmp("=", Extract(cnt, cnt.W-1, x.W), BVu(0, cnt.W-x.W)))
			low := Extract(cnt, x.W-1, 0)
			cnt = Ite(bigc, BVu(uint64(x.W), x.W), low)
		}
		if op == token.SHL {
			return BinBV("bvshl", x, cnt)
		}
		if signed {
			return BinBV("bvashr", x, cnt)
		}
		return BinBV("bvlshr", x, cnt)
	case token.LSS, token.LEQ, token.GTR, token.GEQ:
		lt, le := "bvult", "bvule"
		if signed {
			lt, le = "bvslt", "bvsle"
		}
		switch op {
		case token.LSS:
			return Cmp(lt, x, y)
		case token.LEQ:
			return Cmp(le, x, y)
		case token.GTR:
			return Cmp(lt, y, x)
		default:
			return Cmp(le, y, x)
		}
	}
	panic("binop " + op.String())
}

func (e *Engine) convert(st *State, from, to types.Type, v Value) Value {
	if wf, sf, ok := intWidth(from); ok {
		if wt, _, ok2 := intWidth(to); ok2 {
			x := v.(*Term)
			if wt <= wf {
				return Extract(x, wt-1, 0)
			}
			if sf {
				return SExt(x, wt)
			}
			return ZExt(x, wt)
		}
		if isString(to) {
			x := st.resolve(v.(*Term))
			if !x.IsConst() {
				e.unsupported(st, "string(int) of symbolic value")
			}
			return string(rune(x.U64()))
		}
		if isFloat(to) {
			if b, ok := to.Underlying().(*types.Basic); !ok || b.Kind() != types.Float64 {
				return FloatV{}
			}
			x := v.(*Term)
			if sf {
				return FloatV{T: FP("fp.s2f", 64, SExt(x, 64))}
			}
			return FloatV{T: FP("fp.u2f", 64, ZExt(x, 64))}
		}
	}
	if isFloat(from) {
		if isFloat(to) {
			if fb, ok := from.Underlying().(*types.Basic); ok {
				if tb, ok := to.Underlying().(*types.Basic); ok && fb.Kind() != tb.Kind() && !(fb.Kind() == types.UntypedFloat || tb.Kind() == types.UntypedFloat) {
					return FloatV{} // float32 <-> float64: not encoded
				}
			}
			return v
		}
		if wt, st2, ok := intWidth(to); ok {
			f := v.(FloatV)
			if f.T == nil {
				e.unsupported(st, "float to int conversion (only float64 is encoded)")
			}
			if st2 {
				return Extract(FP("fp.f2s", 64, f.T), wt-1, 0)
			}
			return Extract(FP("fp.f2u", 64, f.T), wt-1, 0)
		}
		e.unsupported(st, "float conversion")
	}
	// string <-> []byte / []rune
	if isString(from) {
		if sy, ok := v.(SymStr); ok {
			if sl, ok := to.Underlying().(*types.Slice); ok {
				if w, _, _ := intWidth(sl.Elem()); w == 8 {
					id := e.alloc(st, append([]Value(nil), sy.bytes...), "[]byte(symbolic string)")
					return SliceV{Obj: id, Len: len(sy.bytes), Cap: len(sy.bytes), Stride: 1}
				}
				e.unsupported(st, "[]rune of a symbolic string")
			}
			if isString(to) {
				return v
			}
		}
		if sl, ok := to.Underlying().(*types.Slice); ok {
			s := v.(string)
			if w, _, _ := intWidth(sl.Elem()); w == 8 {
				cells := make([]Value, len(s))
				for i := 0; i < len(s); i++ {
					cells[i] = BVu(uint64(s[i]), 8)
				}
				id := e.alloc(st, cells, "[]byte(string)")
				return SliceV{Obj: id, Len: len(s), Cap: len(s), Stride: 1}
			}
			rs := []rune(s)
			cells := make([]Value, len(rs))
			for i, r := range rs {
				cells[i] = BVu(uint64(r), 32)
			}
			id := e.alloc(st, cells, "[]rune(string)")
			return SliceV{Obj: id, Len: len(rs), Cap: len(rs), Stride: 1}
		}
		if isString(to) {
			return v
		}
	}
	if sl, ok := from.Underlying().(*types.Slice); ok && isString(to) {
		s := v.(SliceV)
		if w, _, _ := intWidth(sl.Elem()); w == 8 {
			buf := make([]byte, s.Len)
			if s.Len > 0 {
				o := e.obj(st, s.Obj)
				for i := 0; i < s.Len; i++ {
					t := st.resolve(o.cells[s.Off+i].(*Term))
					if !t.IsConst() {
						return SymStr{bytes: append([]Value(nil), o.cells[s.Off:s.Off+s.Len]...)}
					}
					buf[i] = byte(t.U64())
				}
			}
			return string(buf)
		}
	}
	if _, ok := from.Underlying().(*types.Pointer); ok {
		return v // unsafe.Pointer conversions: identity on our pointers
	}
	if b, ok := from.Underlying().(*types.Basic); ok && b.Kind() == types.UnsafePointer {
		return v
	}
	panic(fmt.Sprintf("convert %v -> %v unsupported", from, to))
}

// SymStr is a string built from symbolic bytes; only usable as an opaque value (formatting args) or compared bytewise.
type SymStr struct{ bytes []Value }

// ---------- stepping ----------

func (e *Engine) pushFrame(st *State, fn *ssa.Function, args []Value, env []Value, discard bool) {
	if fn.Blocks == nil {
		e.unsupported(st, "call to function without body: "+fn.String())
	}
	if len(st.frames) > 400 {
		if st.deadline > 0 {
			e.end(st, "deadlock", "call did not return: recursion depth 400 exceeded (non-termination) in "+fn.String())
		}
		e.end(st, "unwind", "call depth exceeded in "+fn.String())
	}
	fi := e.info(fn)
	fr := &Frame{fn: fn, fi: fi, block: fn.Blocks[0], regs: make([]Value, fi.n), env: env, discard: discard}
	if len(args) != len(fn.Params) {
		panic(fmt.Sprintf("arg count mismatch calling %s: %d vs %d", fn, len(args), len(fn.Params)))
	}
	copy(fr.regs, args)
	st.frames = append(st.frames, fr)
	e.funcsHit[fn.String()]++
}

// deliver a call result to the top frame (which is positioned at the call instruction) and advance.
func (e *Engine) deliver(st *State, res Value) {
	fr := st.top()
	in := fr.block.Instrs[fr.ip]
	if fr.inDefers {
		return // stay on RunDefers
	}
	if v, ok := in.(*ssa.Call); ok {
		e.setReg(fr, v, res)
	}
	fr.ip++
}

func (e *Engine) jump(fr *Frame, to *ssa.BasicBlock) {
	fr.prev = fr.block
	fr.block = to
	fr.ip = 0
}

func (e *Engine) step(st *State) {
	if st.inject != nil {
		cb := st.inject
		st.inject = nil
		e.pushFrame(st, cb.Fn, nil, cb.Env, false)
		st.top().injected = true
		return
	}
	fr := st.top()
	in := fr.block.Instrs[fr.ip]
	st.steps++
	e.stats.Steps++
	if st.steps > e.maxSteps {
		e.end(st, "unwind", fmt.Sprintf("step budget %d exhausted", e.maxSteps))
	}
	if st.deadline > 0 && st.steps > st.deadline {
		e.end(st, "deadlock", "call did not return within its step bound (non-termination)")
	}
	if st.budget > 0 && st.steps > st.budget {
		e.stats.Cut++
		e.end(st, "cut", "harness step budget reached (outside the stated bound)")
	}
	switch x := in.(type) {
	case *ssa.DebugRef:
		fr.ip++
	case *ssa.Phi:
		// evaluate all phis of the block simultaneously
		n := 0
		for fr.ip+n < len(fr.block.Instrs) {
			if _, ok := fr.block.Instrs[fr.ip+n].(*ssa.Phi); !ok {
				break
			}
			n++
		}
		pi := -1
		for i, p := range fr.block.Preds {
			if p == fr.prev {
				pi = i
				break
			}
		}
		if pi < 0 {
			panic("phi: pred not found")
		}
		vals := make([]Value, n)
		for k := 0; k < n; k++ {
			vals[k] = e.get(st, fr, fr.block.Instrs[fr.ip+k].(*ssa.Phi).Edges[pi])
		}
		for k := 0; k < n; k++ {
			e.setReg(fr, fr.block.Instrs[fr.ip+k].(*ssa.Phi), vals[k])
		}
		fr.ip += n
	case *ssa.BinOp:
		a, b := e.get(st, fr, x.X), e.get(st, fr, x.Y)
		e.setReg(fr, x, e.binop(st, x.Op, x.X.Type(), a, b))
		fr.ip++
	case *ssa.UnOp:
		e.unop(st, fr, x)
		fr.ip++
	case *ssa.Convert:
		e.setReg(fr, x, e.convert(st, x.X.Type(), x.Type(), e.get(st, fr, x.X)))
		fr.ip++
	case *ssa.ChangeType:
		e.setReg(fr, x, e.get(st, fr, x.X))
		fr.ip++
	case *ssa.ChangeInterface:
		e.setReg(fr, x, e.get(st, fr, x.X))
		fr.ip++
	case *ssa.MakeInterface:
		e.setReg(fr, x, Iface{T: x.X.Type(), V: e.get(st, fr, x.X)})
		fr.ip++
	case *ssa.Extract:
		e.setReg(fr, x, e.get(st, fr, x.Tuple).(Tuple)[x.Index])
		fr.ip++
	case *ssa.Alloc:
		t := x.Type().(*types.Pointer).Elem()
		id := e.allocZero(st, t, "alloc "+t.String())
		e.setReg(fr, x, Ptr{Obj: id})
		fr.ip++
	case *ssa.Store:
		e.storeAny(st, e.get(st, fr, x.Addr), x.Val.Type(), e.get(st, fr, x.Val))
		fr.ip++
	case *ssa.FieldAddr:
		s := x.X.Type().Underlying().(*types.Pointer).Elem().Underlying().(*types.Struct)
		if sp, ok := e.get(st, fr, x.X).(SymPtr); ok {
			sp.Off += fieldOff(s, x.Field)
			e.setReg(fr, x, sp)
			fr.ip++
			return
		}
		p := e.ptrOf(st, e.get(st, fr, x.X))
		if p.Obj == 0 {
			e.goPanic(st, "nil pointer dereference (field address)")
		}
		e.setReg(fr, x, Ptr{Obj: p.Obj, Off: p.Off + fieldOff(s, x.Field)})
		fr.ip++
	case *ssa.Field:
		a := e.get(st, fr, x.X).(Agg)
		s := x.X.Type().Underlying().(*types.Struct)
		off := fieldOff(s, x.Field)
		ft := s.Field(x.Field).Type()
		if isAgg(ft) {
			e.setReg(fr, x, Agg(append([]Value(nil), a[off:off+sizeOf(ft)]...)))
		} else {
			e.setReg(fr, x, a[off])
		}
		fr.ip++
	case *ssa.IndexAddr:
		e.indexAddr(st, fr, x)
		fr.ip++
	case *ssa.Index:
		e.index(st, fr, x)
		fr.ip++
	case *ssa.Slice:
		e.sliceOp(st, fr, x)
		fr.ip++
	case *ssa.MakeSlice:
		n := int(e.concretize(st, e.getTerm(st, fr, x.Len), "make len"))
		c := int(e.concretize(st, e.getTerm(st, fr, x.Cap), "make cap"))
		if n < 0 || c < n || c > 1<<24 {
			e.goPanic(st, "makeslice: len out of range")
		}
		et := x.Type().Underlying().(*types.Slice).Elem()
		es := sizeOf(et)
		cells := make([]Value, 0, c*es)
		if c > 0 {
			cells = appendZero(cells, types.NewArray(et, int64(c)))
		}
		id := e.alloc(st, cells, "makeslice "+et.String())
		e.setReg(fr, x, SliceV{Obj: id, Len: n, Cap: c, Stride: es})
		fr.ip++
	case *ssa.MakeMap:
		e.nextObj++
		st.objs[e.nextObj] = &Obj{m: &MapData{}, mtyp: x.Type().Underlying().(*types.Map), owner: st.epoch, note: "map"}
		e.setReg(fr, x, MapV{Obj: e.nextObj})
		fr.ip++
	case *ssa.MapUpdate:
		e.mapUpdate(st, fr, x)
		fr.ip++
	case *ssa.Lookup:
		e.lookup(st, fr, x)
		fr.ip++
	case *ssa.Range:
		e.rangeOp(st, fr, x)
		fr.ip++
	case *ssa.Next:
		e.nextOp(st, fr, x)
		fr.ip++
	case *ssa.MakeClosure:
		env := make([]Value, len(x.Bindings))
		for i, b := range x.Bindings {
			env[i] = e.get(st, fr, b)
		}
		e.setReg(fr, x, FuncV{Fn: x.Fn.(*ssa.Function), Env: env})
		fr.ip++
	case *ssa.TypeAssert:
		e.typeAssert(st, fr, x)
		fr.ip++
	case *ssa.SliceToArrayPointer:
		s := e.get(st, fr, x.X).(SliceV)
		at := x.Type().Underlying().(*types.Pointer).Elem().Underlying().(*types.Array)
		if int(at.Len()) > s.Len {
			e.goPanic(st, "slice to array pointer: length too short")
		}
		if s.Obj == 0 {
			e.setReg(fr, x, Ptr{})
		} else {
			e.setReg(fr, x, Ptr{Obj: s.Obj, Off: s.Off})
		}
		fr.ip++
	case *ssa.If:
		e.ifOp(st, fr, x)
	case *ssa.Jump:
		e.jump(fr, fr.block.Succs[0])
	case *ssa.Return:
		e.returnOp(st, fr, x)
	case *ssa.Call:
		e.callOp(st, fr, &x.Call, x)
	case *ssa.Defer:
		fv, args := e.resolveCall(st, fr, &x.Call)
		fr.defers = append(fr.defers, deferred{fn: fv, args: args})
		fr.ip++
	case *ssa.RunDefers:
		if len(fr.defers) == 0 {
			fr.inDefers = false
			fr.ip++
			return
		}
		d := fr.defers[len(fr.defers)-1]
		fr.defers = fr.defers[:len(fr.defers)-1]
		fr.inDefers = true
		e.invoke(st, d.fn.(FuncV), d.args, in)
	case *ssa.Panic:
		v := e.get(st, fr, x.X)
		msg := "explicit panic"
		if i, ok := v.(Iface); ok {
			if s, ok := i.V.(string); ok {
				msg += ": " + s
			} else if i.T != nil {
				msg += ": " + i.T.String()
			}
		}
		e.goPanic(st, msg)
	case *ssa.Go:
		e.unsupported(st, "go statement")
	case *ssa.Select:
		e.unsupported(st, "select")
	case *ssa.Send:
		e.unsupported(st, "channel send")
	case *ssa.MakeChan:
		e.unsupported(st, "make chan")
	default:
		e.unsupported(st, fmt.Sprintf("instruction %T", in))
	}
}

func (e *Engine) unop(st *State, fr *Frame, x *ssa.UnOp) {
	switch x.Op {
	case token.MUL:
		e.setReg(fr, x, e.loadAny(st, e.get(st, fr, x.X), x.Type()))
	case token.NOT:
		e.setReg(fr, x, Not(e.getTerm(st, fr, x.X)))
	case token.SUB:
		if f, ok := e.get(st, fr, x.X).(FloatV); ok {
			if f.T == nil {
				e.unsupported(st, "floating point negation (only float64 is encoded)")
			}
			e.setReg(fr, x, FloatV{T: FP("fp.neg", 64, f.T)})
			return
		}
		t := e.getTerm(st, fr, x.X)
		e.setReg(fr, x, BinBV("bvsub", BVu(0, t.W), t))
	case token.XOR:
		t := e.getTerm(st, fr, x.X)
		e.setReg(fr, x, BinBV("bvxor", t, BV(mask(t.W), t.W)))
	case token.ARROW:
		e.unsupported(st, "channel receive")
	default:
		panic("unop " + x.Op.String())
	}
}

func (e *Engine) boundsCheck(st *State, idx *Term, n int, what string) {
	// idx is 64-bit (int); negative values are >= 2^63 unsigned so one unsigned compare suffices
	if !e.decide(st, Cmp("bvult", idx, BVu(uint64(n), idx.W))) {
		e.goPanic(st, fmt.Sprintf("index out of range (%s, len %d)", what, n))
	}
}

func (e *Engine) idxTerm(st *State, fr *Frame, v ssa.Value) *Term {
	t := e.getTerm(st, fr, v)
	if t.W < 64 {
		_, signed, _ := intWidth(v.Type())
		if signed {
			t = SExt(t, 64)
		} else {
			t = ZExt(t, 64)
		}
	}
	return t
}

func (e *Engine) indexAddr(st *State, fr *Frame, x *ssa.IndexAddr) {
	base := e.get(st, fr, x.X)
	idx := e.idxTerm(st, fr, x.Index)
	if sp, ok := base.(SymPtr); ok {
		base = e.ptrOf(st, sp)
	}
	switch b := base.(type) {
	case Ptr: // *array
		if b.Obj == 0 {
			e.goPanic(st, "nil pointer dereference (index address)")
		}
		at := x.X.Type().Underlying().(*types.Pointer).Elem().Underlying().(*types.Array)
		e.boundsCheck(st, idx, int(at.Len()), "array")
		if ri := st.resolve(idx); !ri.IsConst() && e.symPtrs && int(at.Len()) <= 512 {
			e.setReg(fr, x, SymPtr{Obj: b.Obj, Off: b.Off, Stride: sizeOf(at.Elem()), N: int(at.Len()), Idx: ri})
			return
		}
		i := int(e.concretize(st, idx, "array index"))
		e.setReg(fr, x, Ptr{Obj: b.Obj, Off: b.Off + i*sizeOf(at.Elem())})
	case SliceV:
		e.boundsCheck(st, idx, b.Len, "slice")
		if ri := st.resolve(idx); !ri.IsConst() && e.symPtrs && b.Len <= 512 {
			e.setReg(fr, x, SymPtr{Obj: b.Obj, Off: b.Off, Stride: b.Stride, N: b.Len, Idx: ri})
			return
		}
		i := int(e.concretize(st, idx, "slice index"))
		e.setReg(fr, x, Ptr{Obj: b.Obj, Off: b.Off + i*b.Stride})
	default:
		panic(fmt.Sprintf("indexAddr on %T", base))
	}
}

func (e *Engine) index(st *State, fr *Frame, x *ssa.Index) {
	base := e.get(st, fr, x.X)
	idx := e.idxTerm(st, fr, x.Index)
	switch b := base.(type) {
	case Agg:
		at := x.X.Type().Underlying().(*types.Array)
		e.boundsCheck(st, idx, int(at.Len()), "array value")
		es := sizeOf(at.Elem())
		ri := st.resolve(idx)
		if !ri.IsConst() && es == 1 && !isAgg(at.Elem()) && int(at.Len()) <= 64 {
			// guarded select over all elements if scalar
			if r, ok := selectTerm(ri, b); ok {
				e.setReg(fr, x, r)
				return
			}
		}
		i := int(e.concretize(st, idx, "array value index"))
		if isAgg(at.Elem()) {
			e.setReg(fr, x, Agg(append([]Value(nil), b[i*es:(i+1)*es]...)))
		} else {
			e.setReg(fr, x, b[i*es])
		}
	case string:
		e.boundsCheck(st, idx, len(b), "string")
		i := int(e.concretize(st, idx, "string index"))
		e.setReg(fr, x, BVu(uint64(b[i]), 8))
	default:
		panic(fmt.Sprintf("index on %T", base))
	}
}

// selectTerm builds ite(idx==0, v0, ite(idx==1, v1, ...)) if all values are terms of one width.
func selectTerm(idx *Term, vs []Value) (*Term, bool) {
	var r *Term
	for i := len(vs) - 1; i >= 0; i-- {
		t, ok := vs[i].(*Term)
		if !ok {
			return nil, false
		}
		if r == nil {
			r = t
			continue
		}
		if t.W != r.W {
			return nil, false
		}
		r = Ite(Cmp("=", idx, BVu(uint64(i), idx.W)), t, r)
	}
	return r, r != nil
}

func (e *Engine) sliceOp(st *State, fr *Frame, x *ssa.Slice) {
	base := e.get(st, fr, x.X)
	var lo, hi, max int = 0, -1, -1
	if x.Low != nil {
		lo = int(e.concretize(st, e.idxTerm(st, fr, x.Low), "slice low"))
	}
	if x.High != nil {
		hi = int(e.concretize(st, e.idxTerm(st, fr, x.High), "slice high"))
	}
	if x.Max != nil {
		max = int(e.concretize(st, e.idxTerm(st, fr, x.Max), "slice max"))
	}
	if sp, ok := base.(SymPtr); ok {
		base = e.ptrOf(st, sp)
	}
	switch b := base.(type) {
	case string:
		if hi < 0 {
			hi = len(b)
		}
		if lo < 0 || lo > hi || hi > len(b) {
			e.goPanic(st, "slice bounds out of range (string)")
		}
		e.setReg(fr, x, b[lo:hi])
	case Ptr: // *array
		if b.Obj == 0 {
			e.goPanic(st, "nil pointer dereference (slice of array)")
		}
		at := x.X.Type().Underlying().(*types.Pointer).Elem().Underlying().(*types.Array)
		n := int(at.Len())
		if hi < 0 {
			hi = n
		}
		if max < 0 {
			max = n
		}
		if lo < 0 || lo > hi || hi > max || max > n {
			e.goPanic(st, "slice bounds out of range (array)")
		}
		es := sizeOf(at.Elem())
		e.setReg(fr, x, SliceV{Obj: b.Obj, Off: b.Off + lo*es, Len: hi - lo, Cap: max - lo, Stride: es})
	case SliceV:
		if hi < 0 {
			hi = b.Len
		}
		if max < 0 {
			max = b.Cap
		}
		if lo < 0 || lo > hi || hi > max || max > b.Cap {
			e.goPanic(st, fmt.Sprintf("slice bounds out of range [%d:%d:%d] with capacity %d", lo, hi, max, b.Cap))
		}
		if b.Obj == 0 {
			e.setReg(fr, x, SliceV{})
			return
		}
		e.setReg(fr, x, SliceV{Obj: b.Obj, Off: b.Off + lo*b.Stride, Len: hi - lo, Cap: max - lo, Stride: b.Stride})
	default:
		panic(fmt.Sprintf("slice on %T", base))
	}
}

func (e *Engine) typeAssert(st *State, fr *Frame, x *ssa.TypeAssert) {
	v := e.get(st, fr, x.X).(Iface)
	var ok bool
	var res Value
	if it, isI := x.AssertedType.Underlying().(*types.Interface); isI {
		ok = v.T != nil && types.Implements(v.T, it)
		if !ok && v.T != nil {
			// pointer receiver method sets are handled by types.Implements on the dynamic type itself
			ok = types.Implements(v.T, it)
		}
		if ok {
			res = v
		} else {
			res = Iface{}
		}
	} else {
		ok = v.T != nil && types.Identical(v.T, x.AssertedType)
		if ok {
			res = v.V
		} else {
			res = zero(x.AssertedType)
		}
	}
	if x.CommaOk {
		e.setReg(fr, x, Tuple{res, Bool(ok)})
		return
	}
	if !ok {
		e.goPanic(st, fmt.Sprintf("interface conversion: %v is not %v", v.T, x.AssertedType))
	}
	e.setReg(fr, x, res)
}

func (e *Engine) returnOp(st *State, fr *Frame, x *ssa.Return) {
	var res Value
	switch len(x.Results) {
	case 0:
	case 1:
		res = e.get(st, fr, x.Results[0])
	default:
		t := make(Tuple, len(x.Results))
		for i, r := range x.Results {
			t[i] = e.get(st, fr, r)
		}
		res = t
	}
	discard := fr.discard
	if fr.injected {
		st.frames = st.frames[:len(st.frames)-1]
		return
	}
	st.frames = st.frames[:len(st.frames)-1]
	if len(st.frames) == 0 {
		panic(pathEnd{&Outcome{Kind: "return", pc: st.pc, nd: st.nd}})
	}
	if discard {
		caller := st.top()
		if !caller.inDefers {
			caller.ip++
		}
		return
	}
	e.deliver(st, res)
}

func (e *Engine) ifOp(st *State, fr *Frame, x *ssa.If) {
	c := st.resolve(e.getTerm(st, fr, x.Cond))
	var takeTrue bool
	switch {
	case c.IsTrue():
		takeTrue = true
	case c.IsFalse():
		takeTrue = false
	case st.known[c.id]:
		takeTrue = true
	case st.known[Not(c).id]:
		takeTrue = false
	default:
		site := siteKey{fr.fn, fr.block.Index}
		tryM := e.merge && (e.mergeOK[site] > 0 || e.mergeBad[site] < 3)
		if tryM {
			// merge first: both sides are executed under their branch condition, which is sound even if one side
			// is infeasible, and saves the two feasibility queries
			if e.tryMerge(st, fr, x, c) {
				e.mergeOK[site]++
				return
			}
			e.mergeBad[site]++
		}
		if !e.feasible(st, c) {
			st.known[Not(c).id] = true
			takeTrue = false
		} else if !e.feasible(st, Not(c)) {
			st.known[c.id] = true
			takeTrue = true
		} else {
			panic(forkReq{cond: c})
		}
	}
	if takeTrue {
		e.jump(fr, fr.block.Succs[0])
	} else {
		e.jump(fr, fr.block.Succs[1])
	}
}

// ---------- running ----------

// run executes st until a signal; returns the signal (forkReq or pathEnd).
func (e *Engine) run(st *State, stop func(*State) bool) (sig interface{}) {
	ndLen := len(st.nd)
	defer func() {
		if r := recover(); r != nil {
			switch r.(type) {
			case forkReq:
				st.nd = st.nd[:ndLen] // the instruction is re-executed after the fork
				sig = r
			case pathEnd, mergeAbort:
				sig = r
			default:
				fmt.Fprintf(os.Stderr, "ENGINE PANIC at %s: %v\n", e.site(st), r)
				panic(r)
			}
		}
	}()
	for {
		if stop != nil && stop(st) {
			return nil
		}
		ndLen = len(st.nd)
		e.step(st)
	}
}

func (e *Engine) applyFork(st *State, f forkReq) *State {
	e.stats.Forks++
	o := e.clone(st)
	st.addPC(f.cond)
	if f.subT != nil {
		st.setSubst(f.subT, f.subV)
	}
	o.addPC(Not(f.cond))
	return o
}

func (e *Engine) Explore(init *State) {
	stack := []*State{init}
	for len(stack) > 0 {
		st := stack[len(stack)-1]
		stack = stack[:len(stack)-1]
		for {
			sig := e.run(st, nil)
			if f, ok := sig.(forkReq); ok {
				stack = append(stack, e.applyFork(st, f))
				continue
			}
			pe := sig.(pathEnd)
			e.stats.Paths++
			e.finish(st, pe.o)
			break
		}
	}
}

func (e *Engine) finish(st *State, o *Outcome) {
	if o.Kind == "infeasible" {
		return
	}
	if o.Kind != "return" {
		o.nd = st.nd
		o.pc = st.pc
		if st.trace != nil {
			o.Trace = st.trace
		}
	}
	e.outcomes = append(e.outcomes, o)
}

// SymPtr addresses cell Off + Idx*Stride of object Obj for a symbolic in-range index Idx < N.
type SymPtr struct {
	Obj, Off, Stride, N int
	Idx                 *Term
}

// ptrOf returns a concrete pointer, case-splitting a symbolic one over its feasible indices.
func (e *Engine) ptrOf(st *State, v Value) Ptr {
	switch p := v.(type) {
	case Ptr:
		return p
	case SymPtr:
		i := int(e.concretize(st, p.Idx, "symbolic pointer"))
		return Ptr{Obj: p.Obj, Off: p.Off + i*p.Stride}
	}
	panic(fmt.Sprintf("expected pointer, got %T", v))
}

func (e *Engine) loadAny(st *State, pv Value, t types.Type) Value {
	sp, ok := pv.(SymPtr)
	if !ok {
		return e.load(st, pv.(Ptr), t)
	}
	idx := st.resolve(sp.Idx)
	if idx.IsConst() {
		return e.load(st, Ptr{sp.Obj, sp.Off + int(idx.U64())*sp.Stride}, t)
	}
	n := sizeOf(t)
	o := e.obj(st, sp.Obj)
	out := make([]Value, n)
	for c := 0; c < n; c++ {
		var r *Term
		for k := sp.N - 1; k >= 0; k-- {
			cell, ok := o.cells[sp.Off+k*sp.Stride+c].(*Term)
			if !ok || (r != nil && cell.W != r.W) {
				return e.load(st, e.ptrOf(st, sp), t)
			}
			if r == nil {
				r = cell
			} else {
				r = Ite(Cmp("=", idx, BVu(uint64(k), idx.W)), cell, r)
			}
		}
		out[c] = r
	}
	if e.record {
		e.logAccess(st, Ptr{sp.Obj, sp.Off}, sp.N*sp.Stride, false)
	}
	if isAgg(t) {
		return Agg(out)
	}
	return out[0]
}

func (e *Engine) storeAny(st *State, pv Value, t types.Type, v Value) {
	sp, ok := pv.(SymPtr)
	if !ok {
		e.store(st, pv.(Ptr), t, v)
		return
	}
	idx := st.resolve(sp.Idx)
	if idx.IsConst() {
		e.store(st, Ptr{sp.Obj, sp.Off + int(idx.U64())*sp.Stride}, t, v)
		return
	}
	n := sizeOf(t)
	var vals []Value
	if isAgg(t) {
		vals = v.(Agg)
	} else {
		vals = []Value{v}
	}
	o := e.obj(st, sp.Obj)
	for c := 0; c < n; c++ {
		nv, ok := vals[c].(*Term)
		if !ok {
			e.store(st, e.ptrOf(st, sp), t, v)
			return
		}
		for k := 0; k < sp.N; k++ {
			cell, ok := o.cells[sp.Off+k*sp.Stride+c].(*Term)
			if !ok || cell.W != nv.W {
				e.store(st, e.ptrOf(st, sp), t, v)
				return
			}
		}
	}
	ow := e.objW(st, sp.Obj)
	for c := 0; c < n; c++ {
		nv := vals[c].(*Term)
		for k := 0; k < sp.N; k++ {
			i := sp.Off + k*sp.Stride + c
			ow.cells[i] = Ite(Cmp("=", idx, BVu(uint64(k), idx.W)), nv, ow.cells[i].(*Term))
		}
	}
	if e.record {
		e.logAccess(st, Ptr{sp.Obj, sp.Off}, sp.N*sp.Stride, true)
	}
}

type siteKey struct {
	fn  *ssa.Function
	blk int
}
