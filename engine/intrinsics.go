package main

import (
	"strings"
	"time"
	"crypto/sha256"
	"fmt"
	"go/types"
	"math/big"

	"golang.org/x/tools/go/ssa"
)

type intrinsic func(e *Engine, st *State, args []Value, in ssa.Instruction) Value

const zz = "github.com/protolambda/zrnt/eth2/zzverif."

var intrinsics = map[string]intrinsic{}

var errorIface = types.Universe.Lookup("error").Type().Underlying().(*types.Interface)

func (e *Engine) nondet(st *State, w int, kind string) *Term {
	v := Var(fmt.Sprintf("nd%d_w%d", len(st.nd), w), w)
	st.nd = append(st.nd, ndVar{t: v, kind: kind})
	return v
}

func (e *Engine) nondetBytes(st *State, n int) Agg {
	v := e.nondet(st, 8*n, fmt.Sprintf("bytes%d", n))
	out := make(Agg, n)
	for i := range out {
		out[i] = Extract(v, 8*(n-i)-1, 8*(n-i-1))
	}
	return out
}

func (e *Engine) sliceCells(st *State, s SliceV) []Value {
	if s.Len == 0 {
		return nil
	}
	o := e.obj(st, s.Obj)
	if e.record {
		e.logAccess(st, Ptr{s.Obj, s.Off}, s.Len*s.Stride, false)
	}
	return o.cells[s.Off : s.Off+s.Len*s.Stride]
}

func (e *Engine) hashUF(st *State, bs []Value, name string) Agg {
	allConst := true
	rs := make([]Value, len(bs))
	for i, b := range bs {
		t := st.resolve(b.(*Term))
		rs[i] = t
		if !t.IsConst() {
			allConst = false
		}
	}
	out := make(Agg, 32)
	if allConst {
		buf := make([]byte, len(rs))
		for i, b := range rs {
			buf[i] = byte(b.(*Term).U64())
		}
		h := sha256.Sum256(buf)
		for i := range out {
			out[i] = BVu(uint64(h[i]), 8)
		}
		return out
	}
	var h *Term
	if len(rs) == 0 {
		h = UF(name+"_0", 256)
	} else {
		h = UF(fmt.Sprintf("%s_%d", name, len(rs)), 256, concatBytes(rs))
	}
	// ztyp uses the all-zero root as "hash not cached": real SHA-256 outputs are never zero in practice, and the
	// model assumes so for the uninterpreted function as well (stated assumption)
	nz := Not(Cmp("=", h, BVu(0, 256)))
	if !st.known[nz.id] {
		st.pc = append(st.pc, nz)
		st.known[nz.id] = true
	}
	for i := range out {
		out[i] = Extract(h, 255-8*i, 248-8*i)
	}
	return out
}

func (e *Engine) errorValue(st *State, msg string) Value {
	pkg := e.prog.ImportedPackage("errors")
	if pkg == nil {
		panic("errors package not loaded")
	}
	t := pkg.Type("errorString").Type()
	id := e.alloc(st, []Value{msg}, "error")
	return Iface{T: types.NewPointer(t), V: Ptr{Obj: id}}
}

func (e *Engine) checkObligation(st *State, c *Term, label string, in ssa.Instruction) (holds bool) {
	as := e.asserts[label]
	if as == nil {
		as = &AssertStat{}
		e.asserts[label] = as
	}
	c = st.resolve(c)
	as.Checked++
	if c.IsTrue() {
		as.Folded++
		return true
	}
	if st.known[c.id] {
		as.Folded++
		return true
	}
	q := append(append(make([]*Term, 0, len(st.pc)+1), st.pc...), Not(c))
	r, sv := e.strongCheck(q)
	switch r {
	case "unsat":
		as.Unsat++
		sv.Pop()
		st.known[c.id] = true // implied by the path condition: nothing to add
		return true
	case "sat":
		as.Sat++
		o := &Outcome{Kind: "assert", Msg: label, Site: e.site(st), Trace: st.trace}
		o.Nondet = e.modelOf(sv, st.nd)
		sv.Pop()
		e.outcomes = append(e.outcomes, o)
	default:
		as.Unknown++
		e.outcomes = append(e.outcomes, &Outcome{Kind: "unknown", Msg: label + ": solver answered " + r, Site: e.site(st)})
	}
	return false
}

// strongCheck discharges an obligation query with the obligation solver and, when that one answers unknown (timeout),
// with the other installed solvers in turn (a portfolio: every solver decides the same regenerated query; a verdict is
// only ever "sat"/"unsat" from a solver that printed no error line). On sat/unsat the deciding solver is returned with the
// query frame still pushed (the caller reads the model and pops); on unknown nothing is left pushed.
func (e *Engine) strongCheck(q []*Term) (string, *Solver) {
	staged := len(e.altNames) > 0 && (e.strong.Name == "z3" || e.strong.Name == "z3-new") && e.strongT > 30000
	if staged && !e.stagedSet {
		// first pass of the obligation solver with a third of the budget; the full budget is used in the last pass
		e.strong.send(fmt.Sprintf("(set-option :timeout %d)", e.strongT/3))
		e.stagedSet = true
	}
	r := e.strong.Check(q)
	if r == "sat" || r == "unsat" {
		return r, e.strong
	}
	e.strong.Pop()
	if r == "error" {
		return r, nil
	}
	for _, name := range e.altNames {
		s := e.alts[name]
		if s == nil {
			b, a := solverCmd(name, e.strongT)
			s = NewSolver(b, a...)
			s.Name = name
			s.AbsHeavyDiv = absHeavyDiv
			s.HardLimit = time.Duration(e.strongT)*time.Millisecond + 45*time.Second
			if name == "cvc5" {
				s.send("(set-logic ALL)")
			}
			if e.alts == nil {
				e.alts = map[string]*Solver{}
			}
			e.alts[name] = s
		}
		r2 := s.Check(q)
		if r2 == "sat" || r2 == "unsat" {
			e.strong.NUnknown-- // decided after all
			e.fallbackHits[name]++
			return r2, s
		}
		if r2 == "error" {
			// the fallback solver rejected part of the encoding: its answer is discarded and the process restarted
			e.fallbackErr[name]++
			s.Close()
			delete(e.alts, name)
			continue
		}
		s.Pop()
	}
	if staged {
		e.strong.send(fmt.Sprintf("(set-option :timeout %d)", e.strongT))
		r = e.strong.Check(q)
		e.strong.Queries--
		if r == "sat" || r == "unsat" {
			e.strong.NUnknown--
			e.strong.send(fmt.Sprintf("(set-option :timeout %d)", e.strongT/3))
			return r, e.strong
		}
		e.strong.Pop()
		if r != "error" {
			e.strong.NUnknown--
		}
		e.strong.send(fmt.Sprintf("(set-option :timeout %d)", e.strongT/3))
	}
	return r, nil
}

func (e *Engine) modelOf(s *Solver, nd []ndVar) []NdRec {
	var out []NdRec
	for _, v := range nd {
		r := NdRec{Name: v.t.Name, Kind: v.kind, W: v.t.W}
		if v.t.IsConst() {
			r.Value = v.t.C.Text(16)
		} else {
			r.Value = s.ValueBV(v.t).Text(16)
		}
		out = append(out, r)
	}
	return out
}

func init() {
	nd := func(w int, kind string) intrinsic {
		return func(e *Engine, st *State, a []Value, in ssa.Instruction) Value { return e.nondet(st, w, kind) }
	}
	intrinsics[zz+"NondetU64"] = nd(64, "u64")
	intrinsics[zz+"NondetU32"] = nd(32, "u32")
	intrinsics[zz+"NondetU16"] = nd(16, "u16")
	intrinsics[zz+"NondetU8"] = nd(8, "u8")
	intrinsics[zz+"NondetBool"] = func(e *Engine, st *State, a []Value, in ssa.Instruction) Value {
		return Cmp("=", e.nondet(st, 1, "bool"), BVu(1, 1))
	}
	nb := func(n int) intrinsic {
		return func(e *Engine, st *State, a []Value, in ssa.Instruction) Value { return e.nondetBytes(st, n) }
	}
	intrinsics[zz+"NondetBytes32"] = nb(32)
	intrinsics[zz+"NondetBytes48"] = nb(48)
	intrinsics[zz+"NondetBytes96"] = nb(96)
	intrinsics[zz+"NondetBytes20"] = nb(20)
	intrinsics[zz+"NondetBytes4"] = nb(4)
	intrinsics[zz+"NondetBytes"] = func(e *Engine, st *State, a []Value, in ssa.Instruction) Value {
		n := int(e.concretize(st, a[0].(*Term), "NondetBytes length"))
		if n == 0 {
			id := e.alloc(st, nil, "nondet bytes")
			return SliceV{Obj: id, Stride: 1}
		}
		id := e.alloc(st, []Value(e.nondetBytes(st, n)), "nondet bytes")
		return SliceV{Obj: id, Len: n, Cap: n, Stride: 1}
	}
	intrinsics[zz+"Assume"] = func(e *Engine, st *State, a []Value, in ssa.Instruction) Value {
		c := st.resolve(a[0].(*Term))
		if c.IsFalse() {
			e.end(st, "infeasible", "assume")
		}
		if c.IsTrue() || st.known[c.id] {
			return nil
		}
		if st.known[Not(c).id] {
			e.end(st, "infeasible", "assume")
		}
		st.addPC(c) // lazily: infeasibility surfaces at the next feasibility query or Reach
		return nil
	}
	intrinsics[zz+"Assert"] = func(e *Engine, st *State, a []Value, in ssa.Instruction) Value {
		if e.inMerge > 0 {
			panic(mergeAbort{"assert in merge region"})
		}
		c := st.resolve(a[0].(*Term))
		label := a[1].(string)
		if e.checkObligation(st, c, label, in) {
			return nil
		}
		if c.IsFalse() {
			e.end(st, "infeasible", "after failed assert")
		}
		if !c.IsTrue() && !st.known[c.id] {
			if !e.feasible(st, c) {
				e.end(st, "infeasible", "after failed assert")
			}
			st.addPC(c)
		}
		return nil
	}
	intrinsics[zz+"Reach"] = func(e *Engine, st *State, a []Value, in ssa.Instruction) Value {
		if e.inMerge > 0 {
			panic(mergeAbort{"reach in merge region"})
		}
		label := a[0].(string)
		r := e.fast.Check(st.pc)
		e.fast.Pop()
		if r == "unsat" {
			e.end(st, "infeasible", "reach")
		}
		e.reached[label]++
		if r == "sat" {
			e.witnessed[label] = true
		}
		return nil
	}
	intrinsics[zz+"Choose"] = func(e *Engine, st *State, a []Value, in ssa.Instruction) Value {
		n := int(a[0].(*Term).U64())
		k := 0
		for _, x := range st.nd {
			if x.kind == "choose" {
				k++
			}
		}
		v := e.nondet(st, 64, "choose")
		if n <= 0 {
			e.end(st, "infeasible", "choose from empty range")
		}
		if k < len(e.prefix) {
			// sharding: the first choices are dictated by the job
			if e.prefix[k] >= n {
				e.end(st, "infeasible", "shard prefix out of range")
			}
			c := BVu(uint64(e.prefix[k]), 64)
			st.addPC(Cmp("=", v, c))
			st.setSubst(v, c)
			return c
		}
		// a fresh variable can take every value: fork without consulting the solver
		for i := 0; i < n-1; i++ {
			c := BVu(uint64(i), 64)
			eq := Cmp("=", v, c)
			if st.known[eq.id] {
				st.setSubst(v, c)
				return c
			}
			if st.known[Not(eq).id] {
				continue
			}
			panic(forkReq{cond: eq, subT: v, subV: c})
		}
		c := BVu(uint64(n-1), 64)
		st.addPC(Cmp("=", v, c))
		st.setSubst(v, c)
		return c
	}
	intrinsics[zz+"Tier"] = func(e *Engine, st *State, a []Value, in ssa.Instruction) Value {
		return BVu(uint64(e.tier), 64)
	}
	intrinsics[zz+"Param"] = func(e *Engine, st *State, a []Value, in ssa.Instruction) Value {
		name := a[0].(string)
		if v, ok := e.params[name]; ok {
			return BVu(uint64(v), 64)
		}
		return a[1]
	}
	intrinsics[zz+"StepBudget"] = func(e *Engine, st *State, a []Value, in ssa.Instruction) Value {
		st.budget = st.steps + int(a[0].(*Term).U64())
		return nil
	}
	intrinsics[zz+"UseOverrides"] = func(e *Engine, st *State, a []Value, in ssa.Instruction) Value {
		if st.aux == nil {
			st.aux = map[string]int{}
		}
		st.aux["ovr:"+a[0].(string)] = 1
		return nil
	}
	intrinsics[zz+"MustReturnWithin"] = func(e *Engine, st *State, a []Value, in ssa.Instruction) Value {
		n := int(a[0].(*Term).U64())
		if n == 0 {
			st.deadline = 0
		} else {
			st.deadline = st.steps + n
		}
		return nil
	}
	intrinsics[zz+"SharedBegin"] = func(e *Engine, st *State, a []Value, in ssa.Instruction) Value {
		if e.sharedMax == 0 {
			e.sharedMax = e.nextObj
		}
		if st.aux == nil {
			st.aux = map[string]int{}
		}
		st.aux["rec"] = 1
		e.record = true
		return nil
	}
	intrinsics[zz+"SharedEnd"] = func(e *Engine, st *State, a []Value, in ssa.Instruction) Value {
		if st.aux != nil {
			st.aux["rec"] = 0
		}
		return nil
	}
	intrinsics[zz+"OnUnlock"] = func(e *Engine, st *State, a []Value, in ssa.Instruction) Value {
		f := a[0].(FuncV)
		if f.Fn == nil {
			st.onUnlock = nil
		} else {
			st.onUnlock = &f
		}
		return nil
	}
	intrinsics[zz+"LocksHeld"] = func(e *Engine, st *State, a []Value, in ssa.Instruction) Value {
		return BVu(uint64(len(st.held)), 64)
	}
	intrinsics[zz+"Opaque64"] = func(e *Engine, st *State, a []Value, in ssa.Instruction) Value {
		return UF("opaque_"+a[0].(string), 64, a[1].(*Term))
	}
	intrinsics[zz+"Note"] = func(e *Engine, st *State, a []Value, in ssa.Instruction) Value {
		if e.traceOn {
			st.trace = append(st.trace, a[0].(string))
		}
		return nil
	}
	intrinsics[zz+"Concrete"] = func(e *Engine, st *State, a []Value, in ssa.Instruction) Value {
		return BVu(e.concretize(st, a[0].(*Term), "Concrete"), 64)
	}
	intrinsics[zz+"Ite"] = func(e *Engine, st *State, a []Value, in ssa.Instruction) Value {
		return Ite(a[0].(*Term), a[1].(*Term), a[2].(*Term))
	}
	intrinsics[zz+"Hash"] = func(e *Engine, st *State, a []Value, in ssa.Instruction) Value {
		return e.hashUF(st, e.sliceCells(st, a[0].(SliceV)), "sha")
	}
	intrinsics[zz+"LenAny"] = func(e *Engine, st *State, a []Value, in ssa.Instruction) Value {
		return BVu(uint64(a[0].(Iface).V.(SliceV).Len), 64)
	}
	intrinsics[zz+"SwapAny"] = func(e *Engine, st *State, a []Value, in ssa.Instruction) Value {
		s := a[0].(Iface).V.(SliceV)
		i := int(e.concretize(st, a[1].(*Term), "swap i"))
		j := int(e.concretize(st, a[2].(*Term), "swap j"))
		o := e.objW(st, s.Obj)
		for k := 0; k < s.Stride; k++ {
			x, y := s.Off+i*s.Stride+k, s.Off+j*s.Stride+k
			o.cells[x], o.cells[y] = o.cells[y], o.cells[x]
		}
		return nil
	}

	// ---- error / formatting stubs ----
	errStub := func(e *Engine, st *State, a []Value, in ssa.Instruction) Value {
		msg := "error"
		if s, ok := a[0].(string); ok {
			msg = s
		}
		return e.errorValue(st, msg)
	}
	// fmt.Errorf: the message is not formatted, but an operand wrapped with %w stays reachable (fmt.wrapError), so that
	// errors.Is / errors.Unwrap see through it as they do natively
	intrinsics["fmt.Errorf"] = func(e *Engine, st *State, a []Value, in ssa.Instruction) Value {
		msg := "error"
		if s, ok := a[0].(string); ok {
			msg = s
		}
		if strings.Contains(msg, "%w") && len(a) > 1 {
			if sl, ok := a[1].(SliceV); ok && sl.Len > 0 {
				if fp := e.prog.ImportedPackage("fmt"); fp != nil && fp.Type("wrapError") != nil {
					o := e.obj(st, sl.Obj)
					for i := 0; i < sl.Len; i++ {
						if ifc, ok := o.cells[sl.Off+i*sl.Stride].(Iface); ok && ifc.T != nil && types.Implements(ifc.T, errorIface) {
							id := e.alloc(st, []Value{msg, ifc}, "fmt.wrapError")
							return Iface{T: types.NewPointer(fp.Type("wrapError").Type()), V: Ptr{Obj: id}}
						}
					}
				}
			}
		}
		return e.errorValue(st, msg)
	}
	intrinsics["errors.New"] = errStub
	// errors.Is over the values this engine builds: identity, then the chain of fmt.wrapError operands (custom Is/Unwrap
	// methods are not consulted; the repository defines none)
	intrinsics["errors.Is"] = func(e *Engine, st *State, a []Value, in ssa.Instruction) Value {
		err, _ := a[0].(Iface)
		target, _ := a[1].(Iface)
		for depth := 0; depth < 32; depth++ {
			if err.T == nil || target.T == nil {
				return Bool(err.T == nil && target.T == nil)
			}
			if types.Identical(err.T, target.T) && sameValue(err.V, target.V) {
				return Bool(true)
			}
			pt, ok := err.T.(*types.Pointer)
			if !ok {
				return Bool(false)
			}
			nt, ok := pt.Elem().(*types.Named)
			if !ok || nt.Obj().Pkg() == nil || nt.Obj().Pkg().Path() != "fmt" || nt.Obj().Name() != "wrapError" {
				return Bool(false)
			}
			inner, ok := e.obj(st, err.V.(Ptr).Obj).cells[1].(Iface)
			if !ok {
				return Bool(false)
			}
			err = inner
		}
		return Bool(false)
	}
	strStub := func(e *Engine, st *State, a []Value, in ssa.Instruction) Value { return "<formatted>" }
	intrinsics["fmt.Sprintf"] = strStub
	intrinsics["fmt.Sprint"] = strStub
	intrinsics["fmt.Sprintln"] = strStub
	// hex.EncodeToString: exact, as terms (two characters per byte), without executing the table lookups
	intrinsics["encoding/hex.EncodeToString"] = func(e *Engine, st *State, a []Value, in ssa.Instruction) Value {
		src := a[0].(SliceV)
		var out []Value
		allConst := true
		var buf []byte
		if src.Len > 0 {
			o := e.obj(st, src.Obj)
			for i := 0; i < src.Len; i++ {
				b := st.resolve(o.cells[src.Off+i*src.Stride].(*Term))
				for _, nib := range []*Term{Extract(b, 7, 4), Extract(b, 3, 0)} {
					n := ZExt(nib, 8)
					ch := Ite(Cmp("bvult", n, BVu(10, 8)), BinBV("bvadd", n, BVu('0', 8)), BinBV("bvadd", n, BVu('a'-10, 8)))
					if ch.IsConst() {
						buf = append(buf, byte(ch.U64()))
					} else {
						allConst = false
					}
					out = append(out, ch)
				}
			}
		}
		if allConst {
			return string(buf)
		}
		return SymStr{bytes: out}
	}
	nop := func(e *Engine, st *State, a []Value, in ssa.Instruction) Value { return nil }
	intrinsics["fmt.Println"] = func(e *Engine, st *State, a []Value, in ssa.Instruction) Value {
		return Tuple{BVu(0, 64), Iface{}}
	}
	intrinsics["fmt.Printf"] = intrinsics["fmt.Println"]
	intrinsics["fmt.Fprintf"] = intrinsics["fmt.Println"]
	intrinsics["fmt.Print"] = intrinsics["fmt.Println"]
	_ = nop

	// ---- bytes ----
	intrinsics["bytes.Compare"] = func(e *Engine, st *State, a []Value, in ssa.Instruction) Value {
		x, y := e.sliceCells(st, a[0].(SliceV)), e.sliceCells(st, a[1].(SliceV))
		n := len(x)
		if len(y) < n {
			n = len(y)
		}
		var lenCmp int64
		if len(x) < len(y) {
			lenCmp = -1
		} else if len(x) > len(y) {
			lenCmp = 1
		}
		lc := BV(big.NewInt(lenCmp), 64)
		if n == 0 {
			return lc
		}
		cx, cy := concatBytes(x[:n]), concatBytes(y[:n])
		return Ite(Cmp("=", cx, cy), lc, Ite(Cmp("bvult", cx, cy), BV(big.NewInt(-1), 64), BVu(1, 64)))
	}
	intrinsics["bytes.Equal"] = func(e *Engine, st *State, a []Value, in ssa.Instruction) Value {
		x, y := e.sliceCells(st, a[0].(SliceV)), e.sliceCells(st, a[1].(SliceV))
		if len(x) != len(y) {
			return Bool(false)
		}
		if len(x) == 0 {
			return Bool(true)
		}
		return Cmp("=", concatBytes(x), concatBytes(y))
	}

	// ---- hashing ----
	sum256 := func(e *Engine, st *State, a []Value, in ssa.Instruction) Value {
		return e.hashUF(st, e.sliceCells(st, a[0].(SliceV)), "sha")
	}
	intrinsics["github.com/minio/sha256-simd.Sum256"] = sum256
	intrinsics["crypto/sha256.Sum256"] = sum256
	intrinsics["github.com/protolambda/zrnt/eth2/util/hashing.Sha256Repeat"] = func(e *Engine, st *State, a []Value, in ssa.Instruction) Value {
		return FuncV{Fn: e.prog.ImportedPackage("github.com/minio/sha256-simd").Func("Sum256")}
	}

	intrinsics["github.com/protolambda/ztyp/tree.sha256CombiRepeat"] = func(e *Engine, st *State, a []Value, in ssa.Instruction) Value {
		return FuncV{Fn: e.prog.ImportedPackage("github.com/protolambda/ztyp/tree").Func("sha256Combi")}
	}

	// ---- sync ----
	lockCell := func(e *Engine, st *State, a []Value) (Ptr, *Term) {
		p := e.ptrOf(st, a[0])
		if p.Obj == 0 {
			e.goPanic(st, "nil mutex")
		}
		o := e.obj(st, p.Obj)
		return p, o.cells[p.Off].(*Term)
	}
	setLock := func(e *Engine, st *State, p Ptr, off int, v uint64, w int) {
		o := e.objW(st, p.Obj)
		o.cells[p.Off+off] = BVu(v, w)
	}
	unhold := func(st *State, p Ptr) {
		for i := len(st.held) - 1; i >= 0; i-- {
			if st.held[i] == p || st.held[i] == (Ptr{p.Obj, -p.Off - 1}) {
				st.held = append(st.held[:i:i], st.held[i+1:]...)
				return
			}
		}
	}
	intrinsics["(*sync.Mutex).Lock"] = func(e *Engine, st *State, a []Value, in ssa.Instruction) Value {
		p, s := lockCell(e, st, a)
		if s.U64() != 0 {
			e.end(st, "deadlock", "Lock of a mutex already held by this goroutine")
		}
		setLock(e, st, p, 0, 1, s.W)
		st.held = append(st.held, p)
		return nil
	}
	intrinsics["(*sync.Mutex).Unlock"] = func(e *Engine, st *State, a []Value, in ssa.Instruction) Value {
		p, s := lockCell(e, st, a)
		if s.U64() == 0 {
			e.goPanic(st, "sync: unlock of unlocked mutex")
		}
		setLock(e, st, p, 0, 0, s.W)
		unhold(st, p)
		st.inject = st.onUnlock
		return nil
	}
	// RWMutex: first cell (w.state) = 1 when write-locked; second cell (w.sema) counts readers.
	intrinsics["(*sync.RWMutex).Lock"] = func(e *Engine, st *State, a []Value, in ssa.Instruction) Value {
		p, s := lockCell(e, st, a)
		r := e.obj(st, p.Obj).cells[p.Off+1].(*Term)
		if s.U64() != 0 || r.U64() != 0 {
			e.end(st, "deadlock", "RWMutex.Lock while already held (read or write) by this goroutine")
		}
		setLock(e, st, p, 0, 1, s.W)
		st.held = append(st.held, p)
		return nil
	}
	intrinsics["(*sync.RWMutex).Unlock"] = func(e *Engine, st *State, a []Value, in ssa.Instruction) Value {
		p, s := lockCell(e, st, a)
		if s.U64() == 0 {
			e.goPanic(st, "sync: Unlock of unlocked RWMutex")
		}
		setLock(e, st, p, 0, 0, s.W)
		unhold(st, p)
		st.inject = st.onUnlock
		return nil
	}
	intrinsics["(*sync.RWMutex).RLock"] = func(e *Engine, st *State, a []Value, in ssa.Instruction) Value {
		p, s := lockCell(e, st, a)
		r := e.obj(st, p.Obj).cells[p.Off+1].(*Term)
		if s.U64() != 0 {
			e.end(st, "deadlock", "RWMutex.RLock while write-locked by this goroutine")
		}
		if r.U64() != 0 {
			// recursive read locking deadlocks if a writer is waiting in between; report it.
			e.end(st, "deadlock", "recursive RWMutex.RLock (deadlocks when a writer is queued)")
		}
		setLock(e, st, p, 1, r.U64()+1, r.W)
		st.held = append(st.held, Ptr{p.Obj, -p.Off - 1})
		return nil
	}
	intrinsics["(*sync.RWMutex).RUnlock"] = func(e *Engine, st *State, a []Value, in ssa.Instruction) Value {
		p, _ := lockCell(e, st, a)
		r := e.obj(st, p.Obj).cells[p.Off+1].(*Term)
		if r.U64() == 0 {
			e.goPanic(st, "sync: RUnlock of unlocked RWMutex")
		}
		setLock(e, st, p, 1, r.U64()-1, r.W)
		unhold(st, p)
		st.inject = st.onUnlock
		return nil
	}
}

func init() {
	un := func(op string) intrinsic {
		return func(e *Engine, st *State, args []Value, in ssa.Instruction) Value {
			f, ok := args[0].(FloatV)
			if !ok || f.T == nil {
				e.unsupported(st, "math function on a float that is not an encoded float64")
			}
			return FloatV{T: FP(op, 64, f.T)}
		}
	}
	intrinsics["math.Sqrt"] = un("fp.sqrt")
	intrinsics["math.Floor"] = un("fp.floor")
	intrinsics["math.Ceil"] = un("fp.ceil")
	intrinsics["math.Trunc"] = un("fp.trunc")
	intrinsics["math.Abs"] = un("fp.abs")
	intrinsics["math.Float64bits"] = func(e *Engine, st *State, args []Value, in ssa.Instruction) Value {
		f, ok := args[0].(FloatV)
		if !ok || f.T == nil {
			e.unsupported(st, "math.Float64bits of a float that is not an encoded float64")
		}
		return f.T
	}
	intrinsics["math.Float64frombits"] = func(e *Engine, st *State, args []Value, in ssa.Instruction) Value {
		return FloatV{T: args[0].(*Term)}
	}
}
