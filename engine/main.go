package main

import (
	"encoding/json"
	"flag"
	"fmt"
	"os"
	"path/filepath"
	"sort"
	"strconv"
	"strings"
	"time"

	"golang.org/x/tools/go/packages"
	"golang.org/x/tools/go/ssa"
	"golang.org/x/tools/go/ssa/ssautil"
)

type Result struct {
	Harness   string                 `json:"harness"`
	Pkg       string                 `json:"pkg"`
	Params    map[string]int         `json:"params"`
	Tier      int                    `json:"tier"`
	Status    string                 `json:"status"` // ok, violation, inconclusive
	Outcomes  []*Outcome             `json:"outcomes"`
	Kinds     map[string]int         `json:"outcome_kinds"`
	Stats     Stats                  `json:"stats"`
	Asserts   map[string]*AssertStat `json:"asserts"`
	Reached   map[string]int         `json:"reached"`
	Witnessed []string               `json:"witnessed"`
	Funcs     []string               `json:"functions_encoded"`
	Stubs     map[string]int         `json:"stubs_used"`
	Solver    map[string]interface{} `json:"solver"`
	LoadS     float64                `json:"load_s"`
	InitS     float64                `json:"init_s"`
	ExploreS  float64                `json:"explore_s"`
	Error     string                 `json:"error,omitempty"`
}

func solverCmd(name string, timeoutMs int) (string, []string) {
	switch name {
	case "z3-new":
		return "z3-new", []string{"-in", fmt.Sprintf("-t:%d", timeoutMs)}
	case "cvc5":
		return "cvc5", []string{"--incremental", "--produce-models", "--lang=smt2", fmt.Sprintf("--tlimit-per=%d", timeoutMs)}
	}
	return "z3", []string{"-in", fmt.Sprintf("-t:%d", timeoutMs)}
}

var absHeavyDiv bool
var fastSolverName = "z3"

var allowInit = func(path string) bool {
	if strings.HasPrefix(path, "github.com/protolambda/zrnt/eth2/configs") {
		return false
	}
	if strings.HasPrefix(path, "github.com/protolambda/bls12-381-util") {
		return false
	}
	if strings.HasPrefix(path, "github.com/protolambda/") {
		return true
	}
	switch path {
	case "io", "bytes", "encoding/binary", "sort", "math/bits":
		return true
	}
	return false
}

func main() {
	pkgPath := flag.String("pkg", "", "package dir relative to /repo, e.g. ./eth2/util/math")
	repo := flag.String("repo", "/repo", "repository root")
	hdir := flag.String("harness-dir", "/verif/harness", "harness root")
	with := flag.String("with", "", "extra package dirs (comma separated, relative) whose harness files are overlaid too")
	fns := flag.String("fn", "", "harness function names (comma separated)")
	steps := flag.Int("steps", 2000000, "step budget per path")
	verbose := flag.Bool("v", false, "verbose")
	smtlog := flag.String("smtlog", "", "log solver input")
	tier := flag.Int("tier", 0, "0 quick, 1 thorough")
	paramStr := flag.String("param", "", "k=v,k=v")
	merge := flag.Bool("merge", true, "state merging")
	mergeCap := flag.Int("merge-cap", 3000, "step cap of a merge region")
	out := flag.String("out", "", "result json path (default stdout)")
	solver := flag.String("solver", "z3-new", "obligation solver: z3 (4.8.12), z3-new (5.1.0), cvc5")
	fastSolver := flag.String("fast-solver", "z3", "feasibility solver: z3 (4.8.12) or z3-new (5.1.0)")
	fastT := flag.Int("fast-timeout", 3000, "feasibility query timeout ms")
	strongT := flag.Int("timeout", 60000, "obligation query timeout ms")
	trace := flag.Bool("trace", false, "record call traces")
	absDiv := flag.Bool("abs-heavy-div", false, "replace x/c, x%c (wide x, large non-power-of-two c) by uninterpreted functions in solver queries")
	prefixStr := flag.String("prefix", "", "forced values of the first Choose calls (sharding), comma separated")
	symPtrs := flag.Bool("symptr", true, "guarded loads/stores through symbolically indexed pointers instead of forking")
	record := flag.Bool("record", false, "record heap accesses with held locks (C17)")
	flag.Parse()

	absHeavyDiv = *absDiv
	fastSolverName = *fastSolver
	params := map[string]int{}
	for _, kv := range strings.Split(*paramStr, ",") {
		if kv == "" {
			continue
		}
		p := strings.SplitN(kv, "=", 2)
		v, err := strconv.Atoi(p[1])
		if err != nil {
			panic(err)
		}
		params[p[0]] = v
	}

	t0 := time.Now()
	overlay := map[string][]byte{}
	addDir := func(rel string) {
		rel = strings.TrimPrefix(rel, "./")
		files, _ := filepath.Glob(filepath.Join(*hdir, rel, "*.go"))
		for _, f := range files {
			src, err := os.ReadFile(f)
			if err != nil {
				panic(err)
			}
			overlay[filepath.Join(*repo, rel, "zz_verif_"+filepath.Base(f))] = src
		}
	}
	addDir("eth2/zzverif")
	addDir(*pkgPath)
	for _, w := range strings.Split(*with, ",") {
		if w != "" {
			addDir(w)
		}
	}
	results := []*Result{}
	fail := func(msg string) {
		for _, name := range strings.Split(*fns, ",") {
			results = append(results, &Result{Harness: name, Pkg: *pkgPath, Status: "inconclusive", Error: msg})
		}
		emit(results, *out)
		os.Exit(2)
	}
	cfg := &packages.Config{Mode: packages.LoadAllSyntax, Dir: *repo, Overlay: overlay,
		Env: append(os.Environ(), "GOFLAGS=-mod=mod", "GOPROXY=off", "GOSUMDB=off")}
	pkgs, err := packages.Load(cfg, *pkgPath)
	if err != nil {
		fail("load: " + err.Error())
	}
	var perr []string
	packages.Visit(pkgs, nil, func(p *packages.Package) {
		for _, e := range p.Errors {
			perr = append(perr, e.Error())
		}
	})
	if len(perr) > 0 {
		if len(perr) > 5 {
			perr = perr[:5]
		}
		fail("package errors: " + strings.Join(perr, "; "))
	}
	prog, spkgs := ssautil.AllPackages(pkgs, ssa.InstantiateGenerics)
	prog.Build()
	tLoad := time.Since(t0)

	for _, name := range strings.Split(*fns, ",") {
		f := spkgs[0].Func(name)
		if f == nil {
			results = append(results, &Result{Harness: name, Pkg: *pkgPath, Status: "inconclusive", Error: "no such harness function"})
			continue
		}
		res := runHarness(prog, spkgs[0], f, params, *tier, *steps, *merge, *mergeCap, *solver, *fastT, *strongT, *smtlog, *verbose, *trace, *record, *symPtrs, *prefixStr)
		res.Pkg = *pkgPath
		res.LoadS = tLoad.Seconds()
		results = append(results, res)
	}
	emit(results, *out)
	code := 0
	for _, r := range results {
		if r.Status == "violation" && code == 0 {
			code = 1
		}
		if r.Status == "inconclusive" {
			code = 2
		}
	}
	os.Exit(code)
}

func emit(results []*Result, out string) {
	b, _ := json.MarshalIndent(results, "", " ")
	if out == "" {
		os.Stdout.Write(b)
		fmt.Println()
		return
	}
	os.WriteFile(out, b, 0644)
}

func runHarness(prog *ssa.Program, pkg *ssa.Package, f *ssa.Function, params map[string]int, tier, steps int, merge bool, mergeCap int,
	solver string, fastT, strongT int, smtlog string, verbose, trace, record, symPtrs bool, prefixStr string) (res *Result) {
	res = &Result{Harness: f.Name(), Params: params, Tier: tier, Kinds: map[string]int{}}
	fb, fa := solverCmd(fastSolverName, fastT)
	fast := NewSolver(fb, fa...)
	fast.Incremental = os.Getenv("VERIF_NOINCR") == ""
	sb, sa := solverCmd(solver, strongT)
	strong := NewSolver(sb, sa...)
	strong.Name = solver
	strong.HardLimit = time.Duration(strongT)*time.Millisecond + 45*time.Second
	fast.HardLimit = time.Duration(fastT)*time.Millisecond + 45*time.Second
	fast.AbsHeavyDiv, strong.AbsHeavyDiv = absHeavyDiv, absHeavyDiv
	if solver == "cvc5" {
		strong.send("(set-logic ALL)")
	}
	defer fast.Close()
	defer strong.Close()
	if smtlog != "" {
		lf, _ := os.Create(smtlog)
		strong.log = lf
		defer lf.Close()
		lf2, _ := os.Create(smtlog + ".fast")
		fast.log = lf2
		defer lf2.Close()
	}
	e := &Engine{prog: prog, fast: fast, strong: strong, globals: map[*ssa.Global]int{}, maxSteps: steps, verbose: verbose,
		reached: map[string]int{}, witnessed: map[string]bool{}, params: params, tier: tier, merge: merge, mergeCap: mergeCap,
		base: map[int]*Obj{}, fninfo: map[*ssa.Function]*fnInfo{}, funcsHit: map[string]int{}, asserts: map[string]*AssertStat{},
		lockset: map[[2]int]*lockSet{}, mergeOK: map[siteKey]int{}, mergeBad: map[siteKey]int{}, overrides: map[string]*ssa.Function{}, overrideGroup: map[*ssa.Function]string{}, stubsUsed: map[string]int{}, traceOn: trace}
	e.strongT = strongT
	e.fallbackHits, e.fallbackErr = map[string]int{}, map[string]int{}
	for _, n := range []string{"z3-new", "cvc5", "z3"} {
		if n != solver && os.Getenv("VERIF_NOFALLBACK") == "" {
			e.altNames = append(e.altNames, n)
		}
	}
	defer func() {
		for _, s := range e.alts {
			s.Close()
		}
	}()
	defer func() {
		if r := recover(); r != nil {
			res.Status = "inconclusive"
			res.Error = fmt.Sprintf("engine panic: %v", r)
		}
	}()
	// overrides: harness-package functions named Override_<anything> with a doc-less convention are registered via zzverif.Override calls in init;
	// simpler: functions whose name starts with "VerifOverride_" carry the target in a companion string constant.
	for name, m := range pkg.Members {
		if c, ok := m.(*ssa.NamedConst); ok && strings.HasPrefix(name, "VerifOverrideTarget_") {
			key := strings.TrimPrefix(name, "VerifOverrideTarget_")
			fn := pkg.Func("VerifOverride_" + key)
			if fn != nil {
				group := ""
				if i := strings.Index(key, "__"); i >= 0 {
					group = key[:i]
				}
				e.overrides[strings.Trim(c.Value.Value.ExactString(), "\"")] = fn
				e.overrideGroup[fn] = group
			}
		}
	}
	// package initialisation (concrete)
	t1 := time.Now()
	initFn := pkg.Func("init")
	ist := &State{objs: map[int]*Obj{}, known: map[int]bool{}, epoch: e.newEpoch()}
	e.pushFrame(ist, initFn, nil, nil, false)
	saveMerge := e.merge
	e.merge = false
	e.maxSteps = 50000000
	sig := e.run(ist, nil)
	e.merge = saveMerge
	e.maxSteps = steps
	pe, ok := sig.(pathEnd)
	if !ok || pe.o.Kind != "return" {
		res.Status = "inconclusive"
		if ok {
			res.Error = fmt.Sprintf("package init ended with %s: %s @ %s", pe.o.Kind, pe.o.Msg, pe.o.Site)
		} else {
			res.Error = fmt.Sprintf("package init forked: %v", sig)
		}
		return res
	}
	for id, o := range ist.objs {
		e.base[id] = o
	}
	res.InitS = time.Since(t1).Seconds()
	e.funcsHit = map[string]int{}
	e.stubsUsed = map[string]int{}
	e.stats = Stats{}
	e.record = record
	e.symPtrs = symPtrs
	e.absHashMod = true
	for _, p := range strings.Split(prefixStr, ",") {
		if p != "" {
			v, _ := strconv.Atoi(p)
			e.prefix = append(e.prefix, v)
		}
	}
	if os.Getenv("VERIF_QPROF") != "" {
		e.qprof = map[string]int{}
		defer func() {
			type kv struct {
				k string
				v int
			}
			var l []kv
			for k, v := range e.qprof {
				l = append(l, kv{k, v})
			}
			sort.Slice(l, func(i, j int) bool { return l[i].v > l[j].v })
			for i, x := range l {
				if i < 15 {
					fmt.Fprintf(os.Stderr, "QPROF %6d %s\n", x.v, x.k)
				}
			}
		}()
	}

	st := &State{objs: map[int]*Obj{}, known: map[int]bool{}, epoch: e.newEpoch()}
	e.pushFrame(st, f, nil, nil, false)
	t2 := time.Now()
	e.Explore(st)
	res.ExploreS = time.Since(t2).Seconds()

	res.Stats = e.stats
	res.Asserts = e.asserts
	res.Reached = e.reached
	for k := range e.witnessed {
		res.Witnessed = append(res.Witnessed, k)
	}
	sort.Strings(res.Witnessed)
	for k := range e.funcsHit {
		if !strings.Contains(k, "zz_verif") {
			res.Funcs = append(res.Funcs, k)
		}
	}
	sort.Strings(res.Funcs)
	res.Stubs = e.stubsUsed
	res.Solver = map[string]interface{}{
		"feasibility": map[string]interface{}{"bin": fb, "queries": fast.Queries, "sat": fast.NSat, "unsat": fast.NUnsat, "unknown": fast.NUnknown, "errors": fast.Errors, "total_s": fast.Total.Seconds(), "max_s": fast.MaxQ.Seconds()},
		"obligation":  map[string]interface{}{"bin": sb, "queries": strong.Queries, "sat": strong.NSat, "unsat": strong.NUnsat, "unknown": strong.NUnknown, "errors": strong.Errors, "total_s": strong.Total.Seconds(), "max_s": strong.MaxQ.Seconds(), "last_error": strong.LastErr},
	}
	// lockset (Eraser) verdicts over all recorded paths
	raceSeen := map[string]bool{}
	for key, ls := range e.lockset {
		if ls.writes == 0 || len(ls.cands) > 0 {
			continue
		}
		wfn := ls.wsite
		if k := strings.Index(wfn, " < "); k > 0 {
			wfn = wfn[:k]
		}
		if k := strings.LastIndex(wfn, "("); k > 0 {
			wfn = wfn[:k]
		}
		msg := "lockset: shared cell written in " + wfn + " is not protected by one common lock held exclusively by writers"
		if raceSeen[msg] {
			continue
		}
		raceSeen[msg] = true
		_ = key
		e.outcomes = append(e.outcomes, &Outcome{Kind: "assert", Msg: msg, Site: ls.wsite + " || other access: " + ls.rsite})
	}
	status := "ok"
	seen := map[string]int{}
	for _, o := range e.outcomes {
		res.Kinds[o.Kind]++
		switch o.Kind {
		case "return", "cut":
			continue
		case "assert", "panic", "deadlock":
			if status == "ok" {
				status = "violation"
			}
		default: // unknown, unwind, unsupported
			status = "inconclusive"
		}
		key := o.Kind + "|" + o.Msg + "|" + o.Site
		seen[key]++
		if seen[key] > 3 {
			continue
		}
		if o.Kind != "assert" && o.Nondet == nil && o.pc != nil {
			// obtain a model for the path
			r, sv := e.strongCheck(o.pc)
			if r == "sat" {
				o.Nondet = e.modelOf(sv, o.nd)
				sv.Pop()
			} else if r == "unsat" {
				o.Msg += " [path infeasible under strong solver]"
				sv.Pop()
			} else {
				o.Msg = o.Kind + " path: " + o.Msg + " [feasibility undecided: " + r + "]"
				o.Kind = "unknown"
				status = "inconclusive"
			}
		}
		res.Outcomes = append(res.Outcomes, o)
	}
	if fast.Errors > 0 || strong.Errors > 0 {
		status = "inconclusive"
		res.Error = "solver error line: " + strong.LastErr + fast.LastErr
	}
	if len(e.fallbackHits)+len(e.fallbackErr) > 0 {
		fbm := map[string]interface{}{}
		for n, s := range e.alts {
			fbm[n] = map[string]interface{}{"queries": s.Queries, "sat": s.NSat, "unsat": s.NUnsat, "unknown": s.NUnknown, "decided_after_primary_unknown": e.fallbackHits[n], "total_s": s.Total.Seconds(), "max_s": s.MaxQ.Seconds()}
		}
		for n, c := range e.fallbackErr {
			fbm[n+"_discarded_error_answers"] = c
		}
		res.Solver["obligation_fallback"] = fbm
		res.Solver["obligation"].(map[string]interface{})["unknown"] = strong.NUnknown
	}
	res.Status = status
	return res
}
