package main

import (
	"golang.org/x/tools/go/ssa"
)

type mergeAbort struct{ why string }

// postdoms computes immediate post-dominators (block index, -1 = virtual exit) for fn.
func (e *Engine) postdoms(fn *ssa.Function, fi *fnInfo) {
	if fi.hasPdo {
		return
	}
	fi.hasPdo = true
	n := len(fn.Blocks)
	words := (n + 1 + 63) / 64
	full := make([]uint64, words)
	for i := 0; i <= n; i++ {
		full[i/64] |= 1 << uint(i%64)
	}
	// node n = virtual exit
	pd := make([][]uint64, n+1)
	for i := 0; i < n; i++ {
		pd[i] = append([]uint64(nil), full...)
	}
	pd[n] = make([]uint64, words)
	pd[n][n/64] |= 1 << uint(n%64)
	succs := func(i int) []int {
		b := fn.Blocks[i]
		if len(b.Succs) == 0 {
			return []int{n}
		}
		r := make([]int, len(b.Succs))
		for k, s := range b.Succs {
			r[k] = s.Index
		}
		return r
	}
	changed := true
	for changed {
		changed = false
		for i := n - 1; i >= 0; i-- {
			nw := append([]uint64(nil), full...)
			for _, s := range succs(i) {
				for w := range nw {
					nw[w] &= pd[s][w]
				}
			}
			nw[i/64] |= 1 << uint(i%64)
			for w := range nw {
				if nw[w] != pd[i][w] {
					changed = true
				}
			}
			pd[i] = nw
		}
	}
	count := func(s []uint64) int {
		c := 0
		for _, w := range s {
			for ; w != 0; w &= w - 1 {
				c++
			}
		}
		return c
	}
	fi.ipdom = make([]int, n)
	for i := 0; i < n; i++ {
		best, bestC := -1, -1
		for j := 0; j <= n; j++ {
			if j == i || pd[i][j/64]&(1<<uint(j%64)) == 0 {
				continue
			}
			c := count(pd[j])
			if c > bestC {
				best, bestC = j, c
			}
		}
		if best == n {
			best = -1
		}
		fi.ipdom[i] = best
	}
}

func (e *Engine) tryMerge(st *State, fr *Frame, x *ssa.If, c *Term) bool {
	if e.inMerge >= 8 {
		return false
	}
	e.postdoms(fr.fn, fr.fi)
	j := fr.fi.ipdom[fr.block.Index]
	var J *ssa.BasicBlock
	if j >= 0 {
		J = fr.fn.Blocks[j]
	} else if len(st.frames) < 2 || len(fr.defers) > 0 || fr.discard {
		return false // region ends with the function's return: merge in the caller (needs one)
	}
	depth := len(st.frames)
	a := e.clone(st)
	b := e.clone(st)
	a.addPC(c)
	b.addPC(Not(c))
	e.jump(a.top(), fr.block.Succs[0])
	e.jump(b.top(), fr.block.Succs[1])
	e.inMerge++
	ok := e.runSub(a, depth, J) && e.runSub(b, depth, J)
	e.inMerge--
	if !ok {
		e.stats.MergeFails++
		e.stubsUsed["mergefail: "+e.lastAbort+" @ "+fr.fn.Name()]++
		return false
	}
	m := e.mergeStates(st, a, b, c, J)
	if m == nil {
		e.stats.MergeFails++
		e.stubsUsed["mergefail: "+e.lastAbort+" @ "+fr.fn.Name()]++
		return false
	}
	e.stats.Merges++
	*st = *m
	return true
}

func (e *Engine) runSub(s *State, depth int, J *ssa.BasicBlock) bool {
	start := s.steps
	stop := func(st *State) bool {
		if len(st.frames) < depth {
			if J == nil && len(st.frames) == depth-1 {
				return true // the function returned to its caller: arrival point of a return-merge
			}
			panic(mergeAbort{"frame returned"})
		}
		if st.steps-start > e.mergeCap {
			panic(mergeAbort{"step cap"})
		}
		if len(st.frames) == depth && J != nil {
			fr := st.top()
			if fr.block == J {
				if _, isPhi := fr.block.Instrs[fr.ip].(*ssa.Phi); !isPhi {
					return true
				}
			}
		}
		return false
	}
	sig := e.run(s, stop)
	switch x := sig.(type) {
	case nil:
		return true
	case mergeAbort:
		e.lastAbort = x.why
	case forkReq:
		e.lastAbort = "fork inside region"
	case pathEnd:
		e.lastAbort = "path ended inside region: " + x.o.Kind
	}
	return false
}

func mergeVal(c *Term, a, b Value) (Value, bool) {
	if sameValue(a, b) {
		return a, true
	}
	ta, ok1 := a.(*Term)
	tb, ok2 := b.(*Term)
	if ok1 && ok2 && ta.W == tb.W {
		return Ite(c, ta, tb), true
	}
	if fa, ok := a.(FloatV); ok {
		if fb, ok := b.(FloatV); ok && fa.T != nil && fb.T != nil {
			return FloatV{T: Ite(c, fa.T, fb.T)}, true
		}
		return nil, false
	}
	ga, ok1 := a.(Agg)
	gb, ok2 := b.(Agg)
	if ok1 && ok2 && len(ga) == len(gb) {
		out := make(Agg, len(ga))
		for i := range ga {
			v, ok := mergeVal(c, ga[i], gb[i])
			if !ok {
				return nil, false
			}
			out[i] = v
		}
		return out, true
	}
	ua, ok1 := a.(Tuple)
	ub, ok2 := b.(Tuple)
	if ok1 && ok2 && len(ua) == len(ub) {
		out := make(Tuple, len(ua))
		for i := range ua {
			v, ok := mergeVal(c, ua[i], ub[i])
			if !ok {
				return nil, false
			}
			out[i] = v
		}
		return out, true
	}
	return nil, false
}

func (e *Engine) mergeStates(orig, a, b *State, c *Term, J *ssa.BasicBlock) *State {
	if len(a.frames) != len(b.frames) || len(a.nd) != len(orig.nd) || len(b.nd) != len(orig.nd) {
		e.lastAbort = "structural#1"
		return nil
	}
	if len(a.subst) != len(orig.subst) || len(b.subst) != len(orig.subst) {
		e.lastAbort = "structural#2"
		return nil
	}
	if len(a.held) != len(b.held) || len(a.acc) != len(b.acc) {
		e.lastAbort = "structural#3"
		return nil
	}
	for i := range a.held {
		if a.held[i] != b.held[i] {
			e.lastAbort = "structural#4"
			return nil
		}
	}
	fa, fb := a.top(), b.top()
	if fa.block != fb.block || fa.ip != fb.ip || len(fa.defers) != len(fb.defers) || fa.inDefers != fb.inDefers {
		e.lastAbort = "structural#5"
		return nil
	}
	for i := range fa.defers {
		if !sameValue(fa.defers[i].fn, fb.defers[i].fn) || !sameValue(Tuple(fa.defers[i].args), Tuple(fb.defers[i].args)) {
			e.lastAbort = "structural#6"
			return nil
		}
	}
	for i := range fa.regs {
		if fa.regs[i] == nil || fb.regs[i] == nil {
			if (fa.regs[i] == nil) != (fb.regs[i] == nil) && (J == nil || fa.fi.defBlk[i] == nil || fa.fi.defBlk[i].Dominates(J)) {
				// set on one side only although its definition dominates the join (or the join is a return)
				if J == nil {
					e.lastAbort = "structural: register defined on one side only"
					return nil
				}
			}
			// defined on one side only: an SSA value local to the region, dead after the join
			if fa.regs[i] == nil {
				fa.regs[i] = fb.regs[i]
			}
			continue
		}
		v, ok := mergeVal(c, fa.regs[i], fb.regs[i])
		if !ok {
			// region-local pointers etc. that differ are dead after the join as well if neither side's
			// definition dominates the join; keep a's (a use would have to go through a phi, merged above)
			if J != nil && fa.fi.defBlk[i] != nil && !fa.fi.defBlk[i].Dominates(J) {
				continue // defined in a block that does not dominate the join: no use at or after the join can see it
			}
			e.lastAbort = "structural#7"
			return nil
		}
		fa.regs[i] = v
	}
	// heap
	for id, ob := range b.objs {
		oa, inA := a.objs[id]
		if !inA {
			if _, inO := orig.objs[id]; inO {
				panic("merge: object vanished")
			}
			if _, inBase := e.base[id]; inBase {
				// b copied a base object that a did not touch
				oa = e.base[id]
			} else {
				a.objs[id] = ob // allocated only on b's side
				continue
			}
		}
		if oa == ob {
			continue
		}
		if len(oa.cells) != len(ob.cells) {
			e.lastAbort = "structural#8"
			return nil
		}
		var nm *MapData
		if oa.m != ob.m {
			if oa.m == nil || ob.m == nil || len(oa.m.Keys) != len(ob.m.Keys) {
				e.lastAbort = "structural#9"
				return nil
			}
			nm = &MapData{Keys: oa.m.Keys, Vals: make([]Value, len(oa.m.Vals))}
			for i := range oa.m.Keys {
				if !sameValue(oa.m.Keys[i], ob.m.Keys[i]) {
					e.lastAbort = "structural#10"
					return nil
				}
				v, ok := mergeVal(c, oa.m.Vals[i], ob.m.Vals[i])
				if !ok {
					e.lastAbort = "structural#11"
					return nil
				}
				nm.Vals[i] = v
			}
		}
		var cells []Value
		for i := range oa.cells {
			if sameValue(oa.cells[i], ob.cells[i]) {
				continue
			}
			v, ok := mergeVal(c, oa.cells[i], ob.cells[i])
			if !ok {
				e.lastAbort = "structural#12"
				return nil
			}
			if cells == nil {
				cells = append([]Value(nil), oa.cells...)
			}
			cells[i] = v
		}
		if cells != nil || nm != nil {
			n := &Obj{cells: oa.cells, m: oa.m, mtyp: oa.mtyp, owner: a.epoch, note: oa.note}
			if cells != nil {
				n.cells = cells
			}
			if nm != nil {
				n.m = nm
			}
			a.objs[id] = n
		}
	}
	// objects a modified but b did not: merge against b's view (orig/base)
	for id, oa := range a.objs {
		if _, inB := b.objs[id]; inB {
			continue
		}
		var ob *Obj
		if o, ok := orig.objs[id]; ok {
			ob = o
		} else if o, ok := e.base[id]; ok {
			ob = o
		} else {
			continue // allocated only on a's side
		}
		if oa == ob {
			continue
		}
		if len(oa.cells) != len(ob.cells) || oa.m != ob.m {
			e.lastAbort = "structural#13"
			return nil
		}
		var cells []Value
		for i := range oa.cells {
			if sameValue(oa.cells[i], ob.cells[i]) {
				continue
			}
			v, ok := mergeVal(c, oa.cells[i], ob.cells[i])
			if !ok {
				e.lastAbort = "structural#14"
				return nil
			}
			if cells == nil {
				cells = append([]Value(nil), oa.cells...)
			}
			cells[i] = v
		}
		if cells != nil {
			a.objs[id] = &Obj{cells: cells, m: oa.m, mtyp: oa.mtyp, owner: a.epoch, note: oa.note}
		}
	}
	// path condition
	n0 := len(orig.pc)
	ca, cb := Bool(true), Bool(true)
	for _, t := range a.pc[n0:] {
		ca = And(ca, t)
	}
	for _, t := range b.pc[n0:] {
		cb = And(cb, t)
	}
	a.pc = append(append([]*Term(nil), orig.pc...))
	known := make(map[int]bool, len(orig.known))
	for k := range a.known {
		if b.known[k] {
			known[k] = true
		}
	}
	a.known = known
	a.addPC(Or(ca, cb))
	if b.steps > a.steps {
		a.steps = b.steps
	}
	a.memo = nil
	return a
}

// definedBefore reports whether register i already had a value in the pre-branch state.
func (e *Engine) definedBefore(fa *Frame, i int, orig *State) bool {
	of := orig.top()
	if len(orig.frames) == 0 || of.fn != fa.fn || i >= len(of.regs) {
		return true
	}
	return of.regs[i] != nil
}
