package main

import (
	"math"
	"sort"
	"bufio"
	"fmt"
	"io"
	"math/big"
	"os/exec"
	"strings"
	"time"
)

// Term is a hash-consed SMT term. Width 0 = Bool.
type Term struct {
	Op    string // "const","var","bvadd",... "ite","extract","concat","uf:<name>","not","and","or","=", etc.
	W     int    // bit width, 0 for bool
	Args  []*Term
	C     *big.Int // for const (bool: 0/1)
	Name  string   // for var / uf
	Hi    int      // extract
	Lo    int
	id    int
	key   string
}

var termTable = map[string]*Term{}
var termSeq int

func mk(t *Term) *Term {
	var sb strings.Builder
	sb.WriteString(t.Op)
	sb.WriteByte('|')
	fmt.Fprintf(&sb, "%d|%s|%d|%d|", t.W, t.Name, t.Hi, t.Lo)
	if t.C != nil {
		sb.WriteString(t.C.String())
	}
	for _, a := range t.Args {
		fmt.Fprintf(&sb, ",%d", a.id)
	}
	k := sb.String()
	if e, ok := termTable[k]; ok {
		return e
	}
	termSeq++
	t.id = termSeq
	t.key = k
	termTable[k] = t
	return t
}

func mask(w int) *big.Int {
	m := new(big.Int).Lsh(big.NewInt(1), uint(w))
	return m.Sub(m, big.NewInt(1))
}

func BV(v *big.Int, w int) *Term {
	c := new(big.Int).And(v, mask(w))
	return mk(&Term{Op: "const", W: w, C: c})
}
func BVu(v uint64, w int) *Term { return BV(new(big.Int).SetUint64(v), w) }
func Bool(b bool) *Term {
	if b {
		return mk(&Term{Op: "const", W: 0, C: big.NewInt(1)})
	}
	return mk(&Term{Op: "const", W: 0, C: big.NewInt(0)})
}
func Var(name string, w int) *Term { return mk(&Term{Op: "var", W: w, Name: name}) }

func (t *Term) IsConst() bool { return t.Op == "const" }
func (t *Term) IsTrue() bool  { return t.Op == "const" && t.W == 0 && t.C.Sign() != 0 }
func (t *Term) IsFalse() bool { return t.Op == "const" && t.W == 0 && t.C.Sign() == 0 }
func (t *Term) U64() uint64   { return t.C.Uint64() }

func toSigned(v *big.Int, w int) *big.Int {
	if v.Bit(w-1) == 1 {
		return new(big.Int).Sub(v, new(big.Int).Lsh(big.NewInt(1), uint(w)))
	}
	return v
}

// BinBV builds a bitvector binary op with constant folding.
// DivNZ builds a division/remainder whose divisor is known non-zero on every path that uses the term.
func DivNZ(op string, a, b *Term) *Term {
	divisorNonZero = true
	defer func() { divisorNonZero = false }()
	return BinBV(op, a, b)
}

var divisorNonZero bool

// constLeaves counts the leaves of an ite tree whose leaves are all constants (0 if t is not such a tree or too big).
func constLeaves(t *Term) int {
	if t.IsConst() {
		return 1
	}
	if t.Op != "ite" {
		return 0
	}
	if n, ok := leafMemo[t.id]; ok {
		return n
	}
	l, r := constLeaves(t.Args[1]), constLeaves(t.Args[2])
	n := 0
	if l > 0 && r > 0 && l+r <= 16 {
		n = l + r
	}
	leafMemo[t.id] = n
	return n
}

var leafMemo = map[int]int{}

// liftIte applies f to the leaves of a constant-leaf ite tree.
func liftIte(t *Term, f func(*Term) *Term) *Term {
	if t.IsConst() {
		return f(t)
	}
	return Ite(t.Args[0], liftIte(t.Args[1], f), liftIte(t.Args[2], f))
}

func BinBV(op string, a, b *Term) *Term {
	if a.W != b.W {
		panic(fmt.Sprintf("width mismatch %s %d %d", op, a.W, b.W))
	}
	w := a.W
	if !a.IsConst() || !b.IsConst() {
		la, lb := constLeaves(a), constLeaves(b)
		if la > 1 && b.IsConst() {
			return liftIte(a, func(x *Term) *Term { return BinBV(op, x, b) })
		}
		if lb > 1 && a.IsConst() {
			return liftIte(b, func(y *Term) *Term { return BinBV(op, a, y) })
		}
		if la > 1 && lb > 1 && la*lb <= 16 {
			return liftIte(a, func(x *Term) *Term { return liftIte(b, func(y *Term) *Term { return BinBV(op, x, y) }) })
		}
	}
	if a.IsConst() && b.IsConst() {
		x, y := a.C, b.C
		r := new(big.Int)
		switch op {
		case "bvadd":
			r.Add(x, y)
		case "bvsub":
			r.Sub(x, y)
		case "bvmul":
			r.Mul(x, y)
		case "bvand":
			r.And(x, y)
		case "bvor":
			r.Or(x, y)
		case "bvxor":
			r.Xor(x, y)
		case "bvudiv":
			if y.Sign() == 0 {
				r = mask(w)
			} else {
				r.Div(x, y)
			}
		case "bvurem":
			if y.Sign() == 0 {
				r.Set(x)
			} else {
				r.Mod(x, y)
			}
		case "bvshl":
			if y.Cmp(big.NewInt(int64(w))) >= 0 {
				r.SetInt64(0)
			} else {
				r.Lsh(x, uint(y.Uint64()))
			}
		case "bvlshr":
			if y.Cmp(big.NewInt(int64(w))) >= 0 {
				r.SetInt64(0)
			} else {
				r.Rsh(x, uint(y.Uint64()))
			}
		case "bvashr":
			sx := toSigned(x, w)
			sh := uint(w)
			if y.Cmp(big.NewInt(int64(w))) < 0 {
				sh = uint(y.Uint64())
			}
			r.Rsh(sx, sh)
		case "bvsdiv":
			sx, sy := toSigned(x, w), toSigned(y, w)
			if sy.Sign() == 0 {
				r = mask(w)
			} else {
				r.Quo(sx, sy)
			}
		case "bvsrem":
			sx, sy := toSigned(x, w), toSigned(y, w)
			if sy.Sign() == 0 {
				r.Set(sx)
			} else {
				r.Rem(sx, sy)
			}
		default:
			panic("fold " + op)
		}
		return BV(r, w)
	}
	if (op == "bvudiv" || op == "bvurem") && b.IsConst() && b.C.Sign() > 0 && new(big.Int).And(b.C, new(big.Int).Sub(b.C, big.NewInt(1))).Sign() == 0 {
		k := b.C.BitLen() - 1 // b == 2^k
		if op == "bvurem" {
			if k == 0 {
				return BVu(0, w)
			}
			return ZExt(Extract(a, k-1, 0), w)
		}
		return BinBV("bvlshr", a, BVu(uint64(k), w))
	}
	if op == "bvurem" && b.IsConst() && b.C.Sign() > 0 {
		// x % c with x < 4c: a chain of conditional subtractions instead of a divider
		ha := hiBound(a)
		if ha.Cmp(b.C) < 0 {
			return a
		}
		if q := new(big.Int).Div(ha, b.C); q.IsInt64() && q.Int64() <= 3 {
			r := a
			for k := q.Int64(); k >= 1; k-- {
				kc := BV(new(big.Int).Mul(b.C, big.NewInt(k)), w)
				r = Ite(Cmp("bvule", kc, a), BinBV("bvsub", a, kc), r)
				if k == q.Int64() {
					r = Ite(Cmp("bvule", kc, a), BinBV("bvsub", a, kc), a)
				}
			}
			// build properly: nested from the largest multiple down
			r = a
			for k := int64(1); k <= q.Int64(); k++ {
				kc := BV(new(big.Int).Mul(b.C, big.NewInt(k)), w)
				r = Ite(Cmp("bvule", kc, a), BinBV("bvsub", a, kc), r)
			}
			return r
		}
	}
	if op == "bvlshr" && b.IsConst() && b.C.IsInt64() && int(b.C.Int64()) >= hiBound(a).BitLen() {
		return BVu(0, w)
	}
	if op == "bvand" && b.IsConst() {
		// x & (2^k-1) with x < 2^k
		m := new(big.Int).Add(b.C, big.NewInt(1))
		if m.Sign() > 0 && new(big.Int).And(m, b.C).Sign() == 0 && hiBound(a).Cmp(b.C) <= 0 {
			return a
		}
	}
	if (op == "bvudiv" || op == "bvurem") && w > 8 {
		ha, hb := hiBound(a), hiBound(b)
		k := ha.BitLen()
		if hb.BitLen() > k {
			k = hb.BitLen()
		}
		if k == 0 {
			k = 1
		}
		if k <= w/2 {
			na, nb := Extract(a, k-1, 0), Extract(b, k-1, 0)
			narrow := ZExt(mk(&Term{Op: op, W: k, Args: []*Term{na, nb}}), w)
			var atZero *Term
			if op == "bvudiv" {
				atZero = BV(mask(w), w)
			} else {
				atZero = a
			}
			if divisorNonZero {
				return narrow
			}
			return Ite(Cmp("=", b, BVu(0, w)), atZero, narrow)
		}
	}
	if op == "bvor" && w <= 64 && !a.IsConst() && !b.IsConst() {
		if pa, ok := placed(a, 0); ok {
			if pb, ok := placed(b, 0); ok {
				if u, ok := disjointUnion(pa, pb); ok {
					return assemble(u, w)
				}
			}
		}
	}
	// light simplifications
	switch op {
	case "bvadd", "bvor", "bvxor":
		if a.IsConst() && a.C.Sign() == 0 {
			return b
		}
		if b.IsConst() && b.C.Sign() == 0 {
			return a
		}
	case "bvsub", "bvshl", "bvlshr":
		if b.IsConst() && b.C.Sign() == 0 {
			return a
		}
	case "bvand":
		if (a.IsConst() && a.C.Sign() == 0) || (b.IsConst() && b.C.Sign() == 0) {
			return BVu(0, w)
		}
	}
	return mk(&Term{Op: op, W: w, Args: []*Term{a, b}})
}

var hiMemo = map[int]*big.Int{}

// hiBound returns an unsigned upper bound of a bitvector term.
func hiBound(t *Term) *big.Int {
	if t.W == 0 {
		return big.NewInt(1)
	}
	if t.IsConst() {
		return t.C
	}
	if h, ok := hiMemo[t.id]; ok {
		return h
	}
	m := mask(t.W)
	h := m
	min := func(a, b *big.Int) *big.Int {
		if a.Cmp(b) < 0 {
			return a
		}
		return b
	}
	switch t.Op {
	case "bvurem":
		if t.Args[1].IsConst() && t.Args[1].C.Sign() != 0 {
			h = min(hiBound(t.Args[0]), new(big.Int).Sub(t.Args[1].C, big.NewInt(1)))
		}
	case "bvudiv":
		if t.Args[1].IsConst() && t.Args[1].C.Sign() != 0 {
			h = new(big.Int).Div(hiBound(t.Args[0]), t.Args[1].C)
		}
	case "bvand":
		h = min(hiBound(t.Args[0]), hiBound(t.Args[1]))
	case "bvor", "bvxor":
		// bound by next power of two minus one of max
		a, b := hiBound(t.Args[0]), hiBound(t.Args[1])
		mx := a
		if b.Cmp(a) > 0 {
			mx = b
		}
		h = min(m, mask(mx.BitLen()))
	case "bvlshr":
		if t.Args[1].IsConst() && t.Args[1].C.IsUint64() && t.Args[1].C.Uint64() < uint64(t.W) {
			h = new(big.Int).Rsh(hiBound(t.Args[0]), uint(t.Args[1].C.Uint64()))
		} else {
			h = hiBound(t.Args[0])
		}
	case "bvshl":
		if t.Args[1].IsConst() && t.Args[1].C.IsUint64() && t.Args[1].C.Uint64() < uint64(t.W) {
			h = min(m, new(big.Int).Lsh(hiBound(t.Args[0]), uint(t.Args[1].C.Uint64())))
		}
	case "uf":
		if strings.HasPrefix(t.Name, "uremabs_") {
			c, _ := new(big.Int).SetString(t.Name[len("uremabs_"):], 10)
			h = new(big.Int).Sub(c, big.NewInt(1))
		}
	case "zext":
		h = hiBound(t.Args[0])
	case "extract":
		if t.Lo == 0 {
			h = min(m, hiBound(t.Args[0]))
		}
	case "bvadd":
		s := new(big.Int).Add(hiBound(t.Args[0]), hiBound(t.Args[1]))
		h = min(m, s)
		if s.Cmp(m) > 0 {
			h = m
		}
	case "bvmul":
		s := new(big.Int).Mul(hiBound(t.Args[0]), hiBound(t.Args[1]))
		if s.Cmp(m) <= 0 {
			h = s
		}
	case "bvsub":
		// c - x with x <= c never wraps and is at most c
		if t.Args[0].IsConst() && hiBound(t.Args[1]).Cmp(t.Args[0].C) <= 0 {
			h = t.Args[0].C
		}
	case "ite":
		a, b := hiBound(t.Args[1]), hiBound(t.Args[2])
		h = a
		if b.Cmp(a) > 0 {
			h = b
		}
	}
	hiMemo[t.id] = h
	return h
}

func Cmp(op string, a, b *Term) *Term { // "=", bvult, bvule, bvslt, bvsle
	if a.W != b.W {
		panic(fmt.Sprintf("cmp width mismatch %s %d %d", op, a.W, b.W))
	}
	if a == b {
		switch op {
		case "=", "bvule", "bvsle":
			return Bool(true)
		default:
			return Bool(false)
		}
	}
	if a.W > 0 && (!a.IsConst() || !b.IsConst()) {
		la, lb := constLeaves(a), constLeaves(b)
		if la > 1 && b.IsConst() {
			return liftBool(a, func(x *Term) *Term { return Cmp(op, x, b) })
		}
		if lb > 1 && a.IsConst() {
			return liftBool(b, func(y *Term) *Term { return Cmp(op, a, y) })
		}
		if la > 1 && lb > 1 && la*lb <= 16 {
			return liftBool(a, func(x *Term) *Term { return liftBool(b, func(y *Term) *Term { return Cmp(op, x, y) }) })
		}
	}
	if a.IsConst() && b.IsConst() {
		var c int
		if op == "bvslt" || op == "bvsle" {
			c = toSigned(a.C, a.W).Cmp(toSigned(b.C, b.W))
		} else {
			c = a.C.Cmp(b.C)
		}
		switch op {
		case "=":
			return Bool(c == 0)
		case "bvult", "bvslt":
			return Bool(c < 0)
		case "bvule", "bvsle":
			return Bool(c <= 0)
		}
	}
	if a.W > 0 {
		switch op {
		case "=":
			if b.IsConst() && b.C.Cmp(hiBound(a)) > 0 {
				return Bool(false)
			}
			if a.IsConst() && a.C.Cmp(hiBound(b)) > 0 {
				return Bool(false)
			}
		case "bvult":
			if b.IsConst() && hiBound(a).Cmp(b.C) < 0 {
				return Bool(true)
			}
			if a.IsConst() && hiBound(b).Cmp(a.C) <= 0 {
				return Bool(false)
			}
		case "bvule":
			if b.IsConst() && hiBound(a).Cmp(b.C) <= 0 {
				return Bool(true)
			}
			if a.IsConst() && hiBound(b).Cmp(a.C) < 0 {
				return Bool(false)
			}
		}
	}
	if op == "=" && a.id > b.id {
		a, b = b, a // canonical argument order
	}
	return mk(&Term{Op: op, W: 0, Args: []*Term{a, b}})
}

// liftBool applies a predicate to the leaves of a constant-leaf ite tree.
func liftBool(t *Term, f func(*Term) *Term) *Term {
	if t.IsConst() {
		return f(t)
	}
	return Ite(t.Args[0], liftBool(t.Args[1], f), liftBool(t.Args[2], f))
}

func Not(a *Term) *Term {
	if a.IsConst() {
		return Bool(a.C.Sign() == 0)
	}
	if a.Op == "not" {
		return a.Args[0]
	}
	return mk(&Term{Op: "not", W: 0, Args: []*Term{a}})
}
func And(a, b *Term) *Term {
	if a.IsFalse() || b.IsFalse() {
		return Bool(false)
	}
	if a.IsTrue() {
		return b
	}
	if b.IsTrue() {
		return a
	}
	if a == b {
		return a
	}
	if (a.Op == "not" && a.Args[0] == b) || (b.Op == "not" && b.Args[0] == a) {
		return Bool(false)
	}
	return mk(&Term{Op: "and", W: 0, Args: []*Term{a, b}})
}
func Or(a, b *Term) *Term {
	if a.IsTrue() || b.IsTrue() {
		return Bool(true)
	}
	if a.IsFalse() {
		return b
	}
	if b.IsFalse() {
		return a
	}
	if a == b {
		return a
	}
	if (a.Op == "not" && a.Args[0] == b) || (b.Op == "not" && b.Args[0] == a) {
		return Bool(true)
	}
	return mk(&Term{Op: "or", W: 0, Args: []*Term{a, b}})
}
func Ite(c, a, b *Term) *Term {
	if c.IsTrue() {
		return a
	}
	if c.IsFalse() {
		return b
	}
	if a == b {
		return a
	}
	if a.W == 0 {
		return Or(And(c, a), And(Not(c), b))
	}
	return mk(&Term{Op: "ite", W: a.W, Args: []*Term{c, a, b}})
}
func Extract(a *Term, hi, lo int) *Term {
	if hi == a.W-1 && lo == 0 {
		return a
	}
	if a.IsConst() {
		r := new(big.Int).Rsh(a.C, uint(lo))
		return BV(r, hi-lo+1)
	}
	if constLeaves(a) > 1 {
		return liftIte(a, func(x *Term) *Term { return Extract(x, hi, lo) })
	}
	if a.Op == "concat" {
		// args[0] is high part
		hiPart, loPart := a.Args[0], a.Args[1]
		if hi < loPart.W {
			return Extract(loPart, hi, lo)
		}
		if lo >= loPart.W {
			return Extract(hiPart, hi-loPart.W, lo-loPart.W)
		}
	}
	if a.Op == "zext" && hi < a.Args[0].W {
		return Extract(a.Args[0], hi, lo)
	}
	if a.Op == "bvlshr" && a.Args[1].IsConst() && a.Args[1].C.IsInt64() && int64(hi)+a.Args[1].C.Int64() < int64(a.W) {
		// byte(x >> 8k): the bits of x themselves
		c := int(a.Args[1].C.Int64())
		return Extract(a.Args[0], hi+c, lo+c)
	}
	if a.Op == "extract" {
		return Extract(a.Args[0], hi+a.Lo, lo+a.Lo)
	}
	return mk(&Term{Op: "extract", W: hi - lo + 1, Args: []*Term{a}, Hi: hi, Lo: lo})
}
func Concat(hi, lo *Term) *Term {
	if hi.IsConst() && lo.IsConst() {
		r := new(big.Int).Lsh(hi.C, uint(lo.W))
		r.Or(r, lo.C)
		return BV(r, hi.W+lo.W)
	}
	// extract(x,h,m+1) ++ extract(x,m,l) => extract(x,h,l)
	if hi.Op == "extract" && lo.Op == "extract" && hi.Args[0] == lo.Args[0] && hi.Lo == lo.Hi+1 {
		return Extract(hi.Args[0], hi.Hi, lo.Lo)
	}
	if hi.Op == "ite" && lo.Op == "ite" && hi.Args[0] == lo.Args[0] && hi.W+lo.W <= 64 {
		// bytes of two values merged cell by cell under the same condition: re-join each side if that fuses
		x, y := Concat(hi.Args[1], lo.Args[1]), Concat(hi.Args[2], lo.Args[2])
		if x.Op != "concat" && y.Op != "concat" {
			return Ite(hi.Args[0], x, y)
		}
	}
	return mk(&Term{Op: "concat", W: hi.W + lo.W, Args: []*Term{hi, lo}})
}

// placed decomposes t (width w) into disjoint pieces (bit offset, term) whose "or" it is: the shape Go code produces when
// it re-assembles a word from bytes (uint64(b0) | uint64(b1)<<8 | ...). ok=false if t does not have that shape.
type piece struct {
	lo int
	t  *Term
}

func placed(t *Term, depth int) ([]piece, bool) {
	if depth > 80 {
		return nil, false
	}
	switch t.Op {
	case "zext":
		return []piece{{0, t.Args[0]}}, true
	case "const":
		if t.C.Sign() == 0 {
			return nil, true
		}
	case "bvshl":
		if t.Args[1].IsConst() && t.Args[1].C.IsInt64() && t.Args[1].C.Int64() < int64(t.W) {
			c := int(t.Args[1].C.Int64())
			ps, ok := placed(t.Args[0], depth+1)
			if !ok {
				return nil, false
			}
			var out []piece
			for _, p := range ps {
				if p.lo+c >= t.W {
					continue
				}
				q := p.t
				if p.lo+c+q.W > t.W {
					q = Extract(q, t.W-p.lo-c-1, 0)
				}
				out = append(out, piece{p.lo + c, q})
			}
			return out, true
		}
	case "bvor":
		pa, ok := placed(t.Args[0], depth+1)
		if !ok {
			return nil, false
		}
		pb, ok := placed(t.Args[1], depth+1)
		if !ok {
			return nil, false
		}
		return disjointUnion(pa, pb)
	case "concat":
		lo, hi := t.Args[1], t.Args[0]
		return []piece{{0, lo}, {lo.W, hi}}, true
	}
	return nil, false
}

func disjointUnion(a, b []piece) ([]piece, bool) {
	out := append(append([]piece(nil), a...), b...)
	sort.Slice(out, func(i, j int) bool { return out[i].lo < out[j].lo })
	for i := 1; i < len(out); i++ {
		if out[i-1].lo+out[i-1].t.W > out[i].lo {
			return nil, false
		}
	}
	return out, true
}

// assemble builds the w-bit word whose pieces (sorted, disjoint) are ps and whose other bits are zero.
func assemble(ps []piece, w int) *Term {
	if len(ps) == 0 {
		return BVu(0, w)
	}
	var acc *Term
	cursor := 0
	for _, p := range ps {
		q := p.t
		if p.lo > cursor {
			z := BVu(0, p.lo-cursor)
			if acc == nil {
				acc = z
			} else {
				acc = Concat(z, acc)
			}
		}
		if acc == nil {
			acc = q
		} else {
			acc = Concat(q, acc)
		}
		cursor = p.lo + q.W
	}
	return ZExt(acc, w)
}
func ZExt(a *Term, w int) *Term {
	if w == a.W {
		return a
	}
	if w < a.W {
		return Extract(a, w-1, 0)
	}
	if a.IsConst() {
		return BV(a.C, w)
	}
	if constLeaves(a) > 1 {
		return liftIte(a, func(x *Term) *Term { return ZExt(x, w) })
	}
	return mk(&Term{Op: "zext", W: w, Args: []*Term{a}})
}
func SExt(a *Term, w int) *Term {
	if w == a.W {
		return a
	}
	if w < a.W {
		return Extract(a, w-1, 0)
	}
	if a.IsConst() {
		return BV(toSigned(a.C, a.W), w)
	}
	return mk(&Term{Op: "sext", W: w, Args: []*Term{a}})
}
// FP builds an IEEE-754 binary64 operation. Float values are carried as their 64-bit IEEE bit patterns (W=64);
// predicates have W=0. Constant arguments are folded with Go's own float64 arithmetic (the platform the code runs on);
// symbolic ones are handed to the solver's FloatingPoint theory (round-nearest-even for arithmetic, toward zero for
// float->int, as Go does).
func FP(name string, w int, args ...*Term) *Term {
	all := true
	for _, a := range args {
		if !a.IsConst() {
			all = false
		}
	}
	if all {
		f := func(i int) float64 { return math.Float64frombits(args[i].C.Uint64()) }
		fb := func(x float64) *Term { return BVu(math.Float64bits(x), 64) }
		switch name {
		case "fp.add":
			return fb(f(0) + f(1))
		case "fp.sub":
			return fb(f(0) - f(1))
		case "fp.mul":
			return fb(f(0) * f(1))
		case "fp.div":
			return fb(f(0) / f(1))
		case "fp.neg":
			return fb(-f(0))
		case "fp.abs":
			return fb(math.Abs(f(0)))
		case "fp.sqrt":
			return fb(math.Sqrt(f(0)))
		case "fp.floor":
			return fb(math.Floor(f(0)))
		case "fp.ceil":
			return fb(math.Ceil(f(0)))
		case "fp.trunc":
			return fb(math.Trunc(f(0)))
		case "fp.u2f":
			return fb(float64(args[0].C.Uint64()))
		case "fp.s2f":
			return fb(float64(int64(args[0].C.Uint64())))
		case "fp.f2u":
			return BVu(uint64(f(0)), 64)
		case "fp.f2s":
			return BVu(uint64(int64(f(0))), 64)
		case "fp.lt":
			return Bool(f(0) < f(1))
		case "fp.le":
			return Bool(f(0) <= f(1))
		case "fp.eq":
			return Bool(f(0) == f(1))
		}
		panic("FP fold " + name)
	}
	return mk(&Term{Op: "fp", Name: name, W: w, Args: args})
}

func UF(name string, w int, args ...*Term) *Term {
	return mk(&Term{Op: "uf", Name: name, W: w, Args: args})
}

// ---------- solver ----------

type Solver struct {
	cmd      *exec.Cmd
	in       io.WriteCloser
	out      *bufio.Reader
	defined  map[int]bool
	declared map[string]bool
	Queries  int
	Total    time.Duration
	Slow     int
	MaxQ     time.Duration
	Errors   int
	LastErr  string
	NSat, NUnsat, NUnknown int
	Name     string
	Incremental bool
	AbsHeavyDiv bool
	AbsUsed     int
	stack    []*Term
	transient bool
	log      io.Writer
	level    int
	scopedT  []int
	scopedD  []string
	needRestart bool
	HardLimit time.Duration
	HardKills int
	bin      string
	args     []string
	preamble []string
}

// restart replaces the solver process by a fresh one with an empty assertion stack (all definitions are re-sent on demand).
func (s *Solver) restart() {
	s.in.Close()
	s.cmd.Process.Kill()
	s.cmd.Wait()
	cmd := exec.Command(s.bin, s.args...)
	in, _ := cmd.StdinPipe()
	outp, _ := cmd.StdoutPipe()
	cmd.Stderr = cmd.Stdout
	if err := cmd.Start(); err != nil {
		panic(err)
	}
	s.cmd, s.in, s.out = cmd, in, bufio.NewReader(outp)
	s.defined, s.declared = map[int]bool{}, map[string]bool{}
	s.stack, s.transient, s.level, s.scopedT, s.scopedD = nil, false, 0, nil, nil
	s.needRestart = false
	s.send("(set-option :print-success false)")
	s.send("(set-option :global-declarations true)")
	for _, l := range s.preamble {
		s.send(l)
	}
}

func NewSolver(bin string, args ...string) *Solver {
	cmd := exec.Command(bin, args...)
	in, _ := cmd.StdinPipe()
	outp, _ := cmd.StdoutPipe()
	cmd.Stderr = cmd.Stdout
	if err := cmd.Start(); err != nil {
		panic(err)
	}
	s := &Solver{cmd: cmd, in: in, out: bufio.NewReader(outp), defined: map[int]bool{}, declared: map[string]bool{}, bin: bin, args: args}
	s.send("(set-option :print-success false)")
	s.send("(set-option :global-declarations true)")
	return s
}

func (s *Solver) send(l string) {
	if s.log != nil {
		fmt.Fprintln(s.log, l)
	}
	io.WriteString(s.in, l+"\n")
}

func sortOf(w int) string {
	if w == 0 {
		return "Bool"
	}
	return fmt.Sprintf("(_ BitVec %d)", w)
}

func (s *Solver) ref(t *Term) string {
	switch t.Op {
	case "const":
		if t.W == 0 {
			if t.C.Sign() != 0 {
				return "true"
			}
			return "false"
		}
		return fmt.Sprintf("(_ bv%s %d)", t.C.String(), t.W)
	case "var":
		if !s.declared[t.Name] {
			s.declared[t.Name] = true
			if s.level > 0 {
				s.scopedD = append(s.scopedD, t.Name)
			}
			s.send(fmt.Sprintf("(declare-const |%s| %s)", t.Name, sortOf(t.W)))
		}
		return "|" + t.Name + "|"
	}
	if !s.defined[t.id] {
		var parts []string
		for _, a := range t.Args {
			parts = append(parts, s.ref(a))
		}
		var e string
		switch t.Op {
		case "extract":
			e = fmt.Sprintf("((_ extract %d %d) %s)", t.Hi, t.Lo, parts[0])
		case "zext":
			e = fmt.Sprintf("((_ zero_extend %d) %s)", t.W-t.Args[0].W, parts[0])
		case "sext":
			e = fmt.Sprintf("((_ sign_extend %d) %s)", t.W-t.Args[0].W, parts[0])
		case "fp":
			fpv := func(x string) string { return "((_ to_fp 11 53) " + x + ")" }
			switch t.Name {
			case "fp.add", "fp.sub", "fp.mul", "fp.div":
				e = fmt.Sprintf("(fp.to_ieee_bv (%s RNE %s %s))", t.Name, fpv(parts[0]), fpv(parts[1]))
			case "fp.sqrt":
				e = fmt.Sprintf("(fp.to_ieee_bv (fp.sqrt RNE %s))", fpv(parts[0]))
			case "fp.neg", "fp.abs":
				e = fmt.Sprintf("(fp.to_ieee_bv (%s %s))", t.Name, fpv(parts[0]))
			case "fp.floor":
				e = fmt.Sprintf("(fp.to_ieee_bv (fp.roundToIntegral RTN %s))", fpv(parts[0]))
			case "fp.ceil":
				e = fmt.Sprintf("(fp.to_ieee_bv (fp.roundToIntegral RTP %s))", fpv(parts[0]))
			case "fp.trunc":
				e = fmt.Sprintf("(fp.to_ieee_bv (fp.roundToIntegral RTZ %s))", fpv(parts[0]))
			case "fp.u2f":
				e = fmt.Sprintf("(fp.to_ieee_bv ((_ to_fp_unsigned 11 53) RNE %s))", parts[0])
			case "fp.s2f":
				e = fmt.Sprintf("(fp.to_ieee_bv ((_ to_fp 11 53) RNE %s))", parts[0])
			case "fp.f2u":
				e = fmt.Sprintf("((_ fp.to_ubv 64) RTZ %s)", fpv(parts[0]))
			case "fp.f2s":
				e = fmt.Sprintf("((_ fp.to_sbv 64) RTZ %s)", fpv(parts[0]))
			case "fp.lt":
				e = fmt.Sprintf("(fp.lt %s %s)", fpv(parts[0]), fpv(parts[1]))
			case "fp.le":
				e = fmt.Sprintf("(fp.leq %s %s)", fpv(parts[0]), fpv(parts[1]))
			case "fp.eq":
				e = fmt.Sprintf("(fp.eq %s %s)", fpv(parts[0]), fpv(parts[1]))
			default:
				panic("fp op " + t.Name)
			}
		case "uf":
			if !s.declared["uf:"+t.Name] {
				s.declared["uf:"+t.Name] = true
				if s.level > 0 {
					s.scopedD = append(s.scopedD, "uf:"+t.Name)
				}
				var as []string
				for _, a := range t.Args {
					as = append(as, sortOf(a.W))
				}
				s.send(fmt.Sprintf("(declare-fun |%s| (%s) %s)", t.Name, strings.Join(as, " "), sortOf(t.W)))
			}
			e = fmt.Sprintf("(|%s| %s)", t.Name, strings.Join(parts, " "))
		default:
			if s.AbsHeavyDiv && (t.Op == "bvurem" || t.Op == "bvudiv") && t.W >= 32 && t.Args[1].IsConst() && t.Args[1].C.BitLen() > 16 &&
				new(big.Int).And(t.Args[1].C, new(big.Int).Sub(t.Args[1].C, big.NewInt(1))).Sign() != 0 && hiBound(t.Args[0]).BitLen() > 32 {
				// division/remainder of a wide value by a large non-power-of-two constant: bit-blasting it does not
				// finish; it is replaced by an uninterpreted function of the dividend (sound for unsat verdicts; a sat
				// model may be spurious and is caught by the native replay)
				fn := fmt.Sprintf("abs_%s_%s_%d", t.Op, t.Args[1].C.String(), t.W)
				if !s.declared["uf:"+fn] {
					s.declared["uf:"+fn] = true
					s.send(fmt.Sprintf("(declare-fun |%s| (%s) %s)", fn, sortOf(t.W), sortOf(t.W)))
				}
				s.AbsUsed++
				e = fmt.Sprintf("(|%s| %s)", fn, parts[0])
			} else {
				e = fmt.Sprintf("(%s %s)", t.Op, strings.Join(parts, " "))
			}
		}
		s.send(fmt.Sprintf("(define-fun t%d () %s %s)", t.id, sortOf(t.W), e))
		s.defined[t.id] = true
		if s.level > 0 {
			s.scopedT = append(s.scopedT, t.id)
		}
	}
	return fmt.Sprintf("t%d", t.id)
}

// Check returns "sat","unsat","unknown" for the conjunction.
func (s *Solver) Check(conj []*Term) string {
	if s.needRestart {
		s.restart()
	}
	s.Queries++
	if s.Incremental {
		var cl []*Term
		for _, c := range conj {
			if c.IsTrue() {
				continue
			}
			if c.IsFalse() {
				s.NUnsat++
				return "unsat"
			}
			cl = append(cl, c)
		}
		if len(cl) == 0 {
			s.NSat++
			return "sat"
		}
		persist, last := cl[:len(cl)-1], cl[len(cl)-1]
		k := 0
		for k < len(s.stack) && k < len(persist) && s.stack[k] == persist[k] {
			k++
		}
		if k < len(s.stack) {
			s.send(fmt.Sprintf("(pop %d)", len(s.stack)-k))
			s.stack = s.stack[:k]
		}
		for _, t := range persist[k:] {
			r := s.ref(t)
			s.send("(push 1)")
			s.send("(assert " + r + ")")
			s.stack = append(s.stack, t)
		}
		r := s.ref(last)
		s.send("(push 1)")
		s.send("(assert " + r + ")")
		s.transient = true
		return s.finishCheck()
	}
	var refs []string
	for _, c := range conj {
		if c.IsTrue() {
			continue
		}
		if c.IsFalse() {
			s.send("(push 1)")
			s.level++
			s.NUnsat++
			return "unsat"
		}
		refs = append(refs, s.ref(c))
	}
	s.send("(push 1)")
	s.level++
	for _, r := range refs {
		s.send("(assert " + r + ")")
	}
	return s.finishCheck()
}

func (s *Solver) finishCheck() string {
	t0 := time.Now()
	s.send("(check-sat)")
	res := s.readLineDeadline()
	d := time.Since(t0)
	s.Total += d
	if d > 500*time.Millisecond {
		s.Slow++
	}
	if d > s.MaxQ {
		s.MaxQ = d
	}
	for strings.HasPrefix(res, "(error") || strings.HasPrefix(res, "unsupported") || strings.HasPrefix(res, ";") {
		s.Errors++
		s.LastErr = res
		if strings.HasPrefix(res, "(error") {
			if strings.Contains(res, "canceled") {
				// z3 prints (error "... push canceled") when its per-query timer fires inside push/assert: a timeout, not a
				// rejected encoding. The answer is "unknown"; the process is replaced before the next query because its
				// assertion stack may no longer match ours.
				s.Errors--
				s.NUnknown++
				s.needRestart = true
				return "unknown"
			}
			// an error line precedes the verdict; the verdict is not trustworthy
			_ = s.readLine()
			return "error"
		}
		res = s.readLine()
	}
	switch res {
	case "sat":
		s.NSat++
	case "unsat":
		s.NUnsat++
	default:
		s.NUnknown++
	}
	return res
}

// readLineDeadline reads the verdict line, but gives up when the solver ignores its own per-query timeout (seen with z3
// on some hash-heavy queries): after HardLimit the process is killed, the answer is "unknown" and a fresh process is
// started before the next query.
func (s *Solver) readLineDeadline() string {
	if s.HardLimit <= 0 {
		return s.readLine()
	}
	type rd struct {
		l   string
		err error
	}
	ch := make(chan rd, 1)
	out := s.out
	go func() {
		l, err := out.ReadString('\n')
		ch <- rd{l, err}
	}()
	select {
	case r := <-ch:
		if r.err != nil {
			panic("solver died: " + r.err.Error())
		}
		return strings.TrimSpace(r.l)
	case <-time.After(s.HardLimit):
		s.cmd.Process.Kill()
		<-ch
		s.HardKills++
		s.needRestart = true
		return "unknown"
	}
}

func (s *Solver) readLine() string {
	l, err := s.out.ReadString('\n')
	if err != nil {
		panic("solver died: " + err.Error())
	}
	return strings.TrimSpace(l)
}

// Model values for vars; call after Check returned sat and before Pop.
func (s *Solver) Value(t *Term) string {
	s.send("(get-value (" + s.ref(t) + "))")
	return s.readLine()
}
func (s *Solver) Pop() {
	if s.Incremental {
		if s.transient {
			s.send("(pop 1)")
			s.transient = false
		}
		return
	}
	s.send("(pop 1)")
	s.level--
}

// ValueBV returns the model value of a bitvector/bool term; call after Check returned sat and before Pop.
func (s *Solver) ValueBV(t *Term) *big.Int {
	if t.IsConst() {
		return t.C
	}
	r := s.Value(t)
	// forms: ((t12 #x00ff)) ((t12 #b0101)) ((t12 (_ bv5 64))) ((t12 true))
	i := strings.LastIndex(r, " ")
	if j := strings.Index(r, "(_ bv"); j >= 0 {
		f := strings.Fields(r[j+5:])
		v, _ := new(big.Int).SetString(f[0], 10)
		return v
	}
	tok := strings.TrimRight(r[i+1:], ")")
	switch {
	case strings.HasPrefix(tok, "#x"):
		v, _ := new(big.Int).SetString(tok[2:], 16)
		return v
	case strings.HasPrefix(tok, "#b"):
		v, _ := new(big.Int).SetString(tok[2:], 2)
		return v
	case tok == "true":
		return big.NewInt(1)
	case tok == "false":
		return big.NewInt(0)
	}
	panic("cannot parse model value: " + r)
}

func (s *Solver) Close() {
	s.in.Close()
	s.cmd.Process.Kill()
	s.cmd.Wait()
}

var pureMemo = map[int]bool{}

// pureHashBits reports whether t is nothing but bits of uninterpreted-hash outputs reassembled
// (extract/concat/zext/or/shl of sha applications and constants), i.e. a value whose bits are unconstrained.
func pureHashBits(t *Term) bool {
	if t.IsConst() {
		return true
	}
	if r, ok := pureMemo[t.id]; ok {
		return r
	}
	r := false
	switch t.Op {
	case "uf":
		r = strings.HasPrefix(t.Name, "sha")
	case "extract", "concat", "zext", "bvor", "bvshl":
		r = true
		for _, a := range t.Args {
			if !pureHashBits(a) {
				r = false
				break
			}
		}
	}
	pureMemo[t.id] = r
	return r
}

var shaMemo = map[int]bool{}

// hashDerived reports whether t contains an application of the uninterpreted hash.
func hashDerived(t *Term) bool {
	if t.IsConst() || t.Op == "var" {
		return false
	}
	if r, ok := shaMemo[t.id]; ok {
		return r
	}
	r := t.Op == "uf" && strings.HasPrefix(t.Name, "sha")
	for _, a := range t.Args {
		if r {
			break
		}
		r = hashDerived(a)
	}
	shaMemo[t.id] = r
	return r
}
