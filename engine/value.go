package main

import (
	"fmt"
	"go/types"

	"golang.org/x/tools/go/ssa"
)

// Value is an interpreter value. Leaves:
//   *Term (ints: W>0, bool: W==0), string (concrete only), Ptr, SliceV, MapV, Iface, FuncV, IterV, nil.
// Aggregates (struct/array) are Agg: the flattened leaves in layout order. Tuple holds multi-value results.
type Value interface{}

type Agg []Value
type Tuple []Value

// Ptr addresses cell Off of heap object Obj. Obj==0 is nil.
type Ptr struct {
	Obj, Off int
}

// SliceV: Off in cells; Len/Cap in elements; Stride = cells per element.
type SliceV struct {
	Obj, Off, Len, Cap, Stride int
}

type MapV struct{ Obj int } // 0 => nil map

type MapData struct {
	Keys []Value
	Vals []Value
}

type Iface struct {
	T types.Type // nil => nil interface
	V Value
}

type FuncV struct {
	Fn  *ssa.Function
	Env []Value
	Bi  *ssa.Builtin
}

type IterV struct{ Obj int }

// Obj is a heap object: a slab of leaf cells (or map data). Copy-on-write by owner epoch.
type Obj struct {
	cells []Value
	m     *MapData
	mtyp  *types.Map
	owner int
	lock  int // mutex model: 0 free, -1 write-locked, n>0 readers
	note  string
}

func intWidth(t types.Type) (w int, signed bool, ok bool) {
	b, isB := t.Underlying().(*types.Basic)
	if !isB {
		return 0, false, false
	}
	switch b.Kind() {
	case types.Int8:
		return 8, true, true
	case types.Int16:
		return 16, true, true
	case types.Int32, types.UntypedRune:
		return 32, true, true
	case types.Int64, types.Int, types.UntypedInt:
		return 64, true, true
	case types.Uint8:
		return 8, false, true
	case types.Uint16:
		return 16, false, true
	case types.Uint32:
		return 32, false, true
	case types.Uint64, types.Uint, types.Uintptr:
		return 64, false, true
	}
	return 0, false, false
}

func isBool(t types.Type) bool {
	b, ok := t.Underlying().(*types.Basic)
	return ok && (b.Kind() == types.Bool || b.Kind() == types.UntypedBool)
}
func isString(t types.Type) bool {
	b, ok := t.Underlying().(*types.Basic)
	return ok && (b.Kind() == types.String || b.Kind() == types.UntypedString)
}
func isFloat(t types.Type) bool {
	b, ok := t.Underlying().(*types.Basic)
	return ok && (b.Info()&(types.IsFloat|types.IsComplex)) != 0
}

func isAgg(t types.Type) bool {
	switch t.Underlying().(type) {
	case *types.Struct, *types.Array:
		return true
	}
	return false
}

var sizeCache = map[types.Type]int{}

// size in cells
func sizeOf(t types.Type) int {
	if n, ok := sizeCache[t]; ok {
		return n
	}
	n := 1
	switch u := t.Underlying().(type) {
	case *types.Struct:
		n = 0
		for i := 0; i < u.NumFields(); i++ {
			n += sizeOf(u.Field(i).Type())
		}
	case *types.Array:
		n = int(u.Len()) * sizeOf(u.Elem())
	case *types.Tuple:
		panic("sizeOf tuple")
	}
	sizeCache[t] = n
	return n
}

func fieldOff(s *types.Struct, i int) int {
	o := 0
	for k := 0; k < i; k++ {
		o += sizeOf(s.Field(k).Type())
	}
	return o
}

func zeroLeaf(t types.Type) Value {
	switch u := t.Underlying().(type) {
	case *types.Basic:
		if w, _, ok := intWidth(t); ok {
			return BVu(0, w)
		}
		if isBool(t) {
			return Bool(false)
		}
		if isString(t) {
			return ""
		}
		if u.Kind() == types.UnsafePointer {
			return Ptr{}
		}
		if isFloat(t) {
			if u.Kind() == types.Float64 || u.Kind() == types.UntypedFloat {
				return FloatV{T: BVu(0, 64)}
			}
			return FloatV{}
		}
		if u.Kind() == types.UntypedNil || u.Kind() == types.Invalid {
			return nil
		}
		panic("zero: unsupported basic " + u.String())
	case *types.Pointer:
		return Ptr{}
	case *types.Slice:
		return SliceV{}
	case *types.Map:
		return MapV{}
	case *types.Interface:
		return Iface{}
	case *types.Signature:
		return FuncV{}
	case *types.Chan:
		return nil
	case *types.TypeParam:
		panic("zero of type param")
	}
	panic(fmt.Sprintf("zeroLeaf: unsupported type %T %v", t.Underlying(), t))
}

// FloatV is a float64 value carried as its IEEE-754 bit pattern (T, 64 bits). T == nil is an opaque placeholder
// (float32, complex): any arithmetic on one aborts the path as unsupported.
type FloatV struct{ T *Term }

func appendZero(out []Value, t types.Type) []Value {
	switch u := t.Underlying().(type) {
	case *types.Struct:
		for i := 0; i < u.NumFields(); i++ {
			out = appendZero(out, u.Field(i).Type())
		}
		return out
	case *types.Array:
		n := int(u.Len())
		if n == 0 {
			return out
		}
		es := sizeOf(u.Elem())
		if es == 1 && !isAgg(u.Elem()) {
			z := zeroLeaf(u.Elem())
			for i := 0; i < n; i++ {
				out = append(out, z)
			}
			return out
		}
		start := len(out)
		out = appendZero(out, u.Elem())
		one := append([]Value(nil), out[start:]...)
		for i := 1; i < n; i++ {
			out = append(out, one...)
		}
		return out
	}
	return append(out, zeroLeaf(t))
}

func zero(t types.Type) Value {
	if tp, ok := t.Underlying().(*types.Tuple); ok {
		r := make(Tuple, tp.Len())
		for i := range r {
			r[i] = zero(tp.At(i).Type())
		}
		return r
	}
	if isAgg(t) {
		return Agg(appendZero(make([]Value, 0, sizeOf(t)), t))
	}
	return zeroLeaf(t)
}

// sameValue: syntactic identity of two values (used by merging and map iteration).
func sameValue(a, b Value) bool {
	switch x := a.(type) {
	case nil:
		return b == nil
	case *Term:
		y, ok := b.(*Term)
		return ok && x == y
	case string:
		y, ok := b.(string)
		return ok && x == y
	case Ptr:
		y, ok := b.(Ptr)
		return ok && x == y
	case SymPtr:
		y, ok := b.(SymPtr)
		return ok && x == y
	case SymStr:
		y, ok := b.(SymStr)
		return ok && sameValue(Agg(x.bytes), Agg(y.bytes))
	case SliceV:
		y, ok := b.(SliceV)
		return ok && x == y
	case MapV:
		y, ok := b.(MapV)
		return ok && x == y
	case IterV:
		y, ok := b.(IterV)
		return ok && x == y
	case FloatV:
		y, ok := b.(FloatV)
		return ok && x.T == y.T
	case Iface:
		y, ok := b.(Iface)
		if !ok {
			return false
		}
		if x.T == nil || y.T == nil {
			return x.T == nil && y.T == nil
		}
		return types.Identical(x.T, y.T) && sameValue(x.V, y.V)
	case FuncV:
		y, ok := b.(FuncV)
		if !ok || x.Fn != y.Fn || x.Bi != y.Bi || len(x.Env) != len(y.Env) {
			return false
		}
		for i := range x.Env {
			if !sameValue(x.Env[i], y.Env[i]) {
				return false
			}
		}
		return true
	case Agg:
		y, ok := b.(Agg)
		if !ok || len(x) != len(y) {
			return false
		}
		for i := range x {
			if !sameValue(x[i], y[i]) {
				return false
			}
		}
		return true
	case Tuple:
		y, ok := b.(Tuple)
		if !ok || len(x) != len(y) {
			return false
		}
		for i := range x {
			if !sameValue(x[i], y[i]) {
				return false
			}
		}
		return true
	}
	panic(fmt.Sprintf("sameValue %T", a))
}

func isByte(v Value) bool {
	t, ok := v.(*Term)
	return ok && t.W == 8
}

// allBytes reports whether all values are 8-bit terms.
func allBytes(vs []Value) bool {
	for _, v := range vs {
		t, ok := v.(*Term)
		if !ok || t.W != 8 {
			return false
		}
	}
	return len(vs) > 0
}

// concatBytes: byte 0 most significant (so lexicographic compare = bvult).
func concatBytes(bs []Value) *Term {
	r := bs[0].(*Term)
	for _, b := range bs[1:] {
		r = Concat(r, b.(*Term))
	}
	return r
}

// eqValue builds the equality condition of two values of the same static type.
func eqValue(a, b Value) *Term {
	switch x := a.(type) {
	case nil:
		return Bool(b == nil)
	case *Term:
		return Cmp("=", x, b.(*Term))
	case string:
		return Bool(x == b.(string))
	case Agg:
		y := b.(Agg)
		if len(x) != len(y) {
			panic("eqValue agg size")
		}
		r := Bool(true)
		for i := 0; i < len(x); {
			// group runs of byte leaves into one wide comparison
			j := i
			for j < len(x) && isByte(x[j]) && isByte(y[j]) {
				j++
			}
			if j-i > 1 {
				r = And(r, Cmp("=", concatBytes(x[i:j]), concatBytes(y[i:j])))
				i = j
				continue
			}
			r = And(r, eqValue(x[i], y[i]))
			i++
		}
		return r
	case Ptr:
		y := b.(Ptr)
		return Bool(x == y)
	case Iface:
		y := b.(Iface)
		if x.T == nil || y.T == nil {
			return Bool(x.T == nil && y.T == nil)
		}
		if !types.Identical(x.T, y.T) {
			return Bool(false)
		}
		return eqValue(x.V, y.V)
	case SliceV:
		y := b.(SliceV)
		return Bool(x.Obj == 0 && y.Obj == 0) // only nil comparison is legal
	case MapV:
		return Bool(x.Obj == b.(MapV).Obj)
	case FuncV:
		y := b.(FuncV)
		return Bool(x.Fn == nil && x.Bi == nil && y.Fn == nil && y.Bi == nil)
	}
	panic(fmt.Sprintf("eqValue %T", a))
}
