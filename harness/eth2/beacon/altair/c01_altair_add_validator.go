package altair

import (
	"github.com/protolambda/zrnt/eth2/beacon/common"
	"github.com/protolambda/zrnt/eth2/beacon/phase0"
	"github.com/protolambda/zrnt/eth2/zzverif"
	. "github.com/protolambda/ztyp/view"
)

// VerifHarness_C01_altair_add_validator: the altair state's AddValidator equals the spec's add_validator_to_registry
// (altair): the validator record of get_validator_from_deposit and its balance are appended, and a zero entry is
// appended to previous_epoch_participation, current_epoch_participation and inactivity_scores - the existing entries
// of all five lists keep their values. Bounds: tiny preset, 1..3 existing validators with symbolic participation
// flags (3 bits) and inactivity scores < 2^32, symbolic deposit amount < 2^40.
func VerifHarness_C01_altair_add_validator() {
	spec := common.VTinySpec()
	n := 1 + zzverif.Choose(3)
	raw := vAlNewRaw(spec, n, 5)
	for i := 0; i < n; i++ {
		raw.PreviousEpochParticipation[i] = ParticipationFlags(zzverif.NondetU8() & 7)
		raw.CurrentEpochParticipation[i] = ParticipationFlags(zzverif.NondetU8() & 7)
		s := zzverif.NondetU64()
		zzverif.Assume(s < 1<<32)
		raw.InactivityScores[i] = Uint64View(s)
	}
	st := vAlStateToView(spec, raw)
	amount := zzverif.NondetU64()
	zzverif.Assume(amount < 1<<40)
	pub := vAlPub(n)
	var creds common.Root
	creds[0], creds[31] = zzverif.NondetU8(), 0x77
	zzverif.Reach("altair-add-validator")
	err := st.AddValidator(spec, pub, creds, common.Gwei(amount))
	zzverif.Assert(err == nil, "AddValidator succeeds below the registry limit")
	if err != nil {
		return
	}
	scores, _ := st.InactivityScores()
	pp, _ := st.PreviousEpochParticipation()
	cp, _ := st.CurrentEpochParticipation()
	bals, _ := st.Balances()
	vals, _ := st.Validators()
	for _, l := range []interface{ Length() (uint64, error) }{scores, pp, cp, bals} {
		ln, e := l.Length()
		zzverif.Assert(e == nil && ln == uint64(n+1), "balances, participation lists and inactivity_scores grow by one entry")
	}
	vc, e := vals.ValidatorCount()
	zzverif.Assert(e == nil && vc == uint64(n+1), "the registry grows by one validator")
	for i := 0; i < n; i++ {
		sc, e1 := scores.GetScore(common.ValidatorIndex(i))
		zzverif.Assert(e1 == nil && sc == uint64(raw.InactivityScores[i]), "inactivity scores of the existing validators are unchanged by a deposit")
		pf, e2 := pp.GetFlags(common.ValidatorIndex(i))
		cf, e3 := cp.GetFlags(common.ValidatorIndex(i))
		zzverif.Assert(e2 == nil && e3 == nil && pf == raw.PreviousEpochParticipation[i] && cf == raw.CurrentEpochParticipation[i], "participation flags of the existing validators are unchanged by a deposit")
		b, e4 := bals.GetBalance(common.ValidatorIndex(i))
		zzverif.Assert(e4 == nil && b == raw.Balances[i], "balances of the existing validators are unchanged by a deposit")
	}
	sc, e1 := scores.GetScore(common.ValidatorIndex(n))
	pf, e2 := pp.GetFlags(common.ValidatorIndex(n))
	cf, e3 := cp.GetFlags(common.ValidatorIndex(n))
	b, e4 := bals.GetBalance(common.ValidatorIndex(n))
	zzverif.Assert(e1 == nil && sc == 0, "the new validator's inactivity score is 0")
	zzverif.Assert(e2 == nil && e3 == nil && pf == 0 && cf == 0, "the new validator's participation flags are 0")
	zzverif.Assert(e4 == nil && uint64(b) == amount, "the new validator's balance is the deposit amount")
	// spec: get_validator_from_deposit
	inc := uint64(spec.EFFECTIVE_BALANCE_INCREMENT)
	eff := amount - amount%inc
	if eff > uint64(spec.MAX_EFFECTIVE_BALANCE) {
		eff = uint64(spec.MAX_EFFECTIVE_BALANCE)
	}
	want := phase0.Validator{Pubkey: pub, WithdrawalCredentials: creds, EffectiveBalance: common.Gwei(eff),
		ActivationEligibilityEpoch: vAlFar, ActivationEpoch: vAlFar, ExitEpoch: vAlFar, WithdrawableEpoch: vAlFar}
	nv, e5 := vals.Validator(common.ValidatorIndex(n))
	zzverif.Assert(e5 == nil, "the new validator is readable")
	if e5 == nil {
		gp, _ := nv.Pubkey()
		gc, _ := nv.WithdrawalCredentials()
		ge, _ := nv.EffectiveBalance()
		sl, _ := nv.Slashed()
		a1, _ := nv.ActivationEligibilityEpoch()
		a2, _ := nv.ActivationEpoch()
		a3, _ := nv.ExitEpoch()
		a4, _ := nv.WithdrawableEpoch()
		zzverif.Assert(gp == want.Pubkey && gc == want.WithdrawalCredentials && ge == want.EffectiveBalance && !sl &&
			a1 == vAlFar && a2 == vAlFar && a3 == vAlFar && a4 == vAlFar, "the new validator record is the spec's get_validator_from_deposit")
	}
}
