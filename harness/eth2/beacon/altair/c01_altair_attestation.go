package altair

import (
	"github.com/protolambda/zrnt/eth2/beacon/common"
	"github.com/protolambda/zrnt/eth2/beacon/phase0"
	"github.com/protolambda/zrnt/eth2/zzverif"
	"github.com/protolambda/ztyp/tree"
	. "github.com/protolambda/ztyp/view"
)

// vA2Committees: hand-built committee tables (slot in epoch -> committee index -> members) for three validators and
// `spe` slots per epoch. The two epochs use different tables and different committee counts, so that a lookup in the
// wrong epoch, slot or committee is visible; members are deliberately not sorted.
func vA2Committees(layout int, spe int) (prev, cur [][][]common.ValidatorIndex) {
	one := [][][]common.ValidatorIndex{
		{{2, 0}},
		{{1}},
		{{0, 1, 2}},
		{{1, 0}},
	}
	two := [][][]common.ValidatorIndex{
		{{1}, {2, 0, 1}},
		{{0, 2}, {}},
		{{2}, {1, 0}},
		{{1, 2, 0}, {0}},
	}
	if layout == 0 {
		return one[:spe], two[:spe]
	}
	return two[:spe], one[:spe]
}

func vA2AttData() phase0.AttestationData {
	return phase0.AttestationData{Slot: common.Slot(zzverif.NondetU64()), Index: common.CommitteeIndex(zzverif.NondetU64()), BeaconBlockRoot: vAlRoot1(),
		Source: common.Checkpoint{Epoch: common.Epoch(zzverif.NondetU64()), Root: vAlRoot1()}, Target: common.Checkpoint{Epoch: common.Epoch(zzverif.NondetU64()), Root: vAlRoot1()}}
}

// spec: get_domain's fork version choice
func vA2VersionAt(raw *BeaconState, epoch common.Epoch) common.Version {
	if epoch < raw.Fork.Epoch {
		return raw.Fork.PreviousVersion
	}
	return raw.Fork.CurrentVersion
}

// vA2AggValid: spec is_valid_indexed_attestation's signature part for the (sorted, in-range) indices: every key and the
// signature deserialise and bls.FastAggregateVerify(pubkeys, signing_root, signature) holds, with
// domain = get_domain(state, DOMAIN_BEACON_ATTESTER, data.target.epoch).
func vA2AggValid(raw *BeaconState, indices []int, data *phase0.AttestationData, sig common.BLSSignature) bool {
	var pubs [][48]byte
	ok := zzverif.BLSSigValid(sig)
	for _, i := range indices {
		p := [48]byte(raw.Validators[i].Pubkey)
		ok = ok && zzverif.BLSPubkeyValid(p)
		pubs = append(pubs, p)
	}
	dom := common.ComputeDomain(common.DOMAIN_BEACON_ATTESTER, vA2VersionAt(raw, data.Target.Epoch), raw.GenesisValidatorsRoot)
	root := common.ComputeSigningRoot(data.HashTreeRoot(tree.GetHashFn()), dom)
	return ok && zzverif.BLSFastAggregateVerify(pubs, root[:], sig)
}

// vA2AttWorldT: an altair state of the tiny preset in epoch 3 with three validators (concrete, pairwise distinct
// effective balances 8/24/32 ETH, all active: total active balance 64 ETH, so every base reward is concrete), symbolic
// balances < 2^40, symbolic participation flags (3 bits) in both lists, symbolic justified checkpoints and fork record
// (fork epoch <= 3); the real NewEpochsContext of that state (shuffling / proposer sampling stubbed, group c02al) with
// hand-built committee tables and a proposer table (validator 1 proposes the state's slot, validator 2 the others).
type vA2AttWorldT struct {
	spec             *common.Spec
	raw              *BeaconState
	st               AltairLikeBeaconState // the state view under test (altair, or a later fork's with the same content)
	cv               *ContainerView        // its container
	epc              *common.EpochsContext
	cur              uint64
	commPrev         [][][]common.ValidatorIndex
	commCur          [][][]common.ValidatorIndex
	prop             int
	baseRewardPerInc uint64
}

// (mkState: builds the state view under test from the altair struct form; nil: the altair view)
func vA2AttWorld(spec *common.Spec, off uint64, layout int, mkState func(raw *BeaconState) (AltairLikeBeaconState, *ContainerView)) *vA2AttWorldT {
	zzverif.UseOverrides("c02al")
	spe := uint64(spec.SLOTS_PER_EPOCH)
	n := 3
	cur := uint64(3)
	raw := vAlNewRaw(spec, n, cur*spe+off)
	effs := []common.Gwei{8000000000, 24000000000, 32000000000}
	for i := 0; i < n; i++ {
		raw.Validators[i].EffectiveBalance = effs[i]
		b := zzverif.NondetU64()
		zzverif.Assume(b < 1<<40)
		raw.Balances[i] = common.Gwei(b)
		raw.PreviousEpochParticipation[i] = ParticipationFlags(zzverif.NondetU8() & 7)
		raw.CurrentEpochParticipation[i] = ParticipationFlags(zzverif.NondetU8() & 7)
	}
	fe := zzverif.NondetU8()
	zzverif.Assume(uint64(fe) <= cur)
	raw.Fork = common.Fork{PreviousVersion: common.Version{0, 0, 0, 1}, CurrentVersion: common.Version{1, 0, 0, 1}, Epoch: common.Epoch(fe)}
	raw.CurrentJustifiedCheckpoint = common.Checkpoint{Epoch: common.Epoch(zzverif.NondetU8()), Root: vAlRoot1()}
	raw.PreviousJustifiedCheckpoint = common.Checkpoint{Epoch: common.Epoch(zzverif.NondetU8()), Root: vAlRoot1()}
	var st AltairLikeBeaconState
	var cv *ContainerView
	if mkState == nil {
		av := vAlStateToView(spec, raw)
		st, cv = av, av.ContainerView
	} else {
		st, cv = mkState(raw)
	}
	epc, err := common.NewEpochsContext(spec, st)
	zzverif.Assert(err == nil && epc != nil, "NewEpochsContext succeeds on a well-formed altair state")
	w := &vA2AttWorldT{spec: spec, raw: raw, st: st, cv: cv, epc: epc, cur: cur, prop: 1}
	w.commPrev, w.commCur = vA2Committees(layout, int(spe))
	epc.PreviousEpoch.Committees = w.commPrev
	epc.CurrentEpoch.Committees = w.commCur
	next := make([][][]common.ValidatorIndex, spe)
	for i := range next {
		next[i] = [][]common.ValidatorIndex{{common.ValidatorIndex(i % n)}}
	}
	epc.NextEpoch.Committees = next
	props := make([]common.ValidatorIndex, spe)
	for i := range props {
		props[i] = 2
	}
	props[off] = common.ValidatorIndex(w.prop)
	epc.Proposers = &common.ProposersEpoch{Spec: spec, Epoch: common.Epoch(cur), Proposers: props}
	// spec: get_total_active_balance, get_base_reward_per_increment
	total := uint64(0)
	for _, e := range effs {
		total += uint64(e)
	}
	inc := uint64(spec.EFFECTIVE_BALANCE_INCREMENT)
	w.baseRewardPerInc = inc * uint64(spec.BASE_REWARD_FACTOR) / vAlIsqrt(total)
	return w
}

// vA2ExpectFields: the balances and both participation lists of the view have the roots of the struct form's fields,
// every other top-level field the root it had before.
func (w *vA2AttWorldT) vA2ExpectFields(pre []common.Root, label string) {
	h := tree.GetHashFn()
	want := append([]common.Root(nil), pre...)
	want[_stateBalances] = w.raw.Balances.HashTreeRoot(w.spec, h)
	want[_statePreviousEpochParticipation] = w.raw.PreviousEpochParticipation.HashTreeRoot(w.spec, h)
	want[_stateCurrentEpochParticipation] = w.raw.CurrentEpochParticipation.HashTreeRoot(w.spec, h)
	post := VA2FieldRoots(w.cv)
	for i := range want {
		zzverif.Assert(post[i] == want[i], label)
	}
}

// vA2RefAttestation: the spec's process_attestation of altair (deneb = false) resp. of deneb (EIP-7045, deneb = true)
// over the struct form of the state: whether the attestation is accepted, and on acceptance the struct form is updated
// (participation flags OR-ed in for every attesting index, proposer reward for the newly set flags).
//
//	assert data.target.epoch in (previous_epoch, current_epoch); assert data.target.epoch == compute_epoch_at_slot(data.slot)
//	altair: assert data.slot + MIN_ATTESTATION_INCLUSION_DELAY <= state.slot <= data.slot + SLOTS_PER_EPOCH
//	deneb:  assert data.slot + MIN_ATTESTATION_INCLUSION_DELAY <= state.slot
//	assert data.index < get_committee_count_per_slot(state, data.target.epoch)
//	committee = get_beacon_committee(state, data.slot, data.index); assert len(aggregation_bits) == len(committee)
//	participation_flag_indices = get_attestation_participation_flag_indices(state, data, state.slot - data.slot)
//	assert is_valid_indexed_attestation(state, get_indexed_attestation(state, attestation))
//	for index in get_attesting_indices(...): for flag_index, weight in PARTICIPATION_FLAG_WEIGHTS:
//	    if flag_index in participation_flag_indices and not has_flag(epoch_participation[index], flag_index):
//	        epoch_participation[index] = add_flag(...); proposer_reward_numerator += get_base_reward(state, index) * weight
//	proposer_reward = numerator // ((WEIGHT_DENOMINATOR - PROPOSER_WEIGHT) * WEIGHT_DENOMINATOR // PROPOSER_WEIGHT)
//	increase_balance(state, get_beacon_proposer_index(state), proposer_reward)
func (w *vA2AttWorldT) vA2RefAttestation(att *phase0.Attestation, bitLen int, deneb bool) bool {
	spec, raw := w.spec, w.raw
	n := len(raw.Validators)
	d := &att.Data
	bits := att.AggregationBits[0]
	slot := raw.Slot
	spe := spec.SLOTS_PER_EPOCH
	curE := common.Epoch(w.cur)
	prevE := common.Epoch(w.cur - 1)
	ok := (d.Target.Epoch == prevE || d.Target.Epoch == curE) &&
		d.Target.Epoch == common.Epoch(d.Slot/spe) &&
		d.Slot+spec.MIN_ATTESTATION_INCLUSION_DELAY <= slot
	if !deneb {
		ok = ok && slot <= d.Slot+spe
	}
	// (Concrete is applied to derived expressions only: concretising an input variable itself would rewrite it in every
	// term built afterwards and make the reference's hashes syntactically different from the implementation's)
	var table [][][]common.ValidatorIndex
	isCur := false
	if ok {
		if d.Target.Epoch == curE {
			table, isCur = w.commCur, true
		} else {
			table = w.commPrev
		}
		ok = uint64(d.Index) < uint64(len(table[0])) // get_committee_count_per_slot(state, data.target.epoch)
	}
	var committee []common.ValidatorIndex
	if ok {
		committee = table[int(zzverif.Concrete(uint64(d.Slot%spe)))][int(zzverif.Concrete(uint64(d.Index)&1))]
		ok = len(committee) == bitLen // len(attestation.aggregation_bits) == len(committee)
	}
	// get_attestation_participation_flag_indices
	var apply uint8
	if ok {
		justified := raw.PreviousJustifiedCheckpoint
		targetStart := uint64(prevE) * uint64(spe)
		if isCur {
			justified = raw.CurrentJustifiedCheckpoint
			targetStart = uint64(curE) * uint64(spe)
		}
		sphr := uint64(spec.SLOTS_PER_HISTORICAL_ROOT)
		// get_block_root / get_block_root_at_slot: slot < state.slot <= slot + SLOTS_PER_HISTORICAL_ROOT holds for both
		// (target start <= data.slot < state.slot, and the state is at most 2*SLOTS_PER_EPOCH-1 <= SLOTS_PER_HISTORICAL_ROOT
		// slots past the start of its previous epoch)
		targetRoot := raw.BlockRoots[targetStart%sphr]
		headRoot := raw.BlockRoots[int(zzverif.Concrete(uint64(d.Slot)%sphr))]
		matchSource := d.Source == justified
		matchTarget := matchSource && d.Target.Root == targetRoot
		matchHead := matchTarget && d.BeaconBlockRoot == headRoot
		ok = matchSource // assert is_matching_source
		delay := uint64(slot - d.Slot)
		if matchSource && delay <= vAlIsqrt(uint64(spe)) {
			apply |= 1 << 0 // TIMELY_SOURCE_FLAG_INDEX
		}
		if deneb {
			if matchTarget { // EIP-7045
				apply |= 1 << 1
			}
		} else if matchTarget && delay <= uint64(spe) {
			apply |= 1 << 1 // TIMELY_TARGET_FLAG_INDEX
		}
		if matchHead && delay == uint64(spec.MIN_ATTESTATION_INCLUSION_DELAY) {
			apply |= 1 << 2 // TIMELY_HEAD_FLAG_INDEX
		}
	}
	var attesting []bool
	if ok {
		// get_indexed_attestation: sorted(get_attesting_indices(...)); is_valid_indexed_attestation
		attesting = make([]bool, n)
		var indices []int
		for i := 0; i < n; i++ { // increasing validator index == sorted set
			for k, m := range committee {
				if int(m) == i && (bits>>uint(k))&1 == 1 {
					indices = append(indices, i)
					attesting[i] = true
				}
			}
		}
		ok = len(indices) > 0
		if ok {
			ok = vA2AggValid(raw, indices, d, att.Signature)
		}
	}
	if !ok {
		return false
	}
	list := raw.PreviousEpochParticipation
	if isCur {
		list = raw.CurrentEpochParticipation
	}
	inc := uint64(spec.EFFECTIVE_BALANCE_INCREMENT)
	weights := []uint64{14, 26, 14} // PARTICIPATION_FLAG_WEIGHTS: TIMELY_SOURCE_WEIGHT, TIMELY_TARGET_WEIGHT, TIMELY_HEAD_WEIGHT
	numerator := uint64(0)
	for i := 0; i < n; i++ {
		if !attesting[i] {
			continue
		}
		baseReward := uint64(raw.Validators[i].EffectiveBalance) / inc * w.baseRewardPerInc // get_base_reward
		for f := 0; f < 3; f++ {
			if apply&(1<<uint(f)) != 0 && uint8(list[i])&(1<<uint(f)) == 0 {
				list[i] |= ParticipationFlags(1 << uint(f))
				numerator += baseReward * weights[f]
			}
		}
	}
	const weightDenominator, proposerWeight = 64, 8
	proposerReward := numerator / ((weightDenominator - proposerWeight) * weightDenominator / proposerWeight)
	raw.Balances[w.prop] += common.Gwei(proposerReward)
	return true
}

// vA2CheckAttPost: the view's participation lists and balances equal the struct form's, entry by entry and as field
// roots; every other top-level field has the root it had before.
func (w *vA2AttWorldT) vA2CheckAttPost(preFields []common.Root) {
	raw := w.raw
	n := len(raw.Validators)
	pp, _ := w.st.PreviousEpochParticipation()
	cp, _ := w.st.CurrentEpochParticipation()
	bals, _ := w.st.Balances()
	for i := 0; i < n; i++ {
		pf, e1 := pp.GetFlags(common.ValidatorIndex(i))
		cf, e2 := cp.GetFlags(common.ValidatorIndex(i))
		b, e3 := bals.GetBalance(common.ValidatorIndex(i))
		zzverif.Assert(e1 == nil && pf == raw.PreviousEpochParticipation[i], "previous_epoch_participation: flags OR-ed in for exactly the attesting indices of a previous-epoch target")
		zzverif.Assert(e2 == nil && cf == raw.CurrentEpochParticipation[i], "current_epoch_participation: flags OR-ed in for exactly the attesting indices of a current-epoch target")
		zzverif.Assert(e3 == nil && b == raw.Balances[i], "balances: only the proposer gains, the reward for the newly set flags")
		raw.PreviousEpochParticipation[i], raw.CurrentEpochParticipation[i], raw.Balances[i] = pf, cf, b
	}
	pl, e1 := pp.Length()
	cl, e2 := cp.Length()
	bl, e3 := bals.Length()
	zzverif.Assert(e1 == nil && e2 == nil && e3 == nil && pl == uint64(n) && cl == uint64(n) && bl == uint64(n), "participation lists and balances keep len(validators) entries")
	w.vA2ExpectFields(preFields, "an accepted attestation changes nothing but participation flags and the proposer's balance")
}

// VerifHarness_C01_altair_attestation: altair's ProcessAttestation accepts exactly the attestations the spec's altair
// process_attestation accepts (the phase0 conditions, with is_matching_source asserted inside
// get_attestation_participation_flag_indices) and then ORs the participation flags of
// get_attestation_participation_flag_indices(state, data, state.slot - data.slot) - timely source: delay <=
// integer_squareroot(SLOTS_PER_EPOCH); timely target: matching target and delay <= SLOTS_PER_EPOCH; timely head:
// matching head and delay == MIN_ATTESTATION_INCLUSION_DELAY - into current/previous_epoch_participation of every
// attesting index, pays the proposer sum(get_base_reward(index) * weight over the NEWLY set flags) /
// ((WEIGHT_DENOMINATOR - PROPOSER_WEIGHT) * WEIGHT_DENOMINATOR / PROPOSER_WEIGHT), and changes nothing else (every
// entry of both lists and of the balances, the roots of these three fields against the struct form, the root of every
// other top-level field unchanged); a refused attestation leaves the whole-state root untouched.
//
// Bounds/assumptions: tiny preset (SLOTS_PER_EPOCH=2, MIN_ATTESTATION_INCLUSION_DELAY=1, MAX_COMMITTEES_PER_SLOT=2,
// MAX_VALIDATORS_PER_COMMITTEE=4; integer_squareroot(2)=1) or, with param spe=4, the same preset with SLOTS_PER_EPOCH=4,
// SLOTS_PER_HISTORICAL_ROOT=8 (integer_squareroot(4)=2, so the three delay thresholds 2, 4, 1 are pairwise distinct);
// world vA2AttWorld: 3 active validators with effective balances 8/24/32 ETH, state at a chosen slot of epoch 3, symbolic
// pre-existing flags in both lists, symbolic balances < 2^40, symbolic justified checkpoints and fork record; committees,
// committee counts and proposers are hand-built tables (their agreement with the spec's sampling is C07/C08) and the
// reference reads the same tables as get_beacon_committee / get_committee_count_per_slot / get_beacon_proposer_index;
// aggregation bits are one well-formed bitlist byte of chosen length 0..4 with symbolic participation bits; attestation
// data fields are symbolic 64-bit values, roots/signature have two symbolic bytes; BLS and SHA-256 uninterpreted.
// Shards: Choose #1 = slot offset in the epoch (SLOTS_PER_EPOCH), #2 = bitlist length (5), #3 = table layout (2).
func VerifHarness_C01_altair_attestation() {
	spec := common.VTinySpec()
	if zzverif.Param("spe", 2) == 4 {
		spec.SLOTS_PER_EPOCH = 4
		spec.SLOTS_PER_HISTORICAL_ROOT = 8
	}
	off := uint64(zzverif.Choose(int(spec.SLOTS_PER_EPOCH)))
	bitLen := zzverif.Choose(int(spec.MAX_VALIDATORS_PER_COMMITTEE) + 1)
	layout := zzverif.Choose(2)
	w := vA2AttWorld(spec, off, layout, nil)
	bits := zzverif.NondetU8()&(uint8(1)<<uint(bitLen)-1) | uint8(1)<<uint(bitLen)
	att := &phase0.Attestation{AggregationBits: phase0.AttestationBits{bits}, Data: vA2AttData(), Signature: vAlSig1()}
	h := tree.GetHashFn()
	preRoot := w.st.HashTreeRoot(h)
	preFields := VA2FieldRoots(w.cv)

	zzverif.Reach("altair-attestation")
	err := ProcessAttestation(spec, w.epc, w.st, att)

	ok := w.vA2RefAttestation(att, bitLen, false)
	zzverif.Assert((err == nil) == ok, "altair ProcessAttestation accepts exactly the attestations process_attestation accepts")
	if ok {
		zzverif.Reach("altair-attestation accepted")
		w.vA2CheckAttPost(preFields)
	} else {
		zzverif.Assert(w.st.HashTreeRoot(h) == preRoot, "a refused attestation leaves the state untouched")
	}
}

// ---- exported for the deneb harness (EIP-7045) ----

type VA2AttWorldT struct{ w *vA2AttWorldT }

// VA2AttWorld: the world of VerifHarness_C01_altair_attestation around the state view mkState builds from the altair
// struct form (a later fork's state with the same content).
func VA2AttWorld(spec *common.Spec, off uint64, layout int, mkState func(raw *BeaconState) (AltairLikeBeaconState, *ContainerView)) *VA2AttWorldT {
	return &VA2AttWorldT{vA2AttWorld(spec, off, layout, mkState)}
}

func (x *VA2AttWorldT) Epc() *common.EpochsContext   { return x.w.epc }
func (x *VA2AttWorldT) State() AltairLikeBeaconState { return x.w.st }
func (x *VA2AttWorldT) FieldRoots() []common.Root    { return VA2FieldRoots(x.w.cv) }

// Attestation: a well-formed attestation with a bitlist of bitLen bits (symbolic), symbolic 64-bit data fields, roots and
// signature with two symbolic bytes.
func (x *VA2AttWorldT) Attestation(bitLen int) *phase0.Attestation {
	bits := zzverif.NondetU8()&(uint8(1)<<uint(bitLen)-1) | uint8(1)<<uint(bitLen)
	return &phase0.Attestation{AggregationBits: phase0.AttestationBits{bits}, Data: vA2AttData(), Signature: vAlSig1()}
}

// RefAttestation: the spec's process_attestation (deneb: with EIP-7045) on the struct form; see vA2RefAttestation.
func (x *VA2AttWorldT) RefAttestation(att *phase0.Attestation, bitLen int, deneb bool) bool {
	return x.w.vA2RefAttestation(att, bitLen, deneb)
}

// CheckPost: see vA2CheckAttPost.
func (x *VA2AttWorldT) CheckPost(preFields []common.Root) { x.w.vA2CheckAttPost(preFields) }
