package altair

import (
	"bytes"
	"context"

	"github.com/protolambda/zrnt/eth2/beacon/common"
	"github.com/protolambda/zrnt/eth2/beacon/phase0"
	"github.com/protolambda/zrnt/eth2/zzverif"
	"github.com/protolambda/ztyp/codec"
	"github.com/protolambda/ztyp/tree"
	. "github.com/protolambda/ztyp/view"
)

const vAlFar = ^common.Epoch(0)

func vAlRoot1() (r common.Root) { r[0] = zzverif.NondetU8(); r[31] = zzverif.NondetU8(); return }

func vAlSig1() (s common.BLSSignature) { s[0] = zzverif.NondetU8(); s[95] = zzverif.NondetU8(); return }

// vAlPub: the (concrete, pairwise distinct) public key of validator i in the states built here.
func vAlPub(i int) (p common.BLSPubkey) { p[0] = byte(i + 1); p[47] = 0xa0 + byte(i); return }

// vAlCommittee: a sync committee whose member k is validator pat[k].
func vAlCommittee(spec *common.Spec, pat []int, tag byte) common.SyncCommittee {
	sc := common.SyncCommittee{}
	for k := uint64(0); k < uint64(spec.SYNC_COMMITTEE_SIZE); k++ {
		sc.Pubkeys = append(sc.Pubkeys, vAlPub(pat[int(k)%len(pat)]))
	}
	sc.AggregatePubkey[0], sc.AggregatePubkey[47] = 0x80, tag
	return sc
}

// vAlNewRaw: a well-formed raw altair state of the tiny preset at `slot` with n validators that are active since
// genesis with the maximum effective balance and balance; zero participation flags and inactivity scores; history
// roots and mixes symbolic (two bytes each); both sync committees filled with validator keys (when n > 0).
func vAlNewRaw(spec *common.Spec, n int, slot uint64) *BeaconState {
	st := &BeaconState{}
	st.GenesisTime = common.Timestamp(zzverif.NondetU64())
	st.GenesisValidatorsRoot = vAlRoot1()
	st.Slot = common.Slot(slot)
	st.Fork = common.Fork{PreviousVersion: spec.GENESIS_FORK_VERSION, CurrentVersion: spec.ALTAIR_FORK_VERSION, Epoch: 0}
	st.LatestBlockHeader = common.BeaconBlockHeader{Slot: st.Slot.Previous(), ProposerIndex: 0, ParentRoot: vAlRoot1(), StateRoot: vAlRoot1(), BodyRoot: vAlRoot1()}
	st.BlockRoots = make([]common.Root, spec.SLOTS_PER_HISTORICAL_ROOT)
	st.StateRoots = make([]common.Root, spec.SLOTS_PER_HISTORICAL_ROOT)
	for i := range st.BlockRoots {
		st.BlockRoots[i], st.StateRoots[i] = vAlRoot1(), vAlRoot1()
	}
	st.Eth1Data = common.Eth1Data{DepositRoot: vAlRoot1(), DepositCount: common.DepositIndex(n), BlockHash: vAlRoot1()}
	st.Eth1DepositIndex = common.DepositIndex(n)
	for i := 0; i < n; i++ {
		v := &phase0.Validator{Pubkey: vAlPub(i)}
		v.WithdrawalCredentials[31] = byte(i)
		v.EffectiveBalance = spec.MAX_EFFECTIVE_BALANCE
		v.ExitEpoch, v.WithdrawableEpoch = vAlFar, vAlFar
		st.Validators = append(st.Validators, v)
		st.Balances = append(st.Balances, spec.MAX_EFFECTIVE_BALANCE)
		st.PreviousEpochParticipation = append(st.PreviousEpochParticipation, 0)
		st.CurrentEpochParticipation = append(st.CurrentEpochParticipation, 0)
		st.InactivityScores = append(st.InactivityScores, 0)
	}
	st.RandaoMixes = make([]common.Root, spec.EPOCHS_PER_HISTORICAL_VECTOR)
	for i := range st.RandaoMixes {
		st.RandaoMixes[i] = vAlRoot1()
	}
	st.Slashings = make([]common.Gwei, spec.EPOCHS_PER_SLASHINGS_VECTOR)
	st.JustificationBits = common.JustificationBits{0}
	if n > 0 {
		st.CurrentSyncCommittee = vAlCommittee(spec, []int{0, n - 1}, 1)
		st.NextSyncCommittee = vAlCommittee(spec, []int{n - 1, 0, 0}, 2)
	} else {
		st.CurrentSyncCommittee.Pubkeys = make([]common.BLSPubkey, spec.SYNC_COMMITTEE_SIZE)
		st.NextSyncCommittee.Pubkeys = make([]common.BLSPubkey, spec.SYNC_COMMITTEE_SIZE)
	}
	return st
}

// vAlStateToView: the real tree-backed altair state decoded from the raw state's encoding.
func vAlStateToView(spec *common.Spec, raw *BeaconState) *BeaconStateView {
	var buf bytes.Buffer
	err := raw.Serialize(spec, codec.NewEncodingWriter(&buf))
	zzverif.Assert(err == nil, "altair state struct serializes")
	data := buf.Bytes()
	v, err := AsBeaconStateView(BeaconStateType(spec).Deserialize(codec.NewDecodingReader(bytes.NewReader(data), uint64(len(data)))))
	zzverif.Assert(err == nil, "altair view form decodes the struct form's bytes")
	return v
}

// vAlReroot: root of the same content rebuilt from scratch out of its encoding (no cached subtree roots).
func vAlReroot(spec *common.Spec, st *BeaconStateView) common.Root {
	var buf bytes.Buffer
	err := st.Serialize(codec.NewEncodingWriter(&buf))
	zzverif.Assert(err == nil, "altair state view serializes")
	data := buf.Bytes()
	v, err := AsBeaconStateView(BeaconStateType(spec).Deserialize(codec.NewDecodingReader(bytes.NewReader(data), uint64(len(data)))))
	zzverif.Assert(err == nil, "altair state view bytes decode")
	return v.HashTreeRoot(tree.GetHashFn())
}

// vAlFieldRoots: the hash-tree-roots of the top-level fields of the state, in field order.
func vAlFieldRoots(st *BeaconStateView) []common.Root {
	h := tree.GetHashFn()
	var out []common.Root
	for i := range st.Fields {
		v, err := st.Get(uint64(i))
		zzverif.Assert(err == nil, "state field view")
		out = append(out, v.HashTreeRoot(h))
	}
	return out
}

// vAlSameFieldsExcept: every top-level field other than `except` has the root it had before.
func vAlSameFieldsExcept(st *BeaconStateView, pre []common.Root, except int, label string) {
	post := vAlFieldRoots(st)
	for i := range pre {
		if i != except {
			zzverif.Assert(post[i] == pre[i], label)
		}
	}
}

func vAlIndexOf(raw *BeaconState, pub common.BLSPubkey) common.ValidatorIndex {
	for i, v := range raw.Validators {
		if v.Pubkey == pub {
			return common.ValidatorIndex(i)
		}
	}
	return ^common.ValidatorIndex(0)
}

// spec: integer_squareroot
func vAlIsqrt(n uint64) uint64 {
	x, y := n, (n+1)/2
	for y < x {
		x, y = y, (y+n/y)/2
	}
	return x
}

// override group "c02al": the shuffling, the proposer sampling and the sampling of the next sync committee are the
// subject of C07/C08; here they are stubs that keep the bookkeeping (which epoch, which active set) and return a
// recognisable next sync committee.
const VerifOverrideTarget_c02al__shuffling = "github.com/protolambda/zrnt/eth2/beacon/common.ComputeShufflingEpoch"

func VerifOverride_c02al__shuffling(spec *common.Spec, state common.BeaconState, bounded []common.BoundedIndex, epoch common.Epoch) (*common.ShufflingEpoch, error) {
	act := common.ActiveIndices(bounded, epoch)
	return &common.ShufflingEpoch{Epoch: epoch, ActiveIndices: act, Shuffling: append([]common.ValidatorIndex(nil), act...)}, nil
}

const VerifOverrideTarget_c02al__proposers = "github.com/protolambda/zrnt/eth2/beacon/common.ComputeProposers"

func VerifOverride_c02al__proposers(spec *common.Spec, state common.BeaconState, epoch common.Epoch, active []common.ValidatorIndex) (*common.ProposersEpoch, error) {
	return &common.ProposersEpoch{Spec: spec, Epoch: epoch, Proposers: make([]common.ValidatorIndex, spec.SLOTS_PER_EPOCH)}, nil
}

const VerifOverrideTarget_c02al__nextsync = "github.com/protolambda/zrnt/eth2/beacon/common.ComputeNextSyncCommittee"

func vAlMarkerCommittee(spec *common.Spec) common.SyncCommittee {
	return vAlCommittee(spec, []int{1, 1, 0, 1}, 0xee)
}

func VerifOverride_c02al__nextsync(spec *common.Spec, epc *common.EpochsContext, state common.BeaconState) (*common.SyncCommittee, error) {
	sc := vAlMarkerCommittee(spec)
	return &sc, nil
}

// VerifHarness_C02_inactivity_updates: the real ComputeEpochAttesterData + ProcessInactivityUpdates on the real altair
// state equal the spec's process_inactivity_updates (get_eligible_validator_indices, get_unslashed_participating_indices
// with the timely-target flag of the previous epoch, is_in_inactivity_leak), including that nothing else in the state
// changes (root of every other top-level field unchanged, list length unchanged; with param root=1 also the whole-state
// root against the struct form). Bounds: tiny preset; `validators` (3) validators with symbolic slashed flag,
// activation/exit/withdrawable epochs in 0..9 or FAR_FUTURE, symbolic participation flags and inactivity scores < 2^32;
// current epoch in {0 (genesis), 1, 7}, state at the last slot of the epoch; finalized epoch symbolic <= previous epoch
// (reachable states: the spec's finality delay does not underflow).
// Shards: Choose #1 = current epoch (3), Choose #2 = slashed flag of validator 0 (2), e.g. -prefix 2,1.
func VerifHarness_C02_inactivity_updates() {
	spec := common.VTinySpec()
	cur := []uint64{0, 1, 7}[zzverif.Choose(3)]
	n := zzverif.Param("validators", 3)
	spe := uint64(spec.SLOTS_PER_EPOCH)
	raw := vAlNewRaw(spec, n, cur*spe+spe-1)
	prev := cur
	if cur > 0 {
		prev = cur - 1
	}
	ep := func() common.Epoch {
		k := zzverif.NondetU8()
		zzverif.Assume(k <= 10)
		return common.Epoch(zzverif.Ite(k == 10, uint64(vAlFar), uint64(k)))
	}
	for i := 0; i < n; i++ {
		v := raw.Validators[i]
		if i == 0 {
			v.Slashed = zzverif.Choose(2) == 1 // concrete for the first validator: lets the job be sharded
		} else {
			v.Slashed = zzverif.NondetBool()
		}
		v.ActivationEpoch, v.ExitEpoch, v.WithdrawableEpoch = ep(), ep(), ep()
		raw.PreviousEpochParticipation[i] = ParticipationFlags(zzverif.NondetU8() & 7)
		raw.CurrentEpochParticipation[i] = ParticipationFlags(zzverif.NondetU8() & 7)
		s := zzverif.NondetU64()
		zzverif.Assume(s < 1<<32)
		raw.InactivityScores[i] = Uint64View(s)
	}
	fin := zzverif.NondetU8()
	zzverif.Assume(uint64(fin) <= prev)
	raw.FinalizedCheckpoint.Epoch = common.Epoch(fin)
	st := vAlStateToView(spec, raw)
	// the epochs context as far as the attester data needs it: epochs and active sets
	shuf := func(e uint64) *common.ShufflingEpoch {
		sh := &common.ShufflingEpoch{Epoch: common.Epoch(e)}
		for i, v := range raw.Validators {
			if v.ActivationEpoch <= common.Epoch(e) && common.Epoch(e) < v.ExitEpoch {
				sh.ActiveIndices = append(sh.ActiveIndices, common.ValidatorIndex(i))
			}
		}
		return sh
	}
	epc := &common.EpochsContext{Spec: spec, PreviousEpoch: shuf(prev)}
	epc.CurrentEpoch = epc.PreviousEpoch
	if cur > 0 {
		epc.CurrentEpoch = &common.ShufflingEpoch{Epoch: common.Epoch(cur)} // (its active set is not read by the attester data)
	}
	ctx := context.Background()
	vals, _ := st.Validators()
	flats, err := common.FlattenValidators(vals)
	zzverif.Assert(err == nil, "FlattenValidators")
	preFields := vAlFieldRoots(st)
	zzverif.Reach("inactivity-updates")
	att, err := ComputeEpochAttesterData(ctx, spec, epc, flats, st)
	zzverif.Assert(err == nil, "ComputeEpochAttesterData succeeds")
	if err != nil {
		return
	}
	err = ProcessInactivityUpdates(ctx, spec, att, st)
	zzverif.Assert(err == nil, "ProcessInactivityUpdates succeeds")
	// spec: process_inactivity_updates over the raw state
	leak := prev-uint64(fin) > uint64(spec.MIN_EPOCHS_TO_INACTIVITY_PENALTY)
	scores, _ := st.InactivityScores()
	for i := 0; i < n; i++ {
		v := raw.Validators[i]
		want := uint64(raw.InactivityScores[i])
		if cur != 0 {
			activePrev := v.ActivationEpoch <= common.Epoch(prev) && common.Epoch(prev) < v.ExitEpoch
			eligible := activePrev || (v.Slashed && common.Epoch(prev)+1 < v.WithdrawableEpoch)
			if eligible {
				if activePrev && !v.Slashed && raw.PreviousEpochParticipation[i]&(1<<1) != 0 {
					if want >= 1 {
						want -= 1
					}
				} else {
					want += uint64(spec.INACTIVITY_SCORE_BIAS)
				}
				if !leak {
					if want >= uint64(spec.INACTIVITY_SCORE_RECOVERY_RATE) {
						want -= uint64(spec.INACTIVITY_SCORE_RECOVERY_RATE)
					} else {
						want = 0
					}
				}
			}
		}
		got, err := scores.GetScore(common.ValidatorIndex(i))
		zzverif.Assert(err == nil && got == want, "inactivity score as the spec's process_inactivity_updates")
		raw.InactivityScores[i] = Uint64View(want)
	}
	sl, err := scores.Length()
	zzverif.Assert(err == nil && sl == uint64(n), "inactivity_scores keeps len(validators) entries")
	vAlSameFieldsExcept(st, preFields, _inactivityScores, "process_inactivity_updates changes no field other than inactivity_scores")
	if zzverif.Param("root", 0) == 1 { // the same claim through the uninterpreted hash of the whole state (slow with z3: use -solver cvc5)
		h := tree.GetHashFn()
		zzverif.Assert(st.HashTreeRoot(h) == raw.HashTreeRoot(spec, h), "after the inactivity updates the state is exactly the spec's")
	}
}

// VerifHarness_C02_participation_rotation: the real ProcessParticipationFlagUpdates equals the spec's
// process_participation_flag_updates (previous := current; current := zeros of len(validators)): every flag, both list
// lengths, the whole-state root against the struct form, and no stale cached root. Bounds: tiny preset with 1..3
// validators, and a preset with VALIDATOR_REGISTRY_LIMIT=64 and 0, 32 or 33 validators (33: the flags spill into a
// second 32-byte chunk); symbolic flags (3 bits) in both lists. Not covered: an empty registry under a preset whose
// participation list fits one chunk (VALIDATOR_REGISTRY_LIMIT <= 32, tree depth 0): there ztyp's
// tree.SubtreeFillToLength(bottom, 0, 0) wraps depth-1 to 255 and panics on ZeroHashes[255]; the real presets have
// depth 35, where the empty list is handled.
func VerifHarness_C02_participation_rotation() {
	spec := common.VTinySpec()
	var n int
	if zzverif.Choose(2) == 1 {
		spec.VALIDATOR_REGISTRY_LIMIT = 64
		n = []int{0, 32, 33}[zzverif.Choose(3)]
	} else {
		n = 1 + zzverif.Choose(3)
	}
	raw := vAlNewRaw(spec, n, 2*uint64(spec.SLOTS_PER_EPOCH)+1)
	for i := 0; i < n; i++ {
		raw.PreviousEpochParticipation[i] = ParticipationFlags(zzverif.NondetU8() & 7)
		raw.CurrentEpochParticipation[i] = ParticipationFlags(zzverif.NondetU8() & 7)
	}
	st := vAlStateToView(spec, raw)
	zzverif.Reach("participation-rotation")
	err := ProcessParticipationFlagUpdates(context.Background(), spec, st)
	zzverif.Assert(err == nil, "ProcessParticipationFlagUpdates succeeds")
	pp, _ := st.PreviousEpochParticipation()
	cp, _ := st.CurrentEpochParticipation()
	pl, e1 := pp.Length()
	cl, e2 := cp.Length()
	zzverif.Assert(e1 == nil && e2 == nil && pl == uint64(n) && cl == uint64(n), "both participation lists have len(validators) entries")
	for i := 0; i < n; i++ {
		pf, e1 := pp.GetFlags(common.ValidatorIndex(i))
		cf, e2 := cp.GetFlags(common.ValidatorIndex(i))
		zzverif.Assert(e1 == nil && pf == raw.CurrentEpochParticipation[i], "previous_epoch_participation := current_epoch_participation")
		zzverif.Assert(e2 == nil && cf == 0, "current_epoch_participation := zeros")
	}
	raw.PreviousEpochParticipation = raw.CurrentEpochParticipation
	raw.CurrentEpochParticipation = make(ParticipationRegistry, n)
	h := tree.GetHashFn()
	zzverif.Assert(st.HashTreeRoot(h) == raw.HashTreeRoot(spec, h), "after the participation rotation the state is exactly the spec's")
	zzverif.Assert(st.HashTreeRoot(h) == vAlReroot(spec, st), "no stale cached subtree root after the participation rotation")
}

func vAlSameIndexed(raw *BeaconState, isc *common.IndexedSyncCommittee, sc *common.SyncCommittee, what string) {
	zzverif.Assert(isc != nil && len(isc.Indices) == len(sc.Pubkeys) && len(isc.CachedPubkeys) == len(sc.Pubkeys), what+": present, SYNC_COMMITTEE_SIZE members")
	if isc == nil || len(isc.Indices) != len(sc.Pubkeys) || len(isc.CachedPubkeys) != len(sc.Pubkeys) {
		return
	}
	for k := range sc.Pubkeys {
		zzverif.Assert(isc.Indices[k] == vAlIndexOf(raw, sc.Pubkeys[k]), what+": member index is the registry index of the state's committee pubkey")
		zzverif.Assert(isc.CachedPubkeys[k] != nil && isc.CachedPubkeys[k].Compressed == sc.Pubkeys[k], what+": cached pubkey is the state's committee pubkey")
	}
}

// VerifHarness_C02_sync_committee_updates: the real ProcessSyncCommitteeUpdates equals the spec's
// process_sync_committee_updates: exactly when (current_epoch+1) % EPOCHS_PER_SYNC_COMMITTEE_PERIOD == 0,
// current_sync_committee := next_sync_committee and next_sync_committee := get_next_sync_committee(state) (stub: a
// recognisable committee; shuffling/proposers stubbed, group c02al); whole-state root against the struct form. Then the
// slot enters the next epoch and the live context is rotated (RotateEpochs): its CurrentSyncCommittee /
// NextSyncCommittee index exactly the state's committees. Bounds: tiny preset (period 2), 2 validators, current epoch
// 2..5 at its last slot, context built by the real NewEpochsContext from the pre-state.
func VerifHarness_C02_sync_committee_updates() {
	zzverif.UseOverrides("c02al")
	spec := common.VTinySpec()
	cur := uint64(2 + zzverif.Choose(4))
	spe := uint64(spec.SLOTS_PER_EPOCH)
	raw := vAlNewRaw(spec, 2, cur*spe+spe-1)
	raw.CurrentSyncCommittee = vAlCommittee(spec, []int{0, 0, 1, 1}, 1)
	raw.NextSyncCommittee = vAlCommittee(spec, []int{0, 1, 0, 1}, 2)
	st := vAlStateToView(spec, raw)
	epc, err := common.NewEpochsContext(spec, st)
	zzverif.Assert(err == nil, "NewEpochsContext succeeds on a well-formed altair state")
	if err != nil {
		return
	}
	vAlSameIndexed(raw, epc.CurrentSyncCommittee, &raw.CurrentSyncCommittee, "fresh context, current sync committee")
	vAlSameIndexed(raw, epc.NextSyncCommittee, &raw.NextSyncCommittee, "fresh context, next sync committee")
	zzverif.Reach("sync-committee-updates")
	err = ProcessSyncCommitteeUpdates(context.Background(), spec, epc, st)
	zzverif.Assert(err == nil, "ProcessSyncCommitteeUpdates succeeds")
	// spec
	next := cur + 1
	if next%uint64(spec.EPOCHS_PER_SYNC_COMMITTEE_PERIOD) == 0 {
		raw.CurrentSyncCommittee = raw.NextSyncCommittee
		raw.NextSyncCommittee = vAlMarkerCommittee(spec)
	}
	h := tree.GetHashFn()
	csc, e1 := st.CurrentSyncCommittee()
	nsc, e2 := st.NextSyncCommittee()
	zzverif.Assert(e1 == nil && csc.HashTreeRoot(h) == raw.CurrentSyncCommittee.HashTreeRoot(spec, h), "current_sync_committee as the spec (rotated exactly at a period boundary)")
	zzverif.Assert(e2 == nil && nsc.HashTreeRoot(h) == raw.NextSyncCommittee.HashTreeRoot(spec, h), "next_sync_committee as the spec (recomputed exactly at a period boundary)")
	zzverif.Assert(st.HashTreeRoot(h) == raw.HashTreeRoot(spec, h), "after the sync committee update the state is exactly the spec's")
	// the live context across the epoch boundary
	raw.Slot++
	_ = st.SetSlot(raw.Slot)
	err = epc.RotateEpochs(st)
	zzverif.Assert(err == nil, "RotateEpochs succeeds")
	vAlSameIndexed(raw, epc.CurrentSyncCommittee, &raw.CurrentSyncCommittee, "rotated context, current sync committee")
	vAlSameIndexed(raw, epc.NextSyncCommittee, &raw.NextSyncCommittee, "rotated context, next sync committee")
}

// VerifHarness_C01_sync_aggregate: the real ProcessSyncAggregate accepts exactly the aggregates the spec's
// process_sync_aggregate accepts (eth_fast_aggregate_verify over the participants' keys of the *current* sync
// committee in committee order, message = signing root of the block root of the previous slot under
// DOMAIN_SYNC_COMMITTEE with the fork version at the previous slot's epoch; empty participation with the infinity
// signature is valid) and then changes the balances as the spec (participants +participant_reward, the proposer
// +proposer_reward per participant, non-participants -participant_reward saturating at 0; rewards from the total
// active balance), nothing else (root of every other top-level field unchanged; with param root=1 also the whole-state
// root against the struct form). A rejected aggregate leaves the state untouched.
// Bounds/assumptions: tiny preset (committee of 4), 3 validators with concrete effective balances (32, 17, 32 ETH; the
// third has exited but still sits in the committee), committee composition one of 3 patterns with duplicates, proposer
// one of the 2 active validators, slot 1..4, symbolic fork epoch <= 3, symbolic balances < 2^40, all 16 participation
// patterns, signature with two symbolic bytes (includes the infinity encoding). Context by the real NewEpochsContext
// (shuffling/proposer sampling stubbed, group c02al). Axiom: the infinity signature encoding deserialises. With
// param lowprop=0 (default) the proposer's balance is assumed >= SYNC_COMMITTEE_SIZE * participant_reward
// (reachable states: a proposer is an active validator); lowprop=1 drops that assumption: the implementation pays the
// proposer once after the committee loop, the spec inside it, which differs when the proposer is itself a
// non-participating member whose balance saturates at 0.
// Shards: Choose #1 = slot-1 (4), #2 = committee pattern (3), #3 = proposer (2), e.g. -prefix 1,0,1.
func VerifHarness_C01_sync_aggregate() {
	zzverif.UseOverrides("c02al")
	spec := common.VTinySpec()
	slot := uint64(1 + zzverif.Choose(4))
	pat := [][]int{{0, 1, 2, 0}, {2, 2, 1, 1}, {1, 0, 0, 0}}[zzverif.Choose(3)]
	prop := zzverif.Choose(2)
	n := 3
	raw := vAlNewRaw(spec, n, slot)
	raw.Validators[1].EffectiveBalance = 17 * spec.EFFECTIVE_BALANCE_INCREMENT
	raw.Validators[2].ExitEpoch, raw.Validators[2].WithdrawableEpoch = 0, 2
	for i := 0; i < n; i++ {
		b := zzverif.NondetU64()
		zzverif.Assume(b < 1<<40)
		raw.Balances[i] = common.Gwei(b)
	}
	fe := zzverif.NondetU8()
	zzverif.Assume(fe <= 3)
	raw.Fork = common.Fork{PreviousVersion: common.Version{0, 0, 0, 1}, CurrentVersion: common.Version{1, 0, 0, 1}, Epoch: common.Epoch(fe)}
	raw.CurrentSyncCommittee = vAlCommittee(spec, pat, 1)
	raw.NextSyncCommittee = vAlCommittee(spec, []int{pat[3], pat[0], pat[0], pat[2]}, 2)
	st := vAlStateToView(spec, raw)
	epc, err := common.NewEpochsContext(spec, st)
	zzverif.Assert(err == nil, "NewEpochsContext succeeds on a well-formed altair state")
	if err != nil {
		return
	}
	spe := uint64(spec.SLOTS_PER_EPOCH)
	props := make([]common.ValidatorIndex, spe)
	for i := range props {
		props[i] = common.ValidatorIndex(1 - prop)
	}
	props[slot%spe] = common.ValidatorIndex(prop)
	epc.Proposers = &common.ProposersEpoch{Spec: spec, Epoch: common.Epoch(slot / spe), Proposers: props}

	// spec: rewards (concrete: effective balances are concrete)
	total := uint64(0)
	curEpoch := common.Epoch(slot / spe)
	for _, v := range raw.Validators {
		if v.ActivationEpoch <= curEpoch && curEpoch < v.ExitEpoch {
			total += uint64(v.EffectiveBalance)
		}
	}
	inc := uint64(spec.EFFECTIVE_BALANCE_INCREMENT)
	if total < inc {
		total = inc
	}
	baseRewardPerIncrement := inc * uint64(spec.BASE_REWARD_FACTOR) / vAlIsqrt(total)
	totalBaseRewards := baseRewardPerIncrement * (total / inc)
	maxParticipantRewards := totalBaseRewards * 2 / 64 / spe
	participantReward := maxParticipantRewards / uint64(spec.SYNC_COMMITTEE_SIZE)
	proposerReward := participantReward * 8 / (64 - 8)
	if zzverif.Param("lowprop", 0) == 0 {
		zzverif.Assume(uint64(raw.Balances[prop]) >= uint64(spec.SYNC_COMMITTEE_SIZE)*participantReward)
	}

	bits := uint8(zzverif.Concrete(uint64(zzverif.NondetU8() & 0x0f)))
	agg := &SyncAggregate{SyncCommitteeBits: SyncCommitteeBits{bits}, SyncCommitteeSignature: vAlSig1()}
	var inf common.BLSSignature
	inf[0] = 0xc0
	zzverif.Assume(zzverif.BLSSigValid(inf))
	h := tree.GetHashFn()
	pre := st.HashTreeRoot(h)
	preFields := vAlFieldRoots(st)
	zzverif.Reach("sync-aggregate")
	err = ProcessSyncAggregate(context.Background(), spec, epc, st, agg)

	// spec: signature
	var parts [][48]byte
	keysOK := true
	for k := 0; k < int(spec.SYNC_COMMITTEE_SIZE); k++ {
		if bits>>uint(k)&1 == 1 {
			parts = append(parts, [48]byte(raw.CurrentSyncCommittee.Pubkeys[k]))
			keysOK = keysOK && zzverif.BLSPubkeyValid([48]byte(raw.CurrentSyncCommittee.Pubkeys[k]))
		}
	}
	prevSlot := slot - 1
	version := raw.Fork.CurrentVersion
	if common.Epoch(prevSlot/spe) < raw.Fork.Epoch {
		version = raw.Fork.PreviousVersion
	}
	domain := common.ComputeDomain(common.DOMAIN_SYNC_COMMITTEE, version, raw.GenesisValidatorsRoot)
	msg := common.ComputeSigningRoot(raw.BlockRoots[prevSlot%uint64(spec.SLOTS_PER_HISTORICAL_ROOT)], domain)
	sig := agg.SyncCommitteeSignature
	var valid bool
	if len(parts) == 0 {
		valid = sig == inf
	} else {
		valid = keysOK && zzverif.BLSSigValid([96]byte(sig)) && zzverif.BLSFastAggregateVerify(parts, msg[:], [96]byte(sig))
	}
	zzverif.Assert((err == nil) == valid, "sync aggregate accepted iff the spec's eth_fast_aggregate_verify holds")
	if err != nil {
		zzverif.Assert(st.HashTreeRoot(h) == pre, "a rejected sync aggregate leaves the state unchanged")
		return
	}
	// spec: balances, in committee order
	want := make([]uint64, n)
	for i := range want {
		want[i] = uint64(raw.Balances[i])
	}
	for k := 0; k < int(spec.SYNC_COMMITTEE_SIZE); k++ {
		idx := int(vAlIndexOf(raw, raw.CurrentSyncCommittee.Pubkeys[k]))
		if bits>>uint(k)&1 == 1 {
			want[idx] += participantReward
			want[prop] += proposerReward
		} else if want[idx] >= participantReward {
			want[idx] -= participantReward
		} else {
			want[idx] = 0
		}
	}
	bals, _ := st.Balances()
	for i := 0; i < n; i++ {
		got, e := bals.GetBalance(common.ValidatorIndex(i))
		zzverif.Assert(e == nil && uint64(got) == want[i], "balance after process_sync_aggregate as the spec")
		raw.Balances[i] = common.Gwei(want[i])
	}
	bl, e := bals.Length()
	zzverif.Assert(e == nil && bl == uint64(n), "balances keeps len(validators) entries")
	vAlSameFieldsExcept(st, preFields, _stateBalances, "process_sync_aggregate changes no field other than balances")
	if zzverif.Param("root", 0) == 1 { // the same claim through the uninterpreted hash of the whole state (slow with z3: use -solver cvc5)
		zzverif.Assert(st.HashTreeRoot(h) == raw.HashTreeRoot(spec, h), "after the sync aggregate the state is exactly the spec's")
	}
}
