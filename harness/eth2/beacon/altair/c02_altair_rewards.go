package altair

import (
	"context"

	"github.com/protolambda/zrnt/eth2/beacon/common"
	"github.com/protolambda/zrnt/eth2/zzverif"
	"github.com/protolambda/ztyp/tree"
	. "github.com/protolambda/ztyp/view"
)

// VA2RewardsIn: the raw inputs of the spec's process_rewards_and_penalties (altair and later), per validator.
type VA2RewardsIn struct {
	Eff          []uint64 // effective_balance
	Slashed      []bool
	ActivePrev   []bool // is_active_validator(v, previous_epoch)
	ActiveCur    []bool // is_active_validator(v, current_epoch)
	Withdrawable []common.Epoch
	Flags        []uint8  // previous_epoch_participation
	Scores       []uint64 // inactivity_scores
	Bal          []uint64 // balances
	Prev, Cur    uint64   // previous / current epoch
	Fin          uint64   // finalized_checkpoint.epoch
}

// VA2RewardsRaw: an altair state (struct form) of the tiny preset at the last slot of its epoch with three validators with
// concrete, pairwise distinct effective balances 8/24/32 ETH, and the inputs read off it.
//
//	mode 0: epoch 6, all three active (total active balance 64 increments);
//	mode 1: epoch 6, the third validator exited at epoch 4 (total active balance 32 increments), withdrawable at a
//	        symbolic epoch 5..8: eligible only while slashed and previous_epoch + 1 < withdrawable_epoch;
//	mode 2: epoch 0 (GENESIS_EPOCH: no rewards are applied), all active.
//
// Symbolic: slashed flag of the third validator (chosen for the first two), previous/current participation flags (3 bits), inactivity scores < 2^12, balances < 2^40
// (with lowbal == false: >= 2^24 Gwei, which exceeds every sum of penalties possible here), finalized epoch 0..4
// (epoch 6: finality delay 5-fin on both sides of MIN_EPOCHS_TO_INACTIVITY_PENALTY = 4).
func VA2RewardsRaw(spec *common.Spec, mode int, lowbal bool) (*BeaconState, *VA2RewardsIn) {
	const n = 3
	cur := uint64(6)
	if mode == 2 {
		cur = 0
	}
	prev := cur
	if cur > 0 {
		prev = cur - 1
	}
	spe := uint64(spec.SLOTS_PER_EPOCH)
	raw := vAlNewRaw(spec, n, cur*spe+spe-1)
	in := &VA2RewardsIn{Prev: prev, Cur: cur}
	effs := []uint64{8000000000, 24000000000, 32000000000}
	for i := 0; i < n; i++ {
		v := raw.Validators[i]
		v.EffectiveBalance = common.Gwei(effs[i])
		if i < 2 {
			v.Slashed = zzverif.Choose(2) == 1 // concrete for the first two validators: lets the job be sharded
		} else {
			v.Slashed = zzverif.NondetBool()
		}
		active := true
		if mode == 1 && i == 2 {
			active = false
			v.ExitEpoch = 4
			w := zzverif.NondetU8()
			zzverif.Assume(w >= 5 && w <= 8)
			v.WithdrawableEpoch = common.Epoch(w)
		}
		raw.PreviousEpochParticipation[i] = ParticipationFlags(zzverif.NondetU8() & 7)
		raw.CurrentEpochParticipation[i] = ParticipationFlags(zzverif.NondetU8() & 7)
		s := zzverif.NondetU64()
		zzverif.Assume(s < 1<<12)
		raw.InactivityScores[i] = Uint64View(s)
		b := zzverif.NondetU64()
		zzverif.Assume(b < 1<<40)
		if !lowbal {
			zzverif.Assume(b >= 1<<24)
		}
		raw.Balances[i] = common.Gwei(b)
		in.Eff = append(in.Eff, effs[i])
		in.Slashed = append(in.Slashed, v.Slashed)
		in.ActivePrev = append(in.ActivePrev, active)
		in.ActiveCur = append(in.ActiveCur, active)
		in.Withdrawable = append(in.Withdrawable, v.WithdrawableEpoch)
		in.Flags = append(in.Flags, uint8(raw.PreviousEpochParticipation[i]))
		in.Scores = append(in.Scores, s)
		in.Bal = append(in.Bal, b)
	}
	fin := zzverif.NondetU8()
	zzverif.Assume(uint64(fin) <= 4 && uint64(fin) <= prev)
	raw.FinalizedCheckpoint.Epoch = common.Epoch(fin)
	in.Fin = uint64(fin)
	return raw, in
}

// VA2RefRewards: the spec's process_rewards_and_penalties (altair; bellatrix and later with their
// INACTIVITY_PENALTY_QUOTIENT) over the raw inputs; returns the balances afterwards.
//
//	if current_epoch == GENESIS_EPOCH: return
//	deltas = [get_flag_index_deltas(state, f) for f in range(3)] + [get_inactivity_penalty_deltas(state)]
//	for (rewards, penalties) in deltas: for index: increase_balance(rewards[index]); decrease_balance(penalties[index])
//
// (the four delta sets are applied one after the other, each decrease saturating at 0)
func VA2RefRewards(spec *common.Spec, in *VA2RewardsIn, inactivityPenaltyQuotient uint64) []uint64 {
	n := len(in.Eff)
	bal := append([]uint64(nil), in.Bal...)
	if in.Cur == 0 {
		return bal
	}
	inc := uint64(spec.EFFECTIVE_BALANCE_INCREMENT)
	total := uint64(0) // get_total_active_balance: active in the CURRENT epoch
	for i := 0; i < n; i++ {
		if in.ActiveCur[i] {
			total += in.Eff[i]
		}
	}
	if total < inc {
		total = inc
	}
	perInc := inc * uint64(spec.BASE_REWARD_FACTOR) / vAlIsqrt(total) // get_base_reward_per_increment
	activeIncrements := total / inc
	leak := in.Prev-in.Fin > uint64(spec.MIN_EPOCHS_TO_INACTIVITY_PENALTY) // is_in_inactivity_leak
	eligible := make([]bool, n)                                            // get_eligible_validator_indices
	for i := 0; i < n; i++ {
		eligible[i] = in.ActivePrev[i] || (in.Slashed[i] && common.Epoch(in.Prev)+1 < in.Withdrawable[i])
	}
	apply := func(i int, reward, penalty uint64) {
		bal[i] += reward
		if bal[i] >= penalty {
			bal[i] -= penalty
		} else {
			bal[i] = 0
		}
	}
	const weightDenominator = 64
	weights := []uint64{14, 26, 14} // TIMELY_SOURCE_WEIGHT, TIMELY_TARGET_WEIGHT, TIMELY_HEAD_WEIGHT
	for f := 0; f < 3; f++ {        // get_flag_index_deltas(state, f)
		part := make([]bool, n) // get_unslashed_participating_indices(state, f, previous_epoch)
		pb := uint64(0)
		for i := 0; i < n; i++ {
			part[i] = in.ActivePrev[i] && !in.Slashed[i] && in.Flags[i]&(1<<uint(f)) != 0
			if part[i] {
				pb += in.Eff[i]
			}
		}
		if pb < inc { // get_total_balance: at least one increment
			pb = inc
		}
		participatingIncrements := pb / inc
		for i := 0; i < n; i++ {
			if !eligible[i] {
				continue
			}
			baseReward := in.Eff[i] / inc * perInc
			reward, penalty := uint64(0), uint64(0)
			if part[i] {
				if !leak {
					reward = baseReward * weights[f] * participatingIncrements / (activeIncrements * weightDenominator)
				}
			} else if f != 2 { // flag_index != TIMELY_HEAD_FLAG_INDEX
				penalty = baseReward * weights[f] / weightDenominator
			}
			apply(i, reward, penalty)
		}
	}
	// get_inactivity_penalty_deltas
	for i := 0; i < n; i++ {
		if !eligible[i] {
			continue
		}
		targetParticipant := in.ActivePrev[i] && !in.Slashed[i] && in.Flags[i]&(1<<1) != 0
		if !targetParticipant {
			apply(i, 0, in.Eff[i]*in.Scores[i]/(uint64(spec.INACTIVITY_SCORE_BIAS)*inactivityPenaltyQuotient))
		}
	}
	return bal
}

// VA2FieldRoots: the hash-tree-roots of the top-level fields of a state view, in field order.
func VA2FieldRoots(cv *ContainerView) []common.Root {
	h := tree.GetHashFn()
	var out []common.Root
	for i := range cv.Fields {
		v, err := cv.Get(uint64(i))
		zzverif.Assert(err == nil, "state field view")
		out = append(out, v.HashTreeRoot(h))
	}
	return out
}

// VA2RewardsCheck: runs the real NewEpochsContext (shuffling / proposer sampling stubbed, group c02al),
// ComputeEpochAttesterData and ProcessEpochRewardsAndPenalties on the state view `st` (whose container is `cv`) built
// from the inputs `in`, and - chosen (the last Choose of the harness), because the hash constraints of the field roots
// make the arithmetic queries slow - either (0) compares the balances with VA2RefRewards for the given
// INACTIVITY_PENALTY_QUOTIENT, or (1) checks that every top-level field other than balances keeps its root.
func VA2RewardsCheck(spec *common.Spec, in *VA2RewardsIn, st AltairLikeBeaconState, cv *ContainerView, inactivityPenaltyQuotient uint64) {
	zzverif.UseOverrides("c02al")
	n := len(in.Eff)
	frame := zzverif.Choose(2) == 1
	epc, err := common.NewEpochsContext(spec, st)
	zzverif.Assert(err == nil && epc != nil, "NewEpochsContext succeeds on a well-formed state")
	if err != nil {
		return
	}
	ctx := context.Background()
	vals, _ := st.Validators()
	flats, err := common.FlattenValidators(vals)
	zzverif.Assert(err == nil, "FlattenValidators")
	var preFields []common.Root
	if frame {
		preFields = VA2FieldRoots(cv)
	}
	zzverif.Reach("altair-rewards")
	att, err := ComputeEpochAttesterData(ctx, spec, epc, flats, st)
	zzverif.Assert(err == nil, "ComputeEpochAttesterData succeeds")
	if err != nil {
		return
	}
	err = ProcessEpochRewardsAndPenalties(ctx, spec, epc, att, st)
	zzverif.Assert(err == nil, "ProcessEpochRewardsAndPenalties succeeds")
	if frame {
		post := VA2FieldRoots(cv)
		for i := range preFields {
			if i != _stateBalances {
				zzverif.Assert(post[i] == preFields[i], "process_rewards_and_penalties changes no field other than balances")
			}
		}
		return
	}
	want := VA2RefRewards(spec, in, inactivityPenaltyQuotient)
	bals, _ := st.Balances()
	for i := 0; i < n; i++ {
		got, e := bals.GetBalance(common.ValidatorIndex(i))
		zzverif.Assert(e == nil && uint64(got) == want[i], "balances after process_rewards_and_penalties equal the spec's")
	}
	bl, e := bals.Length()
	zzverif.Assert(e == nil && bl == uint64(n), "balances keeps len(validators) entries")
}

// VerifHarness_C02_altair_rewards: ComputeEpochAttesterData + altair's ProcessEpochRewardsAndPenalties on the real
// altair state equal the spec's altair process_rewards_and_penalties: get_flag_index_deltas for the three flags
// (unslashed participating balance of the previous epoch per flag, weights 14/26/14 of 64, reward
// base_reward * weight * participating_increments / (active_increments * 64) unless in the inactivity leak, penalty
// base_reward * weight / 64 for source and target but not head, eligible validators only) and
// get_inactivity_penalty_deltas (effective_balance * inactivity_score / (INACTIVITY_SCORE_BIAS *
// INACTIVITY_PENALTY_QUOTIENT_ALTAIR) for eligible validators that are not unslashed timely-target participants), the
// four delta sets applied one after the other; nothing at GENESIS_EPOCH; no field other than balances changes.
// Bounds/assumptions: see VA2RewardsRaw (tiny preset, 3 validators 8/24/32 ETH, symbolic slashed flags, participation
// flags, inactivity scores < 2^12, finalized epoch on both sides of the leak threshold). With param lowbal=0 (default)
// every balance is assumed >= 2^24 Gwei; lowbal=1 drops that assumption: the implementation sums the four delta sets and
// applies them at once (one saturating subtraction), the spec applies them in sequence (a balance that saturates at 0
// after an early set still receives the rewards of a later set), which differs for balances below the penalties.
// Shards: Choose #1 = mode (3: all active / third validator exited / genesis epoch), #2, #3 = slashed flag of validator
// 0, 1 (2 each), #4 = balances comparison / frame check (2), e.g. -prefix 1,0,1.
func VerifHarness_C02_altair_rewards() {
	spec := common.VTinySpec()
	mode := zzverif.Choose(3)
	raw, in := VA2RewardsRaw(spec, mode, zzverif.Param("lowbal", 0) == 1)
	st := vAlStateToView(spec, raw)
	VA2RewardsCheck(spec, in, st, st.ContainerView, uint64(spec.INACTIVITY_PENALTY_QUOTIENT_ALTAIR))
}
