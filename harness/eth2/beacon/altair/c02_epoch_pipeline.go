package altair

import (
	"context"

	"github.com/protolambda/zrnt/eth2/beacon/common"
	"github.com/protolambda/zrnt/eth2/beacon/phase0"
	"github.com/protolambda/zrnt/eth2/zzverif"
	"github.com/protolambda/ztyp/tree"
	. "github.com/protolambda/ztyp/view"
)

// vPlAlRaw: the altair state of the epoch-pipeline scenario (see VerifHarness_C02_altair_epoch_pipeline).
func vPlAlRaw(spec *common.Spec) *BeaconState {
	const n = 4
	cur := uint64(7)
	spe := uint64(spec.SLOTS_PER_EPOCH)
	raw := vAlNewRaw(spec, n, cur*spe+spe-1)
	raw.LatestBlockHeader.Slot = raw.Slot
	for i := range raw.BlockRoots {
		raw.BlockRoots[i][5] = byte(i + 1)
	}
	for i, v := range raw.Validators {
		switch i {
		case 1:
			v.EffectiveBalance = spec.EJECTION_BALANCE
		case 2:
			v.Slashed = true
			v.ExitEpoch, v.WithdrawableEpoch = 5, 9
		case 3:
			v.ActivationEligibilityEpoch, v.ActivationEpoch = 3, vAlFar
		}
		// symbolic balances and scores inside windows in which every comparison the sub-steps make is decided (no
		// saturation, the hysteresis rule always rewrites the effective balance), so the run does not fork:
		// 34..64 ETH, and 40..44 ETH for the slashed validator (8..12 ETH after its 32 ETH penalty)
		b := zzverif.NondetU64()
		if i == 2 {
			zzverif.Assume(b >= 40000000000 && b < 44000000000)
		} else {
			zzverif.Assume(b >= 34000000000 && b < 1<<36)
		}
		raw.Balances[i] = common.Gwei(b)
		s := zzverif.NondetU64()
		zzverif.Assume(s >= 100 && s < 1<<20)
		raw.InactivityScores[i] = Uint64View(s)
	}
	// epoch 6: validators 0 and 1 (the whole active stake) have the timely source and target flags, validator 0 the head
	// flag as well; epoch 7: validator 1 only
	raw.PreviousEpochParticipation[0] = TIMELY_SOURCE_FLAG | TIMELY_TARGET_FLAG | TIMELY_HEAD_FLAG
	raw.PreviousEpochParticipation[1] = TIMELY_SOURCE_FLAG | TIMELY_TARGET_FLAG
	raw.CurrentEpochParticipation[1] = TIMELY_SOURCE_FLAG | TIMELY_TARGET_FLAG | TIMELY_HEAD_FLAG
	raw.Eth1DataVotes = phase0.Eth1DataVotes{common.Eth1Data{DepositRoot: vAlRoot1(), DepositCount: 9, BlockHash: vAlRoot1()}}
	raw.HistoricalRoots = phase0.HistoricalRoots{vAlRoot1()}
	raw.Slashings = phase0.SlashingsHistory{24000000000, 0, 0, 8000000000}
	oldJust := common.Checkpoint{Epoch: 5, Root: vAlRoot1()}
	raw.PreviousJustifiedCheckpoint, raw.CurrentJustifiedCheckpoint = oldJust, oldJust
	raw.FinalizedCheckpoint = common.Checkpoint{Epoch: 0, Root: vAlRoot1()}
	raw.JustificationBits = common.JustificationBits{0x02}
	raw.CurrentSyncCommittee = vAlCommittee(spec, []int{0, 1, 2, 0}, 1)
	raw.NextSyncCommittee = vAlCommittee(spec, []int{3, 0, 0, 1}, 2)
	return raw
}

// VerifHarness_C02_altair_epoch_pipeline: altair's (*BeaconStateView).ProcessEpoch runs the spec's process_epoch
//
//	process_justification_and_finalization; process_inactivity_updates; process_rewards_and_penalties;
//	process_registry_updates; process_slashings; process_eth1_data_reset; process_effective_balance_updates;
//	process_slashings_reset; process_randao_mixes_reset; process_historical_roots_update;
//	process_participation_flag_updates; process_sync_committee_updates
//
// in this order, each step on the state the previous steps left. Every sub-step has its own harness against the spec;
// here the REFERENCE IS THE SEQUENTIAL COMPOSITION OF THE REPOSITORY'S (individually verified) SUB-STEP FUNCTIONS on an
// independent copy of the state (a second view decoded from the same bytes, with its own epochs context), each step
// given freshly computed inputs (flattened registry and attester summary re-read from the copy immediately before the
// step, as the spec's steps read the state) - it does not call ProcessEpoch. Decided: with a live context ProcessEpoch
// succeeds and every one of the 24 top-level field roots equals the copy's after all twelve steps; with a context that
// reports cancellation at its k-th poll (the pipeline polls exactly once per sub-step, 12 polls) it fails, polls no
// further, and the state equals the copy after the first k-1 steps.
// The scenario makes the order observable (same construction as the phase0 pipeline harness): epoch 7, finalized epoch
// 0 and justified epoch 5 before, epoch 6 justified and epoch 5 finalized by this very transition (participation flags
// of the whole active stake), so inactivity updates and rewards must see the new finalized checkpoint (no leak), rewards
// must see the updated inactivity scores (symbolic scores 100..2^20), registry updates activate validator 3 (eligibility
// epoch 3 <= new finalized epoch) and eject validator 1 on its old effective balance 16 ETH, slashings (validator 2,
// withdrawable at 7 + 2, slashings vector summed before entry 0 is reset) precede the effective-balance update, which
// works on the balances after rewards and slashings (symbolic balances in branch-free windows, see vPlAlRaw); next epoch 8 starts an eth1 voting
// period, a historical batch and a sync committee period (the committee sampling is the stub of override group "c02al",
// which ignores the state: the position of the committee update is observed through the cancellation shards only).
// Live-run self-checks pin the scenario facts on the real post-state (finalized epoch 5, validator 3 activated,
// validator 1 ejected, votes cleared, slashings[0] cleared, two historical roots, participation rotated, committee
// rotated).
// Bounds/assumptions: tiny preset; 4 validators with concrete lifecycle; NewEpochsContext with the shuffling / proposer /
// next-sync-committee stubs of group "c02al"; SHA-256 uninterpreted.
// Shards: Choose #1 = 0 live, k = 1..12 cancel at poll k, 13 = cancel at a poll that is never made.
func VerifHarness_C02_altair_epoch_pipeline() {
	failAt := zzverif.Choose(14) - 1
	zzverif.UseOverrides("c02al")
	spec := common.VTinySpec()
	raw := vPlAlRaw(spec)
	cur := common.Epoch(7)
	st := vAlStateToView(spec, raw)
	ref := vAlStateToView(spec, raw)
	epc, err := common.NewEpochsContext(spec, st)
	zzverif.Assert(err == nil && epc != nil, "NewEpochsContext succeeds on a well-formed altair state")
	epcRef, err := common.NewEpochsContext(spec, ref)
	zzverif.Assert(err == nil && epcRef != nil, "NewEpochsContext succeeds on a well-formed altair state")
	zzverif.Assert(epc.CurrentEpoch.Epoch == cur && epc.NextEpoch.Epoch == cur+1 && len(epc.CurrentEpoch.ActiveIndices) == 2 &&
		uint64(epc.TotalActiveStake) == 48000000000, "scenario self-check: epoch 7, validators 0 and 1 active with 48 ETH")
	oldNext := raw.NextSyncCommittee
	polls := 0
	ctx := vM2Ctx{polls: &polls, failAt: failAt}

	zzverif.Reach("altair-epoch-pipeline")
	perr := st.ProcessEpoch(ctx, spec, epc)

	cancelled := failAt >= 0 && failAt < 12
	done := 12
	if cancelled {
		done = failAt
	}
	zzverif.Assert((perr != nil) == cancelled, "altair ProcessEpoch succeeds with a live context and fails when a poll reports cancellation")
	if cancelled {
		zzverif.Assert(polls == failAt+1, "no poll after the one that reported cancellation")
	} else {
		zzverif.Assert(polls == 12, "ProcessEpoch polls the context once per sub-step")
	}

	// ---- the spec's process_epoch as a sequential composition of the sub-steps on the copy ----
	bg := context.Background()
	flats := func() []common.FlatValidator {
		vals, e := ref.Validators()
		zzverif.Assert(e == nil, "reference: validators")
		f, e := common.FlattenValidators(vals)
		zzverif.Assert(e == nil, "reference: FlattenValidators")
		return f
	}
	attester := func() *EpochAttesterData {
		d, e := ComputeEpochAttesterData(bg, spec, epcRef, flats(), ref)
		zzverif.Assert(e == nil && d != nil, "reference: ComputeEpochAttesterData")
		return d
	}
	steps := []func() error{
		func() error {
			d := attester()
			just := phase0.JustificationStakeData{CurrentEpoch: cur, TotalActiveStake: epcRef.TotalActiveStake,
				PrevEpochUnslashedTargetStake: d.PrevEpochUnslashedStake.TargetStake, CurrEpochUnslashedTargetStake: d.CurrEpochUnslashedTargetStake}
			return phase0.ProcessEpochJustification(bg, spec, &just, ref)
		},
		func() error { return ProcessInactivityUpdates(bg, spec, attester(), ref) },
		func() error { return ProcessEpochRewardsAndPenalties(bg, spec, epcRef, attester(), ref) },
		func() error { return phase0.ProcessEpochRegistryUpdates(bg, spec, epcRef, flats(), ref) },
		func() error { return phase0.ProcessEpochSlashings(bg, spec, epcRef, flats(), ref) },
		func() error { return phase0.ProcessEth1DataReset(bg, spec, epcRef, ref) },
		func() error { return phase0.ProcessEffectiveBalanceUpdates(bg, spec, epcRef, flats(), ref) },
		func() error { return phase0.ProcessSlashingsReset(bg, spec, epcRef, ref) },
		func() error { return phase0.ProcessRandaoMixesReset(bg, spec, epcRef, ref) },
		func() error { return phase0.ProcessHistoricalRootsUpdate(bg, spec, epcRef, ref) },
		func() error { return ProcessParticipationFlagUpdates(bg, spec, ref) },
		func() error { return ProcessSyncCommitteeUpdates(bg, spec, epcRef, ref) },
	}
	for j := 0; j < done; j++ {
		zzverif.Assert(steps[j]() == nil, "reference: the sub-step succeeds")
	}
	got, want := vAlFieldRoots(st), vAlFieldRoots(ref)
	for i := range want {
		zzverif.Assert(got[i] == want[i], "altair process_epoch: every field is as after the spec's sequence of sub-steps (up to the failing poll)")
	}
	if done < 12 {
		return
	}
	// scenario self-checks on the real post-state
	fin, _ := st.FinalizedCheckpoint()
	cj, _ := st.CurrentJustifiedCheckpoint()
	zzverif.Assert(fin.Epoch == 5 && cj.Epoch == 6, "scenario: epoch 6 justified and epoch 5 finalized by this transition")
	vals, _ := st.Validators()
	v3, _ := vals.Validator(3)
	a3, _ := v3.ActivationEpoch()
	v1, _ := vals.Validator(1)
	x1, _ := v1.ExitEpoch()
	zzverif.Assert(a3 == cur+1+spec.MAX_SEED_LOOKAHEAD, "scenario: validator 3 is activated on the new finalized epoch")
	zzverif.Assert(x1 == cur+1+spec.MAX_SEED_LOOKAHEAD, "scenario: validator 1 is ejected on its old effective balance")
	votes, _ := st.Eth1DataVotes()
	vl, _ := votes.Length()
	hrv, _ := phase0.AsHistoricalRoots(st.Get(_stateHistoricalRoots))
	hl, _ := hrv.Length()
	sl, _ := st.Slashings()
	s0, _ := sl.GetSlashingsValue(0)
	zzverif.Assert(vl == 0 && hl == 2 && s0 == 0, "scenario: eth1 votes and slashings[0] cleared, a historical root appended")
	pp, _ := st.PreviousEpochParticipation()
	cp, _ := st.CurrentEpochParticipation()
	for i := 0; i < 4; i++ {
		pf, _ := pp.GetFlags(common.ValidatorIndex(i))
		cf, _ := cp.GetFlags(common.ValidatorIndex(i))
		zzverif.Assert(pf == raw.CurrentEpochParticipation[i] && cf == 0, "scenario: participation flags rotated")
	}
	csc, _ := st.CurrentSyncCommittee()
	zzverif.Assert(csc.HashTreeRoot(tree.GetHashFn()) == oldNext.HashTreeRoot(spec, tree.GetHashFn()), "scenario: the next sync committee became the current one")
}
