package altair

import (
	"github.com/protolambda/zrnt/eth2/beacon/common"
	"github.com/protolambda/zrnt/eth2/beacon/phase0"
)

// VA2AltairOfBase: a well-formed altair state (struct form, see vAlNewRaw: zero participation flags and inactivity
// scores, filled sync committees) whose phase0-era fields are those of `base`.
func VA2AltairOfBase(spec *common.Spec, base *phase0.VUpBase) *BeaconState {
	raw := vAlNewRaw(spec, len(base.Validators), uint64(base.Slot))
	raw.GenesisTime, raw.GenesisValidatorsRoot, raw.Slot, raw.Fork = base.GenesisTime, base.GenesisValidatorsRoot, base.Slot, base.Fork
	raw.LatestBlockHeader, raw.BlockRoots, raw.StateRoots, raw.HistoricalRoots = base.LatestBlockHeader, base.BlockRoots, base.StateRoots, base.HistoricalRoots
	raw.Eth1Data, raw.Eth1DataVotes, raw.Eth1DepositIndex = base.Eth1Data, base.Eth1DataVotes, base.Eth1DepositIndex
	raw.Validators, raw.Balances, raw.RandaoMixes, raw.Slashings = base.Validators, base.Balances, base.RandaoMixes, base.Slashings
	raw.JustificationBits = base.JustificationBits
	raw.PreviousJustifiedCheckpoint, raw.CurrentJustifiedCheckpoint, raw.FinalizedCheckpoint = base.PreviousJustifiedCheckpoint, base.CurrentJustifiedCheckpoint, base.FinalizedCheckpoint
	raw.Fork = common.Fork{PreviousVersion: spec.GENESIS_FORK_VERSION, CurrentVersion: spec.ALTAIR_FORK_VERSION, Epoch: 0}
	return raw
}

// VerifHarness_C02_fork_quotients (altair state): phase0.SlashValidator and phase0.ProcessEpochSlashings - the code altair's
// block and epoch pipelines call - on a real altair state use the altair constants: penalty effective_balance //
// MIN_SLASHING_PENALTY_QUOTIENT_ALTAIR (64), proposer_reward = whistleblower_reward * PROPOSER_WEIGHT // WEIGHT_DENOMINATOR,
// PROPORTIONAL_SLASHING_MULTIPLIER_ALTAIR (2); everything else as the spec's slash_validator / process_slashings.
// Bounds: phase0.VA2ForkWorldT (3 validators; one slashing with/without whistleblower at epoch 4, or the slashings step at
// epoch 6), preset phase0.VA2ForkSpec (tiny preset with PROPOSER_REWARD_QUOTIENT = 4).
// Shards: Choose #1 = kind (2); kind 0: #2 = slashed validator (3), #3 = whistleblower (3); kind 1: #2 = third validator active (2).
func VerifHarness_C02_fork_quotients() {
	spec := phase0.VA2ForkSpec()
	w := phase0.VA2ForkWorld(spec)
	st := vAlStateToView(spec, VA2AltairOfBase(spec, w.Base()))
	w.Check(st, st.ContainerView, phase0.VA2ForkConsts{
		MinSlashingPenaltyQuotient:     uint64(spec.MIN_SLASHING_PENALTY_QUOTIENT_ALTAIR),
		ProportionalSlashingMultiplier: uint64(spec.PROPORTIONAL_SLASHING_MULTIPLIER_ALTAIR),
		AltairProposerShare:            true,
	})
}
