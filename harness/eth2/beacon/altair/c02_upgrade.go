package altair

import (
	"github.com/protolambda/zrnt/eth2/beacon/common"
	"github.com/protolambda/zrnt/eth2/beacon/phase0"
	"github.com/protolambda/zrnt/eth2/zzverif"
	"github.com/protolambda/ztyp/tree"
)

// ---- exported for the upgrade harnesses of the later forks and of package beacon ----

// VUpRawAltair: raw altair state of the tiny preset, every scalar leaf symbolic (vFkRawAltair); the slashed flag of
// every validator but the last is made concrete (alternating true/false) so that the state does not fork structurally.
func VUpRawAltair(spec *common.Spec, n int) *BeaconState {
	raw := vFkRawAltair(spec, n)
	for i := 0; i+1 < n; i++ {
		raw.Validators[i].Slashed = i%2 == 0
	}
	return raw
}

func VUpAltairView(spec *common.Spec, raw *BeaconState) *BeaconStateView {
	return vAlStateToView(spec, raw)
}

func VUpPub(i int) common.BLSPubkey { return vAlPub(i) }

func VUpCommittee(spec *common.Spec, pat []int, tag byte) common.SyncCommittee {
	return vAlCommittee(spec, pat, tag)
}

// VUpBaseOfAltair: the phase0-era fields of a raw altair state.
func VUpBaseOfAltair(raw *BeaconState) *phase0.VUpBase {
	return &phase0.VUpBase{
		GenesisTime: raw.GenesisTime, GenesisValidatorsRoot: raw.GenesisValidatorsRoot, Slot: raw.Slot, Fork: raw.Fork,
		LatestBlockHeader: raw.LatestBlockHeader, BlockRoots: raw.BlockRoots, StateRoots: raw.StateRoots,
		HistoricalRoots: raw.HistoricalRoots, Eth1Data: raw.Eth1Data, Eth1DataVotes: raw.Eth1DataVotes,
		Eth1DepositIndex: raw.Eth1DepositIndex, Validators: raw.Validators, Balances: raw.Balances,
		RandaoMixes: raw.RandaoMixes, Slashings: raw.Slashings, JustificationBits: raw.JustificationBits,
		PreviousJustifiedCheckpoint: raw.PreviousJustifiedCheckpoint, CurrentJustifiedCheckpoint: raw.CurrentJustifiedCheckpoint,
		FinalizedCheckpoint: raw.FinalizedCheckpoint,
	}
}

// VUpAltairExt: the fields altair added (raw form).
type VUpAltairExt struct {
	PreviousEpochParticipation ParticipationRegistry
	CurrentEpochParticipation  ParticipationRegistry
	InactivityScores           InactivityScores
	CurrentSyncCommittee       common.SyncCommittee
	NextSyncCommittee          common.SyncCommittee
}

type VUpAltairLike interface {
	AltairLikeBeaconState
	CurrentSyncCommittee() (*common.SyncCommitteeView, error)
	NextSyncCommittee() (*common.SyncCommitteeView, error)
}

// VUpCheckAltairExt: the altair-era fields of a later fork's post-upgrade state, read through the state's getters, are
// the pre-state's.
func VUpCheckAltairExt(spec *common.Spec, st VUpAltairLike, exp *VUpAltairExt) {
	h := tree.GetHashFn()
	pp, e1 := st.PreviousEpochParticipation()
	cp, e2 := st.CurrentEpochParticipation()
	is, e3 := st.InactivityScores()
	zzverif.Assert(e1 == nil && e2 == nil && e3 == nil, "upgrade: participation lists and inactivity scores readable")
	if e1 != nil || e2 != nil || e3 != nil {
		return
	}
	pl, e1 := pp.Length()
	cl, e2 := cp.Length()
	il, e3 := is.Length()
	zzverif.Assert(e1 == nil && pl == uint64(len(exp.PreviousEpochParticipation)), "upgrade: previous_epoch_participation length carried over")
	zzverif.Assert(e2 == nil && cl == uint64(len(exp.CurrentEpochParticipation)), "upgrade: current_epoch_participation length carried over")
	zzverif.Assert(e3 == nil && il == uint64(len(exp.InactivityScores)), "upgrade: inactivity_scores length carried over")
	for i := range exp.PreviousEpochParticipation {
		pf, e1 := pp.GetFlags(common.ValidatorIndex(i))
		cf, e2 := cp.GetFlags(common.ValidatorIndex(i))
		sc, e3 := is.GetScore(common.ValidatorIndex(i))
		zzverif.Assert(e1 == nil && pf == exp.PreviousEpochParticipation[i], "upgrade: previous_epoch_participation carried over (not swapped with current)")
		zzverif.Assert(e2 == nil && cf == exp.CurrentEpochParticipation[i], "upgrade: current_epoch_participation carried over (not swapped with previous)")
		zzverif.Assert(e3 == nil && sc == uint64(exp.InactivityScores[i]), "upgrade: inactivity_scores carried over")
	}
	csc, e4 := st.CurrentSyncCommittee()
	nsc, e5 := st.NextSyncCommittee()
	zzverif.Assert(e4 == nil && csc.HashTreeRoot(h) == exp.CurrentSyncCommittee.HashTreeRoot(spec, h), "upgrade: current_sync_committee carried over (not swapped with next)")
	zzverif.Assert(e5 == nil && nsc.HashTreeRoot(h) == exp.NextSyncCommittee.HashTreeRoot(spec, h), "upgrade: next_sync_committee carried over (not swapped with current)")
}

// ---- upgrade_to_altair ----

type vUpAtt struct {
	comm  []common.ValidatorIndex
	bits  uint8
	data  phase0.AttestationData
	delay uint64
}

func vUpIte8(c bool, a uint8) uint8 { return uint8(zzverif.Ite(c, uint64(a), 0)) }

// VerifHarness_C02_upgrade_altair: the real UpgradeToAltair on a real phase0 state equals the spec's upgrade_to_altair:
//   - fork = Fork(previous_version = pre.fork.current_version, current_version = ALTAIR_FORK_VERSION, epoch = epoch(pre.slot));
//   - every phase0 field is carried over (getter by getter, VUpCheckBase);
//   - previous_epoch_participation = translate_participation(pre.previous_epoch_attestations): every attesting index of
//     every pending attestation gets the flags of get_attestation_participation_flag_indices(data, inclusion_delay)
//     OR-ed in (timely source: delay <= isqrt(SLOTS_PER_EPOCH); timely target: matching target and delay <=
//     SLOTS_PER_EPOCH; timely head: matching target and head and delay == MIN_ATTESTATION_INCLUSION_DELAY); the upgrade
//     fails exactly when some pending attestation's source is not the previous justified checkpoint (the spec's assert);
//     pre.current_epoch_attestations are dropped;
//   - current_epoch_participation and inactivity_scores are zeros of len(validators);
//   - current_sync_committee = next_sync_committee = get_next_sync_committee (stub: recognisable committee, group c02al);
//   - the root of the whole post-state is the root of the struct form of that expected state.
//
// Bounds: tiny preset with SLOTS_PER_EPOCH = 4 and SLOTS_PER_HISTORICAL_ROOT = 8 (so that the three timeliness
// thresholds 1/2/4 are pairwise distinct), 3 validators with symbolic leaves (slashed flag symbolic for the last one),
// state slot anywhere in epoch 3, one historical root, one eth1 vote, 0..2 pending attestations of the previous epoch,
// each on one of two hand-built committees ({2,0} at the epoch's first slot, {1} at its second: any two attestations
// overlap or not), symbolic aggregation bits, symbolic source checkpoint / target root / head root (2 symbolic bytes:
// each may or may not match), symbolic inclusion delay 1..6, one pending attestation of the current epoch. Target
// epoch of the previous-epoch attestations is the previous epoch (reachable states). Epochs context built by hand:
// only the committees of the previous epoch and the epoch numbers are read.
// Shards: Choose #1 = number of pending attestations (3), then one Choose(2) per attestation (its committee).
func VerifHarness_C02_upgrade_altair() {
	zzverif.UseOverrides("c02al")
	spec := common.VTinySpec()
	spec.SLOTS_PER_EPOCH = 4
	spec.SLOTS_PER_HISTORICAL_ROOT = 8
	const n = 3
	spe := uint64(spec.SLOTS_PER_EPOCH)
	sphr := uint64(spec.SLOTS_PER_HISTORICAL_ROOT)
	cur := uint64(3)
	prev := cur - 1
	prevStart := prev * spe
	raw := phase0.VUpRawState(spec, n)
	off := zzverif.NondetU8()
	zzverif.Assume(uint64(off) < spe)
	raw.Slot = common.Slot(cur*spe + uint64(off))
	raw.Validators[0].Slashed, raw.Validators[1].Slashed = true, false
	raw.HistoricalRoots = phase0.HistoricalRoots{phase0.VUpRoot1()}
	raw.Eth1DataVotes = phase0.Eth1DataVotes{common.Eth1Data{DepositRoot: phase0.VUpRoot1(), DepositCount: 7, BlockHash: phase0.VUpRoot1()}}
	comms := [][][]common.ValidatorIndex{{{2, 0}}, {{1}}, {{}}, {{}}}
	k := zzverif.Choose(3)
	atts := make([]vUpAtt, k)
	for a := 0; a < k; a++ {
		at := &atts[a]
		s := uint64(zzverif.Choose(2))
		at.comm = comms[s][0]
		at.bits = zzverif.NondetU8() & (1<<uint(len(at.comm)) - 1)
		d := zzverif.NondetU8()
		zzverif.Assume(d >= 1 && d <= 6)
		at.delay = uint64(d)
		at.data = phase0.AttestationData{
			Slot: common.Slot(prevStart + s), Index: 0, BeaconBlockRoot: phase0.VUpRoot1(),
			Source: common.Checkpoint{Epoch: common.Epoch(zzverif.NondetU8()), Root: phase0.VUpRoot1()},
			Target: common.Checkpoint{Epoch: common.Epoch(prev), Root: phase0.VUpRoot1()},
		}
		raw.PreviousEpochAttestations = append(raw.PreviousEpochAttestations, &phase0.PendingAttestation{
			AggregationBits: phase0.AttestationBits{at.bits | 1<<uint(len(at.comm))}, Data: at.data,
			InclusionDelay: common.Slot(at.delay), ProposerIndex: common.ValidatorIndex(zzverif.NondetU64())})
	}
	// an attestation of the current epoch: not translated by the spec
	raw.CurrentEpochAttestations = append(raw.CurrentEpochAttestations, &phase0.PendingAttestation{
		AggregationBits: phase0.AttestationBits{0x07}, InclusionDelay: 1, ProposerIndex: 1,
		Data: phase0.AttestationData{Slot: common.Slot(cur * spe), Index: 0, BeaconBlockRoot: phase0.VUpRoot1(),
			Source: raw.CurrentJustifiedCheckpoint, Target: common.Checkpoint{Epoch: common.Epoch(cur), Root: phase0.VUpRoot1()}}})
	pre := phase0.VUpStateToView(spec, raw)
	if pre == nil {
		return
	}
	epc := &common.EpochsContext{Spec: spec,
		PreviousEpoch: &common.ShufflingEpoch{Epoch: common.Epoch(prev), Committees: comms},
		CurrentEpoch:  &common.ShufflingEpoch{Epoch: common.Epoch(cur), Committees: [][][]common.ValidatorIndex{{{1, 2, 0}}, {{}}, {{}}, {{}}}},
		NextEpoch:     &common.ShufflingEpoch{Epoch: common.Epoch(cur + 1)}}
	h := tree.GetHashFn()
	preRoot := pre.HashTreeRoot(h)
	zzverif.Reach("upgrade-altair")
	post, err := UpgradeToAltair(spec, epc, pre)

	// ---- the spec, over the raw pre-state ----
	// translate_participation
	want := make([]uint8, n)
	srcOK := uint64(1)
	for a := range atts {
		at := &atts[a]
		isSrc := at.data.Source == raw.PreviousJustifiedCheckpoint // target epoch is the previous epoch
		srcOK &= zzverif.Ite(isSrc, 1, 0)
		tm := at.data.Target.Root == raw.BlockRoots[prevStart%sphr]
		hm := at.data.BeaconBlockRoot == raw.BlockRoots[uint64(at.data.Slot)%sphr]
		f := vUpIte8(at.delay <= vAlIsqrt(spe), 1<<0)
		f |= vUpIte8(tm, vUpIte8(at.delay <= spe, 1<<1))
		f |= vUpIte8(tm, vUpIte8(hm, vUpIte8(at.delay == uint64(spec.MIN_ATTESTATION_INCLUSION_DELAY), 1<<2)))
		for j, vi := range at.comm {
			want[vi] |= f & (0 - (at.bits >> uint(j) & 1))
		}
	}
	zzverif.Assert((err == nil) == (srcOK == 1), "upgrade_to_altair succeeds iff every pending attestation's source is the justified checkpoint (spec assert)")
	zzverif.Assert(pre.HashTreeRoot(h) == preRoot, "the phase0 pre-state is not modified by the upgrade")
	if err != nil || post == nil {
		return
	}
	base := phase0.VUpBaseOfPhase0(raw)
	base.Fork = common.Fork{PreviousVersion: raw.Fork.CurrentVersion, CurrentVersion: spec.ALTAIR_FORK_VERSION, Epoch: common.Epoch(uint64(raw.Slot) / spe)}
	zzverif.Assert(base.Fork.Epoch == common.Epoch(cur), "(harness) the state is in epoch 3")
	phase0.VUpCheckBase(spec, post, base)
	exp := &BeaconState{
		GenesisTime: base.GenesisTime, GenesisValidatorsRoot: base.GenesisValidatorsRoot, Slot: base.Slot, Fork: base.Fork,
		LatestBlockHeader: base.LatestBlockHeader, BlockRoots: base.BlockRoots, StateRoots: base.StateRoots,
		HistoricalRoots: base.HistoricalRoots, Eth1Data: base.Eth1Data, Eth1DataVotes: base.Eth1DataVotes,
		Eth1DepositIndex: base.Eth1DepositIndex, Validators: base.Validators, Balances: base.Balances,
		RandaoMixes: base.RandaoMixes, Slashings: base.Slashings, JustificationBits: base.JustificationBits,
		PreviousJustifiedCheckpoint: base.PreviousJustifiedCheckpoint, CurrentJustifiedCheckpoint: base.CurrentJustifiedCheckpoint,
		FinalizedCheckpoint: base.FinalizedCheckpoint,
	}
	pp, e1 := post.PreviousEpochParticipation()
	cp, e2 := post.CurrentEpochParticipation()
	is, e3 := post.InactivityScores()
	zzverif.Assert(e1 == nil && e2 == nil && e3 == nil, "participation lists and inactivity scores of the post-state readable")
	if e1 != nil || e2 != nil || e3 != nil {
		return
	}
	pl, e1 := pp.Length()
	cl, e2 := cp.Length()
	il, e3 := is.Length()
	zzverif.Assert(e1 == nil && pl == n, "previous_epoch_participation has len(validators) entries")
	zzverif.Assert(e2 == nil && cl == n, "current_epoch_participation has len(validators) entries")
	zzverif.Assert(e3 == nil && il == n, "inactivity_scores has len(validators) entries")
	for i := 0; i < n; i++ {
		pf, e1 := pp.GetFlags(common.ValidatorIndex(i))
		cf, e2 := cp.GetFlags(common.ValidatorIndex(i))
		sc, e3 := is.GetScore(common.ValidatorIndex(i))
		zzverif.Assert(e1 == nil && uint8(pf) == want[i], "previous_epoch_participation = translate_participation(pre.previous_epoch_attestations)")
		zzverif.Assert(e2 == nil && cf == 0, "current_epoch_participation = zeros")
		zzverif.Assert(e3 == nil && sc == 0, "inactivity_scores = zeros")
		exp.PreviousEpochParticipation = append(exp.PreviousEpochParticipation, pf) // (the implementation's own term: asserted equal above)
		exp.CurrentEpochParticipation = append(exp.CurrentEpochParticipation, 0)
		exp.InactivityScores = append(exp.InactivityScores, 0)
	}
	marker := vAlMarkerCommittee(spec)
	csc, e4 := post.CurrentSyncCommittee()
	nsc, e5 := post.NextSyncCommittee()
	zzverif.Assert(e4 == nil && csc.HashTreeRoot(h) == marker.HashTreeRoot(spec, h), "current_sync_committee = get_next_sync_committee(post)")
	zzverif.Assert(e5 == nil && nsc.HashTreeRoot(h) == marker.HashTreeRoot(spec, h), "next_sync_committee = get_next_sync_committee(post)")
	exp.CurrentSyncCommittee, exp.NextSyncCommittee = marker, vAlMarkerCommittee(spec)
	zzverif.Assert(post.HashTreeRoot(h) == exp.HashTreeRoot(spec, h), "the post-state of upgrade_to_altair is exactly the spec's (whole-state root)")
	zzverif.Assert(post.HashTreeRoot(h) == vAlReroot(spec, post), "no stale cached subtree root in the upgraded state")
}
