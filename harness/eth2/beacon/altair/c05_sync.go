package altair

import (
	"bytes"

	"github.com/protolambda/zrnt/eth2/beacon/common"
	"github.com/protolambda/zrnt/eth2/zzverif"
	"github.com/protolambda/ztyp/codec"
	"github.com/protolambda/ztyp/tree"
)

// VerifHarness_C05_sync_aggregate: struct root == view root for SyncCommitteeBits / SyncAggregate, for the default
// (nil) bits and for arbitrary bits, under the tiny preset and under the mainnet sync-committee size (512 bits =
// two chunks, where a wrong bit-vector length changes the tree depth).
func VerifHarness_C05_sync_aggregate() {
	spec := common.VTinySpec()
	if zzverif.Choose(2) == 1 {
		spec.SYNC_COMMITTEE_SIZE = 512
	}
	h := tree.GetHashFn()
	zzverif.Reach("sync-aggregate")
	var nilBits SyncCommitteeBits
	zzverif.Assert(nilBits.HashTreeRoot(spec, h) == SyncCommitteeBitsType(spec).Default(nil).HashTreeRoot(h), "default (nil) SyncCommitteeBits has the schema's default root")
	n := int(spec.SYNC_COMMITTEE_SIZE+7) / 8
	bits := make(SyncCommitteeBits, n)
	bits[0] = zzverif.NondetU8()
	if n > 40 {
		bits[40] = zzverif.NondetU8()
	}
	if spec.SYNC_COMMITTEE_SIZE < 8 {
		bits[0] &= 1<<uint(spec.SYNC_COMMITTEE_SIZE) - 1
	}
	agg := SyncAggregate{SyncCommitteeBits: bits}
	agg.SyncCommitteeSignature[0] = zzverif.NondetU8()
	var buf bytes.Buffer
	zzverif.Assert(agg.Serialize(spec, codec.NewEncodingWriter(&buf)) == nil, "sync aggregate serializes")
	data := buf.Bytes()
	zzverif.Assert(uint64(len(data)) == agg.ByteLength(spec) && agg.FixedLength(spec) == uint64(len(data)), "ByteLength == FixedLength == bytes written (fixed-size type)")
	v, err := SyncAggregateType(spec).Deserialize(codec.NewDecodingReader(bytes.NewReader(data), uint64(len(data))))
	zzverif.Assert(err == nil, "schema codec decodes the struct codec's bytes")
	if err != nil {
		return
	}
	zzverif.Assert(v.HashTreeRoot(h) == agg.HashTreeRoot(spec, h), "struct root == view root (SyncAggregate)")
	var empty SyncAggregate
	zzverif.Assert(empty.HashTreeRoot(spec, h) == SyncAggregateType(spec).Default(nil).HashTreeRoot(h), "zero-value SyncAggregate has the schema's default root")
}
