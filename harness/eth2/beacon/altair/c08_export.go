package altair

import "github.com/protolambda/zrnt/eth2/beacon/common"

// Exports for the C08 harness in package beacon (the upgradeable-state wrapper lives there).

// VAlRotationWorld: a well-formed altair state of the tiny preset at the last slot of epoch `cur` with 2 validators and
// two different sync committees (raw form and the real view).
func VAlRotationWorld(cur uint64) (*common.Spec, *BeaconState, *BeaconStateView) {
	spec := common.VTinySpec()
	spe := uint64(spec.SLOTS_PER_EPOCH)
	raw := vAlNewRaw(spec, 2, cur*spe+spe-1)
	raw.CurrentSyncCommittee = vAlCommittee(spec, []int{0, 0, 1, 1}, 1)
	raw.NextSyncCommittee = vAlCommittee(spec, []int{0, 1, 0, 1}, 2)
	return spec, raw, vAlStateToView(spec, raw)
}

func VAlMarkerCommittee(spec *common.Spec) common.SyncCommittee { return vAlMarkerCommittee(spec) }

func VAlSameIndexed(raw *BeaconState, isc *common.IndexedSyncCommittee, sc *common.SyncCommittee, what string) {
	vAlSameIndexed(raw, isc, sc, what)
}
