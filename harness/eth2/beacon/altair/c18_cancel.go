package altair

import (
	"errors"
	"time"

	"github.com/protolambda/zrnt/eth2/beacon/common"
	"github.com/protolambda/zrnt/eth2/beacon/phase0"
	"github.com/protolambda/zrnt/eth2/zzverif"
	"github.com/protolambda/ztyp/tree"
)

// vM2Ctx: a context that counts how often it is polled and reports cancellation from its (failAt+1)-th poll on
// (failAt < 0: never).
type vM2Ctx struct {
	polls  *int
	failAt int
}

func (c vM2Ctx) Deadline() (time.Time, bool)       { return time.Time{}, false }
func (c vM2Ctx) Done() <-chan struct{}             { return nil }
func (c vM2Ctx) Value(key interface{}) interface{} { return nil }
func (c vM2Ctx) Err() error {
	*c.polls++
	if c.failAt >= 0 && *c.polls > c.failAt {
		return errors.New("context canceled")
	}
	return nil
}

func (c vM2Ctx) cancelled() bool { return c.failAt >= 0 && *c.polls > c.failAt }

// vM2WorldT: a well-formed altair state of the tiny preset (3 validators active since genesis with 32 ETH effective
// balance and balance, fork epoch 0, symbolic history roots / mixes / genesis validators root), its tree-backed view
// and the real epochs context (NewEpochsContext; shuffling, proposer sampling stubbed by override group c02al) with a
// fixed proposer table (validator `prop` proposes the state's slot, the other of {0,1} the other slots) and fixed beacon
// committees (one per slot: previous epoch -> {2}, {0,1}; the state's epoch -> {0,1}, {2}; each a partition of the active set).
type vM2WorldT struct {
	spec              *common.Spec
	raw               *BeaconState
	st                *BeaconStateView
	epc               *common.EpochsContext
	slot              uint64
	prop              int
	participantReward uint64
	proposerReward    uint64
	baseRewardPerInc  uint64
}

func vM2World(slot uint64, prop int) *vM2WorldT { return vM2WorldWith(slot, prop, nil) }

// vM2WorldWith: as vM2World; `adjust` may edit the struct form before the view and the context are built from it.
func vM2WorldWith(slot uint64, prop int, adjust func(spec *common.Spec, raw *BeaconState)) *vM2WorldT {
	zzverif.UseOverrides("c02al")
	spec := common.VTinySpec()
	n := 3
	raw := vAlNewRaw(spec, n, slot)
	raw.CurrentSyncCommittee = vAlCommittee(spec, []int{0, 1, 2, 0}, 1)
	raw.NextSyncCommittee = vAlCommittee(spec, []int{2, 0, 0, 1}, 2)
	if adjust != nil {
		adjust(spec, raw)
	}
	st := vAlStateToView(spec, raw)
	epc, err := common.NewEpochsContext(spec, st)
	zzverif.Assert(err == nil && epc != nil, "NewEpochsContext succeeds on a well-formed altair state")
	spe := uint64(spec.SLOTS_PER_EPOCH)
	props := make([]common.ValidatorIndex, spe)
	for i := range props {
		props[i] = common.ValidatorIndex(1 - prop)
	}
	props[slot%spe] = common.ValidatorIndex(prop)
	epc.Proposers = &common.ProposersEpoch{Spec: spec, Epoch: common.Epoch(slot / spe), Proposers: props}
	if epc.PreviousEpoch != epc.CurrentEpoch {
		epc.PreviousEpoch.Committees = [][][]common.ValidatorIndex{{{2}}, {{0, 1}}}
	}
	epc.CurrentEpoch.Committees = [][][]common.ValidatorIndex{{{0, 1}}, {{2}}}
	// spec: sync rewards (get_total_active_balance, get_base_reward_per_increment, process_sync_aggregate)
	total := uint64(n) * uint64(spec.MAX_EFFECTIVE_BALANCE)
	inc := uint64(spec.EFFECTIVE_BALANCE_INCREMENT)
	perInc := inc * uint64(spec.BASE_REWARD_FACTOR) / vAlIsqrt(total)
	totalBaseRewards := perInc * (total / inc)
	maxParticipantRewards := totalBaseRewards * 2 / 64 / spe
	participantReward := maxParticipantRewards / uint64(spec.SYNC_COMMITTEE_SIZE)
	return &vM2WorldT{spec: spec, raw: raw, st: st, epc: epc, slot: slot, prop: prop,
		participantReward: participantReward, proposerReward: participantReward * 8 / (64 - 8), baseRewardPerInc: perInc}
}

func (w *vM2WorldT) version(epoch uint64) common.Version {
	if common.Epoch(epoch) < w.raw.Fork.Epoch {
		return w.raw.Fork.PreviousVersion
	}
	return w.raw.Fork.CurrentVersion
}

// vM2ValidAggregate: a sync aggregate with the given participation whose signature is assumed to be what the spec's
// process_sync_aggregate accepts (eth_fast_aggregate_verify over the participants' keys of the current sync committee,
// message = signing root of the previous slot's block root; no participants: the infinity signature).
func (w *vM2WorldT) vM2ValidAggregate(bits uint8) *SyncAggregate {
	var inf common.BLSSignature
	inf[0] = 0xc0
	zzverif.Assume(zzverif.BLSSigValid(inf))
	agg := &SyncAggregate{SyncCommitteeBits: SyncCommitteeBits{bits}}
	var parts [][48]byte
	for k := 0; k < int(w.spec.SYNC_COMMITTEE_SIZE); k++ {
		if bits>>uint(k)&1 == 1 {
			parts = append(parts, [48]byte(w.raw.CurrentSyncCommittee.Pubkeys[k]))
			zzverif.Assume(zzverif.BLSPubkeyValid([48]byte(w.raw.CurrentSyncCommittee.Pubkeys[k])))
		}
	}
	if len(parts) == 0 {
		agg.SyncCommitteeSignature = inf
		return agg
	}
	agg.SyncCommitteeSignature = vAlSig1()
	spe := uint64(w.spec.SLOTS_PER_EPOCH)
	prevSlot := w.slot - 1
	domain := common.ComputeDomain(common.DOMAIN_SYNC_COMMITTEE, w.version(prevSlot/spe), w.raw.GenesisValidatorsRoot)
	msg := common.ComputeSigningRoot(w.raw.BlockRoots[prevSlot%uint64(w.spec.SLOTS_PER_HISTORICAL_ROOT)], domain)
	sig := [96]byte(agg.SyncCommitteeSignature)
	zzverif.Assume(zzverif.BLSSigValid(sig) && zzverif.BLSFastAggregateVerify(parts, msg[:], sig))
	return agg
}

// spec: process_sync_aggregate's balance changes on the struct form, in committee order
func (w *vM2WorldT) vM2ApplySyncRewards(bits uint8) {
	for k := 0; k < int(w.spec.SYNC_COMMITTEE_SIZE); k++ {
		idx := int(vAlIndexOf(w.raw, w.raw.CurrentSyncCommittee.Pubkeys[k]))
		if bits>>uint(k)&1 == 1 {
			w.raw.Balances[idx] += common.Gwei(w.participantReward)
			w.raw.Balances[w.prop] += common.Gwei(w.proposerReward)
		} else if uint64(w.raw.Balances[idx]) >= w.participantReward {
			w.raw.Balances[idx] -= common.Gwei(w.participantReward)
		} else {
			w.raw.Balances[idx] = 0
		}
	}
}

// vM2ExpectFields: every top-level field of the view has the root of the struct form's field, for the fields a block can
// touch here (latest_block_header, eth1_data, eth1_data_votes, validators, balances, randao_mixes, slashings, both
// participation lists), and the root it had before for every other field.
func (w *vM2WorldT) vM2ExpectFields(pre []common.Root, label string) {
	h := tree.GetHashFn()
	spec, raw := w.spec, w.raw
	want := append([]common.Root(nil), pre...)
	want[_stateLatestBlockHeader] = raw.LatestBlockHeader.HashTreeRoot(h)
	want[_stateEth1Data] = raw.Eth1Data.HashTreeRoot(h)
	want[_stateEth1DataVotes] = raw.Eth1DataVotes.HashTreeRoot(spec, h)
	want[_stateValidators] = raw.Validators.HashTreeRoot(spec, h)
	want[_stateBalances] = raw.Balances.HashTreeRoot(spec, h)
	want[_stateRandaoMixes] = raw.RandaoMixes.HashTreeRoot(spec, h)
	want[_stateSlashings] = raw.Slashings.HashTreeRoot(spec, h)
	want[_statePreviousEpochParticipation] = raw.PreviousEpochParticipation.HashTreeRoot(spec, h)
	want[_stateCurrentEpochParticipation] = raw.CurrentEpochParticipation.HashTreeRoot(spec, h)
	post := vAlFieldRoots(w.st)
	for i := range want {
		zzverif.Assert(post[i] == want[i], label)
	}
}

// VerifHarness_C18_sync_aggregate_cancel: ProcessSyncAggregate on a valid aggregate with a context that reports
// cancellation at its first poll, at its second poll, or never: the context is consulted; a poll that reports
// cancellation always surfaces as a non-nil error and the state is untouched (whole-state root); otherwise (never
// cancelled, or only from a poll the function does not make) the call succeeds with the undisturbed result - the
// spec's process_sync_aggregate balances (transcribed), no other field changed.
// Bounds/assumptions: world vM2World (tiny preset, 3 validators, committee members 0,1,2,0), slot 1..3, proposer one of
// validators 0/1, all 16 participation patterns; the aggregate's signature is assumed valid for the participants (the
// infinity signature for none; axiom: that encoding deserialises), so cancellation is the only possible reason for an
// error. Shards: Choose #1 = failAt+1 (3), #2 = slot-1 (3), #3 = proposer (2).
func VerifHarness_C18_sync_aggregate_cancel() {
	failAt := zzverif.Choose(3) - 1
	slot := uint64(1 + zzverif.Choose(3))
	w := vM2World(slot, zzverif.Choose(2))
	bits := uint8(zzverif.Concrete(uint64(zzverif.NondetU8() & 0x0f)))
	agg := w.vM2ValidAggregate(bits)
	h := tree.GetHashFn()
	pre := w.st.HashTreeRoot(h)
	preFields := vAlFieldRoots(w.st)
	polls := 0
	ctx := vM2Ctx{polls: &polls, failAt: failAt}
	zzverif.Reach("sync-aggregate-cancel")
	err := ProcessSyncAggregate(ctx, w.spec, w.epc, w.st, agg)
	zzverif.Assert(polls >= 1, "ProcessSyncAggregate consults the context")
	zzverif.Assert((err != nil) == ctx.cancelled(), "a cancelled context surfaces as an error, a live one as success")
	if ctx.cancelled() {
		zzverif.Assert(w.st.HashTreeRoot(h) == pre, "a cancelled sync aggregate leaves the state untouched")
		return
	}
	w.vM2ApplySyncRewards(bits)
	bals, _ := w.st.Balances()
	for i := range w.raw.Balances {
		got, e := bals.GetBalance(common.ValidatorIndex(i))
		zzverif.Assert(e == nil && got == w.raw.Balances[i], "with a live context the balances are the spec's process_sync_aggregate result")
	}
	w.vM2ExpectFields(preFields, "with a live context the sync aggregate changes the balances as the spec and nothing else")
}

// VerifHarness_C18_altair_block_cancel: altair's (*BeaconStateView).ProcessBlock on a minimal valid block (matching
// header, valid randao reveal, an eth1 vote, no operations, a valid sync aggregate with no or three participants) with a
// context that reports cancellation at its k-th poll, k = 1..5, or never. The pipeline polls exactly four times here
// (process_block_header, process_randao, process_eth1_data, process_sync_aggregate; the operation loops poll per
// operation). Decided: the error is non-nil exactly when a poll reported cancellation (k <= 4); then exactly the k-1
// sub-steps before that poll have taken effect and nothing after it (every top-level field root against the struct form
// with the spec's effect of those sub-steps applied: latest_block_header := header with zeroed state root,
// randao_mixes[epoch] ^= hash(reveal), eth1_data_votes += vote (no majority yet), sync rewards/penalties); with a live
// context all four have (the undisturbed result).
// Bounds/assumptions: world vM2World at slot 3 (epoch 1), proposer validator 0 or 1; randao reveal and aggregate
// signature assumed valid (so cancellation is the only reason for an error); symbolic eth1 vote, graffiti, state root.
// Shards: Choose #1 = failAt+1 (7: 0 never, 1..5 cancel at that poll, 6 = beyond), #2 = proposer (2), #3 = aggregate (2).
func VerifHarness_C18_altair_block_cancel() {
	failAt := zzverif.Choose(7) - 1
	w := vM2World(3, zzverif.Choose(2))
	bits := []uint8{0x00, 0x0b}[zzverif.Choose(2)]
	spec, raw := w.spec, w.raw
	h := tree.GetHashFn()
	epoch := common.Epoch(w.slot / uint64(spec.SLOTS_PER_EPOCH))
	body := &BeaconBlockBody{RandaoReveal: vAlSig1(), Graffiti: vAlRoot1()}
	body.Eth1Data = common.Eth1Data{DepositRoot: vAlRoot1(), DepositCount: common.DepositIndex(zzverif.NondetU64()), BlockHash: vAlRoot1()}
	body.SyncAggregate = *w.vM2ValidAggregate(bits)
	{ // the reveal is the proposer's signature over the epoch
		dom := common.ComputeDomain(common.DOMAIN_RANDAO, w.version(uint64(epoch)), raw.GenesisValidatorsRoot)
		msg := common.ComputeSigningRoot(epoch.HashTreeRoot(h), dom)
		pub := [48]byte(raw.Validators[w.prop].Pubkey)
		zzverif.Assume(zzverif.BLSPubkeyValid(pub) && zzverif.BLSSigValid([96]byte(body.RandaoReveal)) && zzverif.BLSVerify(pub, msg[:], [96]byte(body.RandaoReveal)))
	}
	header := common.BeaconBlockHeader{Slot: common.Slot(w.slot), ProposerIndex: common.ValidatorIndex(w.prop),
		ParentRoot: raw.LatestBlockHeader.HashTreeRoot(h), StateRoot: vAlRoot1(), BodyRoot: body.HashTreeRoot(spec, h)}
	benv := &common.BeaconBlockEnvelope{BeaconBlockHeader: header, Body: body, BlockRoot: header.HashTreeRoot(h), Signature: vAlSig1()}
	preFields := vAlFieldRoots(w.st)
	polls := 0
	ctx := vM2Ctx{polls: &polls, failAt: failAt}
	zzverif.Reach("altair-block-cancel")
	err := w.st.ProcessBlock(ctx, spec, w.epc, benv)
	zzverif.Assert((err != nil) == ctx.cancelled(), "a cancelled context makes ProcessBlock fail, a live one lets the valid block through")
	done := 4
	if ctx.cancelled() {
		zzverif.Assert(polls == failAt+1, "no poll after the one that reported cancellation")
		done = failAt
	} else {
		zzverif.Assert(polls == 4, "the block pipeline polls once per sub-step that takes the context")
	}
	// spec: the effect of the first `done` sub-steps on the struct form
	if done >= 1 {
		raw.LatestBlockHeader = header
		raw.LatestBlockHeader.StateRoot = common.Root{}
	}
	if done >= 2 {
		i := uint64(epoch) % uint64(spec.EPOCHS_PER_HISTORICAL_VECTOR)
		hr := zzverif.Hash(body.RandaoReveal[:])
		for k := range hr {
			raw.RandaoMixes[i][k] ^= hr[k]
		}
	}
	if done >= 3 {
		raw.Eth1DataVotes = append(raw.Eth1DataVotes, body.Eth1Data)
	}
	if done >= 4 {
		w.vM2ApplySyncRewards(bits)
	}
	w.vM2ExpectFields(preFields, "exactly the sub-steps before the poll that reported cancellation have taken effect (all of them with a live context)")
}

func vM2Hash2(a, b common.Root) common.Root {
	var in [64]byte
	copy(in[:32], a[:])
	copy(in[32:], b[:])
	return zzverif.Hash(in[:])
}

// vM2TwoDeposits: two top-up deposits (for validators 1 and 2, symbolic amounts < 2^32) that sit at indices 3 and 4 of
// a deposit tree with 5 leaves, with their Merkle branches (spec is_valid_merkle_branch, depth 32 + the length mix-in)
// and the root of that tree; the other nodes of the tree are arbitrary (two symbolic bytes each).
func vM2TwoDeposits(raw *BeaconState) (deps []common.Deposit, root common.Root) {
	h := tree.GetHashFn()
	deps = make([]common.Deposit, 2)
	for i := range deps {
		a := zzverif.NondetU64()
		zzverif.Assume(a < 1<<32)
		deps[i].Data = common.DepositData{Pubkey: raw.Validators[i+1].Pubkey, WithdrawalCredentials: vAlRoot1(), Amount: common.Gwei(a), Signature: vAlSig1()}
	}
	l3, l4 := deps[0].Data.HashTreeRoot(h), deps[1].Data.HashTreeRoot(h)
	sA, sB, sC, sD := vAlRoot1(), vAlRoot1(), vAlRoot1(), vAlRoot1()
	// index 3 = 0b011, index 4 = 0b100: the two paths meet at level 3
	n20 := vM2Hash2(sC, vM2Hash2(sA, l3))
	n21 := vM2Hash2(vM2Hash2(l4, sB), sD)
	deps[0].Proof[0], deps[0].Proof[1], deps[0].Proof[2] = sA, sC, n21
	deps[1].Proof[0], deps[1].Proof[1], deps[1].Proof[2] = sB, sD, n20
	node := vM2Hash2(n20, n21)
	for lvl := 3; lvl < common.DEPOSIT_CONTRACT_TREE_DEPTH; lvl++ {
		sib := vAlRoot1()
		deps[0].Proof[lvl], deps[1].Proof[lvl] = sib, sib
		node = vM2Hash2(node, sib)
	}
	var count common.Root // mix_in_length: 5 leaves
	count[0] = 5
	deps[0].Proof[common.DEPOSIT_CONTRACT_TREE_DEPTH], deps[1].Proof[common.DEPOSIT_CONTRACT_TREE_DEPTH] = count, count
	return deps, vM2Hash2(node, count)
}

// vM2ValidIndexed: an indexed attestation by validator vi alone for the given target epoch, signature assumed valid.
func (w *vM2WorldT) vM2ValidIndexed(vi int, tgt uint64, mark byte) phase0.IndexedAttestation {
	ia := phase0.IndexedAttestation{AttestingIndices: common.CommitteeIndices{common.ValidatorIndex(vi)}, Signature: vAlSig1()}
	ia.Data = phase0.AttestationData{Slot: common.Slot(tgt * uint64(w.spec.SLOTS_PER_EPOCH)), BeaconBlockRoot: vAlRoot1(), Target: common.Checkpoint{Epoch: common.Epoch(tgt), Root: vAlRoot1()}}
	ia.Data.BeaconBlockRoot[5] = mark
	pub := [48]byte(w.raw.Validators[vi].Pubkey)
	dom := common.ComputeDomain(common.DOMAIN_BEACON_ATTESTER, w.version(tgt), w.raw.GenesisValidatorsRoot)
	msg := common.ComputeSigningRoot(ia.Data.HashTreeRoot(tree.GetHashFn()), dom)
	zzverif.Assume(zzverif.BLSPubkeyValid(pub) && zzverif.BLSSigValid([96]byte(ia.Signature)) && zzverif.BLSFastAggregateVerify([][48]byte{pub}, msg[:], [96]byte(ia.Signature)))
	return ia
}

// vM2ValidAttestation: an attestation by the whole committee of (slot, index 0) with the matching justified checkpoint
// as source, signature assumed valid (fast_aggregate_verify over the members' keys, DOMAIN_BEACON_ATTESTER at the target
// epoch).
func (w *vM2WorldT) vM2ValidAttestation(attSlot uint64, targetRoot common.Root) phase0.Attestation {
	spe := uint64(w.spec.SLOTS_PER_EPOCH)
	tgt := attSlot / spe
	comm := w.epc.CurrentEpoch.Committees[attSlot%spe][0]
	src := w.raw.CurrentJustifiedCheckpoint
	if tgt != w.slot/spe {
		comm = w.epc.PreviousEpoch.Committees[attSlot%spe][0]
		src = w.raw.PreviousJustifiedCheckpoint
	}
	att := phase0.Attestation{Signature: vAlSig1()}
	att.Data = phase0.AttestationData{Slot: common.Slot(attSlot), Index: 0, BeaconBlockRoot: vAlRoot1(), Source: src,
		Target: common.Checkpoint{Epoch: common.Epoch(tgt), Root: targetRoot}}
	att.AggregationBits = phase0.AttestationBits{byte(1)<<uint(len(comm)) | (byte(1)<<uint(len(comm)) - 1)}
	var keys [][48]byte
	for _, vi := range comm {
		pub := [48]byte(w.raw.Validators[vi].Pubkey)
		zzverif.Assume(zzverif.BLSPubkeyValid(pub))
		keys = append(keys, pub)
	}
	dom := common.ComputeDomain(common.DOMAIN_BEACON_ATTESTER, w.version(tgt), w.raw.GenesisValidatorsRoot)
	msg := common.ComputeSigningRoot(att.Data.HashTreeRoot(tree.GetHashFn()), dom)
	zzverif.Assume(zzverif.BLSSigValid([96]byte(att.Signature)) && zzverif.BLSFastAggregateVerify(keys, msg[:], [96]byte(att.Signature)))
	return att
}

// VerifHarness_C18_altair_ops_cancel: the per-operation polls of the operation loops of altair's block pipeline, each
// over two valid operations on the altair state, with the context cancelled at its first, second or third poll or
// never: a poll that reports cancellation surfaces as a non-nil error, exactly the operations before it have been
// processed and none after it; otherwise both are processed and the call succeeds. Cancelled at the first poll: the
// whole-state root is untouched.
//
//	kind 0: altair.ProcessAttestations - attestation 1: slot 2 (current epoch, delay 1: timely source flag for the
//	        members 0,1 in current_epoch_participation), attestation 2: slot 1 (previous epoch, delay 2, matching target:
//	        timely target flag for the members 0,1 in previous_epoch_participation);
//	kind 1: phase0.ProcessVoluntaryExits on the altair state - exits of validators 0 and 1 (SHARD_COMMITTEE_PERIOD
//	        reached: state at epoch 4);
//	kind 2: phase0.ProcessProposerSlashings - validators 2 and 1, two different signed headers each;
//	kind 3: phase0.ProcessAttesterSlashings - validators 2 and 1, a double vote (same target epoch, different data) each;
//	kind 4: phase0.ProcessDeposits - two top-up deposits (validators 1, 2) at deposit indices 3 and 4 with Merkle
//	        branches into the state's eth1 deposit root (tree built in the harness with the raw hash; deposit_count 5).
//
// "Processed" is observed on the state: the participation flag of a committee member / the exit epoch / the slashed flag
// / eth1_deposit_index and the balance.
// Bounds/assumptions: world vM2World (slot 3 for attestations, slot 9 = epoch 4 otherwise), proposer validator 0; all
// signatures assumed valid, so cancellation is the only reason for an error.
// Shards: Choose #1 = kind (5), #2 = failAt+1 (5).
func VerifHarness_C18_altair_ops_cancel() {
	kind := zzverif.Choose(5)
	failAt := zzverif.Choose(5) - 1
	slot := uint64(9)
	if kind == 0 {
		slot = 3
	}
	var deps []common.Deposit
	w := vM2WorldWith(slot, 0, func(spec *common.Spec, raw *BeaconState) {
		if kind == 4 {
			deps, raw.Eth1Data.DepositRoot = vM2TwoDeposits(raw)
			raw.Eth1Data.DepositCount = 5
		}
	})
	spec, raw := w.spec, w.raw
	h := tree.GetHashFn()
	spe := uint64(spec.SLOTS_PER_EPOCH)
	cur := slot / spe
	pre := w.st.HashTreeRoot(h)
	polls := 0
	ctx := vM2Ctx{polls: &polls, failAt: failAt}
	var err error
	var processed func(i int) bool
	switch kind {
	case 0:
		ops := []phase0.Attestation{w.vM2ValidAttestation(2, vAlRoot1()), w.vM2ValidAttestation(1, raw.BlockRoots[0])}
		zzverif.Reach("altair-ops-cancel")
		err = ProcessAttestations(ctx, spec, w.epc, w.st, ops)
		processed = func(i int) bool {
			if i == 0 {
				p, _ := w.st.CurrentEpochParticipation()
				f0, e0 := p.GetFlags(0)
				f1, e1 := p.GetFlags(1)
				zzverif.Assert(e0 == nil && e1 == nil && f0 == f1 && (f0 == 0 || f0&TIMELY_SOURCE_FLAG != 0), "current participation of the first attestation's committee")
				return f0 != 0
			}
			p, _ := w.st.PreviousEpochParticipation()
			f0, e0 := p.GetFlags(0)
			f1, e1 := p.GetFlags(1)
			zzverif.Assert(e0 == nil && e1 == nil && f0 == f1 && (f0 == 0 || f0 == TIMELY_TARGET_FLAG), "previous participation of the second attestation's committee")
			return f0 != 0
		}
	case 1:
		var ops []phase0.SignedVoluntaryExit
		for i := 0; i < 2; i++ {
			ex := phase0.SignedVoluntaryExit{Message: phase0.VoluntaryExit{Epoch: common.Epoch(cur), ValidatorIndex: common.ValidatorIndex(i)}, Signature: vAlSig1()}
			dom := common.ComputeDomain(common.DOMAIN_VOLUNTARY_EXIT, w.version(cur), raw.GenesisValidatorsRoot)
			root := common.ComputeSigningRoot(ex.Message.HashTreeRoot(h), dom)
			pub := [48]byte(raw.Validators[i].Pubkey)
			zzverif.Assume(zzverif.BLSPubkeyValid(pub) && zzverif.BLSSigValid([96]byte(ex.Signature)) && zzverif.BLSVerify(pub, root[:], [96]byte(ex.Signature)))
			ops = append(ops, ex)
		}
		zzverif.Reach("altair-ops-cancel")
		err = phase0.ProcessVoluntaryExits(ctx, spec, w.epc, w.st, ops)
		processed = func(i int) bool {
			vals, _ := w.st.Validators()
			v, _ := vals.Validator(common.ValidatorIndex(i))
			e, _ := v.ExitEpoch()
			return e != vAlFar
		}
	case 2:
		who := []int{2, 1}
		var ops []phase0.ProposerSlashing
		for _, vi := range who {
			ps := phase0.ProposerSlashing{}
			ps.SignedHeader1 = common.SignedBeaconBlockHeader{Message: common.BeaconBlockHeader{Slot: common.Slot(slot - 1), ProposerIndex: common.ValidatorIndex(vi), ParentRoot: vAlRoot1(), BodyRoot: vAlRoot1()}, Signature: vAlSig1()}
			ps.SignedHeader2 = ps.SignedHeader1
			ps.SignedHeader2.Signature = vAlSig1()
			ps.SignedHeader2.Message.StateRoot[5] = 1 // a different header of the same slot and proposer
			dom := common.ComputeDomain(common.DOMAIN_BEACON_PROPOSER, w.version((slot-1)/spe), raw.GenesisValidatorsRoot)
			pub := [48]byte(raw.Validators[vi].Pubkey)
			zzverif.Assume(zzverif.BLSPubkeyValid(pub))
			for _, sh := range []*common.SignedBeaconBlockHeader{&ps.SignedHeader1, &ps.SignedHeader2} {
				root := common.ComputeSigningRoot(sh.Message.HashTreeRoot(h), dom)
				zzverif.Assume(zzverif.BLSSigValid([96]byte(sh.Signature)) && zzverif.BLSVerify(pub, root[:], [96]byte(sh.Signature)))
			}
			ops = append(ops, ps)
		}
		zzverif.Reach("altair-ops-cancel")
		err = phase0.ProcessProposerSlashings(ctx, spec, w.epc, w.st, ops)
		processed = func(i int) bool {
			vals, _ := w.st.Validators()
			v, _ := vals.Validator(common.ValidatorIndex(who[i]))
			s, _ := v.Slashed()
			return s
		}
	case 3:
		who := []int{2, 1}
		var ops []phase0.AttesterSlashing
		for _, vi := range who {
			ops = append(ops, phase0.AttesterSlashing{Attestation1: w.vM2ValidIndexed(vi, cur, 0), Attestation2: w.vM2ValidIndexed(vi, cur, 1)})
		}
		zzverif.Reach("altair-ops-cancel")
		err = phase0.ProcessAttesterSlashings(ctx, spec, w.epc, w.st, ops)
		processed = func(i int) bool {
			vals, _ := w.st.Validators()
			v, _ := vals.Validator(common.ValidatorIndex(who[i]))
			s, _ := v.Slashed()
			return s
		}
	case 4:
		zzverif.Reach("altair-ops-cancel")
		err = phase0.ProcessDeposits(ctx, spec, w.epc, w.st, deps)
		processed = func(i int) bool {
			di, e := w.st.Eth1DepositIndex()
			bals, _ := w.st.Balances()
			b, e2 := bals.GetBalance(common.ValidatorIndex(i + 1))
			did := uint64(di) > uint64(3+i)
			want := raw.Balances[i+1]
			if did {
				want += deps[i].Data.Amount
			}
			zzverif.Assert(e == nil && e2 == nil && b == want, "the balance is topped up exactly when the deposit index moved past the deposit")
			return did
		}
	}
	zzverif.Assert((err != nil) == ctx.cancelled(), "a cancelled context surfaces as an error, a live one as success")
	done := 2
	if ctx.cancelled() {
		zzverif.Assert(polls == failAt+1, "no poll after the one that reported cancellation")
		done = failAt
	} else {
		zzverif.Assert(polls == 2, "the operation loop polls once per operation")
	}
	for i := 0; i < 2; i++ {
		zzverif.Assert(processed(i) == (i < done), "exactly the operations before the poll that reported cancellation are processed (all with a live context)")
	}
	if done == 0 {
		zzverif.Assert(w.st.HashTreeRoot(h) == pre, "cancelled at the first poll: the state is untouched")
	}
}
