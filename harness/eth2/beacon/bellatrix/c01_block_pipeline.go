package bellatrix

import (
	"bytes"

	"github.com/protolambda/zrnt/eth2/beacon/altair"
	"github.com/protolambda/zrnt/eth2/beacon/common"
	"github.com/protolambda/zrnt/eth2/beacon/phase0"
	"github.com/protolambda/zrnt/eth2/zzverif"
	"github.com/protolambda/ztyp/codec"
	"github.com/protolambda/ztyp/tree"
	. "github.com/protolambda/ztyp/view"
)

const vPlFar = ^common.Epoch(0)

func vPlPub(i int) (p common.BLSPubkey) { p[0] = byte(i + 1); p[47] = 0xa0 + byte(i); return }

func vPlSig() (s common.BLSSignature) { s[0] = zzverif.NondetU8(); s[95] = zzverif.NondetU8(); return }

func vPlIsqrt(n uint64) uint64 {
	x, y := n, (n+1)/2
	for y < x {
		x, y = y, (y+n/y)/2
	}
	return x
}

// vPlViewFieldRoots / vPlRawFieldRoots: the hash-tree-roots of the 25 top-level fields of a bellatrix state, view and struct form.
func vPlViewFieldRoots(st *BeaconStateView) []common.Root {
	h := tree.GetHashFn()
	var out []common.Root
	for i := range st.Fields {
		v, err := st.Get(uint64(i))
		zzverif.Assert(err == nil, "state field view")
		out = append(out, v.HashTreeRoot(h))
	}
	return out
}

func vPlRawFieldRoots(spec *common.Spec, raw *BeaconState) []common.Root {
	h := tree.GetHashFn()
	return []common.Root{
		raw.GenesisTime.HashTreeRoot(h), raw.GenesisValidatorsRoot, raw.Slot.HashTreeRoot(h), raw.Fork.HashTreeRoot(h),
		raw.LatestBlockHeader.HashTreeRoot(h), raw.BlockRoots.HashTreeRoot(spec, h), raw.StateRoots.HashTreeRoot(spec, h),
		raw.HistoricalRoots.HashTreeRoot(spec, h),
		raw.Eth1Data.HashTreeRoot(h), raw.Eth1DataVotes.HashTreeRoot(spec, h), raw.Eth1DepositIndex.HashTreeRoot(h),
		raw.Validators.HashTreeRoot(spec, h), raw.Balances.HashTreeRoot(spec, h), raw.RandaoMixes.HashTreeRoot(spec, h),
		raw.Slashings.HashTreeRoot(spec, h),
		raw.PreviousEpochParticipation.HashTreeRoot(spec, h), raw.CurrentEpochParticipation.HashTreeRoot(spec, h),
		raw.JustificationBits.HashTreeRoot(h), raw.PreviousJustifiedCheckpoint.HashTreeRoot(h),
		raw.CurrentJustifiedCheckpoint.HashTreeRoot(h), raw.FinalizedCheckpoint.HashTreeRoot(h),
		raw.InactivityScores.HashTreeRoot(spec, h),
		raw.CurrentSyncCommittee.HashTreeRoot(spec, h), raw.NextSyncCommittee.HashTreeRoot(spec, h),
		raw.LatestExecutionPayloadHeader.HashTreeRoot(h),
	}
}

func vPlFieldName(i int) string {
	switch i {
	case _stateLatestBlockHeader:
		return "latest_block_header"
	case _stateEth1DataVotes:
		return "eth1_data_votes"
	case _stateValidators:
		return "validators"
	case _stateBalances:
		return "balances"
	case _stateRandaoMixes:
		return "randao_mixes"
	case _latestExecutionPayloadHeader:
		return "latest_execution_payload_header"
	}
	return "a field these blocks do not write"
}

func vPlExpectFields(spec *common.Spec, st *BeaconStateView, raw *BeaconState, what string) {
	got := vPlViewFieldRoots(st)
	want := vPlRawFieldRoots(spec, raw)
	zzverif.Assert(len(got) == len(want), "the bellatrix state has 25 fields")
	for i := range want {
		zzverif.Assert(got[i] == want[i], what+": "+vPlFieldName(i))
	}
}

// vPlBellatrixWorldT: a well-formed bellatrix state of the tiny preset at slot 5 (epoch 2) with 3 validators active since
// genesis (32 ETH effective balance and balance), a hand-assembled epochs context (pubkey cache from the state, proposer
// table {slot 4 -> validator 0, slot 5 -> validator 1}, sync committee members 0,1,2,0, total active stake 96 ETH and its
// integer square root, no beacon committees: the blocks here carry no attestations) and the stub execution engine of
// c18_engine.go. merged: latest_execution_payload_header is a symbolic header assumed different from the default one
// (is_merge_transition_complete); otherwise it is the default header.
type vPlBellatrixWorldT struct {
	spec    *common.Spec
	raw     *BeaconState
	st      *BeaconStateView
	epc     *common.EpochsContext
	eng     *vFcEngine
	partRew uint64
}

func vPlBellatrixWorld(depositCountAhead uint64, merged bool) *vPlBellatrixWorldT {
	spec := common.VTinySpec()
	n := 3
	slot := uint64(5)
	w := &vPlBellatrixWorldT{spec: spec}
	raw := &BeaconState{}
	gt := zzverif.NondetU64()
	zzverif.Assume(gt < 1<<40)
	raw.GenesisTime = common.Timestamp(gt)
	raw.GenesisValidatorsRoot = vFcR()
	raw.Slot = common.Slot(slot)
	raw.Fork = common.Fork{PreviousVersion: spec.ALTAIR_FORK_VERSION, CurrentVersion: spec.BELLATRIX_FORK_VERSION, Epoch: 0}
	raw.LatestBlockHeader = common.BeaconBlockHeader{Slot: common.Slot(slot - 1), ProposerIndex: 0, ParentRoot: vFcR(), StateRoot: vFcR(), BodyRoot: vFcR()}
	raw.BlockRoots = make([]common.Root, spec.SLOTS_PER_HISTORICAL_ROOT)
	raw.StateRoots = make([]common.Root, spec.SLOTS_PER_HISTORICAL_ROOT)
	for i := range raw.BlockRoots {
		raw.BlockRoots[i], raw.StateRoots[i] = vFcR(), vFcR()
	}
	raw.Eth1Data = common.Eth1Data{DepositRoot: vFcR(), DepositCount: common.DepositIndex(uint64(n) + depositCountAhead), BlockHash: vFcR()}
	raw.Eth1DepositIndex = common.DepositIndex(n)
	for i := 0; i < n; i++ {
		v := &phase0.Validator{Pubkey: vPlPub(i), EffectiveBalance: spec.MAX_EFFECTIVE_BALANCE, ExitEpoch: vPlFar, WithdrawableEpoch: vPlFar}
		v.WithdrawalCredentials = vFcR()
		raw.Validators = append(raw.Validators, v)
		raw.Balances = append(raw.Balances, spec.MAX_EFFECTIVE_BALANCE)
		raw.PreviousEpochParticipation = append(raw.PreviousEpochParticipation, altair.ParticipationFlags(0))
		raw.CurrentEpochParticipation = append(raw.CurrentEpochParticipation, altair.ParticipationFlags(0))
		raw.InactivityScores = append(raw.InactivityScores, Uint64View(0))
	}
	raw.RandaoMixes = make([]common.Root, spec.EPOCHS_PER_HISTORICAL_VECTOR)
	for i := range raw.RandaoMixes {
		raw.RandaoMixes[i] = vFcR()
	}
	raw.Slashings = make([]common.Gwei, spec.EPOCHS_PER_SLASHINGS_VECTOR)
	raw.JustificationBits = common.JustificationBits{0}
	for _, sc := range []*common.SyncCommittee{&raw.CurrentSyncCommittee, &raw.NextSyncCommittee} {
		for _, m := range []int{0, 1, 2, 0} {
			sc.Pubkeys = append(sc.Pubkeys, vPlPub(m))
		}
		sc.AggregatePubkey[0] = zzverif.NondetU8()
	}
	if merged {
		raw.LatestExecutionPayloadHeader = *vFcHeader()
		h := tree.GetHashFn()
		zzverif.Assume(raw.LatestExecutionPayloadHeader.HashTreeRoot(h) != (&ExecutionPayloadHeader{}).HashTreeRoot(h))
	}
	w.raw = raw

	var buf bytes.Buffer
	zzverif.Assert(raw.Serialize(spec, codec.NewEncodingWriter(&buf)) == nil, "bellatrix state serializes")
	data := buf.Bytes()
	st, err := AsBeaconStateView(BeaconStateType(spec).Deserialize(codec.NewDecodingReader(bytes.NewReader(data), uint64(len(data)))))
	zzverif.Assert(err == nil, "schema codec decodes the struct codec's bytes")
	w.st = st

	vals, _ := st.Validators()
	pc, perr := common.NewPubkeyCache(vals)
	zzverif.Assert(perr == nil, "NewPubkeyCache")
	total := uint64(n) * uint64(spec.MAX_EFFECTIVE_BALANCE)
	epc := &common.EpochsContext{Spec: spec, ValidatorPubkeyCache: pc, TotalActiveStake: common.Gwei(total), TotalActiveStakeSqRoot: common.Gwei(vPlIsqrt(total))}
	all := []common.ValidatorIndex{0, 1, 2}
	for range all {
		epc.EffectiveBalances = append(epc.EffectiveBalances, spec.MAX_EFFECTIVE_BALANCE)
	}
	epc.PreviousEpoch = &common.ShufflingEpoch{Epoch: 1, ActiveIndices: all}
	epc.CurrentEpoch = &common.ShufflingEpoch{Epoch: 2, ActiveIndices: all}
	epc.NextEpoch = &common.ShufflingEpoch{Epoch: 3, ActiveIndices: all}
	epc.Proposers = &common.ProposersEpoch{Spec: spec, Epoch: 2, Proposers: []common.ValidatorIndex{0, 1}}
	isc := &common.IndexedSyncCommittee{}
	for _, m := range []int{0, 1, 2, 0} {
		cp, ok := pc.Pubkey(common.ValidatorIndex(m))
		zzverif.Assert(ok, "the pubkey cache knows every validator")
		isc.CachedPubkeys = append(isc.CachedPubkeys, cp)
		isc.Indices = append(isc.Indices, common.ValidatorIndex(m))
	}
	epc.CurrentSyncCommittee = isc
	w.epc = epc
	w.eng = &vFcEngine{}
	spec.ExecutionEngine = w.eng

	// spec: process_sync_aggregate's participant reward
	inc := uint64(spec.EFFECTIVE_BALANCE_INCREMENT)
	perInc := inc * uint64(spec.BASE_REWARD_FACTOR) / vPlIsqrt(total)
	totalBaseRewards := perInc * (total / inc)
	maxParticipantRewards := totalBaseRewards * 2 / 64 / uint64(spec.SLOTS_PER_EPOCH)
	w.partRew = maxParticipantRewards / uint64(spec.SYNC_COMMITTEE_SIZE)
	return w
}

// the failing sub-step (or cancellation point) of a scenario
const (
	vPlScLive         = 0  // nothing fails
	vPlScCancel1      = 1  // 1..6: the context reports cancellation at its k-th poll; 7: at a poll the pipeline never makes
	vPlScBadParent    = 8  // process_block_header: wrong parent root
	vPlScPreMergeOff  = 9  // not yet merged, default payload: execution not enabled, the payload sub-step is skipped, block accepted
	vPlScMergeBlock   = 10 // not yet merged, non-default payload (merge transition block): the payload sub-step runs, no parent-hash check
	vPlScBadParentH   = 11 // process_execution_payload: wrong parent hash (merged state)
	vPlScBadTimestamp = 12 // process_execution_payload: wrong timestamp
	vPlScEngineNo     = 13 // process_execution_payload: the engine refuses the payload
	vPlScBadRandao    = 14 // process_randao: reveal does not verify
	vPlScDepositCount = 15 // process_operations: one deposit outstanding, none in the block
	vPlScBadExit      = 16 // process_operations: the voluntary exit's signature does not verify
	vPlScBadSyncSig   = 17 // process_sync_aggregate: signature does not verify
	vPlScStaleRandao  = 18 // process_execution_payload: prev_randao is the mix AFTER this block's reveal
	vPlScenarios      = 19
)

// VerifHarness_C01_bellatrix_block_pipeline: bellatrix's (*BeaconStateView).ProcessBlock runs the spec's sub-steps in the
// spec's order
//
//	process_block_header; if is_execution_enabled(state, body): process_execution_payload; process_randao;
//	process_eth1_data; process_operations; process_sync_aggregate
//
// observed on a minimal valid block (matching header, a payload the stub engine accepts, valid randao reveal, an eth1
// vote, one valid voluntary exit of validator 2 as the only operation, a sync aggregate without participants and the
// infinity signature) in which exactly one thing is wrong (Choose #1 = scenario, see the vPlSc constants): the context
// reports cancellation at its k-th poll (6 polls: header, payload, randao, eth1 vote, the exit, sync aggregate), or one
// sub-step is invalid. Decided for every scenario: the block fails exactly when something is wrong; exactly the
// sub-steps before the failing one have taken effect and nothing after it - every one of the 25 top-level field roots
// of the view equals the root of the struct form of the pre-state with the spec's effects of those sub-steps applied
// (transcribed: latest_block_header := header with zeroed state root; latest_execution_payload_header := the payload's
// header; randao mix ^= hash(reveal); eth1_data_votes += vote; validator 2's exit/withdrawable epochs 5/7; sync
// penalties for all four committee seats); the engine is consulted (two queries about this payload) exactly when the
// payload sub-step gets as far as the engine.
// The execution switch: on a state that has not merged (default latest_execution_payload_header) a block with the
// default payload skips the payload sub-step (scenario 9: accepted, header still default, engine not asked, 5 polls); a
// block with a non-default payload is the merge transition block (scenario 10: payload sub-step runs, without the
// parent-hash check). The payload's prev_randao must be the mix BEFORE process_randao (scenario 18).
// The reference calls no processing function of the repository.
// Bounds/assumptions: world vPlBellatrixWorld (tiny preset, slot 5, 3 validators); symbolic roots (two bytes), genesis
// time < 2^40; signatures assumed valid except in the scenario that says otherwise; a merged state's header and a merge
// block's payload are assumed to differ in root from the default ones (no SHA-256 collision); BLS and SHA-256
// uninterpreted; axiom: the infinity signature deserialises.
// Shards: Choose #1 = scenario (19).
func VerifHarness_C01_bellatrix_block_pipeline() {
	sc := zzverif.Choose(vPlScenarios)
	ahead := uint64(0)
	if sc == vPlScDepositCount {
		ahead = 1
	}
	merged := sc != vPlScPreMergeOff && sc != vPlScMergeBlock
	w := vPlBellatrixWorld(ahead, merged)
	spec, raw := w.spec, w.raw
	h := tree.GetHashFn()
	slot := uint64(raw.Slot)
	epoch := common.Epoch(slot / uint64(spec.SLOTS_PER_EPOCH))
	prop := 1
	gvr := raw.GenesisValidatorsRoot

	// ---- the block ----
	body := &BeaconBlockBody{RandaoReveal: vPlSig(), Graffiti: vFcR()}
	body.Eth1Data = common.Eth1Data{DepositRoot: vFcR(), DepositCount: common.DepositIndex(zzverif.NondetU64()), BlockHash: vFcR()}
	mixIdx := uint64(epoch) % uint64(spec.EPOCHS_PER_HISTORICAL_VECTOR)
	hr := zzverif.Hash(body.RandaoReveal[:])
	var mixAfter common.Root
	for i := range hr {
		mixAfter[i] = raw.RandaoMixes[mixIdx][i] ^ hr[i]
	}
	{ // randao reveal: the proposer's signature over the epoch
		dom := common.ComputeDomain(common.DOMAIN_RANDAO, raw.Fork.CurrentVersion, gvr)
		msg := common.ComputeSigningRoot(epoch.HashTreeRoot(h), dom)
		pub := [48]byte(raw.Validators[prop].Pubkey)
		good := zzverif.BLSPubkeyValid(pub) && zzverif.BLSSigValid([96]byte(body.RandaoReveal)) && zzverif.BLSVerify(pub, msg[:], [96]byte(body.RandaoReveal))
		zzverif.Assume(good == (sc != vPlScBadRandao))
	}
	p := &body.ExecutionPayload
	if sc != vPlScPreMergeOff {
		p.ParentHash = raw.LatestExecutionPayloadHeader.BlockHash
		if sc == vPlScBadParentH {
			p.ParentHash[7] ^= 0x01
		}
		if sc == vPlScMergeBlock {
			p.ParentHash = vFcR() // arbitrary: there is no previous payload to continue
		}
		p.PrevRandao = raw.RandaoMixes[mixIdx]
		if sc == vPlScStaleRandao {
			p.PrevRandao = mixAfter
			zzverif.Assume(mixAfter != raw.RandaoMixes[mixIdx])
		}
		p.Timestamp = raw.GenesisTime + common.Timestamp(slot*uint64(spec.SECONDS_PER_SLOT))
		if sc == vPlScBadTimestamp {
			p.Timestamp++
		}
		p.StateRoot, p.ReceiptsRoot, p.BlockHash = vFcR(), vFcR(), vFcR()
		p.FeeRecipient[0] = zzverif.NondetU8()
		p.BlockNumber, p.GasLimit, p.GasUsed = Uint64View(zzverif.NondetU64()), Uint64View(zzverif.NondetU64()), Uint64View(zzverif.NondetU64())
		p.Transactions = common.PayloadTransactions{{zzverif.NondetU8(), 0x02}}
		if sc == vPlScMergeBlock {
			zzverif.Assume(p.HashTreeRoot(spec, h) != (&ExecutionPayload{}).HashTreeRoot(spec, h))
		}
	}
	if sc == vPlScEngineNo {
		w.eng.verdicts[1] = 1
	}
	// voluntary exit of validator 2
	exit := phase0.SignedVoluntaryExit{Message: phase0.VoluntaryExit{Epoch: epoch, ValidatorIndex: 2}, Signature: vPlSig()}
	{
		dom := common.ComputeDomain(common.DOMAIN_VOLUNTARY_EXIT, raw.Fork.CurrentVersion, gvr)
		msg := common.ComputeSigningRoot(exit.Message.HashTreeRoot(h), dom)
		pub := [48]byte(raw.Validators[2].Pubkey)
		good := zzverif.BLSPubkeyValid(pub) && zzverif.BLSSigValid([96]byte(exit.Signature)) && zzverif.BLSVerify(pub, msg[:], [96]byte(exit.Signature))
		zzverif.Assume(good == (sc != vPlScBadExit))
	}
	body.VoluntaryExits = phase0.VoluntaryExits{exit}
	// sync aggregate
	if sc == vPlScBadSyncSig {
		body.SyncAggregate = altair.SyncAggregate{SyncCommitteeBits: altair.SyncCommitteeBits{0x01}, SyncCommitteeSignature: vPlSig()}
		dom := common.ComputeDomain(common.DOMAIN_SYNC_COMMITTEE, raw.Fork.CurrentVersion, gvr)
		msg := common.ComputeSigningRoot(raw.BlockRoots[(slot-1)%uint64(spec.SLOTS_PER_HISTORICAL_ROOT)], dom)
		pub := [48]byte(raw.Validators[0].Pubkey)
		sig := [96]byte(body.SyncAggregate.SyncCommitteeSignature)
		zzverif.Assume(zzverif.BLSPubkeyValid(pub) && zzverif.BLSSigValid(sig) && !zzverif.BLSFastAggregateVerify([][48]byte{pub}, msg[:], sig))
	} else {
		var inf common.BLSSignature
		inf[0] = 0xc0
		zzverif.Assume(zzverif.BLSSigValid([96]byte(inf)))
		body.SyncAggregate = altair.SyncAggregate{SyncCommitteeBits: altair.SyncCommitteeBits{0x00}, SyncCommitteeSignature: inf}
	}
	header := common.BeaconBlockHeader{Slot: common.Slot(slot), ProposerIndex: common.ValidatorIndex(prop), ParentRoot: raw.LatestBlockHeader.HashTreeRoot(h),
		StateRoot: vFcR(), BodyRoot: body.HashTreeRoot(spec, h)}
	if sc == vPlScBadParent {
		header.ParentRoot = vFcR()
		zzverif.Assume(header.ParentRoot != raw.LatestBlockHeader.HashTreeRoot(h))
	}
	benv := &common.BeaconBlockEnvelope{BeaconBlockHeader: header, Body: body, BlockRoot: header.HashTreeRoot(h), Signature: vPlSig()}
	failAt := -1
	if sc >= vPlScCancel1 && sc < vPlScBadParent {
		failAt = sc - vPlScCancel1
	}
	polls := 0
	ctx := vFcCtx{polls: &polls, failAt: failAt}

	zzverif.Reach("bellatrix-block-pipeline")
	err := w.st.ProcessBlock(ctx, spec, w.epc, benv)

	// ---- how far the spec's process_block gets in this scenario: number of completed sub-steps out of
	// header(1) payload(2) randao(3) eth1(4) operations(5) sync aggregate(6) ----
	done, engineAsked, wantPolls := 6, true, 6
	switch sc {
	case vPlScLive, vPlScCancel1 + 6, vPlScMergeBlock:
	case vPlScPreMergeOff:
		engineAsked, wantPolls = false, 5
	case vPlScCancel1, vPlScBadParent:
		done, engineAsked = 0, false
	case vPlScCancel1 + 1, vPlScBadParentH, vPlScBadTimestamp, vPlScStaleRandao:
		done, engineAsked = 1, false
	case vPlScEngineNo:
		done = 1
	case vPlScCancel1 + 2, vPlScBadRandao:
		done = 2
	case vPlScCancel1 + 3:
		done = 3
	case vPlScCancel1 + 4, vPlScDepositCount, vPlScBadExit:
		done = 4
	case vPlScCancel1 + 5, vPlScBadSyncSig:
		done = 5
	}
	zzverif.Assert((err == nil) == (done == 6), "bellatrix ProcessBlock accepts the valid block and fails when a sub-step is invalid or a poll reports cancellation")
	if failAt >= 0 && failAt < 6 {
		zzverif.Assert(polls == failAt+1, "no poll after the one that reported cancellation")
	}
	if done == 6 {
		zzverif.Assert(polls == wantPolls, "the accepted block polls the context once per polling sub-step that runs and once per operation")
	}
	if done >= 1 {
		raw.LatestBlockHeader = header
		raw.LatestBlockHeader.StateRoot = common.Root{}
	}
	if done >= 2 && sc != vPlScPreMergeOff { // process_execution_payload: state.latest_execution_payload_header = ExecutionPayloadHeader(payload...)
		raw.LatestExecutionPayloadHeader = ExecutionPayloadHeader{ParentHash: p.ParentHash, FeeRecipient: p.FeeRecipient, StateRoot: p.StateRoot,
			ReceiptsRoot: p.ReceiptsRoot, LogsBloom: p.LogsBloom, PrevRandao: p.PrevRandao, BlockNumber: p.BlockNumber, GasLimit: p.GasLimit,
			GasUsed: p.GasUsed, Timestamp: p.Timestamp, ExtraData: p.ExtraData, BaseFeePerGas: p.BaseFeePerGas, BlockHash: p.BlockHash,
			TransactionsRoot: p.Transactions.HashTreeRoot(spec, h)}
	}
	if done >= 3 {
		raw.RandaoMixes[mixIdx] = mixAfter
	}
	if done >= 4 {
		raw.Eth1DataVotes = append(raw.Eth1DataVotes, body.Eth1Data) // 1 vote of a period of 4: no majority
	}
	if done >= 5 { // initiate_validator_exit: empty exit queue, exit epoch = epoch + 1 + MAX_SEED_LOOKAHEAD
		raw.Validators[2].ExitEpoch = epoch + 1 + spec.MAX_SEED_LOOKAHEAD
		raw.Validators[2].WithdrawableEpoch = raw.Validators[2].ExitEpoch + spec.MIN_VALIDATOR_WITHDRAWABILITY_DELAY
	}
	if done >= 6 { // no participants: every seat (validators 0, 1, 2, 0) is penalised, the proposer earns nothing
		for _, m := range []int{0, 1, 2, 0} {
			b := uint64(raw.Balances[m])
			raw.Balances[m] = common.Gwei(zzverif.Ite(b < w.partRew, 0, b-w.partRew))
		}
	}
	vPlExpectFields(spec, w.st, raw, "bellatrix process_block, exactly the sub-steps before the failing one")
	if engineAsked {
		zzverif.Assert(len(w.eng.calls) == 2, "the payload sub-step consults the engine (block hash, new payload)")
		for k, c := range w.eng.calls {
			zzverif.Assert(c.kind == k && c.payload == p && c.block == p.BlockHash, "each engine query is about this block's payload, block hash check first")
		}
	} else {
		zzverif.Assert(len(w.eng.calls) == 0, "the engine is not consulted when the block fails before the engine is reached or execution is not enabled")
	}
}
