package bellatrix

import (
	"github.com/protolambda/zrnt/eth2/beacon/common"
	"github.com/protolambda/zrnt/eth2/zzverif"
	"github.com/protolambda/ztyp/tree"
	. "github.com/protolambda/ztyp/view"
)

// VerifHarness_C01_merge_predicates: the three merge predicates of the bellatrix state equal the spec's
// is_merge_transition_complete (latest_execution_payload_header != ExecutionPayloadHeader()),
// is_merge_transition_block (not complete and body.execution_payload != ExecutionPayload()) and is_execution_enabled
// (complete or transition block), for a default or non-default header and a payload that is default or differs from the
// default in exactly one (chosen) field - including payloads whose block hash is zero.
// Assumption: a non-default header / payload has a different hash-tree-root than the default one (no SHA-256 collision;
// the hash is uninterpreted in the engine).
func VerifHarness_C01_merge_predicates() {
	spec := common.VTinySpec()
	raw := vFkRaw(spec, 1)
	defHeader := zzverif.Choose(2) == 0
	if defHeader {
		raw.LatestExecutionPayloadHeader = ExecutionPayloadHeader{}
	} else {
		raw.LatestExecutionPayloadHeader = *vFkHeader()
		zzverif.Assume(raw.LatestExecutionPayloadHeader.GasLimit != 0) // makes it different from the default header
	}
	st := vFkView(spec, raw)
	blk := &BeaconBlock{}
	p := &blk.Body.ExecutionPayload
	field := zzverif.Choose(8) // 0: default payload
	b := zzverif.NondetU8()
	zzverif.Assume(b != 0)
	switch field {
	case 1:
		p.ParentHash[0] = b
	case 2:
		p.StateRoot[31] = b
	case 3:
		p.BlockNumber = Uint64View(b)
	case 4:
		p.Timestamp = common.Timestamp(b)
	case 5:
		p.BlockHash[5] = b
	case 6:
		p.Transactions = common.PayloadTransactions{common.Transaction{b}}
	case 7:
		p.ExtraData = common.ExtraData{b}
	}
	hf := tree.GetHashFn()
	if !defHeader {
		zzverif.Assume(raw.LatestExecutionPayloadHeader.HashTreeRoot(hf) != ExecutionPayloadHeaderType.DefaultNode().MerkleRoot(hf))
	}
	if field != 0 {
		zzverif.Assume(p.HashTreeRoot(spec, hf) != ExecutionPayloadType(spec).DefaultNode().MerkleRoot(hf))
	}
	zzverif.Reach("merge-predicates")
	complete, e1 := st.IsTransitionCompleted()
	tblock, e2 := st.IsTransitionBlock(spec, blk)
	enabled, e3 := st.IsExecutionEnabled(spec, blk)
	zzverif.Assert(e1 == nil && e2 == nil && e3 == nil, "the merge predicates succeed")
	zzverif.Assert(complete == !defHeader, "is_merge_transition_complete: the latest execution payload header differs from the default header")
	zzverif.Assert(tblock == (defHeader && field != 0), "is_merge_transition_block: merge not complete and the block's payload differs from the default payload")
	zzverif.Assert(enabled == (!defHeader || field != 0), "is_execution_enabled: merge complete or merge transition block")
}
