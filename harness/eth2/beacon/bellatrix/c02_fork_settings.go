package bellatrix

import (
	"github.com/protolambda/zrnt/eth2/beacon/altair"
	"github.com/protolambda/zrnt/eth2/beacon/common"
	"github.com/protolambda/zrnt/eth2/beacon/phase0"
	"github.com/protolambda/zrnt/eth2/zzverif"
)

// vA2FromAltair: the bellatrix state (struct form) with the content of the altair state `a` and a symbolic latest
// execution payload header.
func vA2FromAltair(a *altair.BeaconState) *BeaconState {
	return &BeaconState{
		GenesisTime: a.GenesisTime, GenesisValidatorsRoot: a.GenesisValidatorsRoot, Slot: a.Slot, Fork: a.Fork,
		LatestBlockHeader: a.LatestBlockHeader, BlockRoots: a.BlockRoots, StateRoots: a.StateRoots, HistoricalRoots: a.HistoricalRoots,
		Eth1Data: a.Eth1Data, Eth1DataVotes: a.Eth1DataVotes, Eth1DepositIndex: a.Eth1DepositIndex,
		Validators: a.Validators, Balances: a.Balances, RandaoMixes: a.RandaoMixes, Slashings: a.Slashings,
		PreviousEpochParticipation: a.PreviousEpochParticipation, CurrentEpochParticipation: a.CurrentEpochParticipation,
		JustificationBits: a.JustificationBits, PreviousJustifiedCheckpoint: a.PreviousJustifiedCheckpoint,
		CurrentJustifiedCheckpoint: a.CurrentJustifiedCheckpoint, FinalizedCheckpoint: a.FinalizedCheckpoint,
		InactivityScores: a.InactivityScores, CurrentSyncCommittee: a.CurrentSyncCommittee, NextSyncCommittee: a.NextSyncCommittee,
		LatestExecutionPayloadHeader: *vFkHeader(),
	}
}

// VerifHarness_C02_fork_quotients (bellatrix state): phase0.SlashValidator and phase0.ProcessEpochSlashings - the code
// bellatrix's block and epoch pipelines call - on a real bellatrix state use the bellatrix constants: penalty
// effective_balance // MIN_SLASHING_PENALTY_QUOTIENT_BELLATRIX (32), proposer_reward = whistleblower_reward *
// PROPOSER_WEIGHT // WEIGHT_DENOMINATOR, PROPORTIONAL_SLASHING_MULTIPLIER_BELLATRIX (3); everything else as the spec's
// slash_validator / process_slashings.
// Bounds: phase0.VA2ForkWorldT (3 validators; one slashing with/without whistleblower at epoch 4, or the slashings step at
// epoch 6), preset phase0.VA2ForkSpec (tiny preset with PROPOSER_REWARD_QUOTIENT = 4).
// Shards: Choose #1 = kind (2); kind 0: #2 = slashed validator (3), #3 = whistleblower (3); kind 1: #2 = third validator active (2).
func VerifHarness_C02_fork_quotients() {
	spec := phase0.VA2ForkSpec()
	w := phase0.VA2ForkWorld(spec)
	raw := vA2FromAltair(altair.VA2AltairOfBase(spec, w.Base()))
	raw.Fork = common.Fork{PreviousVersion: spec.ALTAIR_FORK_VERSION, CurrentVersion: spec.BELLATRIX_FORK_VERSION, Epoch: 0}
	st := vFkView(spec, raw)
	if st == nil {
		return
	}
	w.Check(st, st.ContainerView, phase0.VA2ForkConsts{
		MinSlashingPenaltyQuotient:     uint64(spec.MIN_SLASHING_PENALTY_QUOTIENT_BELLATRIX),
		ProportionalSlashingMultiplier: uint64(spec.PROPORTIONAL_SLASHING_MULTIPLIER_BELLATRIX),
		AltairProposerShare:            true,
	})
}

// VerifHarness_C02_bellatrix_rewards: altair.ComputeEpochAttesterData + altair.ProcessEpochRewardsAndPenalties - the code
// bellatrix's epoch pipeline calls - on a real bellatrix state equal the spec's process_rewards_and_penalties with
// get_inactivity_penalty_deltas of bellatrix: penalty effective_balance * inactivity_score // (INACTIVITY_SCORE_BIAS *
// INACTIVITY_PENALTY_QUOTIENT_BELLATRIX); flag deltas as altair; no field other than balances changes.
// Bounds/assumptions: as altair's VerifHarness_C02_altair_rewards (altair.VA2RewardsRaw: tiny preset, 3 validators 8/24/32 ETH,
// symbolic participation flags, inactivity scores < 2^12, finalized epoch on both sides of the leak threshold, balances
// in [2^24, 2^40) unless param lowbal=1), symbolic execution payload header.
// Shards: Choose #1 = mode (3), #2, #3 = slashed flag of validator 0, 1 (2 each), #4 = balances comparison / frame check (2).
func VerifHarness_C02_bellatrix_rewards() {
	spec := common.VTinySpec()
	mode := zzverif.Choose(3)
	a, in := altair.VA2RewardsRaw(spec, mode, zzverif.Param("lowbal", 0) == 1)
	raw := vA2FromAltair(a)
	raw.Fork = common.Fork{PreviousVersion: spec.ALTAIR_FORK_VERSION, CurrentVersion: spec.BELLATRIX_FORK_VERSION, Epoch: 0}
	st := vFkView(spec, raw)
	if st == nil {
		return
	}
	altair.VA2RewardsCheck(spec, in, st, st.ContainerView, uint64(spec.INACTIVITY_PENALTY_QUOTIENT_BELLATRIX))
}

// override group "c02al" for jobs of this package (the engine registers the overrides of the job's package only): as in
// altair's harness, the shuffling and the proposer sampling are the subject of C07/C08; here they are stubs that keep the
// bookkeeping (which epoch, which active set).
const VerifOverrideTarget_c02al__shuffling = "github.com/protolambda/zrnt/eth2/beacon/common.ComputeShufflingEpoch"

func VerifOverride_c02al__shuffling(spec *common.Spec, state common.BeaconState, bounded []common.BoundedIndex, epoch common.Epoch) (*common.ShufflingEpoch, error) {
	act := common.ActiveIndices(bounded, epoch)
	return &common.ShufflingEpoch{Epoch: epoch, ActiveIndices: act, Shuffling: append([]common.ValidatorIndex(nil), act...)}, nil
}

const VerifOverrideTarget_c02al__proposers = "github.com/protolambda/zrnt/eth2/beacon/common.ComputeProposers"

func VerifOverride_c02al__proposers(spec *common.Spec, state common.BeaconState, epoch common.Epoch, active []common.ValidatorIndex) (*common.ProposersEpoch, error) {
	return &common.ProposersEpoch{Spec: spec, Epoch: epoch, Proposers: make([]common.ValidatorIndex, spec.SLOTS_PER_EPOCH)}, nil
}
