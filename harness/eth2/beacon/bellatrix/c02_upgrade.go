package bellatrix

import (
	"github.com/protolambda/zrnt/eth2/beacon/altair"
	"github.com/protolambda/zrnt/eth2/beacon/common"
	"github.com/protolambda/zrnt/eth2/beacon/phase0"
	"github.com/protolambda/zrnt/eth2/zzverif"
	"github.com/protolambda/ztyp/tree"
)

// ---- exported for the capella upgrade harness ----

// VUpRawBellatrix: raw bellatrix state of the tiny preset, every scalar leaf symbolic (vFkRaw); the slashed flag of
// every validator but the last is made concrete (alternating true/false) so that the state does not fork structurally.
func VUpRawBellatrix(spec *common.Spec, n int) *BeaconState {
	raw := vFkRaw(spec, n)
	for i := 0; i+1 < n; i++ {
		raw.Validators[i].Slashed = i%2 == 0
	}
	return raw
}

func VUpBellatrixView(spec *common.Spec, raw *BeaconState) *BeaconStateView {
	return vFkView(spec, raw)
}

func VUpBaseOfBellatrix(raw *BeaconState) *phase0.VUpBase {
	return &phase0.VUpBase{
		GenesisTime: raw.GenesisTime, GenesisValidatorsRoot: raw.GenesisValidatorsRoot, Slot: raw.Slot, Fork: raw.Fork,
		LatestBlockHeader: raw.LatestBlockHeader, BlockRoots: raw.BlockRoots, StateRoots: raw.StateRoots,
		HistoricalRoots: raw.HistoricalRoots, Eth1Data: raw.Eth1Data, Eth1DataVotes: raw.Eth1DataVotes,
		Eth1DepositIndex: raw.Eth1DepositIndex, Validators: raw.Validators, Balances: raw.Balances,
		RandaoMixes: raw.RandaoMixes, Slashings: raw.Slashings, JustificationBits: raw.JustificationBits,
		PreviousJustifiedCheckpoint: raw.PreviousJustifiedCheckpoint, CurrentJustifiedCheckpoint: raw.CurrentJustifiedCheckpoint,
		FinalizedCheckpoint: raw.FinalizedCheckpoint,
	}
}

func VUpExtOfBellatrix(raw *BeaconState) *altair.VUpAltairExt {
	return &altair.VUpAltairExt{
		PreviousEpochParticipation: raw.PreviousEpochParticipation, CurrentEpochParticipation: raw.CurrentEpochParticipation,
		InactivityScores: raw.InactivityScores, CurrentSyncCommittee: raw.CurrentSyncCommittee, NextSyncCommittee: raw.NextSyncCommittee,
	}
}

// VerifHarness_C02_upgrade_bellatrix: the real UpgradeToBellatrix on a real altair state equals the spec's
// upgrade_to_bellatrix: fork = Fork(previous_version = pre.fork.current_version, current_version =
// BELLATRIX_FORK_VERSION, epoch = epoch(pre.slot)); every phase0-era and altair-era field carried over (getter by
// getter); latest_execution_payload_header = ExecutionPayloadHeader() (every field zero / empty); the root of the whole
// post-state is the root of the struct form of that expected state; the pre-state is untouched.
// Bounds: tiny preset, 2 validators, every scalar leaf symbolic (slot, fork record, epochs, balances: full 64 bits;
// roots/keys 2 symbolic bytes; slashed flag symbolic for the last validator), one historical root, one eth1 vote.
func VerifHarness_C02_upgrade_bellatrix() {
	spec := common.VTinySpec()
	raw := altair.VUpRawAltair(spec, zzverif.Param("validators", 2))
	pre := altair.VUpAltairView(spec, raw)
	if pre == nil {
		return
	}
	h := tree.GetHashFn()
	preRoot := pre.HashTreeRoot(h)
	zzverif.Reach("upgrade-bellatrix")
	post, err := UpgradeToBellatrix(spec, &common.EpochsContext{Spec: spec}, pre)
	zzverif.Assert(err == nil && post != nil, "upgrade_to_bellatrix succeeds on a well-formed altair state")
	if err != nil || post == nil {
		return
	}
	zzverif.Assert(pre.HashTreeRoot(h) == preRoot, "the altair pre-state is not modified by the upgrade")
	// ---- the spec, over the raw pre-state ----
	base := altair.VUpBaseOfAltair(raw)
	base.Fork = common.Fork{PreviousVersion: raw.Fork.CurrentVersion, CurrentVersion: spec.BELLATRIX_FORK_VERSION, Epoch: common.Epoch(uint64(raw.Slot) / uint64(spec.SLOTS_PER_EPOCH))}
	ext := &altair.VUpAltairExt{
		PreviousEpochParticipation: raw.PreviousEpochParticipation, CurrentEpochParticipation: raw.CurrentEpochParticipation,
		InactivityScores: raw.InactivityScores, CurrentSyncCommittee: raw.CurrentSyncCommittee, NextSyncCommittee: raw.NextSyncCommittee,
	}
	phase0.VUpCheckBase(spec, post, base)
	altair.VUpCheckAltairExt(spec, post, ext)
	var zero ExecutionPayloadHeader
	lh, e := post.LatestExecutionPayloadHeader()
	zzverif.Assert(e == nil && lh != nil, "latest_execution_payload_header readable")
	if e != nil || lh == nil {
		return
	}
	ph, e1 := lh.ParentHash()
	fr, e2 := lh.FeeRecipient()
	sr, e3 := lh.StateRoot()
	rr, e4 := lh.ReceiptRoot()
	lb, e5 := lh.LogsBloom()
	pr, e6 := lh.Random()
	zzverif.Assert(e1 == nil && e2 == nil && e3 == nil && e4 == nil && e5 == nil && e6 == nil && lb != nil, "default header: fields readable")
	zzverif.Assert(ph == zero.ParentHash && fr == zero.FeeRecipient && sr == zero.StateRoot && rr == zero.ReceiptsRoot && pr == zero.PrevRandao, "default header: parent_hash, fee_recipient, state_root, receipts_root, prev_randao are zero")
	if lb != nil {
		zzverif.Assert(*lb == zero.LogsBloom, "default header: logs_bloom is zero")
	}
	bn, e1 := lh.BlockNumber()
	gl, e2 := lh.GasLimit()
	gu, e3 := lh.GasUsed()
	ts, e4 := lh.Timestamp()
	bf, e5 := lh.BaseFeePerGas()
	bh, e6 := lh.BlockHash()
	tr, e7 := lh.TransactionsRoot()
	zzverif.Assert(e1 == nil && e2 == nil && e3 == nil && e4 == nil && e5 == nil && e6 == nil && e7 == nil, "default header: fields readable (2)")
	zzverif.Assert(bn == 0 && gl == 0 && gu == 0 && ts == 0 && bf == zero.BaseFeePerGas && bh == zero.BlockHash && tr == zero.TransactionsRoot, "default header: block_number, gas_limit, gas_used, timestamp, base_fee_per_gas, block_hash, transactions_root are zero")
	zzverif.Assert(lh.HashTreeRoot(h) == zero.HashTreeRoot(h), "latest_execution_payload_header = ExecutionPayloadHeader() (also extra_data empty)")
	exp := &BeaconState{
		GenesisTime: base.GenesisTime, GenesisValidatorsRoot: base.GenesisValidatorsRoot, Slot: base.Slot, Fork: base.Fork,
		LatestBlockHeader: base.LatestBlockHeader, BlockRoots: base.BlockRoots, StateRoots: base.StateRoots,
		HistoricalRoots: base.HistoricalRoots, Eth1Data: base.Eth1Data, Eth1DataVotes: base.Eth1DataVotes,
		Eth1DepositIndex: base.Eth1DepositIndex, Validators: base.Validators, Balances: base.Balances,
		RandaoMixes: base.RandaoMixes, Slashings: base.Slashings, JustificationBits: base.JustificationBits,
		PreviousJustifiedCheckpoint: base.PreviousJustifiedCheckpoint, CurrentJustifiedCheckpoint: base.CurrentJustifiedCheckpoint,
		FinalizedCheckpoint:        base.FinalizedCheckpoint,
		PreviousEpochParticipation: ext.PreviousEpochParticipation, CurrentEpochParticipation: ext.CurrentEpochParticipation,
		InactivityScores: ext.InactivityScores, CurrentSyncCommittee: ext.CurrentSyncCommittee, NextSyncCommittee: ext.NextSyncCommittee,
	}
	zzverif.Assert(post.HashTreeRoot(h) == exp.HashTreeRoot(spec, h), "the post-state of upgrade_to_bellatrix is exactly the spec's (whole-state root)")
}
