package bellatrix

import (
	"github.com/protolambda/zrnt/eth2/beacon/common"
	"github.com/protolambda/zrnt/eth2/zzverif"
	"github.com/protolambda/ztyp/tree"
)

// VerifHarness_C15_bellatrix_copy_state: CopyState of the bellatrix state gives an independent state of the same fork: the
// copy has the original's root and this fork's concrete view type (so that fork-specific accessors and the fork dispatch
// of the transition keep working on it); writing to the copy (slot, a balance) leaves the original's root unchanged and
// vice versa. Bounds: tiny preset, 2 validators, symbolic leaves.
func VerifHarness_C15_bellatrix_copy_state() {
	spec := common.VTinySpec()
	raw := vFkRaw(spec, 2)
	st := vFkView(spec, raw)
	h := tree.GetHashFn()
	before := st.HashTreeRoot(h)
	zzverif.Reach("bellatrix-copy-state")
	cpI, err := st.CopyState()
	zzverif.Assert(err == nil, "CopyState succeeds")
	cp, ok := cpI.(*BeaconStateView)
	zzverif.Assert(ok, "the copy is a state view of the same fork")
	if !ok {
		return
	}
	zzverif.Assert(cp.HashTreeRoot(h) == before, "the copy has the original's root")
	x := common.Slot(zzverif.NondetU64())
	zzverif.Assert(cp.SetSlot(x) == nil, "SetSlot on the copy")
	bals, _ := cp.Balances()
	zzverif.Assert(bals.SetBalance(1, common.Gwei(zzverif.NondetU64())) == nil, "SetBalance on the copy")
	zzverif.Assert(st.HashTreeRoot(h) == before, "writing to the copy leaves the original unchanged")
	s0, _ := st.Slot()
	zzverif.Assert(s0 == raw.Slot, "the original still has its slot")
	after := cp.HashTreeRoot(h)
	zzverif.Assert(st.SetSlot(x+1) == nil, "SetSlot on the original")
	zzverif.Assert(cp.HashTreeRoot(h) == after, "writing to the original leaves the copy unchanged")
}
