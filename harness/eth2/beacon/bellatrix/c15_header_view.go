package bellatrix

import (
	"github.com/protolambda/zrnt/eth2/zzverif"
	"github.com/protolambda/ztyp/tree"
)

// VerifHarness_C15_bellatrix_header_getters: every typed getter of ExecutionPayloadHeaderView returns the field of the
// struct the view was built from (header.View()), Raw() converts back to an equal struct, and the view's root is the
// struct's root.
// Bounds: symbolic scalar leaves, byte vectors with one or two symbolic bytes, 2 bytes of extra data.
func VerifHarness_C15_bellatrix_header_getters() {
	x := vFcHeader()
	v := x.View()
	zzverif.Reach("bellatrix-header-getters")
	ph, e1 := v.ParentHash()
	zzverif.Assert(e1 == nil && ph == x.ParentHash, "ExecutionPayloadHeaderView.ParentHash() reads parent_hash")
	fr, e2 := v.FeeRecipient()
	zzverif.Assert(e2 == nil && fr == x.FeeRecipient, "ExecutionPayloadHeaderView.FeeRecipient() reads fee_recipient")
	sr, e3 := v.StateRoot()
	zzverif.Assert(e3 == nil && sr == x.StateRoot, "ExecutionPayloadHeaderView.StateRoot() reads state_root")
	rr, e4 := v.ReceiptRoot()
	zzverif.Assert(e4 == nil && rr == x.ReceiptsRoot, "ExecutionPayloadHeaderView.ReceiptRoot() reads receipts_root")
	lb, e5 := v.LogsBloom()
	zzverif.Assert(e5 == nil && lb != nil && *lb == x.LogsBloom, "ExecutionPayloadHeaderView.LogsBloom() reads logs_bloom")
	rd, e6 := v.Random()
	zzverif.Assert(e6 == nil && rd == x.PrevRandao, "ExecutionPayloadHeaderView.Random() reads prev_randao")
	bn, e7 := v.BlockNumber()
	zzverif.Assert(e7 == nil && bn == x.BlockNumber, "ExecutionPayloadHeaderView.BlockNumber() reads block_number")
	gl, e8 := v.GasLimit()
	zzverif.Assert(e8 == nil && gl == x.GasLimit, "ExecutionPayloadHeaderView.GasLimit() reads gas_limit")
	gu, e9 := v.GasUsed()
	zzverif.Assert(e9 == nil && gu == x.GasUsed, "ExecutionPayloadHeaderView.GasUsed() reads gas_used")
	ts, e10 := v.Timestamp()
	zzverif.Assert(e10 == nil && ts == x.Timestamp, "ExecutionPayloadHeaderView.Timestamp() reads timestamp")
	bf, e11 := v.BaseFeePerGas()
	zzverif.Assert(e11 == nil && bf == x.BaseFeePerGas, "ExecutionPayloadHeaderView.BaseFeePerGas() reads base_fee_per_gas")
	bh, e12 := v.BlockHash()
	zzverif.Assert(e12 == nil && bh == x.BlockHash, "ExecutionPayloadHeaderView.BlockHash() reads block_hash")
	tr, e13 := v.TransactionsRoot()
	zzverif.Assert(e13 == nil && tr == x.TransactionsRoot, "ExecutionPayloadHeaderView.TransactionsRoot() reads transactions_root")
	h := tree.GetHashFn()
	zzverif.Assert(v.HashTreeRoot(h) == x.HashTreeRoot(h), "ExecutionPayloadHeader view root equals the struct root")
}
