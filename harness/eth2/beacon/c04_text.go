package beacon

import (
	"encoding"

	"github.com/protolambda/zrnt/eth2/beacon/altair"
	"github.com/protolambda/zrnt/eth2/beacon/common"
	"github.com/protolambda/zrnt/eth2/beacon/phase0"
	"github.com/protolambda/zrnt/eth2/zzverif"
)

type vTxCase struct {
	name  string
	x     encoding.TextMarshaler
	fresh encoding.TextUnmarshaler
	same  func() bool
}

// VerifHarness_C04_text_forms: the text form (the "0x.." string used inside JSON and YAML documents) of every byte-like
// SSZ type with its own MarshalText/UnmarshalText pair round-trips: UnmarshalText(MarshalText(x)) succeeds and gives x.
// Bounds: one symbolic byte per value (the first), the other bytes concrete and non-zero where the type allows;
// the reflection-driven encoding/json and yaml.v3 layers above these methods are outside the claim.
func VerifHarness_C04_text_forms() {
	b := zzverif.NondetU8()
	which := zzverif.Choose(18)
	var c vTxCase
	switch which {
	case 0:
		x := common.Root{b, 2, 3}
		x[31] = 9
		var y common.Root
		c = vTxCase{"common.Root", x, &y, func() bool { return y == x }}
	case 1:
		x := common.BLSPubkey{b, 2}
		x[47] = 9
		var y common.BLSPubkey
		c = vTxCase{"common.BLSPubkey", x, &y, func() bool { return y == x }}
	case 2:
		x := common.BLSSignature{b, 2}
		x[95] = 9
		var y common.BLSSignature
		c = vTxCase{"common.BLSSignature", x, &y, func() bool { return y == x }}
	case 3:
		x := common.BLSDomainType{b, 2, 3, 4}
		var y common.BLSDomainType
		c = vTxCase{"common.BLSDomainType", x, &y, func() bool { return y == x }}
	case 4:
		x := common.Eth1Address{b, 2}
		x[19] = 9
		var y common.Eth1Address
		c = vTxCase{"common.Eth1Address", x, &y, func() bool { return y == x }}
	case 5:
		x := common.ExtraData{b, 2, 3}
		var y common.ExtraData
		c = vTxCase{"common.ExtraData", x, &y, func() bool { return len(y) == 3 && y[0] == b && y[1] == 2 && y[2] == 3 }}
	case 6:
		x := common.JustificationBits{b & 0x0f}
		var y common.JustificationBits
		c = vTxCase{"common.JustificationBits", x, &y, func() bool { return y == x }}
	case 7:
		x := common.KZGCommitment{b, 2}
		x[47] = 9
		var y common.KZGCommitment
		c = vTxCase{"common.KZGCommitment", x, &y, func() bool { return y == x }}
	case 8:
		x := common.AttnetBits{b, 2, 3, 4, 5, 6, 7, 8}
		var y common.AttnetBits
		c = vTxCase{"common.AttnetBits", x, &y, func() bool { return y == x }}
	case 9:
		x := common.SyncnetBits{b & 0x0f}
		var y common.SyncnetBits
		c = vTxCase{"common.SyncnetBits", x, &y, func() bool { return y == x }}
	case 10:
		x := common.Transaction{b, 2, 3, 4}
		var y common.Transaction
		c = vTxCase{"common.Transaction", x, &y, func() bool { return len(y) == 4 && y[0] == b && y[3] == 4 }}
	case 11:
		x := common.Version{b, 2, 3, 4}
		var y common.Version
		c = vTxCase{"common.Version", x, &y, func() bool { return y == x }}
	case 12:
		x := common.ForkDigest{b, 2, 3, 4}
		var y common.ForkDigest
		c = vTxCase{"common.ForkDigest", x, &y, func() bool { return y == x }}
	case 13:
		x := common.NetworkMessageDomain{b, 2, 3, 4}
		var y common.NetworkMessageDomain
		c = vTxCase{"common.NetworkMessageDomain", x, &y, func() bool { return y == x }}
	case 14:
		x := common.WithdrawalPrefix{b}
		var y common.WithdrawalPrefix
		c = vTxCase{"common.WithdrawalPrefix", x, &y, func() bool { return y == x }}
	case 15:
		x := phase0.AttestationBits{b, 1}
		var y phase0.AttestationBits
		c = vTxCase{"phase0.AttestationBits", x, &y, func() bool { return len(y) == 2 && y[0] == b && y[1] == 1 }}
	case 16:
		x := altair.SyncCommitteeBits{b, 2, 3, 4}
		var y altair.SyncCommitteeBits
		c = vTxCase{"altair.SyncCommitteeBits", x, &y, func() bool { return len(y) == 4 && y[0] == b && y[3] == 4 }}
	case 17:
		x := altair.SyncCommitteeSubnetBits{b, 2}
		var y altair.SyncCommitteeSubnetBits
		c = vTxCase{"altair.SyncCommitteeSubnetBits", x, &y, func() bool { return len(y) == 2 && y[0] == b && y[1] == 2 }}
	}
	zzverif.Note("type: " + c.name)
	zzverif.Reach("text-forms")
	txt, err := c.x.MarshalText()
	zzverif.Assert(err == nil, "MarshalText succeeds ["+c.name+"]")
	err = c.fresh.UnmarshalText(txt)
	zzverif.Assert(err == nil, "UnmarshalText accepts the type's own text form ["+c.name+"]")
	zzverif.Assert(c.same(), "UnmarshalText(MarshalText(x)) == x ["+c.name+"]")
}
