package beacon

import (
	"github.com/protolambda/zrnt/eth2/beacon/altair"
	"github.com/protolambda/zrnt/eth2/beacon/common"
	"github.com/protolambda/zrnt/eth2/zzverif"
	"github.com/protolambda/ztyp/view"
)

// vTySyncSizes: the sync-committee sizes the bit-vector types are checked under. With the tiny preset's 4 the
// subcommittee bit-vector (SYNC_COMMITTEE_SIZE / 4 bits) and the whole-committee bit-vector both take one byte, so a
// confusion of the two is invisible; 32 (1 vs 4 bytes) and mainnet's 512 (16 vs 64 bytes) separate them.
func vTyPickSyncSize(spec *common.Spec) {
	vTySyncSizes := [3]uint64{4, 32, 512}
	spec.SYNC_COMMITTEE_SIZE = view.Uint64View(vTySyncSizes[zzverif.Choose(len(vTySyncSizes))])
}

// vTyBits: a bit-vector of nbits bits with symbolic first and last byte (padding bits zero).
func vTyBits(nbits uint64) []byte {
	n := (nbits + 7) / 8
	b := make([]byte, n)
	b[0] = zzverif.NondetU8()
	if n > 1 {
		b[n-1] = zzverif.NondetU8()
	}
	if r := nbits % 8; r != 0 {
		b[n-1] &= byte(1)<<r - 1
	}
	return b
}

func vTySyncAggregate(spec *common.Spec) altair.SyncAggregate {
	return altair.SyncAggregate{SyncCommitteeBits: vTyBits(uint64(spec.SYNC_COMMITTEE_SIZE)), SyncCommitteeSignature: vTySig()}
}

func vTyContribution(spec *common.Spec) altair.SyncCommitteeContribution {
	return altair.SyncCommitteeContribution{Slot: common.Slot(vTyU64()), BeaconBlockRoot: vTyRoot(), SubcommitteeIndex: view.Uint64View(vTyU64()),
		AggregationBits: vTyBits(uint64(spec.SYNC_COMMITTEE_SIZE) / common.SYNC_COMMITTEE_SUBNET_COUNT), Signature: vTySig()}
}

func vTyAltairBody(spec *common.Spec, n int) altair.BeaconBlockBody {
	b := altair.BeaconBlockBody{RandaoReveal: vTySig(), Eth1Data: vTyEth1Data(), Graffiti: vTyRoot(), SyncAggregate: vTySyncAggregate(spec)}
	b.ProposerSlashings, b.AttesterSlashings, b.Attestations, b.Deposits, b.VoluntaryExits = vTyOps(n)
	return b
}

const vTyAltairCases = 18

// vTyAltairCase: index -> type of package altair.
//
//	0 ParticipationFlags   1 ParticipationRegistry   2 SyncCommitteeBits   3 SyncCommitteeSubnetBits   4 SyncAggregate
//	5 SyncCommitteeMessage   6 SyncCommitteeContribution   7 ContributionAndProof   8 SignedContributionAndProof
//	9 SyncAggregatorSelectionData   10 LightClientSnapshot   11 LightClientUpdate   12 SyncCommitteeProofBranch
//	13 FinalizedRootProofBranch   14 InactivityScores   15 BeaconBlockBody   16 BeaconBlock   17 SignedBeaconBlock
//
// Cases 2-4 and 6-8 take the sync-committee size from a second Choose over vTySyncSizes (0: 4, 1: 32, 2: 512).
func vTyAltairCase(spec *common.Spec, which int) vTyCase {
	switch which {
	case 0:
		x := altair.ParticipationFlags(zzverif.NondetU8())
		return vTyCase{"altair.ParticipationFlags", &x, func() common.SSZObj { return new(altair.ParticipationFlags) }, altair.ParticipationFlagsType, true, 1}
	case 1:
		x := altair.ParticipationRegistry{}
		for i := zzverif.Choose(3); i > 0; i-- {
			x = append(x, altair.ParticipationFlags(zzverif.NondetU8()))
		}
		return vTyCase{"altair.ParticipationRegistry", spec.Wrap(&x), func() common.SSZObj { return spec.Wrap(&altair.ParticipationRegistry{}) }, altair.ParticipationRegistryType(spec), false, 0}
	case 2:
		vTyPickSyncSize(spec)
		x := altair.SyncCommitteeBits(vTyBits(uint64(spec.SYNC_COMMITTEE_SIZE)))
		return vTyCase{"altair.SyncCommitteeBits", spec.Wrap(&x), func() common.SSZObj { return spec.Wrap(&altair.SyncCommitteeBits{}) }, altair.SyncCommitteeBitsType(spec), true, (uint64(spec.SYNC_COMMITTEE_SIZE) + 7) / 8}
	case 3:
		vTyPickSyncSize(spec)
		sub := uint64(spec.SYNC_COMMITTEE_SIZE) / common.SYNC_COMMITTEE_SUBNET_COUNT
		x := altair.SyncCommitteeSubnetBits(vTyBits(sub))
		return vTyCase{"altair.SyncCommitteeSubnetBits", spec.Wrap(&x), func() common.SSZObj { return spec.Wrap(&altair.SyncCommitteeSubnetBits{}) }, altair.SyncCommitteeSubnetBitsType(spec), true, (sub + 7) / 8}
	case 4:
		vTyPickSyncSize(spec)
		x := vTySyncAggregate(spec)
		return vTyCase{"altair.SyncAggregate", spec.Wrap(&x), func() common.SSZObj { return spec.Wrap(&altair.SyncAggregate{}) }, altair.SyncAggregateType(spec), true, (uint64(spec.SYNC_COMMITTEE_SIZE)+7)/8 + 96}
	case 5:
		x := altair.SyncCommitteeMessage{Slot: common.Slot(vTyU64()), BeaconBlockRoot: vTyRoot(), ValidatorIndex: common.ValidatorIndex(vTyU64()), Signature: vTySig()}
		return vTyCase{"altair.SyncCommitteeMessage", &x, func() common.SSZObj { return &altair.SyncCommitteeMessage{} }, altair.SyncCommitteeMessageType, true, 8 + 32 + 8 + 96}
	case 6:
		vTyPickSyncSize(spec)
		sub := uint64(spec.SYNC_COMMITTEE_SIZE) / common.SYNC_COMMITTEE_SUBNET_COUNT
		x := vTyContribution(spec)
		return vTyCase{"altair.SyncCommitteeContribution", spec.Wrap(&x), func() common.SSZObj { return spec.Wrap(&altair.SyncCommitteeContribution{}) }, altair.SyncCommitteeContributionType(spec), true, 8 + 32 + 8 + (sub+7)/8 + 96}
	case 7:
		vTyPickSyncSize(spec)
		sub := uint64(spec.SYNC_COMMITTEE_SIZE) / common.SYNC_COMMITTEE_SUBNET_COUNT
		x := altair.ContributionAndProof{AggregatorIndex: common.ValidatorIndex(vTyU64()), Contribution: vTyContribution(spec), SelectionProof: vTySig()}
		return vTyCase{"altair.ContributionAndProof", spec.Wrap(&x), func() common.SSZObj { return spec.Wrap(&altair.ContributionAndProof{}) }, altair.ContributionAndProofType(spec), true, 8 + (8 + 32 + 8 + (sub+7)/8 + 96) + 96}
	case 8:
		vTyPickSyncSize(spec)
		sub := uint64(spec.SYNC_COMMITTEE_SIZE) / common.SYNC_COMMITTEE_SUBNET_COUNT
		x := altair.SignedContributionAndProof{Message: altair.ContributionAndProof{AggregatorIndex: common.ValidatorIndex(vTyU64()), Contribution: vTyContribution(spec), SelectionProof: vTySig()}, Signature: vTySig()}
		return vTyCase{"altair.SignedContributionAndProof", spec.Wrap(&x), func() common.SSZObj { return spec.Wrap(&altair.SignedContributionAndProof{}) }, altair.SignedContributionAndProofType(spec), true, 8 + (8 + 32 + 8 + (sub+7)/8 + 96) + 96 + 96}
	case 9:
		x := altair.SyncAggregatorSelectionData{Slot: common.Slot(vTyU64()), SubcommitteeIndex: view.Uint64View(vTyU64())}
		return vTyCase{"altair.SyncAggregatorSelectionData", &x, func() common.SSZObj { return &altair.SyncAggregatorSelectionData{} }, altair.SyncAggregatorSelectionDataType, true, 16}
	case 10:
		x := altair.LightClientSnapshot{Header: vTyHeader(), CurrentSyncCommittee: vTySyncCommittee(spec), NextSyncCommittee: vTySyncCommittee(spec)}
		sc := 48 * (uint64(spec.SYNC_COMMITTEE_SIZE) + 1)
		return vTyCase{"altair.LightClientSnapshot", spec.Wrap(&x), func() common.SSZObj { return spec.Wrap(&altair.LightClientSnapshot{}) }, altair.LightClientSnapshotType(spec), true, 112 + 2*sc}
	case 11:
		x := altair.LightClientUpdate{AttestedHeader: vTyHeader(), NextSyncCommittee: vTySyncCommittee(spec), FinalizedHeader: vTyHeader(), SyncAggregate: vTySyncAggregate(spec), SignatureSlot: common.Slot(vTyU64())}
		x.NextSyncCommitteeBranch[0], x.NextSyncCommitteeBranch[4] = vTyRoot(), vTyRoot()
		x.FinalityBranch[0], x.FinalityBranch[5] = vTyRoot(), vTyRoot()
		sc := 48 * (uint64(spec.SYNC_COMMITTEE_SIZE) + 1)
		return vTyCase{"altair.LightClientUpdate", spec.Wrap(&x), func() common.SSZObj { return spec.Wrap(&altair.LightClientUpdate{}) }, altair.LightClientUpdateType(spec), true, 112 + sc + 5*32 + 112 + 6*32 + (uint64(spec.SYNC_COMMITTEE_SIZE)+7)/8 + 96 + 8}
	case 12:
		x := altair.SyncCommitteeProofBranch{}
		x[0], x[4] = vTyRoot(), vTyRoot()
		return vTyCase{"altair.SyncCommitteeProofBranch", &x, func() common.SSZObj { return &altair.SyncCommitteeProofBranch{} }, altair.SyncCommitteeProofBranchType, true, 5 * 32}
	case 13:
		x := altair.FinalizedRootProofBranch{}
		x[0], x[5] = vTyRoot(), vTyRoot()
		return vTyCase{"altair.FinalizedRootProofBranch", &x, func() common.SSZObj { return &altair.FinalizedRootProofBranch{} }, altair.FinalizedRootProofBranchType, true, 6 * 32}
	case 14:
		x := altair.InactivityScores{}
		for i := zzverif.Choose(3); i > 0; i-- {
			x = append(x, view.Uint64View(vTyU64()))
		}
		return vTyCase{"altair.InactivityScores", spec.Wrap(&x), func() common.SSZObj { return spec.Wrap(&altair.InactivityScores{}) }, altair.InactivityScoresType(spec), false, 0}
	case 15:
		x := vTyAltairBody(spec, zzverif.Choose(2))
		return vTyCase{"altair.BeaconBlockBody", spec.Wrap(&x), func() common.SSZObj { return spec.Wrap(&altair.BeaconBlockBody{}) }, altair.BeaconBlockBodyType(spec), false, 0}
	case 16:
		x := altair.BeaconBlock{Slot: common.Slot(vTyU64()), ProposerIndex: common.ValidatorIndex(vTyU64()), ParentRoot: vTyRoot(), StateRoot: vTyRoot(), Body: vTyAltairBody(spec, zzverif.Choose(2))}
		return vTyCase{"altair.BeaconBlock", spec.Wrap(&x), func() common.SSZObj { return spec.Wrap(&altair.BeaconBlock{}) }, altair.BeaconBlockType(spec), false, 0}
	default:
		x := altair.SignedBeaconBlock{Message: altair.BeaconBlock{Slot: common.Slot(vTyU64()), ProposerIndex: common.ValidatorIndex(vTyU64()), ParentRoot: vTyRoot(), StateRoot: vTyRoot(), Body: vTyAltairBody(spec, zzverif.Choose(2))}, Signature: vTySig()}
		return vTyCase{"altair.SignedBeaconBlock", spec.Wrap(&x), func() common.SSZObj { return spec.Wrap(&altair.SignedBeaconBlock{}) }, altair.SignedBeaconBlockType(spec), false, 0}
	}
}

// VerifHarness_C04_types_altair: the C04 facts of vTyCheck (see VerifHarness_C04_types_common) for every SSZ type of
// package altair except BeaconState (C05), each as a standalone value; table at vTyAltairCase. Bounds: tiny preset;
// the sync-committee bit-vector types and the types embedding them additionally under SYNC_COMMITTEE_SIZE 32 and 512;
// operation lists of 0..1 elements; symbolic leaves.
func VerifHarness_C04_types_altair() {
	which := zzverif.Choose(vTyAltairCases)
	spec := vTySpec()
	vTyCheck(vTyAltairCase(spec, which))
}
