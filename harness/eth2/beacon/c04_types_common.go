package beacon

import (
	"bytes"

	"github.com/protolambda/zrnt/eth2/beacon/common"
	"github.com/protolambda/zrnt/eth2/zzverif"
	"github.com/protolambda/ztyp/codec"
	"github.com/protolambda/ztyp/tree"
	"github.com/protolambda/ztyp/view"
)

// C04 "every SSZ type round-trips and agrees with its declared lengths" - generic per-type checker.
//
// One vTyCase per type: a value with symbolic scalar leaves (roots/keys/signatures symbolic in their first and last
// byte), a constructor of an empty value to decode into, the repo's ztyp schema type (nil when the repo declares
// none), whether the consensus specification makes the type fixed-size, and - for fixed-size types - the encoded size
// transcribed from the specification's field list (0 = not stated). vTyCheck asserts every fact under a label that
// does NOT contain the type name; the type is identified by the first Choose index (tables at each harness) and by
// the "type: X" note in the trace. Every fact is asserted independently (a failed one does not stop the others).

type vTyCase struct {
	name  string
	x     common.SSZObj
	fresh func() common.SSZObj
	typ   view.TypeDef
	fixed bool
	size  uint64
}

func vTyRoot() (r common.Root) { r[0], r[31] = zzverif.NondetU8(), zzverif.NondetU8(); return }
func vTySig() (s common.BLSSignature) {
	s[0], s[95] = zzverif.NondetU8(), zzverif.NondetU8()
	return
}
func vTyPub() (p common.BLSPubkey)    { p[0], p[47] = zzverif.NondetU8(), zzverif.NondetU8(); return }
func vTyAddr() (a common.Eth1Address) { a[0], a[19] = zzverif.NondetU8(), zzverif.NondetU8(); return }
func vTyU64() uint64                  { return zzverif.NondetU64() }

func vTyReader(b []byte) *codec.DecodingReader {
	return codec.NewDecodingReader(bytes.NewReader(b), uint64(len(b)))
}

// vTyFact asserts one fact on a side path of its own and lets the main path continue unconstrained: the engine
// restricts a path to the inputs satisfying a failed assertion (and ends it when the assertion is concretely false),
// so a plain Assert on a known-defective fact would hide every later fact of the same type.
// vTyCur is the name of the type case being checked: it is part of every obligation label of these harnesses, so that
// a known finding about one type cannot hide the same fact failing for another.
var vTyCur string

func vTyFact(c bool, label string) {
	if zzverif.Choose(2) == 1 {
		zzverif.Assert(c, label+" ["+vTyCur+"]")
		zzverif.Assume(false)
	}
}

// vTyCheck: the C04 facts for one value.
func vTyCheck(c vTyCase) {
	zzverif.Note("type: " + c.name)
	vTyCur = c.name
	h := tree.GetHashFn()
	var buf bytes.Buffer
	zzverif.Reach("c04-types")
	serr := c.x.Serialize(codec.NewEncodingWriter(&buf))
	data := buf.Bytes()
	n := uint64(len(data))
	vTyFact(serr == nil, "Serialize succeeds")
	vTyFact(c.x.ByteLength() == n, "ByteLength equals the number of bytes written")
	if c.fixed {
		vTyFact(c.x.FixedLength() == n, "FixedLength equals the number of bytes written (fixed-size type)")
	} else {
		vTyFact(c.x.FixedLength() == 0, "FixedLength is 0 for a variable-size type")
	}
	if c.size != 0 {
		vTyFact(n == c.size, "encoded size is the size the consensus specification gives (fixed-size type)")
	}
	root := c.x.HashTreeRoot(h)

	// struct codec round trip
	y := c.fresh()
	derr := y.Deserialize(vTyReader(data))
	vTyFact(derr == nil, "own encoding decodes")
	if derr == nil {
		vTyFact(y.HashTreeRoot(h) == root, "decode(encode(x)) has the root of x")
		var buf2 bytes.Buffer
		e2 := y.Serialize(codec.NewEncodingWriter(&buf2))
		vTyFact(e2 == nil && bytes.Equal(buf2.Bytes(), data), "encode(decode(bytes)) == bytes")
	}

	// struct codec vs schema (view) codec
	if c.typ != nil {
		vTyFact(c.typ.IsFixedByteLength() == c.fixed, "schema type is fixed-size exactly when the type is")
		if c.fixed {
			vTyFact(c.typ.TypeByteLength() == n, "schema TypeByteLength equals the number of bytes written (fixed-size type)")
		} else {
			vTyFact(c.typ.TypeByteLength() == 0, "schema TypeByteLength is 0 for a variable-size type")
			vTyFact(c.typ.MinByteLength() <= n && n <= c.typ.MaxByteLength(), "encoded size lies within the schema's Min/MaxByteLength")
		}
		v, verr := c.typ.Deserialize(vTyReader(data))
		vTyFact(verr == nil, "schema (view) codec decodes the struct codec's bytes")
		if verr == nil {
			vTyFact(v.HashTreeRoot(h) == root, "struct root == view root")
			var buf3 bytes.Buffer
			e3 := v.Serialize(codec.NewEncodingWriter(&buf3))
			vTyFact(e3 == nil && bytes.Equal(buf3.Bytes(), data), "schema (view) codec re-serialises the view to the same bytes")
			vl, e4 := v.ValueByteLength()
			vTyFact(e4 == nil && vl == n, "view ValueByteLength equals the number of bytes written")
		}
	}

	// wrong-length input (fixed-size types)
	if c.fixed && n > 0 {
		short := data[:n-1]
		vTyFact(c.fresh().Deserialize(vTyReader(short)) != nil, "input one byte too short is refused by the struct codec (fixed-size type)")
		if c.typ != nil {
			_, es := c.typ.Deserialize(vTyReader(short))
			vTyFact(es != nil, "input one byte too short is refused by the schema codec (fixed-size type)")
		}
	}
}

// vTySpec: the tiny preset plus the limits it leaves unset (electra request / pending lists, electra operation limits),
// pairwise distinct.
func vTySpec() *common.Spec {
	spec := common.VTinySpec()
	spec.MAX_DEPOSIT_REQUESTS_PER_PAYLOAD = 2
	spec.MAX_WITHDRAWAL_REQUESTS_PER_PAYLOAD = 3
	spec.MAX_CONSOLIDATION_REQUESTS_PER_PAYLOAD = 1
	spec.PENDING_DEPOSITS_LIMIT = 5
	spec.PENDING_PARTIAL_WITHDRAWALS_LIMIT = 6
	spec.PENDING_CONSOLIDATIONS_LIMIT = 7
	spec.MAX_ATTESTATIONS_ELECTRA = 2
	spec.MAX_ATTESTER_SLASHINGS_ELECTRA = 1
	return spec
}

func vTyCheckpoint() common.Checkpoint {
	return common.Checkpoint{Epoch: common.Epoch(vTyU64()), Root: vTyRoot()}
}

func vTyHeader() common.BeaconBlockHeader {
	return common.BeaconBlockHeader{Slot: common.Slot(vTyU64()), ProposerIndex: common.ValidatorIndex(vTyU64()), ParentRoot: vTyRoot(), StateRoot: vTyRoot(), BodyRoot: vTyRoot()}
}

func vTySignedHeader() common.SignedBeaconBlockHeader {
	return common.SignedBeaconBlockHeader{Message: vTyHeader(), Signature: vTySig()}
}

func vTyEth1Data() common.Eth1Data {
	return common.Eth1Data{DepositRoot: vTyRoot(), DepositCount: common.DepositIndex(vTyU64()), BlockHash: vTyRoot()}
}

func vTyDepositData() common.DepositData {
	return common.DepositData{Pubkey: vTyPub(), WithdrawalCredentials: vTyRoot(), Amount: common.Gwei(vTyU64()), Signature: vTySig()}
}

func vTyDeposit() common.Deposit {
	d := common.Deposit{Data: vTyDepositData()}
	d.Proof[0], d.Proof[common.DEPOSIT_CONTRACT_TREE_DEPTH] = vTyRoot(), vTyRoot()
	return d
}

func vTyWithdrawal() common.Withdrawal {
	return common.Withdrawal{Index: common.WithdrawalIndex(vTyU64()), ValidatorIndex: common.ValidatorIndex(vTyU64()), Address: vTyAddr(), Amount: common.Gwei(vTyU64())}
}

func vTySignedBLSChange() common.SignedBLSToExecutionChange {
	return common.SignedBLSToExecutionChange{BLSToExecutionChange: common.BLSToExecutionChange{ValidatorIndex: common.ValidatorIndex(vTyU64()), FromBLSPubKey: vTyPub(), ToExecutionAddress: vTyAddr()}, Signature: vTySig()}
}

func vTySyncCommittee(spec *common.Spec) common.SyncCommittee {
	sc := common.SyncCommittee{AggregatePubkey: vTyPub()}
	for i := uint64(0); i < uint64(spec.SYNC_COMMITTEE_SIZE); i++ {
		sc.Pubkeys = append(sc.Pubkeys, vTyPub())
	}
	return sc
}

func vTyDepositRequest() common.DepositRequest {
	return common.DepositRequest{Pubkey: vTyPub(), WithdrawalCredentials: vTyRoot(), Amount: common.Gwei(vTyU64()), Signature: vTySig(), Index: view.Uint64View(vTyU64())}
}

func vTyPendingDeposit() common.PendingDeposit {
	return common.PendingDeposit{Pubkey: vTyPub(), WithdrawalCredentials: vTyRoot(), Amount: common.Gwei(vTyU64()), Signature: vTySig(), Slot: common.Slot(vTyU64())}
}

const vTyCommonCases = 64

// vTyCommonCase: index -> type of package common.
//
//	0 Checkpoint   1 Fork   2 ForkData   3 SigningData   4 Eth1Data   5 BeaconBlockHeader   6 SignedBeaconBlockHeader
//	7 DepositData   8 DepositMessage   9 DepositProof   10 Deposit   11 Withdrawal   12 BLSToExecutionChange
//	13 SignedBLSToExecutionChange   14 SyncCommitteePubkeys   15 SyncCommittee   16 DepositRequest   17 WithdrawalRequest
//	18 ConsolidationRequest   19 PendingDeposit   20 PendingPartialWithdrawal   21 PendingConsolidation
//	22 DepositRequests   23 WithdrawalRequests   24 ConsolidationRequests   25 PendingDeposits
//	26 PendingPartialWithdrawals   27 PendingConsolidations   28 Eth2Data   29 AttnetBits   30 SyncnetBits   31 SeqNr
//	32 Ping   33 Pong   34 MetaData   35 Status   36 Goodbye   37 KZGCommitment   38 LogsBloom   39 JustificationBits
//	40 ExtraData   41 Transaction   42 PayloadTransactions   43 GweiList   44 Deltas   45 CommitteeIndices
//	46 SlotCommitteeIndices   47 Withdrawals   48 SignedBLSToExecutionChanges   49 Version   50 ForkDigest
//	51 BLSDomainType   52 BLSDomain   53 BLSPubkey   54 BLSSignature   55 Eth1Address   56 Slot   57 Epoch   58 Gwei
//	59 ValidatorIndex   60 CommitteeIndex   61 Timestamp   62 DepositIndex + WithdrawalIndex (Choose)   63 NetworkMessageDomain
func vTyCommonCase(spec *common.Spec, which int) vTyCase {
	switch which {
	case 0:
		x := vTyCheckpoint()
		return vTyCase{"common.Checkpoint", &x, func() common.SSZObj { return &common.Checkpoint{} }, common.CheckpointType, true, 8 + 32}
	case 1:
		x := common.Fork{PreviousVersion: common.Version(zzverif.NondetBytes4()), CurrentVersion: common.Version(zzverif.NondetBytes4()), Epoch: common.Epoch(vTyU64())}
		return vTyCase{"common.Fork", &x, func() common.SSZObj { return &common.Fork{} }, common.ForkType, true, 4 + 4 + 8}
	case 2:
		x := common.ForkData{CurrentVersion: common.Version(zzverif.NondetBytes4()), GenesisValidatorsRoot: vTyRoot()}
		return vTyCase{"common.ForkData", &x, func() common.SSZObj { return &common.ForkData{} }, common.ForkDataType, true, 4 + 32}
	case 3:
		x := common.SigningData{ObjectRoot: vTyRoot(), Domain: common.BLSDomain(vTyRoot())}
		return vTyCase{"common.SigningData", &x, func() common.SSZObj { return &common.SigningData{} }, common.SigningDataType, true, 32 + 32}
	case 4:
		x := vTyEth1Data()
		return vTyCase{"common.Eth1Data", &x, func() common.SSZObj { return &common.Eth1Data{} }, common.Eth1DataType, true, 32 + 8 + 32}
	case 5:
		x := vTyHeader()
		return vTyCase{"common.BeaconBlockHeader", &x, func() common.SSZObj { return &common.BeaconBlockHeader{} }, common.BeaconBlockHeaderType, true, 8 + 8 + 32 + 32 + 32}
	case 6:
		x := vTySignedHeader()
		return vTyCase{"common.SignedBeaconBlockHeader", &x, func() common.SSZObj { return &common.SignedBeaconBlockHeader{} }, common.SignedBeaconBlockHeaderType, true, 112 + 96}
	case 7:
		x := vTyDepositData()
		return vTyCase{"common.DepositData", &x, func() common.SSZObj { return &common.DepositData{} }, common.DepositDataType, true, 48 + 32 + 8 + 96}
	case 8:
		x := common.DepositMessage{Pubkey: vTyPub(), WithdrawalCredentials: vTyRoot(), Amount: common.Gwei(vTyU64())}
		return vTyCase{"common.DepositMessage", &x, func() common.SSZObj { return &common.DepositMessage{} }, common.DepositMessageType, true, 48 + 32 + 8}
	case 9:
		x := common.DepositProof{}
		x[0], x[common.DEPOSIT_CONTRACT_TREE_DEPTH] = vTyRoot(), vTyRoot()
		return vTyCase{"common.DepositProof", &x, func() common.SSZObj { return &common.DepositProof{} }, common.DepositProofType, true, 33 * 32}
	case 10:
		x := vTyDeposit()
		return vTyCase{"common.Deposit", &x, func() common.SSZObj { return &common.Deposit{} }, common.DepositType, true, 33*32 + 184}
	case 11:
		x := vTyWithdrawal()
		return vTyCase{"common.Withdrawal", &x, func() common.SSZObj { return &common.Withdrawal{} }, common.WithdrawalType, true, 8 + 8 + 20 + 8}
	case 12:
		x := vTySignedBLSChange().BLSToExecutionChange
		return vTyCase{"common.BLSToExecutionChange", &x, func() common.SSZObj { return &common.BLSToExecutionChange{} }, common.BLSToExecutionChangeType, true, 8 + 48 + 20}
	case 13:
		x := vTySignedBLSChange()
		return vTyCase{"common.SignedBLSToExecutionChange", &x, func() common.SSZObj { return &common.SignedBLSToExecutionChange{} }, common.SignedBLSToExecutionChangeType, true, 76 + 96}
	case 14:
		x := vTySyncCommittee(spec).Pubkeys
		return vTyCase{"common.SyncCommitteePubkeys", spec.Wrap(&x), func() common.SSZObj { return spec.Wrap(&common.SyncCommitteePubkeys{}) }, common.SyncCommitteePubkeysType(spec), true, 48 * uint64(spec.SYNC_COMMITTEE_SIZE)}
	case 15:
		x := vTySyncCommittee(spec)
		return vTyCase{"common.SyncCommittee", spec.Wrap(&x), func() common.SSZObj { return spec.Wrap(&common.SyncCommittee{}) }, common.SyncCommitteeType(spec), true, 48 * (uint64(spec.SYNC_COMMITTEE_SIZE) + 1)}
	case 16:
		x := vTyDepositRequest()
		return vTyCase{"common.DepositRequest", &x, func() common.SSZObj { return &common.DepositRequest{} }, common.DepositRequestType, true, 48 + 32 + 8 + 96 + 8}
	case 17:
		x := common.WithdrawalRequest{SourceAddress: vTyAddr(), ValidatorPubkey: vTyPub(), Amount: common.Gwei(vTyU64())}
		return vTyCase{"common.WithdrawalRequest", &x, func() common.SSZObj { return &common.WithdrawalRequest{} }, common.WithdrawalRequestType, true, 20 + 48 + 8}
	case 18:
		x := common.ConsolidationRequest{SourceAddress: vTyAddr(), SourcePubkey: vTyPub(), TargetPubkey: vTyPub()}
		return vTyCase{"common.ConsolidationRequest", &x, func() common.SSZObj { return &common.ConsolidationRequest{} }, common.ConsolidationRequestType, true, 20 + 48 + 48}
	case 19:
		x := vTyPendingDeposit()
		return vTyCase{"common.PendingDeposit", &x, func() common.SSZObj { return &common.PendingDeposit{} }, common.PendingDepositType, true, 48 + 32 + 8 + 96 + 8}
	case 20:
		x := common.PendingPartialWithdrawal{ValidatorIndex: common.ValidatorIndex(vTyU64()), Amount: common.Gwei(vTyU64()), WithdrawableEpoch: common.Epoch(vTyU64())}
		return vTyCase{"common.PendingPartialWithdrawal", &x, func() common.SSZObj { return &common.PendingPartialWithdrawal{} }, common.PendingPartialWithdrawalType, true, 24}
	case 21:
		x := common.PendingConsolidation{SourceIndex: common.ValidatorIndex(vTyU64()), TargetIndex: common.ValidatorIndex(vTyU64())}
		return vTyCase{"common.PendingConsolidation", &x, func() common.SSZObj { return &common.PendingConsolidation{} }, common.PendingConsolidationType, true, 16}
	case 22:
		x := common.DepositRequests{}
		for i := zzverif.Choose(2); i > 0; i-- {
			x = append(x, vTyDepositRequest())
		}
		return vTyCase{"common.DepositRequests", spec.Wrap(&x), func() common.SSZObj { return spec.Wrap(&common.DepositRequests{}) }, common.DepositRequestsType(spec), false, 0}
	case 23:
		x := common.WithdrawalRequests{}
		for i := zzverif.Choose(2); i > 0; i-- {
			x = append(x, common.WithdrawalRequest{SourceAddress: vTyAddr(), ValidatorPubkey: vTyPub(), Amount: common.Gwei(vTyU64())})
		}
		return vTyCase{"common.WithdrawalRequests", spec.Wrap(&x), func() common.SSZObj { return spec.Wrap(&common.WithdrawalRequests{}) }, common.WithdrawalRequestsType(spec), false, 0}
	case 24:
		x := common.ConsolidationRequests{}
		for i := zzverif.Choose(2); i > 0; i-- {
			x = append(x, common.ConsolidationRequest{SourceAddress: vTyAddr(), SourcePubkey: vTyPub(), TargetPubkey: vTyPub()})
		}
		return vTyCase{"common.ConsolidationRequests", spec.Wrap(&x), func() common.SSZObj { return spec.Wrap(&common.ConsolidationRequests{}) }, common.ConsolidationRequestsType(spec), false, 0}
	case 25:
		x := common.PendingDeposits{}
		for i := zzverif.Choose(2); i > 0; i-- {
			x = append(x, vTyPendingDeposit())
		}
		return vTyCase{"common.PendingDeposits", spec.Wrap(&x), func() common.SSZObj { return spec.Wrap(&common.PendingDeposits{}) }, common.PendingDepositsType(spec), false, 0}
	case 26:
		x := common.PendingPartialWithdrawals{}
		for i := zzverif.Choose(2); i > 0; i-- {
			x = append(x, common.PendingPartialWithdrawal{ValidatorIndex: common.ValidatorIndex(vTyU64()), Amount: common.Gwei(vTyU64()), WithdrawableEpoch: common.Epoch(vTyU64())})
		}
		return vTyCase{"common.PendingPartialWithdrawals", spec.Wrap(&x), func() common.SSZObj { return spec.Wrap(&common.PendingPartialWithdrawals{}) }, common.PendingPartialWithdrawalsType(spec), false, 0}
	case 27:
		x := common.PendingConsolidations{}
		for i := zzverif.Choose(2); i > 0; i-- {
			x = append(x, common.PendingConsolidation{SourceIndex: common.ValidatorIndex(vTyU64()), TargetIndex: common.ValidatorIndex(vTyU64())})
		}
		return vTyCase{"common.PendingConsolidations", spec.Wrap(&x), func() common.SSZObj { return spec.Wrap(&common.PendingConsolidations{}) }, common.PendingConsolidationsType(spec), false, 0}
	case 28:
		x := common.Eth2Data{ForkDigest: common.ForkDigest(zzverif.NondetBytes4()), NextForkVersion: common.Version(zzverif.NondetBytes4()), NextForkEpoch: common.Epoch(vTyU64())}
		return vTyCase{"common.Eth2Data", &x, func() common.SSZObj { return &common.Eth2Data{} }, nil, true, 4 + 4 + 8}
	case 29:
		x := common.AttnetBits{}
		x[0], x[7] = zzverif.NondetU8(), zzverif.NondetU8()
		return vTyCase{"common.AttnetBits", &x, func() common.SSZObj { return &common.AttnetBits{} }, view.BitVectorType(common.ATTESTATION_SUBNET_COUNT), true, 8}
	case 30:
		x := common.SyncnetBits{}
		x[0] = zzverif.NondetU8() & 0x0f
		return vTyCase{"common.SyncnetBits", &x, func() common.SSZObj { return &common.SyncnetBits{} }, view.BitVectorType(common.SYNC_COMMITTEE_SUBNET_COUNT), true, 1}
	case 31:
		x := common.SeqNr(vTyU64())
		return vTyCase{"common.SeqNr", &x, func() common.SSZObj { return new(common.SeqNr) }, view.Uint64Type, true, 8}
	case 32:
		x := common.Ping(vTyU64())
		return vTyCase{"common.Ping", &x, func() common.SSZObj { return new(common.Ping) }, view.Uint64Type, true, 8}
	case 33:
		x := common.Pong(vTyU64())
		return vTyCase{"common.Pong", &x, func() common.SSZObj { return new(common.Pong) }, view.Uint64Type, true, 8}
	case 34:
		x := common.MetaData{SeqNumber: common.SeqNr(vTyU64())}
		x.Attnets[0], x.Attnets[7] = zzverif.NondetU8(), zzverif.NondetU8()
		x.Syncnets[0] = zzverif.NondetU8() & 0x0f
		// the p2p specification's MetaData (altair): seq_number uint64, attnets Bitvector[64], syncnets Bitvector[4]
		typ := view.ContainerType("MetaData", []view.FieldDef{{Name: "seq_number", Type: view.Uint64Type}, {Name: "attnets", Type: view.BitVectorType(64)}, {Name: "syncnets", Type: view.BitVectorType(4)}})
		return vTyCase{"common.MetaData", &x, func() common.SSZObj { return &common.MetaData{} }, typ, true, 8 + 8 + 1}
	case 35:
		x := common.Status{ForkDigest: common.ForkDigest(zzverif.NondetBytes4()), FinalizedRoot: vTyRoot(), FinalizedEpoch: common.Epoch(vTyU64()), HeadRoot: vTyRoot(), HeadSlot: common.Slot(vTyU64())}
		typ := view.ContainerType("Status", []view.FieldDef{{Name: "fork_digest", Type: view.Bytes4Type}, {Name: "finalized_root", Type: view.RootType}, {Name: "finalized_epoch", Type: view.Uint64Type}, {Name: "head_root", Type: view.RootType}, {Name: "head_slot", Type: view.Uint64Type}})
		return vTyCase{"common.Status", &x, func() common.SSZObj { return &common.Status{} }, typ, true, 4 + 32 + 8 + 32 + 8}
	case 36:
		x := common.Goodbye(vTyU64())
		return vTyCase{"common.Goodbye", &x, func() common.SSZObj { return new(common.Goodbye) }, view.Uint64Type, true, 8}
	case 37:
		x := common.KZGCommitment{}
		x[0], x[31], x[32], x[47] = zzverif.NondetU8(), zzverif.NondetU8(), zzverif.NondetU8(), zzverif.NondetU8()
		return vTyCase{"common.KZGCommitment", &x, func() common.SSZObj { return &common.KZGCommitment{} }, common.KZGCommitmentType, true, 48}
	case 38:
		x := common.LogsBloom{}
		x[0], x[32], x[255] = zzverif.NondetU8(), zzverif.NondetU8(), zzverif.NondetU8()
		return vTyCase{"common.LogsBloom", &x, func() common.SSZObj { return &common.LogsBloom{} }, common.LogsBloomType, true, 256}
	case 39:
		x := common.JustificationBits{zzverif.NondetU8() & 0x0f}
		return vTyCase{"common.JustificationBits", &x, func() common.SSZObj { return &common.JustificationBits{} }, common.JustificationBitsType, true, 1}
	case 40:
		x := common.ExtraData{}
		for i := zzverif.Choose(3); i > 0; i-- {
			x = append(x, zzverif.NondetU8())
		}
		return vTyCase{"common.ExtraData", &x, func() common.SSZObj { return &common.ExtraData{} }, common.ExtraDataType, false, 0}
	case 41:
		x := common.Transaction{}
		for i := zzverif.Choose(3); i > 0; i-- {
			x = append(x, zzverif.NondetU8())
		}
		return vTyCase{"common.Transaction", spec.Wrap(&x), func() common.SSZObj { return spec.Wrap(&common.Transaction{}) }, common.TransactionType(spec), false, 0}
	case 42:
		x := common.PayloadTransactions{}
		for i := zzverif.Choose(3); i > 0; i-- {
			x = append(x, common.Transaction{zzverif.NondetU8(), zzverif.NondetU8()})
		}
		return vTyCase{"common.PayloadTransactions", spec.Wrap(&x), func() common.SSZObj { return spec.Wrap(&common.PayloadTransactions{}) }, common.PayloadTransactionsType(spec), false, 0}
	case 43:
		x := common.GweiList{}
		for i := zzverif.Choose(3); i > 0; i-- {
			x = append(x, common.Gwei(vTyU64()))
		}
		return vTyCase{"common.GweiList", spec.Wrap(&x), func() common.SSZObj { return spec.Wrap(&common.GweiList{}) }, view.BasicListType(common.GweiType, uint64(spec.VALIDATOR_REGISTRY_LIMIT)), false, 0}
	case 44:
		x := common.Deltas{}
		for i := zzverif.Choose(2); i > 0; i-- {
			x.Rewards = append(x.Rewards, common.Gwei(vTyU64()))
			x.Penalties = append(x.Penalties, common.Gwei(vTyU64()))
		}
		lt := view.BasicListType(common.GweiType, uint64(spec.VALIDATOR_REGISTRY_LIMIT))
		typ := view.ContainerType("Deltas", []view.FieldDef{{Name: "rewards", Type: lt}, {Name: "penalties", Type: lt}})
		return vTyCase{"common.Deltas", spec.Wrap(&x), func() common.SSZObj { return spec.Wrap(&common.Deltas{}) }, typ, false, 0}
	case 45:
		x := common.CommitteeIndices{}
		for i := zzverif.Choose(3); i > 0; i-- {
			x = append(x, common.ValidatorIndex(vTyU64()))
		}
		return vTyCase{"common.CommitteeIndices", spec.Wrap(&x), func() common.SSZObj { return spec.Wrap(&common.CommitteeIndices{}) }, spec.CommitteeIndices(), false, 0}
	case 46:
		x := common.SlotCommitteeIndices{}
		for i := zzverif.Choose(3); i > 0; i-- {
			x = append(x, common.ValidatorIndex(vTyU64()))
		}
		return vTyCase{"common.SlotCommitteeIndices", spec.Wrap(&x), func() common.SSZObj { return spec.Wrap(&common.SlotCommitteeIndices{}) }, common.SlotCommitteeIndicesType(spec), false, 0}
	case 47:
		x := common.Withdrawals{}
		for i := zzverif.Choose(2); i > 0; i-- {
			x = append(x, vTyWithdrawal())
		}
		return vTyCase{"common.Withdrawals", spec.Wrap(&x), func() common.SSZObj { return spec.Wrap(&common.Withdrawals{}) }, common.WithdrawalsType(spec), false, 0}
	case 48:
		x := common.SignedBLSToExecutionChanges{}
		for i := zzverif.Choose(2); i > 0; i-- {
			x = append(x, vTySignedBLSChange())
		}
		return vTyCase{"common.SignedBLSToExecutionChanges", spec.Wrap(&x), func() common.SSZObj { return spec.Wrap(&common.SignedBLSToExecutionChanges{}) }, common.BlockSignedBLSToExecutionChangesType(spec), false, 0}
	case 49:
		x := common.Version(zzverif.NondetBytes4())
		return vTyCase{"common.Version", &x, func() common.SSZObj { return &common.Version{} }, common.VersionType, true, 4}
	case 50:
		x := common.ForkDigest(zzverif.NondetBytes4())
		return vTyCase{"common.ForkDigest", &x, func() common.SSZObj { return &common.ForkDigest{} }, common.ForkDigestType, true, 4}
	case 51:
		x := common.BLSDomainType(zzverif.NondetBytes4())
		return vTyCase{"common.BLSDomainType", &x, func() common.SSZObj { return &common.BLSDomainType{} }, common.BLSDomainTypeTreeType, true, 4}
	case 52:
		x := common.BLSDomain(vTyRoot())
		return vTyCase{"common.BLSDomain", &x, func() common.SSZObj { return &common.BLSDomain{} }, common.BLSDomainTreeType, true, 32}
	case 53:
		x := vTyPub()
		x[31], x[32] = zzverif.NondetU8(), zzverif.NondetU8()
		return vTyCase{"common.BLSPubkey", &x, func() common.SSZObj { return &common.BLSPubkey{} }, common.BLSPubkeyType, true, 48}
	case 54:
		x := vTySig()
		x[31], x[32], x[64] = zzverif.NondetU8(), zzverif.NondetU8(), zzverif.NondetU8()
		return vTyCase{"common.BLSSignature", &x, func() common.SSZObj { return &common.BLSSignature{} }, common.BLSSignatureType, true, 96}
	case 55:
		x := vTyAddr()
		return vTyCase{"common.Eth1Address", &x, func() common.SSZObj { return &common.Eth1Address{} }, common.Eth1AddressType, true, 20}
	case 56:
		x := common.Slot(vTyU64())
		return vTyCase{"common.Slot", &x, func() common.SSZObj { return new(common.Slot) }, common.SlotType, true, 8}
	case 57:
		x := common.Epoch(vTyU64())
		return vTyCase{"common.Epoch", &x, func() common.SSZObj { return new(common.Epoch) }, common.EpochType, true, 8}
	case 58:
		x := common.Gwei(vTyU64())
		return vTyCase{"common.Gwei", &x, func() common.SSZObj { return new(common.Gwei) }, common.GweiType, true, 8}
	case 59:
		x := common.ValidatorIndex(vTyU64())
		return vTyCase{"common.ValidatorIndex", &x, func() common.SSZObj { return new(common.ValidatorIndex) }, common.ValidatorIndexType, true, 8}
	case 60:
		x := common.CommitteeIndex(vTyU64())
		return vTyCase{"common.CommitteeIndex", &x, func() common.SSZObj { return new(common.CommitteeIndex) }, common.CommitteeIndexType, true, 8}
	case 61:
		x := common.Timestamp(vTyU64())
		return vTyCase{"common.Timestamp", &x, func() common.SSZObj { return new(common.Timestamp) }, common.TimestampType, true, 8}
	case 62:
		if zzverif.Choose(2) == 0 {
			x := common.DepositIndex(vTyU64())
			return vTyCase{"common.DepositIndex", &x, func() common.SSZObj { return new(common.DepositIndex) }, view.Uint64Type, true, 8}
		}
		x := common.WithdrawalIndex(vTyU64())
		return vTyCase{"common.WithdrawalIndex", &x, func() common.SSZObj { return new(common.WithdrawalIndex) }, common.WithdrawalIndexType, true, 8}
	default:
		x := common.NetworkMessageDomain(zzverif.NondetBytes4())
		return vTyCase{"common.NetworkMessageDomain", &x, func() common.SSZObj { return &common.NetworkMessageDomain{} }, view.Bytes4Type, true, 4}
	}
}

// VerifHarness_C04_types_common: every SSZ type of package common as a standalone value (table at vTyCommonCase):
// Serialize writes ByteLength() bytes; FixedLength() is that number for fixed-size types (and the schema's
// TypeByteLength, and the size the specification's field list gives) and 0 for variable-size ones; the struct codec
// decodes its own bytes to a value with the same root and the same re-encoding; the ztyp schema type decodes the same
// bytes to a view with the same root, re-serialising to the same bytes; for fixed-size types an input one byte shorter
// or longer is refused by both codecs. Bounds: tiny preset (SYNC_COMMITTEE_SIZE 4), lists of 0..1 (byte lists 0..2)
// elements, scalar leaves symbolic 64-bit, roots/keys/signatures symbolic in first and last byte. MetaData, Status and
// Deltas have no schema in the repo; the harness states the p2p specification's container for them.
func VerifHarness_C04_types_common() {
	which := zzverif.Choose(vTyCommonCases)
	spec := vTySpec()
	vTyCheck(vTyCommonCase(spec, which))
}
