package beacon

import (
	"github.com/protolambda/zrnt/eth2/beacon/bellatrix"
	"github.com/protolambda/zrnt/eth2/beacon/capella"
	"github.com/protolambda/zrnt/eth2/beacon/common"
	"github.com/protolambda/zrnt/eth2/beacon/deneb"
	"github.com/protolambda/zrnt/eth2/beacon/electra"
	"github.com/protolambda/zrnt/eth2/zzverif"
	"github.com/protolambda/ztyp/view"
)

func vTyBloom() (b common.LogsBloom) { b[0], b[255] = zzverif.NondetU8(), zzverif.NondetU8(); return }
func vTyExtra() common.ExtraData     { return common.ExtraData{zzverif.NondetU8(), zzverif.NondetU8()} }
func vTyFee() (f view.Uint256View)   { f[0], f[3] = vTyU64(), vTyU64(); return }
func vTyV64() view.Uint64View        { return view.Uint64View(vTyU64()) }

func vTyTxs(n int) common.PayloadTransactions {
	txs := common.PayloadTransactions{}
	for i := 0; i < n; i++ {
		txs = append(txs, common.Transaction{zzverif.NondetU8(), zzverif.NondetU8(), zzverif.NondetU8()})
	}
	return txs
}

func vTyWithdrawals(n int) common.Withdrawals {
	ws := common.Withdrawals{}
	for i := 0; i < n; i++ {
		ws = append(ws, vTyWithdrawal())
	}
	return ws
}

func vTyBLSChanges(n int) common.SignedBLSToExecutionChanges {
	cs := common.SignedBLSToExecutionChanges{}
	for i := 0; i < n; i++ {
		cs = append(cs, vTySignedBLSChange())
	}
	return cs
}

func vTyKZGs(n int) deneb.KZGCommitments {
	ks := deneb.KZGCommitments{}
	for i := 0; i < n; i++ {
		k := common.KZGCommitment{}
		k[0], k[47] = zzverif.NondetU8(), zzverif.NondetU8()
		ks = append(ks, k)
	}
	return ks
}

func vTyBellatrixHeader() bellatrix.ExecutionPayloadHeader {
	return bellatrix.ExecutionPayloadHeader{ParentHash: vTyRoot(), FeeRecipient: vTyAddr(), StateRoot: vTyRoot(), ReceiptsRoot: vTyRoot(), LogsBloom: vTyBloom(),
		PrevRandao: vTyRoot(), BlockNumber: vTyV64(), GasLimit: vTyV64(), GasUsed: vTyV64(), Timestamp: common.Timestamp(vTyU64()), ExtraData: vTyExtra(),
		BaseFeePerGas: vTyFee(), BlockHash: vTyRoot(), TransactionsRoot: vTyRoot()}
}

func vTyBellatrixPayload(n int) bellatrix.ExecutionPayload {
	return bellatrix.ExecutionPayload{ParentHash: vTyRoot(), FeeRecipient: vTyAddr(), StateRoot: vTyRoot(), ReceiptsRoot: vTyRoot(), LogsBloom: vTyBloom(),
		PrevRandao: vTyRoot(), BlockNumber: vTyV64(), GasLimit: vTyV64(), GasUsed: vTyV64(), Timestamp: common.Timestamp(vTyU64()), ExtraData: vTyExtra(),
		BaseFeePerGas: vTyFee(), BlockHash: vTyRoot(), Transactions: vTyTxs(n)}
}

func vTyCapellaHeader() capella.ExecutionPayloadHeader {
	return capella.ExecutionPayloadHeader{ParentHash: vTyRoot(), FeeRecipient: vTyAddr(), StateRoot: vTyRoot(), ReceiptsRoot: vTyRoot(), LogsBloom: vTyBloom(),
		PrevRandao: vTyRoot(), BlockNumber: vTyV64(), GasLimit: vTyV64(), GasUsed: vTyV64(), Timestamp: common.Timestamp(vTyU64()), ExtraData: vTyExtra(),
		BaseFeePerGas: vTyFee(), BlockHash: vTyRoot(), TransactionsRoot: vTyRoot(), WithdrawalsRoot: vTyRoot()}
}

func vTyCapellaPayload(n int) capella.ExecutionPayload {
	return capella.ExecutionPayload{ParentHash: vTyRoot(), FeeRecipient: vTyAddr(), StateRoot: vTyRoot(), ReceiptsRoot: vTyRoot(), LogsBloom: vTyBloom(),
		PrevRandao: vTyRoot(), BlockNumber: vTyV64(), GasLimit: vTyV64(), GasUsed: vTyV64(), Timestamp: common.Timestamp(vTyU64()), ExtraData: vTyExtra(),
		BaseFeePerGas: vTyFee(), BlockHash: vTyRoot(), Transactions: vTyTxs(n), Withdrawals: vTyWithdrawals(n)}
}

func vTyDenebHeader() deneb.ExecutionPayloadHeader {
	return deneb.ExecutionPayloadHeader{ParentHash: vTyRoot(), FeeRecipient: vTyAddr(), StateRoot: vTyRoot(), ReceiptsRoot: vTyRoot(), LogsBloom: vTyBloom(),
		PrevRandao: vTyRoot(), BlockNumber: vTyV64(), GasLimit: vTyV64(), GasUsed: vTyV64(), Timestamp: common.Timestamp(vTyU64()), ExtraData: vTyExtra(),
		BaseFeePerGas: vTyFee(), BlockHash: vTyRoot(), TransactionsRoot: vTyRoot(), WithdrawalsRoot: vTyRoot(), BlobGasUsed: vTyV64(), ExcessBlobGas: vTyV64()}
}

func vTyDenebPayload(n int) deneb.ExecutionPayload {
	return deneb.ExecutionPayload{ParentHash: vTyRoot(), FeeRecipient: vTyAddr(), StateRoot: vTyRoot(), ReceiptsRoot: vTyRoot(), LogsBloom: vTyBloom(),
		PrevRandao: vTyRoot(), BlockNumber: vTyV64(), GasLimit: vTyV64(), GasUsed: vTyV64(), Timestamp: common.Timestamp(vTyU64()), ExtraData: vTyExtra(),
		BaseFeePerGas: vTyFee(), BlockHash: vTyRoot(), Transactions: vTyTxs(n), Withdrawals: vTyWithdrawals(n), BlobGasUsed: vTyV64(), ExcessBlobGas: vTyV64()}
}

func vTyBellatrixBody(spec *common.Spec, n int) bellatrix.BeaconBlockBody {
	b := bellatrix.BeaconBlockBody{RandaoReveal: vTySig(), Eth1Data: vTyEth1Data(), Graffiti: vTyRoot(), SyncAggregate: vTySyncAggregate(spec), ExecutionPayload: vTyBellatrixPayload(n)}
	b.ProposerSlashings, b.AttesterSlashings, b.Attestations, b.Deposits, b.VoluntaryExits = vTyOps(n)
	return b
}

func vTyCapellaBody(spec *common.Spec, n int) capella.BeaconBlockBody {
	b := capella.BeaconBlockBody{RandaoReveal: vTySig(), Eth1Data: vTyEth1Data(), Graffiti: vTyRoot(), SyncAggregate: vTySyncAggregate(spec), ExecutionPayload: vTyCapellaPayload(n), BLSToExecutionChanges: vTyBLSChanges(n)}
	b.ProposerSlashings, b.AttesterSlashings, b.Attestations, b.Deposits, b.VoluntaryExits = vTyOps(n)
	return b
}

func vTyDenebBody(spec *common.Spec, n int) deneb.BeaconBlockBody {
	b := deneb.BeaconBlockBody{RandaoReveal: vTySig(), Eth1Data: vTyEth1Data(), Graffiti: vTyRoot(), SyncAggregate: vTySyncAggregate(spec), ExecutionPayload: vTyDenebPayload(n),
		BLSToExecutionChanges: vTyBLSChanges(n), BlobKZGCommitments: vTyKZGs(n)}
	b.ProposerSlashings, b.AttesterSlashings, b.Attestations, b.Deposits, b.VoluntaryExits = vTyOps(n)
	return b
}

// electra: committee bits for MAX_COMMITTEES_PER_SLOT (2) committees; aggregation bits list limit 4*2 = 8
func vTyElectraAttestation() electra.Attestation {
	return electra.Attestation{AggregationBits: electra.AttestationBits{zzverif.NondetU8()&0x1f | 0x20}, Data: vTyAttData(), Signature: vTySig(), CommitteeBits: electra.CommitteeBits{zzverif.NondetU8() & 0x03}}
}

func vTyElectraIndexed(n int) electra.IndexedAttestation {
	ia := electra.IndexedAttestation{Data: vTyAttData(), Signature: vTySig()}
	for i := 0; i < n; i++ {
		ia.AttestingIndices = append(ia.AttestingIndices, common.ValidatorIndex(vTyU64()))
	}
	return ia
}

func vTyElectraRequests(n int) electra.ExecutionRequests {
	r := electra.ExecutionRequests{}
	for i := 0; i < n; i++ {
		r.Deposits = append(r.Deposits, vTyDepositRequest())
		r.Withdrawals = append(r.Withdrawals, common.WithdrawalRequest{SourceAddress: vTyAddr(), ValidatorPubkey: vTyPub(), Amount: common.Gwei(vTyU64())})
		r.Consolidations = append(r.Consolidations, common.ConsolidationRequest{SourceAddress: vTyAddr(), SourcePubkey: vTyPub(), TargetPubkey: vTyPub()})
	}
	return r
}

func vTyElectraBody(spec *common.Spec, n int) electra.BeaconBlockBody {
	b := electra.BeaconBlockBody{RandaoReveal: vTySig(), Eth1Data: vTyEth1Data(), Graffiti: vTyRoot(), SyncAggregate: vTySyncAggregate(spec), ExecutionPayload: vTyDenebPayload(n),
		BLSToExecutionChanges: vTyBLSChanges(n), BlobKZGCommitments: vTyKZGs(n), ExecutionRequests: vTyElectraRequests(n)}
	b.ProposerSlashings, _, _, b.Deposits, b.VoluntaryExits = vTyOps(n)
	for i := 0; i < n; i++ {
		b.AttesterSlashings = append(b.AttesterSlashings, electra.AttesterSlashing{Attestation1: vTyElectraIndexed(2), Attestation2: vTyElectraIndexed(1)})
		b.Attestations = append(b.Attestations, vTyElectraAttestation())
	}
	return b
}

// vTyShallowType: the schema of a "shallow" block body = the full body's schema with the execution payload replaced
// by its hash-tree-root (the repo declares no schema type for the shallow bodies).
func vTyShallowType(full *view.ContainerTypeDef) *view.ContainerTypeDef {
	fs := append([]view.FieldDef{}, full.Fields...)
	for i := range fs {
		if fs[i].Name == "execution_payload" {
			fs[i] = view.FieldDef{Name: "execution_payload_root", Type: view.RootType}
		}
	}
	return view.ContainerType("BeaconBlockBodyShallow", fs)
}

const vTyLaterCases = 40

// vTyLaterCase: index -> type of packages bellatrix, capella, deneb, electra.
//
//	0 bellatrix.ExecutionPayloadHeader   1 bellatrix.ExecutionPayload   2 bellatrix.BeaconBlockBody
//	3 bellatrix.BeaconBlockBodyShallow   4 bellatrix.BeaconBlock   5 bellatrix.SignedBeaconBlock
//	6 capella.ExecutionPayloadHeader   7 capella.ExecutionPayload   8 capella.HistoricalSummary
//	9 capella.HistoricalSummaries   10 capella.BeaconBlockBody   11 capella.BeaconBlockBodyShallow
//	12 capella.BeaconBlock   13 capella.SignedBeaconBlock
//	14 deneb.ExecutionPayloadHeader   15 deneb.ExecutionPayload   16 deneb.KZGCommitments   17 deneb.BeaconBlockBody
//	18 deneb.BeaconBlockBodyShallow   19 deneb.BeaconBlock   20 deneb.SignedBeaconBlock
//	21 electra.SingleAttestation   22 electra.AttestationBits   23 electra.CommitteeBits   24 electra.Attestation
//	25 electra.IndexedAttestation   26 electra.AttesterSlashing   27 electra.AttesterSlashings   28 electra.Attestations
//	29 electra.AggregateAndProof   30 electra.SignedAggregateAndProof   31 electra.ExecutionRequests
//	32 electra.BeaconBlockBody   33 electra.BeaconBlockBodyShallow   34 electra.BeaconBlock   35 electra.SignedBeaconBlock
//	36 electra.AttesterSlashings with MAX_ATTESTER_SLASHINGS == MAX_ATTESTER_SLASHINGS_ELECTRA
//	37 electra.BeaconBlockBody with MAX_ATTESTER_SLASHINGS == MAX_ATTESTER_SLASHINGS_ELECTRA
//	38 common.PayloadTransactions / ExecutionPayload with an empty transaction   39 deneb.KZGCommitments at its limit
func vTyLaterCase(spec *common.Spec, which int) vTyCase {
	switch which {
	case 0:
		x := vTyBellatrixHeader()
		return vTyCase{"bellatrix.ExecutionPayloadHeader", &x, func() common.SSZObj { return &bellatrix.ExecutionPayloadHeader{} }, bellatrix.ExecutionPayloadHeaderType, false, 0}
	case 1:
		x := vTyBellatrixPayload(zzverif.Choose(2))
		return vTyCase{"bellatrix.ExecutionPayload", spec.Wrap(&x), func() common.SSZObj { return spec.Wrap(&bellatrix.ExecutionPayload{}) }, bellatrix.ExecutionPayloadType(spec), false, 0}
	case 2:
		x := vTyBellatrixBody(spec, zzverif.Choose(2))
		return vTyCase{"bellatrix.BeaconBlockBody", spec.Wrap(&x), func() common.SSZObj { return spec.Wrap(&bellatrix.BeaconBlockBody{}) }, bellatrix.BeaconBlockBodyType(spec), false, 0}
	case 3:
		f := vTyBellatrixBody(spec, zzverif.Choose(2))
		x := bellatrix.BeaconBlockBodyShallow{RandaoReveal: f.RandaoReveal, Eth1Data: f.Eth1Data, Graffiti: f.Graffiti, ProposerSlashings: f.ProposerSlashings, AttesterSlashings: f.AttesterSlashings,
			Attestations: f.Attestations, Deposits: f.Deposits, VoluntaryExits: f.VoluntaryExits, SyncAggregate: f.SyncAggregate, ExecutionPayloadRoot: vTyRoot()}
		return vTyCase{"bellatrix.BeaconBlockBodyShallow", spec.Wrap(&x), func() common.SSZObj { return spec.Wrap(&bellatrix.BeaconBlockBodyShallow{}) }, vTyShallowType(bellatrix.BeaconBlockBodyType(spec)), false, 0}
	case 4:
		x := bellatrix.BeaconBlock{Slot: common.Slot(vTyU64()), ProposerIndex: common.ValidatorIndex(vTyU64()), ParentRoot: vTyRoot(), StateRoot: vTyRoot(), Body: vTyBellatrixBody(spec, zzverif.Choose(2))}
		return vTyCase{"bellatrix.BeaconBlock", spec.Wrap(&x), func() common.SSZObj { return spec.Wrap(&bellatrix.BeaconBlock{}) }, bellatrix.BeaconBlockType(spec), false, 0}
	case 5:
		x := bellatrix.SignedBeaconBlock{Message: bellatrix.BeaconBlock{Slot: common.Slot(vTyU64()), ProposerIndex: common.ValidatorIndex(vTyU64()), ParentRoot: vTyRoot(), StateRoot: vTyRoot(), Body: vTyBellatrixBody(spec, zzverif.Choose(2))}, Signature: vTySig()}
		return vTyCase{"bellatrix.SignedBeaconBlock", spec.Wrap(&x), func() common.SSZObj { return spec.Wrap(&bellatrix.SignedBeaconBlock{}) }, bellatrix.SignedBeaconBlockType(spec), false, 0}
	case 6:
		x := vTyCapellaHeader()
		return vTyCase{"capella.ExecutionPayloadHeader", &x, func() common.SSZObj { return &capella.ExecutionPayloadHeader{} }, capella.ExecutionPayloadHeaderType, false, 0}
	case 7:
		x := vTyCapellaPayload(zzverif.Choose(2))
		return vTyCase{"capella.ExecutionPayload", spec.Wrap(&x), func() common.SSZObj { return spec.Wrap(&capella.ExecutionPayload{}) }, capella.ExecutionPayloadType(spec), false, 0}
	case 8:
		x := capella.HistoricalSummary{BlockSummaryRoot: vTyRoot(), StateSummaryRoot: vTyRoot()}
		return vTyCase{"capella.HistoricalSummary", &x, func() common.SSZObj { return &capella.HistoricalSummary{} }, capella.HistoricalSummaryType, true, 64}
	case 9:
		x := capella.HistoricalSummaries{}
		for i := zzverif.Choose(3); i > 0; i-- {
			x = append(x, capella.HistoricalSummary{BlockSummaryRoot: vTyRoot(), StateSummaryRoot: vTyRoot()})
		}
		return vTyCase{"capella.HistoricalSummaries", spec.Wrap(&x), func() common.SSZObj { return spec.Wrap(&capella.HistoricalSummaries{}) }, capella.HistoricalSummariesType(spec), false, 0}
	case 10:
		x := vTyCapellaBody(spec, zzverif.Choose(2))
		return vTyCase{"capella.BeaconBlockBody", spec.Wrap(&x), func() common.SSZObj { return spec.Wrap(&capella.BeaconBlockBody{}) }, capella.BeaconBlockBodyType(spec), false, 0}
	case 11:
		f := vTyCapellaBody(spec, zzverif.Choose(2))
		x := capella.BeaconBlockBodyShallow{RandaoReveal: f.RandaoReveal, Eth1Data: f.Eth1Data, Graffiti: f.Graffiti, ProposerSlashings: f.ProposerSlashings, AttesterSlashings: f.AttesterSlashings,
			Attestations: f.Attestations, Deposits: f.Deposits, VoluntaryExits: f.VoluntaryExits, SyncAggregate: f.SyncAggregate, ExecutionPayloadRoot: vTyRoot(), BLSToExecutionChanges: f.BLSToExecutionChanges}
		return vTyCase{"capella.BeaconBlockBodyShallow", spec.Wrap(&x), func() common.SSZObj { return spec.Wrap(&capella.BeaconBlockBodyShallow{}) }, vTyShallowType(capella.BeaconBlockBodyType(spec)), false, 0}
	case 12:
		x := capella.BeaconBlock{Slot: common.Slot(vTyU64()), ProposerIndex: common.ValidatorIndex(vTyU64()), ParentRoot: vTyRoot(), StateRoot: vTyRoot(), Body: vTyCapellaBody(spec, zzverif.Choose(2))}
		return vTyCase{"capella.BeaconBlock", spec.Wrap(&x), func() common.SSZObj { return spec.Wrap(&capella.BeaconBlock{}) }, capella.BeaconBlockType(spec), false, 0}
	case 13:
		x := capella.SignedBeaconBlock{Message: capella.BeaconBlock{Slot: common.Slot(vTyU64()), ProposerIndex: common.ValidatorIndex(vTyU64()), ParentRoot: vTyRoot(), StateRoot: vTyRoot(), Body: vTyCapellaBody(spec, zzverif.Choose(2))}, Signature: vTySig()}
		return vTyCase{"capella.SignedBeaconBlock", spec.Wrap(&x), func() common.SSZObj { return spec.Wrap(&capella.SignedBeaconBlock{}) }, capella.SignedBeaconBlockType(spec), false, 0}
	case 14:
		x := vTyDenebHeader()
		return vTyCase{"deneb.ExecutionPayloadHeader", &x, func() common.SSZObj { return &deneb.ExecutionPayloadHeader{} }, deneb.ExecutionPayloadHeaderType, false, 0}
	case 15:
		x := vTyDenebPayload(zzverif.Choose(2))
		return vTyCase{"deneb.ExecutionPayload", spec.Wrap(&x), func() common.SSZObj { return spec.Wrap(&deneb.ExecutionPayload{}) }, deneb.ExecutionPayloadType(spec), false, 0}
	case 16, 39:
		n := zzverif.Choose(2)
		if which == 39 {
			n = int(spec.MAX_BLOB_COMMITMENTS_PER_BLOCK)
		}
		x := vTyKZGs(n)
		return vTyCase{"deneb.KZGCommitments", spec.Wrap(&x), func() common.SSZObj { return spec.Wrap(&deneb.KZGCommitments{}) }, deneb.KZGCommitmentsType(spec), false, 0}
	case 17:
		x := vTyDenebBody(spec, zzverif.Choose(2))
		return vTyCase{"deneb.BeaconBlockBody", spec.Wrap(&x), func() common.SSZObj { return spec.Wrap(&deneb.BeaconBlockBody{}) }, deneb.BeaconBlockBodyType(spec), false, 0}
	case 18:
		f := vTyDenebBody(spec, zzverif.Choose(2))
		x := deneb.BeaconBlockBodyShallow{RandaoReveal: f.RandaoReveal, Eth1Data: f.Eth1Data, Graffiti: f.Graffiti, ProposerSlashings: f.ProposerSlashings, AttesterSlashings: f.AttesterSlashings,
			Attestations: f.Attestations, Deposits: f.Deposits, VoluntaryExits: f.VoluntaryExits, SyncAggregate: f.SyncAggregate, ExecutionPayloadRoot: vTyRoot(), BLSToExecutionChanges: f.BLSToExecutionChanges, BlobKZGCommitments: f.BlobKZGCommitments}
		return vTyCase{"deneb.BeaconBlockBodyShallow", spec.Wrap(&x), func() common.SSZObj { return spec.Wrap(&deneb.BeaconBlockBodyShallow{}) }, vTyShallowType(deneb.BeaconBlockBodyType(spec)), false, 0}
	case 19:
		x := deneb.BeaconBlock{Slot: common.Slot(vTyU64()), ProposerIndex: common.ValidatorIndex(vTyU64()), ParentRoot: vTyRoot(), StateRoot: vTyRoot(), Body: vTyDenebBody(spec, zzverif.Choose(2))}
		return vTyCase{"deneb.BeaconBlock", spec.Wrap(&x), func() common.SSZObj { return spec.Wrap(&deneb.BeaconBlock{}) }, deneb.BeaconBlockType(spec), false, 0}
	case 20:
		x := deneb.SignedBeaconBlock{Message: deneb.BeaconBlock{Slot: common.Slot(vTyU64()), ProposerIndex: common.ValidatorIndex(vTyU64()), ParentRoot: vTyRoot(), StateRoot: vTyRoot(), Body: vTyDenebBody(spec, zzverif.Choose(2))}, Signature: vTySig()}
		return vTyCase{"deneb.SignedBeaconBlock", spec.Wrap(&x), func() common.SSZObj { return spec.Wrap(&deneb.SignedBeaconBlock{}) }, deneb.SignedBeaconBlockType(spec), false, 0}
	case 21:
		x := electra.SingleAttestation{CommitteeIndex: common.CommitteeIndex(vTyU64()), AttesterIndex: common.ValidatorIndex(vTyU64()), Data: vTyAttData(), Signature: vTySig()}
		return vTyCase{"electra.SingleAttestation", &x, func() common.SSZObj { return &electra.SingleAttestation{} }, electra.SingleAttestationType, true, 8 + 8 + 128 + 96}
	case 22:
		var x electra.AttestationBits
		name := "electra.AttestationBits"
		switch zzverif.Choose(3) {
		case 0:
			x = electra.AttestationBits{0x01}
			name += " (empty)"
		case 1:
			x = electra.AttestationBits{zzverif.NondetU8()&0x1f | 0x20}
			name += " (5 bits, more than one committee)"
		default:
			x = electra.AttestationBits{zzverif.NondetU8(), 0x01} // at the limit: eight bits + delimiter
		}
		return vTyCase{name, spec.Wrap(&x), func() common.SSZObj { return spec.Wrap(&electra.AttestationBits{}) }, electra.AttestationBitsType(spec), false, 0}
	case 23:
		x := electra.CommitteeBits{zzverif.NondetU8() & 0x03}
		return vTyCase{"electra.CommitteeBits", spec.Wrap(&x), func() common.SSZObj { return spec.Wrap(&electra.CommitteeBits{}) }, electra.CommitteeBitsType(spec), true, 1}
	case 24:
		x := vTyElectraAttestation()
		return vTyCase{"electra.Attestation", spec.Wrap(&x), func() common.SSZObj { return spec.Wrap(&electra.Attestation{}) }, electra.AttestationType(spec), false, 0}
	case 25:
		x := vTyElectraIndexed(zzverif.Choose(3))
		return vTyCase{"electra.IndexedAttestation", spec.Wrap(&x), func() common.SSZObj { return spec.Wrap(&electra.IndexedAttestation{}) }, electra.IndexedAttestationType(spec), false, 0}
	case 26:
		x := electra.AttesterSlashing{Attestation1: vTyElectraIndexed(2), Attestation2: vTyElectraIndexed(zzverif.Choose(2))}
		return vTyCase{"electra.AttesterSlashing", spec.Wrap(&x), func() common.SSZObj { return spec.Wrap(&electra.AttesterSlashing{}) }, electra.AttesterSlashingType(spec), false, 0}
	case 27, 36:
		if which == 36 {
			spec.MAX_ATTESTER_SLASHINGS = spec.MAX_ATTESTER_SLASHINGS_ELECTRA
		}
		x := electra.AttesterSlashings{}
		for i := zzverif.Choose(2); i > 0; i-- {
			x = append(x, electra.AttesterSlashing{Attestation1: vTyElectraIndexed(2), Attestation2: vTyElectraIndexed(1)})
		}
		return vTyCase{"electra.AttesterSlashings", spec.Wrap(&x), func() common.SSZObj { return spec.Wrap(&electra.AttesterSlashings{}) }, electra.BlockAttesterSlashingsType(spec), false, 0}
	case 28:
		x := electra.Attestations{}
		for i := zzverif.Choose(2); i > 0; i-- {
			x = append(x, vTyElectraAttestation())
		}
		return vTyCase{"electra.Attestations", spec.Wrap(&x), func() common.SSZObj { return spec.Wrap(&electra.Attestations{}) }, electra.BlockAttestationsType(spec), false, 0}
	case 29, 30:
		at := view.ContainerType("AggregateAndProof", []view.FieldDef{{Name: "aggregator_index", Type: common.ValidatorIndexType}, {Name: "aggregate", Type: electra.AttestationType(spec)}, {Name: "selection_proof", Type: common.BLSSignatureType}})
		if which == 29 {
			x := electra.AggregateAndProof{AggregatorIndex: common.ValidatorIndex(vTyU64()), Aggregate: vTyElectraAttestation(), SelectionProof: vTySig()}
			return vTyCase{"electra.AggregateAndProof", spec.Wrap(&x), func() common.SSZObj { return spec.Wrap(&electra.AggregateAndProof{}) }, at, false, 0}
		}
		st := view.ContainerType("SignedAggregateAndProof", []view.FieldDef{{Name: "message", Type: at}, {Name: "signature", Type: common.BLSSignatureType}})
		x := electra.SignedAggregateAndProof{Message: electra.AggregateAndProof{AggregatorIndex: common.ValidatorIndex(vTyU64()), Aggregate: vTyElectraAttestation(), SelectionProof: vTySig()}, Signature: vTySig()}
		return vTyCase{"electra.SignedAggregateAndProof", spec.Wrap(&x), func() common.SSZObj { return spec.Wrap(&electra.SignedAggregateAndProof{}) }, st, false, 0}
	case 31:
		x := vTyElectraRequests(zzverif.Choose(2))
		return vTyCase{"electra.ExecutionRequests", spec.Wrap(&x), func() common.SSZObj { return spec.Wrap(&electra.ExecutionRequests{}) }, electra.ExecutionRequestsType(spec), false, 0}
	case 32, 37:
		if which == 37 {
			spec.MAX_ATTESTER_SLASHINGS = spec.MAX_ATTESTER_SLASHINGS_ELECTRA
		}
		x := vTyElectraBody(spec, zzverif.Choose(2))
		return vTyCase{"electra.BeaconBlockBody", spec.Wrap(&x), func() common.SSZObj { return spec.Wrap(&electra.BeaconBlockBody{}) }, electra.BeaconBlockBodyType(spec), false, 0}
	case 33:
		f := vTyElectraBody(spec, zzverif.Choose(2))
		x := electra.BeaconBlockBodyShallow{RandaoReveal: f.RandaoReveal, Eth1Data: f.Eth1Data, Graffiti: f.Graffiti, ProposerSlashings: f.ProposerSlashings, AttesterSlashings: f.AttesterSlashings,
			Attestations: f.Attestations, Deposits: f.Deposits, VoluntaryExits: f.VoluntaryExits, SyncAggregate: f.SyncAggregate, ExecutionPayloadRoot: vTyRoot(), BLSToExecutionChanges: f.BLSToExecutionChanges,
			BlobKZGCommitments: f.BlobKZGCommitments, ExecutionRequests: f.ExecutionRequests}
		return vTyCase{"electra.BeaconBlockBodyShallow", spec.Wrap(&x), func() common.SSZObj { return spec.Wrap(&electra.BeaconBlockBodyShallow{}) }, vTyShallowType(electra.BeaconBlockBodyType(spec)), false, 0}
	case 34:
		x := electra.BeaconBlock{Slot: common.Slot(vTyU64()), ProposerIndex: common.ValidatorIndex(vTyU64()), ParentRoot: vTyRoot(), StateRoot: vTyRoot(), Body: vTyElectraBody(spec, zzverif.Choose(2))}
		return vTyCase{"electra.BeaconBlock", spec.Wrap(&x), func() common.SSZObj { return spec.Wrap(&electra.BeaconBlock{}) }, electra.BeaconBlockType(spec), false, 0}
	case 35:
		x := electra.SignedBeaconBlock{Message: electra.BeaconBlock{Slot: common.Slot(vTyU64()), ProposerIndex: common.ValidatorIndex(vTyU64()), ParentRoot: vTyRoot(), StateRoot: vTyRoot(), Body: vTyElectraBody(spec, zzverif.Choose(2))}, Signature: vTySig()}
		return vTyCase{"electra.SignedBeaconBlock", spec.Wrap(&x), func() common.SSZObj { return spec.Wrap(&electra.SignedBeaconBlock{}) }, electra.SignedBeaconBlockType(spec), false, 0}
	default: // 38
		x := vTyBellatrixPayload(0)
		x.Transactions = common.PayloadTransactions{common.Transaction{}, common.Transaction{zzverif.NondetU8()}}
		if zzverif.Choose(2) == 1 {
			x.Transactions = common.PayloadTransactions{common.Transaction{zzverif.NondetU8()}, common.Transaction{}}
		}
		return vTyCase{"bellatrix.ExecutionPayload (empty transaction)", spec.Wrap(&x), func() common.SSZObj { return spec.Wrap(&bellatrix.ExecutionPayload{}) }, bellatrix.ExecutionPayloadType(spec), false, 0}
	}
}

// VerifHarness_C04_types_later: the C04 facts of vTyCheck (see VerifHarness_C04_types_common) for the SSZ types of
// packages bellatrix, capella, deneb and electra except the BeaconStates (C05): execution payloads and headers,
// historical summaries, KZG commitments, electra attestation/request types, and BeaconBlockBody / shallow body /
// BeaconBlock / SignedBeaconBlock of each fork with 0 or 1 element in every list. Table at vTyLaterCase. The shallow
// bodies have no schema in the repo: the harness derives it from the full body's schema (payload -> root).
func VerifHarness_C04_types_later() {
	which := zzverif.Choose(vTyLaterCases)
	spec := vTySpec()
	vTyCheck(vTyLaterCase(spec, which))
}
