package beacon

import (
	"github.com/protolambda/zrnt/eth2/beacon/common"
	"github.com/protolambda/zrnt/eth2/beacon/phase0"
	"github.com/protolambda/zrnt/eth2/zzverif"
	"github.com/protolambda/ztyp/codec"
	"github.com/protolambda/ztyp/tree"
	"github.com/protolambda/ztyp/view"
)

func vTyAttData() phase0.AttestationData {
	return phase0.AttestationData{Slot: common.Slot(vTyU64()), Index: common.CommitteeIndex(vTyU64()), BeaconBlockRoot: vTyRoot(), Source: vTyCheckpoint(), Target: vTyCheckpoint()}
}

// vTyAttBits: three committee bits + the delimiter bit (MAX_VALIDATORS_PER_COMMITTEE is 4 in the tiny preset).
func vTyAttBits() phase0.AttestationBits {
	return phase0.AttestationBits{zzverif.NondetU8()&0x07 | 0x08}
}

func vTyIndexed(n int) phase0.IndexedAttestation {
	ia := phase0.IndexedAttestation{Data: vTyAttData(), Signature: vTySig()}
	for i := 0; i < n; i++ {
		ia.AttestingIndices = append(ia.AttestingIndices, common.ValidatorIndex(vTyU64()))
	}
	return ia
}

func vTyAttestation() phase0.Attestation {
	return phase0.Attestation{AggregationBits: vTyAttBits(), Data: vTyAttData(), Signature: vTySig()}
}

func vTyValidator() phase0.Validator {
	return phase0.Validator{Pubkey: vTyPub(), WithdrawalCredentials: vTyRoot(), EffectiveBalance: common.Gwei(vTyU64()), Slashed: zzverif.Choose(2) == 1,
		ActivationEligibilityEpoch: common.Epoch(vTyU64()), ActivationEpoch: common.Epoch(vTyU64()), ExitEpoch: common.Epoch(vTyU64()), WithdrawableEpoch: common.Epoch(vTyU64())}
}

func vTySignedExit() phase0.SignedVoluntaryExit {
	return phase0.SignedVoluntaryExit{Message: phase0.VoluntaryExit{Epoch: common.Epoch(vTyU64()), ValidatorIndex: common.ValidatorIndex(vTyU64())}, Signature: vTySig()}
}

func vTyProposerSlashing() phase0.ProposerSlashing {
	return phase0.ProposerSlashing{SignedHeader1: vTySignedHeader(), SignedHeader2: vTySignedHeader()}
}

func vTyRoots(n uint64) []common.Root {
	out := make([]common.Root, n)
	for i := range out {
		out[i] = vTyRoot()
	}
	return out
}

// the five phase0 operation lists with n elements each (n = 0 or 1)
func vTyOps(n int) (ps phase0.ProposerSlashings, as phase0.AttesterSlashings, at phase0.Attestations, dp phase0.Deposits, ex phase0.VoluntaryExits) {
	for i := 0; i < n; i++ {
		ps = append(ps, vTyProposerSlashing())
		as = append(as, phase0.AttesterSlashing{Attestation1: vTyIndexed(2), Attestation2: vTyIndexed(1)})
		at = append(at, vTyAttestation())
		dp = append(dp, vTyDeposit())
		ex = append(ex, vTySignedExit())
	}
	return
}

func vTyPhase0Body(n int) phase0.BeaconBlockBody {
	b := phase0.BeaconBlockBody{RandaoReveal: vTySig(), Eth1Data: vTyEth1Data(), Graffiti: vTyRoot()}
	b.ProposerSlashings, b.AttesterSlashings, b.Attestations, b.Deposits, b.VoluntaryExits = vTyOps(n)
	return b
}

// vTyRegistryIndices adapts phase0.RegistryIndices, whose FixedLength() lacks the spec parameter (so it does not
// implement common.SpecObj and cannot go through spec.Wrap like every other spec-dependent type).
type vTyRegistryIndices struct {
	spec *common.Spec
	x    *phase0.RegistryIndices
}

func (a vTyRegistryIndices) Serialize(w *codec.EncodingWriter) error { return a.x.Serialize(a.spec, w) }
func (a vTyRegistryIndices) Deserialize(dr *codec.DecodingReader) error {
	return a.x.Deserialize(a.spec, dr)
}
func (a vTyRegistryIndices) ByteLength() uint64                   { return a.x.ByteLength(a.spec) }
func (a vTyRegistryIndices) FixedLength() uint64                  { return a.x.FixedLength() }
func (a vTyRegistryIndices) HashTreeRoot(h tree.HashFn) tree.Root { return a.x.HashTreeRoot(a.spec, h) }

const vTyPhase0Cases = 33

// vTyPhase0Case: index -> type of package phase0.
//
//	0 Validator   1 AttestationData   2 IndexedAttestation   3 PendingAttestation   4 Attestation   5 AttesterSlashing
//	6 ProposerSlashing   7 VoluntaryExit   8 SignedVoluntaryExit   9 HistoricalBatchRoots   10 HistoricalBatch
//	11 HistoricalRoots   12 AggregateAndProof   13 SignedAggregateAndProof   14 AttestationBits   15 Eth1DataVotes
//	16 Deposits   17 VoluntaryExits   18 ProposerSlashings   19 AttesterSlashings   20 Attestations
//	21 PendingAttestations   22 Balances   23 SlashingsHistory   24 RegistryIndices   25 ValidatorRegistry
//	26 RandaoMixes   27 BeaconBlockBody   28 BeaconBlock   29 SignedBeaconBlock   30 Eth1DataVotes at its limit
//	31 AttestationBits and 32 Attestation with MAX_VALIDATORS_PER_COMMITTEE = 8 (a multiple of 8, as on mainnet: 2048)
//	and all 8 committee bits present (the delimiter bit then needs a byte of its own)
func vTyPhase0Case(spec *common.Spec, which int) vTyCase {
	switch which {
	case 0:
		x := vTyValidator()
		return vTyCase{"phase0.Validator", &x, func() common.SSZObj { return &phase0.Validator{} }, phase0.ValidatorType, true, 48 + 32 + 8 + 1 + 4*8}
	case 1:
		x := vTyAttData()
		return vTyCase{"phase0.AttestationData", &x, func() common.SSZObj { return &phase0.AttestationData{} }, phase0.AttestationDataType, true, 8 + 8 + 32 + 40 + 40}
	case 2:
		x := vTyIndexed(zzverif.Choose(3))
		return vTyCase{"phase0.IndexedAttestation", spec.Wrap(&x), func() common.SSZObj { return spec.Wrap(&phase0.IndexedAttestation{}) }, phase0.IndexedAttestationType(spec), false, 0}
	case 3:
		x := phase0.PendingAttestation{AggregationBits: vTyAttBits(), Data: vTyAttData(), InclusionDelay: common.Slot(vTyU64()), ProposerIndex: common.ValidatorIndex(vTyU64())}
		return vTyCase{"phase0.PendingAttestation", spec.Wrap(&x), func() common.SSZObj { return spec.Wrap(&phase0.PendingAttestation{}) }, phase0.PendingAttestationType(spec), false, 0}
	case 4:
		x := vTyAttestation()
		return vTyCase{"phase0.Attestation", spec.Wrap(&x), func() common.SSZObj { return spec.Wrap(&phase0.Attestation{}) }, phase0.AttestationType(spec), false, 0}
	case 5:
		x := phase0.AttesterSlashing{Attestation1: vTyIndexed(2), Attestation2: vTyIndexed(zzverif.Choose(2))}
		return vTyCase{"phase0.AttesterSlashing", spec.Wrap(&x), func() common.SSZObj { return spec.Wrap(&phase0.AttesterSlashing{}) }, phase0.AttesterSlashingType(spec), false, 0}
	case 6:
		x := vTyProposerSlashing()
		return vTyCase{"phase0.ProposerSlashing", &x, func() common.SSZObj { return &phase0.ProposerSlashing{} }, phase0.ProposerSlashingType, true, 2 * 208}
	case 7:
		x := vTySignedExit().Message
		return vTyCase{"phase0.VoluntaryExit", &x, func() common.SSZObj { return &phase0.VoluntaryExit{} }, phase0.VoluntaryExitType, true, 16}
	case 8:
		x := vTySignedExit()
		return vTyCase{"phase0.SignedVoluntaryExit", &x, func() common.SSZObj { return &phase0.SignedVoluntaryExit{} }, phase0.SignedVoluntaryExitType, true, 16 + 96}
	case 9:
		x := phase0.HistoricalBatchRoots(vTyRoots(uint64(spec.SLOTS_PER_HISTORICAL_ROOT)))
		return vTyCase{"phase0.HistoricalBatchRoots", spec.Wrap(&x), func() common.SSZObj { return spec.Wrap(&phase0.HistoricalBatchRoots{}) }, phase0.BatchRootsType(spec), true, 32 * uint64(spec.SLOTS_PER_HISTORICAL_ROOT)}
	case 10:
		x := phase0.HistoricalBatch{BlockRoots: vTyRoots(uint64(spec.SLOTS_PER_HISTORICAL_ROOT)), StateRoots: vTyRoots(uint64(spec.SLOTS_PER_HISTORICAL_ROOT))}
		return vTyCase{"phase0.HistoricalBatch", spec.Wrap(&x), func() common.SSZObj { return spec.Wrap(&phase0.HistoricalBatch{}) }, phase0.HistoricalBatchType(spec), true, 64 * uint64(spec.SLOTS_PER_HISTORICAL_ROOT)}
	case 11:
		x := phase0.HistoricalRoots(vTyRoots(uint64(zzverif.Choose(3))))
		return vTyCase{"phase0.HistoricalRoots", spec.Wrap(&x), func() common.SSZObj { return spec.Wrap(&phase0.HistoricalRoots{}) }, phase0.HistoricalRootsType(spec), false, 0}
	case 12, 13:
		// no schema in the repo: the validator specification's AggregateAndProof / SignedAggregateAndProof
		at := view.ContainerType("AggregateAndProof", []view.FieldDef{{Name: "aggregator_index", Type: common.ValidatorIndexType}, {Name: "aggregate", Type: phase0.AttestationType(spec)}, {Name: "selection_proof", Type: common.BLSSignatureType}})
		if which == 12 {
			x := phase0.AggregateAndProof{AggregatorIndex: common.ValidatorIndex(vTyU64()), Aggregate: vTyAttestation(), SelectionProof: vTySig()}
			return vTyCase{"phase0.AggregateAndProof", spec.Wrap(&x), func() common.SSZObj { return spec.Wrap(&phase0.AggregateAndProof{}) }, at, false, 0}
		}
		st := view.ContainerType("SignedAggregateAndProof", []view.FieldDef{{Name: "message", Type: at}, {Name: "signature", Type: common.BLSSignatureType}})
		x := phase0.SignedAggregateAndProof{Message: phase0.AggregateAndProof{AggregatorIndex: common.ValidatorIndex(vTyU64()), Aggregate: vTyAttestation(), SelectionProof: vTySig()}, Signature: vTySig()}
		return vTyCase{"phase0.SignedAggregateAndProof", spec.Wrap(&x), func() common.SSZObj { return spec.Wrap(&phase0.SignedAggregateAndProof{}) }, st, false, 0}
	case 14:
		var x phase0.AttestationBits
		switch zzverif.Choose(3) {
		case 0:
			x = phase0.AttestationBits{0x01} // empty bitlist: only the delimiter
		case 1:
			x = vTyAttBits()
		default:
			x = phase0.AttestationBits{zzverif.NondetU8()&0x0f | 0x10} // at the limit: four bits + delimiter
		}
		return vTyCase{"phase0.AttestationBits", spec.Wrap(&x), func() common.SSZObj { return spec.Wrap(&phase0.AttestationBits{}) }, phase0.AttestationBitsType(spec), false, 0}
	case 15, 30:
		x := phase0.Eth1DataVotes{}
		n := zzverif.Choose(2)
		if which == 30 {
			n = int(spec.EPOCHS_PER_ETH1_VOTING_PERIOD) * int(spec.SLOTS_PER_EPOCH)
		}
		for i := 0; i < n; i++ {
			x = append(x, vTyEth1Data())
		}
		return vTyCase{"phase0.Eth1DataVotes", spec.Wrap(&x), func() common.SSZObj { return spec.Wrap(&phase0.Eth1DataVotes{}) }, phase0.Eth1DataVotesType(spec), false, 0}
	case 16:
		_, _, _, x, _ := vTyOps(zzverif.Choose(2))
		return vTyCase{"phase0.Deposits", spec.Wrap(&x), func() common.SSZObj { return spec.Wrap(&phase0.Deposits{}) }, phase0.BlockDepositsType(spec), false, 0}
	case 17:
		_, _, _, _, x := vTyOps(zzverif.Choose(2))
		return vTyCase{"phase0.VoluntaryExits", spec.Wrap(&x), func() common.SSZObj { return spec.Wrap(&phase0.VoluntaryExits{}) }, phase0.BlockVoluntaryExitsType(spec), false, 0}
	case 18:
		x, _, _, _, _ := vTyOps(zzverif.Choose(2))
		return vTyCase{"phase0.ProposerSlashings", spec.Wrap(&x), func() common.SSZObj { return spec.Wrap(&phase0.ProposerSlashings{}) }, phase0.BlockProposerSlashingsType(spec), false, 0}
	case 19:
		_, x, _, _, _ := vTyOps(zzverif.Choose(2))
		return vTyCase{"phase0.AttesterSlashings", spec.Wrap(&x), func() common.SSZObj { return spec.Wrap(&phase0.AttesterSlashings{}) }, phase0.BlockAttesterSlashingsType(spec), false, 0}
	case 20:
		_, _, x, _, _ := vTyOps(zzverif.Choose(2))
		return vTyCase{"phase0.Attestations", spec.Wrap(&x), func() common.SSZObj { return spec.Wrap(&phase0.Attestations{}) }, phase0.BlockAttestationsType(spec), false, 0}
	case 21:
		x := phase0.PendingAttestations{}
		for i := zzverif.Choose(2); i > 0; i-- {
			x = append(x, &phase0.PendingAttestation{AggregationBits: vTyAttBits(), Data: vTyAttData(), InclusionDelay: common.Slot(vTyU64()), ProposerIndex: common.ValidatorIndex(vTyU64())})
		}
		return vTyCase{"phase0.PendingAttestations", spec.Wrap(&x), func() common.SSZObj { return spec.Wrap(&phase0.PendingAttestations{}) }, phase0.PendingAttestationsType(spec), false, 0}
	case 22:
		x := phase0.Balances{}
		for i := zzverif.Choose(3); i > 0; i-- {
			x = append(x, common.Gwei(vTyU64()))
		}
		return vTyCase{"phase0.Balances", spec.Wrap(&x), func() common.SSZObj { return spec.Wrap(&phase0.Balances{}) }, phase0.RegistryBalancesType(spec), false, 0}
	case 23:
		x := phase0.SlashingsHistory{}
		for i := uint64(0); i < uint64(spec.EPOCHS_PER_SLASHINGS_VECTOR); i++ {
			x = append(x, common.Gwei(vTyU64()))
		}
		return vTyCase{"phase0.SlashingsHistory", spec.Wrap(&x), func() common.SSZObj { return spec.Wrap(&phase0.SlashingsHistory{}) }, phase0.SlashingsType(spec), true, 8 * uint64(spec.EPOCHS_PER_SLASHINGS_VECTOR)}
	case 24:
		x := phase0.RegistryIndices{}
		for i := zzverif.Choose(3); i > 0; i-- {
			x = append(x, common.ValidatorIndex(vTyU64()))
		}
		return vTyCase{"phase0.RegistryIndices", vTyRegistryIndices{spec, &x}, func() common.SSZObj { return vTyRegistryIndices{spec, &phase0.RegistryIndices{}} }, view.BasicListType(common.ValidatorIndexType, uint64(spec.VALIDATOR_REGISTRY_LIMIT)), false, 0}
	case 25:
		x := phase0.ValidatorRegistry{}
		for i := zzverif.Choose(2); i > 0; i-- {
			v := vTyValidator()
			x = append(x, &v)
		}
		return vTyCase{"phase0.ValidatorRegistry", spec.Wrap(&x), func() common.SSZObj { return spec.Wrap(&phase0.ValidatorRegistry{}) }, phase0.ValidatorsRegistryType(spec), false, 0}
	case 26:
		x := phase0.RandaoMixes(vTyRoots(uint64(spec.EPOCHS_PER_HISTORICAL_VECTOR)))
		return vTyCase{"phase0.RandaoMixes", spec.Wrap(&x), func() common.SSZObj { return spec.Wrap(&phase0.RandaoMixes{}) }, phase0.RandaoMixesType(spec), true, 32 * uint64(spec.EPOCHS_PER_HISTORICAL_VECTOR)}
	case 27:
		x := vTyPhase0Body(zzverif.Choose(2))
		return vTyCase{"phase0.BeaconBlockBody", spec.Wrap(&x), func() common.SSZObj { return spec.Wrap(&phase0.BeaconBlockBody{}) }, phase0.BeaconBlockBodyType(spec), false, 0}
	case 28:
		x := phase0.BeaconBlock{Slot: common.Slot(vTyU64()), ProposerIndex: common.ValidatorIndex(vTyU64()), ParentRoot: vTyRoot(), StateRoot: vTyRoot(), Body: vTyPhase0Body(zzverif.Choose(2))}
		return vTyCase{"phase0.BeaconBlock", spec.Wrap(&x), func() common.SSZObj { return spec.Wrap(&phase0.BeaconBlock{}) }, phase0.BeaconBlockType(spec), false, 0}
	case 31:
		spec.MAX_VALIDATORS_PER_COMMITTEE = 8
		x := phase0.AttestationBits{zzverif.NondetU8(), 0x01}
		return vTyCase{"phase0.AttestationBits (full committee, limit 8)", spec.Wrap(&x), func() common.SSZObj { return spec.Wrap(&phase0.AttestationBits{}) }, phase0.AttestationBitsType(spec), false, 0}
	case 32:
		spec.MAX_VALIDATORS_PER_COMMITTEE = 8
		x := phase0.Attestation{AggregationBits: phase0.AttestationBits{zzverif.NondetU8(), 0x01}, Data: vTyAttData(), Signature: vTySig()}
		return vTyCase{"phase0.Attestation (full committee, limit 8)", spec.Wrap(&x), func() common.SSZObj { return spec.Wrap(&phase0.Attestation{}) }, phase0.AttestationType(spec), false, 0}
	default: // 29
		x := phase0.SignedBeaconBlock{Message: phase0.BeaconBlock{Slot: common.Slot(vTyU64()), ProposerIndex: common.ValidatorIndex(vTyU64()), ParentRoot: vTyRoot(), StateRoot: vTyRoot(), Body: vTyPhase0Body(zzverif.Choose(2))}, Signature: vTySig()}
		return vTyCase{"phase0.SignedBeaconBlock", spec.Wrap(&x), func() common.SSZObj { return spec.Wrap(&phase0.SignedBeaconBlock{}) }, phase0.SignedBeaconBlockType(spec), false, 0}
	}
}

// VerifHarness_C04_types_phase0: the C04 facts of vTyCheck (see VerifHarness_C04_types_common) for every SSZ type of
// package phase0 except BeaconState (C05), each as a standalone value; table at vTyPhase0Case. Bounds: tiny preset,
// operation lists of 0..1 elements, attesting indices 0..2, bitlists of 0, 3 and 4 (= limit) bits, symbolic leaves.
// AggregateAndProof / SignedAggregateAndProof have no schema in the repo: the harness states the specification's.
func VerifHarness_C04_types_phase0() {
	which := zzverif.Choose(vTyPhase0Cases)
	spec := vTySpec()
	vTyCheck(vTyPhase0Case(spec, which))
}
