package beacon

import (
	"context"

	"github.com/protolambda/zrnt/eth2/beacon/altair"
	"github.com/protolambda/zrnt/eth2/beacon/common"
	"github.com/protolambda/zrnt/eth2/beacon/phase0"
	"github.com/protolambda/zrnt/eth2/zzverif"
	"github.com/protolambda/ztyp/tree"
)

// The shuffling, the proposer sampling and the next-sync-committee sampling are the stubs of group "c08w"
// (c08_wrapper.go; the engine keeps one override per target function and package, so a second group cannot stub them
// differently). That sampler stub returns altair.VAlMarkerCommittee(spec); group "c08u" replaces this harness helper
// by a committee that encodes which call of the sampler produced it, so that the committee sampled at the upgrade and
// the one sampled at the next period boundary differ.
var vUpSyncCalls int

// vUpSyncNth: the committee the stubbed sampler returns on its call-th call.
func vUpSyncNth(spec *common.Spec, call int) common.SyncCommittee {
	pat := []int{1, 1, 0, 1}
	if call%2 == 0 {
		pat = []int{0, 1, 1, 0}
	}
	return altair.VUpCommittee(spec, pat, 0xe0+byte(call))
}

const VerifOverrideTarget_c08u__marker = "github.com/protolambda/zrnt/eth2/beacon/altair.VAlMarkerCommittee"

func VerifOverride_c08u__marker(spec *common.Spec) common.SyncCommittee {
	vUpSyncCalls++
	return vUpSyncNth(spec, vUpSyncCalls)
}

// VerifHarness_C08_upgrade_context: a phase0 chain driven the way ProcessSlots drives it through the
// StandardUpgradeableBeaconState wrapper, with a live epochs context (real NewEpochsContext at the last phase0 slot,
// real RotateEpochs into the fork epoch), crosses the altair fork slot: after the real UpgradeMaybe
//   - the wrapped state is an altair state at the fork slot with fork.current_version = ALTAIR_FORK_VERSION,
//     fork.previous_version = the phase0 state's current version, fork.epoch = ALTAIR_FORK_EPOCH;
//   - both sync committees of the state are the one committee sampled during the upgrade (the sampler ran exactly
//     once, with a context centred on the fork epoch: get_next_sync_committee of the spec samples for current_epoch + 1);
//   - the pending attestation of the last phase0 epoch was translated with the committee the rotated context holds
//     for that epoch (PreviousEpoch; committee filled in by hand, timely-source flag only: target and head do not match);
//   - the context's CurrentSyncCommittee / NextSyncCommittee index the post-state's committees (registry indices and
//     cached pubkeys), and so does a context built afresh from the wrapped post-state;
//   - one epoch later (real process_sync_committee_updates on the altair state, slot advanced, real RotateEpochs) the
//     context still indexes the state's committees: for a fork epoch of 3 the period boundary (epoch 4) rotates them
//     (current := next, next := freshly sampled), for a fork epoch of 2 (itself a multiple of the period) nothing moves.
//
// Bounds: tiny preset (EPOCHS_PER_SYNC_COMMITTEE_PERIOD = 2), ALTAIR_FORK_EPOCH in {2, 3}, 2 validators active since
// genesis with 32 ETH whose keys are the ones the stubbed sampler uses, every other phase0 leaf symbolic, one pending
// attestation (symbolic bits, inclusion delay 1..3, source = previous justified checkpoint). The phase0 state is
// taken as already epoch-processed at the last slot before the fork (ProcessSlots order: epoch processing, slot
// increment, RotateEpochs, UpgradeMaybe).
// Shards: Choose #1 = fork epoch (2).
func VerifHarness_C08_upgrade_context() {
	zzverif.UseOverrides("c08w")
	zzverif.UseOverrides("c08u")
	vUpSyncCalls = 0
	spec := common.VTinySpec()
	f := uint64(2 + zzverif.Choose(2))
	spec.ALTAIR_FORK_EPOCH = common.Epoch(f)
	spe := uint64(spec.SLOTS_PER_EPOCH)
	const n = 2
	raw := phase0.VUpRawState(spec, 0)
	raw.Slot = common.Slot(f*spe - 1)
	for i := 0; i < n; i++ {
		v := &phase0.Validator{Pubkey: altair.VUpPub(i), WithdrawalCredentials: phase0.VUpRoot1()}
		v.EffectiveBalance = spec.MAX_EFFECTIVE_BALANCE
		v.ExitEpoch, v.WithdrawableEpoch = ^common.Epoch(0), ^common.Epoch(0)
		raw.Validators = append(raw.Validators, v)
		raw.Balances = append(raw.Balances, common.Gwei(zzverif.NondetU64()))
	}
	bits := zzverif.NondetU8() & 3
	d := zzverif.NondetU8()
	zzverif.Assume(d >= 1 && d <= 3)
	raw.PreviousEpochAttestations = append(raw.PreviousEpochAttestations, &phase0.PendingAttestation{
		AggregationBits: phase0.AttestationBits{bits | 1<<n}, InclusionDelay: common.Slot(d), ProposerIndex: 1,
		Data: phase0.AttestationData{Slot: common.Slot((f - 1) * spe), Index: 0, BeaconBlockRoot: common.Root{1: 0xdd},
			Source: raw.PreviousJustifiedCheckpoint, Target: common.Checkpoint{Epoch: common.Epoch(f - 1), Root: common.Root{1: 0xee}}}})
	st := phase0.VUpStateToView(spec, raw)
	if st == nil {
		return
	}
	w := &StandardUpgradeableBeaconState{BeaconState: st}
	epc, err := common.NewEpochsContext(spec, w)
	zzverif.Assert(err == nil, "NewEpochsContext succeeds on a wrapped phase0 state")
	if err != nil {
		return
	}
	zzverif.Assert(epc.CurrentSyncCommittee == nil && epc.NextSyncCommittee == nil, "a phase0 context indexes no sync committees")
	ctx := context.Background()
	// ProcessSlots: (epoch processing), slot increment, context rotation, upgrade
	raw.Slot++
	zzverif.Assert(w.SetSlot(raw.Slot) == nil, "SetSlot")
	err = epc.RotateEpochs(w)
	zzverif.Assert(err == nil, "RotateEpochs succeeds on a wrapped phase0 state")
	if err != nil {
		return
	}
	zzverif.Assert(epc.PreviousEpoch != nil && epc.PreviousEpoch.Epoch == common.Epoch(f-1) && epc.CurrentEpoch.Epoch == common.Epoch(f) && epc.NextEpoch.Epoch == common.Epoch(f+1), "the rotated context is centred on the fork epoch")
	// (the shuffling stub leaves the committees out: one committee with both validators at the attestation's slot)
	epc.PreviousEpoch.Committees = [][][]common.ValidatorIndex{{{0, 1}}, {{}}}
	zzverif.Reach("upgrade-context")
	err = w.UpgradeMaybe(ctx, spec, epc)
	zzverif.Assert(err == nil, "UpgradeMaybe succeeds at the altair fork slot")
	if err != nil {
		return
	}
	post, ok := w.BeaconState.(*altair.BeaconStateView)
	zzverif.Assert(ok && post != nil, "at the altair fork slot the wrapped state becomes an altair state")
	if !ok || post == nil {
		return
	}
	h := tree.GetHashFn()
	sl, e1 := post.Slot()
	fk, e2 := post.Fork()
	zzverif.Assert(e1 == nil && sl == common.Slot(f*spe), "the upgraded state is at the fork slot")
	zzverif.Assert(e2 == nil && fk == common.Fork{PreviousVersion: raw.Fork.CurrentVersion, CurrentVersion: spec.ALTAIR_FORK_VERSION, Epoch: common.Epoch(f)}, "fork record of the upgraded state as upgrade_to_altair")
	zzverif.Assert(vUpSyncCalls == 1, "the upgrade samples the sync committee once")
	first := vUpSyncNth(spec, 1)
	altRaw := &altair.BeaconState{Validators: raw.Validators, CurrentSyncCommittee: first, NextSyncCommittee: first}
	csc, e3 := post.CurrentSyncCommittee()
	nsc, e4 := post.NextSyncCommittee()
	zzverif.Assert(e3 == nil && csc.HashTreeRoot(h) == first.HashTreeRoot(spec, h), "current_sync_committee = the committee sampled at the upgrade")
	zzverif.Assert(e4 == nil && nsc.HashTreeRoot(h) == first.HashTreeRoot(spec, h), "next_sync_committee = the committee sampled at the upgrade")
	pp, e5 := post.PreviousEpochParticipation()
	zzverif.Assert(e5 == nil, "previous_epoch_participation readable")
	if e5 == nil {
		for i := 0; i < n; i++ {
			pf, e := pp.GetFlags(common.ValidatorIndex(i))
			want := uint8(zzverif.Ite(d <= 1, 1, 0)) & (0 - (bits >> uint(i) & 1)) // timely source: delay <= isqrt(2) = 1
			zzverif.Assert(e == nil && uint8(pf) == want, "pending attestation translated with the rotated context's committee of the last phase0 epoch")
		}
	}
	altair.VAlSameIndexed(altRaw, epc.CurrentSyncCommittee, &altRaw.CurrentSyncCommittee, "live context after the upgrade, current sync committee")
	altair.VAlSameIndexed(altRaw, epc.NextSyncCommittee, &altRaw.NextSyncCommittee, "live context after the upgrade, next sync committee")
	fresh, err := common.NewEpochsContext(spec, w)
	zzverif.Assert(err == nil, "NewEpochsContext succeeds on the wrapped upgraded state")
	if err == nil {
		altair.VAlSameIndexed(altRaw, fresh.CurrentSyncCommittee, &altRaw.CurrentSyncCommittee, "context built from the upgraded state, current sync committee")
		altair.VAlSameIndexed(altRaw, fresh.NextSyncCommittee, &altRaw.NextSyncCommittee, "context built from the upgraded state, next sync committee")
	}
	// one epoch later
	zzverif.Assert(w.SetSlot(common.Slot(f*spe+spe-1)) == nil, "SetSlot")
	err = altair.ProcessSyncCommitteeUpdates(ctx, spec, epc, post)
	zzverif.Assert(err == nil, "ProcessSyncCommitteeUpdates succeeds on the upgraded state")
	if (f+1)%uint64(spec.EPOCHS_PER_SYNC_COMMITTEE_PERIOD) == 0 {
		altRaw.CurrentSyncCommittee = altRaw.NextSyncCommittee
		altRaw.NextSyncCommittee = vUpSyncNth(spec, 2)
		zzverif.Assert(vUpSyncCalls == 2, "the period boundary samples the sync committee once more")
	} else {
		zzverif.Assert(vUpSyncCalls == 1, "no sampling off the period boundary")
	}
	csc, e3 = post.CurrentSyncCommittee()
	nsc, e4 = post.NextSyncCommittee()
	zzverif.Assert(e3 == nil && csc.HashTreeRoot(h) == altRaw.CurrentSyncCommittee.HashTreeRoot(spec, h), "one epoch later: current_sync_committee as process_sync_committee_updates")
	zzverif.Assert(e4 == nil && nsc.HashTreeRoot(h) == altRaw.NextSyncCommittee.HashTreeRoot(spec, h), "one epoch later: next_sync_committee as process_sync_committee_updates")
	zzverif.Assert(w.SetSlot(common.Slot((f+1)*spe)) == nil, "SetSlot")
	err = epc.RotateEpochs(w)
	zzverif.Assert(err == nil, "RotateEpochs succeeds on the wrapped upgraded state")
	if err != nil {
		return
	}
	altair.VAlSameIndexed(altRaw, epc.CurrentSyncCommittee, &altRaw.CurrentSyncCommittee, "live context one epoch after the upgrade, current sync committee")
	altair.VAlSameIndexed(altRaw, epc.NextSyncCommittee, &altRaw.NextSyncCommittee, "live context one epoch after the upgrade, next sync committee")
}
