package beacon

import (
	"context"

	"github.com/protolambda/zrnt/eth2/beacon/altair"
	"github.com/protolambda/zrnt/eth2/beacon/common"
	"github.com/protolambda/zrnt/eth2/zzverif"
)

// group "c08w": shuffling, proposer sampling and next-sync-committee sampling are stubs (C07's subject)
const VerifOverrideTarget_c08w__shuffling = "github.com/protolambda/zrnt/eth2/beacon/common.ComputeShufflingEpoch"

func VerifOverride_c08w__shuffling(spec *common.Spec, state common.BeaconState, bounded []common.BoundedIndex, epoch common.Epoch) (*common.ShufflingEpoch, error) {
	act := common.ActiveIndices(bounded, epoch)
	return &common.ShufflingEpoch{Epoch: epoch, ActiveIndices: act, Shuffling: append([]common.ValidatorIndex(nil), act...)}, nil
}

const VerifOverrideTarget_c08w__proposers = "github.com/protolambda/zrnt/eth2/beacon/common.ComputeProposers"

func VerifOverride_c08w__proposers(spec *common.Spec, state common.BeaconState, epoch common.Epoch, active []common.ValidatorIndex) (*common.ProposersEpoch, error) {
	return &common.ProposersEpoch{Spec: spec, Epoch: epoch, Proposers: make([]common.ValidatorIndex, spec.SLOTS_PER_EPOCH)}, nil
}

const VerifOverrideTarget_c08w__nextsync = "github.com/protolambda/zrnt/eth2/beacon/common.ComputeNextSyncCommittee"

func VerifOverride_c08w__nextsync(spec *common.Spec, epc *common.EpochsContext, state common.BeaconState) (*common.SyncCommittee, error) {
	sc := altair.VAlMarkerCommittee(spec)
	return &sc, nil
}

// VerifHarness_C08_wrapped_rotation: the epochs context of an altair chain driven the way StateTransition drives it -
// through the StandardUpgradeableBeaconState wrapper - indexes the state's sync committees: after every epoch rotation
// (RotateEpochs on the wrapped state, as ProcessSlots calls it) and when built afresh from the wrapped state, CurrentSyncCommittee / NextSyncCommittee hold the registry indices and cached keys of the state's current /
// next sync committee, also across a sync-committee period boundary.
// Bounds: tiny preset (period of 2 epochs), 2 validators, current epoch 2..5 at its last slot; the state's own
// process_sync_committee_updates is the real one (next committee sampling stubbed to a recognisable committee).
func VerifHarness_C08_wrapped_rotation() {
	zzverif.UseOverrides("c08w")
	cur := uint64(2 + zzverif.Choose(4))
	spec, raw, st := altair.VAlRotationWorld(cur)
	w := &StandardUpgradeableBeaconState{BeaconState: st}
	epc, err := common.NewEpochsContext(spec, st)
	zzverif.Assert(err == nil, "NewEpochsContext succeeds on an altair state")
	if err != nil {
		return
	}
	zzverif.Reach("wrapped-rotation")
	err = altair.ProcessSyncCommitteeUpdates(context.Background(), spec, epc, st)
	zzverif.Assert(err == nil, "ProcessSyncCommitteeUpdates succeeds")
	if (cur+1)%uint64(spec.EPOCHS_PER_SYNC_COMMITTEE_PERIOD) == 0 {
		raw.CurrentSyncCommittee = raw.NextSyncCommittee
		raw.NextSyncCommittee = altair.VAlMarkerCommittee(spec)
	}
	raw.Slot++
	_ = w.SetSlot(raw.Slot)
	err = epc.RotateEpochs(w)
	zzverif.Assert(err == nil, "RotateEpochs succeeds on a wrapped state")
	altair.VAlSameIndexed(raw, epc.CurrentSyncCommittee, &raw.CurrentSyncCommittee, "rotated context (wrapped state), current sync committee")
	altair.VAlSameIndexed(raw, epc.NextSyncCommittee, &raw.NextSyncCommittee, "rotated context (wrapped state), next sync committee")
	fresh, err := common.NewEpochsContext(spec, w)
	zzverif.Assert(err == nil, "NewEpochsContext succeeds on a wrapped altair state")
	if err != nil {
		return
	}
	altair.VAlSameIndexed(raw, fresh.CurrentSyncCommittee, &raw.CurrentSyncCommittee, "context built from a wrapped state, current sync committee")
	altair.VAlSameIndexed(raw, fresh.NextSyncCommittee, &raw.NextSyncCommittee, "context built from a wrapped state, next sync committee")
}
