package beacon

import (
	"github.com/protolambda/zrnt/eth2/beacon/common"
	"github.com/protolambda/zrnt/eth2/beacon/phase0"
	"github.com/protolambda/zrnt/eth2/zzverif"
	"github.com/protolambda/ztyp/tree"
)

// VerifHarness_C14_envelope: (a) converting a signed phase0 block to its fork-agnostic envelope and back preserves
// slot, proposer, parent, state root, body (root), signature and block root; (b) the envelope's signature check
// accepts exactly a signature by the proposer's key over signing_root(block root, DOMAIN_BEACON_PROPOSER under the
// version Spec.ForkVersion(slot) implies and this chain's genesis validators root), with matching fork digest and
// proposer - for a symbolic fork schedule, slot and versions; a signature made under any other version is a
// different message.
func VerifHarness_C14_envelope() {
	spec := vSpecSPE([]uint64{1, 2, 8, 32})
	zzverif.Assume(vMonotone(spec))
	gvr := common.Root{}
	gvr[0], gvr[31] = zzverif.NondetU8(), zzverif.NondetU8()
	b := &phase0.SignedBeaconBlock{}
	b.Message.Slot = common.Slot(zzverif.NondetU64())
	zzverif.Assume(b.Message.Slot < 1<<58)
	b.Message.ProposerIndex = common.ValidatorIndex(zzverif.NondetU8())
	b.Message.ParentRoot[0], b.Message.StateRoot[0] = zzverif.NondetU8(), zzverif.NondetU8()
	b.Message.Body.Graffiti[0] = zzverif.NondetU8()
	b.Signature[0], b.Signature[95] = zzverif.NondetU8(), zzverif.NondetU8()
	h := tree.GetHashFn()
	d := NewForkDecoder(spec, gvr)
	digest := d.ForkDigest(spec.SlotToEpoch(b.Message.Slot))
	if zzverif.NondetBool() {
		digest = common.ForkDigest(zzverif.NondetBytes4()) // a peer may claim any digest
	}
	env := b.Envelope(spec, digest)
	zzverif.Reach("envelope")
	zzverif.Assert(env.Slot == b.Message.Slot && env.ProposerIndex == b.Message.ProposerIndex && env.ParentRoot == b.Message.ParentRoot &&
		env.StateRoot == b.Message.StateRoot && env.Signature == b.Signature && env.ForkDigest == digest, "envelope carries the block's header fields, signature and digest")
	zzverif.Assert(env.BodyRoot == b.Message.Body.HashTreeRoot(spec, h), "envelope body root is the body's root")
	zzverif.Assert(env.BlockRoot == b.Message.HashTreeRoot(spec, h), "envelope block root is the block's root")
	back, err := EnvelopeToSignedBeaconBlock(env)
	zzverif.Assert(err == nil, "a phase0 envelope converts back")
	if err == nil {
		sb, ok := back.(*phase0.SignedBeaconBlock)
		zzverif.Assert(ok && sb.Signature == b.Signature && sb.Message.HashTreeRoot(spec, h) == b.Message.HashTreeRoot(spec, h), "envelope -> signed block preserves root and signature")
	}
	// signature check through the envelope
	var pub common.BLSPubkey
	pub[0], pub[47] = zzverif.NondetU8(), zzverif.NondetU8()
	cached := &common.CachedPubkey{Compressed: pub}
	proposer := common.ValidatorIndex(zzverif.NondetU8())
	got := env.VerifySignature(spec, gvr, proposer, cached)
	f := int(zzverif.Concrete(uint64(vForkAt(spec, spec.SlotToEpoch(b.Message.Slot)))))
	ver := vVersions(spec)[f]
	dom := common.ComputeDomain(common.DOMAIN_BEACON_PROPOSER, ver, gvr)
	root := common.ComputeSigningRoot(env.BlockRoot, dom)
	want := proposer == b.Message.ProposerIndex && digest == common.ComputeForkDigest(ver, gvr) &&
		zzverif.BLSPubkeyValid(pub) && zzverif.BLSSigValid(b.Signature) && zzverif.BLSVerify(pub, root[:], b.Signature)
	zzverif.Assert(got == want, "the envelope check accepts exactly a proposer signature under the version the slot implies, with that fork's digest")
}
