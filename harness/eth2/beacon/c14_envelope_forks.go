package beacon

import (
	"encoding/binary"

	"github.com/protolambda/zrnt/eth2/beacon/altair"
	"github.com/protolambda/zrnt/eth2/beacon/bellatrix"
	"github.com/protolambda/zrnt/eth2/beacon/capella"
	"github.com/protolambda/zrnt/eth2/beacon/common"
	"github.com/protolambda/zrnt/eth2/beacon/deneb"
	"github.com/protolambda/zrnt/eth2/zzverif"
	"github.com/protolambda/ztyp/tree"
)

// vM2Hash2: SHA-256 of two 32-byte chunks (the merkleization step), uninterpreted in the engine exactly like the
// repository's own hash function.
func vM2Hash2(a, b [32]byte) [32]byte {
	var in [64]byte
	copy(in[:32], a[:])
	copy(in[32:], b[:])
	return zzverif.Hash(in[:])
}

func vM2U64Chunk(x uint64) (c [32]byte) {
	binary.LittleEndian.PutUint64(c[:8], x)
	return
}

// spec: hash_tree_root(BeaconBlock) = merkleize([slot, proposer_index, parent_root, state_root, hash_tree_root(body)]),
// five leaves padded to eight.
func vM2BlockRoot(slot common.Slot, proposer common.ValidatorIndex, parent, state, bodyRoot common.Root) common.Root {
	var zero [32]byte
	l := vM2Hash2(vM2Hash2(vM2U64Chunk(uint64(slot)), vM2U64Chunk(uint64(proposer))), vM2Hash2(parent, state))
	r := vM2Hash2(vM2Hash2(bodyRoot, zero), vM2Hash2(zero, zero))
	return vM2Hash2(l, r)
}

// spec: compute_fork_data_root(version, genesis_validators_root) = hash_tree_root(ForkData(version, root))
func vM2ForkDataRoot(v common.Version, gvr common.Root) [32]byte {
	var c [32]byte
	copy(c[:4], v[:])
	return vM2Hash2(c, gvr)
}

// spec: compute_signing_root(root, compute_domain(DOMAIN_BEACON_PROPOSER = 0x00000000, version, gvr))
func vM2ProposerSigningRoot(blockRoot common.Root, v common.Version, gvr common.Root) [32]byte {
	fdr := vM2ForkDataRoot(v, gvr)
	var dom [32]byte // domain_type (4 zero bytes) + fork_data_root[:28]
	copy(dom[4:], fdr[:28])
	return vM2Hash2(blockRoot, dom)
}

// vM2SignedBlock: what the four later forks' signed blocks have in common.
type vM2SignedBlock interface {
	common.EnvelopeBuilder
	HashTreeRoot(spec *common.Spec, hFn tree.HashFn) common.Root
}

// VerifHarness_C14_envelope_forks: the phase0 envelope claim (VerifHarness_C14_envelope) for the signed blocks of
// altair, bellatrix, capella and deneb:
// (a) SignedBeaconBlock.Envelope(spec, digest) carries the block's slot, proposer index, parent root, state root, the
// signature and the digest it was given; BodyRoot is hash_tree_root(body) and Body is the block's body; BlockRoot is
// hash_tree_root(message) - the spec's merkleization of the five BeaconBlock fields, transcribed with the raw hash, and
// also the message's own HashTreeRoot (so not the root of the signed container, whose merkleization has two leaves);
// (b) VerifySignature(spec, genesis_validators_root, proposer, pubkey) is true exactly when the proposer index matches,
// the digest is compute_fork_digest(v, gvr) and the key and signature deserialise and BLS-verify over
// compute_signing_root(block root, compute_domain(DOMAIN_BEACON_PROPOSER, v, gvr)) for v = the version the
// configuration's schedule puts in force at the block's slot (reference: latest fork whose epoch is reached; domain,
// fork data root and signing root transcribed with the raw hash);
// (c) EnvelopeToSignedBeaconBlock gives back a signed block of the same fork type with the same hash-tree-root as the
// original signed block.
// Bounds/assumptions: tiny preset list limits (VTinySpec plus vTySpec's additions); bodies with n = 0 or 1 element in
// every list (operations, transactions, withdrawals, BLS changes, blob commitments) and symbolic scalar leaves (the C04
// body builders); symbolic monotone fork schedule with epochs < 2^58 or FAR_FUTURE, pairwise distinct symbolic versions
// (the block's own fork need not be the fork the slot implies - a peer may send anything); slot < 2^58; SLOTS_PER_EPOCH
// in {1, 2, 8, 32}; two symbolic bytes in roots, signature and key; the digest is either the reference digest of the
// fork in force at the slot or any four bytes. Hash and BLS uninterpreted.
// Shards: Choose #1 = fork (0 altair, 1 bellatrix, 2 capella, 3 deneb), #2 = n (0, 1), #3 = SLOTS_PER_EPOCH (4).
// Run with -merge=false (path by path every obligation folds; with merging the signature obligation takes ~8 s per
// query). Param rawhash=0 replaces the transcribed domain/digest/signing-root by the library's helpers (same result).
func VerifHarness_C14_envelope_forks() {
	fork := zzverif.Choose(4)
	n := zzverif.Choose(2)
	spec := vTySpec()
	sched := vSpecSPE([]uint64{1, 2, 8, 32})
	zzverif.Assume(vMonotone(sched))
	spec.SLOTS_PER_EPOCH = sched.SLOTS_PER_EPOCH
	spec.ALTAIR_FORK_EPOCH, spec.BELLATRIX_FORK_EPOCH, spec.CAPELLA_FORK_EPOCH = sched.ALTAIR_FORK_EPOCH, sched.BELLATRIX_FORK_EPOCH, sched.CAPELLA_FORK_EPOCH
	spec.DENEB_FORK_EPOCH, spec.ELECTRA_FORK_EPOCH, spec.FULU_FORK_EPOCH = sched.DENEB_FORK_EPOCH, sched.ELECTRA_FORK_EPOCH, sched.FULU_FORK_EPOCH
	spec.GENESIS_FORK_VERSION, spec.ALTAIR_FORK_VERSION, spec.BELLATRIX_FORK_VERSION = sched.GENESIS_FORK_VERSION, sched.ALTAIR_FORK_VERSION, sched.BELLATRIX_FORK_VERSION
	spec.CAPELLA_FORK_VERSION, spec.DENEB_FORK_VERSION, spec.ELECTRA_FORK_VERSION, spec.FULU_FORK_VERSION = sched.CAPELLA_FORK_VERSION, sched.DENEB_FORK_VERSION, sched.ELECTRA_FORK_VERSION, sched.FULU_FORK_VERSION

	gvr := common.Root{}
	gvr[0], gvr[31] = zzverif.NondetU8(), zzverif.NondetU8()
	slot := common.Slot(zzverif.NondetU64())
	zzverif.Assume(slot < 1<<58)
	proposerIndex := common.ValidatorIndex(zzverif.NondetU8())
	parent, state := vTyRoot(), vTyRoot()
	sig := vTySig()
	h := tree.GetHashFn()

	var b vM2SignedBlock
	var body interface{}                  // address of the block's body
	var bodyRoot, msgRoot common.Root     // struct-form roots of body and message
	var sameType func(x interface{}) bool // the fork's signed block type
	switch fork {
	case 0:
		x := &altair.SignedBeaconBlock{Message: altair.BeaconBlock{Slot: slot, ProposerIndex: proposerIndex, ParentRoot: parent, StateRoot: state, Body: vTyAltairBody(spec, n)}, Signature: sig}
		b, body, bodyRoot, msgRoot = x, &x.Message.Body, x.Message.Body.HashTreeRoot(spec, h), x.Message.HashTreeRoot(spec, h)
		sameType = func(y interface{}) bool { _, ok := y.(*altair.SignedBeaconBlock); return ok }
	case 1:
		x := &bellatrix.SignedBeaconBlock{Message: bellatrix.BeaconBlock{Slot: slot, ProposerIndex: proposerIndex, ParentRoot: parent, StateRoot: state, Body: vTyBellatrixBody(spec, n)}, Signature: sig}
		b, body, bodyRoot, msgRoot = x, &x.Message.Body, x.Message.Body.HashTreeRoot(spec, h), x.Message.HashTreeRoot(spec, h)
		sameType = func(y interface{}) bool { _, ok := y.(*bellatrix.SignedBeaconBlock); return ok }
	case 2:
		x := &capella.SignedBeaconBlock{Message: capella.BeaconBlock{Slot: slot, ProposerIndex: proposerIndex, ParentRoot: parent, StateRoot: state, Body: vTyCapellaBody(spec, n)}, Signature: sig}
		b, body, bodyRoot, msgRoot = x, &x.Message.Body, x.Message.Body.HashTreeRoot(spec, h), x.Message.HashTreeRoot(spec, h)
		sameType = func(y interface{}) bool { _, ok := y.(*capella.SignedBeaconBlock); return ok }
	case 3:
		x := &deneb.SignedBeaconBlock{Message: deneb.BeaconBlock{Slot: slot, ProposerIndex: proposerIndex, ParentRoot: parent, StateRoot: state, Body: vTyDenebBody(spec, n)}, Signature: sig}
		b, body, bodyRoot, msgRoot = x, &x.Message.Body, x.Message.Body.HashTreeRoot(spec, h), x.Message.HashTreeRoot(spec, h)
		sameType = func(y interface{}) bool { _, ok := y.(*deneb.SignedBeaconBlock); return ok }
	}
	signedRoot := b.HashTreeRoot(spec, h)

	// reference: the fork in force at the slot, its version
	f := int(zzverif.Concrete(uint64(vForkAt(spec, common.Epoch(uint64(slot)/uint64(spec.SLOTS_PER_EPOCH))))))
	ver := vVersions(spec)[f]
	rawHash := zzverif.Param("rawhash", 1) == 1 // 1: domain/digest/signing root transcribed with the raw hash; 0: the library's helpers
	var wantDigest common.ForkDigest
	if rawHash {
		fdr := vM2ForkDataRoot(ver, gvr)
		copy(wantDigest[:], fdr[:4])
	} else {
		wantDigest = common.ComputeForkDigest(ver, gvr)
	}

	digest := wantDigest
	if zzverif.NondetBool() {
		digest = common.ForkDigest(zzverif.NondetBytes4()) // a peer may claim any digest
	}
	zzverif.Reach("envelope-forks")
	env := b.Envelope(spec, digest)
	zzverif.Assert(env != nil, "Envelope returns an envelope")
	if env == nil {
		return
	}
	zzverif.Assert(env.Slot == slot && env.ProposerIndex == proposerIndex && env.ParentRoot == parent &&
		env.StateRoot == state && env.Signature == sig && env.ForkDigest == digest, "envelope carries the block's header fields, signature and digest")
	zzverif.Assert(env.BodyRoot == bodyRoot, "envelope body root is the body's root")
	zzverif.Assert(interface{}(env.Body) == body, "envelope body is the block's body")
	zzverif.Assert(env.BlockRoot == msgRoot, "envelope block root is the block's root")
	zzverif.Assert(env.BlockRoot == vM2BlockRoot(slot, proposerIndex, parent, state, bodyRoot), "envelope block root is the merkleization of the five block fields")

	back, err := EnvelopeToSignedBeaconBlock(env)
	zzverif.Assert(err == nil && back != nil, "an envelope of a known fork converts back")
	if err == nil && back != nil {
		zzverif.Assert(sameType(back), "envelope -> signed block keeps the fork's block type")
		zzverif.Assert(back.HashTreeRoot(spec, h) == signedRoot, "envelope -> signed block preserves the signed block's root")
	}

	// signature check through the envelope
	var pub common.BLSPubkey
	pub[0], pub[47] = zzverif.NondetU8(), zzverif.NondetU8()
	cached := &common.CachedPubkey{Compressed: pub}
	proposer := common.ValidatorIndex(zzverif.NondetU8())
	got := env.VerifySignature(spec, gvr, proposer, cached)
	root := vM2ProposerSigningRoot(msgRoot, ver, gvr)
	if !rawHash {
		root = common.ComputeSigningRoot(msgRoot, common.ComputeDomain(common.DOMAIN_BEACON_PROPOSER, ver, gvr))
	}
	want := proposer == proposerIndex && digest == wantDigest &&
		zzverif.BLSPubkeyValid(pub) && zzverif.BLSSigValid(sig) && zzverif.BLSVerify(pub, root[:], sig)
	zzverif.Assert(got == want, "the envelope check accepts exactly a proposer signature under the version the slot implies, with that fork's digest")
}
