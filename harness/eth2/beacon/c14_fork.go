package beacon

import (
	"github.com/protolambda/zrnt/eth2/beacon/altair"
	"github.com/protolambda/zrnt/eth2/beacon/bellatrix"
	"github.com/protolambda/zrnt/eth2/beacon/capella"
	"github.com/protolambda/zrnt/eth2/beacon/common"
	"github.com/protolambda/zrnt/eth2/beacon/deneb"
	"github.com/protolambda/zrnt/eth2/beacon/electra"
	"github.com/protolambda/zrnt/eth2/beacon/phase0"
	"github.com/protolambda/zrnt/eth2/zzverif"
)

const vFar = ^uint64(0)

func vForkEpoch() common.Epoch {
	e := zzverif.NondetU64()
	zzverif.Assume(e < 1<<58 || e == vFar)
	return common.Epoch(e)
}

// vSpec: symbolic fork schedule (any ordering), symbolic pairwise-distinct versions, SLOTS_PER_EPOCH case-split.
func vSpec() *common.Spec { return vSpecSPE([]uint64{1, 2, 6, 8, 16, 32}) }

func vSpecSPE(spes []uint64) *common.Spec {
	spec := &common.Spec{}
	spec.SLOTS_PER_EPOCH = common.Slot(spes[zzverif.Choose(len(spes))])
	spec.ALTAIR_FORK_EPOCH = vForkEpoch()
	spec.BELLATRIX_FORK_EPOCH = vForkEpoch()
	spec.CAPELLA_FORK_EPOCH = vForkEpoch()
	spec.DENEB_FORK_EPOCH = vForkEpoch()
	spec.ELECTRA_FORK_EPOCH = vForkEpoch()
	spec.FULU_FORK_EPOCH = vForkEpoch()
	vs := [7]common.Version{}
	for i := range vs {
		vs[i] = common.Version(zzverif.NondetBytes4())
		for j := 0; j < i; j++ {
			zzverif.Assume(vs[i] != vs[j])
		}
	}
	spec.GENESIS_FORK_VERSION, spec.ALTAIR_FORK_VERSION, spec.BELLATRIX_FORK_VERSION = vs[0], vs[1], vs[2]
	spec.CAPELLA_FORK_VERSION, spec.DENEB_FORK_VERSION, spec.ELECTRA_FORK_VERSION, spec.FULU_FORK_VERSION = vs[3], vs[4], vs[5], vs[6]
	return spec
}

// vForkAt is the reference: index of the fork in force at epoch for a (not necessarily monotone) schedule,
// evaluated as the specification does for monotone schedules: the latest fork whose epoch has been reached.
func vForkAt(spec *common.Spec, epoch common.Epoch) int {
	es := []common.Epoch{spec.ALTAIR_FORK_EPOCH, spec.BELLATRIX_FORK_EPOCH, spec.CAPELLA_FORK_EPOCH, spec.DENEB_FORK_EPOCH, spec.ELECTRA_FORK_EPOCH, spec.FULU_FORK_EPOCH}
	f := 0
	for i, e := range es {
		if epoch >= e {
			f = i + 1
		}
	}
	return f
}

func vMonotone(spec *common.Spec) bool {
	return spec.ALTAIR_FORK_EPOCH <= spec.BELLATRIX_FORK_EPOCH && spec.BELLATRIX_FORK_EPOCH <= spec.CAPELLA_FORK_EPOCH &&
		spec.CAPELLA_FORK_EPOCH <= spec.DENEB_FORK_EPOCH && spec.DENEB_FORK_EPOCH <= spec.ELECTRA_FORK_EPOCH && spec.ELECTRA_FORK_EPOCH <= spec.FULU_FORK_EPOCH
}

func vVersions(spec *common.Spec) [7]common.Version {
	return [7]common.Version{spec.GENESIS_FORK_VERSION, spec.ALTAIR_FORK_VERSION, spec.BELLATRIX_FORK_VERSION, spec.CAPELLA_FORK_VERSION,
		spec.DENEB_FORK_VERSION, spec.ELECTRA_FORK_VERSION, spec.FULU_FORK_VERSION}
}

// VerifHarness_C14_lookup_any_order: for every ordering of the fork epochs, the version reported by the
// configuration and the digest selected by the fork decoder name the same fork.
func VerifHarness_C14_lookup_any_order() {
	spec := vSpec()
	gvr := common.Root(zzverif.NondetBytes32())
	slot := zzverif.NondetU64()
	zzverif.Assume(slot < 1<<63)
	d := NewForkDecoder(spec, gvr)
	zzverif.Reach("lookup")
	v := spec.ForkVersion(common.Slot(slot))
	dg := d.ForkDigest(spec.SlotToEpoch(common.Slot(slot)))
	zzverif.Assert(dg == common.ComputeForkDigest(v, gvr), "ForkDecoder.ForkDigest(epoch) is the digest of Spec.ForkVersion(slot)")
}

// VerifHarness_C14_lookup_monotone: for non-decreasing schedules (equal, adjacent, never-activated forks included)
// version, digest and allocated block type are those of the reference fork_at(epoch).
func VerifHarness_C14_lookup_monotone() {
	spec := vSpec()
	zzverif.Assume(vMonotone(spec))
	gvr := common.Root(zzverif.NondetBytes32())
	slot := zzverif.NondetU64()
	zzverif.Assume(slot < 1<<63)
	epoch := spec.SlotToEpoch(common.Slot(slot))
	d := NewForkDecoder(spec, gvr)
	f := int(zzverif.Concrete(uint64(vForkAt(spec, epoch))))
	zzverif.Reach("monotone")
	vs := vVersions(spec)
	zzverif.Assert(spec.ForkVersion(common.Slot(slot)) == vs[f], "Spec.ForkVersion(slot) is the version of fork_at(epoch)")
	dg := d.ForkDigest(epoch)
	zzverif.Assert(dg == common.ComputeForkDigest(vs[f], gvr), "ForkDecoder.ForkDigest(epoch) is the digest of fork_at(epoch)")
	// digests are assumed collision-free among the seven versions (true for SHA-256 on any real configuration)
	ds := [7]common.ForkDigest{d.Genesis, d.Altair, d.Bellatrix, d.Capella, d.Deneb, d.Electra, d.Fulu}
	for i := range ds {
		for j := 0; j < i; j++ {
			zzverif.Assume(ds[i] != ds[j])
		}
	}
	alloc, err := d.BlockAllocator(dg)
	if f == 6 {
		return // no Fulu block type exists in the library; not claimed
	}
	zzverif.Assert(err == nil, "BlockAllocator knows the digest of fork_at(epoch)")
	if err != nil {
		return
	}
	b := alloc()
	got := -1
	switch b.(type) {
	case *phase0.SignedBeaconBlock:
		got = 0
	case *altair.SignedBeaconBlock:
		got = 1
	case *bellatrix.SignedBeaconBlock:
		got = 2
	case *capella.SignedBeaconBlock:
		got = 3
	case *deneb.SignedBeaconBlock:
		got = 4
	case *electra.SignedBeaconBlock:
		got = 5
	}
	zzverif.Assert(got == f, "BlockAllocator(digest) allocates the block type of fork_at(epoch)")
}
