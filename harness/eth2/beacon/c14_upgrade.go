package beacon

import (
	"context"

	"github.com/protolambda/zrnt/eth2/beacon/altair"
	"github.com/protolambda/zrnt/eth2/beacon/bellatrix"
	"github.com/protolambda/zrnt/eth2/beacon/capella"
	"github.com/protolambda/zrnt/eth2/beacon/common"
	"github.com/protolambda/zrnt/eth2/beacon/deneb"
	"github.com/protolambda/zrnt/eth2/beacon/electra"
	"github.com/protolambda/zrnt/eth2/beacon/phase0"
	"github.com/protolambda/zrnt/eth2/zzverif"
)

// Overrides (group "upg"): the per-fork upgrade functions return an empty state view of the next fork's type,
// Slot() of every fork's view returns the harness-chosen slot, sync-committee hydration is a no-op. What is
// left of the real code is exactly StandardUpgradeableBeaconState.UpgradeMaybe: which upgrades run at which slot.

var vUpgSlot common.Slot

const VerifOverrideTarget_upg__p0slot = "(*github.com/protolambda/zrnt/eth2/beacon/phase0.BeaconStateView).Slot"

func VerifOverride_upg__p0slot(s *phase0.BeaconStateView) (common.Slot, error) { return vUpgSlot, nil }

const VerifOverrideTarget_upg__a1slot = "(*github.com/protolambda/zrnt/eth2/beacon/altair.BeaconStateView).Slot"

func VerifOverride_upg__a1slot(s *altair.BeaconStateView) (common.Slot, error) { return vUpgSlot, nil }

const VerifOverrideTarget_upg__b2slot = "(*github.com/protolambda/zrnt/eth2/beacon/bellatrix.BeaconStateView).Slot"

func VerifOverride_upg__b2slot(s *bellatrix.BeaconStateView) (common.Slot, error) { return vUpgSlot, nil }

const VerifOverrideTarget_upg__c3slot = "(*github.com/protolambda/zrnt/eth2/beacon/capella.BeaconStateView).Slot"

func VerifOverride_upg__c3slot(s *capella.BeaconStateView) (common.Slot, error) { return vUpgSlot, nil }

const VerifOverrideTarget_upg__d4slot = "(*github.com/protolambda/zrnt/eth2/beacon/deneb.BeaconStateView).Slot"

func VerifOverride_upg__d4slot(s *deneb.BeaconStateView) (common.Slot, error) { return vUpgSlot, nil }

const VerifOverrideTarget_upg__e5slot = "(*github.com/protolambda/zrnt/eth2/beacon/electra.BeaconStateView).Slot"

func VerifOverride_upg__e5slot(s *electra.BeaconStateView) (common.Slot, error) { return vUpgSlot, nil }

const VerifOverrideTarget_upg__toAltair = "github.com/protolambda/zrnt/eth2/beacon/altair.UpgradeToAltair"

func VerifOverride_upg__toAltair(spec *common.Spec, epc *common.EpochsContext, pre *phase0.BeaconStateView) (*altair.BeaconStateView, error) {
	return &altair.BeaconStateView{}, nil
}

const VerifOverrideTarget_upg__toBellatrix = "github.com/protolambda/zrnt/eth2/beacon/bellatrix.UpgradeToBellatrix"

func VerifOverride_upg__toBellatrix(spec *common.Spec, epc *common.EpochsContext, pre *altair.BeaconStateView) (*bellatrix.BeaconStateView, error) {
	return &bellatrix.BeaconStateView{}, nil
}

const VerifOverrideTarget_upg__toCapella = "github.com/protolambda/zrnt/eth2/beacon/capella.UpgradeToCapella"

func VerifOverride_upg__toCapella(spec *common.Spec, epc *common.EpochsContext, pre *bellatrix.BeaconStateView) (*capella.BeaconStateView, error) {
	return &capella.BeaconStateView{}, nil
}

const VerifOverrideTarget_upg__toDeneb = "github.com/protolambda/zrnt/eth2/beacon/deneb.UpgradeToDeneb"

func VerifOverride_upg__toDeneb(spec *common.Spec, epc *common.EpochsContext, pre *capella.BeaconStateView) (*deneb.BeaconStateView, error) {
	return &deneb.BeaconStateView{}, nil
}

const VerifOverrideTarget_upg__toElectra = "github.com/protolambda/zrnt/eth2/beacon/electra.UpgradeToElectra"

func VerifOverride_upg__toElectra(spec *common.Spec, epc *common.EpochsContext, pre *deneb.BeaconStateView) (*electra.BeaconStateView, error) {
	return &electra.BeaconStateView{}, nil
}

const VerifOverrideTarget_upg__loadSync = "(*github.com/protolambda/zrnt/eth2/beacon/common.EpochsContext).LoadSyncCommittees"

func VerifOverride_upg__loadSync(epc *common.EpochsContext, state common.SyncCommitteeBeaconState) error {
	return nil
}

func vStateOfFork(f int) common.BeaconState {
	switch f {
	case 0:
		return &phase0.BeaconStateView{}
	case 1:
		return &altair.BeaconStateView{}
	case 2:
		return &bellatrix.BeaconStateView{}
	case 3:
		return &capella.BeaconStateView{}
	case 4:
		return &deneb.BeaconStateView{}
	}
	return &electra.BeaconStateView{}
}

func vForkOfState(s common.BeaconState) int {
	switch s.(type) {
	case *phase0.BeaconStateView:
		return 0
	case *altair.BeaconStateView:
		return 1
	case *bellatrix.BeaconStateView:
		return 2
	case *capella.BeaconStateView:
		return 3
	case *deneb.BeaconStateView:
		return 4
	case *electra.BeaconStateView:
		return 5
	}
	return -1
}

// VerifHarness_C14_upgrade_step: one inductive step of "the state type names fork_at(epoch(slot))": a state whose type is
// fork_at(epoch(s-1)), after its slot became s >= 1, has type fork_at(epoch(s)) after the real UpgradeMaybe - for every
// non-decreasing schedule with equal, adjacent and never-activated forks (Fulu has no state type and is kept inactive).
func VerifHarness_C14_upgrade_step() {
	zzverif.UseOverrides("upg")
	spec := vSpecSPE([]uint64{1, 2, 8, 32}) // powers of two: epoch*SLOTS_PER_EPOCH stays a shift for the solver
	zzverif.Assume(vMonotone(spec))
	zzverif.Assume(uint64(spec.FULU_FORK_EPOCH) == vFar)
	s := zzverif.NondetU64()
	zzverif.Assume(s >= 1 && s < 1<<58)
	pre := int(zzverif.Concrete(uint64(vForkAt(spec, spec.SlotToEpoch(common.Slot(s-1))))))
	want := int(zzverif.Concrete(uint64(vForkAt(spec, spec.SlotToEpoch(common.Slot(s))))))
	zzverif.Reach("upgrade-step")
	vUpgSlot = common.Slot(s)
	st := &StandardUpgradeableBeaconState{BeaconState: vStateOfFork(pre)}
	err := st.UpgradeMaybe(context.Background(), spec, &common.EpochsContext{})
	zzverif.Assert(err == nil, "UpgradeMaybe succeeds when the upgrade functions succeed")
	zzverif.Assert(vForkOfState(st.BeaconState) == want, "after UpgradeMaybe the state type is fork_at(epoch(slot))")
}
