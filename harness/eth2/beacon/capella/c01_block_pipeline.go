package capella

import (
	"bytes"

	"github.com/protolambda/zrnt/eth2/beacon/altair"
	"github.com/protolambda/zrnt/eth2/beacon/common"
	"github.com/protolambda/zrnt/eth2/beacon/phase0"
	"github.com/protolambda/zrnt/eth2/zzverif"
	"github.com/protolambda/ztyp/codec"
	"github.com/protolambda/ztyp/tree"
	. "github.com/protolambda/ztyp/view"
)

const vPlFar = ^common.Epoch(0)

func vPlPub(i int) (p common.BLSPubkey) { p[0] = byte(i + 1); p[47] = 0xa0 + byte(i); return }

func vPlSig() (s common.BLSSignature) { s[0] = zzverif.NondetU8(); s[95] = zzverif.NondetU8(); return }

func vPlIsqrt(n uint64) uint64 {
	x, y := n, (n+1)/2
	for y < x {
		x, y = y, (y+n/y)/2
	}
	return x
}

// vPlViewFieldRoots / vPlRawFieldRoots: the hash-tree-roots of the 28 top-level fields of a capella state, view and struct form.
func vPlViewFieldRoots(st *BeaconStateView) []common.Root {
	h := tree.GetHashFn()
	var out []common.Root
	for i := range st.Fields {
		v, err := st.Get(uint64(i))
		zzverif.Assert(err == nil, "state field view")
		out = append(out, v.HashTreeRoot(h))
	}
	return out
}

func vPlRawFieldRoots(spec *common.Spec, raw *BeaconState) []common.Root {
	h := tree.GetHashFn()
	return []common.Root{
		raw.GenesisTime.HashTreeRoot(h), raw.GenesisValidatorsRoot, raw.Slot.HashTreeRoot(h), raw.Fork.HashTreeRoot(h),
		raw.LatestBlockHeader.HashTreeRoot(h), raw.BlockRoots.HashTreeRoot(spec, h), raw.StateRoots.HashTreeRoot(spec, h),
		raw.HistoricalRoots.HashTreeRoot(spec, h),
		raw.Eth1Data.HashTreeRoot(h), raw.Eth1DataVotes.HashTreeRoot(spec, h), raw.Eth1DepositIndex.HashTreeRoot(h),
		raw.Validators.HashTreeRoot(spec, h), raw.Balances.HashTreeRoot(spec, h), raw.RandaoMixes.HashTreeRoot(spec, h),
		raw.Slashings.HashTreeRoot(spec, h),
		raw.PreviousEpochParticipation.HashTreeRoot(spec, h), raw.CurrentEpochParticipation.HashTreeRoot(spec, h),
		raw.JustificationBits.HashTreeRoot(h), raw.PreviousJustifiedCheckpoint.HashTreeRoot(h),
		raw.CurrentJustifiedCheckpoint.HashTreeRoot(h), raw.FinalizedCheckpoint.HashTreeRoot(h),
		raw.InactivityScores.HashTreeRoot(spec, h),
		raw.CurrentSyncCommittee.HashTreeRoot(spec, h), raw.NextSyncCommittee.HashTreeRoot(spec, h),
		raw.LatestExecutionPayloadHeader.HashTreeRoot(h),
		raw.NextWithdrawalIndex.HashTreeRoot(h), raw.NextWithdrawalValidatorIndex.HashTreeRoot(h),
		raw.HistoricalSummaries.HashTreeRoot(spec, h),
	}
}

func vPlFieldName(i int) string {
	switch i {
	case _stateLatestBlockHeader:
		return "latest_block_header"
	case _stateEth1Data:
		return "eth1_data"
	case _stateEth1DataVotes:
		return "eth1_data_votes"
	case _stateEth1DepositIndex:
		return "eth1_deposit_index"
	case _stateValidators:
		return "validators"
	case _stateBalances:
		return "balances"
	case _stateRandaoMixes:
		return "randao_mixes"
	case _stateSlashings:
		return "slashings"
	case _statePreviousEpochParticipation:
		return "previous_epoch_participation"
	case _stateCurrentEpochParticipation:
		return "current_epoch_participation"
	case _inactivityScores:
		return "inactivity_scores"
	case _latestExecutionPayloadHeader:
		return "latest_execution_payload_header"
	case _nextWithdrawalIndex:
		return "next_withdrawal_index"
	case _nextWithdrawalValidatorIndex:
		return "next_withdrawal_validator_index"
	}
	return "a field no block sub-step writes"
}

func vPlExpectFields(spec *common.Spec, st *BeaconStateView, raw *BeaconState, what string) {
	got := vPlViewFieldRoots(st)
	want := vPlRawFieldRoots(spec, raw)
	zzverif.Assert(len(got) == len(want), "the capella state has 28 fields")
	for i := range want {
		zzverif.Assert(got[i] == want[i], what+": "+vPlFieldName(i))
	}
}

// vPlCapellaWorldT: a well-formed capella state of the tiny preset at slot 3 (epoch 1) with 3 validators active since genesis
// (32 ETH effective balance), a hand-assembled epochs context (pubkey cache from the state, proposer table {slot 2 ->
// validator 0, slot 3 -> validator 1}, sync committee members 0,1,2,0, total active stake 96 ETH and its integer square
// root, no beacon committees: the blocks here carry no attestations) and the stub execution engine of c18_engine.go.
//
//	validator 0: BLS withdrawal credentials 0x00 ++ hash(from_pubkey)[1:], balance 33 ETH  (not withdrawable until a
//	             BLS-to-execution change has been processed)
//	validator 1: BLS withdrawal credentials (arbitrary), balance 32 ETH; the proposer of slot 3
//	validator 2: eth1 withdrawal credentials, balance 32 ETH + x (0 < x < 2^32): partially withdrawable
type vPlCapellaWorldT struct {
	spec    *common.Spec
	raw     *BeaconState
	st      *BeaconStateView
	epc     *common.EpochsContext
	eng     *vFcEngine
	fromPub common.BLSPubkey
	excess  uint64
	addr2   common.Eth1Address
	partRew uint64
}

func vPlCapellaWorld(depositCountAhead uint64) *vPlCapellaWorldT {
	spec := common.VTinySpec()
	n := 3
	slot := uint64(3)
	w := &vPlCapellaWorldT{spec: spec}
	raw := &BeaconState{}
	gt := zzverif.NondetU64()
	zzverif.Assume(gt < 1<<40)
	raw.GenesisTime = common.Timestamp(gt)
	raw.GenesisValidatorsRoot = vFcR()
	raw.Slot = common.Slot(slot)
	raw.Fork = common.Fork{PreviousVersion: spec.BELLATRIX_FORK_VERSION, CurrentVersion: spec.CAPELLA_FORK_VERSION, Epoch: 0}
	raw.LatestBlockHeader = common.BeaconBlockHeader{Slot: common.Slot(slot - 1), ProposerIndex: 0, ParentRoot: vFcR(), StateRoot: vFcR(), BodyRoot: vFcR()}
	raw.BlockRoots = make([]common.Root, spec.SLOTS_PER_HISTORICAL_ROOT)
	raw.StateRoots = make([]common.Root, spec.SLOTS_PER_HISTORICAL_ROOT)
	for i := range raw.BlockRoots {
		raw.BlockRoots[i], raw.StateRoots[i] = vFcR(), vFcR()
	}
	raw.Eth1Data = common.Eth1Data{DepositRoot: vFcR(), DepositCount: common.DepositIndex(uint64(n) + depositCountAhead), BlockHash: vFcR()}
	raw.Eth1DepositIndex = common.DepositIndex(n)
	w.fromPub[0], w.fromPub[47] = zzverif.NondetU8(), zzverif.NondetU8()
	x := zzverif.NondetU64()
	zzverif.Assume(x > 0 && x < 1<<32)
	w.excess = x
	w.addr2[0], w.addr2[19] = zzverif.NondetU8(), zzverif.NondetU8()
	for i := 0; i < n; i++ {
		v := &phase0.Validator{Pubkey: vPlPub(i), EffectiveBalance: spec.MAX_EFFECTIVE_BALANCE, ExitEpoch: vPlFar, WithdrawableEpoch: vPlFar}
		bal := uint64(spec.MAX_EFFECTIVE_BALANCE)
		switch i {
		case 0:
			v.WithdrawalCredentials = common.Root(zzverif.Hash(w.fromPub[:]))
			v.WithdrawalCredentials[0] = 0x00
			bal += 1000000000
		case 1:
			v.WithdrawalCredentials = vFcR()
			v.WithdrawalCredentials[0] = 0x00
		case 2:
			v.WithdrawalCredentials[0] = 0x01
			copy(v.WithdrawalCredentials[12:], w.addr2[:])
			bal += x
		}
		raw.Validators = append(raw.Validators, v)
		raw.Balances = append(raw.Balances, common.Gwei(bal))
		raw.PreviousEpochParticipation = append(raw.PreviousEpochParticipation, altair.ParticipationFlags(0))
		raw.CurrentEpochParticipation = append(raw.CurrentEpochParticipation, altair.ParticipationFlags(0))
		raw.InactivityScores = append(raw.InactivityScores, Uint64View(0))
	}
	raw.RandaoMixes = make([]common.Root, spec.EPOCHS_PER_HISTORICAL_VECTOR)
	for i := range raw.RandaoMixes {
		raw.RandaoMixes[i] = vFcR()
	}
	raw.Slashings = make([]common.Gwei, spec.EPOCHS_PER_SLASHINGS_VECTOR)
	raw.JustificationBits = common.JustificationBits{0}
	for _, sc := range []*common.SyncCommittee{&raw.CurrentSyncCommittee, &raw.NextSyncCommittee} {
		for _, m := range []int{0, 1, 2, 0} {
			sc.Pubkeys = append(sc.Pubkeys, vPlPub(m))
		}
		sc.AggregatePubkey[0] = zzverif.NondetU8()
	}
	raw.LatestExecutionPayloadHeader = *vFcHeader()
	wi := zzverif.NondetU64()
	zzverif.Assume(wi < 1<<32)
	raw.NextWithdrawalIndex = common.WithdrawalIndex(wi)
	raw.NextWithdrawalValidatorIndex = 0
	w.raw = raw

	var buf bytes.Buffer
	zzverif.Assert(raw.Serialize(spec, codec.NewEncodingWriter(&buf)) == nil, "capella state serializes")
	data := buf.Bytes()
	st, err := AsBeaconStateView(BeaconStateType(spec).Deserialize(codec.NewDecodingReader(bytes.NewReader(data), uint64(len(data)))))
	zzverif.Assert(err == nil, "schema codec decodes the struct codec's bytes")
	w.st = st

	vals, _ := st.Validators()
	pc, perr := common.NewPubkeyCache(vals)
	zzverif.Assert(perr == nil, "NewPubkeyCache")
	total := uint64(n) * uint64(spec.MAX_EFFECTIVE_BALANCE)
	epc := &common.EpochsContext{Spec: spec, ValidatorPubkeyCache: pc, TotalActiveStake: common.Gwei(total), TotalActiveStakeSqRoot: common.Gwei(vPlIsqrt(total))}
	all := []common.ValidatorIndex{0, 1, 2}
	for range all {
		epc.EffectiveBalances = append(epc.EffectiveBalances, spec.MAX_EFFECTIVE_BALANCE)
	}
	epc.PreviousEpoch = &common.ShufflingEpoch{Epoch: 0, ActiveIndices: all}
	epc.CurrentEpoch = &common.ShufflingEpoch{Epoch: 1, ActiveIndices: all}
	epc.NextEpoch = &common.ShufflingEpoch{Epoch: 2, ActiveIndices: all}
	epc.Proposers = &common.ProposersEpoch{Spec: spec, Epoch: 1, Proposers: []common.ValidatorIndex{0, 1}}
	isc := &common.IndexedSyncCommittee{}
	for _, m := range []int{0, 1, 2, 0} {
		cp, ok := pc.Pubkey(common.ValidatorIndex(m))
		zzverif.Assert(ok, "the pubkey cache knows every validator")
		isc.CachedPubkeys = append(isc.CachedPubkeys, cp)
		isc.Indices = append(isc.Indices, common.ValidatorIndex(m))
	}
	epc.CurrentSyncCommittee = isc
	w.epc = epc
	w.eng = &vFcEngine{}
	spec.ExecutionEngine = w.eng

	// spec: process_sync_aggregate's participant reward
	inc := uint64(spec.EFFECTIVE_BALANCE_INCREMENT)
	perInc := inc * uint64(spec.BASE_REWARD_FACTOR) / vPlIsqrt(total)
	totalBaseRewards := perInc * (total / inc)
	maxParticipantRewards := totalBaseRewards * 2 / 64 / uint64(spec.SLOTS_PER_EPOCH)
	w.partRew = maxParticipantRewards / uint64(spec.SYNC_COMMITTEE_SIZE)
	return w
}

// the failing sub-step (or cancellation point) of a scenario
const (
	vPlScLive         = 0  // nothing fails
	vPlScCancel1      = 1  // 1..6: the context reports cancellation at its k-th poll; 7: at a poll the pipeline never makes
	vPlScBadParent    = 8  // process_block_header: wrong parent root
	vPlScBadWdAmount  = 9  // process_withdrawals: the payload's withdrawal has another amount
	vPlScNoWd         = 10 // process_withdrawals: the payload has no withdrawal
	vPlScBadParentH   = 11 // process_execution_payload: wrong parent hash
	vPlScUnused12     = 12 // (deneb only: too many blob commitments) here: same as 0
	vPlScEngineNo     = 13 // process_execution_payload: the engine refuses the payload
	vPlScBadRandao    = 14 // process_randao: reveal does not verify
	vPlScDepositCount = 15 // process_operations: one deposit outstanding, none in the block
	vPlScBadBLSChange = 16 // process_operations: the BLS-to-execution change's signature does not verify
	vPlScBadSyncSig   = 17 // process_sync_aggregate: signature does not verify
	vPlScStaleRandao  = 18 // process_execution_payload: prev_randao is the mix AFTER this block's reveal
	vPlScenarios      = 19
)

// VerifHarness_C01_capella_block_pipeline: capella's (*BeaconStateView).ProcessBlock runs the spec's sub-steps in the spec's order
//
//	process_block_header; process_withdrawals; process_execution_payload; process_randao; process_eth1_data;
//	process_operations (..., bls_to_execution_changes last); process_sync_aggregate
//
// observed on a minimal valid block (matching header, the one expected withdrawal, a payload the stub engine accepts,
// valid randao reveal, an eth1 vote, no operations except one valid BLS-to-execution change of
// validator 0, a sync aggregate without participants and the infinity signature) in which exactly one thing is wrong
// (Choose #1 = scenario, see the vPlSc constants): the context reports cancellation at its k-th poll (the pipeline polls
// 6 times here: header, payload, randao, eth1 vote, the BLS change, sync aggregate; process_withdrawals does not poll),
// or one sub-step is invalid. Decided for every scenario: the block fails exactly when something is wrong; exactly the
// sub-steps before the failing one have taken effect and nothing after it - every one of the 28 top-level field roots
// of the view equals the root of the struct form of the pre-state with the spec's effects of those sub-steps applied
// (transcribed here: latest_block_header := header with zeroed state root; balance of validator 2 reduced by its excess
// and next_withdrawal_index + 1; latest_execution_payload_header := the payload's header; randao mix ^= hash(reveal);
// eth1_data_votes += vote; validator 0's credentials := 0x01 ++ 0*11 ++ address; sync penalties for all four committee
// seats); the engine is consulted (two queries, about this payload) exactly when the payload sub-step gets as far as the
// engine. Same construction as VerifHarness_C01_deneb_block_pipeline, without blob commitments.
// Order-sensitive facts this pins down: the withdrawals are those expected BEFORE the operations (validator 0 has an
// excess balance but only gets eth1 credentials through this block's BLS change: no withdrawal for it yet); the
// payload's prev_randao must be the mix BEFORE process_randao (scenario 18: the mix after it is refused); the deposit
// count is checked inside the operations, after eth1_data (scenario 15). Scenario 12 (deneb's blob limit) is a second
// live run here.
// The reference calls no processing function of the repository (ExecutionPayload.Header is transcribed).
// Bounds/assumptions: world vPlCapellaWorld (tiny preset, slot 3, 3 validators); symbolic roots (two bytes), excess balance,
// genesis time < 2^40, withdrawal index < 2^32; signatures assumed valid except in the scenario that says otherwise;
// BLS and SHA-256 uninterpreted; axiom: the infinity signature deserialises.
// Shards: Choose #1 = scenario (19).
func VerifHarness_C01_capella_block_pipeline() {
	sc := zzverif.Choose(vPlScenarios)
	ahead := uint64(0)
	if sc == vPlScDepositCount {
		ahead = 1
	}
	w := vPlCapellaWorld(ahead)
	spec, raw := w.spec, w.raw
	h := tree.GetHashFn()
	slot := uint64(raw.Slot)
	epoch := common.Epoch(slot / uint64(spec.SLOTS_PER_EPOCH))
	prop := 1
	gvr := raw.GenesisValidatorsRoot

	// ---- the block ----
	body := &BeaconBlockBody{RandaoReveal: vPlSig(), Graffiti: vFcR()}
	body.Eth1Data = common.Eth1Data{DepositRoot: vFcR(), DepositCount: common.DepositIndex(zzverif.NondetU64()), BlockHash: vFcR()}
	mixIdx := uint64(epoch) % uint64(spec.EPOCHS_PER_HISTORICAL_VECTOR)
	hr := zzverif.Hash(body.RandaoReveal[:])
	var mixAfter common.Root
	for i := range hr {
		mixAfter[i] = raw.RandaoMixes[mixIdx][i] ^ hr[i]
	}
	{ // randao reveal: the proposer's signature over the epoch
		dom := common.ComputeDomain(common.DOMAIN_RANDAO, raw.Fork.CurrentVersion, gvr)
		msg := common.ComputeSigningRoot(epoch.HashTreeRoot(h), dom)
		pub := [48]byte(raw.Validators[prop].Pubkey)
		good := zzverif.BLSPubkeyValid(pub) && zzverif.BLSSigValid([96]byte(body.RandaoReveal)) && zzverif.BLSVerify(pub, msg[:], [96]byte(body.RandaoReveal))
		zzverif.Assume(good == (sc != vPlScBadRandao))
	}
	p := &body.ExecutionPayload
	p.ParentHash = raw.LatestExecutionPayloadHeader.BlockHash
	if sc == vPlScBadParentH {
		p.ParentHash[7] ^= 0x01
	}
	p.PrevRandao = raw.RandaoMixes[mixIdx]
	if sc == vPlScStaleRandao {
		p.PrevRandao = mixAfter
		zzverif.Assume(mixAfter != raw.RandaoMixes[mixIdx])
	}
	p.Timestamp = raw.GenesisTime + common.Timestamp(slot*uint64(spec.SECONDS_PER_SLOT))
	p.StateRoot, p.ReceiptsRoot, p.BlockHash = vFcR(), vFcR(), vFcR()
	p.FeeRecipient[0] = zzverif.NondetU8()
	p.BlockNumber, p.GasLimit, p.GasUsed = Uint64View(zzverif.NondetU64()), Uint64View(zzverif.NondetU64()), Uint64View(zzverif.NondetU64())
	p.Transactions = common.PayloadTransactions{{zzverif.NondetU8(), 0x02}}
	// spec: get_expected_withdrawals on this state: the sweep visits 0, 1, 2; only validator 2 has eth1 credentials (partial)
	wd := common.Withdrawal{Index: raw.NextWithdrawalIndex, ValidatorIndex: 2, Address: w.addr2, Amount: common.Gwei(w.excess)}
	if sc == vPlScBadWdAmount {
		wd.Amount++
	}
	if sc != vPlScNoWd {
		p.Withdrawals = common.Withdrawals{wd}
	}
	if sc == vPlScEngineNo {
		w.eng.verdicts[1] = 1
	}
	// BLS-to-execution change of validator 0
	chg := common.SignedBLSToExecutionChange{Signature: vPlSig()}
	chg.BLSToExecutionChange = common.BLSToExecutionChange{ValidatorIndex: 0, FromBLSPubKey: w.fromPub}
	chg.BLSToExecutionChange.ToExecutionAddress[0], chg.BLSToExecutionChange.ToExecutionAddress[19] = zzverif.NondetU8(), zzverif.NondetU8()
	{
		dom := common.ComputeDomain(common.BLSDomainType{0x0A, 0x00, 0x00, 0x00}, spec.GENESIS_FORK_VERSION, gvr)
		msg := common.ComputeSigningRoot(chg.BLSToExecutionChange.HashTreeRoot(h), dom)
		good := zzverif.BLSPubkeyValid([48]byte(w.fromPub)) && zzverif.BLSSigValid([96]byte(chg.Signature)) && zzverif.BLSVerify([48]byte(w.fromPub), msg[:], [96]byte(chg.Signature))
		zzverif.Assume(good == (sc != vPlScBadBLSChange))
	}
	body.BLSToExecutionChanges = common.SignedBLSToExecutionChanges{chg}
	// sync aggregate
	if sc == vPlScBadSyncSig {
		body.SyncAggregate = altair.SyncAggregate{SyncCommitteeBits: altair.SyncCommitteeBits{0x01}, SyncCommitteeSignature: vPlSig()}
		dom := common.ComputeDomain(common.DOMAIN_SYNC_COMMITTEE, raw.Fork.CurrentVersion, gvr)
		msg := common.ComputeSigningRoot(raw.BlockRoots[(slot-1)%uint64(spec.SLOTS_PER_HISTORICAL_ROOT)], dom)
		pub := [48]byte(raw.Validators[0].Pubkey)
		sig := [96]byte(body.SyncAggregate.SyncCommitteeSignature)
		zzverif.Assume(zzverif.BLSPubkeyValid(pub) && zzverif.BLSSigValid(sig) && !zzverif.BLSFastAggregateVerify([][48]byte{pub}, msg[:], sig))
	} else {
		var inf common.BLSSignature
		inf[0] = 0xc0
		zzverif.Assume(zzverif.BLSSigValid([96]byte(inf)))
		body.SyncAggregate = altair.SyncAggregate{SyncCommitteeBits: altair.SyncCommitteeBits{0x00}, SyncCommitteeSignature: inf}
	}
	header := common.BeaconBlockHeader{Slot: common.Slot(slot), ProposerIndex: common.ValidatorIndex(prop), ParentRoot: raw.LatestBlockHeader.HashTreeRoot(h),
		StateRoot: vFcR(), BodyRoot: body.HashTreeRoot(spec, h)}
	if sc == vPlScBadParent {
		header.ParentRoot = vFcR()
		zzverif.Assume(header.ParentRoot != raw.LatestBlockHeader.HashTreeRoot(h))
	}
	benv := &common.BeaconBlockEnvelope{BeaconBlockHeader: header, Body: body, BlockRoot: header.HashTreeRoot(h), Signature: vPlSig()}
	failAt := -1
	if sc >= vPlScCancel1 && sc < vPlScBadParent {
		failAt = sc - vPlScCancel1
	}
	polls := 0
	ctx := vFcCtx{polls: &polls, failAt: failAt}

	zzverif.Reach("capella-block-pipeline")
	err := w.st.ProcessBlock(ctx, spec, w.epc, benv)

	// ---- how far the spec's process_block gets in this scenario: number of completed sub-steps out of
	// header(1) withdrawals(2) payload(3) randao(4) eth1(5) operations(6) sync aggregate(7) ----
	done, engineAsked := 7, true
	switch sc {
	case vPlScLive, vPlScCancel1 + 6, vPlScUnused12:
	case vPlScCancel1, vPlScBadParent:
		done, engineAsked = 0, false
	case vPlScBadWdAmount, vPlScNoWd:
		done, engineAsked = 1, false
	case vPlScCancel1 + 1, vPlScBadParentH, vPlScStaleRandao:
		done, engineAsked = 2, false
	case vPlScEngineNo:
		done = 2
	case vPlScCancel1 + 2, vPlScBadRandao:
		done = 3
	case vPlScCancel1 + 3:
		done = 4
	case vPlScCancel1 + 4, vPlScDepositCount, vPlScBadBLSChange:
		done = 5
	case vPlScCancel1 + 5, vPlScBadSyncSig:
		done = 6
	}
	zzverif.Assert((err == nil) == (done == 7), "capella ProcessBlock accepts the valid block and fails when a sub-step is invalid or a poll reports cancellation")
	if failAt >= 0 && failAt < 6 {
		zzverif.Assert(polls == failAt+1, "no poll after the one that reported cancellation")
	}
	if done == 7 {
		zzverif.Assert(polls == 6, "the accepted block polls the context once per polling sub-step and once per operation")
	}
	if done >= 1 {
		raw.LatestBlockHeader = header
		raw.LatestBlockHeader.StateRoot = common.Root{}
	}
	if done >= 2 { // process_withdrawals
		raw.Balances[2] -= common.Gwei(w.excess)
		raw.NextWithdrawalIndex++
		// fewer than MAX_WITHDRAWALS_PER_PAYLOAD withdrawals: the cursor advances by the sweep length, (0 + 3) % 3
		raw.NextWithdrawalValidatorIndex = common.ValidatorIndex((uint64(raw.NextWithdrawalValidatorIndex) + uint64(spec.MAX_VALIDATORS_PER_WITHDRAWALS_SWEEP)) % uint64(len(raw.Validators)))
	}
	if done >= 3 { // process_execution_payload: state.latest_execution_payload_header = ExecutionPayloadHeader(payload...)
		raw.LatestExecutionPayloadHeader = ExecutionPayloadHeader{ParentHash: p.ParentHash, FeeRecipient: p.FeeRecipient, StateRoot: p.StateRoot,
			ReceiptsRoot: p.ReceiptsRoot, LogsBloom: p.LogsBloom, PrevRandao: p.PrevRandao, BlockNumber: p.BlockNumber, GasLimit: p.GasLimit,
			GasUsed: p.GasUsed, Timestamp: p.Timestamp, ExtraData: p.ExtraData, BaseFeePerGas: p.BaseFeePerGas, BlockHash: p.BlockHash,
			TransactionsRoot: p.Transactions.HashTreeRoot(spec, h), WithdrawalsRoot: p.Withdrawals.HashTreeRoot(spec, h)}
	}
	if done >= 4 {
		raw.RandaoMixes[mixIdx] = mixAfter
	}
	if done >= 5 {
		raw.Eth1DataVotes = append(raw.Eth1DataVotes, body.Eth1Data) // 1 vote of a period of 4: no majority
	}
	if done >= 6 {
		var nc common.Root
		nc[0] = 0x01
		copy(nc[12:], chg.BLSToExecutionChange.ToExecutionAddress[:])
		raw.Validators[0].WithdrawalCredentials = nc
	}
	if done >= 7 { // no participants: every seat (validators 0, 1, 2, 0) is penalised, the proposer earns nothing
		for _, m := range []int{0, 1, 2, 0} {
			b := uint64(raw.Balances[m])
			raw.Balances[m] = common.Gwei(zzverif.Ite(b < w.partRew, 0, b-w.partRew))
		}
	}
	vPlExpectFields(spec, w.st, raw, "capella process_block, exactly the sub-steps before the failing one")
	if engineAsked {
		zzverif.Assert(len(w.eng.calls) == 2, "the payload sub-step consults the engine (block hash, new payload)")
		for k, c := range w.eng.calls {
			zzverif.Assert(c.kind == k && c.payload == p && c.block == p.BlockHash, "each engine query is about this block's payload, block hash check first")
		}
	} else {
		zzverif.Assert(len(w.eng.calls) == 0, "the engine is not consulted when the block fails before the engine is reached")
	}
}
