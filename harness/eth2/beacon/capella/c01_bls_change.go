package capella

import (
	"bytes"
	"context"

	"github.com/protolambda/zrnt/eth2/beacon/altair"
	"github.com/protolambda/zrnt/eth2/beacon/common"
	"github.com/protolambda/zrnt/eth2/beacon/phase0"
	"github.com/protolambda/zrnt/eth2/zzverif"
	"github.com/protolambda/ztyp/codec"
	"github.com/protolambda/ztyp/tree"
	"github.com/protolambda/ztyp/view"
)

const vMiFarFuture = ^common.Epoch(0)

// vMiCapellaRaw: a well-formed raw capella state of the tiny preset at the first slot of `epoch` with n active
// validators (credentials left zero: the caller sets them), a fork record whose versions both differ from
// GENESIS_FORK_VERSION, symbolic genesis_validators_root (two bytes) and otherwise default content.
func vMiCapellaRaw(spec *common.Spec, n int, epoch uint64) *BeaconState {
	raw := &BeaconState{}
	raw.GenesisValidatorsRoot[0], raw.GenesisValidatorsRoot[31] = zzverif.NondetU8(), zzverif.NondetU8()
	raw.Slot = common.Slot(epoch * uint64(spec.SLOTS_PER_EPOCH))
	raw.Fork = common.Fork{PreviousVersion: spec.BELLATRIX_FORK_VERSION, CurrentVersion: spec.CAPELLA_FORK_VERSION, Epoch: common.Epoch(epoch - 1)}
	raw.LatestBlockHeader.Slot = raw.Slot - 1
	raw.BlockRoots = make([]common.Root, spec.SLOTS_PER_HISTORICAL_ROOT)
	raw.StateRoots = make([]common.Root, spec.SLOTS_PER_HISTORICAL_ROOT)
	raw.RandaoMixes = make([]common.Root, spec.EPOCHS_PER_HISTORICAL_VECTOR)
	raw.Slashings = make([]common.Gwei, spec.EPOCHS_PER_SLASHINGS_VECTOR)
	raw.JustificationBits = common.JustificationBits{0}
	raw.CurrentSyncCommittee.Pubkeys = make([]common.BLSPubkey, spec.SYNC_COMMITTEE_SIZE)
	raw.NextSyncCommittee.Pubkeys = make([]common.BLSPubkey, spec.SYNC_COMMITTEE_SIZE)
	for i := 0; i < n; i++ {
		v := &phase0.Validator{}
		v.Pubkey[0] = byte(i + 1)
		v.EffectiveBalance = spec.MAX_EFFECTIVE_BALANCE
		v.ExitEpoch = vMiFarFuture
		v.WithdrawableEpoch = vMiFarFuture
		raw.Validators = append(raw.Validators, v)
		raw.Balances = append(raw.Balances, spec.MAX_EFFECTIVE_BALANCE)
		raw.PreviousEpochParticipation = append(raw.PreviousEpochParticipation, altair.ParticipationFlags(0))
		raw.CurrentEpochParticipation = append(raw.CurrentEpochParticipation, altair.ParticipationFlags(0))
		raw.InactivityScores = append(raw.InactivityScores, view.Uint64View(0))
	}
	raw.Eth1Data.DepositCount = common.DepositIndex(n)
	raw.Eth1DepositIndex = common.DepositIndex(n)
	return raw
}

// vMiCapellaView: the real tree-backed capella state decoded from the raw state's SSZ.
func vMiCapellaView(spec *common.Spec, raw *BeaconState) *BeaconStateView {
	var buf bytes.Buffer
	err := raw.Serialize(spec, codec.NewEncodingWriter(&buf))
	zzverif.Assert(err == nil, "capella state struct serializes")
	data := buf.Bytes()
	v, err := AsBeaconStateView(BeaconStateType(spec).Deserialize(codec.NewDecodingReader(bytes.NewReader(data), uint64(len(data)))))
	zzverif.Assert(err == nil, "capella view form decodes the struct form's bytes")
	return v
}

// VerifHarness_C01_bls_to_execution_change: ProcessBLSToExecutionChange against the spec's (capella)
// process_bls_to_execution_change.
//
//	assert address_change.validator_index < len(state.validators)
//	validator = state.validators[address_change.validator_index]
//	assert validator.withdrawal_credentials[:1] == BLS_WITHDRAWAL_PREFIX
//	assert validator.withdrawal_credentials[1:] == hash(address_change.from_bls_pubkey)[1:]
//	domain = compute_domain(DOMAIN_BLS_TO_EXECUTION_CHANGE, genesis_validators_root=state.genesis_validators_root)
//	signing_root = compute_signing_root(address_change, domain)
//	assert bls.Verify(address_change.from_bls_pubkey, signing_root, signed_address_change.signature)
//	validator.withdrawal_credentials = ETH1_ADDRESS_WITHDRAWAL_PREFIX + b'\x00' * 11 + address_change.to_execution_address
//
// Claim: accepted exactly when the spec accepts (the domain is built from GENESIS_FORK_VERSION although the state's
// fork record carries two other versions); on accept the whole post-state equals the pre-state with only that
// validator's credentials replaced by 0x01 ++ 11 zero bytes ++ address (state root against the struct form, and the
// credentials of every validator read back); on refusal the state root is the pre-state's.
// Bounds: tiny preset, 2 validators (job parameter validators), validator index symbolic in 0..3, from_bls_pubkey with
// two symbolic bytes, address with two symbolic bytes, signature with two symbolic bytes; each validator's credentials
// are hash(from_bls_pubkey) with a fully symbolic prefix byte and symbolic perturbations (possibly zero) of byte 1 and
// byte 31, or (chosen) an unrelated root with two symbolic bytes and symbolic prefix.
func VerifHarness_C01_bls_to_execution_change() {
	spec := common.VTinySpec()
	n := zzverif.Param("validators", 2)
	shape := zzverif.Choose(2)
	raw := vMiCapellaRaw(spec, n, 5)
	var fromPub common.BLSPubkey
	fromPub[0], fromPub[47] = zzverif.NondetU8(), zzverif.NondetU8()
	hp := zzverif.Hash(fromPub[:])
	for i := 0; i < n; i++ {
		var c common.Root
		if shape == 0 || i > 0 {
			c = hp
			c[1] ^= zzverif.NondetU8()
			c[31] ^= zzverif.NondetU8()
		} else {
			c[5], c[31] = zzverif.NondetU8(), zzverif.NondetU8()
		}
		c[0] = zzverif.NondetU8()
		raw.Validators[i].WithdrawalCredentials = c
	}
	st := vMiCapellaView(spec, raw)
	idx := zzverif.NondetU8()
	zzverif.Assume(idx < 4)
	op := &common.SignedBLSToExecutionChange{}
	op.BLSToExecutionChange.ValidatorIndex = common.ValidatorIndex(idx)
	op.BLSToExecutionChange.FromBLSPubKey = fromPub
	op.BLSToExecutionChange.ToExecutionAddress[0], op.BLSToExecutionChange.ToExecutionAddress[19] = zzverif.NondetU8(), zzverif.NondetU8()
	op.Signature[0], op.Signature[95] = zzverif.NondetU8(), zzverif.NondetU8()
	epc := &common.EpochsContext{Spec: spec}
	h := tree.GetHashFn()
	pre := raw.HashTreeRoot(spec, h)
	zzverif.Reach("bls-to-execution-change")
	err := ProcessBLSToExecutionChange(context.Background(), spec, epc, st, op)

	// spec: process_bls_to_execution_change
	change := op.BLSToExecutionChange
	valid := uint64(change.ValidatorIndex) < uint64(len(raw.Validators))
	i := 0
	if valid {
		i = int(zzverif.Concrete(uint64(change.ValidatorIndex)))
		creds := raw.Validators[i].WithdrawalCredentials
		valid = creds[0] == 0x00
		for k := 1; k < 32; k++ {
			valid = valid && creds[k] == hp[k]
		}
		dom := common.ComputeDomain(common.BLSDomainType{0x0A, 0x00, 0x00, 0x00}, spec.GENESIS_FORK_VERSION, raw.GenesisValidatorsRoot)
		root := common.ComputeSigningRoot(change.HashTreeRoot(h), dom)
		valid = valid && zzverif.BLSPubkeyValid(change.FromBLSPubKey) && zzverif.BLSSigValid(op.Signature) &&
			zzverif.BLSVerify(change.FromBLSPubKey, root[:], op.Signature)
	}
	zzverif.Assert((err == nil) == valid, "ProcessBLSToExecutionChange accepts exactly the changes process_bls_to_execution_change accepts")
	if !valid {
		zzverif.Assert(st.HashTreeRoot(h) == pre, "a refused BLS-to-execution change leaves the state untouched")
		return
	}
	var nc common.Root
	nc[0] = 0x01
	for k := 0; k < 20; k++ {
		nc[12+k] = change.ToExecutionAddress[k]
	}
	raw.Validators[i].WithdrawalCredentials = nc
	vals, _ := st.Validators()
	for j := 0; j < n; j++ {
		v, _ := vals.Validator(common.ValidatorIndex(j))
		got, gerr := v.WithdrawalCredentials()
		zzverif.Assert(gerr == nil && got == raw.Validators[j].WithdrawalCredentials, "withdrawal credentials: the addressed validator gets 0x01 ++ 11 zero bytes ++ address, the others keep theirs")
	}
	zzverif.Assert(st.HashTreeRoot(h) == raw.HashTreeRoot(spec, h), "after an accepted BLS-to-execution change the state is the pre-state with only that validator's credentials replaced")
}
