package capella

import (
	"context"

	"github.com/protolambda/zrnt/eth2/beacon/common"
	"github.com/protolambda/zrnt/eth2/zzverif"
)

type vPayload struct{ ws []common.Withdrawal }

func (p vPayload) GetWitdrawals() []common.Withdrawal { return p.ws }

type vWVal struct {
	creds common.Root
	wdEp  common.Epoch
	eff   common.Gwei
	bal   common.Gwei
}

// spec (capella): get_expected_withdrawals
func vRefExpected(spec *common.Spec, vs []vWVal, epoch common.Epoch, wIndex uint64, vIndex int) []common.Withdrawal {
	var out []common.Withdrawal
	bound := len(vs)
	if uint64(bound) > uint64(spec.MAX_VALIDATORS_PER_WITHDRAWALS_SWEEP) {
		bound = int(spec.MAX_VALIDATORS_PER_WITHDRAWALS_SWEEP)
	}
	for k := 0; k < bound; k++ {
		v := vs[vIndex]
		eth1 := v.creds[0] == common.ETH1_ADDRESS_WITHDRAWAL_PREFIX
		var addr common.Eth1Address
		copy(addr[:], v.creds[12:])
		if eth1 && v.wdEp <= epoch && v.bal > 0 {
			out = append(out, common.Withdrawal{Index: common.WithdrawalIndex(wIndex), ValidatorIndex: common.ValidatorIndex(vIndex), Address: addr, Amount: v.bal})
			wIndex++
		} else if eth1 && v.eff == spec.MAX_EFFECTIVE_BALANCE && v.bal > spec.MAX_EFFECTIVE_BALANCE {
			out = append(out, common.Withdrawal{Index: common.WithdrawalIndex(wIndex), ValidatorIndex: common.ValidatorIndex(vIndex), Address: addr, Amount: v.bal - spec.MAX_EFFECTIVE_BALANCE})
			wIndex++
		}
		if uint64(len(out)) == uint64(spec.MAX_WITHDRAWALS_PER_PAYLOAD) {
			break
		}
		vIndex = (vIndex + 1) % len(vs)
	}
	return out
}

// VerifHarness_C01_withdrawals: capella GetExpectedWithdrawals / ProcessWithdrawals against the spec's
// get_expected_withdrawals / process_withdrawals, on the real capella state, for registries smaller and larger than the
// sweep bound, symbolic credentials, balances, withdrawable epochs and sweep position; a payload whose withdrawals
// differ in any field is refused.
func VerifHarness_C01_withdrawals() {
	spec := common.VTinySpec()
	n := zzverif.Param("validators", 2)
	st := NewBeaconStateView(spec)
	epoch := uint64(5)
	_ = st.SetSlot(common.Slot(epoch * uint64(spec.SLOTS_PER_EPOCH)))
	var vs []vWVal
	for i := 0; i < n; i++ {
		var pub common.BLSPubkey
		pub[0] = byte(i + 1)
		var creds common.Root
		pfx := zzverif.NondetU8()
		zzverif.Assume(pfx <= 1)
		creds[0] = pfx
		creds[12], creds[31] = zzverif.NondetU8(), byte(i)
		zzverif.Assert(st.AddValidator(spec, pub, creds, spec.MAX_EFFECTIVE_BALANCE) == nil, "AddValidator")
		vals, _ := st.Validators()
		v, _ := vals.Validator(common.ValidatorIndex(i))
		we := zzverif.NondetU8()
		zzverif.Assume(we >= 3 && we <= 7)
		_ = v.SetWithdrawableEpoch(common.Epoch(we))
		ek := zzverif.NondetU8()
		zzverif.Assume(ek >= 31 && ek <= 32)
		_ = v.SetEffectiveBalance(common.Gwei(ek) * spec.EFFECTIVE_BALANCE_INCREMENT)
		bk := zzverif.NondetU8()
		zzverif.Assume(bk <= 2)
		bal := []common.Gwei{0, spec.MAX_EFFECTIVE_BALANCE, spec.MAX_EFFECTIVE_BALANCE + common.Gwei(1+uint64(zzverif.NondetU8()))}[bk]
		bals, _ := st.Balances()
		_ = bals.SetBalance(common.ValidatorIndex(i), bal)
		vs = append(vs, vWVal{creds: creds, wdEp: common.Epoch(we), eff: common.Gwei(ek) * spec.EFFECTIVE_BALANCE_INCREMENT, bal: bal})
	}
	wIndex := uint64(zzverif.NondetU8())
	vIndex := zzverif.Choose(n)
	_ = st.SetNextWithdrawalIndex(common.WithdrawalIndex(wIndex))
	_ = st.SetNextWithdrawalValidatorIndex(common.ValidatorIndex(vIndex))
	zzverif.Reach("withdrawals")
	got, err := GetExpectedWithdrawals(st, spec)
	zzverif.Assert(err == nil, "GetExpectedWithdrawals succeeds")
	want := vRefExpected(spec, vs, common.Epoch(epoch), wIndex, vIndex)
	zzverif.Assert(len(got) == len(want), "expected withdrawals: the spec's count (sweep bounded by min(len(validators), MAX_VALIDATORS_PER_WITHDRAWALS_SWEEP))")
	if len(got) != len(want) {
		return
	}
	for i := range want {
		zzverif.Assert(got[i] == want[i], "expected withdrawal i is the spec's (index, validator, address, amount)")
	}
	// a payload carrying exactly the expected withdrawals is accepted and applied as the spec's process_withdrawals
	mode := zzverif.Choose(4) // 0 exact, 1 one entry altered, 2 one surplus entry appended, 3 last entry missing
	corrupt := (mode == 1 || mode == 3) && len(want) > 0 || mode == 2
	payload := append([]common.Withdrawal(nil), want...)
	if mode == 2 {
		extra := common.Withdrawal{Index: common.WithdrawalIndex(wIndex + uint64(len(want))), ValidatorIndex: common.ValidatorIndex(zzverif.Choose(n)), Amount: common.Gwei(zzverif.NondetU8())}
		extra.Address[0] = zzverif.NondetU8()
		payload = append(payload, extra)
	} else if mode == 3 && len(want) > 0 {
		payload = payload[:len(payload)-1]
	} else if corrupt {
		k := zzverif.Choose(len(want))
		switch zzverif.Choose(4) {
		case 0:
			payload[k].Index++
		case 1:
			payload[k].ValidatorIndex++
		case 2:
			payload[k].Address[3] ^= 1
		case 3:
			payload[k].Amount++
		}
	}
	err = ProcessWithdrawals(context.Background(), spec, st, vPayload{payload})
	zzverif.Assert((err == nil) == !corrupt, "ProcessWithdrawals accepts exactly the expected withdrawals (no altered, surplus or missing entry)")
	if corrupt {
		return
	}
	bals, _ := st.Balances()
	dec := make([]common.Gwei, n)
	for _, w := range want {
		dec[int(w.ValidatorIndex)] += w.Amount
	}
	for i := 0; i < n; i++ {
		b, _ := bals.GetBalance(common.ValidatorIndex(i))
		wantB := vs[i].bal - dec[i]
		if dec[i] > vs[i].bal {
			wantB = 0
		}
		zzverif.Assert(b == wantB, "balances are decreased by the withdrawn amounts")
	}
	nwi, _ := st.NextWithdrawalIndex()
	nvi, _ := st.NextWithdrawalValidatorIndex()
	wantWI := wIndex
	if len(want) > 0 {
		wantWI = uint64(want[len(want)-1].Index) + 1
	}
	wantVI := (uint64(vIndex) + uint64(spec.MAX_VALIDATORS_PER_WITHDRAWALS_SWEEP)) % uint64(n)
	if uint64(len(want)) == uint64(spec.MAX_WITHDRAWALS_PER_PAYLOAD) {
		wantVI = (uint64(want[len(want)-1].ValidatorIndex) + 1) % uint64(n)
	}
	zzverif.Assert(uint64(nwi) == wantWI, "next_withdrawal_index as the spec")
	zzverif.Assert(uint64(nvi) == wantVI, "next_withdrawal_validator_index as the spec")
}
