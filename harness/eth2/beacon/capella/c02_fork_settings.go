package capella

import (
	"github.com/protolambda/zrnt/eth2/beacon/altair"
	"github.com/protolambda/zrnt/eth2/beacon/common"
	"github.com/protolambda/zrnt/eth2/beacon/phase0"
	"github.com/protolambda/zrnt/eth2/zzverif"
)

// vA2FromAltair: the capella state (struct form) with the content of the altair state `a`, a symbolic latest execution
// payload header, symbolic withdrawal cursors (validator index within the registry) and one historical summary.
func vA2FromAltair(a *altair.BeaconState) *BeaconState {
	wi := zzverif.NondetU8()
	zzverif.Assume(int(wi) < len(a.Validators))
	return &BeaconState{
		GenesisTime: a.GenesisTime, GenesisValidatorsRoot: a.GenesisValidatorsRoot, Slot: a.Slot, Fork: a.Fork,
		LatestBlockHeader: a.LatestBlockHeader, BlockRoots: a.BlockRoots, StateRoots: a.StateRoots, HistoricalRoots: a.HistoricalRoots,
		Eth1Data: a.Eth1Data, Eth1DataVotes: a.Eth1DataVotes, Eth1DepositIndex: a.Eth1DepositIndex,
		Validators: a.Validators, Balances: a.Balances, RandaoMixes: a.RandaoMixes, Slashings: a.Slashings,
		PreviousEpochParticipation: a.PreviousEpochParticipation, CurrentEpochParticipation: a.CurrentEpochParticipation,
		JustificationBits: a.JustificationBits, PreviousJustifiedCheckpoint: a.PreviousJustifiedCheckpoint,
		CurrentJustifiedCheckpoint: a.CurrentJustifiedCheckpoint, FinalizedCheckpoint: a.FinalizedCheckpoint,
		InactivityScores: a.InactivityScores, CurrentSyncCommittee: a.CurrentSyncCommittee, NextSyncCommittee: a.NextSyncCommittee,
		LatestExecutionPayloadHeader: *vFkHeader(),
		NextWithdrawalIndex:          common.WithdrawalIndex(zzverif.NondetU64()),
		NextWithdrawalValidatorIndex: common.ValidatorIndex(wi),
		HistoricalSummaries:          HistoricalSummaries{{BlockSummaryRoot: vFkR(), StateSummaryRoot: vFkR()}},
	}
}

// VerifHarness_C02_fork_quotients (capella state): phase0.SlashValidator and phase0.ProcessEpochSlashings - the code
// capella's block and epoch pipelines call - on a real capella state use the bellatrix constants (capella does not change
// them): penalty effective_balance // MIN_SLASHING_PENALTY_QUOTIENT_BELLATRIX (32), proposer_reward = whistleblower_reward *
// PROPOSER_WEIGHT // WEIGHT_DENOMINATOR, PROPORTIONAL_SLASHING_MULTIPLIER_BELLATRIX (3); everything else as the spec's
// slash_validator / process_slashings.
// Bounds: phase0.VA2ForkWorldT (3 validators; one slashing with/without whistleblower at epoch 4, or the slashings step at
// epoch 6), preset phase0.VA2ForkSpec (tiny preset with PROPOSER_REWARD_QUOTIENT = 4).
// Shards: Choose #1 = kind (2); kind 0: #2 = slashed validator (3), #3 = whistleblower (3); kind 1: #2 = third validator active (2).
func VerifHarness_C02_fork_quotients() {
	spec := phase0.VA2ForkSpec()
	w := phase0.VA2ForkWorld(spec)
	raw := vA2FromAltair(altair.VA2AltairOfBase(spec, w.Base()))
	raw.Fork = common.Fork{PreviousVersion: spec.BELLATRIX_FORK_VERSION, CurrentVersion: spec.CAPELLA_FORK_VERSION, Epoch: 0}
	st := vFkView(spec, raw)
	if st == nil {
		return
	}
	w.Check(st, st.ContainerView, phase0.VA2ForkConsts{
		MinSlashingPenaltyQuotient:     uint64(spec.MIN_SLASHING_PENALTY_QUOTIENT_BELLATRIX),
		ProportionalSlashingMultiplier: uint64(spec.PROPORTIONAL_SLASHING_MULTIPLIER_BELLATRIX),
		AltairProposerShare:            true,
	})
}
