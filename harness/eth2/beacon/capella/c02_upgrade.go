package capella

import (
	"context"

	"github.com/protolambda/zrnt/eth2/beacon/altair"
	"github.com/protolambda/zrnt/eth2/beacon/bellatrix"
	"github.com/protolambda/zrnt/eth2/beacon/common"
	"github.com/protolambda/zrnt/eth2/beacon/phase0"
	"github.com/protolambda/zrnt/eth2/zzverif"
	"github.com/protolambda/ztyp/tree"
	"github.com/protolambda/ztyp/view"
)

// ---- exported for the deneb upgrade harness ----

// VUpRawCapella: raw capella state of the tiny preset, every scalar leaf symbolic (vFkRaw); the slashed flag of every
// validator but the last is made concrete (alternating true/false) so that the state does not fork structurally.
func VUpRawCapella(spec *common.Spec, n int) *BeaconState {
	raw := vFkRaw(spec, n)
	for i := 0; i+1 < n; i++ {
		raw.Validators[i].Slashed = i%2 == 0
	}
	return raw
}

func VUpCapellaView(spec *common.Spec, raw *BeaconState) *BeaconStateView { return vFkView(spec, raw) }

func VUpBaseOfCapella(raw *BeaconState) *phase0.VUpBase {
	return &phase0.VUpBase{
		GenesisTime: raw.GenesisTime, GenesisValidatorsRoot: raw.GenesisValidatorsRoot, Slot: raw.Slot, Fork: raw.Fork,
		LatestBlockHeader: raw.LatestBlockHeader, BlockRoots: raw.BlockRoots, StateRoots: raw.StateRoots,
		HistoricalRoots: raw.HistoricalRoots, Eth1Data: raw.Eth1Data, Eth1DataVotes: raw.Eth1DataVotes,
		Eth1DepositIndex: raw.Eth1DepositIndex, Validators: raw.Validators, Balances: raw.Balances,
		RandaoMixes: raw.RandaoMixes, Slashings: raw.Slashings, JustificationBits: raw.JustificationBits,
		PreviousJustifiedCheckpoint: raw.PreviousJustifiedCheckpoint, CurrentJustifiedCheckpoint: raw.CurrentJustifiedCheckpoint,
		FinalizedCheckpoint: raw.FinalizedCheckpoint,
	}
}

func VUpExtOfCapella(raw *BeaconState) *altair.VUpAltairExt {
	return &altair.VUpAltairExt{
		PreviousEpochParticipation: raw.PreviousEpochParticipation, CurrentEpochParticipation: raw.CurrentEpochParticipation,
		InactivityScores: raw.InactivityScores, CurrentSyncCommittee: raw.CurrentSyncCommittee, NextSyncCommittee: raw.NextSyncCommittee,
	}
}

// VUpSummaries: the historical summaries of a (capella or later) state view, element by element.
func VUpSummaries(list HistoricalSummariesList) (HistoricalSummaries, bool) {
	hsv, ok := list.(*HistoricalSummariesView)
	if !ok || hsv == nil || hsv.ComplexListView == nil {
		return nil, false
	}
	l, err := hsv.Length()
	if err != nil {
		return nil, false
	}
	var out HistoricalSummaries
	for i := uint64(0); i < l; i++ {
		c, err := view.AsContainer(hsv.Get(i))
		if err != nil {
			return nil, false
		}
		b, e1 := view.AsRoot(c.Get(0))
		s, e2 := view.AsRoot(c.Get(1))
		if e1 != nil || e2 != nil {
			return nil, false
		}
		out = append(out, HistoricalSummary{BlockSummaryRoot: b, StateSummaryRoot: s})
	}
	return out, true
}

// VerifHarness_C02_upgrade_capella: the real UpgradeToCapella on a real bellatrix state equals the spec's
// upgrade_to_capella: fork = Fork(previous_version = pre.fork.current_version, current_version =
// CAPELLA_FORK_VERSION, epoch = epoch(pre.slot)); every phase0/altair-era field carried over (getter by getter); the
// execution payload header carried over field by field with withdrawals_root = Root(); next_withdrawal_index = 0;
// next_withdrawal_validator_index = 0; historical_summaries empty; the root of the whole post-state is the root of the
// struct form of that expected state; the pre-state is untouched.
// Bounds: tiny preset, 2 validators, every scalar leaf symbolic (header: byte vectors with 1-2 symbolic bytes, 2-byte
// symbolic extra_data, 64-bit symbolic base fee limb), one historical root, one eth1 vote.
func VerifHarness_C02_upgrade_capella() {
	spec := common.VTinySpec()
	raw := bellatrix.VUpRawBellatrix(spec, zzverif.Param("validators", 2))
	pre := bellatrix.VUpBellatrixView(spec, raw)
	if pre == nil {
		return
	}
	h := tree.GetHashFn()
	preRoot := pre.HashTreeRoot(h)
	zzverif.Reach("upgrade-capella")
	post, err := UpgradeToCapella(spec, &common.EpochsContext{Spec: spec}, pre)
	zzverif.Assert(err == nil && post != nil, "upgrade_to_capella succeeds on a well-formed bellatrix state")
	if err != nil || post == nil {
		return
	}
	zzverif.Assert(pre.HashTreeRoot(h) == preRoot, "the bellatrix pre-state is not modified by the upgrade")
	// ---- the spec, over the raw pre-state ----
	base := bellatrix.VUpBaseOfBellatrix(raw)
	base.Fork = common.Fork{PreviousVersion: raw.Fork.CurrentVersion, CurrentVersion: spec.CAPELLA_FORK_VERSION, Epoch: common.Epoch(uint64(raw.Slot) / uint64(spec.SLOTS_PER_EPOCH))}
	ext := bellatrix.VUpExtOfBellatrix(raw)
	phase0.VUpCheckBase(spec, post, base)
	altair.VUpCheckAltairExt(spec, post, ext)
	old := &raw.LatestExecutionPayloadHeader
	want := ExecutionPayloadHeader{
		ParentHash: old.ParentHash, FeeRecipient: old.FeeRecipient, StateRoot: old.StateRoot, ReceiptsRoot: old.ReceiptsRoot,
		LogsBloom: old.LogsBloom, PrevRandao: old.PrevRandao, BlockNumber: old.BlockNumber, GasLimit: old.GasLimit,
		GasUsed: old.GasUsed, Timestamp: old.Timestamp, ExtraData: old.ExtraData, BaseFeePerGas: old.BaseFeePerGas,
		BlockHash: old.BlockHash, TransactionsRoot: old.TransactionsRoot, WithdrawalsRoot: common.Root{},
	}
	lh, e := post.LatestExecutionPayloadHeader()
	zzverif.Assert(e == nil && lh != nil, "latest_execution_payload_header readable")
	if e != nil || lh == nil {
		return
	}
	ph, e1 := lh.ParentHash()
	fr, e2 := lh.FeeRecipient()
	sr, e3 := lh.StateRoot()
	rr, e4 := lh.ReceiptRoot()
	lb, e5 := lh.LogsBloom()
	pr, e6 := lh.Random()
	zzverif.Assert(e1 == nil && e2 == nil && e3 == nil && e4 == nil && e5 == nil && e6 == nil && lb != nil, "header: fields readable")
	zzverif.Assert(ph == want.ParentHash, "header: parent_hash carried over")
	zzverif.Assert(fr == want.FeeRecipient, "header: fee_recipient carried over")
	zzverif.Assert(sr == want.StateRoot, "header: state_root carried over (not receipts_root)")
	zzverif.Assert(rr == want.ReceiptsRoot, "header: receipts_root carried over (not state_root)")
	zzverif.Assert(pr == want.PrevRandao, "header: prev_randao carried over")
	if lb != nil {
		zzverif.Assert(*lb == want.LogsBloom, "header: logs_bloom carried over")
	}
	bn, e1 := lh.BlockNumber()
	gl, e2 := lh.GasLimit()
	gu, e3 := lh.GasUsed()
	ts, e4 := lh.Timestamp()
	bf, e5 := lh.BaseFeePerGas()
	bh, e6 := lh.BlockHash()
	tr, e7 := lh.TransactionsRoot()
	zzverif.Assert(e1 == nil && e2 == nil && e3 == nil && e4 == nil && e5 == nil && e6 == nil && e7 == nil, "header: fields readable (2)")
	zzverif.Assert(bn == want.BlockNumber, "header: block_number carried over")
	zzverif.Assert(gl == want.GasLimit, "header: gas_limit carried over (not gas_used)")
	zzverif.Assert(gu == want.GasUsed, "header: gas_used carried over (not gas_limit)")
	zzverif.Assert(ts == want.Timestamp, "header: timestamp carried over")
	zzverif.Assert(bf == want.BaseFeePerGas, "header: base_fee_per_gas carried over")
	zzverif.Assert(bh == want.BlockHash, "header: block_hash carried over")
	zzverif.Assert(tr == want.TransactionsRoot, "header: transactions_root carried over")
	zzverif.Assert(lh.HashTreeRoot(h) == want.HashTreeRoot(h), "header as a whole: extra_data carried over, withdrawals_root = Root()")
	wi, e8 := post.NextWithdrawalIndex()
	wv, e9 := post.NextWithdrawalValidatorIndex()
	zzverif.Assert(e8 == nil && wi == 0, "next_withdrawal_index = 0")
	zzverif.Assert(e9 == nil && wv == 0, "next_withdrawal_validator_index = 0")
	hsl, e10 := post.HistoricalSummaries()
	zzverif.Assert(e10 == nil, "historical_summaries readable")
	if e10 == nil {
		hs, ok := VUpSummaries(hsl)
		zzverif.Assert(ok && len(hs) == 0, "historical_summaries empty")
	}
	exp := &BeaconState{
		GenesisTime: base.GenesisTime, GenesisValidatorsRoot: base.GenesisValidatorsRoot, Slot: base.Slot, Fork: base.Fork,
		LatestBlockHeader: base.LatestBlockHeader, BlockRoots: base.BlockRoots, StateRoots: base.StateRoots,
		HistoricalRoots: base.HistoricalRoots, Eth1Data: base.Eth1Data, Eth1DataVotes: base.Eth1DataVotes,
		Eth1DepositIndex: base.Eth1DepositIndex, Validators: base.Validators, Balances: base.Balances,
		RandaoMixes: base.RandaoMixes, Slashings: base.Slashings, JustificationBits: base.JustificationBits,
		PreviousJustifiedCheckpoint: base.PreviousJustifiedCheckpoint, CurrentJustifiedCheckpoint: base.CurrentJustifiedCheckpoint,
		FinalizedCheckpoint:        base.FinalizedCheckpoint,
		PreviousEpochParticipation: ext.PreviousEpochParticipation, CurrentEpochParticipation: ext.CurrentEpochParticipation,
		InactivityScores: ext.InactivityScores, CurrentSyncCommittee: ext.CurrentSyncCommittee, NextSyncCommittee: ext.NextSyncCommittee,
		LatestExecutionPayloadHeader: want,
	}
	zzverif.Assert(post.HashTreeRoot(h) == exp.HashTreeRoot(spec, h), "the post-state of upgrade_to_capella is exactly the spec's (whole-state root)")
}

// VerifHarness_C02_historical_summaries: the capella epoch step ProcessHistoricalSummariesUpdate equals the spec's
// process_historical_summaries_update: exactly when (current_epoch + 1) % (SLOTS_PER_HISTORICAL_ROOT // SLOTS_PER_EPOCH)
// == 0, HistoricalSummary(block_summary_root = hash_tree_root(state.block_roots), state_summary_root =
// hash_tree_root(state.state_roots)) is appended to historical_summaries; nothing else changes (historical_roots is no
// longer written): every summary read back element by element, and the whole-state root against the struct form.
// A full list (HISTORICAL_ROOTS_LIMIT entries) makes a due update fail and leaves the state unchanged.
// Bounds: tiny preset (period of 2 epochs, limit 4), 1 validator, symbolic leaves (block and state roots pairwise
// independent symbolic values, so a swap shows), current epoch symbolic < 16 with the state at the epoch's last slot,
// 0, 1, 2 or 4 summaries already present; the epochs context carries the epoch numbers only (NextEpoch = current + 1).
// Shards: Choose #1 = number of summaries already present (4).
func VerifHarness_C02_historical_summaries() {
	spec := common.VTinySpec()
	raw := VUpRawCapella(spec, 1)
	spe := uint64(spec.SLOTS_PER_EPOCH)
	c := zzverif.NondetU8()
	zzverif.Assume(c < 16)
	cur := uint64(c)
	raw.Slot = common.Slot(cur*spe + spe - 1)
	have := []int{0, 1, 2, int(spec.HISTORICAL_ROOTS_LIMIT)}[zzverif.Choose(4)]
	raw.HistoricalSummaries = nil
	for i := 0; i < have; i++ {
		raw.HistoricalSummaries = append(raw.HistoricalSummaries, HistoricalSummary{BlockSummaryRoot: vFkR(), StateSummaryRoot: vFkR()})
	}
	st := vFkView(spec, raw)
	if st == nil {
		return
	}
	epc := &common.EpochsContext{Spec: spec,
		CurrentEpoch: &common.ShufflingEpoch{Epoch: common.Epoch(cur)},
		NextEpoch:    &common.ShufflingEpoch{Epoch: common.Epoch(cur + 1)}}
	if cur > 0 {
		epc.PreviousEpoch = &common.ShufflingEpoch{Epoch: common.Epoch(cur - 1)}
	} else {
		epc.PreviousEpoch = epc.CurrentEpoch
	}
	h := tree.GetHashFn()
	preRoot := st.HashTreeRoot(h)
	zzverif.Reach("historical-summaries")
	err := ProcessHistoricalSummariesUpdate(context.Background(), spec, epc, st)
	// ---- the spec ----
	due := (cur+1)%(uint64(spec.SLOTS_PER_HISTORICAL_ROOT)/spe) == 0
	full := have == int(spec.HISTORICAL_ROOTS_LIMIT)
	zzverif.Assert((err == nil) == !(due && full), "the update fails only when a summary is due and the list is full")
	if err != nil {
		zzverif.Assert(st.HashTreeRoot(h) == preRoot, "a failed update leaves the state unchanged")
		return
	}
	if due {
		raw.HistoricalSummaries = append(raw.HistoricalSummaries, HistoricalSummary{
			BlockSummaryRoot: raw.BlockRoots.HashTreeRoot(spec, h),
			StateSummaryRoot: raw.StateRoots.HashTreeRoot(spec, h),
		})
	}
	hsl, e := st.HistoricalSummaries()
	zzverif.Assert(e == nil, "historical_summaries readable")
	if e != nil {
		return
	}
	got, ok := VUpSummaries(hsl)
	zzverif.Assert(ok && len(got) == len(raw.HistoricalSummaries), "historical_summaries grows by one exactly when (current_epoch+1) % (SLOTS_PER_HISTORICAL_ROOT/SLOTS_PER_EPOCH) == 0")
	if !ok || len(got) != len(raw.HistoricalSummaries) {
		return
	}
	for i := range got {
		zzverif.Assert(got[i].BlockSummaryRoot == raw.HistoricalSummaries[i].BlockSummaryRoot, "block_summary_root: earlier entries kept, the new one is hash_tree_root(state.block_roots)")
		zzverif.Assert(got[i].StateSummaryRoot == raw.HistoricalSummaries[i].StateSummaryRoot, "state_summary_root: earlier entries kept, the new one is hash_tree_root(state.state_roots)")
	}
	zzverif.Assert(st.HashTreeRoot(h) == raw.HashTreeRoot(spec, h), "after the historical summaries update the state is exactly the spec's (historical_roots untouched)")
}
