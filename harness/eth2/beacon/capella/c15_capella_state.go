package capella

import (
	"bytes"

	"github.com/protolambda/zrnt/eth2/beacon/altair"
	"github.com/protolambda/zrnt/eth2/beacon/common"
	"github.com/protolambda/zrnt/eth2/beacon/phase0"
	"github.com/protolambda/zrnt/eth2/zzverif"
	"github.com/protolambda/ztyp/codec"
	"github.com/protolambda/ztyp/tree"
	. "github.com/protolambda/ztyp/view"
)

func vFkR() (r common.Root) { r[0] = zzverif.NondetU8(); r[31] = zzverif.NondetU8(); return }

func vFkCk() common.Checkpoint {
	return common.Checkpoint{Epoch: common.Epoch(zzverif.NondetU64()), Root: vFkR()}
}

func vFkSyncCommittee(spec *common.Spec) common.SyncCommittee {
	sc := common.SyncCommittee{}
	for i := uint64(0); i < uint64(spec.SYNC_COMMITTEE_SIZE); i++ {
		var p common.BLSPubkey
		p[0], p[47] = zzverif.NondetU8(), byte(i)
		sc.Pubkeys = append(sc.Pubkeys, p)
	}
	sc.AggregatePubkey[0] = zzverif.NondetU8()
	return sc
}

// vFkHeader: a capella execution payload header with symbolic leaves (byte vectors: one or two symbolic bytes).
func vFkHeader() *ExecutionPayloadHeader {
	h := &ExecutionPayloadHeader{}
	h.ParentHash, h.StateRoot, h.ReceiptsRoot, h.PrevRandao = vFkR(), vFkR(), vFkR(), vFkR()
	h.FeeRecipient[0] = zzverif.NondetU8()
	h.LogsBloom[0] = zzverif.NondetU8()
	h.BlockNumber = Uint64View(zzverif.NondetU64())
	h.GasLimit = Uint64View(zzverif.NondetU64())
	h.GasUsed = Uint64View(zzverif.NondetU64())
	h.Timestamp = common.Timestamp(zzverif.NondetU64())
	h.ExtraData = common.ExtraData{zzverif.NondetU8(), zzverif.NondetU8()}
	h.BaseFeePerGas[0] = zzverif.NondetU64()
	h.BlockHash, h.TransactionsRoot, h.WithdrawalsRoot = vFkR(), vFkR(), vFkR()
	return h
}

// vFkRaw: a raw capella state of the tiny preset with n validators in which every scalar leaf is symbolic (roots and
// keys: two symbolic bytes), one historical root, one eth1 vote and one historical summary.
func vFkRaw(spec *common.Spec, n int) *BeaconState {
	st := &BeaconState{}
	st.GenesisTime = common.Timestamp(zzverif.NondetU64())
	st.GenesisValidatorsRoot = vFkR()
	st.Slot = common.Slot(zzverif.NondetU64())
	st.Fork = common.Fork{PreviousVersion: common.Version(zzverif.NondetBytes4()), CurrentVersion: common.Version(zzverif.NondetBytes4()), Epoch: common.Epoch(zzverif.NondetU64())}
	st.LatestBlockHeader = common.BeaconBlockHeader{Slot: common.Slot(zzverif.NondetU64()), ProposerIndex: common.ValidatorIndex(zzverif.NondetU64()), ParentRoot: vFkR(), StateRoot: vFkR(), BodyRoot: vFkR()}
	st.BlockRoots = make([]common.Root, spec.SLOTS_PER_HISTORICAL_ROOT)
	st.StateRoots = make([]common.Root, spec.SLOTS_PER_HISTORICAL_ROOT)
	for i := range st.BlockRoots {
		st.BlockRoots[i], st.StateRoots[i] = vFkR(), vFkR()
	}
	st.HistoricalRoots = phase0.HistoricalRoots{vFkR()}
	st.Eth1Data = common.Eth1Data{DepositRoot: vFkR(), DepositCount: common.DepositIndex(zzverif.NondetU64()), BlockHash: vFkR()}
	st.Eth1DataVotes = phase0.Eth1DataVotes{common.Eth1Data{DepositRoot: vFkR(), DepositCount: 7, BlockHash: vFkR()}}
	st.Eth1DepositIndex = common.DepositIndex(zzverif.NondetU64())
	for i := 0; i < n; i++ {
		v := &phase0.Validator{}
		v.Pubkey[0], v.Pubkey[47] = zzverif.NondetU8(), byte(i+1)
		v.WithdrawalCredentials = vFkR()
		v.EffectiveBalance = common.Gwei(zzverif.NondetU64())
		v.Slashed = zzverif.NondetBool()
		v.ActivationEligibilityEpoch, v.ActivationEpoch = common.Epoch(zzverif.NondetU64()), common.Epoch(zzverif.NondetU64())
		v.ExitEpoch, v.WithdrawableEpoch = common.Epoch(zzverif.NondetU64()), common.Epoch(zzverif.NondetU64())
		st.Validators = append(st.Validators, v)
		st.Balances = append(st.Balances, common.Gwei(zzverif.NondetU64()))
		st.PreviousEpochParticipation = append(st.PreviousEpochParticipation, altair.ParticipationFlags(zzverif.NondetU8()&7))
		st.CurrentEpochParticipation = append(st.CurrentEpochParticipation, altair.ParticipationFlags(zzverif.NondetU8()&7))
		st.InactivityScores = append(st.InactivityScores, Uint64View(zzverif.NondetU64()))
	}
	st.RandaoMixes = make([]common.Root, spec.EPOCHS_PER_HISTORICAL_VECTOR)
	for i := range st.RandaoMixes {
		st.RandaoMixes[i] = vFkR()
	}
	st.Slashings = make([]common.Gwei, spec.EPOCHS_PER_SLASHINGS_VECTOR)
	for i := range st.Slashings {
		st.Slashings[i] = common.Gwei(zzverif.NondetU64())
	}
	st.JustificationBits = common.JustificationBits{zzverif.NondetU8() & 0x0f}
	st.PreviousJustifiedCheckpoint, st.CurrentJustifiedCheckpoint, st.FinalizedCheckpoint = vFkCk(), vFkCk(), vFkCk()
	st.CurrentSyncCommittee, st.NextSyncCommittee = vFkSyncCommittee(spec), vFkSyncCommittee(spec)
	st.LatestExecutionPayloadHeader = *vFkHeader()
	st.NextWithdrawalIndex = common.WithdrawalIndex(zzverif.NondetU64())
	st.NextWithdrawalValidatorIndex = common.ValidatorIndex(zzverif.NondetU64())
	st.HistoricalSummaries = HistoricalSummaries{{BlockSummaryRoot: vFkR(), StateSummaryRoot: vFkR()}}
	return st
}

// vFkView: the tree-backed state decoded by the schema codec from the struct codec's bytes (nil on failure).
func vFkView(spec *common.Spec, raw *BeaconState) *BeaconStateView {
	var buf bytes.Buffer
	zzverif.Assert(raw.Serialize(spec, codec.NewEncodingWriter(&buf)) == nil, "capella state serializes")
	data := buf.Bytes()
	st, err := AsBeaconStateView(BeaconStateType(spec).Deserialize(codec.NewDecodingReader(bytes.NewReader(data), uint64(len(data)))))
	zzverif.Assert(err == nil, "schema codec decodes the struct codec's bytes")
	if err != nil {
		return nil
	}
	return st
}

// VerifHarness_C05_capella_state: the whole capella BeaconState: byte length, struct codec vs schema codec, struct
// root == view root, and the accessors read what was encoded. Bounds: tiny preset, `validators` (default 1)
// validators, every scalar leaf symbolic, one historical root, one eth1 vote.
func VerifHarness_C05_capella_state() {
	spec := common.VTinySpec()
	raw := vFkRaw(spec, zzverif.Param("validators", 1))
	var buf bytes.Buffer
	zzverif.Assert(raw.Serialize(spec, codec.NewEncodingWriter(&buf)) == nil, "capella state serializes")
	data := buf.Bytes()
	zzverif.Reach("capella-state")
	zzverif.Assert(uint64(len(data)) == raw.ByteLength(spec), "ByteLength equals the number of bytes written")
	st, err := AsBeaconStateView(BeaconStateType(spec).Deserialize(codec.NewDecodingReader(bytes.NewReader(data), uint64(len(data)))))
	zzverif.Assert(err == nil, "schema codec decodes the struct codec's bytes")
	if err != nil {
		return
	}
	h := tree.GetHashFn()
	zzverif.Assert(st.HashTreeRoot(h) == raw.HashTreeRoot(spec, h), "struct root == view root (capella BeaconState)")
	var raw2 BeaconState
	zzverif.Assert(raw2.Deserialize(spec, codec.NewDecodingReader(bytes.NewReader(data), uint64(len(data)))) == nil, "struct codec decodes its own bytes")
	zzverif.Assert(raw2.HashTreeRoot(spec, h) == raw.HashTreeRoot(spec, h), "decode(encode(state)) has the root of state (every leaf round-trips)")
	var buf2 bytes.Buffer
	zzverif.Assert(st.Serialize(codec.NewEncodingWriter(&buf2)) == nil && bytes.Equal(buf2.Bytes(), data), "schema codec re-encodes to the same bytes")
	raw3, err3 := st.Raw(spec)
	zzverif.Assert(err3 == nil && raw3 != nil, "view.Raw()")
	if err3 == nil && raw3 != nil {
		zzverif.Assert(raw3.HashTreeRoot(spec, h) == raw.HashTreeRoot(spec, h), "view.Raw() has the root of the state")
	}
	// scalar accessors
	gt, _ := st.GenesisTime()
	gvr, _ := st.GenesisValidatorsRoot()
	sl, _ := st.Slot()
	fk, _ := st.Fork()
	zzverif.Assert(gt == raw.GenesisTime && gvr == raw.GenesisValidatorsRoot && sl == raw.Slot && fk == raw.Fork, "versioning accessors")
	lbh, e0 := st.LatestBlockHeader()
	zzverif.Assert(e0 == nil && lbh != nil && *lbh == raw.LatestBlockHeader, "latest block header accessor")
	ed, _ := st.Eth1Data()
	di, _ := st.Eth1DepositIndex()
	zzverif.Assert(ed == raw.Eth1Data && di == raw.Eth1DepositIndex, "eth1 accessors")
	jb, _ := st.JustificationBits()
	pj, _ := st.PreviousJustifiedCheckpoint()
	cj, _ := st.CurrentJustifiedCheckpoint()
	fc, _ := st.FinalizedCheckpoint()
	zzverif.Assert(jb == raw.JustificationBits && pj == raw.PreviousJustifiedCheckpoint && cj == raw.CurrentJustifiedCheckpoint && fc == raw.FinalizedCheckpoint, "finality accessors (checkpoints not swapped)")
	br, _ := st.BlockRoots()
	sr, _ := st.StateRoots()
	for i := range raw.BlockRoots {
		b, e1 := br.GetRoot(common.Slot(i))
		s, e2 := sr.GetRoot(common.Slot(i))
		zzverif.Assert(e1 == nil && e2 == nil && b == raw.BlockRoots[i] && s == raw.StateRoots[i], "block/state roots accessors (not swapped)")
	}
	// fork-specific accessors
	is, _ := st.InactivityScores()
	pp, _ := st.PreviousEpochParticipation()
	cp, _ := st.CurrentEpochParticipation()
	bals, _ := st.Balances()
	for i := range raw.Validators {
		sc, e1 := is.GetScore(common.ValidatorIndex(i))
		zzverif.Assert(e1 == nil && sc == uint64(raw.InactivityScores[i]), "InactivityScores().GetScore(i)")
		pf, e2 := pp.GetFlags(common.ValidatorIndex(i))
		cf, e3 := cp.GetFlags(common.ValidatorIndex(i))
		zzverif.Assert(e2 == nil && e3 == nil && pf == raw.PreviousEpochParticipation[i] && cf == raw.CurrentEpochParticipation[i], "participation flags of validator i")
		b, e4 := bals.GetBalance(common.ValidatorIndex(i))
		zzverif.Assert(e4 == nil && b == raw.Balances[i], "Balances().GetBalance(i)")
	}
	csc, _ := st.CurrentSyncCommittee()
	nsc, _ := st.NextSyncCommittee()
	zzverif.Assert(csc.HashTreeRoot(h) == raw.CurrentSyncCommittee.HashTreeRoot(spec, h) && nsc.HashTreeRoot(h) == raw.NextSyncCommittee.HashTreeRoot(spec, h), "sync committee accessors return the encoded committees (not swapped)")
	hv, e5 := st.LatestExecutionPayloadHeader()
	zzverif.Assert(e5 == nil && hv.HashTreeRoot(h) == raw.LatestExecutionPayloadHeader.HashTreeRoot(h), "latest execution payload header accessor")
	wi, e6 := st.NextWithdrawalIndex()
	wv, e7 := st.NextWithdrawalValidatorIndex()
	zzverif.Assert(e6 == nil && e7 == nil && wi == raw.NextWithdrawalIndex && wv == raw.NextWithdrawalValidatorIndex, "withdrawal cursor accessors (not swapped)")
	_, hsErr := st.HistoricalSummaries()
	zzverif.Assert(hsErr == nil, "historical summaries accessor")
}

// VerifHarness_C01_capella_add_validator: the capella state's AddValidator (add_validator_to_registry of altair and
// later) appends the validator, its balance and zero entries to both participation lists and inactivity_scores, and
// leaves the entries of every existing validator as they were; the root of the whole view is the root of the struct
// form with exactly those five appends. Bounds: tiny preset, 1..3 existing validators, symbolic leaves, amount < 2^40.
func VerifHarness_C01_capella_add_validator() {
	spec := common.VTinySpec()
	n := 1 + zzverif.Choose(3)
	raw := vFkRaw(spec, n)
	st := vFkView(spec, raw)
	if st == nil {
		return
	}
	var pub common.BLSPubkey
	pub[0], pub[47] = zzverif.NondetU8(), 0x77
	creds := vFkR()
	amount := zzverif.NondetU64()
	zzverif.Assume(amount < 1<<40)
	zzverif.Reach("capella-add-validator")
	err := st.AddValidator(spec, pub, creds, common.Gwei(amount))
	zzverif.Assert(err == nil, "AddValidator succeeds below the registry limit")
	if err != nil {
		return
	}
	is, _ := st.InactivityScores()
	pp, _ := st.PreviousEpochParticipation()
	cp, _ := st.CurrentEpochParticipation()
	bals, _ := st.Balances()
	vals, _ := st.Validators()
	l1, _ := is.Length()
	l2, _ := pp.Length()
	l3, _ := cp.Length()
	l4, _ := bals.Length()
	l5, _ := vals.ValidatorCount()
	zzverif.Assert(l1 == uint64(n+1) && l2 == uint64(n+1) && l3 == uint64(n+1) && l4 == uint64(n+1) && l5 == uint64(n+1), "registry, balances, participation lists and inactivity_scores grow by one entry")
	for i := 0; i <= n; i++ {
		sc, e1 := is.GetScore(common.ValidatorIndex(i))
		pf, e2 := pp.GetFlags(common.ValidatorIndex(i))
		cf, e3 := cp.GetFlags(common.ValidatorIndex(i))
		b, e4 := bals.GetBalance(common.ValidatorIndex(i))
		zzverif.Assert(e1 == nil && e2 == nil && e3 == nil && e4 == nil, "entries are readable after a deposit")
		if i < n {
			zzverif.Assert(sc == uint64(raw.InactivityScores[i]), "inactivity scores of the existing validators are unchanged by a deposit")
			zzverif.Assert(pf == raw.PreviousEpochParticipation[i] && cf == raw.CurrentEpochParticipation[i], "participation flags of the existing validators are unchanged by a deposit")
			zzverif.Assert(b == raw.Balances[i], "balances of the existing validators are unchanged by a deposit")
		} else {
			zzverif.Assert(sc == 0 && pf == 0 && cf == 0 && uint64(b) == amount, "the new validator starts with score 0, no participation flags and the deposit amount")
		}
	}
	inc := uint64(spec.EFFECTIVE_BALANCE_INCREMENT)
	eff := amount - amount%inc
	if eff > uint64(spec.MAX_EFFECTIVE_BALANCE) {
		eff = uint64(spec.MAX_EFFECTIVE_BALANCE)
	}
	far := ^common.Epoch(0)
	nv, e5 := vals.Validator(common.ValidatorIndex(n))
	zzverif.Assert(e5 == nil, "the new validator is readable")
	if e5 == nil {
		gp, _ := nv.Pubkey()
		gc, _ := nv.WithdrawalCredentials()
		ge, _ := nv.EffectiveBalance()
		gs, _ := nv.Slashed()
		a1, _ := nv.ActivationEligibilityEpoch()
		a2, _ := nv.ActivationEpoch()
		a3, _ := nv.ExitEpoch()
		a4, _ := nv.WithdrawableEpoch()
		zzverif.Assert(gp == pub && gc == creds && uint64(ge) == eff && !gs && a1 == far && a2 == far && a3 == far && a4 == far, "the new validator record is the spec's get_validator_from_deposit")
	}
	// whole-state reference: the struct form with the five appends
	raw.Validators = append(raw.Validators, &phase0.Validator{Pubkey: pub, WithdrawalCredentials: creds, EffectiveBalance: common.Gwei(eff),
		ActivationEligibilityEpoch: far, ActivationEpoch: far, ExitEpoch: far, WithdrawableEpoch: far})
	raw.Balances = append(raw.Balances, common.Gwei(amount))
	raw.PreviousEpochParticipation = append(raw.PreviousEpochParticipation, 0)
	raw.CurrentEpochParticipation = append(raw.CurrentEpochParticipation, 0)
	raw.InactivityScores = append(raw.InactivityScores, 0)
	h := tree.GetHashFn()
	zzverif.Assert(st.HashTreeRoot(h) == raw.HashTreeRoot(spec, h), "after AddValidator the view's root is the struct's root with the five appends (no other field touched)")
}

// VerifHarness_C15_capella_setters: every setter / mutator of the capella state view changes exactly the field it
// names: after one (chosen) mutation with symbolic arguments the getter returns the stored value and the root of the
// whole view equals the root of the struct form with only that field replaced (so a setter wired to a neighbouring
// field index, or a getter reading another field, shows up). Bounds: tiny preset, 2 validators, one mutation per path.
func VerifHarness_C15_capella_setters() {
	spec := common.VTinySpec()
	raw := vFkRaw(spec, 2)
	st := vFkView(spec, raw)
	if st == nil {
		return
	}
	h := tree.GetHashFn()
	which := zzverif.Choose(32)
	zzverif.Reach("capella-setters")
	switch which {
	case 0:
		x := common.Timestamp(zzverif.NondetU64())
		zzverif.Assert(st.SetGenesisTime(x) == nil, "SetGenesisTime")
		raw.GenesisTime = x
		g, _ := st.GenesisTime()
		zzverif.Assert(g == x, "GenesisTime() returns the stored value")
	case 1:
		x := vFkR()
		zzverif.Assert(st.SetGenesisValidatorsRoot(x) == nil, "SetGenesisValidatorsRoot")
		raw.GenesisValidatorsRoot = x
		g, _ := st.GenesisValidatorsRoot()
		zzverif.Assert(g == x, "GenesisValidatorsRoot() returns the stored value")
	case 2:
		x := common.Slot(zzverif.NondetU64())
		zzverif.Assert(st.SetSlot(x) == nil, "SetSlot")
		raw.Slot = x
		g, _ := st.Slot()
		zzverif.Assert(g == x, "Slot() returns the stored value")
	case 3:
		x := common.Fork{PreviousVersion: common.Version(zzverif.NondetBytes4()), CurrentVersion: common.Version(zzverif.NondetBytes4()), Epoch: common.Epoch(zzverif.NondetU64())}
		zzverif.Assert(st.SetFork(x) == nil, "SetFork")
		raw.Fork = x
		g, _ := st.Fork()
		zzverif.Assert(g == x, "Fork() returns the stored value")
	case 4:
		x := common.BeaconBlockHeader{Slot: common.Slot(zzverif.NondetU64()), ProposerIndex: common.ValidatorIndex(zzverif.NondetU64()), ParentRoot: vFkR(), StateRoot: vFkR(), BodyRoot: vFkR()}
		zzverif.Assert(st.SetLatestBlockHeader(&x) == nil, "SetLatestBlockHeader")
		raw.LatestBlockHeader = x
		g, _ := st.LatestBlockHeader()
		zzverif.Assert(g != nil && *g == x, "LatestBlockHeader() returns the stored value")
	case 5:
		x := common.Eth1Data{DepositRoot: vFkR(), DepositCount: common.DepositIndex(zzverif.NondetU64()), BlockHash: vFkR()}
		zzverif.Assert(st.SetEth1Data(x) == nil, "SetEth1Data")
		raw.Eth1Data = x
		g, _ := st.Eth1Data()
		zzverif.Assert(g == x, "Eth1Data() returns the stored value")
	case 6:
		zzverif.Assume(raw.Eth1DepositIndex < ^common.DepositIndex(0))
		zzverif.Assert(st.IncrementDepositIndex() == nil, "IncrementDepositIndex")
		raw.Eth1DepositIndex++
		g, _ := st.Eth1DepositIndex()
		zzverif.Assert(g == raw.Eth1DepositIndex, "Eth1DepositIndex() returns the incremented value")
	case 7:
		x := common.JustificationBits{zzverif.NondetU8() & 0x0f}
		zzverif.Assert(st.SetJustificationBits(x) == nil, "SetJustificationBits")
		raw.JustificationBits = x
		g, _ := st.JustificationBits()
		zzverif.Assert(g == x, "JustificationBits() returns the stored value")
	case 8:
		x := vFkCk()
		zzverif.Assert(st.SetPreviousJustifiedCheckpoint(x) == nil, "SetPreviousJustifiedCheckpoint")
		raw.PreviousJustifiedCheckpoint = x
		g, _ := st.PreviousJustifiedCheckpoint()
		zzverif.Assert(g == x, "PreviousJustifiedCheckpoint() returns the stored value")
	case 9:
		x := vFkCk()
		zzverif.Assert(st.SetCurrentJustifiedCheckpoint(x) == nil, "SetCurrentJustifiedCheckpoint")
		raw.CurrentJustifiedCheckpoint = x
		g, _ := st.CurrentJustifiedCheckpoint()
		zzverif.Assert(g == x, "CurrentJustifiedCheckpoint() returns the stored value")
	case 10:
		x := vFkCk()
		zzverif.Assert(st.SetFinalizedCheckpoint(x) == nil, "SetFinalizedCheckpoint")
		raw.FinalizedCheckpoint = x
		g, _ := st.FinalizedCheckpoint()
		zzverif.Assert(g == x, "FinalizedCheckpoint() returns the stored value")
	case 11:
		i := zzverif.Choose(2)
		x := common.Gwei(zzverif.NondetU64())
		bals, _ := st.Balances()
		zzverif.Assert(bals.SetBalance(common.ValidatorIndex(i), x) == nil, "Balances().SetBalance")
		raw.Balances[i] = x
	case 12:
		x, y := common.Gwei(zzverif.NondetU64()), common.Gwei(zzverif.NondetU64())
		zzverif.Assert(st.SetBalances([]common.Gwei{x, y}) == nil, "SetBalances")
		raw.Balances[0], raw.Balances[1] = x, y
	case 13:
		i := zzverif.Choose(int(spec.SLOTS_PER_HISTORICAL_ROOT))
		x := vFkR()
		br, _ := st.BlockRoots()
		zzverif.Assert(br.SetRoot(common.Slot(i), x) == nil, "BlockRoots().SetRoot")
		raw.BlockRoots[i] = x
	case 14:
		i := zzverif.Choose(int(spec.SLOTS_PER_HISTORICAL_ROOT))
		x := vFkR()
		sr, _ := st.StateRoots()
		zzverif.Assert(sr.SetRoot(common.Slot(i), x) == nil, "StateRoots().SetRoot")
		raw.StateRoots[i] = x
	case 15:
		i := zzverif.Choose(2)
		x := zzverif.NondetU64()
		is, _ := st.InactivityScores()
		zzverif.Assert(is.SetScore(common.ValidatorIndex(i), x) == nil, "InactivityScores().SetScore")
		raw.InactivityScores[i] = Uint64View(x)
		is2, _ := st.InactivityScores()
		g, _ := is2.GetScore(common.ValidatorIndex(i))
		zzverif.Assert(g == x, "GetScore returns the stored score")
	case 16:
		i := zzverif.Choose(2)
		x := altair.ParticipationFlags(zzverif.NondetU8() & 7)
		prev := zzverif.Choose(2) == 0
		if prev {
			pp, _ := st.PreviousEpochParticipation()
			zzverif.Assert(pp.SetFlags(common.ValidatorIndex(i), x) == nil, "PreviousEpochParticipation().SetFlags")
			raw.PreviousEpochParticipation[i] = x
		} else {
			cp, _ := st.CurrentEpochParticipation()
			zzverif.Assert(cp.SetFlags(common.ValidatorIndex(i), x) == nil, "CurrentEpochParticipation().SetFlags")
			raw.CurrentEpochParticipation[i] = x
		}
	case 17:
		sc := vFkSyncCommittee(spec)
		sc.AggregatePubkey[1] = 0x5a
		v, e := sc.View(spec)
		zzverif.Assert(e == nil && st.SetCurrentSyncCommittee(v) == nil, "SetCurrentSyncCommittee")
		raw.CurrentSyncCommittee = sc
	case 18:
		sc := vFkSyncCommittee(spec)
		sc.AggregatePubkey[1] = 0x5b
		v, e := sc.View(spec)
		zzverif.Assert(e == nil && st.SetNextSyncCommittee(v) == nil, "SetNextSyncCommittee")
		raw.NextSyncCommittee = sc
	case 19:
		sc := vFkSyncCommittee(spec)
		sc.AggregatePubkey[1] = 0x5c
		v, e := sc.View(spec)
		zzverif.Assert(e == nil && st.RotateSyncCommittee(v) == nil, "RotateSyncCommittee")
		raw.CurrentSyncCommittee = raw.NextSyncCommittee
		raw.NextSyncCommittee = sc
	case 20:
		i := zzverif.Choose(2)
		x := common.Epoch(zzverif.NondetU64())
		vals, _ := st.Validators()
		v, _ := vals.Validator(common.ValidatorIndex(i))
		zzverif.Assert(v.SetWithdrawableEpoch(x) == nil, "validator.SetWithdrawableEpoch")
		raw.Validators[i].WithdrawableEpoch = x
	case 21:
		x := vFkR()
		zzverif.Assert(st.SeedRandao(spec, x) == nil, "SeedRandao")
		for i := range raw.RandaoMixes {
			raw.RandaoMixes[i] = x
		}
	case 22:
		n := int(spec.EPOCHS_PER_HISTORICAL_VECTOR)
		i := zzverif.Choose(n)
		x := vFkR()
		mixes, _ := st.RandaoMixes()
		zzverif.Assert(mixes.SetRandomMix(common.Epoch(n+i), x) == nil, "RandaoMixes().SetRandomMix")
		raw.RandaoMixes[i] = x
		mixes2, _ := st.RandaoMixes()
		g, _ := mixes2.GetRandomMix(common.Epoch(3*n + i))
		zzverif.Assert(g == x, "GetRandomMix returns the stored mix")
	case 23:
		x := vFkR()
		hr, _ := st.HistoricalRoots()
		zzverif.Assert(hr.Append(x) == nil, "HistoricalRoots().Append")
		raw.HistoricalRoots = append(raw.HistoricalRoots, x)
	case 24:
		x := common.Eth1Data{DepositRoot: vFkR(), DepositCount: common.DepositIndex(zzverif.NondetU64()), BlockHash: vFkR()}
		votes, _ := st.Eth1DataVotes()
		zzverif.Assert(votes.Append(x) == nil, "Eth1DataVotes().Append")
		raw.Eth1DataVotes = append(raw.Eth1DataVotes, x)
	case 25:
		votes, _ := st.Eth1DataVotes()
		zzverif.Assert(votes.Reset() == nil, "Eth1DataVotes().Reset")
		raw.Eth1DataVotes = nil
	case 26:
		n := int(spec.EPOCHS_PER_SLASHINGS_VECTOR)
		i := zzverif.Choose(n)
		sl, _ := st.Slashings()
		if zzverif.Choose(2) == 0 {
			zzverif.Assert(sl.ResetSlashings(common.Epoch(n+i)) == nil, "Slashings().ResetSlashings")
			raw.Slashings[i] = 0
		} else {
			x := common.Gwei(zzverif.NondetU64())
			zzverif.Assert(sl.AddSlashing(common.Epoch(n+i), x) == nil, "Slashings().AddSlashing")
			raw.Slashings[i] += x
		}
	case 27:
		hd := vFkHeader()
		zzverif.Assert(st.SetLatestExecutionPayloadHeader(hd) == nil, "SetLatestExecutionPayloadHeader")
		raw.LatestExecutionPayloadHeader = *hd
		hv, e := st.LatestExecutionPayloadHeader()
		zzverif.Assert(e == nil && hv.HashTreeRoot(h) == hd.HashTreeRoot(h), "LatestExecutionPayloadHeader() returns the stored header")
	case 28:
		zzverif.Assume(raw.NextWithdrawalIndex < ^common.WithdrawalIndex(0))
		zzverif.Assert(st.IncrementNextWithdrawalIndex() == nil, "IncrementNextWithdrawalIndex")
		raw.NextWithdrawalIndex++
		g, _ := st.NextWithdrawalIndex()
		zzverif.Assert(g == raw.NextWithdrawalIndex, "NextWithdrawalIndex() returns the incremented value")
	case 29:
		x := common.WithdrawalIndex(zzverif.NondetU64())
		zzverif.Assert(st.SetNextWithdrawalIndex(x) == nil, "SetNextWithdrawalIndex")
		raw.NextWithdrawalIndex = x
		g, _ := st.NextWithdrawalIndex()
		zzverif.Assert(g == x, "NextWithdrawalIndex() returns the stored value")
	case 30:
		y := common.ValidatorIndex(zzverif.NondetU64())
		zzverif.Assert(st.SetNextWithdrawalValidatorIndex(y) == nil, "SetNextWithdrawalValidatorIndex")
		raw.NextWithdrawalValidatorIndex = y
		g, _ := st.NextWithdrawalValidatorIndex()
		zzverif.Assert(g == y, "NextWithdrawalValidatorIndex() returns the stored value")
	case 31:
		x := HistoricalSummary{BlockSummaryRoot: vFkR(), StateSummaryRoot: vFkR()}
		hs, _ := st.HistoricalSummaries()
		zzverif.Assert(hs.Append(x) == nil, "HistoricalSummaries().Append")
		raw.HistoricalSummaries = append(raw.HistoricalSummaries, x)
	}
	zzverif.Assert(st.HashTreeRoot(h) == raw.HashTreeRoot(spec, h), "after the mutation the view's root is the struct's root with exactly that field replaced")
}
