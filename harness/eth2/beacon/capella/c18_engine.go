package capella

import (
	"fmt"
	"context"
	"errors"
	"time"

	"github.com/protolambda/zrnt/eth2/beacon/common"
	"github.com/protolambda/zrnt/eth2/zzverif"
	"github.com/protolambda/ztyp/tree"
	. "github.com/protolambda/ztyp/view"
)

func vFcR() (r common.Root) { r[0] = zzverif.NondetU8(); r[31] = zzverif.NondetU8(); return }

// vFcCtx: a context whose k-th Err() poll (and every later one) reports cancellation.
type vFcCtx struct {
	polls  *int
	failAt int
}

func (c vFcCtx) Deadline() (time.Time, bool)       { return time.Time{}, false }
func (c vFcCtx) Done() <-chan struct{}             { return nil }
func (c vFcCtx) Value(key interface{}) interface{} { return nil }
func (c vFcCtx) Err() error {
	*c.polls++
	if c.failAt >= 0 && *c.polls > c.failAt {
		return errors.New("context canceled")
	}
	return nil
}

type vFcEngCall struct {
	kind    int
	payload *ExecutionPayload
	block   common.Hash32
}

// vFcEngine answers each query with a verdict chosen by the harness (0 valid, 1 invalid, 2 error) and records what it
// was shown.
type vFcEngine struct {
	calls    []vFcEngCall
	verdicts [2]int
}

func (e *vFcEngine) answer(kind int) (bool, error) {
	switch e.verdicts[kind] {
	case 0:
		return true, nil
	case 1:
		return false, nil
	}
	return false, vEngErr()
}
func (e *vFcEngine) CapellaIsValidBlockHash(ctx context.Context, p *ExecutionPayload) (bool, error) {
	e.calls = append(e.calls, vFcEngCall{kind: 0, payload: p, block: p.BlockHash})
	return e.answer(0)
}
func (e *vFcEngine) CapellaNotifyNewPayload(ctx context.Context, p *ExecutionPayload) (bool, error) {
	e.calls = append(e.calls, vFcEngCall{kind: 1, payload: p, block: p.BlockHash})
	return e.answer(1)
}

// vFcHeader: an execution payload header with symbolic leaves (byte vectors: one or two symbolic bytes).
func vFcHeader() *ExecutionPayloadHeader {
	h := &ExecutionPayloadHeader{}
	h.ParentHash, h.StateRoot, h.ReceiptsRoot, h.PrevRandao = vFcR(), vFcR(), vFcR(), vFcR()
	h.FeeRecipient[0] = zzverif.NondetU8()
	h.LogsBloom[0] = zzverif.NondetU8()
	h.BlockNumber = Uint64View(zzverif.NondetU64())
	h.GasLimit = Uint64View(zzverif.NondetU64())
	h.GasUsed = Uint64View(zzverif.NondetU64())
	h.Timestamp = common.Timestamp(zzverif.NondetU64())
	h.ExtraData = common.ExtraData{zzverif.NondetU8(), zzverif.NondetU8()}
	h.BaseFeePerGas[0] = zzverif.NondetU64()
	h.BlockHash, h.TransactionsRoot, h.WithdrawalsRoot = vFcR(), vFcR(), vFcR()
	return h
}

func vFcSameExtra(a, b common.ExtraData) bool {
	if len(a) != len(b) {
		return false
	}
	for i := range a {
		if a[i] != b[i] {
			return false
		}
	}
	return true
}

func vFcSameHeader(a, b *ExecutionPayloadHeader) bool {
	return a.ParentHash == b.ParentHash && a.FeeRecipient == b.FeeRecipient && a.StateRoot == b.StateRoot &&
		a.ReceiptsRoot == b.ReceiptsRoot && a.LogsBloom == b.LogsBloom && a.PrevRandao == b.PrevRandao &&
		a.BlockNumber == b.BlockNumber && a.GasLimit == b.GasLimit && a.GasUsed == b.GasUsed && a.Timestamp == b.Timestamp &&
		vFcSameExtra(a.ExtraData, b.ExtraData) && a.BaseFeePerGas == b.BaseFeePerGas && a.BlockHash == b.BlockHash &&
		a.TransactionsRoot == b.TransactionsRoot && a.WithdrawalsRoot == b.WithdrawalsRoot
}

// VerifHarness_C18_capella_payload: ProcessExecutionPayload (Capella) on the real tree-backed state under every
// cancellation point (poll 0, poll 1, never) and every verdict (valid / invalid / error) of the two engine queries:
// success exactly when the context is live, the spec's checks pass -
//
//	payload.parent_hash == state.latest_execution_payload_header.block_hash        (unconditional since Capella)
//	payload.prev_randao == get_randao_mix(state, get_current_epoch(state))
//	payload.timestamp == compute_timestamp_at_slot(state, state.slot)
//
// - and the engine approves both queries; then latest_execution_payload_header is exactly the header of the payload
// (transactions_root / withdrawals_root = hash_tree_root of the payload's lists); otherwise an error and the header is
// untouched. The engine is not consulted for a payload the checks reject, is shown this very payload, block-hash
// check first, and is not notified after a non-approval.
//
// Bounds / assumptions: tiny preset; slot 0..3; genesis time < 2^40; previous header: symbolic, or (second Choose) the
// default header; 0..2 transactions of 1 symbolic byte; 0..2 withdrawals with symbolic index / validator / amount;
// roots with 2 symbolic bytes.
func VerifHarness_C18_capella_payload() {
	spec := common.VTinySpec()
	st := NewBeaconStateView(spec)
	slot := common.Slot(zzverif.Choose(4))
	symPrev := zzverif.Choose(2) == 1
	_ = st.SetSlot(slot)
	gt := common.Timestamp(zzverif.NondetU64())
	zzverif.Assume(gt < 1<<40)
	_ = st.SetGenesisTime(gt)
	mix := vFcR()
	mixes, _ := st.RandaoMixes()
	_ = mixes.SetRandomMix(spec.SlotToEpoch(slot)%spec.EPOCHS_PER_HISTORICAL_VECTOR, mix)
	prevHdr := &ExecutionPayloadHeader{}
	if symPrev {
		prevHdr = vFcHeader()
		_ = st.SetLatestExecutionPayloadHeader(prevHdr)
	}
	p := &ExecutionPayload{}
	p.ParentHash, p.PrevRandao, p.BlockHash, p.StateRoot, p.ReceiptsRoot = vFcR(), vFcR(), vFcR(), vFcR(), vFcR()
	p.FeeRecipient[0] = zzverif.NondetU8()
	p.LogsBloom[0] = zzverif.NondetU8()
	p.Timestamp = common.Timestamp(zzverif.NondetU64())
	p.BlockNumber = Uint64View(zzverif.NondetU64())
	p.GasLimit, p.GasUsed = Uint64View(zzverif.NondetU64()), Uint64View(zzverif.NondetU64())
	p.ExtraData = common.ExtraData{zzverif.NondetU8()}
	p.BaseFeePerGas[0] = zzverif.NondetU64()
	ntx := zzverif.Choose(int(spec.MAX_TRANSACTIONS_PER_PAYLOAD) + 1)
	for i := 0; i < ntx; i++ {
		p.Transactions = append(p.Transactions, common.Transaction{zzverif.NondetU8()})
	}
	nw := zzverif.Choose(3)
	for i := 0; i < nw; i++ {
		w := common.Withdrawal{Index: common.WithdrawalIndex(zzverif.NondetU64()), ValidatorIndex: common.ValidatorIndex(zzverif.NondetU8()), Amount: common.Gwei(zzverif.NondetU64())}
		w.Address[0] = zzverif.NondetU8()
		p.Withdrawals = append(p.Withdrawals, w)
	}
	eng := &vFcEngine{verdicts: [2]int{zzverif.Choose(3), zzverif.Choose(3)}}
	polls := 0
	ctx := vFcCtx{polls: &polls, failAt: zzverif.Choose(3) - 1}
	vEngErrKind = 0
	if (eng.verdicts[0] == 2 || eng.verdicts[1] == 2) && ctx.failAt < 0 {
		vEngErrKind = zzverif.Choose(3) // kind of the engine's error, with a live caller context
	}
	zzverif.Reach("capella-payload")
	err := ProcessExecutionPayload(ctx, spec, st, p, eng)
	// reference
	checks := p.ParentHash == prevHdr.BlockHash && p.PrevRandao == mix &&
		uint64(p.Timestamp) == uint64(slot)*uint64(spec.SECONDS_PER_SLOT)+uint64(gt)
	cancelledAtEntry := ctx.failAt == 0
	approved := eng.verdicts[0] == 0 && eng.verdicts[1] == 0
	ok := !cancelledAtEntry && checks && approved
	if ctx.failAt > 0 && polls > ctx.failAt {
		ok = false // a later poll that reported cancellation must surface as well
	}
	zzverif.Assert((err == nil) == ok, "ProcessExecutionPayload succeeds exactly when not cancelled, the payload checks pass and the engine approves every query")
	hv, _ := st.LatestExecutionPayloadHeader()
	got, gerr := hv.Raw()
	zzverif.Assert(gerr == nil && got != nil, "the latest execution payload header stays readable")
	if gerr != nil || got == nil {
		return
	}
	if err != nil {
		zzverif.Assert(vFcSameHeader(got, prevHdr), "on error the latest execution payload header is untouched")
	} else {
		want := &ExecutionPayloadHeader{
			ParentHash: p.ParentHash, FeeRecipient: p.FeeRecipient, StateRoot: p.StateRoot, ReceiptsRoot: p.ReceiptsRoot,
			LogsBloom: p.LogsBloom, PrevRandao: p.PrevRandao, BlockNumber: p.BlockNumber, GasLimit: p.GasLimit, GasUsed: p.GasUsed,
			Timestamp: p.Timestamp, ExtraData: p.ExtraData, BaseFeePerGas: p.BaseFeePerGas, BlockHash: p.BlockHash,
			TransactionsRoot: p.Transactions.HashTreeRoot(spec, tree.GetHashFn()),
			WithdrawalsRoot:  p.Withdrawals.HashTreeRoot(spec, tree.GetHashFn()),
		}
		zzverif.Assert(vFcSameHeader(got, want), "on success the header is the payload's header")
	}
	if cancelledAtEntry || !checks {
		zzverif.Assert(len(eng.calls) == 0, "the engine is not consulted for a payload the consensus checks reject (or after cancellation)")
		return
	}
	// what the engine was shown
	wantCalls := 1
	if eng.verdicts[0] == 0 {
		wantCalls = 2
	}
	zzverif.Assert(len(eng.calls) == wantCalls, "the engine queries run in order and stop at the first non-approval")
	for k, c := range eng.calls {
		zzverif.Assert(c.kind == k && c.payload == p && c.block == p.BlockHash, "each engine query is about this payload")
	}
}


// vEngErrKind: the kind of error a failing engine query reports (chosen per path by the harness): a plain error, or an
// error wrapping context.DeadlineExceeded / context.Canceled as an engine client whose own request context expired
// would return it - while the caller's context is still live. Either way the payload was not approved.
var vEngErrKind int

func vEngErr() error {
	switch vEngErrKind {
	case 1:
		return fmt.Errorf("engine request failed: %w", context.DeadlineExceeded)
	case 2:
		return context.Canceled
	}
	return errors.New("engine error")
}
