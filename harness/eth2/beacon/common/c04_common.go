package common

import (
	"bytes"

	"github.com/protolambda/zrnt/eth2/zzverif"
	"github.com/protolambda/ztyp/codec"
	"github.com/protolambda/ztyp/tree"
)

// VerifHarness_C04_withdrawals: the Withdrawals list: round trip, agreement with the schema codec and root, and its own
// configuration-dependent limit on decode (limit accepted, limit+1 refused by both codecs).
func VerifHarness_C04_withdrawals() {
	spec := VTinySpec()
	n := zzverif.Choose(int(spec.MAX_WITHDRAWALS_PER_PAYLOAD) + 2)
	ws := Withdrawals{}
	for i := 0; i < n; i++ {
		w := Withdrawal{Index: WithdrawalIndex(zzverif.NondetU64()), ValidatorIndex: ValidatorIndex(zzverif.NondetU64()), Amount: Gwei(zzverif.NondetU64())}
		w.Address[0] = zzverif.NondetU8()
		ws = append(ws, w)
	}
	var buf bytes.Buffer
	_ = ws.Serialize(spec, codec.NewEncodingWriter(&buf))
	data := buf.Bytes()
	zzverif.Reach("withdrawals")
	var ws2 Withdrawals
	err := ws2.Deserialize(spec, codec.NewDecodingReader(bytes.NewReader(data), uint64(len(data))))
	_, verr := WithdrawalsType(spec).Deserialize(codec.NewDecodingReader(bytes.NewReader(data), uint64(len(data))))
	if n > int(spec.MAX_WITHDRAWALS_PER_PAYLOAD) {
		zzverif.Assert(err != nil, "struct codec refuses a withdrawals list over MAX_WITHDRAWALS_PER_PAYLOAD")
		zzverif.Assert(verr != nil, "schema codec refuses a withdrawals list over MAX_WITHDRAWALS_PER_PAYLOAD")
		return
	}
	zzverif.Assert(err == nil && verr == nil, "a withdrawals list within its limit decodes")
	if err != nil || verr != nil {
		return
	}
	zzverif.Assert(uint64(len(data)) == ws.ByteLength(spec), "ByteLength equals the number of bytes written")
	zzverif.Assert(len(ws2) == n, "decoded list has the same length")
	for i := 0; i < n && i < len(ws2); i++ {
		zzverif.Assert(ws2[i] == ws[i], "decode(encode(list))[i] == list[i]")
	}
	h := tree.GetHashFn()
	v, _ := WithdrawalsType(spec).Deserialize(codec.NewDecodingReader(bytes.NewReader(data), uint64(len(data))))
	zzverif.Assert(v.HashTreeRoot(h) == ws.HashTreeRoot(spec, h), "struct root == view root (Withdrawals)")
}
