package common

import (
	"encoding/binary"

	"github.com/protolambda/zrnt/eth2/zzverif"
)

// vSpecShuffledIndex is the consensus specification's compute_shuffled_index, transcribed.
func vSpecShuffledIndex(index uint64, n uint64, seed Root, rounds uint8) uint64 {
	for r := 0; r < int(rounds); r++ {
		var b1 [33]byte
		copy(b1[:32], seed[:])
		b1[32] = byte(r)
		h := zzverif.Hash(b1[:])
		pivot := binary.LittleEndian.Uint64(h[:8]) % n
		flip := (pivot + n - index) % n
		position := index
		if flip > position {
			position = flip
		}
		var b2 [37]byte
		copy(b2[:32], seed[:])
		b2[32] = byte(r)
		binary.LittleEndian.PutUint32(b2[33:], uint32(position/256))
		source := zzverif.Hash(b2[:])
		byt := source[(position%256)/8]
		bit := (byt >> (position % 8)) % 2
		if bit == 1 {
			index = flip
		}
	}
	return index
}

// vSel returns list[idx] for a symbolic in-range idx without forking.
func vSel(list []ValidatorIndex, idx uint64) uint64 {
	return uint64(list[idx])
}

func vShuffleInputs() (n int, rounds uint8, seed Root, in []ValidatorIndex) {
	n = zzverif.Param("n", 8)
	rounds = uint8(zzverif.Param("rounds", 1))
	seed = Root(zzverif.NondetBytes32())
	in = make([]ValidatorIndex, n)
	for i := range in {
		in[i] = ValidatorIndex(zzverif.NondetU64())
	}
	return
}

// VerifHarness_C06_list_vs_index: whole-list (un)shuffling equals the per-index permutation at every position,
// the per-index functions are mutually inverse and in range, and PermuteIndex equals the spec transcription.
func VerifHarness_C06_list_vs_index() {
	n, rounds, seed, in := vShuffleInputs()
	sh := append([]ValidatorIndex(nil), in...)
	un := append([]ValidatorIndex(nil), in...)
	ShuffleList(rounds, sh, seed)
	UnshuffleList(rounds, un, seed)
	zzverif.Reach("shuffled")
	for i := 0; i < n; i++ {
		p := uint64(PermuteIndex(rounds, ValidatorIndex(i), uint64(n), seed))
		zzverif.Assert(p < uint64(n), "PermuteIndex stays in range")
		zzverif.Assert(p == vSpecShuffledIndex(uint64(i), uint64(n), seed, rounds), "PermuteIndex == spec compute_shuffled_index")
		zzverif.Assert(vSel(un, uint64(i)) == vSel(in, p), "UnshuffleList(list)[i] == list[PermuteIndex(i)]")
		zzverif.Assert(vSel(sh, p) == uint64(in[i]), "ShuffleList(list)[PermuteIndex(i)] == list[i]")
		u := uint64(UnpermuteIndex(rounds, ValidatorIndex(p), uint64(n), seed))
		zzverif.Assert(u == uint64(i), "UnpermuteIndex(PermuteIndex(i)) == i")
		q := uint64(UnpermuteIndex(rounds, ValidatorIndex(i), uint64(n), seed))
		zzverif.Assert(q < uint64(n), "UnpermuteIndex stays in range")
		zzverif.Assert(uint64(PermuteIndex(rounds, ValidatorIndex(q), uint64(n), seed)) == uint64(i), "PermuteIndex(UnpermuteIndex(i)) == i")
	}
}

// VerifHarness_C06_roundtrip: shuffle and unshuffle are mutually inverse on whole lists.
func VerifHarness_C06_roundtrip() {
	n, rounds, seed, in := vShuffleInputs()
	a := append([]ValidatorIndex(nil), in...)
	ShuffleList(rounds, a, seed)
	UnshuffleList(rounds, a, seed)
	b := append([]ValidatorIndex(nil), in...)
	UnshuffleList(rounds, b, seed)
	ShuffleList(rounds, b, seed)
	zzverif.Reach("roundtrip")
	for i := 0; i < n; i++ {
		zzverif.Assert(a[i] == in[i], "UnshuffleList(ShuffleList(list)) == list")
		zzverif.Assert(b[i] == in[i], "ShuffleList(UnshuffleList(list)) == list")
	}
}

// VerifHarness_C06_list_vs_index_slice: the list-vs-index clauses only, for one slice [pivot_lo, pivot_hi) of the
// (symbolic) round-0 pivot, so that large sizes (hash-window boundaries at multiples of 256) can be split over cores.
// The slices of one size together cover every pivot; rounds is 1.
func VerifHarness_C06_list_vs_index_slice() {
	n, rounds, seed, in := vShuffleInputs()
	lo, hi := uint64(zzverif.Param("pivot_lo", 0)), uint64(zzverif.Param("pivot_hi", 1<<32))
	var b1 [33]byte
	copy(b1[:32], seed[:])
	h := zzverif.Hash(b1[:])
	pv := binary.LittleEndian.Uint64(h[:8]) % uint64(n) // the same term the real code computes for round 0
	zzverif.Assume(pv >= lo && pv < hi)
	sh := append([]ValidatorIndex(nil), in...)
	un := append([]ValidatorIndex(nil), in...)
	ShuffleList(rounds, sh, seed)
	UnshuffleList(rounds, un, seed)
	zzverif.Reach("shuffled-slice")
	for i := 0; i < n; i++ {
		p := uint64(PermuteIndex(rounds, ValidatorIndex(i), uint64(n), seed))
		zzverif.Assert(p < uint64(n), "PermuteIndex stays in range")
		zzverif.Assert(vSel(un, uint64(i)) == vSel(in, p), "UnshuffleList(list)[i] == list[PermuteIndex(i)]")
		zzverif.Assert(vSel(sh, p) == uint64(in[i]), "ShuffleList(list)[PermuteIndex(i)] == list[i]")
	}
}
