package common

import "github.com/protolambda/zrnt/eth2/zzverif"

// VerifHarness_C07_committees: NewShufflingEpoch against the spec: the active set is the spec's filter, committees per
// slot follow the formula, and member k of committee (slot, idx) is active[compute_shuffled_index(start+k)] with the
// spec's compute_committee bounds - hence the committees partition the active set.
func VerifHarness_C07_committees() {
	spec := VTinySpec()
	n := zzverif.Param("validators", 4)
	e := uint64(5)
	var bounded []BoundedIndex
	var refActive []ValidatorIndex
	for i := 0; i < n; i++ {
		a, x := zzverif.NondetU8(), zzverif.NondetU8()
		zzverif.Assume(a >= 3 && a <= 7 && x >= 3 && x <= 8)
		b := BoundedIndex{Index: ValidatorIndex(i), Activation: Epoch(a), Exit: Epoch(x)}
		if x == 8 {
			b.Exit = ^Epoch(0)
		}
		bounded = append(bounded, b)
		if uint64(b.Activation) <= e && e < uint64(b.Exit) {
			refActive = append(refActive, ValidatorIndex(i))
		}
	}
	var seed Root
	seed[0], seed[31] = zzverif.NondetU8(), zzverif.NondetU8()
	sh := NewShufflingEpoch(spec, bounded, seed, Epoch(e))
	zzverif.Reach("committees")
	zzverif.Assert(len(sh.ActiveIndices) == len(refActive), "active set has the spec's size (activation <= epoch < exit)")
	if len(sh.ActiveIndices) != len(refActive) {
		return
	}
	for i := range refActive {
		zzverif.Assert(sh.ActiveIndices[i] == refActive[i], "active set is the spec's filter, in index order")
	}
	m := uint64(len(refActive))
	cps := m / uint64(spec.SLOTS_PER_EPOCH) / uint64(spec.TARGET_COMMITTEE_SIZE)
	if cps > uint64(spec.MAX_COMMITTEES_PER_SLOT) {
		cps = uint64(spec.MAX_COMMITTEES_PER_SLOT)
	}
	if cps < 1 {
		cps = 1
	}
	count := cps * uint64(spec.SLOTS_PER_EPOCH)
	seen := make([]int, n)
	for slot := uint64(0); slot < uint64(spec.SLOTS_PER_EPOCH); slot++ {
		zzverif.Assert(uint64(len(sh.Committees[slot])) == cps, "committees per slot == max(1, min(MAX_COMMITTEES_PER_SLOT, n / SLOTS_PER_EPOCH / TARGET_COMMITTEE_SIZE))")
		for idx := uint64(0); idx < cps && idx < uint64(len(sh.Committees[slot])); idx++ {
			ci := slot*cps + idx
			start, end := m*ci/count, m*(ci+1)/count
			comm := sh.Committees[slot][idx]
			zzverif.Assert(uint64(len(comm)) == end-start, "committee size follows compute_committee's bounds")
			for k := uint64(0); k < end-start && k < uint64(len(comm)); k++ {
				si := vSpecShuffledIndex(start+k, m, seed, uint8(spec.SHUFFLE_ROUND_COUNT))
				zzverif.Assert(uint64(comm[k]) == uint64(refActive[zzverif.Concrete(si)]), "committee member == active[compute_shuffled_index(start+k)]")
				seen[int(zzverif.Concrete(uint64(comm[k])))]++
			}
		}
	}
	for _, v := range refActive {
		zzverif.Assert(seen[v] == 1, "every active validator sits in exactly one committee of the epoch")
	}
}
