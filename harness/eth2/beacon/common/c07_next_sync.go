package common

import (
	"github.com/protolambda/zrnt/eth2/zzverif"
)

// group "c07n": the candidate sampling is C07_sync_indices' subject; here it records what it was asked and answers with a
// fixed index pattern
const VerifOverrideTarget_c07n__indices = "github.com/protolambda/zrnt/eth2/beacon/common.ComputeSyncCommitteeIndices"

var vNsEpoch Epoch
var vNsActive []ValidatorIndex
var vNsCalls int

func VerifOverride_c07n__indices(spec *Spec, state BeaconState, baseEpoch Epoch, active []ValidatorIndex) ([]ValidatorIndex, error) {
	vNsCalls++
	vNsEpoch = baseEpoch
	vNsActive = append([]ValidatorIndex(nil), active...)
	out := make([]ValidatorIndex, spec.SYNC_COMMITTEE_SIZE)
	for i := range out {
		out[i] = active[i%len(active)]
	}
	return out, nil
}

// VerifHarness_C07_next_sync_committee: ComputeNextSyncCommittee (the spec's get_next_sync_committee) samples from the
// validators active in the NEXT epoch (epoch = current_epoch + 1, as get_next_sync_committee_indices prescribes) and
// returns the registry pubkeys of the sampled indices, in order. The sampling itself is stubbed (group c07n) and the
// aggregate key is not compared (BLS aggregation is an uninterpreted function).
// Bounds: 3 validators; the active sets of the current and the next epoch differ (symbolic choice of who is active when).
func VerifHarness_C07_next_sync_committee() {
	zzverif.UseOverrides("c07n")
	spec := VTinySpec()
	pc := EmptyPubkeyCache()
	var pubs [3]BLSPubkey
	for i := range pubs {
		pubs[i][0], pubs[i][1] = byte(i+1), zzverif.NondetU8()
		zzverif.Assume(zzverif.BLSPubkeyValid(pubs[i]))
		pc, _ = pc.AddValidator(ValidatorIndex(i), pubs[i])
	}
	cur := Epoch(zzverif.NondetU8())
	curActive := [][]ValidatorIndex{{0, 1}, {0, 1, 2}, {2}}[zzverif.Choose(3)]
	nextActive := [][]ValidatorIndex{{1, 2}, {0}, {2, 1, 0}}[zzverif.Choose(3)]
	epc := &EpochsContext{Spec: spec, ValidatorPubkeyCache: pc,
		PreviousEpoch: &ShufflingEpoch{Epoch: cur.Previous(), ActiveIndices: []ValidatorIndex{0}},
		CurrentEpoch:  &ShufflingEpoch{Epoch: cur, ActiveIndices: curActive},
		NextEpoch:     &ShufflingEpoch{Epoch: cur + 1, ActiveIndices: nextActive}}
	vNsCalls = 0
	zzverif.Reach("next-sync-committee")
	sc, err := ComputeNextSyncCommittee(spec, epc, nil)
	zzverif.Assert(err == nil && sc != nil, "ComputeNextSyncCommittee succeeds")
	if err != nil || sc == nil {
		return
	}
	zzverif.Assert(vNsCalls == 1 && vNsEpoch == cur+1, "the next sync committee is sampled for epoch current_epoch + 1")
	same := len(vNsActive) == len(nextActive)
	for i := range nextActive {
		same = same && i < len(vNsActive) && vNsActive[i] == nextActive[i]
	}
	zzverif.Assert(same, "the next sync committee is sampled from the validators active in the next epoch")
	zzverif.Assert(len(sc.Pubkeys) == int(spec.SYNC_COMMITTEE_SIZE), "SYNC_COMMITTEE_SIZE pubkeys")
	for i := range sc.Pubkeys {
		zzverif.Assert(sc.Pubkeys[i] == pubs[int(nextActive[i%len(nextActive)])], "the committee holds the registry pubkeys of the sampled indices, in order")
	}
}
