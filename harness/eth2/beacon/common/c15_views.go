package common

import (
	"github.com/protolambda/zrnt/eth2/zzverif"
)

func vVwRoot() (r Root) { r[0] = zzverif.NondetU8(); r[31] = zzverif.NondetU8(); return }

// VerifHarness_C15_small_views: the field getters of the small container views of package common (Checkpoint, Eth1Data,
// BeaconBlockHeader, Withdrawal, BLSToExecutionChange, SignedBLSToExecutionChange) return the fields of the struct the
// view was made from (a getter reading a neighbouring field index shows up); Raw() gives back the struct.
// Bounds: scalar fields symbolic (64 bit), roots/keys with two symbolic bytes, one value per type.
func VerifHarness_C15_small_views() {
	which := zzverif.Choose(6)
	zzverif.Reach("small-views")
	switch which {
	case 0:
		x := Checkpoint{Epoch: Epoch(zzverif.NondetU64()), Root: vVwRoot()}
		v := x.View()
		var err error
		zzverif.Assert(err == nil, "Checkpoint view")
		e, e1 := v.Epoch()
		r, e2 := v.Root()
		zzverif.Assert(e1 == nil && e == x.Epoch, "CheckpointView.Epoch() is the checkpoint's epoch")
		zzverif.Assert(e2 == nil && r == x.Root, "CheckpointView.Root() is the checkpoint's root")
		raw, e3 := v.Raw()
		zzverif.Assert(e3 == nil && raw == x, "CheckpointView.Raw() is the checkpoint")
	case 1:
		x := Eth1Data{DepositRoot: vVwRoot(), DepositCount: DepositIndex(zzverif.NondetU64()), BlockHash: vVwRoot()}
		v := x.View()
		var err error
		zzverif.Assert(err == nil, "Eth1Data view")
		a, e1 := v.DepositRoot()
		b, e2 := v.DepositCount()
		c, e3 := v.BlockHash()
		zzverif.Assert(e1 == nil && e2 == nil && e3 == nil && a == x.DepositRoot && b == x.DepositCount && c == x.BlockHash, "Eth1DataView getters return the struct's fields")
		raw, e4 := v.Raw()
		zzverif.Assert(e4 == nil && raw == x, "Eth1DataView.Raw() is the struct")
	case 2:
		x := BeaconBlockHeader{Slot: Slot(zzverif.NondetU64()), ProposerIndex: ValidatorIndex(zzverif.NondetU64()), ParentRoot: vVwRoot(), StateRoot: vVwRoot(), BodyRoot: vVwRoot()}
		v := x.View()
		var err error
		zzverif.Assert(err == nil, "BeaconBlockHeader view")
		a, e1 := v.Slot()
		b, e2 := v.ProposerIndex()
		c, e3 := v.ParentRoot()
		d, e4 := v.StateRoot()
		f, e5 := v.BodyRoot()
		zzverif.Assert(e1 == nil && e2 == nil && e3 == nil && e4 == nil && e5 == nil && a == x.Slot && b == x.ProposerIndex && c == x.ParentRoot && d == x.StateRoot && f == x.BodyRoot, "BeaconBlockHeaderView getters return the struct's fields")
		raw, e6 := v.Raw()
		zzverif.Assert(e6 == nil && *raw == x, "BeaconBlockHeaderView.Raw() is the struct")
	case 3:
		x := Withdrawal{Index: WithdrawalIndex(zzverif.NondetU64()), ValidatorIndex: ValidatorIndex(zzverif.NondetU64()), Amount: Gwei(zzverif.NondetU64())}
		x.Address[0], x.Address[19] = zzverif.NondetU8(), zzverif.NondetU8()
		v := x.View()
		var err error
		zzverif.Assert(err == nil, "Withdrawal view")
		a, e1 := v.Index()
		b, e2 := v.ValidatorIndex()
		c, e3 := v.Address()
		d, e4 := v.Amount()
		zzverif.Assert(e1 == nil && e2 == nil && e3 == nil && e4 == nil && a == x.Index && b == x.ValidatorIndex && c == x.Address && d == x.Amount, "WithdrawalView getters return the struct's fields")
	case 4:
		x := BLSToExecutionChange{ValidatorIndex: ValidatorIndex(zzverif.NondetU64())}
		x.FromBLSPubKey[0], x.FromBLSPubKey[47] = zzverif.NondetU8(), zzverif.NondetU8()
		x.ToExecutionAddress[0], x.ToExecutionAddress[19] = zzverif.NondetU8(), zzverif.NondetU8()
		v := x.View()
		var err error
		zzverif.Assert(err == nil, "BLSToExecutionChange view")
		a, e1 := v.ValidatorIndex()
		b, e2 := v.FromBLSPubKey()
		c, e3 := v.ToExecutionAddress()
		zzverif.Assert(e1 == nil && e2 == nil && e3 == nil && a == x.ValidatorIndex && b == x.FromBLSPubKey && c == x.ToExecutionAddress, "BLSToExecutionChangeView getters return the struct's fields")
	case 5:
		x := SignedBLSToExecutionChange{}
		x.BLSToExecutionChange.ValidatorIndex = ValidatorIndex(zzverif.NondetU64())
		x.BLSToExecutionChange.ToExecutionAddress[3] = zzverif.NondetU8()
		x.Signature[0], x.Signature[95] = zzverif.NondetU8(), zzverif.NondetU8()
		v := x.View()
		var err error
		zzverif.Assert(err == nil, "SignedBLSToExecutionChange view")
		m, e1 := v.BLSToExecutionChange()
		sg, e2 := v.Signature()
		zzverif.Assert(e1 == nil && e2 == nil && sg == x.Signature, "SignedBLSToExecutionChangeView.Signature() is the signature")
		if e1 == nil {
			vi, e3 := m.ValidatorIndex()
			ad, e4 := m.ToExecutionAddress()
			zzverif.Assert(e3 == nil && e4 == nil && vi == x.BLSToExecutionChange.ValidatorIndex && ad == x.BLSToExecutionChange.ToExecutionAddress, "SignedBLSToExecutionChangeView.BLSToExecutionChange() is the message")
		}
	}
}
