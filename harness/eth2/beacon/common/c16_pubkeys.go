package common

import "github.com/protolambda/zrnt/eth2/zzverif"

// Shadow model of one cache handle: the history it was built along (index -> pool id of the pubkey).
type vHist []int

const vPool = 3   // distinct symbolic pubkeys
const vMaxIdx = 3 // indices 0..3 are used

func vFind(h vHist, p int) int {
	for k, x := range h {
		if x == p {
			return k
		}
	}
	return -1
}

// vRefAdd is the reference: outcome of AddValidator(i, p) on a handle with history h.
// returns (newHistory, sameHandle, isError)
func vRefAdd(h vHist, i int, p int) (vHist, bool, bool) {
	t := len(h) // truncation point: first position inconsistent with (i,p)
	if k := vFind(h, p); k >= 0 && k != i && k < t {
		t = k
	}
	if i < len(h) && h[i] != p && i < t {
		t = i
	}
	if t == len(h) {
		if i < len(h) { // known pair
			return h, true, false
		}
		if i == len(h) {
			return append(append(vHist(nil), h...), p), true, false
		}
		return h, true, true
	}
	if i != t {
		return h, false, true
	}
	return append(append(vHist(nil), h[:t]...), p), false, false
}

// VerifHarness_C16_histories: bounded AddValidator histories over a growing tree of handles, every lookup of every
// live handle compared with the reference after every step; every call must return.
func VerifHarness_C16_histories() {
	K := zzverif.Param("steps", 4)
	var pool [vPool]BLSPubkey
	for i := range pool {
		pool[i] = BLSPubkey(zzverif.NondetBytes48())
		for j := 0; j < i; j++ {
			zzverif.Assume(pool[i] != pool[j])
		}
	}
	handles := []*PubkeyCache{EmptyPubkeyCache()}
	hists := []vHist{nil}
	for step := 0; step < K; step++ {
		h := zzverif.Choose(len(handles))
		i := zzverif.Choose(vMaxIdx + 1)
		p := zzverif.Choose(vPool)
		want, same, isErr := vRefAdd(hists[h], i, p)
		zzverif.Reach("add")
		zzverif.MustReturnWithin(20000)
		got, err := handles[h].AddValidator(ValidatorIndex(i), pool[p])
		zzverif.MustReturnWithin(0)
		if isErr {
			zzverif.Assert(err != nil, "appending beyond the next index is an error")
		} else {
			zzverif.Assert(err == nil, "a consistent or forkable append succeeds")
			if err != nil {
				return
			}
			if same {
				zzverif.Assert(got == handles[h], "known pair / next index keeps the same handle")
				hists[h] = want
			} else {
				zzverif.Assert(got != handles[h], "a conflicting pair yields a new handle")
				dup := false
				for _, x := range handles {
					if x == got {
						dup = true
					}
				}
				zzverif.Assert(!dup, "the new handle is distinct from every existing handle")
				handles = append(handles, got)
				hists = append(hists, want)
			}
		}
		// every live handle answers exactly according to its own history
		for k, hd := range handles {
			for q := 0; q <= vMaxIdx; q++ {
				cp, ok := hd.Pubkey(ValidatorIndex(q))
				if q < len(hists[k]) {
					zzverif.Assert(ok && cp != nil && cp.Compressed == pool[hists[k][q]], "Pubkey(index) is the key of the handle's own history")
				} else {
					zzverif.Assert(!ok, "Pubkey(index) beyond the handle's history is unknown")
				}
			}
			for pp := 0; pp < vPool; pp++ {
				vi, ok := hd.ValidatorIndex(pool[pp])
				if j := vFind(hists[k], pp); j >= 0 {
					zzverif.Assert(ok && int(vi) == j, "ValidatorIndex(pubkey) is the index in the handle's own history")
				} else {
					zzverif.Assert(!ok, "ValidatorIndex(pubkey) not in the handle's history is unknown (no sibling/parent-tail leak)")
				}
			}
		}
	}
}
