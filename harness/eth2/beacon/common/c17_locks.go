package common

import "github.com/protolambda/zrnt/eth2/zzverif"

// VerifHarness_C17_pubkeys: lock discipline of the shared PubkeyCache (root handle and a forked handle) and of
// the lazily decompressed keys it hands out.
func VerifHarness_C17_pubkeys() {
	var a, b, c BLSPubkey
	a[0], b[0], c[0] = 1, 2, 3
	root := EmptyPubkeyCache()
	root.AddValidator(0, a)
	root.AddValidator(1, b)
	fork, _ := root.AddValidator(1, c)
	m := zzverif.Choose(9)
	zzverif.SharedBegin()
	zzverif.Reach("pubkey-method")
	zzverif.MustReturnWithin(400000)
	switch m {
	case 0:
		root.Pubkey(1)
	case 1:
		root.ValidatorIndex(b)
	case 2:
		root.AddValidator(2, c)
	case 3:
		fork.Pubkey(0)
	case 4:
		fork.ValidatorIndex(a)
	case 5:
		fork.AddValidator(2, b)
	case 6:
		root.AddValidator(0, a)
	case 7, 8:
		k, ok := root.Pubkey(0)
		if ok {
			k.Pubkey() // two goroutines may both hold this pointer
		}
	}
	zzverif.MustReturnWithin(0)
	zzverif.SharedEnd()
	zzverif.Assert(zzverif.LocksHeld() == 0, "every lock is released when the call returns")
}

type vPkObs [40]uint64

func vObservePk(root *PubkeyCache, hs [2]*PubkeyCache, errs [2]error, pool [3]BLSPubkey) (o vPkObs) {
	n := 0
	put := func(v uint64) { o[n] = v; n++ }
	for k := 0; k < 2; k++ {
		if errs[k] != nil {
			put(1)
		} else {
			put(0)
		}
		if hs[k] == root {
			put(1)
		} else if hs[k] == nil {
			put(2)
		} else {
			put(3)
		}
	}
	for _, h := range []*PubkeyCache{root, hs[0], hs[1]} {
		if h == nil {
			continue
		}
		for i := 0; i < 3; i++ {
			cp, ok := h.Pubkey(ValidatorIndex(i))
			if ok {
				put(1 + uint64(cp.Compressed[0]))
			} else {
				put(0)
			}
		}
		for _, p := range pool {
			vi, ok := h.ValidatorIndex(p)
			if ok {
				put(1 + uint64(vi))
			} else {
				put(0)
			}
		}
	}
	return
}

// VerifHarness_C17_pubkeys_interleave: sequential equivalence of two AddValidator calls on one shared cache when the
// second call runs completely between two critical sections of the first (every unlock point of the first call is
// tried). The observable outcome (errors, handle identities, every lookup on every handle) must equal the outcome
// of one of the two sequential orders.
func VerifHarness_C17_pubkeys_interleave() {
	var pool [3]BLSPubkey
	pool[0][0], pool[1][0], pool[2][0] = 1, 2, 3
	pre := zzverif.Choose(3) // entries already in the cache: 0, 1 or 2
	build := func() *PubkeyCache {
		r := EmptyPubkeyCache()
		for i := 0; i < pre; i++ {
			r.AddValidator(ValidatorIndex(i), pool[i])
		}
		return r
	}
	iA, pA := ValidatorIndex(zzverif.Choose(3)), pool[zzverif.Choose(3)]
	iB, pB := ValidatorIndex(zzverif.Choose(3)), pool[zzverif.Choose(3)]
	// sequential A;B and B;A
	r1 := build()
	a1, e1 := r1.AddValidator(iA, pA)
	b1, f1 := r1.AddValidator(iB, pB)
	o1 := vObservePk(r1, [2]*PubkeyCache{a1, b1}, [2]error{e1, f1}, pool)
	r2 := build()
	b2, f2 := r2.AddValidator(iB, pB)
	a2, e2 := r2.AddValidator(iA, pA)
	o2 := vObservePk(r2, [2]*PubkeyCache{a2, b2}, [2]error{e2, f2}, pool)
	// B inside A
	r3 := build()
	k := zzverif.Choose(4)
	cnt, ran := 0, false
	var b3 *PubkeyCache
	var f3 error
	zzverif.OnUnlock(func() {
		if ran {
			return
		}
		if cnt == k {
			ran = true
			b3, f3 = r3.AddValidator(iB, pB)
		}
		cnt++
	})
	zzverif.MustReturnWithin(400000)
	a3, e3 := r3.AddValidator(iA, pA)
	zzverif.MustReturnWithin(0)
	zzverif.OnUnlock(nil)
	if !ran {
		return // the first call had fewer than k+1 unlock points
	}
	zzverif.Reach("interleaved")
	o3 := vObservePk(r3, [2]*PubkeyCache{a3, b3}, [2]error{e3, f3}, pool)
	zzverif.Assert(o3 == o1 || o3 == o2, "two overlapping AddValidator calls return and leave what one of the two sequential orders does")
}
