package common

import (
	"github.com/protolambda/zrnt/eth2/zzverif"
	. "github.com/protolambda/ztyp/view"
)

func vPick(vals ...uint64) uint64 { return vals[zzverif.Choose(len(vals))] }

const vMaxU64 = ^uint64(0)

// VerifHarness_C19_time: TimeToSlot / TimeAtSlot over all 64-bit arguments, SECONDS_PER_SLOT case-split.
func VerifHarness_C19_time() {
	spec := &Spec{}
	s := vPick(1, 2, 3, 6, 12)
	spec.SECONDS_PER_SLOT = Timestamp(s)
	t, g := zzverif.NondetU64(), zzverif.NondetU64()
	slot := zzverif.NondetU64()
	zzverif.Reach("time")
	got := spec.TimeToSlot(Timestamp(t), Timestamp(g))
	if t < g {
		zzverif.Assert(got == 0, "TimeToSlot before genesis is slot 0")
	} else {
		zzverif.Assert(uint64(got) == (t-g)/s, "TimeToSlot == floor((t-genesis)/SECONDS_PER_SLOT)")
	}
	ts, err := spec.TimeAtSlot(Slot(slot), Timestamp(g))
	representable := slot <= (vMaxU64-g)/s // slot*s + g <= 2^64-1
	if err == nil {
		zzverif.Assert(representable, "TimeAtSlot returns no wrapped value")
		zzverif.Assert(uint64(ts) == slot*s+g, "TimeAtSlot == slot*SECONDS_PER_SLOT + genesis")
	} else {
		zzverif.Assert(!representable, "TimeAtSlot errors only when the time is not representable")
	}
}

// VerifHarness_C19_epoch: SlotToEpoch / EpochStartSlot / ComputeActivationExitEpoch / Previous, SLOTS_PER_EPOCH case-split.
func VerifHarness_C19_epoch() {
	spec := &Spec{}
	spe := vPick(1, 2, 6, 8, 16, 32)
	spec.SLOTS_PER_EPOCH = Slot(spe)
	la := vPick(1, 4)
	spec.MAX_SEED_LOOKAHEAD = Epoch(la)
	x := zzverif.NondetU64()
	zzverif.Reach("epoch")
	zzverif.Assert(uint64(spec.SlotToEpoch(Slot(x))) == x/spe, "SlotToEpoch == floor(slot/SLOTS_PER_EPOCH)")
	out, err := spec.EpochStartSlot(Epoch(x))
	overflow := x > vMaxU64/spe
	if err == nil {
		zzverif.Assert(!overflow, "EpochStartSlot errors on overflow instead of wrapping")
		zzverif.Assert(uint64(out) == x*spe, "EpochStartSlot == epoch*SLOTS_PER_EPOCH")
	} else {
		zzverif.Assert(overflow, "EpochStartSlot errors only on overflow")
	}
	if x < vMaxU64-8 {
		zzverif.Assert(uint64(spec.ComputeActivationExitEpoch(Epoch(x))) == x+1+la, "ComputeActivationExitEpoch == e+1+MAX_SEED_LOOKAHEAD")
	}
	if x == 0 {
		zzverif.Assert(Epoch(x).Previous() == 0 && Slot(x).Previous() == 0, "Previous() of genesis is genesis")
	} else {
		zzverif.Assert(uint64(Epoch(x).Previous()) == x-1 && uint64(Slot(x).Previous()) == x-1, "Previous() == x-1")
	}
}

// VerifHarness_C19_churn: GetChurnLimit and CommitteeCount against the spec formulas, constants case-split.
func VerifHarness_C19_churn() {
	spec := &Spec{}
	n := zzverif.NondetU64()
	k := zzverif.Choose(2)
	var minChurn, quot, spe, target, maxc uint64
	if k == 0 { // mainnet
		minChurn, quot, spe, target, maxc = 4, 65536, 32, 128, 64
	} else { // minimal
		minChurn, quot, spe, target, maxc = 2, 32, 8, 4, 4
	}
	spec.MIN_PER_EPOCH_CHURN_LIMIT = Uint64View(minChurn)
	spec.CHURN_LIMIT_QUOTIENT = Uint64View(quot)
	spec.SLOTS_PER_EPOCH = Slot(spe)
	spec.TARGET_COMMITTEE_SIZE = Uint64View(target)
	spec.MAX_COMMITTEES_PER_SLOT = Uint64View(maxc)
	zzverif.Reach("churn")
	want := n / quot
	if want < minChurn {
		want = minChurn
	}
	zzverif.Assert(spec.GetChurnLimit(n) == want, "GetChurnLimit == max(MIN_PER_EPOCH_CHURN_LIMIT, n/CHURN_LIMIT_QUOTIENT)")
	cc := n / spe / target
	if cc > maxc {
		cc = maxc
	}
	if cc < 1 {
		cc = 1
	}
	zzverif.Assert(CommitteeCount(spec, n) == cc, "CommitteeCount == max(1, min(MAX_COMMITTEES_PER_SLOT, n/SLOTS_PER_EPOCH/TARGET_COMMITTEE_SIZE))")
}
