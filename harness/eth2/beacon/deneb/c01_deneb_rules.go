package deneb

import (
	"bytes"
	"context"

	"github.com/protolambda/zrnt/eth2/beacon/altair"
	"github.com/protolambda/zrnt/eth2/beacon/capella"
	"github.com/protolambda/zrnt/eth2/beacon/common"
	"github.com/protolambda/zrnt/eth2/beacon/phase0"
	"github.com/protolambda/zrnt/eth2/zzverif"
	"github.com/protolambda/ztyp/codec"
	"github.com/protolambda/ztyp/tree"
	. "github.com/protolambda/ztyp/view"
)

const vA2Far = ^common.Epoch(0)

// vA2FromAltair: the deneb state (struct form) with the content of the altair state `a`, a symbolic latest execution
// payload header, symbolic withdrawal cursors (validator index within the registry) and one historical summary.
func vA2FromAltair(spec *common.Spec, a *altair.BeaconState) *BeaconState {
	wi := zzverif.NondetU8()
	zzverif.Assume(int(wi) < len(a.Validators))
	return &BeaconState{
		GenesisTime: a.GenesisTime, GenesisValidatorsRoot: a.GenesisValidatorsRoot, Slot: a.Slot,
		Fork:              common.Fork{PreviousVersion: spec.CAPELLA_FORK_VERSION, CurrentVersion: spec.DENEB_FORK_VERSION, Epoch: a.Fork.Epoch},
		LatestBlockHeader: a.LatestBlockHeader, BlockRoots: a.BlockRoots, StateRoots: a.StateRoots, HistoricalRoots: a.HistoricalRoots,
		Eth1Data: a.Eth1Data, Eth1DataVotes: a.Eth1DataVotes, Eth1DepositIndex: a.Eth1DepositIndex,
		Validators: a.Validators, Balances: a.Balances, RandaoMixes: a.RandaoMixes, Slashings: a.Slashings,
		PreviousEpochParticipation: a.PreviousEpochParticipation, CurrentEpochParticipation: a.CurrentEpochParticipation,
		JustificationBits: a.JustificationBits, PreviousJustifiedCheckpoint: a.PreviousJustifiedCheckpoint,
		CurrentJustifiedCheckpoint: a.CurrentJustifiedCheckpoint, FinalizedCheckpoint: a.FinalizedCheckpoint,
		InactivityScores: a.InactivityScores, CurrentSyncCommittee: a.CurrentSyncCommittee, NextSyncCommittee: a.NextSyncCommittee,
		LatestExecutionPayloadHeader: *vHeader(),
		NextWithdrawalIndex:          common.WithdrawalIndex(zzverif.NondetU64()),
		NextWithdrawalValidatorIndex: common.ValidatorIndex(wi),
		HistoricalSummaries:          capella.HistoricalSummaries{{BlockSummaryRoot: vR(), StateSummaryRoot: vR()}},
	}
}

// vA2View: the real tree-backed deneb state decoded from the struct form's encoding (nil on failure).
func vA2View(spec *common.Spec, raw *BeaconState) *BeaconStateView {
	var buf bytes.Buffer
	zzverif.Assert(raw.Serialize(spec, codec.NewEncodingWriter(&buf)) == nil, "deneb state serializes")
	data := buf.Bytes()
	st, err := AsBeaconStateView(BeaconStateType(spec).Deserialize(codec.NewDecodingReader(bytes.NewReader(data), uint64(len(data)))))
	zzverif.Assert(err == nil, "schema codec decodes the struct codec's bytes")
	if err != nil {
		return nil
	}
	return st
}

func vA2FieldRoots(st *BeaconStateView) []common.Root {
	h := tree.GetHashFn()
	var out []common.Root
	for i := range st.Fields {
		v, err := st.Get(uint64(i))
		zzverif.Assert(err == nil, "state field view")
		out = append(out, v.HashTreeRoot(h))
	}
	return out
}

// VerifHarness_C02_fork_quotients (deneb state): phase0.SlashValidator and phase0.ProcessEpochSlashings - the code deneb's
// block and epoch pipelines call - on a real deneb state use the bellatrix constants (capella and deneb do not change
// them): penalty effective_balance // MIN_SLASHING_PENALTY_QUOTIENT_BELLATRIX (32), proposer_reward = whistleblower_reward *
// PROPOSER_WEIGHT // WEIGHT_DENOMINATOR, PROPORTIONAL_SLASHING_MULTIPLIER_BELLATRIX (3); everything else as the spec's
// slash_validator / process_slashings.
// Bounds: phase0.VA2ForkWorldT (3 validators; one slashing with/without whistleblower at epoch 4, or the slashings step at
// epoch 6), preset phase0.VA2ForkSpec (tiny preset with PROPOSER_REWARD_QUOTIENT = 4).
// Shards: Choose #1 = kind (2); kind 0: #2 = slashed validator (3), #3 = whistleblower (3); kind 1: #2 = third validator active (2).
func VerifHarness_C02_fork_quotients() {
	spec := phase0.VA2ForkSpec()
	w := phase0.VA2ForkWorld(spec)
	st := vA2View(spec, vA2FromAltair(spec, altair.VA2AltairOfBase(spec, w.Base())))
	if st == nil {
		return
	}
	w.Check(st, st.ContainerView, phase0.VA2ForkConsts{
		MinSlashingPenaltyQuotient:     uint64(spec.MIN_SLASHING_PENALTY_QUOTIENT_BELLATRIX),
		ProportionalSlashingMultiplier: uint64(spec.PROPORTIONAL_SLASHING_MULTIPLIER_BELLATRIX),
		AltairProposerShare:            true,
	})
}

// VerifHarness_C01_deneb_attestation_window: deneb's ProcessAttestation (EIP-7045) on a real deneb state accepts exactly
// the attestations the spec's deneb process_attestation accepts - as altair but WITHOUT the upper bound state.slot <=
// data.slot + SLOTS_PER_EPOCH (an attestation of any slot of the previous epoch is includable during the whole current
// epoch) - and applies get_attestation_participation_flag_indices of deneb: timely source: delay <=
// integer_squareroot(SLOTS_PER_EPOCH); timely target: matching target REGARDLESS of the delay; timely head: matching head
// and delay == MIN_ATTESTATION_INCLUSION_DELAY; flags OR-ed into the participation list of the target epoch for every
// attesting index, proposer reward for the newly set flags, nothing else changes; refusal leaves the state root untouched.
// Bounds/assumptions: as altair's VerifHarness_C01_altair_attestation (world altair.VA2AttWorld: tiny preset or param spe=4
// with SLOTS_PER_EPOCH=4 / SLOTS_PER_HISTORICAL_ROOT=8, 3 validators 8/24/32 ETH, state in epoch 3, hand-built
// committee/proposer tables, symbolic pre-existing flags, balances, justified checkpoints, fork epoch, attestation data),
// on a deneb state with the same content (symbolic payload header and withdrawal cursors). With the tiny preset the
// delays reach 1..3, with spe=4 1..7 (beyond SLOTS_PER_EPOCH in both).
// Shards: Choose #1 = slot offset in the epoch (SLOTS_PER_EPOCH), #2 = bitlist length (5), #3 = table layout (2).
func VerifHarness_C01_deneb_attestation_window() {
	spec := common.VTinySpec()
	if zzverif.Param("spe", 2) == 4 {
		spec.SLOTS_PER_EPOCH = 4
		spec.SLOTS_PER_HISTORICAL_ROOT = 8
	}
	off := uint64(zzverif.Choose(int(spec.SLOTS_PER_EPOCH)))
	bitLen := zzverif.Choose(int(spec.MAX_VALIDATORS_PER_COMMITTEE) + 1)
	layout := zzverif.Choose(2)
	var st *BeaconStateView
	w := altair.VA2AttWorld(spec, off, layout, func(a *altair.BeaconState) (altair.AltairLikeBeaconState, *ContainerView) {
		raw := vA2FromAltair(spec, a)
		raw.Fork.PreviousVersion, raw.Fork.CurrentVersion = a.Fork.PreviousVersion, a.Fork.CurrentVersion // (the reference reads the altair struct form)
		st = vA2View(spec, raw)
		return st, st.ContainerView
	})
	att := w.Attestation(bitLen)
	h := tree.GetHashFn()
	preRoot := st.HashTreeRoot(h)
	preFields := w.FieldRoots()

	zzverif.Reach("deneb-attestation")
	err := ProcessAttestation(spec, w.Epc(), st, att)

	ok := w.RefAttestation(att, bitLen, true)
	zzverif.Assert((err == nil) == ok, "deneb ProcessAttestation accepts exactly the attestations deneb's process_attestation accepts")
	if ok {
		zzverif.Reach("deneb-attestation accepted")
		w.CheckPost(preFields)
	} else {
		zzverif.Assert(st.HashTreeRoot(h) == preRoot, "a refused attestation leaves the state untouched")
	}
}

// ---- registry: lifecycle reference (the same small reference as phase0's registry harness, re-implemented here) ----

type vA2Val struct {
	elig, act, exit, wd common.Epoch
	eff                 common.Gwei
}

// spec: get_validator_churn_limit
func vA2ChurnLimit(spec *common.Spec, vs []vA2Val, cur common.Epoch) uint64 {
	active := uint64(0)
	for _, v := range vs {
		if v.act <= cur && cur < v.exit {
			active++
		}
	}
	c := active / uint64(spec.CHURN_LIMIT_QUOTIENT)
	if c < uint64(spec.MIN_PER_EPOCH_CHURN_LIMIT) {
		c = uint64(spec.MIN_PER_EPOCH_CHURN_LIMIT)
	}
	return c
}

// spec: initiate_validator_exit
func vA2RefInitiateExit(spec *common.Spec, vs []vA2Val, i int, cur common.Epoch) {
	if vs[i].exit != vA2Far {
		return
	}
	q := cur + 1 + spec.MAX_SEED_LOOKAHEAD
	for _, v := range vs {
		if v.exit != vA2Far && v.exit > q {
			q = v.exit
		}
	}
	churn := uint64(0)
	for _, v := range vs {
		if v.exit == q {
			churn++
		}
	}
	if churn >= vA2ChurnLimit(spec, vs, cur) {
		q++
	}
	vs[i].exit = q
	vs[i].wd = q + spec.MIN_VALIDATOR_WITHDRAWABILITY_DELAY
}

// spec (deneb): process_registry_updates with get_validator_activation_churn_limit (EIP-7514)
func vA2RefRegistryUpdates(spec *common.Spec, vs []vA2Val, cur common.Epoch, finalized common.Epoch) {
	pre := append([]vA2Val(nil), vs...)
	for i := range vs {
		if vs[i].elig == vA2Far && vs[i].eff == spec.MAX_EFFECTIVE_BALANCE { // is_eligible_for_activation_queue
			vs[i].elig = cur + 1
		}
		if vs[i].act <= cur && cur < vs[i].exit && vs[i].eff <= spec.EJECTION_BALANCE {
			vA2RefInitiateExit(spec, vs, i, cur) // plain churn limit
		}
	}
	// activation queue: is_eligible_for_activation, ordered by (eligibility epoch, index)
	var queue []int
	for i := range vs {
		if pre[i].elig <= finalized && pre[i].act == vA2Far {
			queue = append(queue, i)
		}
	}
	for a := 1; a < len(queue); a++ {
		for b := a; b > 0 && pre[queue[b]].elig < pre[queue[b-1]].elig; b-- {
			queue[b], queue[b-1] = queue[b-1], queue[b]
		}
	}
	// get_validator_activation_churn_limit = min(MAX_PER_EPOCH_ACTIVATION_CHURN_LIMIT, get_validator_churn_limit(state))
	limit := vA2ChurnLimit(spec, pre, cur)
	if uint64(spec.MAX_PER_EPOCH_ACTIVATION_CHURN_LIMIT) < limit {
		limit = uint64(spec.MAX_PER_EPOCH_ACTIVATION_CHURN_LIMIT)
	}
	for k, i := range queue {
		if uint64(k) >= limit {
			break
		}
		vs[i].act = cur + 1 + spec.MAX_SEED_LOOKAHEAD
	}
}

func vA2EpochChoice(cur uint64, far bool) common.Epoch {
	k := zzverif.NondetU8()
	zzverif.Assume(k < 6)
	if far && k == 5 {
		return vA2Far
	}
	return common.Epoch(cur + uint64(k) - 2) // cur-2 .. cur+2 (cur >= 2)
}

// vA2LifecycleRaw: a deneb state (struct form, otherwise symbolic leaves: vRawDeneb) at the last slot of epoch `cur` with n
// unslashed validators with symbolic lifecycle: activation eligibility / activation epoch in cur-2..cur+2 or FAR_FUTURE
// (eligibility <= activation; not exiting unless activated), exit epoch FAR_FUTURE or queued at
// compute_activation_exit_epoch(cur) + 0..3 (chosen for validator 0) with withdrawable epoch = exit +
// MIN_VALIDATOR_WITHDRAWABILITY_DELAY, effective balance one of MAX_EFFECTIVE_BALANCE, EJECTION_BALANCE, 20 ETH.
func vA2LifecycleRaw(spec *common.Spec, n int, cur uint64) (*BeaconState, []vA2Val) {
	raw := vRawDeneb(spec, n)
	spe := uint64(spec.SLOTS_PER_EPOCH)
	raw.Slot = common.Slot(cur*spe + spe - 1)
	raw.LatestBlockHeader.Slot = raw.Slot
	var vs []vA2Val
	for i := 0; i < n; i++ {
		v := raw.Validators[i]
		v.Slashed = false
		v.ActivationEligibilityEpoch = vA2EpochChoice(cur, true)
		v.ActivationEpoch = vA2EpochChoice(cur, true)
		var ek uint8
		if i == 0 {
			ek = uint8(zzverif.Choose(5)) // concrete for the first validator: lets the job be sharded
		} else {
			ek = zzverif.NondetU8()
			zzverif.Assume(ek < 5)
		}
		if ek == 4 {
			v.ExitEpoch = vA2Far
		} else {
			v.ExitEpoch = common.Epoch(cur + 1 + uint64(spec.MAX_SEED_LOOKAHEAD) + uint64(ek))
		}
		v.WithdrawableEpoch = vA2Far
		if v.ExitEpoch != vA2Far {
			v.WithdrawableEpoch = v.ExitEpoch + spec.MIN_VALIDATOR_WITHDRAWABILITY_DELAY
		}
		bk := zzverif.NondetU8()
		zzverif.Assume(bk < 3)
		v.EffectiveBalance = []common.Gwei{spec.MAX_EFFECTIVE_BALANCE, spec.EJECTION_BALANCE, 20000000000}[bk]
		// lifecycle order of reachable states
		zzverif.Assume(v.ActivationEpoch == vA2Far || v.ActivationEligibilityEpoch <= v.ActivationEpoch)
		zzverif.Assume(v.ActivationEpoch != vA2Far || v.ExitEpoch == vA2Far)
		vs = append(vs, vA2Val{v.ActivationEligibilityEpoch, v.ActivationEpoch, v.ExitEpoch, v.WithdrawableEpoch, v.EffectiveBalance})
	}
	return raw, vs
}

func vA2CompareVals(st *BeaconStateView, vs []vA2Val, what string) {
	vals, _ := st.Validators()
	for i := range vs {
		v, _ := vals.Validator(common.ValidatorIndex(i))
		el, _ := v.ActivationEligibilityEpoch()
		ac, _ := v.ActivationEpoch()
		ex, _ := v.ExitEpoch()
		wd, _ := v.WithdrawableEpoch()
		zzverif.Assert(el == vs[i].elig, what+": activation_eligibility_epoch as the spec")
		zzverif.Assert(ac == vs[i].act, what+": activation_epoch as the spec")
		zzverif.Assert(ex == vs[i].exit, what+": exit_epoch as the spec (exit queue and churn)")
		zzverif.Assert(wd == vs[i].wd, what+": withdrawable_epoch as the spec")
	}
}

// vA2LightEpc: an epochs context holding what the registry / exit code reads: current epoch, active set, pubkey cache.
func vA2LightEpc(spec *common.Spec, raw *BeaconState, st *BeaconStateView) *common.EpochsContext {
	cur := spec.SlotToEpoch(raw.Slot)
	vals, _ := st.Validators()
	pc, err := common.NewPubkeyCache(vals)
	zzverif.Assert(err == nil, "NewPubkeyCache")
	sh := &common.ShufflingEpoch{Epoch: cur}
	for i, v := range raw.Validators {
		if v.ActivationEpoch <= cur && cur < v.ExitEpoch {
			sh.ActiveIndices = append(sh.ActiveIndices, common.ValidatorIndex(i))
		}
	}
	return &common.EpochsContext{Spec: spec, ValidatorPubkeyCache: pc, CurrentEpoch: sh}
}

// VerifHarness_C02_deneb_registry_updates: deneb's ProcessEpochRegistryUpdates on a real deneb state equals the spec's
// deneb process_registry_updates: activation eligibility, ejections through the exit queue with the PLAIN churn limit
// get_validator_churn_limit, and the activation queue (ordered by eligibility epoch, then index; eligibility epoch <=
// finalized epoch) cut at get_validator_activation_churn_limit = min(MAX_PER_EPOCH_ACTIVATION_CHURN_LIMIT,
// get_validator_churn_limit) (EIP-7514); no top-level field other than validators changes (param frame=0 skips this
// last check).
// Bounds/assumptions: tiny preset (MIN_PER_EPOCH_CHURN_LIMIT = 2, CHURN_LIMIT_QUOTIENT = 2: churn limit 2 with <= 5 active
// validators) with MAX_PER_EPOCH_ACTIVATION_CHURN_LIMIT = 1 (below the churn limit: activations are cut at 1 while two
// ejections still fit one exit epoch) or (chosen) 3 (above it: the churn limit 2 applies); `validators` (default 3)
// validators with symbolic lifecycle (vA2LifecycleRaw) at epoch 4, symbolic finalized epoch <= 4; the epochs context is
// assembled by hand (current epoch, active set).
// Shards: Choose #1 = activation limit (2), #2 = exit epoch of validator 0 (5).
func VerifHarness_C02_deneb_registry_updates() {
	spec := common.VTinySpec()
	spec.MAX_PER_EPOCH_ACTIVATION_CHURN_LIMIT = []Uint64View{1, 3}[zzverif.Choose(2)]
	n := zzverif.Param("validators", 3)
	cur := uint64(4)
	raw, vs := vA2LifecycleRaw(spec, n, cur)
	fin := zzverif.NondetU8()
	zzverif.Assume(uint64(fin) <= cur)
	raw.FinalizedCheckpoint.Epoch = common.Epoch(fin)
	st := vA2View(spec, raw)
	if st == nil {
		return
	}
	epc := vA2LightEpc(spec, raw, st)
	vals, _ := st.Validators()
	flats, err := common.FlattenValidators(vals)
	zzverif.Assert(err == nil, "FlattenValidators")
	frame := zzverif.Param("frame", 1) == 1
	var preFields []common.Root
	if frame {
		preFields = vA2FieldRoots(st)
	}
	zzverif.Reach("deneb-registry")
	err = ProcessEpochRegistryUpdates(context.Background(), spec, epc, flats, st)
	zzverif.Assert(err == nil, "ProcessEpochRegistryUpdates succeeds")
	vA2RefRegistryUpdates(spec, vs, common.Epoch(cur), common.Epoch(fin))
	vA2CompareVals(st, vs, "deneb registry updates")
	if frame {
		post := vA2FieldRoots(st)
		for i := range preFields {
			if i != _stateValidators {
				zzverif.Assert(post[i] == preFields[i], "process_registry_updates changes no field other than validators")
			}
		}
	}
}

// VerifHarness_C03_deneb_exit_domain: deneb's ProcessVoluntaryExit (the one deneb's ProcessBlock calls through
// deneb.ProcessVoluntaryExits) on a real deneb state accepts exactly the exits the spec's deneb process_voluntary_exit
// accepts: index in range, active, not exiting, exit epoch reached, active for SHARD_COMMITTEE_PERIOD, and the signature
// by the validator's key over the exit verified under compute_domain(DOMAIN_VOLUNTARY_EXIT, CAPELLA_FORK_VERSION,
// genesis_validators_root) (EIP-7044) - NOT get_domain(state, DOMAIN_VOLUNTARY_EXIT, exit.epoch) - and then queues the
// exit as initiate_validator_exit; a refused exit changes no validator; no field other than validators changes.
// Bounds/assumptions: tiny preset, 2 validators with symbolic lifecycle (vA2LifecycleRaw) at epoch 4; the state's fork
// record is symbolic (previous version with a symbolic byte, chosen so that it may or may not be the capella version;
// current version DENEB_FORK_VERSION; fork epoch <= 4) and the exit's epoch symbolic < 8, so every choice get_domain could
// make differs from the fixed capella version on some input; symbolic validator index < 4; signature with two
// symbolic bytes; BLS and SHA-256 uninterpreted; epochs context assembled by hand (current epoch, active set, the real
// pubkey cache).
// Shards: Choose #1 = exit epoch of validator 0 (5).
func VerifHarness_C03_deneb_exit_domain() {
	spec := common.VTinySpec()
	n := 2
	cur := uint64(4)
	raw, vs := vA2LifecycleRaw(spec, n, cur)
	fe := zzverif.NondetU8()
	zzverif.Assume(uint64(fe) <= cur)
	raw.Fork = common.Fork{PreviousVersion: common.Version{zzverif.NondetU8() & 7, 0, 0, 1}, CurrentVersion: spec.DENEB_FORK_VERSION, Epoch: common.Epoch(fe)}
	raw.GenesisValidatorsRoot = vR()
	for i := 0; i < n; i++ {
		raw.Validators[i].Pubkey = common.BLSPubkey{}
		raw.Validators[i].Pubkey[0], raw.Validators[i].Pubkey[47] = byte(i+1), zzverif.NondetU8()
	}
	st := vA2View(spec, raw)
	if st == nil {
		return
	}
	epc := vA2LightEpc(spec, raw, st)
	idx := zzverif.NondetU8()
	zzverif.Assume(idx < 4)
	ee := zzverif.NondetU8()
	zzverif.Assume(ee < 8)
	exit := &phase0.SignedVoluntaryExit{Message: phase0.VoluntaryExit{Epoch: common.Epoch(ee), ValidatorIndex: common.ValidatorIndex(idx)}, Signature: phase0.VSig()}
	preFields := vA2FieldRoots(st)
	zzverif.Reach("deneb-voluntary-exit")
	err := ProcessVoluntaryExit(spec, epc, st, exit)
	// ---- spec (deneb): process_voluntary_exit ----
	valid := int(idx) < n
	if valid {
		i := int(zzverif.Concrete(uint64(idx)))
		v := vs[i]
		c := common.Epoch(cur)
		dom := common.ComputeDomain(common.DOMAIN_VOLUNTARY_EXIT, spec.CAPELLA_FORK_VERSION, raw.GenesisValidatorsRoot)
		root := common.ComputeSigningRoot(exit.Message.HashTreeRoot(tree.GetHashFn()), dom)
		pub := raw.Validators[i].Pubkey
		valid = v.act <= c && c < v.exit && v.exit == vA2Far && c >= exit.Message.Epoch && c >= v.act+spec.SHARD_COMMITTEE_PERIOD &&
			zzverif.BLSPubkeyValid(pub) && zzverif.BLSSigValid(exit.Signature) && zzverif.BLSVerify(pub, root[:], exit.Signature)
		if valid {
			zzverif.Reach("deneb-voluntary-exit accepted")
			vA2RefInitiateExit(spec, vs, i, c)
		}
	}
	zzverif.Assert((err == nil) == valid, "deneb ProcessVoluntaryExit accepts exactly the exits the spec accepts (domain fixed to the capella fork version)")
	vA2CompareVals(st, vs, "deneb voluntary exit")
	post := vA2FieldRoots(st)
	for i := range preFields {
		if i != _stateValidators {
			zzverif.Assert(post[i] == preFields[i], "process_voluntary_exit changes no field other than validators")
		}
	}
}

// override group "c02al" for jobs of this package (the engine registers the overrides of the job's package only): as in
// altair's harness, the shuffling and the proposer sampling are the subject of C07/C08; here they are stubs that keep the
// bookkeeping (which epoch, which active set); the harness installs hand-built committee and proposer tables afterwards.
const VerifOverrideTarget_c02al__shuffling = "github.com/protolambda/zrnt/eth2/beacon/common.ComputeShufflingEpoch"

func VerifOverride_c02al__shuffling(spec *common.Spec, state common.BeaconState, bounded []common.BoundedIndex, epoch common.Epoch) (*common.ShufflingEpoch, error) {
	act := common.ActiveIndices(bounded, epoch)
	return &common.ShufflingEpoch{Epoch: epoch, ActiveIndices: act, Shuffling: append([]common.ValidatorIndex(nil), act...)}, nil
}

const VerifOverrideTarget_c02al__proposers = "github.com/protolambda/zrnt/eth2/beacon/common.ComputeProposers"

func VerifOverride_c02al__proposers(spec *common.Spec, state common.BeaconState, epoch common.Epoch, active []common.ValidatorIndex) (*common.ProposersEpoch, error) {
	return &common.ProposersEpoch{Spec: spec, Epoch: epoch, Proposers: make([]common.ValidatorIndex, spec.SLOTS_PER_EPOCH)}, nil
}
