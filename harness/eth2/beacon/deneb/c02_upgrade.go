package deneb

import (
	"github.com/protolambda/zrnt/eth2/beacon/altair"
	"github.com/protolambda/zrnt/eth2/beacon/capella"
	"github.com/protolambda/zrnt/eth2/beacon/common"
	"github.com/protolambda/zrnt/eth2/beacon/phase0"
	"github.com/protolambda/zrnt/eth2/zzverif"
	"github.com/protolambda/ztyp/tree"
)

// VerifHarness_C02_upgrade_deneb: the real UpgradeToDeneb on a real capella state equals the spec's upgrade_to_deneb:
// fork = Fork(previous_version = pre.fork.current_version (the capella version of the pre-state, not its
// previous_version), current_version = DENEB_FORK_VERSION, epoch = epoch(pre.slot)); every phase0/altair-era field,
// next_withdrawal_index, next_withdrawal_validator_index and historical_summaries carried over (getter by getter); the
// execution payload header carried over field by field (withdrawals_root included) with blob_gas_used =
// excess_blob_gas = 0; the root of the whole post-state is the root of the struct form of that expected state; the
// pre-state is untouched.
// Bounds: tiny preset, 2 validators, every scalar leaf symbolic (the two versions of the pre-state's fork record are
// independent symbolic 4-byte values, so they differ in general; header: byte vectors with 1-2 symbolic bytes, 2-byte
// symbolic extra_data, 64-bit symbolic base fee limb), one historical root, one eth1 vote, 0..2 historical summaries.
// Shards: Choose #1 = number of historical summaries (3).
func VerifHarness_C02_upgrade_deneb() {
	spec := common.VTinySpec()
	raw := capella.VUpRawCapella(spec, zzverif.Param("validators", 2))
	ns := zzverif.Choose(3)
	raw.HistoricalSummaries = nil
	for i := 0; i < ns; i++ {
		raw.HistoricalSummaries = append(raw.HistoricalSummaries, capella.HistoricalSummary{BlockSummaryRoot: vR(), StateSummaryRoot: vR()})
	}
	pre := capella.VUpCapellaView(spec, raw)
	if pre == nil {
		return
	}
	h := tree.GetHashFn()
	preRoot := pre.HashTreeRoot(h)
	zzverif.Reach("upgrade-deneb")
	post, err := UpgradeToDeneb(spec, &common.EpochsContext{Spec: spec}, pre)
	zzverif.Assert(err == nil && post != nil, "upgrade_to_deneb succeeds on a well-formed capella state")
	if err != nil || post == nil {
		return
	}
	zzverif.Assert(pre.HashTreeRoot(h) == preRoot, "the capella pre-state is not modified by the upgrade")
	// ---- the spec, over the raw pre-state ----
	base := capella.VUpBaseOfCapella(raw)
	base.Fork = common.Fork{PreviousVersion: raw.Fork.CurrentVersion, CurrentVersion: spec.DENEB_FORK_VERSION, Epoch: common.Epoch(uint64(raw.Slot) / uint64(spec.SLOTS_PER_EPOCH))}
	ext := capella.VUpExtOfCapella(raw)
	phase0.VUpCheckBase(spec, post, base)
	altair.VUpCheckAltairExt(spec, post, ext)
	old := &raw.LatestExecutionPayloadHeader
	want := ExecutionPayloadHeader{
		ParentHash: old.ParentHash, FeeRecipient: old.FeeRecipient, StateRoot: old.StateRoot, ReceiptsRoot: old.ReceiptsRoot,
		LogsBloom: old.LogsBloom, PrevRandao: old.PrevRandao, BlockNumber: old.BlockNumber, GasLimit: old.GasLimit,
		GasUsed: old.GasUsed, Timestamp: old.Timestamp, ExtraData: old.ExtraData, BaseFeePerGas: old.BaseFeePerGas,
		BlockHash: old.BlockHash, TransactionsRoot: old.TransactionsRoot, WithdrawalsRoot: old.WithdrawalsRoot,
		BlobGasUsed: 0, ExcessBlobGas: 0,
	}
	lh, e := post.LatestExecutionPayloadHeader()
	zzverif.Assert(e == nil && lh != nil, "latest_execution_payload_header readable")
	if e != nil || lh == nil {
		return
	}
	ph, e1 := lh.ParentHash()
	fr, e2 := lh.FeeRecipient()
	sr, e3 := lh.StateRoot()
	rr, e4 := lh.ReceiptRoot()
	lb, e5 := lh.LogsBloom()
	pr, e6 := lh.Random()
	zzverif.Assert(e1 == nil && e2 == nil && e3 == nil && e4 == nil && e5 == nil && e6 == nil && lb != nil, "header: fields readable")
	zzverif.Assert(ph == want.ParentHash, "header: parent_hash carried over")
	zzverif.Assert(fr == want.FeeRecipient, "header: fee_recipient carried over")
	zzverif.Assert(sr == want.StateRoot, "header: state_root carried over (not receipts_root)")
	zzverif.Assert(rr == want.ReceiptsRoot, "header: receipts_root carried over (not state_root)")
	zzverif.Assert(pr == want.PrevRandao, "header: prev_randao carried over")
	if lb != nil {
		zzverif.Assert(*lb == want.LogsBloom, "header: logs_bloom carried over")
	}
	bn, e1 := lh.BlockNumber()
	gl, e2 := lh.GasLimit()
	gu, e3 := lh.GasUsed()
	ts, e4 := lh.Timestamp()
	bf, e5 := lh.BaseFeePerGas()
	bh, e6 := lh.BlockHash()
	tr, e7 := lh.TransactionsRoot()
	zzverif.Assert(e1 == nil && e2 == nil && e3 == nil && e4 == nil && e5 == nil && e6 == nil && e7 == nil, "header: fields readable (2)")
	zzverif.Assert(bn == want.BlockNumber, "header: block_number carried over")
	zzverif.Assert(gl == want.GasLimit, "header: gas_limit carried over (not gas_used)")
	zzverif.Assert(gu == want.GasUsed, "header: gas_used carried over (not gas_limit)")
	zzverif.Assert(ts == want.Timestamp, "header: timestamp carried over")
	zzverif.Assert(bf == want.BaseFeePerGas, "header: base_fee_per_gas carried over")
	zzverif.Assert(bh == want.BlockHash, "header: block_hash carried over")
	zzverif.Assert(tr == want.TransactionsRoot, "header: transactions_root carried over")
	bg, e8 := lh.BlobGasUsed()
	xg, e9 := lh.ExcessBlobGas()
	zzverif.Assert(e8 == nil && bg == 0, "header: blob_gas_used = 0")
	zzverif.Assert(e9 == nil && xg == 0, "header: excess_blob_gas = 0")
	zzverif.Assert(lh.HashTreeRoot(h) == want.HashTreeRoot(h), "header as a whole: extra_data and withdrawals_root carried over, blob gas fields zero")
	wi, e10 := post.NextWithdrawalIndex()
	wv, e11 := post.NextWithdrawalValidatorIndex()
	zzverif.Assert(e10 == nil && wi == raw.NextWithdrawalIndex, "next_withdrawal_index carried over")
	zzverif.Assert(e11 == nil && wv == raw.NextWithdrawalValidatorIndex, "next_withdrawal_validator_index carried over")
	hsl, e12 := post.HistoricalSummaries()
	zzverif.Assert(e12 == nil, "historical_summaries readable")
	if e12 == nil {
		hs, ok := capella.VUpSummaries(hsl)
		zzverif.Assert(ok && len(hs) == len(raw.HistoricalSummaries), "historical_summaries length carried over")
		if ok && len(hs) == len(raw.HistoricalSummaries) {
			for i := range hs {
				zzverif.Assert(hs[i] == raw.HistoricalSummaries[i], "historical_summaries carried over")
			}
		}
	}
	exp := &BeaconState{
		GenesisTime: base.GenesisTime, GenesisValidatorsRoot: base.GenesisValidatorsRoot, Slot: base.Slot, Fork: base.Fork,
		LatestBlockHeader: base.LatestBlockHeader, BlockRoots: base.BlockRoots, StateRoots: base.StateRoots,
		HistoricalRoots: base.HistoricalRoots, Eth1Data: base.Eth1Data, Eth1DataVotes: base.Eth1DataVotes,
		Eth1DepositIndex: base.Eth1DepositIndex, Validators: base.Validators, Balances: base.Balances,
		RandaoMixes: base.RandaoMixes, Slashings: base.Slashings, JustificationBits: base.JustificationBits,
		PreviousJustifiedCheckpoint: base.PreviousJustifiedCheckpoint, CurrentJustifiedCheckpoint: base.CurrentJustifiedCheckpoint,
		FinalizedCheckpoint:        base.FinalizedCheckpoint,
		PreviousEpochParticipation: ext.PreviousEpochParticipation, CurrentEpochParticipation: ext.CurrentEpochParticipation,
		InactivityScores: ext.InactivityScores, CurrentSyncCommittee: ext.CurrentSyncCommittee, NextSyncCommittee: ext.NextSyncCommittee,
		LatestExecutionPayloadHeader: want,
		NextWithdrawalIndex:          raw.NextWithdrawalIndex, NextWithdrawalValidatorIndex: raw.NextWithdrawalValidatorIndex,
		HistoricalSummaries: raw.HistoricalSummaries,
	}
	zzverif.Assert(post.HashTreeRoot(h) == exp.HashTreeRoot(spec, h), "the post-state of upgrade_to_deneb is exactly the spec's (whole-state root)")
}
