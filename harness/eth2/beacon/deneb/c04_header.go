package deneb

import (
	"bytes"

	"github.com/protolambda/zrnt/eth2/beacon/common"
	"github.com/protolambda/zrnt/eth2/zzverif"
	"github.com/protolambda/ztyp/codec"
	"github.com/protolambda/ztyp/tree"
	. "github.com/protolambda/ztyp/view"
)

func vR() (r common.Root) { r[0] = zzverif.NondetU8(); r[31] = zzverif.NondetU8(); return }

func vHeader() *ExecutionPayloadHeader {
	h := &ExecutionPayloadHeader{}
	h.ParentHash, h.StateRoot, h.ReceiptsRoot, h.PrevRandao = vR(), vR(), vR(), vR()
	h.FeeRecipient[0] = zzverif.NondetU8()
	h.LogsBloom[0] = zzverif.NondetU8()
	h.BlockNumber = Uint64View(zzverif.NondetU64())
	h.GasLimit = Uint64View(zzverif.NondetU64())
	h.GasUsed = Uint64View(zzverif.NondetU64())
	h.Timestamp = common.Timestamp(zzverif.NondetU64())
	h.ExtraData = common.ExtraData{zzverif.NondetU8(), zzverif.NondetU8()}
	h.BaseFeePerGas[0] = zzverif.NondetU64()
	h.BlockHash, h.TransactionsRoot, h.WithdrawalsRoot = vR(), vR(), vR()
	h.BlobGasUsed = Uint64View(zzverif.NondetU64())
	h.ExcessBlobGas = Uint64View(zzverif.NondetU64())
	return h
}

// VerifHarness_C04_exec_header: the Deneb execution payload header round-trips through its struct codec, agrees with the
// schema (view) codec and root, and is read back exactly from a Deneb state after SetLatestExecutionPayloadHeader.
func VerifHarness_C04_exec_header() {
	spec := common.VTinySpec()
	h := vHeader()
	var buf bytes.Buffer
	zzverif.Assert(h.Serialize(codec.NewEncodingWriter(&buf)) == nil, "header serializes")
	data := buf.Bytes()
	zzverif.Reach("exec-header")
	zzverif.Assert(uint64(len(data)) == h.ByteLength(), "ByteLength equals the number of bytes written")
	var h2 ExecutionPayloadHeader
	zzverif.Assert(h2.Deserialize(codec.NewDecodingReader(bytes.NewReader(data), uint64(len(data)))) == nil, "own encoding decodes")
	zzverif.Assert(h2.ParentHash == h.ParentHash && h2.FeeRecipient == h.FeeRecipient && h2.StateRoot == h.StateRoot && h2.ReceiptsRoot == h.ReceiptsRoot &&
		h2.LogsBloom == h.LogsBloom && h2.PrevRandao == h.PrevRandao && h2.BlockNumber == h.BlockNumber && h2.GasLimit == h.GasLimit && h2.GasUsed == h.GasUsed &&
		h2.Timestamp == h.Timestamp && bytes.Equal(h2.ExtraData, h.ExtraData) && h2.BaseFeePerGas == h.BaseFeePerGas && h2.BlockHash == h.BlockHash &&
		h2.TransactionsRoot == h.TransactionsRoot && h2.WithdrawalsRoot == h.WithdrawalsRoot && h2.BlobGasUsed == h.BlobGasUsed && h2.ExcessBlobGas == h.ExcessBlobGas,
		"decode(encode(header)) == header, field by field")
	hf := tree.GetHashFn()
	v, err := ExecutionPayloadHeaderType.Deserialize(codec.NewDecodingReader(bytes.NewReader(data), uint64(len(data))))
	zzverif.Assert(err == nil, "schema (view) codec decodes the struct codec's bytes")
	if err != nil {
		return
	}
	zzverif.Assert(v.HashTreeRoot(hf) == h.HashTreeRoot(hf), "struct root == view root (ExecutionPayloadHeader)")
	zzverif.Assert(h.View().HashTreeRoot(hf) == h.HashTreeRoot(hf), "header.View() has the struct's root")
	// through the state accessor
	st := NewBeaconStateView(spec)
	zzverif.Assert(st.SetLatestExecutionPayloadHeader(h) == nil, "SetLatestExecutionPayloadHeader")
	gv, err := st.LatestExecutionPayloadHeader()
	zzverif.Assert(err == nil, "LatestExecutionPayloadHeader()")
	if err != nil {
		return
	}
	g, err := gv.Raw()
	zzverif.Assert(err == nil && g != nil, "header view converts back")
	if err != nil || g == nil {
		return
	}
	zzverif.Assert(g.BlobGasUsed == h.BlobGasUsed && g.ExcessBlobGas == h.ExcessBlobGas && g.GasUsed == h.GasUsed && g.GasLimit == h.GasLimit &&
		g.BlockNumber == h.BlockNumber && g.Timestamp == h.Timestamp && g.BlockHash == h.BlockHash && g.WithdrawalsRoot == h.WithdrawalsRoot &&
		g.TransactionsRoot == h.TransactionsRoot && g.ParentHash == h.ParentHash && g.PrevRandao == h.PrevRandao && g.BaseFeePerGas == h.BaseFeePerGas,
		"the getter returns exactly the header last stored")
}
