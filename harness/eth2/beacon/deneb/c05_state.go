package deneb

import (
	"bytes"

	"github.com/protolambda/zrnt/eth2/beacon/altair"
	"github.com/protolambda/zrnt/eth2/beacon/capella"
	"github.com/protolambda/zrnt/eth2/beacon/common"
	"github.com/protolambda/zrnt/eth2/beacon/phase0"
	"github.com/protolambda/zrnt/eth2/zzverif"
	"github.com/protolambda/ztyp/codec"
	"github.com/protolambda/ztyp/tree"
	. "github.com/protolambda/ztyp/view"
)

func vSyncCommittee(spec *common.Spec) common.SyncCommittee {
	sc := common.SyncCommittee{}
	for i := uint64(0); i < uint64(spec.SYNC_COMMITTEE_SIZE); i++ {
		var p common.BLSPubkey
		p[0], p[47] = zzverif.NondetU8(), byte(i)
		sc.Pubkeys = append(sc.Pubkeys, p)
	}
	sc.AggregatePubkey[0] = zzverif.NondetU8()
	return sc
}

// vRawDeneb: a raw Deneb state (superset of the altair/bellatrix/capella fields) of the tiny preset with symbolic leaves.
func vRawDeneb(spec *common.Spec, n int) *BeaconState {
	st := &BeaconState{}
	st.GenesisTime = common.Timestamp(zzverif.NondetU64())
	st.GenesisValidatorsRoot = vR()
	st.Slot = common.Slot(zzverif.NondetU64())
	st.Fork = common.Fork{PreviousVersion: common.Version(zzverif.NondetBytes4()), CurrentVersion: common.Version(zzverif.NondetBytes4()), Epoch: common.Epoch(zzverif.NondetU64())}
	st.LatestBlockHeader = common.BeaconBlockHeader{Slot: common.Slot(zzverif.NondetU64()), ProposerIndex: common.ValidatorIndex(zzverif.NondetU64()), ParentRoot: vR(), StateRoot: vR(), BodyRoot: vR()}
	st.BlockRoots = make([]common.Root, spec.SLOTS_PER_HISTORICAL_ROOT)
	st.StateRoots = make([]common.Root, spec.SLOTS_PER_HISTORICAL_ROOT)
	for i := range st.BlockRoots {
		st.BlockRoots[i], st.StateRoots[i] = vR(), vR()
	}
	st.HistoricalRoots = phase0.HistoricalRoots{vR()}
	st.Eth1Data = common.Eth1Data{DepositRoot: vR(), DepositCount: common.DepositIndex(zzverif.NondetU64()), BlockHash: vR()}
	st.Eth1DataVotes = phase0.Eth1DataVotes{common.Eth1Data{DepositRoot: vR(), DepositCount: 7, BlockHash: vR()}}
	st.Eth1DepositIndex = common.DepositIndex(zzverif.NondetU64())
	for i := 0; i < n; i++ {
		v := &phase0.Validator{}
		v.Pubkey[0], v.Pubkey[47] = zzverif.NondetU8(), byte(i+1)
		v.WithdrawalCredentials = vR()
		v.EffectiveBalance = common.Gwei(zzverif.NondetU64())
		v.Slashed = zzverif.NondetBool()
		v.ActivationEligibilityEpoch, v.ActivationEpoch = common.Epoch(zzverif.NondetU64()), common.Epoch(zzverif.NondetU64())
		v.ExitEpoch, v.WithdrawableEpoch = common.Epoch(zzverif.NondetU64()), common.Epoch(zzverif.NondetU64())
		st.Validators = append(st.Validators, v)
		st.Balances = append(st.Balances, common.Gwei(zzverif.NondetU64()))
		st.PreviousEpochParticipation = append(st.PreviousEpochParticipation, altair.ParticipationFlags(zzverif.NondetU8()&7))
		st.CurrentEpochParticipation = append(st.CurrentEpochParticipation, altair.ParticipationFlags(zzverif.NondetU8()&7))
		st.InactivityScores = append(st.InactivityScores, Uint64View(zzverif.NondetU64()))
	}
	st.RandaoMixes = make([]common.Root, spec.EPOCHS_PER_HISTORICAL_VECTOR)
	for i := range st.RandaoMixes {
		st.RandaoMixes[i] = vR()
	}
	st.Slashings = make([]common.Gwei, spec.EPOCHS_PER_SLASHINGS_VECTOR)
	for i := range st.Slashings {
		st.Slashings[i] = common.Gwei(zzverif.NondetU64())
	}
	st.JustificationBits = common.JustificationBits{zzverif.NondetU8() & 0x0f}
	st.PreviousJustifiedCheckpoint = common.Checkpoint{Epoch: common.Epoch(zzverif.NondetU64()), Root: vR()}
	st.CurrentJustifiedCheckpoint = common.Checkpoint{Epoch: common.Epoch(zzverif.NondetU64()), Root: vR()}
	st.FinalizedCheckpoint = common.Checkpoint{Epoch: common.Epoch(zzverif.NondetU64()), Root: vR()}
	st.CurrentSyncCommittee, st.NextSyncCommittee = vSyncCommittee(spec), vSyncCommittee(spec)
	st.LatestExecutionPayloadHeader = *vHeader()
	st.NextWithdrawalIndex = common.WithdrawalIndex(zzverif.NondetU64())
	st.NextWithdrawalValidatorIndex = common.ValidatorIndex(zzverif.NondetU64())
	st.HistoricalSummaries = capella.HistoricalSummaries{{BlockSummaryRoot: vR(), StateSummaryRoot: vR()}}
	return st
}

// VerifHarness_C05_deneb_state: the whole Deneb BeaconState (all altair, bellatrix, capella and deneb fields): byte
// length, struct codec vs schema codec, struct root == view root, and the fork-specific accessors read what was encoded.
func VerifHarness_C05_deneb_state() {
	spec := common.VTinySpec()
	raw := vRawDeneb(spec, zzverif.Param("validators", 1))
	var buf bytes.Buffer
	zzverif.Assert(raw.Serialize(spec, codec.NewEncodingWriter(&buf)) == nil, "deneb state serializes")
	data := buf.Bytes()
	zzverif.Reach("deneb-state")
	zzverif.Assert(uint64(len(data)) == raw.ByteLength(spec), "ByteLength equals the number of bytes written")
	st, err := AsBeaconStateView(BeaconStateType(spec).Deserialize(codec.NewDecodingReader(bytes.NewReader(data), uint64(len(data)))))
	zzverif.Assert(err == nil, "schema codec decodes the struct codec's bytes")
	if err != nil {
		return
	}
	h := tree.GetHashFn()
	zzverif.Assert(st.HashTreeRoot(h) == raw.HashTreeRoot(spec, h), "struct root == view root (deneb BeaconState)")
	var raw2 BeaconState
	zzverif.Assert(raw2.Deserialize(spec, codec.NewDecodingReader(bytes.NewReader(data), uint64(len(data)))) == nil, "struct codec decodes its own bytes")
	zzverif.Assert(raw2.HashTreeRoot(spec, h) == raw.HashTreeRoot(spec, h), "decode(encode(state)) has the root of state (every leaf round-trips)")
	var buf2 bytes.Buffer
	zzverif.Assert(st.Serialize(codec.NewEncodingWriter(&buf2)) == nil && bytes.Equal(buf2.Bytes(), data), "schema codec re-encodes to the same bytes")
	// fork-specific accessors
	wi, _ := st.NextWithdrawalIndex()
	wv, _ := st.NextWithdrawalValidatorIndex()
	zzverif.Assert(wi == raw.NextWithdrawalIndex && wv == raw.NextWithdrawalValidatorIndex, "withdrawal index accessors")
	is, _ := st.InactivityScores()
	pp, _ := st.PreviousEpochParticipation()
	cp, _ := st.CurrentEpochParticipation()
	for i := range raw.Validators {
		sc, e1 := is.GetScore(common.ValidatorIndex(i))
		zzverif.Assert(e1 == nil && sc == uint64(raw.InactivityScores[i]), "InactivityScores().GetScore(i)")
		pf, e2 := pp.GetFlags(common.ValidatorIndex(i))
		cf, e3 := cp.GetFlags(common.ValidatorIndex(i))
		zzverif.Assert(e2 == nil && e3 == nil && pf == raw.PreviousEpochParticipation[i] && cf == raw.CurrentEpochParticipation[i], "participation flags of validator i")
	}
	csc, _ := st.CurrentSyncCommittee()
	nsc, _ := st.NextSyncCommittee()
	zzverif.Assert(csc.HashTreeRoot(h) == raw.CurrentSyncCommittee.HashTreeRoot(spec, h) && nsc.HashTreeRoot(h) == raw.NextSyncCommittee.HashTreeRoot(spec, h), "sync committee accessors return the encoded committees (not swapped)")
	hv, _ := st.LatestExecutionPayloadHeader()
	zzverif.Assert(hv.HashTreeRoot(h) == raw.LatestExecutionPayloadHeader.HashTreeRoot(h), "latest execution payload header accessor")
	_, hsErr := st.HistoricalSummaries()
	zzverif.Assert(hsErr == nil, "historical summaries accessor")
}

// VerifHarness_C01_deneb_add_validator: the deneb state's AddValidator (add_validator_to_registry of altair and later)
// appends the validator, its balance and zero entries to both participation lists and inactivity_scores, and leaves the
// entries of every existing validator as they were. Bounds: tiny preset, 1..3 existing validators, symbolic leaves.
func VerifHarness_C01_deneb_add_validator() {
	spec := common.VTinySpec()
	n := 1 + zzverif.Choose(3)
	raw := vRawDeneb(spec, n)
	var buf bytes.Buffer
	zzverif.Assert(raw.Serialize(spec, codec.NewEncodingWriter(&buf)) == nil, "deneb state serializes")
	data := buf.Bytes()
	st, err := AsBeaconStateView(BeaconStateType(spec).Deserialize(codec.NewDecodingReader(bytes.NewReader(data), uint64(len(data)))))
	zzverif.Assert(err == nil, "schema codec decodes the struct codec's bytes")
	if err != nil {
		return
	}
	var pub common.BLSPubkey
	pub[0], pub[47] = zzverif.NondetU8(), 0x77
	creds := vR()
	amount := zzverif.NondetU64()
	zzverif.Assume(amount < 1<<40)
	zzverif.Reach("deneb-add-validator")
	err = st.AddValidator(spec, pub, creds, common.Gwei(amount))
	zzverif.Assert(err == nil, "AddValidator succeeds below the registry limit")
	if err != nil {
		return
	}
	is, _ := st.InactivityScores()
	pp, _ := st.PreviousEpochParticipation()
	cp, _ := st.CurrentEpochParticipation()
	bals, _ := st.Balances()
	vals, _ := st.Validators()
	l1, _ := is.Length()
	l2, _ := pp.Length()
	l3, _ := cp.Length()
	l4, _ := bals.Length()
	l5, _ := vals.ValidatorCount()
	zzverif.Assert(l1 == uint64(n+1) && l2 == uint64(n+1) && l3 == uint64(n+1) && l4 == uint64(n+1) && l5 == uint64(n+1), "registry, balances, participation lists and inactivity_scores grow by one entry")
	for i := 0; i <= n; i++ {
		sc, e1 := is.GetScore(common.ValidatorIndex(i))
		pf, e2 := pp.GetFlags(common.ValidatorIndex(i))
		cf, e3 := cp.GetFlags(common.ValidatorIndex(i))
		b, e4 := bals.GetBalance(common.ValidatorIndex(i))
		zzverif.Assert(e1 == nil && e2 == nil && e3 == nil && e4 == nil, "entries are readable after a deposit")
		if i < n {
			zzverif.Assert(sc == uint64(raw.InactivityScores[i]), "inactivity scores of the existing validators are unchanged by a deposit")
			zzverif.Assert(pf == raw.PreviousEpochParticipation[i] && cf == raw.CurrentEpochParticipation[i], "participation flags of the existing validators are unchanged by a deposit")
			zzverif.Assert(b == raw.Balances[i], "balances of the existing validators are unchanged by a deposit")
		} else {
			zzverif.Assert(sc == 0 && pf == 0 && cf == 0 && uint64(b) == amount, "the new validator starts with score 0, no participation flags and the deposit amount")
		}
	}
	nv, e5 := vals.Validator(common.ValidatorIndex(n))
	zzverif.Assert(e5 == nil, "the new validator is readable")
	if e5 == nil {
		gp, _ := nv.Pubkey()
		gc, _ := nv.WithdrawalCredentials()
		ge, _ := nv.EffectiveBalance()
		inc := uint64(spec.EFFECTIVE_BALANCE_INCREMENT)
		eff := amount - amount%inc
		if eff > uint64(spec.MAX_EFFECTIVE_BALANCE) {
			eff = uint64(spec.MAX_EFFECTIVE_BALANCE)
		}
		a2, _ := nv.ActivationEpoch()
		a3, _ := nv.ExitEpoch()
		zzverif.Assert(gp == pub && gc == creds && uint64(ge) == eff && a2 == ^common.Epoch(0) && a3 == ^common.Epoch(0), "the new validator record is the spec's get_validator_from_deposit")
	}
}

func vCk() common.Checkpoint { return common.Checkpoint{Epoch: common.Epoch(zzverif.NondetU64()), Root: vR()} }

// VerifHarness_C15_deneb_setters: every setter / mutator of the deneb state view changes exactly the field it names:
// after one (chosen) mutation with symbolic arguments the getter returns the stored value and the root of the whole
// view equals the root of the struct form with only that field replaced (so a setter wired to a neighbouring field
// index, or a getter reading another field, shows up). Bounds: tiny preset, 2 validators, one mutation per path.
func VerifHarness_C15_deneb_setters() {
	spec := common.VTinySpec()
	raw := vRawDeneb(spec, 2)
	var buf bytes.Buffer
	zzverif.Assert(raw.Serialize(spec, codec.NewEncodingWriter(&buf)) == nil, "deneb state serializes")
	data := buf.Bytes()
	st, err := AsBeaconStateView(BeaconStateType(spec).Deserialize(codec.NewDecodingReader(bytes.NewReader(data), uint64(len(data)))))
	zzverif.Assert(err == nil, "schema codec decodes the struct codec's bytes")
	if err != nil {
		return
	}
	h := tree.GetHashFn()
	which := zzverif.Choose(24)
	zzverif.Reach("deneb-setters")
	switch which {
	case 0:
		x := common.Timestamp(zzverif.NondetU64())
		zzverif.Assert(st.SetGenesisTime(x) == nil, "SetGenesisTime")
		raw.GenesisTime = x
		g, _ := st.GenesisTime()
		zzverif.Assert(g == x, "GenesisTime() returns the stored value")
	case 1:
		x := vR()
		zzverif.Assert(st.SetGenesisValidatorsRoot(x) == nil, "SetGenesisValidatorsRoot")
		raw.GenesisValidatorsRoot = x
		g, _ := st.GenesisValidatorsRoot()
		zzverif.Assert(g == x, "GenesisValidatorsRoot() returns the stored value")
	case 2:
		x := common.Slot(zzverif.NondetU64())
		zzverif.Assert(st.SetSlot(x) == nil, "SetSlot")
		raw.Slot = x
		g, _ := st.Slot()
		zzverif.Assert(g == x, "Slot() returns the stored value")
	case 3:
		x := common.Fork{PreviousVersion: common.Version(zzverif.NondetBytes4()), CurrentVersion: common.Version(zzverif.NondetBytes4()), Epoch: common.Epoch(zzverif.NondetU64())}
		zzverif.Assert(st.SetFork(x) == nil, "SetFork")
		raw.Fork = x
		g, _ := st.Fork()
		zzverif.Assert(g == x, "Fork() returns the stored value")
	case 4:
		x := common.BeaconBlockHeader{Slot: common.Slot(zzverif.NondetU64()), ProposerIndex: common.ValidatorIndex(zzverif.NondetU64()), ParentRoot: vR(), StateRoot: vR(), BodyRoot: vR()}
		zzverif.Assert(st.SetLatestBlockHeader(&x) == nil, "SetLatestBlockHeader")
		raw.LatestBlockHeader = x
		g, _ := st.LatestBlockHeader()
		zzverif.Assert(g != nil && *g == x, "LatestBlockHeader() returns the stored value")
	case 5:
		x := common.Eth1Data{DepositRoot: vR(), DepositCount: common.DepositIndex(zzverif.NondetU64()), BlockHash: vR()}
		zzverif.Assert(st.SetEth1Data(x) == nil, "SetEth1Data")
		raw.Eth1Data = x
		g, _ := st.Eth1Data()
		zzverif.Assert(g == x, "Eth1Data() returns the stored value")
	case 6:
		zzverif.Assume(raw.Eth1DepositIndex < ^common.DepositIndex(0))
		zzverif.Assert(st.IncrementDepositIndex() == nil, "IncrementDepositIndex")
		raw.Eth1DepositIndex++
		g, _ := st.Eth1DepositIndex()
		zzverif.Assert(g == raw.Eth1DepositIndex, "Eth1DepositIndex() returns the incremented value")
	case 7:
		x := common.JustificationBits{zzverif.NondetU8() & 0x0f}
		zzverif.Assert(st.SetJustificationBits(x) == nil, "SetJustificationBits")
		raw.JustificationBits = x
		g, _ := st.JustificationBits()
		zzverif.Assert(g == x, "JustificationBits() returns the stored value")
	case 8:
		x := vCk()
		zzverif.Assert(st.SetPreviousJustifiedCheckpoint(x) == nil, "SetPreviousJustifiedCheckpoint")
		raw.PreviousJustifiedCheckpoint = x
		g, _ := st.PreviousJustifiedCheckpoint()
		zzverif.Assert(g == x, "PreviousJustifiedCheckpoint() returns the stored value")
	case 9:
		x := vCk()
		zzverif.Assert(st.SetCurrentJustifiedCheckpoint(x) == nil, "SetCurrentJustifiedCheckpoint")
		raw.CurrentJustifiedCheckpoint = x
		g, _ := st.CurrentJustifiedCheckpoint()
		zzverif.Assert(g == x, "CurrentJustifiedCheckpoint() returns the stored value")
	case 10:
		x := vCk()
		zzverif.Assert(st.SetFinalizedCheckpoint(x) == nil, "SetFinalizedCheckpoint")
		raw.FinalizedCheckpoint = x
		g, _ := st.FinalizedCheckpoint()
		zzverif.Assert(g == x, "FinalizedCheckpoint() returns the stored value")
	case 11:
		i := zzverif.Choose(2)
		x := common.Gwei(zzverif.NondetU64())
		bals, _ := st.Balances()
		zzverif.Assert(bals.SetBalance(common.ValidatorIndex(i), x) == nil, "Balances().SetBalance")
		raw.Balances[i] = x
	case 12:
		x, y := common.Gwei(zzverif.NondetU64()), common.Gwei(zzverif.NondetU64())
		zzverif.Assert(st.SetBalances([]common.Gwei{x, y}) == nil, "SetBalances")
		raw.Balances[0], raw.Balances[1] = x, y
	case 13:
		i := zzverif.Choose(int(spec.SLOTS_PER_HISTORICAL_ROOT))
		x := vR()
		br, _ := st.BlockRoots()
		zzverif.Assert(br.SetRoot(common.Slot(i), x) == nil, "BlockRoots().SetRoot")
		raw.BlockRoots[i] = x
	case 14:
		i := zzverif.Choose(int(spec.SLOTS_PER_HISTORICAL_ROOT))
		x := vR()
		sr, _ := st.StateRoots()
		zzverif.Assert(sr.SetRoot(common.Slot(i), x) == nil, "StateRoots().SetRoot")
		raw.StateRoots[i] = x
	case 15:
		i := zzverif.Choose(2)
		x := zzverif.NondetU64()
		is, _ := st.InactivityScores()
		zzverif.Assert(is.SetScore(common.ValidatorIndex(i), x) == nil, "InactivityScores().SetScore")
		raw.InactivityScores[i] = Uint64View(x)
		is2, _ := st.InactivityScores()
		g, _ := is2.GetScore(common.ValidatorIndex(i))
		zzverif.Assert(g == x, "GetScore returns the stored score")
	case 16:
		i := zzverif.Choose(2)
		x := altair.ParticipationFlags(zzverif.NondetU8() & 7)
		prev := zzverif.Choose(2) == 0
		if prev {
			pp, _ := st.PreviousEpochParticipation()
			zzverif.Assert(pp.SetFlags(common.ValidatorIndex(i), x) == nil, "PreviousEpochParticipation().SetFlags")
			raw.PreviousEpochParticipation[i] = x
		} else {
			cp, _ := st.CurrentEpochParticipation()
			zzverif.Assert(cp.SetFlags(common.ValidatorIndex(i), x) == nil, "CurrentEpochParticipation().SetFlags")
			raw.CurrentEpochParticipation[i] = x
		}
	case 17:
		sc := vSyncCommittee(spec)
		sc.AggregatePubkey[1] = 0x5a
		v, e := sc.View(spec)
		zzverif.Assert(e == nil && st.SetCurrentSyncCommittee(v) == nil, "SetCurrentSyncCommittee")
		raw.CurrentSyncCommittee = sc
	case 18:
		sc := vSyncCommittee(spec)
		sc.AggregatePubkey[1] = 0x5b
		v, e := sc.View(spec)
		zzverif.Assert(e == nil && st.SetNextSyncCommittee(v) == nil, "SetNextSyncCommittee")
		raw.NextSyncCommittee = sc
	case 19:
		sc := vSyncCommittee(spec)
		sc.AggregatePubkey[1] = 0x5c
		v, e := sc.View(spec)
		zzverif.Assert(e == nil && st.RotateSyncCommittee(v) == nil, "RotateSyncCommittee")
		raw.CurrentSyncCommittee = raw.NextSyncCommittee
		raw.NextSyncCommittee = sc
	case 20:
		hd := vHeader()
		zzverif.Assert(st.SetLatestExecutionPayloadHeader(hd) == nil, "SetLatestExecutionPayloadHeader")
		raw.LatestExecutionPayloadHeader = *hd
	case 21:
		zzverif.Assume(raw.NextWithdrawalIndex < ^common.WithdrawalIndex(0))
		zzverif.Assert(st.IncrementNextWithdrawalIndex() == nil, "IncrementNextWithdrawalIndex")
		raw.NextWithdrawalIndex++
		g, _ := st.NextWithdrawalIndex()
		zzverif.Assert(g == raw.NextWithdrawalIndex, "NextWithdrawalIndex() returns the incremented value")
	case 22:
		x := common.WithdrawalIndex(zzverif.NondetU64())
		y := common.ValidatorIndex(zzverif.NondetU64())
		zzverif.Assert(st.SetNextWithdrawalIndex(x) == nil && st.SetNextWithdrawalValidatorIndex(y) == nil, "SetNextWithdrawalIndex / SetNextWithdrawalValidatorIndex")
		raw.NextWithdrawalIndex, raw.NextWithdrawalValidatorIndex = x, y
		g1, _ := st.NextWithdrawalIndex()
		g2, _ := st.NextWithdrawalValidatorIndex()
		zzverif.Assert(g1 == x && g2 == y, "withdrawal cursors return the stored values")
	case 23:
		i := zzverif.Choose(2)
		x := common.Epoch(zzverif.NondetU64())
		vals, _ := st.Validators()
		v, _ := vals.Validator(common.ValidatorIndex(i))
		zzverif.Assert(v.SetWithdrawableEpoch(x) == nil, "validator.SetWithdrawableEpoch")
		raw.Validators[i].WithdrawableEpoch = x
	}
	zzverif.Assert(st.HashTreeRoot(h) == raw.HashTreeRoot(spec, h), "after the mutation the view's root is the struct's root with exactly that field replaced")
}
