package deneb

import (
	"bytes"

	"github.com/protolambda/zrnt/eth2/beacon/altair"
	"github.com/protolambda/zrnt/eth2/beacon/capella"
	"github.com/protolambda/zrnt/eth2/beacon/common"
	"github.com/protolambda/zrnt/eth2/beacon/phase0"
	"github.com/protolambda/zrnt/eth2/zzverif"
	"github.com/protolambda/ztyp/codec"
	"github.com/protolambda/ztyp/tree"
	. "github.com/protolambda/ztyp/view"
)

func vSyncCommittee(spec *common.Spec) common.SyncCommittee {
	sc := common.SyncCommittee{}
	for i := uint64(0); i < uint64(spec.SYNC_COMMITTEE_SIZE); i++ {
		var p common.BLSPubkey
		p[0], p[47] = zzverif.NondetU8(), byte(i)
		sc.Pubkeys = append(sc.Pubkeys, p)
	}
	sc.AggregatePubkey[0] = zzverif.NondetU8()
	return sc
}

// vRawDeneb: a raw Deneb state (superset of the altair/bellatrix/capella fields) of the tiny preset with symbolic leaves.
func vRawDeneb(spec *common.Spec, n int) *BeaconState {
	st := &BeaconState{}
	st.GenesisTime = common.Timestamp(zzverif.NondetU64())
	st.GenesisValidatorsRoot = vR()
	st.Slot = common.Slot(zzverif.NondetU64())
	st.Fork = common.Fork{PreviousVersion: common.Version(zzverif.NondetBytes4()), CurrentVersion: common.Version(zzverif.NondetBytes4()), Epoch: common.Epoch(zzverif.NondetU64())}
	st.LatestBlockHeader = common.BeaconBlockHeader{Slot: common.Slot(zzverif.NondetU64()), ProposerIndex: common.ValidatorIndex(zzverif.NondetU64()), ParentRoot: vR(), StateRoot: vR(), BodyRoot: vR()}
	st.BlockRoots = make([]common.Root, spec.SLOTS_PER_HISTORICAL_ROOT)
	st.StateRoots = make([]common.Root, spec.SLOTS_PER_HISTORICAL_ROOT)
	for i := range st.BlockRoots {
		st.BlockRoots[i], st.StateRoots[i] = vR(), vR()
	}
	st.HistoricalRoots = phase0.HistoricalRoots{vR()}
	st.Eth1Data = common.Eth1Data{DepositRoot: vR(), DepositCount: common.DepositIndex(zzverif.NondetU64()), BlockHash: vR()}
	st.Eth1DataVotes = phase0.Eth1DataVotes{common.Eth1Data{DepositRoot: vR(), DepositCount: 7, BlockHash: vR()}}
	st.Eth1DepositIndex = common.DepositIndex(zzverif.NondetU64())
	for i := 0; i < n; i++ {
		v := &phase0.Validator{}
		v.Pubkey[0], v.Pubkey[47] = zzverif.NondetU8(), byte(i+1)
		v.WithdrawalCredentials = vR()
		v.EffectiveBalance = common.Gwei(zzverif.NondetU64())
		v.Slashed = zzverif.NondetBool()
		v.ActivationEligibilityEpoch, v.ActivationEpoch = common.Epoch(zzverif.NondetU64()), common.Epoch(zzverif.NondetU64())
		v.ExitEpoch, v.WithdrawableEpoch = common.Epoch(zzverif.NondetU64()), common.Epoch(zzverif.NondetU64())
		st.Validators = append(st.Validators, v)
		st.Balances = append(st.Balances, common.Gwei(zzverif.NondetU64()))
		st.PreviousEpochParticipation = append(st.PreviousEpochParticipation, altair.ParticipationFlags(zzverif.NondetU8()&7))
		st.CurrentEpochParticipation = append(st.CurrentEpochParticipation, altair.ParticipationFlags(zzverif.NondetU8()&7))
		st.InactivityScores = append(st.InactivityScores, Uint64View(zzverif.NondetU64()))
	}
	st.RandaoMixes = make([]common.Root, spec.EPOCHS_PER_HISTORICAL_VECTOR)
	for i := range st.RandaoMixes {
		st.RandaoMixes[i] = vR()
	}
	st.Slashings = make([]common.Gwei, spec.EPOCHS_PER_SLASHINGS_VECTOR)
	for i := range st.Slashings {
		st.Slashings[i] = common.Gwei(zzverif.NondetU64())
	}
	st.JustificationBits = common.JustificationBits{zzverif.NondetU8() & 0x0f}
	st.PreviousJustifiedCheckpoint = common.Checkpoint{Epoch: common.Epoch(zzverif.NondetU64()), Root: vR()}
	st.CurrentJustifiedCheckpoint = common.Checkpoint{Epoch: common.Epoch(zzverif.NondetU64()), Root: vR()}
	st.FinalizedCheckpoint = common.Checkpoint{Epoch: common.Epoch(zzverif.NondetU64()), Root: vR()}
	st.CurrentSyncCommittee, st.NextSyncCommittee = vSyncCommittee(spec), vSyncCommittee(spec)
	st.LatestExecutionPayloadHeader = *vHeader()
	st.NextWithdrawalIndex = common.WithdrawalIndex(zzverif.NondetU64())
	st.NextWithdrawalValidatorIndex = common.ValidatorIndex(zzverif.NondetU64())
	st.HistoricalSummaries = capella.HistoricalSummaries{{BlockSummaryRoot: vR(), StateSummaryRoot: vR()}}
	return st
}

// VerifHarness_C05_deneb_state: the whole Deneb BeaconState (all altair, bellatrix, capella and deneb fields): byte
// length, struct codec vs schema codec, struct root == view root, and the fork-specific accessors read what was encoded.
func VerifHarness_C05_deneb_state() {
	spec := common.VTinySpec()
	raw := vRawDeneb(spec, zzverif.Param("validators", 1))
	var buf bytes.Buffer
	zzverif.Assert(raw.Serialize(spec, codec.NewEncodingWriter(&buf)) == nil, "deneb state serializes")
	data := buf.Bytes()
	zzverif.Reach("deneb-state")
	zzverif.Assert(uint64(len(data)) == raw.ByteLength(spec), "ByteLength equals the number of bytes written")
	st, err := AsBeaconStateView(BeaconStateType(spec).Deserialize(codec.NewDecodingReader(bytes.NewReader(data), uint64(len(data)))))
	zzverif.Assert(err == nil, "schema codec decodes the struct codec's bytes")
	if err != nil {
		return
	}
	h := tree.GetHashFn()
	zzverif.Assert(st.HashTreeRoot(h) == raw.HashTreeRoot(spec, h), "struct root == view root (deneb BeaconState)")
	var raw2 BeaconState
	zzverif.Assert(raw2.Deserialize(spec, codec.NewDecodingReader(bytes.NewReader(data), uint64(len(data)))) == nil, "struct codec decodes its own bytes")
	zzverif.Assert(raw2.HashTreeRoot(spec, h) == raw.HashTreeRoot(spec, h), "decode(encode(state)) has the root of state (every leaf round-trips)")
	var buf2 bytes.Buffer
	zzverif.Assert(st.Serialize(codec.NewEncodingWriter(&buf2)) == nil && bytes.Equal(buf2.Bytes(), data), "schema codec re-encodes to the same bytes")
	// fork-specific accessors
	wi, _ := st.NextWithdrawalIndex()
	wv, _ := st.NextWithdrawalValidatorIndex()
	zzverif.Assert(wi == raw.NextWithdrawalIndex && wv == raw.NextWithdrawalValidatorIndex, "withdrawal index accessors")
	is, _ := st.InactivityScores()
	pp, _ := st.PreviousEpochParticipation()
	cp, _ := st.CurrentEpochParticipation()
	for i := range raw.Validators {
		sc, e1 := is.GetScore(common.ValidatorIndex(i))
		zzverif.Assert(e1 == nil && sc == uint64(raw.InactivityScores[i]), "InactivityScores().GetScore(i)")
		pf, e2 := pp.GetFlags(common.ValidatorIndex(i))
		cf, e3 := cp.GetFlags(common.ValidatorIndex(i))
		zzverif.Assert(e2 == nil && e3 == nil && pf == raw.PreviousEpochParticipation[i] && cf == raw.CurrentEpochParticipation[i], "participation flags of validator i")
	}
	csc, _ := st.CurrentSyncCommittee()
	nsc, _ := st.NextSyncCommittee()
	zzverif.Assert(csc.HashTreeRoot(h) == raw.CurrentSyncCommittee.HashTreeRoot(spec, h) && nsc.HashTreeRoot(h) == raw.NextSyncCommittee.HashTreeRoot(spec, h), "sync committee accessors return the encoded committees (not swapped)")
	hv, _ := st.LatestExecutionPayloadHeader()
	zzverif.Assert(hv.HashTreeRoot(h) == raw.LatestExecutionPayloadHeader.HashTreeRoot(h), "latest execution payload header accessor")
	_, hsErr := st.HistoricalSummaries()
	zzverif.Assert(hsErr == nil, "historical summaries accessor")
}
