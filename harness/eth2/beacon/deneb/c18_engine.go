package deneb

import (
	"fmt"
	"context"
	"errors"
	"time"

	"github.com/protolambda/zrnt/eth2/beacon/common"
	"github.com/protolambda/zrnt/eth2/zzverif"
	. "github.com/protolambda/ztyp/view"
)

// vCtx: a context whose k-th Err() poll (and every later one) reports cancellation.
type vCtx struct {
	polls  *int
	failAt int
}

func (c vCtx) Deadline() (time.Time, bool)       { return time.Time{}, false }
func (c vCtx) Done() <-chan struct{}             { return nil }
func (c vCtx) Value(key interface{}) interface{} { return nil }
func (c vCtx) Err() error {
	*c.polls++
	if c.failAt >= 0 && *c.polls > c.failAt {
		return errors.New("context canceled")
	}
	return nil
}

type vEngCall struct {
	kind   int
	parent common.Root
	hashes []common.Hash32
	block  common.Hash32
}

// vEngine answers each query with a verdict chosen by the engine (0 valid, 1 invalid, 2 error) and records what it was shown.
type vEngine struct {
	calls    []vEngCall
	verdicts [3]int
}

func (e *vEngine) answer(kind int) (bool, error) {
	switch e.verdicts[kind] {
	case 0:
		return true, nil
	case 1:
		return false, nil
	}
	return false, vEngErr()
}
func (e *vEngine) DenebIsValidBlockHash(ctx context.Context, p *ExecutionPayload, parent common.Root) (bool, error) {
	e.calls = append(e.calls, vEngCall{kind: 0, parent: parent, block: p.BlockHash})
	return e.answer(0)
}
func (e *vEngine) DenebIsValidVersionedHashes(ctx context.Context, p *ExecutionPayload, hs []common.Hash32) (bool, error) {
	e.calls = append(e.calls, vEngCall{kind: 1, hashes: append([]common.Hash32(nil), hs...), block: p.BlockHash})
	return e.answer(1)
}
func (e *vEngine) DenebNotifyNewPayload(ctx context.Context, p *ExecutionPayload, parent common.Root) (bool, error) {
	e.calls = append(e.calls, vEngCall{kind: 2, parent: parent, block: p.BlockHash})
	return e.answer(2)
}

// VerifHarness_C18_deneb_payload: ProcessExecutionPayload (Deneb) under every cancellation point and every engine
// verdict: success exactly when the context is live, the spec's payload checks pass and the engine approves all three
// queries; on success the header becomes the payload's; otherwise an error and the header is untouched; the engine is
// shown the payload, versioned hashes 0x01||sha256(commitment)[1:] in order, and latest_block_header.parent_root.
func VerifHarness_C18_deneb_payload() {
	spec := common.VTinySpec()
	st := NewBeaconStateView(spec)
	slot := common.Slot(zzverif.Choose(4))
	_ = st.SetSlot(slot)
	gt := common.Timestamp(zzverif.NondetU64())
	zzverif.Assume(gt < 1<<40)
	_ = st.SetGenesisTime(gt)
	mix := vR()
	mixes, _ := st.RandaoMixes()
	_ = mixes.SetRandomMix(spec.SlotToEpoch(slot)%spec.EPOCHS_PER_HISTORICAL_VECTOR, mix)
	prevHdr := vHeader()
	_ = st.SetLatestExecutionPayloadHeader(prevHdr)
	bh := &common.BeaconBlockHeader{Slot: slot, ParentRoot: vR()}
	_ = st.SetLatestBlockHeader(bh)
	body := &BeaconBlockBody{}
	p := &body.ExecutionPayload
	p.ParentHash, p.PrevRandao, p.BlockHash, p.StateRoot = vR(), vR(), vR(), vR()
	p.Timestamp = common.Timestamp(zzverif.NondetU64())
	p.BlockNumber = Uint64View(zzverif.NondetU64())
	p.BlobGasUsed, p.ExcessBlobGas = Uint64View(zzverif.NondetU64()), Uint64View(zzverif.NondetU64())
	nc := zzverif.Choose(int(spec.MAX_BLOBS_PER_BLOCK) + 2)
	for i := 0; i < nc; i++ {
		var c common.KZGCommitment
		c[0] = zzverif.NondetU8()
		c[47] = byte(i)
		body.BlobKZGCommitments = append(body.BlobKZGCommitments, c)
	}
	eng := &vEngine{verdicts: [3]int{zzverif.Choose(3), zzverif.Choose(3), zzverif.Choose(3)}}
	polls := 0
	ctx := vCtx{polls: &polls, failAt: zzverif.Choose(3) - 1}
	vEngErrKind = 0
	if (eng.verdicts[0] == 2 || eng.verdicts[1] == 2 || eng.verdicts[2] == 2) && ctx.failAt < 0 {
		vEngErrKind = zzverif.Choose(3) // kind of the engine's error, with a live caller context
	}
	zzverif.Reach("deneb-payload")
	err := ProcessExecutionPayload(ctx, spec, st, body, eng)
	// reference
	checks := p.ParentHash == prevHdr.BlockHash && p.PrevRandao == mix && uint64(p.Timestamp) == uint64(slot)*uint64(spec.SECONDS_PER_SLOT)+uint64(gt) &&
		uint64(nc) <= uint64(spec.MAX_BLOBS_PER_BLOCK)
	cancelledAtEntry := ctx.failAt == 0
	approved := eng.verdicts[0] == 0 && eng.verdicts[1] == 0 && eng.verdicts[2] == 0
	ok := !cancelledAtEntry && checks && approved
	if ctx.failAt > 0 && polls > ctx.failAt {
		ok = false // a later poll that reported cancellation must surface as well
	}
	zzverif.Assert((err == nil) == ok, "ProcessExecutionPayload succeeds exactly when not cancelled, the payload checks pass and the engine approves every query")
	hv, _ := st.LatestExecutionPayloadHeader()
	got, _ := hv.Raw()
	if err != nil {
		zzverif.Assert(got.BlockHash == prevHdr.BlockHash && got.BlockNumber == prevHdr.BlockNumber && got.BlobGasUsed == prevHdr.BlobGasUsed, "on error the latest execution payload header is untouched")
	} else {
		zzverif.Assert(got.BlockHash == p.BlockHash && got.ParentHash == p.ParentHash && got.BlockNumber == p.BlockNumber && got.Timestamp == p.Timestamp &&
			got.BlobGasUsed == p.BlobGasUsed && got.ExcessBlobGas == p.ExcessBlobGas && got.PrevRandao == p.PrevRandao, "on success the header is the payload's header")
	}
	if cancelledAtEntry || !checks {
		zzverif.Assert(len(eng.calls) == 0, "the engine is not consulted for a payload the consensus checks reject (or after cancellation)")
		return
	}
	// what the engine was shown
	want := 1
	if eng.verdicts[0] == 0 {
		want = 2
		if eng.verdicts[1] == 0 {
			want = 3
		}
	}
	zzverif.Assert(len(eng.calls) == want, "the engine queries run in order and stop at the first non-approval")
	for k, c := range eng.calls {
		zzverif.Assert(c.kind == k && c.block == p.BlockHash, "each engine query is about this payload")
		if c.kind != 1 {
			zzverif.Assert(c.parent == bh.ParentRoot, "the engine is shown latest_block_header.parent_root as parent beacon block root")
		} else {
			zzverif.Assert(len(c.hashes) == nc, "one versioned hash per blob commitment")
			for i := 0; i < nc && i < len(c.hashes); i++ {
				h := zzverif.Hash(body.BlobKZGCommitments[i][:])
				h[0] = 1
				zzverif.Assert(c.hashes[i] == common.Hash32(h), "versioned hash i is 0x01 || sha256(commitment i)[1:]")
			}
		}
	}
}


// vEngErrKind: the kind of error a failing engine query reports (chosen per path by the harness): a plain error, or an
// error wrapping context.DeadlineExceeded / context.Canceled as an engine client whose own request context expired
// would return it - while the caller's context is still live. Either way the payload was not approved.
var vEngErrKind int

func vEngErr() error {
	switch vEngErrKind {
	case 1:
		return fmt.Errorf("engine request failed: %w", context.DeadlineExceeded)
	case 2:
		return context.Canceled
	}
	return errors.New("engine error")
}
