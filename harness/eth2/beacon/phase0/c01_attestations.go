package phase0

import (
	"github.com/protolambda/zrnt/eth2/beacon/common"
	"github.com/protolambda/zrnt/eth2/zzverif"
	"github.com/protolambda/ztyp/tree"
)

// vAtCommittees: hand-built committee tables (epoch -> slot in epoch -> committee index -> members) for three
// validators. The two epochs use different tables and different committee counts so that a lookup in the wrong epoch,
// slot or committee is visible; members are deliberately not sorted.
func vAtCommittees(layout int) (prev, cur [][][]common.ValidatorIndex) {
	one := [][][]common.ValidatorIndex{
		{{2, 0}},
		{{1}},
	}
	two := [][][]common.ValidatorIndex{
		{{1}, {2, 0, 1}},
		{{0, 2}, {}},
	}
	if layout == 0 {
		return one, two
	}
	return two, one
}

// vAtAggValid: spec is_valid_indexed_attestation's signature part for the (sorted, in-range) indices: every key and the
// signature deserialise and bls.FastAggregateVerify(pubkeys, signing_root, signature) holds, with
// domain = get_domain(state, DOMAIN_BEACON_ATTESTER, data.target.epoch).
func vAtAggValid(raw *BeaconState, indices []int, data *AttestationData, sig common.BLSSignature) bool {
	var pubs [][48]byte
	ok := zzverif.BLSSigValid(sig)
	for _, i := range indices {
		p := [48]byte(raw.Validators[i].Pubkey)
		ok = ok && zzverif.BLSPubkeyValid(p)
		pubs = append(pubs, p)
	}
	dom := common.ComputeDomain(common.DOMAIN_BEACON_ATTESTER, vVersionAt(raw, data.Target.Epoch), raw.GenesisValidatorsRoot)
	root := common.ComputeSigningRoot(data.HashTreeRoot(tree.GetHashFn()), dom)
	return ok && zzverif.BLSFastAggregateVerify(pubs, root[:], sig)
}

// VerifHarness_C01_attestation: ProcessAttestation accepts exactly the attestations the spec's phase0
// process_attestation accepts and then appends exactly one PendingAttestation to the list of the target epoch; the
// whole state (hash-tree-root against the struct form of the expected state) is otherwise unchanged, and unchanged at
// all on refusal.
//
// Bounds/assumptions: tiny preset (SLOTS_PER_EPOCH=2, MIN_ATTESTATION_INCLUSION_DELAY=1, MAX_COMMITTEES_PER_SLOT=2,
// MAX_VALIDATORS_PER_COMMITTEE=4); 3 active validators; state slot 6 or 7 (epoch 3); symbolic fork record with
// fork epoch <= 3; the committees, committee count per slot and the proposers of the epochs context are hand-built
// tables (their agreement with the spec's shuffling is the subject of C07/C08) and the reference reads the same tables
// as get_beacon_committee / get_committee_count_per_slot / get_beacon_proposer_index; aggregation bits are one
// well-formed bitlist byte of chosen length 0..4 with symbolic participation bits; attestation data fields are
// symbolic 64-bit values, roots/signature/keys have two symbolic bytes; each pending list holds 0 or 1 earlier entry;
// BLS and SHA-256 are uninterpreted.
// Shards: Choose #1 = slot offset (2), #2 = bitlist length (5), #3 = table layout (2), #4 = earlier entries (2).
func VerifHarness_C01_attestation() {
	spec := common.VTinySpec()
	n := 3
	cur := uint64(3)
	raw := vNewRaw(spec, n, cur) // Choose: slot offset inside the epoch
	bitLen := zzverif.Choose(int(spec.MAX_VALIDATORS_PER_COMMITTEE) + 1)
	layout := zzverif.Choose(2)
	pre := zzverif.Choose(2)
	vSymFork(spec, raw, cur)
	raw.CurrentJustifiedCheckpoint = common.Checkpoint{Epoch: common.Epoch(zzverif.NondetU8()), Root: vRoot1()}
	raw.PreviousJustifiedCheckpoint = common.Checkpoint{Epoch: common.Epoch(zzverif.NondetU8()), Root: vRoot1()}
	for i := 0; i < pre; i++ {
		raw.PreviousEpochAttestations = append(raw.PreviousEpochAttestations, &PendingAttestation{AggregationBits: AttestationBits{zzverif.NondetU8()&0x03 | 0x04}, Data: vAttData(), InclusionDelay: common.Slot(zzverif.NondetU8()), ProposerIndex: common.ValidatorIndex(zzverif.NondetU8())})
		raw.CurrentEpochAttestations = append(raw.CurrentEpochAttestations, &PendingAttestation{AggregationBits: AttestationBits{zzverif.NondetU8()&0x01 | 0x02}, Data: vAttData(), InclusionDelay: common.Slot(zzverif.NondetU8()), ProposerIndex: common.ValidatorIndex(zzverif.NondetU8())})
	}
	st, _ := vStateToView(spec, raw)
	epc := vLightEpc(spec, raw, st)
	commPrev, commCur := vAtCommittees(layout)
	epc.PreviousEpoch = &common.ShufflingEpoch{Epoch: common.Epoch(cur - 1), ActiveIndices: epc.CurrentEpoch.ActiveIndices, Committees: commPrev}
	epc.CurrentEpoch.Committees = commCur
	epc.NextEpoch = &common.ShufflingEpoch{Epoch: common.Epoch(cur + 1), ActiveIndices: epc.CurrentEpoch.ActiveIndices, Committees: [][][]common.ValidatorIndex{{{0}}, {{1}}}}
	props := []common.ValidatorIndex{common.ValidatorIndex(zzverif.NondetU8()), common.ValidatorIndex(zzverif.NondetU8())}
	epc.Proposers = &common.ProposersEpoch{Spec: spec, Epoch: common.Epoch(cur), Proposers: []common.ValidatorIndex{props[0], props[1]}}

	bits := zzverif.NondetU8()&(uint8(1)<<uint(bitLen)-1) | uint8(1)<<uint(bitLen)
	att := &Attestation{AggregationBits: AttestationBits{bits}, Data: vAttData(), Signature: vSig1()}
	h := tree.GetHashFn()
	preRoot := raw.HashTreeRoot(spec, h)

	zzverif.Reach("attestation")
	err := ProcessAttestation(spec, epc, st, att)

	// ---- spec: process_attestation ----
	d := &att.Data
	slot := raw.Slot
	spe := spec.SLOTS_PER_EPOCH
	curE := common.Epoch(cur)
	prevE := common.Epoch(cur - 1)
	ok := (d.Target.Epoch == prevE || d.Target.Epoch == curE) &&
		d.Target.Epoch == common.Epoch(d.Slot/spe) &&
		d.Slot+spec.MIN_ATTESTATION_INCLUSION_DELAY <= slot && slot <= d.Slot+spe
	// (Concrete is applied to derived expressions only: concretising an input variable itself would rewrite it in every
	// term built afterwards and make the reference's hashes syntactically different from the implementation's)
	var table [][][]common.ValidatorIndex
	if ok {
		if d.Target.Epoch == curE {
			table = commCur
		} else {
			table = commPrev
		}
		ok = uint64(d.Index) < uint64(len(table[0])) // get_committee_count_per_slot(state, data.target.epoch)
	}
	var committee []common.ValidatorIndex
	if ok {
		committee = table[int(zzverif.Concrete(uint64(d.Slot%spe)))][int(zzverif.Concrete(uint64(d.Index)&1))]
		ok = len(committee) == bitLen // len(attestation.aggregation_bits) == len(committee)
	}
	if ok {
		if d.Target.Epoch == curE {
			ok = d.Source == raw.CurrentJustifiedCheckpoint
		} else {
			ok = d.Source == raw.PreviousJustifiedCheckpoint
		}
	}
	if ok {
		// get_indexed_attestation: sorted(get_attesting_indices(...)); is_valid_indexed_attestation
		var indices []int
		for i := 0; i < n; i++ { // increasing validator index == sorted set
			for k, m := range committee {
				if int(m) == i && (bits>>uint(k))&1 == 1 {
					indices = append(indices, i)
				}
			}
		}
		ok = len(indices) > 0
		if ok {
			ok = vAtAggValid(raw, indices, d, att.Signature)
		}
	}
	zzverif.Assert((err == nil) == ok, "ProcessAttestation accepts exactly the attestations process_attestation accepts")
	if ok {
		zzverif.Reach("attestation accepted")
		pa := &PendingAttestation{AggregationBits: AttestationBits{bits}, Data: *d, InclusionDelay: slot - d.Slot, ProposerIndex: props[int(slot%spe)]}
		if d.Target.Epoch == curE {
			raw.CurrentEpochAttestations = append(raw.CurrentEpochAttestations, pa)
		} else {
			raw.PreviousEpochAttestations = append(raw.PreviousEpochAttestations, pa)
		}
		zzverif.Assert(st.HashTreeRoot(h) == raw.HashTreeRoot(spec, h), "an accepted attestation appends exactly one pending attestation (bits, data, inclusion delay, proposer) to the list of its target epoch and changes nothing else")
	} else {
		zzverif.Assert(st.HashTreeRoot(h) == preRoot, "a refused attestation leaves the state untouched")
	}
}

// VerifHarness_C01_attester_slashing: ProcessAttesterSlashing accepts exactly what the spec's process_attester_slashing
// accepts (slashable data, both indexed attestations valid, at least one slashable validator in the intersection) and
// then applies slash_validator to exactly the slashable members of the sorted intersection, in increasing index order
// (exit queue with churn, slashed flag, withdrawable epoch, slashings vector, penalty, proposer/whistleblower reward);
// every other leaf of the state is unchanged (state root against the struct form of the pre-state with only exit epoch,
// withdrawable epoch, slashed flag, balances and the slashings entry replaced), and the state root is unchanged on refusal.
//
// Bounds/assumptions: tiny preset; Param "validators" (default 2) validators at slot 9 (epoch 4); with fewer than 3
// validators MIN_PER_EPOCH_CHURN_LIMIT is lowered to 1 so that two slashings in one operation already overflow the exit
// epoch and the order of the slash_validator calls is visible (with 3 validators the preset's limit 2 does that);
// per validator symbolic slashed flag, effective balance (32 or 17 ETH), balance < 2^40, activation epoch < 8, exit
// epoch far-future or < 12 and withdrawable epoch far-future resp. exit + MIN_VALIDATOR_WITHDRAWABILITY_DELAY + (0..7);
// whether a validator is active is chosen (and its epochs constrained accordingly) so that the context's active set is
// concrete; slashings entries < 2^40; symbolic fork record (fork epoch <= 4); index lists of chosen length
// 0..Param "maxidx" (default 2) with symbolic members 0..3 (values >= validators are outside the registry; lists over
// MAX_VALIDATORS_PER_COMMITTEE are the subject of C03_indexed_set); attestation data 64-bit symbolic; the proposer of
// the slot is the last validator, the other slot of the epoch has a different proposer (the epochs context is assembled
// by hand: current epoch, active set, pubkey cache, proposers); BLS and SHA-256 uninterpreted.
// Shards: Choose #1 = len(indices 1) (maxidx+1), #2 = len(indices 2) (maxidx+1), then one Choose(2) per validator (active).
func VerifHarness_C01_attester_slashing() {
	spec := common.VTinySpec()
	n := zzverif.Param("validators", 2)
	if n < 3 {
		spec.MIN_PER_EPOCH_CHURN_LIMIT = 1 // two exits in one epoch already exceed the churn: the order of the slashings shows
	}
	maxIdx := zzverif.Param("maxidx", 2)
	cur := uint64(4)
	c := common.Epoch(cur)
	n1 := zzverif.Choose(maxIdx + 1)
	n2 := zzverif.Choose(maxIdx + 1)
	prop := n - 1
	raw := vRawState(spec, 0)
	raw.Slot = common.Slot(cur*uint64(spec.SLOTS_PER_EPOCH) + 1)
	raw.LatestBlockHeader.Slot = raw.Slot.Previous()
	vSymFork(spec, raw, cur)
	var vs []vVal
	var active []common.ValidatorIndex
	var effs []common.Gwei
	for i := 0; i < n; i++ {
		v := &Validator{}
		v.Pubkey[0] = byte(i + 1)
		v.Pubkey[1] = zzverif.NondetU8()
		v.WithdrawalCredentials = vRoot1()
		v.EffectiveBalance = common.Gwei(zzverif.Ite(zzverif.NondetBool(), uint64(spec.MAX_EFFECTIVE_BALANCE), 17000000000))
		v.Slashed = zzverif.NondetBool()
		a, x, w := zzverif.NondetU8(), zzverif.NondetU8(), zzverif.NondetU8()
		zzverif.Assume(a < 8 && x < 12 && w < 8)
		far := zzverif.NondetBool()
		v.ActivationEpoch = common.Epoch(a)
		v.ExitEpoch = common.Epoch(zzverif.Ite(far, uint64(vFarFuture), uint64(x)))
		v.WithdrawableEpoch = common.Epoch(zzverif.Ite(far, uint64(vFarFuture), uint64(x)+uint64(spec.MIN_VALIDATOR_WITHDRAWABILITY_DELAY)+uint64(w)))
		isActive := zzverif.Choose(2) == 1
		zzverif.Assume((uint64(a) <= cur && (far || cur < uint64(x))) == isActive)
		if isActive {
			active = append(active, common.ValidatorIndex(i))
		}
		b := zzverif.NondetU64()
		zzverif.Assume(b < 1<<40)
		raw.Validators = append(raw.Validators, v)
		raw.Balances = append(raw.Balances, common.Gwei(b))
		effs = append(effs, v.EffectiveBalance)
		vs = append(vs, vVal{0, v.ActivationEpoch, v.ExitEpoch, v.WithdrawableEpoch, v.EffectiveBalance})
	}
	raw.Eth1Data.DepositCount = common.DepositIndex(n)
	raw.Eth1DepositIndex = common.DepositIndex(n)
	for i := range raw.Slashings {
		s := zzverif.NondetU64()
		zzverif.Assume(s < 1<<40)
		raw.Slashings[i] = common.Gwei(s)
	}
	st, _ := vStateToView(spec, raw)
	vals0, _ := st.Validators()
	pc, perr := common.NewPubkeyCache(vals0)
	zzverif.Assert(perr == nil, "NewPubkeyCache")
	other := (prop + 1) % n
	epc := &common.EpochsContext{Spec: spec, ValidatorPubkeyCache: pc, EffectiveBalances: effs,
		CurrentEpoch: &common.ShufflingEpoch{Epoch: c, ActiveIndices: active},
		Proposers:    &common.ProposersEpoch{Spec: spec, Epoch: c, Proposers: []common.ValidatorIndex{common.ValidatorIndex(other), common.ValidatorIndex(prop)}}}
	mk := func(k int) IndexedAttestation {
		ia := IndexedAttestation{Data: vAttData(), Signature: vSig1()}
		for i := 0; i < k; i++ {
			ia.AttestingIndices = append(ia.AttestingIndices, common.ValidatorIndex(zzverif.NondetU8()&3))
		}
		return ia
	}
	as := &AttesterSlashing{Attestation1: mk(n1), Attestation2: mk(n2)}
	h := tree.GetHashFn()
	preRoot := raw.HashTreeRoot(spec, h)

	zzverif.Reach("attester-slashing")
	err := ProcessAttesterSlashing(spec, epc, st, as)

	// ---- spec: process_attester_slashing ----
	a1, a2 := &as.Attestation1, &as.Attestation2
	d1, d2 := &a1.Data, &a2.Data
	// is_slashable_attestation_data
	same := d1.Slot == d2.Slot && d1.Index == d2.Index && d1.BeaconBlockRoot == d2.BeaconBlockRoot &&
		d1.Source.Epoch == d2.Source.Epoch && d1.Source.Root == d2.Source.Root && d1.Target.Epoch == d2.Target.Epoch && d1.Target.Root == d2.Target.Root
	valid := (!same && d1.Target.Epoch == d2.Target.Epoch) || (d1.Source.Epoch < d2.Source.Epoch && d2.Target.Epoch < d1.Target.Epoch)
	// is_valid_indexed_attestation, twice
	var sets [2][]int
	for k, a := range []*IndexedAttestation{a1, a2} {
		if !valid {
			break
		}
		li := a.AttestingIndices
		valid = len(li) > 0 && uint64(len(li)) <= uint64(spec.MAX_VALIDATORS_PER_COMMITTEE)
		for i := range li {
			valid = valid && int(li[i]) < n && (i == 0 || li[i-1] < li[i])
		}
		if valid {
			for i := range li {
				sets[k] = append(sets[k], int(zzverif.Concrete(uint64(li[i]))))
			}
			valid = vAtAggValid(raw, sets[k], &a.Data, a.Signature)
		}
	}
	// for index in sorted(set(indices_1).intersection(indices_2)): if is_slashable_validator: slash_validator
	slashedAny := false
	wantSlashed := make([]bool, n)
	wantBal := make([]uint64, n)
	for i := 0; i < n; i++ {
		wantSlashed[i] = raw.Validators[i].Slashed
		wantBal[i] = uint64(raw.Balances[i])
	}
	sidx := int(cur) % int(spec.EPOCHS_PER_SLASHINGS_VECTOR)
	wantSlashings := uint64(raw.Slashings[sidx])
	if valid {
		for i := 0; i < n; i++ {
			in1, in2 := false, false
			for _, x := range sets[0] {
				in1 = in1 || x == i
			}
			for _, x := range sets[1] {
				in2 = in2 || x == i
			}
			if !(in1 && in2) {
				continue
			}
			if !wantSlashed[i] && vs[i].act <= c && c < vs[i].wd { // is_slashable_validator
				// slash_validator(state, index)
				vRefInitiateExit(spec, vs, i, c)
				wantSlashed[i] = true
				if c+spec.EPOCHS_PER_SLASHINGS_VECTOR > vs[i].wd {
					vs[i].wd = c + spec.EPOCHS_PER_SLASHINGS_VECTOR
				}
				eff := uint64(vs[i].eff)
				wantSlashings += eff
				pen := eff / uint64(spec.MIN_SLASHING_PENALTY_QUOTIENT)
				if wantBal[i] < pen {
					wantBal[i] = 0
				} else {
					wantBal[i] -= pen
				}
				wb := eff / uint64(spec.WHISTLEBLOWER_REWARD_QUOTIENT)
				pr := wb / uint64(spec.PROPOSER_REWARD_QUOTIENT)
				wantBal[prop] += pr
				wantBal[prop] += wb - pr
				slashedAny = true
			}
		}
		valid = slashedAny
	}
	zzverif.Assert((err == nil) == valid, "ProcessAttesterSlashing accepts exactly the slashings the spec accepts")
	if !valid {
		zzverif.Assert(st.HashTreeRoot(h) == preRoot, "a refused attester slashing leaves the state untouched")
		return
	}
	zzverif.Reach("attester-slashing accepted")
	vCompareVals(st, vs, "attester slashing")
	vals, _ := st.Validators()
	bals, _ := st.Balances()
	for i := 0; i < n; i++ {
		v, _ := vals.Validator(common.ValidatorIndex(i))
		sl, _ := v.Slashed()
		zzverif.Assert(sl == wantSlashed[i], "exactly the slashable members of the intersection are marked slashed")
		b, _ := bals.GetBalance(common.ValidatorIndex(i))
		zzverif.Assert(uint64(b) == wantBal[i], "balances after the slash_validator calls: penalties, proposer and whistleblower rewards")
		// for the whole-state comparison below: take over the (just checked) leaves in the implementation's own form
		raw.Validators[i].Slashed = sl
		raw.Validators[i].ExitEpoch, _ = v.ExitEpoch()
		raw.Validators[i].WithdrawableEpoch, _ = v.WithdrawableEpoch()
		raw.Balances[i] = b
	}
	sls, _ := st.Slashings()
	gotS, _ := sls.GetSlashingsValue(c % spec.EPOCHS_PER_SLASHINGS_VECTOR)
	zzverif.Assert(uint64(gotS) == wantSlashings, "slashings[epoch % EPOCHS_PER_SLASHINGS_VECTOR] grows by the effective balance of every slashed validator")
	raw.Slashings[sidx] = gotS
	zzverif.Assert(st.HashTreeRoot(h) == raw.HashTreeRoot(spec, h), "an accepted attester slashing changes nothing but exit/withdrawable epochs, slashed flags, balances and the slashings entry")
}

// VerifHarness_C03_slashable_data: IsSlashableAttestationData(a, b) is the spec's is_slashable_attestation_data:
// double vote (a != b and equal target epochs) or a surrounds b (a.source.epoch < b.source.epoch and
// b.target.epoch < a.target.epoch) - for every pair of 64-bit source/target epochs, with b otherwise a copy of a in
// which one chosen byte of one chosen field (none, slot, index, beacon block root, source root, target root) may differ.
func VerifHarness_C03_slashable_data() {
	a := AttestationData{Slot: common.Slot(zzverif.NondetU64()), Index: common.CommitteeIndex(zzverif.NondetU64()), BeaconBlockRoot: common.Root(zzverif.NondetBytes32()),
		Source: common.Checkpoint{Epoch: common.Epoch(zzverif.NondetU64()), Root: common.Root(zzverif.NondetBytes32())},
		Target: common.Checkpoint{Epoch: common.Epoch(zzverif.NondetU64()), Root: common.Root(zzverif.NondetBytes32())}}
	b := a
	b.Source.Epoch = common.Epoch(zzverif.NondetU64())
	b.Target.Epoch = common.Epoch(zzverif.NondetU64())
	field := zzverif.Choose(6)
	pos := int(zzverif.Concrete(uint64(zzverif.NondetU8() & 31)))
	x := zzverif.NondetU8() // the differing byte (0 = no difference)
	switch field {
	case 1:
		b.Slot ^= common.Slot(uint64(x) << (8 * uint(pos&7)))
	case 2:
		b.Index ^= common.CommitteeIndex(uint64(x) << (8 * uint(pos&7)))
	case 3:
		b.BeaconBlockRoot[pos] ^= x
	case 4:
		b.Source.Root[pos] ^= x
	case 5:
		b.Target.Root[pos] ^= x
	}
	zzverif.Reach("slashable-data")
	got := IsSlashableAttestationData(&a, &b)
	same := (field == 0 || x == 0) && a.Source.Epoch == b.Source.Epoch && a.Target.Epoch == b.Target.Epoch
	double := !same && a.Target.Epoch == b.Target.Epoch
	surround := a.Source.Epoch < b.Source.Epoch && b.Target.Epoch < a.Target.Epoch
	zzverif.Assert(got == (double || surround), "IsSlashableAttestationData is double vote or surround vote as is_slashable_attestation_data")
	zzverif.Assert(IsDoubleVote(&a, &b) == double, "IsDoubleVote: different data with the same target epoch")
	zzverif.Assert(IsSurroundVote(&a, &b) == surround, "IsSurroundVote: a.source < b.source and b.target < a.target")
}
