package phase0

import (
	"github.com/protolambda/zrnt/eth2/beacon/common"
	"github.com/protolambda/zrnt/eth2/zzverif"
	"github.com/protolambda/ztyp/tree"
)

// ---- per-field observation of a phase0 state ----

// vPlViewFieldRoots: the hash-tree-roots of the top-level fields of the view, in field order.
func vPlViewFieldRoots(st *BeaconStateView) []common.Root {
	h := tree.GetHashFn()
	var out []common.Root
	for i := range st.Fields {
		v, err := st.Get(uint64(i))
		zzverif.Assert(err == nil, "state field view")
		out = append(out, v.HashTreeRoot(h))
	}
	return out
}

// vPlRawFieldRoots: the hash-tree-roots of the top-level fields of the struct form, in field order.
func vPlRawFieldRoots(spec *common.Spec, raw *BeaconState) []common.Root {
	h := tree.GetHashFn()
	return []common.Root{
		raw.GenesisTime.HashTreeRoot(h), raw.GenesisValidatorsRoot, raw.Slot.HashTreeRoot(h), raw.Fork.HashTreeRoot(h),
		raw.LatestBlockHeader.HashTreeRoot(h), raw.BlockRoots.HashTreeRoot(spec, h), raw.StateRoots.HashTreeRoot(spec, h),
		raw.HistoricalRoots.HashTreeRoot(spec, h),
		raw.Eth1Data.HashTreeRoot(h), raw.Eth1DataVotes.HashTreeRoot(spec, h), raw.Eth1DepositIndex.HashTreeRoot(h),
		raw.Validators.HashTreeRoot(spec, h), raw.Balances.HashTreeRoot(spec, h), raw.RandaoMixes.HashTreeRoot(spec, h),
		raw.Slashings.HashTreeRoot(spec, h),
		raw.PreviousEpochAttestations.HashTreeRoot(spec, h), raw.CurrentEpochAttestations.HashTreeRoot(spec, h),
		raw.JustificationBits.HashTreeRoot(h), raw.PreviousJustifiedCheckpoint.HashTreeRoot(h),
		raw.CurrentJustifiedCheckpoint.HashTreeRoot(h), raw.FinalizedCheckpoint.HashTreeRoot(h),
	}
}

func vPlFieldName(i int) string {
	switch i {
	case _stateGenesisTime:
		return "genesis_time"
	case _stateGenesisValidatorsRoot:
		return "genesis_validators_root"
	case _stateSlot:
		return "slot"
	case _stateFork:
		return "fork"
	case _stateLatestBlockHeader:
		return "latest_block_header"
	case _stateBlockRoots:
		return "block_roots"
	case _stateStateRoots:
		return "state_roots"
	case _stateHistoricalRoots:
		return "historical_roots"
	case _stateEth1Data:
		return "eth1_data"
	case _stateEth1DataVotes:
		return "eth1_data_votes"
	case _stateEth1DepositIndex:
		return "eth1_deposit_index"
	case _stateValidators:
		return "validators"
	case _stateBalances:
		return "balances"
	case _stateRandaoMixes:
		return "randao_mixes"
	case _stateSlashings:
		return "slashings"
	case _statePreviousEpochAttestations:
		return "previous_epoch_attestations"
	case _stateCurrentEpochAttestations:
		return "current_epoch_attestations"
	case _stateJustificationBits:
		return "justification_bits"
	case _statePreviousJustifiedCheckpoint:
		return "previous_justified_checkpoint"
	case _stateCurrentJustifiedCheckpoint:
		return "current_justified_checkpoint"
	case _stateFinalizedCheckpoint:
		return "finalized_checkpoint"
	}
	return "?"
}

// vPlExpectFields: every top-level field of the view has the root of the same field of the struct form. The registry is
// compared leaf by leaf (vPlExpectRegistry: count and all eight fields of every validator, which determine the root)
// instead of by its root: the engine evaluates SHA-256 natively on concrete inputs and as an uninterpreted function on
// symbolic ones, so a leaf that is a constant on the implementation's path but a (path-determined) if-then-else term in
// the transcription would make the two registry roots incomparable although all leaves are provably equal.
func vPlExpectFields(spec *common.Spec, st *BeaconStateView, raw *BeaconState, what string) {
	vPlExpectRegistry(st, raw, what)
	got := vPlViewFieldRoots(st)
	want := vPlRawFieldRoots(spec, raw)
	zzverif.Assert(len(got) == len(want), "the phase0 state has 21 fields")
	for i := range want {
		if i != _stateValidators {
			zzverif.Assert(got[i] == want[i], what+": "+vPlFieldName(i)+" as the spec")
		}
	}
}

// vPlExpectRegistry: the registry and the balances of the view, leaf by leaf, against the struct form.
func vPlExpectRegistry(st *BeaconStateView, raw *BeaconState, what string) {
	vals, _ := st.Validators()
	bals, _ := st.Balances()
	cnt, _ := vals.ValidatorCount()
	zzverif.Assert(cnt == uint64(len(raw.Validators)), what+": number of validators as the spec")
	for i, w := range raw.Validators {
		v, _ := vals.Validator(common.ValidatorIndex(i))
		el, _ := v.ActivationEligibilityEpoch()
		ac, _ := v.ActivationEpoch()
		ex, _ := v.ExitEpoch()
		wd, _ := v.WithdrawableEpoch()
		sl, _ := v.Slashed()
		eb, _ := v.EffectiveBalance()
		pk, _ := v.Pubkey()
		wc, _ := v.WithdrawalCredentials()
		b, _ := bals.GetBalance(common.ValidatorIndex(i))
		zzverif.Assert(pk == w.Pubkey && wc == w.WithdrawalCredentials, what+": pubkey and withdrawal_credentials as the spec")
		zzverif.Assert(el == w.ActivationEligibilityEpoch, what+": activation_eligibility_epoch as the spec")
		zzverif.Assert(ac == w.ActivationEpoch, what+": activation_epoch as the spec")
		zzverif.Assert(ex == w.ExitEpoch, what+": exit_epoch as the spec")
		zzverif.Assert(wd == w.WithdrawableEpoch, what+": withdrawable_epoch as the spec")
		zzverif.Assert(sl == w.Slashed, what+": slashed as the spec")
		zzverif.Assert(eb == w.EffectiveBalance, what+": effective_balance as the spec")
		zzverif.Assert(b == raw.Balances[i], what+": balance as the spec")
	}
}

// ---- spec helpers on the struct form (concrete lifecycle epochs, symbolic balances) ----

func vPlActive(v *Validator, e common.Epoch) bool { return v.ActivationEpoch <= e && e < v.ExitEpoch }

// spec: is_slashable_validator
func vPlSlashable(v *Validator, e common.Epoch) bool {
	return !v.Slashed && v.ActivationEpoch <= e && e < v.WithdrawableEpoch
}

// spec: initiate_validator_exit (get_validator_churn_limit over the validators active in the current epoch)
func vPlInitiateExit(spec *common.Spec, raw *BeaconState, i int, cur common.Epoch) {
	v := raw.Validators[i]
	if v.ExitEpoch != vFarFuture {
		return
	}
	q := cur + 1 + spec.MAX_SEED_LOOKAHEAD
	for _, w := range raw.Validators {
		if w.ExitEpoch != vFarFuture && w.ExitEpoch > q {
			q = w.ExitEpoch
		}
	}
	churn, active := uint64(0), uint64(0)
	for _, w := range raw.Validators {
		if w.ExitEpoch == q {
			churn++
		}
		if vPlActive(w, cur) {
			active++
		}
	}
	limit := active / uint64(spec.CHURN_LIMIT_QUOTIENT)
	if limit < uint64(spec.MIN_PER_EPOCH_CHURN_LIMIT) {
		limit = uint64(spec.MIN_PER_EPOCH_CHURN_LIMIT)
	}
	if churn >= limit {
		q++
	}
	v.ExitEpoch = q
	v.WithdrawableEpoch = q + spec.MIN_VALIDATOR_WITHDRAWABILITY_DELAY
}

// spec: slash_validator(state, i) without a whistleblower (phase0 quotients), proposer `prop`
func vPlSlash(spec *common.Spec, raw *BeaconState, i int, cur common.Epoch, prop int) {
	vPlInitiateExit(spec, raw, i, cur)
	v := raw.Validators[i]
	v.Slashed = true
	if cur+spec.EPOCHS_PER_SLASHINGS_VECTOR > v.WithdrawableEpoch {
		v.WithdrawableEpoch = cur + spec.EPOCHS_PER_SLASHINGS_VECTOR
	}
	eff := uint64(v.EffectiveBalance)
	raw.Slashings[uint64(cur)%uint64(spec.EPOCHS_PER_SLASHINGS_VECTOR)] += common.Gwei(eff)
	pen := eff / uint64(spec.MIN_SLASHING_PENALTY_QUOTIENT)
	b := uint64(raw.Balances[i])
	raw.Balances[i] = common.Gwei(zzverif.Ite(b < pen, 0, b-pen)) // decrease_balance saturates at 0
	wb := eff / uint64(spec.WHISTLEBLOWER_REWARD_QUOTIENT)
	pr := wb / uint64(spec.PROPOSER_REWARD_QUOTIENT)
	raw.Balances[prop] += common.Gwei(pr)
	raw.Balances[prop] += common.Gwei(wb - pr)
}

// vPlRaw: a well-formed phase0 state of the tiny preset at `slot` with n validators active since genesis (32 ETH
// effective balance, symbolic balances < 2^40, symbolic pubkey byte), fork record {0,0,0,1} -> {1,0,0,1} at epoch 2,
// eth1_deposit_index n, symbolic eth1 deposit count < 16, slashings entries < 2^40, symbolic roots / mixes / checkpoints.
func vPlRaw(spec *common.Spec, n int, slot uint64) *BeaconState {
	raw := vRawState(spec, 0)
	raw.Slot = common.Slot(slot)
	raw.LatestBlockHeader.Slot = common.Slot(slot - 1)
	raw.Fork = common.Fork{PreviousVersion: common.Version{0, 0, 0, 1}, CurrentVersion: common.Version{1, 0, 0, 1}, Epoch: 2}
	for i := 0; i < n; i++ {
		v := &Validator{}
		v.Pubkey[0] = byte(i + 1)
		v.Pubkey[1] = zzverif.NondetU8()
		v.WithdrawalCredentials = vRoot1()
		v.EffectiveBalance = spec.MAX_EFFECTIVE_BALANCE
		v.ExitEpoch = vFarFuture
		v.WithdrawableEpoch = vFarFuture
		raw.Validators = append(raw.Validators, v)
		b := zzverif.NondetU64()
		zzverif.Assume(b < 1<<40)
		raw.Balances = append(raw.Balances, common.Gwei(b))
	}
	dc := zzverif.NondetU8()
	zzverif.Assume(dc < 16)
	raw.Eth1Data.DepositCount = common.DepositIndex(dc)
	raw.Eth1DepositIndex = common.DepositIndex(n)
	for i := range raw.Slashings {
		s := zzverif.NondetU64()
		zzverif.Assume(s < 1<<40)
		raw.Slashings[i] = common.Gwei(s)
	}
	return raw
}

func vPlHash2(a, b common.Root) common.Root {
	var in [64]byte
	copy(in[:32], a[:])
	copy(in[32:], b[:])
	return zzverif.Hash(in[:])
}

// vPlMerkleRoot: the root a Merkle branch of the given depth leads to from `leaf` at `index` (spec
// is_valid_merkle_branch's fold).
func vPlMerkleRoot(leaf common.Root, branch []common.Root, depth uint64, index uint64) common.Root {
	value := leaf
	for i := uint64(0); i < depth; i++ {
		if (index>>i)&1 == 1 {
			value = vPlHash2(branch[i], value)
		} else {
			value = vPlHash2(value, branch[i])
		}
	}
	return value
}

// vPlProposerSlashing: two different signed headers of slot `hslot` by validator x (signatures symbolic).
func vPlProposerSlashing(x int, hslot uint64) ProposerSlashing {
	ps := ProposerSlashing{}
	ps.SignedHeader1 = common.SignedBeaconBlockHeader{Message: common.BeaconBlockHeader{Slot: common.Slot(hslot), ProposerIndex: common.ValidatorIndex(x), ParentRoot: vRoot1(), BodyRoot: vRoot1()}, Signature: vSig1()}
	ps.SignedHeader2 = ps.SignedHeader1
	ps.SignedHeader2.Signature = vSig1()
	ps.SignedHeader2.Message.StateRoot[5] = 1 // a different header of the same slot and proposer
	return ps
}

// spec: process_proposer_slashing's conditions
func vPlProposerSlashingValid(spec *common.Spec, raw *BeaconState, ps *ProposerSlashing, cur common.Epoch) bool {
	h1, h2 := &ps.SignedHeader1.Message, &ps.SignedHeader2.Message
	if !(h1.Slot == h2.Slot && h1.ProposerIndex == h2.ProposerIndex && *h1 != *h2 && int(h1.ProposerIndex) < len(raw.Validators)) {
		return false
	}
	x := int(h1.ProposerIndex)
	if !vPlSlashable(raw.Validators[x], cur) {
		return false
	}
	hf := tree.GetHashFn()
	dom := common.ComputeDomain(common.DOMAIN_BEACON_PROPOSER, vVersionAt(raw, spec.SlotToEpoch(h1.Slot)), raw.GenesisValidatorsRoot)
	r1 := common.ComputeSigningRoot(h1.HashTreeRoot(hf), dom)
	r2 := common.ComputeSigningRoot(h2.HashTreeRoot(hf), dom)
	pub := raw.Validators[x].Pubkey
	return zzverif.BLSPubkeyValid(pub) && zzverif.BLSSigValid(ps.SignedHeader1.Signature) && zzverif.BLSSigValid(ps.SignedHeader2.Signature) &&
		zzverif.BLSVerify(pub, r1[:], ps.SignedHeader1.Signature) && zzverif.BLSVerify(pub, r2[:], ps.SignedHeader2.Signature)
}

// vPlIndexedAtt: an indexed attestation by the given (sorted) validators for target epoch tgt; `mark` distinguishes the data.
func vPlIndexedAtt(spec *common.Spec, indices []int, tgt uint64, mark byte) IndexedAttestation {
	ia := IndexedAttestation{Signature: vSig1()}
	for _, i := range indices {
		ia.AttestingIndices = append(ia.AttestingIndices, common.ValidatorIndex(i))
	}
	ia.Data = AttestationData{Slot: common.Slot(tgt * uint64(spec.SLOTS_PER_EPOCH)), BeaconBlockRoot: vRoot1(), Source: common.Checkpoint{Root: vRoot1()}, Target: common.Checkpoint{Epoch: common.Epoch(tgt), Root: vRoot1()}}
	ia.Data.BeaconBlockRoot[5] = mark
	return ia
}

// spec: process_attester_slashing on the struct form; reports whether the spec accepts (and then has slashed)
func vPlAttesterSlashing(spec *common.Spec, raw *BeaconState, as *AttesterSlashing, cur common.Epoch, prop int) bool {
	d1, d2 := &as.Attestation1.Data, &as.Attestation2.Data
	double := *d1 != *d2 && d1.Target.Epoch == d2.Target.Epoch
	surround := d1.Source.Epoch < d2.Source.Epoch && d2.Target.Epoch < d1.Target.Epoch
	if !(double || surround) {
		return false
	}
	var sets [2][]int
	for k, a := range []*IndexedAttestation{&as.Attestation1, &as.Attestation2} {
		li := a.AttestingIndices
		if len(li) == 0 || uint64(len(li)) > uint64(spec.MAX_VALIDATORS_PER_COMMITTEE) {
			return false
		}
		for i := range li {
			if int(li[i]) >= len(raw.Validators) || (i > 0 && !(li[i-1] < li[i])) {
				return false
			}
			sets[k] = append(sets[k], int(li[i]))
		}
		if !vAtAggValid(raw, sets[k], &a.Data, a.Signature) {
			return false
		}
	}
	slashedAny := false
	for i := range raw.Validators { // sorted(set(indices_1).intersection(indices_2))
		in1, in2 := false, false
		for _, x := range sets[0] {
			in1 = in1 || x == i
		}
		for _, x := range sets[1] {
			in2 = in2 || x == i
		}
		if in1 && in2 && vPlSlashable(raw.Validators[i], cur) {
			vPlSlash(spec, raw, i, cur, prop)
			slashedAny = true
		}
	}
	return slashedAny
}

// spec: process_voluntary_exit's conditions
func vPlExitValid(spec *common.Spec, raw *BeaconState, ex *SignedVoluntaryExit, cur common.Epoch) bool {
	if int(ex.Message.ValidatorIndex) >= len(raw.Validators) {
		return false
	}
	i := int(ex.Message.ValidatorIndex)
	v := raw.Validators[i]
	if !(vPlActive(v, cur) && v.ExitEpoch == vFarFuture) {
		return false
	}
	dom := common.ComputeDomain(common.DOMAIN_VOLUNTARY_EXIT, vVersionAt(raw, ex.Message.Epoch), raw.GenesisValidatorsRoot)
	root := common.ComputeSigningRoot(ex.Message.HashTreeRoot(tree.GetHashFn()), dom)
	pub := v.Pubkey
	return cur >= ex.Message.Epoch && cur >= v.ActivationEpoch+spec.SHARD_COMMITTEE_PERIOD &&
		zzverif.BLSPubkeyValid(pub) && zzverif.BLSSigValid(ex.Signature) && zzverif.BLSVerify(pub, root[:], ex.Signature)
}

func vPlExit(i int) SignedVoluntaryExit {
	ee := zzverif.NondetU8()
	zzverif.Assume(ee < 8)
	return SignedVoluntaryExit{Message: VoluntaryExit{Epoch: common.Epoch(ee), ValidatorIndex: common.ValidatorIndex(i)}, Signature: vSig1()}
}

const vPlBlockKinds = 10

// VerifHarness_C01_phase0_block_pipeline: the real phase0 (*BeaconStateView).ProcessBlock against the composition the
// spec's process_block prescribes:
//
//	process_block_header; process_randao; process_eth1_data;
//	process_operations: assert len(deposits) == min(MAX_DEPOSITS, eth1_data.deposit_count - eth1_deposit_index);
//	    proposer_slashings; attester_slashings; attestations; deposits; voluntary_exits (each list in order)
//
// The reference below is a transcription of these steps on the struct form of the pre-state (it calls none of the
// repository's processing functions); the block is accepted exactly when the transcription accepts, and then every
// top-level field of the post-state has the root of the transcription's field (20 per-field root obligations; the
// registry is compared leaf by leaf: count, all eight fields of every validator, and every balance - see vPlExpectFields).
//
// Block: header with symbolic slot / proposer index (0..3) and a parent root that is either the right one or arbitrary;
// randao reveal, every operation signature symbolic (their validity is decided by the uninterpreted BLS predicates, on
// both sides); eth1 vote with symbolic deposit count < 16. Operations by kind (Choose #1):
//
//	0 none; 1 proposer slashing of validator 2; 2 attester slashing (double vote) of validators 1 and 2 (two
//	slash_validator calls in index order, visible in the exit queue); 3 attestation by the committee {2,0} of the
//	previous slot; 4 deposit (top-up of validator 1, Merkle branch built in the harness against the deposit root that is
//	in force AFTER process_eth1_data); 5 voluntary exit of validator 2 (symbolic exit epoch 0..7);
//	6 proposer slashing of validator 2 AND voluntary exit of validator 2: always refused (slashings run first, the
//	validator is then already exiting); 7 proposer slashing of 2 and exit of the non-proposer of {0,1}: exit epochs 7
//	then 8 (churn limit 1: the order of the two is visible); 8 all five kinds in one block: proposer slashing of 2,
//	attester slashing naming {other, 2} (slashes only `other`, because 2 was slashed by the earlier step), attestation,
//	deposit, exit of the proposer (exit epochs 7, 8, 9 in this order); 9 two valid proposer slashings
//	(MAX_PROPOSER_SLASHINGS = 1): refused whatever the signatures.
//
// Deposit count: with `adopt` (Choose #3 = 1) the state already holds two votes equal to the block's vote, so
// process_eth1_data replaces eth1_data and the expected number of deposits is min(4, block vote's count - 3); otherwise
// (one different vote in the list) it is min(4, state's count - 3); both counts are independent symbolic values 0..15
// (wrapping subtraction as in the uint64 arithmetic of the spec: a count below the index asks for MAX_DEPOSITS), so the
// block is refused whenever its number of deposits (0, or 1 in kinds 4 and 8) differs.
// With a live counting context the accepted block polls it 3 + (number of operations) times.
//
// Bounds/assumptions: tiny preset with MIN_PER_EPOCH_CHURN_LIMIT lowered to 1; 3 validators (vPlRaw) at slot 9 (epoch 4);
// proposer validator 0 or 1 (Choose #2), hand-built proposer table and committees in a vLightEpc context; distinct
// eth1 votes have distinct roots (no SHA-256 collision); BLS and SHA-256 uninterpreted.
// Shards: Choose #1 = kind (10), #2 = proposer (2), #3 = adopt (2).
func VerifHarness_C01_phase0_block_pipeline() {
	kind := zzverif.Choose(vPlBlockKinds)
	prop := zzverif.Choose(2)
	adopt := zzverif.Choose(2) == 1
	other := 1 - prop
	spec := common.VTinySpec()
	spec.MIN_PER_EPOCH_CHURN_LIMIT = 1
	n := 3
	spe := uint64(spec.SLOTS_PER_EPOCH)
	cur := common.Epoch(4)
	slot := uint64(cur)*spe + 1
	raw := vPlRaw(spec, n, slot)
	h := tree.GetHashFn()

	// ---- the block ----
	bdc := zzverif.NondetU8()
	zzverif.Assume(bdc < 16)
	body := &BeaconBlockBody{RandaoReveal: vSig1(), Graffiti: vRoot1()}
	body.Eth1Data = common.Eth1Data{DepositRoot: vRoot1(), DepositCount: common.DepositIndex(bdc), BlockHash: vRoot1()}
	switch kind {
	case 1:
		body.ProposerSlashings = ProposerSlashings{vPlProposerSlashing(2, slot-1)}
	case 2:
		body.AttesterSlashings = AttesterSlashings{{Attestation1: vPlIndexedAtt(spec, []int{1, 2}, uint64(cur), 0), Attestation2: vPlIndexedAtt(spec, []int{1, 2}, uint64(cur), 1)}}
	case 5:
		body.VoluntaryExits = VoluntaryExits{vPlExit(2)}
	case 6:
		body.ProposerSlashings = ProposerSlashings{vPlProposerSlashing(2, slot-1)}
		body.VoluntaryExits = VoluntaryExits{vPlExit(2)}
	case 7:
		body.ProposerSlashings = ProposerSlashings{vPlProposerSlashing(2, slot-1)}
		body.VoluntaryExits = VoluntaryExits{vPlExit(other)}
	case 8:
		body.ProposerSlashings = ProposerSlashings{vPlProposerSlashing(2, slot-1)}
		body.AttesterSlashings = AttesterSlashings{{Attestation1: vPlIndexedAtt(spec, []int{other, 2}, uint64(cur), 0), Attestation2: vPlIndexedAtt(spec, []int{other, 2}, uint64(cur), 1)}}
		body.VoluntaryExits = VoluntaryExits{vPlExit(prop)}
	case 9:
		body.ProposerSlashings = ProposerSlashings{vPlProposerSlashing(2, slot-1), vPlProposerSlashing(other, slot-1)}
	}
	commPrev := [][][]common.ValidatorIndex{{{1}}, {{0, 2}}}
	commCur := [][][]common.ValidatorIndex{{{2, 0}}, {{1}}}
	if kind == 3 || kind == 8 {
		att := Attestation{AggregationBits: AttestationBits{0x07}, Signature: vSig1()}
		att.Data = AttestationData{Slot: common.Slot(slot - 1), Index: 0, BeaconBlockRoot: vRoot1(), Source: raw.CurrentJustifiedCheckpoint,
			Target: common.Checkpoint{Epoch: cur, Root: vRoot1()}}
		body.Attestations = Attestations{att}
	}
	if kind == 4 || kind == 8 {
		amt := zzverif.NondetU64()
		zzverif.Assume(amt < 1<<40)
		dep := common.Deposit{Data: common.DepositData{Pubkey: raw.Validators[1].Pubkey, WithdrawalCredentials: vRoot1(), Amount: common.Gwei(amt), Signature: vSig1()}}
		dep.Proof[0], dep.Proof[1], dep.Proof[common.DEPOSIT_CONTRACT_TREE_DEPTH] = vRoot1(), vRoot1(), vRoot1()
		root := vPlMerkleRoot(dep.Data.HashTreeRoot(h), dep.Proof[:], common.DEPOSIT_CONTRACT_TREE_DEPTH+1, uint64(n))
		body.Deposits = Deposits{dep}
		if adopt {
			body.Eth1Data.DepositRoot = root // the root the vote brings in
		} else {
			raw.Eth1Data.DepositRoot = root // the root that stays in force
		}
	}
	// earlier votes of the voting period
	if adopt {
		raw.Eth1DataVotes = Eth1DataVotes{body.Eth1Data, body.Eth1Data}
	} else {
		v := common.Eth1Data{DepositRoot: vRoot1(), DepositCount: common.DepositIndex(zzverif.NondetU8()), BlockHash: vRoot1()}
		zzverif.Assume(v.HashTreeRoot(h) != body.Eth1Data.HashTreeRoot(h))
		raw.Eth1DataVotes = Eth1DataVotes{v}
	}
	hs, hp := zzverif.NondetU8(), zzverif.NondetU8()&3
	header := common.BeaconBlockHeader{Slot: common.Slot(hs), ProposerIndex: common.ValidatorIndex(hp), ParentRoot: vRoot1(), StateRoot: vRoot1(), BodyRoot: body.HashTreeRoot(spec, h)}
	if zzverif.NondetBool() {
		header.ParentRoot = raw.LatestBlockHeader.HashTreeRoot(h)
	}
	benv := &common.BeaconBlockEnvelope{BeaconBlockHeader: header, Body: body, BlockRoot: header.HashTreeRoot(h), Signature: vSig1()}

	// ---- the state and its context ----
	st, _ := vStateToView(spec, raw)
	epc := vLightEpc(spec, raw, st)
	props := []common.ValidatorIndex{common.ValidatorIndex(other), common.ValidatorIndex(prop)}
	epc.Proposers = &common.ProposersEpoch{Spec: spec, Epoch: cur, Proposers: props}
	epc.PreviousEpoch = &common.ShufflingEpoch{Epoch: cur - 1, ActiveIndices: epc.CurrentEpoch.ActiveIndices, Committees: commPrev}
	epc.CurrentEpoch.Committees = commCur
	polls := 0
	ctx := vCtx{polls: &polls, failAt: -1}

	zzverif.Reach("phase0-block-pipeline")
	err := st.ProcessBlock(ctx, spec, epc, benv)

	// ---- spec: process_block on the struct form ----
	nops := 0
	ref := func() bool {
		// process_block_header
		if !(header.Slot == raw.Slot && header.Slot > raw.LatestBlockHeader.Slot && int(header.ProposerIndex) == prop &&
			header.ParentRoot == raw.LatestBlockHeader.HashTreeRoot(h) && !raw.Validators[prop].Slashed) {
			return false
		}
		raw.LatestBlockHeader = common.BeaconBlockHeader{Slot: header.Slot, ProposerIndex: header.ProposerIndex, ParentRoot: header.ParentRoot, BodyRoot: header.BodyRoot}
		// process_randao
		{
			dom := common.ComputeDomain(common.DOMAIN_RANDAO, vVersionAt(raw, cur), raw.GenesisValidatorsRoot)
			msg := common.ComputeSigningRoot(cur.HashTreeRoot(h), dom)
			pub := raw.Validators[prop].Pubkey
			if !(zzverif.BLSPubkeyValid(pub) && zzverif.BLSSigValid(body.RandaoReveal) && zzverif.BLSVerify(pub, msg[:], body.RandaoReveal)) {
				return false
			}
			k := uint64(cur) % uint64(spec.EPOCHS_PER_HISTORICAL_VECTOR)
			hr := zzverif.Hash(body.RandaoReveal[:])
			for i := range hr {
				raw.RandaoMixes[k][i] ^= hr[i]
			}
		}
		// process_eth1_data (the earlier votes equal the new one exactly in the `adopt` construction)
		{
			raw.Eth1DataVotes = append(raw.Eth1DataVotes, body.Eth1Data)
			count := uint64(1)
			if adopt {
				count = 3
			}
			if count*2 > uint64(spec.EPOCHS_PER_ETH1_VOTING_PERIOD)*spe {
				raw.Eth1Data = body.Eth1Data
			}
		}
		// process_operations: list limits (SSZ list bounds of the body type)
		if uint64(len(body.ProposerSlashings)) > uint64(spec.MAX_PROPOSER_SLASHINGS) || uint64(len(body.AttesterSlashings)) > uint64(spec.MAX_ATTESTER_SLASHINGS) ||
			uint64(len(body.Attestations)) > uint64(spec.MAX_ATTESTATIONS) || uint64(len(body.Deposits)) > uint64(spec.MAX_DEPOSITS) ||
			uint64(len(body.VoluntaryExits)) > uint64(spec.MAX_VOLUNTARY_EXITS) {
			return false
		}
		// assert len(body.deposits) == min(MAX_DEPOSITS, state.eth1_data.deposit_count - state.eth1_deposit_index)
		expected := uint64(raw.Eth1Data.DepositCount) - uint64(raw.Eth1DepositIndex)
		if expected > uint64(spec.MAX_DEPOSITS) {
			expected = uint64(spec.MAX_DEPOSITS)
		}
		if uint64(len(body.Deposits)) != expected {
			return false
		}
		for i := range body.ProposerSlashings {
			ps := &body.ProposerSlashings[i]
			if !vPlProposerSlashingValid(spec, raw, ps, cur) {
				return false
			}
			vPlSlash(spec, raw, int(ps.SignedHeader1.Message.ProposerIndex), cur, prop)
			nops++
		}
		for i := range body.AttesterSlashings {
			if !vPlAttesterSlashing(spec, raw, &body.AttesterSlashings[i], cur, prop) {
				return false
			}
			nops++
		}
		for i := range body.Attestations {
			// process_attestation: this attestation is well-formed by construction (target = current epoch, previous slot,
			// committee 0 of that slot = {2,0}, all bits set, source = current justified checkpoint); what remains is the signature
			a := &body.Attestations[i]
			if !vAtAggValid(raw, []int{0, 2}, &a.Data, a.Signature) {
				return false
			}
			raw.CurrentEpochAttestations = append(raw.CurrentEpochAttestations, &PendingAttestation{AggregationBits: a.AggregationBits, Data: a.Data,
				InclusionDelay: raw.Slot - a.Data.Slot, ProposerIndex: common.ValidatorIndex(prop)})
			nops++
		}
		for i := range body.Deposits {
			d := &body.Deposits[i]
			if !vMerkleBranchOK(d.Data.HashTreeRoot(h), d.Proof[:], common.DEPOSIT_CONTRACT_TREE_DEPTH+1, uint64(raw.Eth1DepositIndex), raw.Eth1Data.DepositRoot) {
				return false
			}
			raw.Eth1DepositIndex++
			raw.Balances[1] += d.Data.Amount // the pubkey is validator 1's: top-up, no signature check
			nops++
		}
		for i := range body.VoluntaryExits {
			ex := &body.VoluntaryExits[i]
			if !vPlExitValid(spec, raw, ex, cur) {
				return false
			}
			vPlInitiateExit(spec, raw, int(ex.Message.ValidatorIndex), cur)
			nops++
		}
		return true
	}
	ok := ref()
	zzverif.Assert((err == nil) == ok, "phase0 ProcessBlock accepts exactly the blocks the spec's process_block accepts")
	if kind == 6 || kind == 9 {
		zzverif.Assert(err != nil, "a slashing and an exit of the same validator in one block, or operations beyond a list limit, make the block fail")
	}
	if !ok {
		return
	}
	zzverif.Reach("phase0-block-pipeline accepted")
	zzverif.Assert(polls == 3+nops, "an accepted block polls the context once per sub-step and once per operation")
	vPlExpectFields(spec, st, raw, "phase0 process_block")
	if kind == 7 {
		zzverif.Assert(raw.Validators[2].ExitEpoch == 7 && raw.Validators[other].ExitEpoch == 8, "reference self-check: the slashed validator leaves first")
	}
	if kind == 8 {
		zzverif.Assert(raw.Validators[2].ExitEpoch == 7 && raw.Validators[other].ExitEpoch == 8 && raw.Validators[prop].ExitEpoch == 9, "reference self-check: proposer slashing, attester slashing, exit queue up in this order")
	}
}
