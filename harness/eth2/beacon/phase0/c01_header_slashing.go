package phase0

import (
	"context"

	"github.com/protolambda/zrnt/eth2/beacon/common"
	"github.com/protolambda/zrnt/eth2/zzverif"
	"github.com/protolambda/ztyp/tree"
)

// VerifHarness_C01_header: common.ProcessHeader accepts exactly the headers the spec's process_block_header accepts
// (slot, newer than the latest header, proposer in range and expected, parent root, proposer not slashed) and then
// stores the header with a zeroed state root.
func VerifHarness_C01_header() {
	spec := common.VTinySpec()
	raw := vNewRaw(spec, 2, 3)
	for i := range raw.Validators {
		raw.Validators[i].Slashed = zzverif.NondetBool()
	}
	ls := zzverif.NondetU8()
	raw.LatestBlockHeader.Slot = common.Slot(ls)
	st, _ := vStateToView(spec, raw)
	h := tree.GetHashFn()
	hdr := &common.BeaconBlockHeader{Slot: common.Slot(zzverif.NondetU8()), ProposerIndex: common.ValidatorIndex(zzverif.NondetU8() & 3), ParentRoot: vRoot1(), StateRoot: vRoot1(), BodyRoot: vRoot1()}
	if zzverif.NondetBool() {
		hdr.ParentRoot = raw.LatestBlockHeader.HashTreeRoot(h)
	}
	expected := common.ValidatorIndex(zzverif.NondetU8() & 3)
	zzverif.Reach("header")
	err := common.ProcessHeader(context.Background(), spec, st, hdr, expected)
	ok := hdr.Slot == raw.Slot && hdr.Slot > raw.LatestBlockHeader.Slot && int(hdr.ProposerIndex) < len(raw.Validators) && hdr.ProposerIndex == expected &&
		hdr.ParentRoot == raw.LatestBlockHeader.HashTreeRoot(h)
	if ok {
		ok = !raw.Validators[int(zzverif.Concrete(uint64(hdr.ProposerIndex)))].Slashed
	}
	zzverif.Assert((err == nil) == ok, "ProcessHeader accepts exactly the headers process_block_header accepts")
	got, _ := st.LatestBlockHeader()
	if ok {
		want := common.BeaconBlockHeader{Slot: hdr.Slot, ProposerIndex: hdr.ProposerIndex, ParentRoot: hdr.ParentRoot, BodyRoot: hdr.BodyRoot}
		zzverif.Assert(*got == want, "the accepted header becomes latest_block_header with an empty state root")
	} else {
		zzverif.Assert(*got == raw.LatestBlockHeader, "a refused header leaves latest_block_header untouched")
	}
}

// VerifHarness_C01_proposer_slashing: ProcessProposerSlashing accepts exactly what the spec's process_proposer_slashing
// accepts and then applies slash_validator (exit queue, slashed flag, withdrawable epoch, slashings vector, penalty,
// whistleblower/proposer rewards) as the spec.
func VerifHarness_C01_proposer_slashing() {
	spec := common.VTinySpec()
	n := 2
	cur := uint64(4)
	raw, vs := vLifecycleState(spec, n, cur)
	vSymFork(spec, raw, cur)
	for i := range raw.Validators {
		raw.Validators[i].Slashed = zzverif.NondetBool()
		b := zzverif.NondetU64()
		zzverif.Assume(b < 1<<40)
		raw.Balances[i] = common.Gwei(b)
	}
	st, _ := vStateToView(spec, raw)
	epc := vLightEpc(spec, raw, st)
	prop := zzverif.Choose(n)
	epc.Proposers = &common.ProposersEpoch{Spec: spec, Epoch: common.Epoch(cur), Proposers: []common.ValidatorIndex{common.ValidatorIndex(prop), common.ValidatorIndex(prop)}}
	ps := &ProposerSlashing{SignedHeader1: vHeader(), SignedHeader2: vHeader()}
	ps.SignedHeader1.Message.Slot = common.Slot(zzverif.NondetU8())
	ps.SignedHeader1.Message.ProposerIndex = common.ValidatorIndex(zzverif.NondetU8() & 3)
	if zzverif.NondetBool() {
		ps.SignedHeader2.Message.Slot = ps.SignedHeader1.Message.Slot
	}
	if zzverif.NondetBool() {
		ps.SignedHeader2.Message.ProposerIndex = ps.SignedHeader1.Message.ProposerIndex
	}
	zzverif.Reach("proposer-slashing")
	err := ProcessProposerSlashing(spec, epc, st, ps)
	h1, h2 := &ps.SignedHeader1.Message, &ps.SignedHeader2.Message
	valid := h1.Slot == h2.Slot && h1.ProposerIndex == h2.ProposerIndex && *h1 != *h2 && int(h1.ProposerIndex) < n
	idx := 0
	if valid {
		idx = int(zzverif.Concrete(uint64(h1.ProposerIndex)))
		v := vs[idx]
		c := common.Epoch(cur)
		hf := tree.GetHashFn()
		dom := common.ComputeDomain(common.DOMAIN_BEACON_PROPOSER, vVersionAt(raw, spec.SlotToEpoch(h1.Slot)), raw.GenesisValidatorsRoot)
		r1 := common.ComputeSigningRoot(h1.HashTreeRoot(hf), dom)
		r2 := common.ComputeSigningRoot(h2.HashTreeRoot(hf), dom)
		pub := raw.Validators[idx].Pubkey
		valid = !raw.Validators[idx].Slashed && v.act <= c && c < v.wd &&
			zzverif.BLSPubkeyValid(pub) && zzverif.BLSSigValid(ps.SignedHeader1.Signature) && zzverif.BLSSigValid(ps.SignedHeader2.Signature) &&
			zzverif.BLSVerify(pub, r1[:], ps.SignedHeader1.Signature) && zzverif.BLSVerify(pub, r2[:], ps.SignedHeader2.Signature)
	}
	zzverif.Assert((err == nil) == valid, "ProcessProposerSlashing accepts exactly the slashings the spec accepts")
	if !valid {
		vCompareVals(st, vs, "refused proposer slashing")
		return
	}
	// spec: slash_validator
	c := common.Epoch(cur)
	vRefInitiateExit(spec, vs, idx, c)
	if c+spec.EPOCHS_PER_SLASHINGS_VECTOR > vs[idx].wd {
		vs[idx].wd = c + spec.EPOCHS_PER_SLASHINGS_VECTOR
	}
	vCompareVals(st, vs, "proposer slashing")
	vals, _ := st.Validators()
	v, _ := vals.Validator(common.ValidatorIndex(idx))
	sl, _ := v.Slashed()
	zzverif.Assert(sl, "the slashed flag is set")
	eff := uint64(raw.Validators[idx].EffectiveBalance)
	sls, _ := st.Slashings()
	gotS, _ := sls.GetSlashingsValue(c % spec.EPOCHS_PER_SLASHINGS_VECTOR)
	zzverif.Assert(uint64(gotS) == uint64(raw.Slashings[int(cur)%int(spec.EPOCHS_PER_SLASHINGS_VECTOR)])+eff, "slashings[epoch % EPOCHS_PER_SLASHINGS_VECTOR] += effective_balance")
	wb := eff / uint64(spec.WHISTLEBLOWER_REWARD_QUOTIENT)
	pr := wb / uint64(spec.PROPOSER_REWARD_QUOTIENT)
	want := []uint64{uint64(raw.Balances[0]), uint64(raw.Balances[1])}
	pen := eff / uint64(spec.MIN_SLASHING_PENALTY_QUOTIENT)
	if want[idx] < pen {
		want[idx] = 0
	} else {
		want[idx] -= pen
	}
	want[prop] += pr
	want[prop] += wb - pr
	bals, _ := st.Balances()
	for i := 0; i < n; i++ {
		b, _ := bals.GetBalance(common.ValidatorIndex(i))
		zzverif.Assert(uint64(b) == want[i], "balances after slash_validator: penalty, proposer and whistleblower rewards")
	}
}
