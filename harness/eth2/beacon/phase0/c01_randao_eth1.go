package phase0

import (
	"context"

	"github.com/protolambda/zrnt/eth2/beacon/common"
	"github.com/protolambda/zrnt/eth2/zzverif"
	"github.com/protolambda/ztyp/tree"
)

// VerifHarness_C01_randao: ProcessRandaoReveal against the spec's process_randao.
//
//	epoch = get_current_epoch(state)
//	proposer = state.validators[get_beacon_proposer_index(state)]
//	signing_root = compute_signing_root(epoch, get_domain(state, DOMAIN_RANDAO))
//	assert bls.Verify(proposer.pubkey, signing_root, body.randao_reveal)
//	mix = xor(get_randao_mix(state, epoch), hash(body.randao_reveal))
//	state.randao_mixes[epoch % EPOCHS_PER_HISTORICAL_VECTOR] = mix
//
// Claim: accepted exactly when the reveal verifies under the proposer's key over that signing root (fork version
// selected by the current epoch against a symbolic fork record); on accept the whole post-state equals the pre-state
// with only that one mix replaced (state root against the struct form), every other mix is read back unchanged; on
// refusal the state root is the pre-state's.
// Bounds: tiny preset, 2 validators (pubkeys with one symbolic byte), current epoch in 6..9 (crosses the wrap of the
// 8-entry mix vector) at either slot of the epoch, reveal with two symbolic bytes, mixes with two symbolic bytes,
// fork epoch symbolic in 0..15 (both sides of the current epoch). The proposer of the slot is an input: the epochs
// context is harness-built and names one of the two validators (chosen) as the proposer of the slot.
func VerifHarness_C01_randao() {
	spec := common.VTinySpec()
	n := 2
	cur := uint64(6 + zzverif.Choose(4))
	raw := vNewRaw(spec, n, cur)
	fe := zzverif.NondetU8()
	zzverif.Assume(fe < 16)
	raw.Fork = common.Fork{PreviousVersion: common.Version{0, 0, 0, 1}, CurrentVersion: common.Version{1, 0, 0, 1}, Epoch: common.Epoch(fe)}
	st, _ := vStateToView(spec, raw)
	epc := vLightEpc(spec, raw, st)
	prop := zzverif.Choose(n)
	props := make([]common.ValidatorIndex, spec.SLOTS_PER_EPOCH)
	for i := range props {
		props[i] = common.ValidatorIndex((prop + 1) % n) // the other slots of the epoch have the other proposer
	}
	props[int(uint64(raw.Slot)%uint64(spec.SLOTS_PER_EPOCH))] = common.ValidatorIndex(prop)
	epc.Proposers = &common.ProposersEpoch{Spec: spec, Epoch: common.Epoch(cur), Proposers: props}
	reveal := vSig1()
	h := tree.GetHashFn()
	pre := raw.HashTreeRoot(spec, h)
	zzverif.Reach("randao")
	err := ProcessRandaoReveal(context.Background(), spec, epc, st, reveal)

	// spec: process_randao
	epoch := common.Epoch(uint64(raw.Slot) / uint64(spec.SLOTS_PER_EPOCH))
	version := raw.Fork.CurrentVersion
	if epoch < raw.Fork.Epoch {
		version = raw.Fork.PreviousVersion
	}
	dom := common.ComputeDomain(common.BLSDomainType{0x02, 0x00, 0x00, 0x00}, version, raw.GenesisValidatorsRoot)
	root := common.ComputeSigningRoot(epoch.HashTreeRoot(h), dom)
	pub := raw.Validators[prop].Pubkey
	valid := zzverif.BLSPubkeyValid(pub) && zzverif.BLSSigValid(reveal) && zzverif.BLSVerify(pub, root[:], reveal)
	zzverif.Assert((err == nil) == valid, "ProcessRandaoReveal accepts exactly the reveals process_randao accepts")
	if !valid {
		zzverif.Assert(st.HashTreeRoot(h) == pre, "a refused randao reveal leaves the state untouched")
		return
	}
	k := int(uint64(epoch) % uint64(spec.EPOCHS_PER_HISTORICAL_VECTOR))
	hr := zzverif.Hash(reveal[:])
	var mix common.Root
	for i := 0; i < 32; i++ {
		mix[i] = raw.RandaoMixes[k][i] ^ hr[i]
	}
	raw.RandaoMixes[k] = mix
	mixes, _ := st.RandaoMixes()
	for i := 0; i < int(spec.EPOCHS_PER_HISTORICAL_VECTOR); i++ {
		got, gerr := mixes.GetRandomMix(common.Epoch(i))
		zzverif.Assert(gerr == nil && got == raw.RandaoMixes[i], "randao_mixes: only the current epoch's entry changes, to xor(mix, hash(reveal))")
	}
	zzverif.Assert(st.HashTreeRoot(h) == raw.HashTreeRoot(spec, h), "after an accepted randao reveal the state is the pre-state with only that mix replaced")
}

func vMiEth1Data() common.Eth1Data {
	return common.Eth1Data{DepositRoot: vRoot1(), DepositCount: common.DepositIndex(zzverif.NondetU64()), BlockHash: vRoot1()}
}

// VerifHarness_C01_eth1_vote: ProcessEth1Vote against the spec's process_eth1_data.
//
//	state.eth1_data_votes.append(body.eth1_data)
//	if state.eth1_data_votes.count(body.eth1_data) * 2 > EPOCHS_PER_ETH1_VOTING_PERIOD * SLOTS_PER_EPOCH:
//	    state.eth1_data = body.eth1_data
//
// Claim: for a vote list of every length 0..period-1 the call succeeds, the whole post-state equals the pre-state with
// the vote appended and eth1_data replaced exactly when the spec's count condition holds (state root against the
// struct form; eth1_data and list length also read back); a full list (length == period, not reachable because the
// list is reset at the period boundary, and an over-limit append in the spec) is refused with the state untouched.
// Bounds: tiny preset (period = 2 epochs * 2 slots = 4 votes; job parameter eth1_period_epochs = 3 gives 6), 1 validator; each pre-existing vote is symbolically
// either a copy of the new vote or an independent vote (roots with two symbolic bytes, symbolic 64-bit count).
// Assumption: distinct votes have distinct hash-tree-roots (no SHA-256 collision; the hash is uninterpreted in the
// engine and the implementation counts by root, as the spec's SSZ equality does).
func VerifHarness_C01_eth1_vote() {
	spec := common.VTinySpec()
	spec.EPOCHS_PER_ETH1_VOTING_PERIOD = common.Epoch(zzverif.Param("eth1_period_epochs", 2))
	period := int(uint64(spec.EPOCHS_PER_ETH1_VOTING_PERIOD) * uint64(spec.SLOTS_PER_EPOCH))
	l := zzverif.Choose(period + 1)
	raw := vNewRaw(spec, 1, 3)
	h := tree.GetHashFn()
	data := vMiEth1Data()
	dataRoot := data.HashTreeRoot(h)
	for i := 0; i < l; i++ {
		v := vMiEth1Data()
		if zzverif.NondetBool() {
			v = data
		}
		if v != data {
			zzverif.Assume(v.HashTreeRoot(h) != dataRoot)
		}
		raw.Eth1DataVotes = append(raw.Eth1DataVotes, v)
	}
	st, _ := vStateToView(spec, raw)
	epc := vLightEpc(spec, raw, st)
	pre := raw.HashTreeRoot(spec, h)
	zzverif.Reach("eth1-vote")
	err := ProcessEth1Vote(context.Background(), spec, epc, st, data)
	if l == period {
		zzverif.Assert(err != nil, "a vote beyond the voting period's list limit is refused")
		zzverif.Assert(st.HashTreeRoot(h) == pre, "a refused eth1 vote leaves the state untouched")
		return
	}
	zzverif.Assert(err == nil, "ProcessEth1Vote accepts a vote while the list is below the period length")
	// spec: process_eth1_data
	raw.Eth1DataVotes = append(raw.Eth1DataVotes, data)
	count := uint64(0)
	for _, v := range raw.Eth1DataVotes {
		if v == data {
			count++
		}
	}
	adopt := count*2 > uint64(spec.EPOCHS_PER_ETH1_VOTING_PERIOD)*uint64(spec.SLOTS_PER_EPOCH)
	if adopt {
		raw.Eth1Data = data
	}
	got, _ := st.Eth1Data()
	zzverif.Assert(got == raw.Eth1Data, "eth1_data is replaced iff count(votes == data) * 2 > EPOCHS_PER_ETH1_VOTING_PERIOD * SLOTS_PER_EPOCH")
	votes, _ := st.Eth1DataVotes()
	vl, _ := votes.Length()
	zzverif.Assert(vl == uint64(l+1), "the vote is appended")
	zzverif.Assert(st.HashTreeRoot(h) == raw.HashTreeRoot(spec, h), "after an eth1 vote the state is the pre-state with the vote appended and eth1_data as the spec")
}
