package phase0

import (
	"context"

	"github.com/protolambda/zrnt/eth2/beacon/common"
	"github.com/protolambda/zrnt/eth2/zzverif"
	"github.com/protolambda/ztyp/tree"
)

// VerifHarness_C02_justification: the real ProcessEpochJustification on the real state equals the spec's
// process_justification_and_finalization (weigh_justification_and_finalization) for symbolic stakes, epochs,
// checkpoints and all 16 justification-bit patterns.
func VerifHarness_C02_justification() {
	spec := common.VTinySpec()
	raw := vNewRaw(spec, 1, 0)
	cur := uint64(zzverif.NondetU8())
	raw.Slot = common.Slot(cur*uint64(spec.SLOTS_PER_EPOCH) + uint64(spec.SLOTS_PER_EPOCH) - 1)
	bits := zzverif.NondetU8() & 0x0f
	raw.JustificationBits = common.JustificationBits{bits}
	oldPrev := common.Checkpoint{Epoch: common.Epoch(zzverif.NondetU8()), Root: vRoot1()}
	oldCur := common.Checkpoint{Epoch: common.Epoch(zzverif.NondetU8()), Root: vRoot1()}
	oldFin := common.Checkpoint{Epoch: common.Epoch(zzverif.NondetU8()), Root: vRoot1()}
	raw.PreviousJustifiedCheckpoint, raw.CurrentJustifiedCheckpoint, raw.FinalizedCheckpoint = oldPrev, oldCur, oldFin
	st, _ := vStateToView(spec, raw)
	total, prevT, curT := zzverif.NondetU64(), zzverif.NondetU64(), zzverif.NondetU64()
	zzverif.Assume(total < 1<<60 && prevT < 1<<60 && curT < 1<<60) // *3 and *2 do not wrap (total stake is < 2^60 Gwei)
	data := &JustificationStakeData{CurrentEpoch: common.Epoch(cur), TotalActiveStake: common.Gwei(total), PrevEpochUnslashedTargetStake: common.Gwei(prevT), CurrEpochUnslashedTargetStake: common.Gwei(curT)}
	zzverif.Reach("justification")
	err := ProcessEpochJustification(context.Background(), spec, data, st)
	zzverif.Assert(err == nil, "ProcessEpochJustification succeeds")
	// reference
	wantPrev, wantCur, wantFin, wantBits := oldPrev, oldCur, oldFin, bits
	if cur > 1 {
		prevEpoch := cur - 1
		wantPrev = oldCur
		wantBits = (bits << 1) & 0x0f
		rootAt := func(e uint64) common.Root {
			return raw.BlockRoots[(e*uint64(spec.SLOTS_PER_EPOCH))%uint64(spec.SLOTS_PER_HISTORICAL_ROOT)]
		}
		if prevT*3 >= total*2 {
			wantCur = common.Checkpoint{Epoch: common.Epoch(prevEpoch), Root: rootAt(prevEpoch)}
			wantBits |= 2
		}
		if curT*3 >= total*2 {
			wantCur = common.Checkpoint{Epoch: common.Epoch(cur), Root: rootAt(cur)}
			wantBits |= 1
		}
		b := func(i uint) bool { return wantBits>>i&1 == 1 }
		if b(1) && b(2) && b(3) && uint64(oldPrev.Epoch)+3 == cur {
			wantFin = oldPrev
		}
		if b(1) && b(2) && uint64(oldPrev.Epoch)+2 == cur {
			wantFin = oldPrev
		}
		if b(0) && b(1) && b(2) && uint64(oldCur.Epoch)+2 == cur {
			wantFin = oldCur
		}
		if b(0) && b(1) && uint64(oldCur.Epoch)+1 == cur {
			wantFin = oldCur
		}
	}
	gp, _ := st.PreviousJustifiedCheckpoint()
	gc, _ := st.CurrentJustifiedCheckpoint()
	gf, _ := st.FinalizedCheckpoint()
	gb, _ := st.JustificationBits()
	zzverif.Assert(gp == wantPrev, "previous_justified_checkpoint as the spec")
	zzverif.Assert(gc == wantCur, "current_justified_checkpoint as the spec")
	zzverif.Assert(gf == wantFin, "finalized_checkpoint as the spec")
	zzverif.Assert(gb[0] == wantBits, "justification_bits as the spec")
}

// VerifHarness_C02_effective_balance: the real ProcessEffectiveBalanceUpdates equals the spec's hysteresis rule.
func VerifHarness_C02_effective_balance() {
	spec := common.VTinySpec()
	raw := vNewRaw(spec, 2, 3)
	for i := range raw.Validators {
		k := zzverif.NondetU8()
		zzverif.Assume(k <= 32)
		raw.Validators[i].EffectiveBalance = common.Gwei(k) * spec.EFFECTIVE_BALANCE_INCREMENT
		b := zzverif.NondetU64()
		zzverif.Assume(b < 1<<40)
		raw.Balances[i] = common.Gwei(b)
	}
	st, _ := vStateToView(spec, raw)
	epc := vLightEpc(spec, raw, st)
	vals, _ := st.Validators()
	flats, _ := common.FlattenValidators(vals)
	zzverif.Reach("effective-balance")
	err := ProcessEffectiveBalanceUpdates(context.Background(), spec, epc, flats, st)
	zzverif.Assert(err == nil, "ProcessEffectiveBalanceUpdates succeeds")
	inc := uint64(spec.EFFECTIVE_BALANCE_INCREMENT)
	hyst := inc / uint64(spec.HYSTERESIS_QUOTIENT)
	down, up := hyst*uint64(spec.HYSTERESIS_DOWNWARD_MULTIPLIER), hyst*uint64(spec.HYSTERESIS_UPWARD_MULTIPLIER)
	for i := range raw.Validators {
		bal, eff := uint64(raw.Balances[i]), uint64(raw.Validators[i].EffectiveBalance)
		want := eff
		if bal+down < eff || eff+up < bal {
			want = bal - bal%inc
			if want > uint64(spec.MAX_EFFECTIVE_BALANCE) {
				want = uint64(spec.MAX_EFFECTIVE_BALANCE)
			}
		}
		vals2, _ := st.Validators() // a fresh handle: ztyp views are snapshots of the tree they were taken from
		v, _ := vals2.Validator(common.ValidatorIndex(i))
		got, _ := v.EffectiveBalance()
		zzverif.Assert(uint64(got) == want, "effective balance follows the spec's hysteresis rule")
	}
}

// VerifHarness_C02_process_slot: the real ProcessSlot caches the state root and block root exactly as the spec's process_slot.
func VerifHarness_C02_process_slot() {
	spec := common.VTinySpec()
	raw := vNewRaw(spec, 1, uint64(zzverif.Choose(3)))
	hdrFilled := zzverif.NondetBool()
	if !hdrFilled {
		raw.LatestBlockHeader.StateRoot = common.Root{}
	}
	st, _ := vStateToView(spec, raw)
	h := tree.GetHashFn()
	preRoot := st.HashTreeRoot(h)
	zzverif.Reach("process-slot")
	err := common.ProcessSlot(context.Background(), spec, st)
	zzverif.Assert(err == nil, "ProcessSlot succeeds")
	idx := uint64(raw.Slot) % uint64(spec.SLOTS_PER_HISTORICAL_ROOT)
	sr, _ := st.StateRoots()
	got, _ := sr.GetRoot(common.Slot(idx))
	zzverif.Assert(got == preRoot, "state_roots[slot % SLOTS_PER_HISTORICAL_ROOT] = hash_tree_root(pre state)")
	hdr, _ := st.LatestBlockHeader()
	wantHdr := raw.LatestBlockHeader
	if wantHdr.StateRoot == (common.Root{}) {
		wantHdr.StateRoot = preRoot
	}
	zzverif.Assert(*hdr == wantHdr, "latest_block_header.state_root is filled in exactly when it was empty")
	br, _ := st.BlockRoots()
	gotB, _ := br.GetRoot(common.Slot(idx))
	zzverif.Assert(gotB == wantHdr.HashTreeRoot(h), "block_roots[slot % SLOTS_PER_HISTORICAL_ROOT] = hash_tree_root(latest_block_header)")
	sl, _ := st.Slot()
	zzverif.Assert(sl == raw.Slot, "process_slot does not advance the slot")
}
