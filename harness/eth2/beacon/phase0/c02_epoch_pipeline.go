package phase0

import (
	"github.com/protolambda/zrnt/eth2/beacon/common"
	"github.com/protolambda/zrnt/eth2/zzverif"
	"github.com/protolambda/ztyp/tree"
)

// vPlSatSub: decrease_balance's saturating subtraction without forking.
func vPlSatSub(b, d uint64) uint64 { return zzverif.Ite(b < d, 0, b-d) }

// vPlEpAtt: what the scenario's pending attestations mean for one validator (previous epoch)
type vPlEpAtt struct {
	src, tgt, head bool
	delay, prop    uint64
}

// spec: get_attestation_deltas (phase0), summed over the five components, for concrete effective balances / flags.
func vPlRefAttestationDeltas(spec *common.Spec, effs []uint64, slashed, eligible []bool, atts []vPlEpAtt, total uint64, finalityDelay uint64) (rewards, penalties []uint64) {
	n := len(effs)
	rewards, penalties = make([]uint64, n), make([]uint64, n)
	incr := uint64(spec.EFFECTIVE_BALANCE_INCREMENT)
	sq := vRwIsqrt(total)
	stake := func(in func(a *vPlEpAtt) bool) uint64 { // get_total_balance(unslashed attesting indices)
		s := uint64(0)
		for i := 0; i < n; i++ {
			if in(&atts[i]) && !slashed[i] {
				s += effs[i]
			}
		}
		if s < incr {
			s = incr
		}
		return s
	}
	isSrc := func(a *vPlEpAtt) bool { return a.src }
	isTgt := func(a *vPlEpAtt) bool { return a.tgt }
	isHead := func(a *vPlEpAtt) bool { return a.head }
	leak := finalityDelay > uint64(spec.MIN_EPOCHS_TO_INACTIVITY_PENALTY)
	for i := 0; i < n; i++ {
		base := effs[i] * uint64(spec.BASE_REWARD_FACTOR) / sq / common.BASE_REWARDS_PER_EPOCH
		propRew := base / uint64(spec.PROPOSER_REWARD_QUOTIENT)
		for _, in := range []func(a *vPlEpAtt) bool{isSrc, isTgt, isHead} { // get_attestation_component_deltas
			if !eligible[i] {
				continue
			}
			if in(&atts[i]) && !slashed[i] {
				if leak {
					rewards[i] += base
				} else {
					rewards[i] += base * (stake(in) / incr) / (total / incr)
				}
			} else {
				penalties[i] += base
			}
		}
		if atts[i].src && !slashed[i] { // get_inclusion_delay_deltas
			rewards[atts[i].prop] += propRew
			rewards[i] += (base - propRew) / atts[i].delay
		}
		if leak && eligible[i] { // get_inactivity_penalty_deltas
			penalties[i] += common.BASE_REWARDS_PER_EPOCH*base - propRew
			if !(atts[i].tgt && !slashed[i]) {
				penalties[i] += effs[i] * finalityDelay / uint64(spec.INACTIVITY_PENALTY_QUOTIENT)
			}
		}
	}
	return
}

// VerifHarness_C02_phase0_epoch_pipeline: the real phase0 (*BeaconStateView).ProcessEpoch runs the spec's process_epoch
//
//	process_justification_and_finalization; process_rewards_and_penalties; process_registry_updates; process_slashings;
//	process_eth1_data_reset; process_effective_balance_updates; process_slashings_reset; process_randao_mixes_reset;
//	process_historical_roots_update; process_participation_record_updates
//
// in this order and on the data the order implies, on one state built so that exchanging adjacent steps changes the result:
//
//   - epoch 7 (slot 15), finalized epoch 0, previous/current justified epoch 5, justification bits 0b0010. The pending
//     attestations of epoch 6 carry the whole active stake on the right target, so this very transition justifies epoch 6
//     and finalizes epoch 5 (2nd finality rule). Rewards must see the NEW finalized checkpoint: finality delay 1, no
//     inactivity leak (with the old one the delay is 6 > MIN_EPOCHS_TO_INACTIVITY_PENALTY = 4: leak accounting);
//   - validator 3 waits for activation with eligibility epoch 3: it is dequeued only because registry updates see
//     finalized epoch 5 (not 0);
//   - validator 1 is active with effective balance 16 ETH = EJECTION_BALANCE and an arbitrary balance: registry updates
//     eject it on the OLD effective balance (the effective-balance update comes later and may raise it to 32 ETH);
//   - validator 2 is slashed, exited, withdrawable at epoch 9 = 7 + EPOCHS_PER_SLASHINGS_VECTOR/2: process_slashings takes
//     21 ETH (32 * min(32, 48) / 48 increments; slashings vector {24, 0, 0, 8} ETH summed BEFORE slashings_reset zeroes
//     entry (7+1) % 4 = 0) from the balance that rewards_and_penalties already reduced, and the effective-balance update
//     then works on the balances AFTER rewards and slashings (all four balances are symbolic, so every threshold of the
//     hysteresis rule is crossed for some value);
//   - next epoch 8 is the start of an eth1 voting period (votes reset) and of a historical batch (root appended);
//     randao mix 7 is copied to slot 0; the current epoch's pending attestation becomes the previous epoch's.
//
// The reference is a transcription of the ten spec steps for this state on the struct form (it calls no processing
// function of the repository; vRefRegistryUpdates is the transcription shared with VerifHarness_C02_registry_updates),
// applied in the spec's order; ProcessEpoch must succeed and every top-level field must be the transcription's (20 field
// roots; the registry leaf by leaf: all eight fields of every validator, and every balance - see vPlExpectFields).
// Second observation (Choose #1 > 0): a context that reports cancellation at its k-th poll. ProcessEpoch polls 13 times
// on this state (attester summary: once per pending list; then each sub-step first thing, rewards twice); ProcessEpoch
// must fail, poll no further, and exactly the sub-steps before that poll have taken effect (same per-field comparison
// against the first j steps of the transcription).
// Bounds/assumptions: tiny preset; 4 validators with concrete lifecycle and effective balances 32/16/32/32 ETH;
// symbolic balances < 2^40; hand-built committees (one validator per slot) and a vLightEpc context (total active stake
// 48 ETH); symbolic roots; SHA-256 uninterpreted.
// Shards: Choose #1 = 0 live, k = 1..13 cancel at poll k, 14 = cancel at a poll that is never made.
func VerifHarness_C02_phase0_epoch_pipeline() {
	failAt := zzverif.Choose(15) - 1
	spec := common.VTinySpec()
	const n = 4
	cur := common.Epoch(7)
	prev := cur - 1
	spe := uint64(spec.SLOTS_PER_EPOCH)
	shr := uint64(spec.SLOTS_PER_HISTORICAL_ROOT)
	h := tree.GetHashFn()
	raw := vRawState(spec, 0)
	raw.Slot = common.Slot(uint64(cur)*spe + spe - 1)
	raw.LatestBlockHeader.Slot = raw.Slot
	raw.Fork = common.Fork{PreviousVersion: spec.GENESIS_FORK_VERSION, CurrentVersion: spec.GENESIS_FORK_VERSION, Epoch: 0}
	for i := range raw.BlockRoots {
		raw.BlockRoots[i][5] = byte(i + 1) // pairwise distinct, and distinct from the non-matching roots below
	}
	effs := []uint64{32000000000, 16000000000, 32000000000, 32000000000}
	slashed := []bool{false, false, true, false}
	var bal [n]uint64
	for i := 0; i < n; i++ {
		v := &Validator{}
		v.Pubkey[0] = byte(i + 1)
		v.WithdrawalCredentials = vRoot1()
		v.EffectiveBalance = common.Gwei(effs[i])
		v.Slashed = slashed[i]
		v.ExitEpoch, v.WithdrawableEpoch = vFarFuture, vFarFuture
		switch i {
		case 2:
			v.ExitEpoch, v.WithdrawableEpoch = 5, 9
		case 3:
			v.ActivationEligibilityEpoch, v.ActivationEpoch = 3, vFarFuture
		}
		raw.Validators = append(raw.Validators, v)
		b := zzverif.NondetU64()
		zzverif.Assume(b < 1<<40)
		bal[i] = b
		raw.Balances = append(raw.Balances, common.Gwei(b))
	}
	raw.Eth1Data.DepositCount, raw.Eth1DepositIndex = n, n
	raw.Eth1DataVotes = Eth1DataVotes{vMiEth1Data()}
	raw.HistoricalRoots = HistoricalRoots{vRoot1()}
	raw.Slashings = SlashingsHistory{24000000000, 0, 0, 8000000000}
	oldJust := common.Checkpoint{Epoch: 5, Root: vRoot1()}
	raw.PreviousJustifiedCheckpoint, raw.CurrentJustifiedCheckpoint = oldJust, oldJust
	raw.FinalizedCheckpoint = common.Checkpoint{Epoch: 0, Root: vRoot1()}
	raw.JustificationBits = common.JustificationBits{0x02}
	// pending attestations: epoch 6: validator 0 (slot 12: right target and head, delay 1, included by proposer 1) and
	// validator 1 (slot 13: right target, wrong head, delay 2, included by proposer 0); epoch 7: validator 1 (slot 14)
	rootAt := func(slot uint64) common.Root { return raw.BlockRoots[slot%shr] }
	wrong := common.Root{5: 0xee}
	prevStart, curStart := uint64(prev)*spe, uint64(cur)*spe
	raw.PreviousEpochAttestations = PendingAttestations{
		{AggregationBits: AttestationBits{0x03}, Data: AttestationData{Slot: common.Slot(prevStart), BeaconBlockRoot: rootAt(prevStart), Source: oldJust, Target: common.Checkpoint{Epoch: prev, Root: rootAt(prevStart)}}, InclusionDelay: 1, ProposerIndex: 1},
		{AggregationBits: AttestationBits{0x03}, Data: AttestationData{Slot: common.Slot(prevStart + 1), BeaconBlockRoot: wrong, Source: oldJust, Target: common.Checkpoint{Epoch: prev, Root: rootAt(prevStart)}}, InclusionDelay: 2, ProposerIndex: 0},
	}
	raw.CurrentEpochAttestations = PendingAttestations{
		{AggregationBits: AttestationBits{0x03}, Data: AttestationData{Slot: common.Slot(curStart), BeaconBlockRoot: rootAt(curStart), Source: oldJust, Target: common.Checkpoint{Epoch: cur, Root: rootAt(curStart)}}, InclusionDelay: 1, ProposerIndex: 0},
	}
	atts := []vPlEpAtt{{src: true, tgt: true, head: true, delay: 1, prop: 1}, {src: true, tgt: true, head: false, delay: 2, prop: 0}, {}, {}}
	st, _ := vStateToView(spec, raw)
	epc := vLightEpc(spec, raw, st)
	epc.PreviousEpoch = &common.ShufflingEpoch{Epoch: prev, ActiveIndices: epc.CurrentEpoch.ActiveIndices, Committees: [][][]common.ValidatorIndex{{{0}}, {{1}}}}
	epc.CurrentEpoch.Committees = [][][]common.ValidatorIndex{{{1}}, {{0}}}
	epc.NextEpoch = &common.ShufflingEpoch{Epoch: cur + 1, ActiveIndices: epc.CurrentEpoch.ActiveIndices}
	total := effs[0] + effs[1] // get_total_active_balance: validators 0 and 1
	zzverif.Assert(uint64(epc.TotalActiveStake) == total && len(epc.CurrentEpoch.ActiveIndices) == 2, "scenario self-check: validators 0 and 1 are the active set")
	polls := 0
	ctx := vCtx{polls: &polls, failAt: failAt}

	zzverif.Reach("phase0-epoch-pipeline")
	err := st.ProcessEpoch(ctx, spec, epc)

	// how many sub-steps complete before the k-th poll (k = failAt+1) reports cancellation
	doneBeforePoll := []int{0, 0, 0, 1, 1, 2, 3, 4, 5, 6, 7, 8, 9}
	done := 10
	cancelled := failAt >= 0 && failAt < len(doneBeforePoll)
	if cancelled {
		done = doneBeforePoll[failAt]
	}
	zzverif.Assert((err != nil) == cancelled, "phase0 ProcessEpoch succeeds with a live context and fails when a poll reports cancellation")
	if cancelled {
		zzverif.Assert(polls == failAt+1, "no poll after the one that reported cancellation")
	} else {
		zzverif.Assert(polls == 13, "ProcessEpoch polls the context 13 times on this state")
	}

	// ---- spec: process_epoch on the struct form, the first `done` steps ----
	incr := uint64(spec.EFFECTIVE_BALANCE_INCREMENT)
	steps := []func(){
		func() { // process_justification_and_finalization (weigh_justification_and_finalization)
			prevTarget := effs[0] + effs[1] // unslashed attesters of epoch 6 with the right target: validators 0, 1
			curTarget := effs[1]            // epoch 7: validator 1
			oldPrev, oldCur := raw.PreviousJustifiedCheckpoint, raw.CurrentJustifiedCheckpoint
			raw.PreviousJustifiedCheckpoint = oldCur
			bits := (raw.JustificationBits[0] << 1) & 0x0f
			if prevTarget*3 >= total*2 {
				raw.CurrentJustifiedCheckpoint = common.Checkpoint{Epoch: prev, Root: rootAt(prevStart)}
				bits |= 2
			}
			if curTarget*3 >= total*2 {
				raw.CurrentJustifiedCheckpoint = common.Checkpoint{Epoch: cur, Root: rootAt(curStart)}
				bits |= 1
			}
			raw.JustificationBits = common.JustificationBits{bits}
			b := func(i uint) bool { return bits>>i&1 == 1 }
			if b(1) && b(2) && b(3) && oldPrev.Epoch+3 == cur {
				raw.FinalizedCheckpoint = oldPrev
			}
			if b(1) && b(2) && oldPrev.Epoch+2 == cur {
				raw.FinalizedCheckpoint = oldPrev
			}
			if b(0) && b(1) && b(2) && oldCur.Epoch+2 == cur {
				raw.FinalizedCheckpoint = oldCur
			}
			if b(0) && b(1) && oldCur.Epoch+1 == cur {
				raw.FinalizedCheckpoint = oldCur
			}
		},
		func() { // process_rewards_and_penalties
			eligible := make([]bool, n)
			for i, v := range raw.Validators {
				eligible[i] = vPlActive(v, prev) || (v.Slashed && prev+1 < v.WithdrawableEpoch)
			}
			rewards, penalties := vPlRefAttestationDeltas(spec, effs, slashed, eligible, atts, total, uint64(prev)-uint64(raw.FinalizedCheckpoint.Epoch))
			for i := 0; i < n; i++ {
				raw.Balances[i] = common.Gwei(vPlSatSub(uint64(raw.Balances[i])+rewards[i], penalties[i]))
			}
		},
		func() { // process_registry_updates
			var vs []vVal
			for _, v := range raw.Validators {
				vs = append(vs, vVal{v.ActivationEligibilityEpoch, v.ActivationEpoch, v.ExitEpoch, v.WithdrawableEpoch, v.EffectiveBalance})
			}
			vRefRegistryUpdates(spec, vs, cur, raw.FinalizedCheckpoint.Epoch)
			for i, v := range raw.Validators {
				v.ActivationEligibilityEpoch, v.ActivationEpoch, v.ExitEpoch, v.WithdrawableEpoch = vs[i].elig, vs[i].act, vs[i].exit, vs[i].wd
			}
		},
		func() { // process_slashings
			sum, totalNow := uint64(0), uint64(0)
			for _, s := range raw.Slashings {
				sum += uint64(s)
			}
			for _, v := range raw.Validators {
				if vPlActive(v, cur) {
					totalNow += uint64(v.EffectiveBalance)
				}
			}
			adjusted := sum * uint64(spec.PROPORTIONAL_SLASHING_MULTIPLIER)
			if adjusted > totalNow {
				adjusted = totalNow
			}
			for i, v := range raw.Validators {
				if v.Slashed && cur+spec.EPOCHS_PER_SLASHINGS_VECTOR/2 == v.WithdrawableEpoch {
					penalty := uint64(v.EffectiveBalance) / incr * adjusted / totalNow * incr
					raw.Balances[i] = common.Gwei(vPlSatSub(uint64(raw.Balances[i]), penalty))
				}
			}
		},
		func() { // process_eth1_data_reset
			if (cur+1)%spec.EPOCHS_PER_ETH1_VOTING_PERIOD == 0 {
				raw.Eth1DataVotes = nil
			}
		},
		func() { // process_effective_balance_updates
			hyst := incr / uint64(spec.HYSTERESIS_QUOTIENT)
			down, up := hyst*uint64(spec.HYSTERESIS_DOWNWARD_MULTIPLIER), hyst*uint64(spec.HYSTERESIS_UPWARD_MULTIPLIER)
			for i, v := range raw.Validators {
				b, eff := uint64(raw.Balances[i]), uint64(v.EffectiveBalance)
				capped := b - b%incr
				capped = zzverif.Ite(capped > uint64(spec.MAX_EFFECTIVE_BALANCE), uint64(spec.MAX_EFFECTIVE_BALANCE), capped)
				v.EffectiveBalance = common.Gwei(zzverif.Ite(b+down < eff || eff+up < b, capped, eff))
			}
		},
		func() { // process_slashings_reset
			raw.Slashings[uint64(cur+1)%uint64(spec.EPOCHS_PER_SLASHINGS_VECTOR)] = 0
		},
		func() { // process_randao_mixes_reset
			v := uint64(spec.EPOCHS_PER_HISTORICAL_VECTOR)
			raw.RandaoMixes[uint64(cur+1)%v] = raw.RandaoMixes[uint64(cur)%v]
		},
		func() { // process_historical_roots_update
			if uint64(cur+1)%(shr/spe) == 0 {
				batch := HistoricalBatch{BlockRoots: raw.BlockRoots, StateRoots: raw.StateRoots}
				raw.HistoricalRoots = append(raw.HistoricalRoots, batch.HashTreeRoot(spec, h))
			}
		},
		func() { // process_participation_record_updates
			raw.PreviousEpochAttestations = raw.CurrentEpochAttestations
			raw.CurrentEpochAttestations = nil
		},
	}
	for j := 0; j < done; j++ {
		steps[j]()
	}
	if done == 10 { // scenario self-checks: the order-sensitive facts the state was built for
		zzverif.Assert(raw.FinalizedCheckpoint.Epoch == 5 && raw.CurrentJustifiedCheckpoint.Epoch == 6, "scenario self-check: epoch 6 is justified and epoch 5 finalized by this transition")
		zzverif.Assert(raw.Validators[3].ActivationEpoch == cur+1+spec.MAX_SEED_LOOKAHEAD, "scenario self-check: validator 3 is activated on the new finalized epoch")
		zzverif.Assert(raw.Validators[1].ExitEpoch == cur+1+spec.MAX_SEED_LOOKAHEAD, "scenario self-check: validator 1 is ejected on its old effective balance")
	}
	vPlExpectFields(spec, st, raw, "phase0 process_epoch, the sub-steps before the failing poll")
}
