package phase0

import (
	"github.com/protolambda/zrnt/eth2/beacon/common"
	"github.com/protolambda/zrnt/eth2/zzverif"
	"github.com/protolambda/ztyp/tree"
)

// ---- exported for the fork-upgrade harnesses (C02 upgrade_to_altair/bellatrix/capella/deneb, C08 upgrade context) ----

// VUpRawState: the raw phase0 state with symbolic scalar leaves of the phase0 harnesses (vRawState); no pending
// attestations, no historical roots, no eth1 votes (the caller adds them).
func VUpRawState(spec *common.Spec, n int) *BeaconState { return vRawState(spec, n) }

// VUpStateToView: the real tree-backed phase0 state decoded from the raw state's encoding.
func VUpStateToView(spec *common.Spec, raw *BeaconState) *BeaconStateView {
	st, _ := vStateToView(spec, raw)
	return st
}

func VUpRoot1() common.Root { return vRoot1() }

// VUpBase: the fields every fork's state shares with phase0 (raw form): what an upgrade must carry over (or, for
// Fork, set as the spec says).
type VUpBase struct {
	GenesisTime                 common.Timestamp
	GenesisValidatorsRoot       common.Root
	Slot                        common.Slot
	Fork                        common.Fork
	LatestBlockHeader           common.BeaconBlockHeader
	BlockRoots                  HistoricalBatchRoots
	StateRoots                  HistoricalBatchRoots
	HistoricalRoots             HistoricalRoots
	Eth1Data                    common.Eth1Data
	Eth1DataVotes               Eth1DataVotes
	Eth1DepositIndex            common.DepositIndex
	Validators                  ValidatorRegistry
	Balances                    Balances
	RandaoMixes                 RandaoMixes
	Slashings                   SlashingsHistory
	JustificationBits           common.JustificationBits
	PreviousJustifiedCheckpoint common.Checkpoint
	CurrentJustifiedCheckpoint  common.Checkpoint
	FinalizedCheckpoint         common.Checkpoint
}

// VUpBaseOfPhase0: the shared fields of a raw phase0 state.
func VUpBaseOfPhase0(raw *BeaconState) *VUpBase {
	return &VUpBase{
		GenesisTime: raw.GenesisTime, GenesisValidatorsRoot: raw.GenesisValidatorsRoot, Slot: raw.Slot, Fork: raw.Fork,
		LatestBlockHeader: raw.LatestBlockHeader, BlockRoots: raw.BlockRoots, StateRoots: raw.StateRoots,
		HistoricalRoots: raw.HistoricalRoots, Eth1Data: raw.Eth1Data, Eth1DataVotes: raw.Eth1DataVotes,
		Eth1DepositIndex: raw.Eth1DepositIndex, Validators: raw.Validators, Balances: raw.Balances,
		RandaoMixes: raw.RandaoMixes, Slashings: raw.Slashings, JustificationBits: raw.JustificationBits,
		PreviousJustifiedCheckpoint: raw.PreviousJustifiedCheckpoint, CurrentJustifiedCheckpoint: raw.CurrentJustifiedCheckpoint,
		FinalizedCheckpoint: raw.FinalizedCheckpoint,
	}
}

type vUpHTR interface {
	HashTreeRoot(h tree.HashFn) common.Root
}

// VUpCheckBase: every phase0-era field of the (post-upgrade) state, read through the state's own getters, is what
// `exp` says: scalars and containers by value, vectors element by element, lists by length/elements and by the root
// of the sub-view against the root of the raw list.
func VUpCheckBase(spec *common.Spec, st common.BeaconState, exp *VUpBase) {
	h := tree.GetHashFn()
	gt, e1 := st.GenesisTime()
	gvr, e2 := st.GenesisValidatorsRoot()
	sl, e3 := st.Slot()
	zzverif.Assert(e1 == nil && gt == exp.GenesisTime, "upgrade: genesis_time carried over")
	zzverif.Assert(e2 == nil && gvr == exp.GenesisValidatorsRoot, "upgrade: genesis_validators_root carried over")
	zzverif.Assert(e3 == nil && sl == exp.Slot, "upgrade: slot carried over")
	fk, e4 := st.Fork()
	zzverif.Assert(e4 == nil && fk.PreviousVersion == exp.Fork.PreviousVersion, "upgrade: fork.previous_version = pre.fork.current_version")
	zzverif.Assert(e4 == nil && fk.CurrentVersion == exp.Fork.CurrentVersion, "upgrade: fork.current_version = the new fork's version")
	zzverif.Assert(e4 == nil && fk.Epoch == exp.Fork.Epoch, "upgrade: fork.epoch = current epoch")
	lbh, e5 := st.LatestBlockHeader()
	zzverif.Assert(e5 == nil && lbh != nil && *lbh == exp.LatestBlockHeader, "upgrade: latest_block_header carried over")
	br, e6 := st.BlockRoots()
	sr, e7 := st.StateRoots()
	zzverif.Assert(e6 == nil && e7 == nil, "upgrade: block_roots/state_roots readable")
	for i := range exp.BlockRoots {
		b, e1 := br.GetRoot(common.Slot(i))
		s, e2 := sr.GetRoot(common.Slot(i))
		zzverif.Assert(e1 == nil && b == exp.BlockRoots[i], "upgrade: block_roots carried over (not swapped with state_roots)")
		zzverif.Assert(e2 == nil && s == exp.StateRoots[i], "upgrade: state_roots carried over (not swapped with block_roots)")
	}
	zzverif.Assert(br.HashTreeRoot(h) == exp.BlockRoots.HashTreeRoot(spec, h) && sr.HashTreeRoot(h) == exp.StateRoots.HashTreeRoot(spec, h), "upgrade: block_roots/state_roots vectors as a whole")
	hr, e8 := st.HistoricalRoots()
	zzverif.Assert(e8 == nil && hr.(vUpHTR).HashTreeRoot(h) == exp.HistoricalRoots.HashTreeRoot(spec, h), "upgrade: historical_roots carried over")
	ed, e9 := st.Eth1Data()
	zzverif.Assert(e9 == nil && ed == exp.Eth1Data, "upgrade: eth1_data carried over")
	votes, e10 := st.Eth1DataVotes()
	zzverif.Assert(e10 == nil && votes.(vUpHTR).HashTreeRoot(h) == exp.Eth1DataVotes.HashTreeRoot(spec, h), "upgrade: eth1_data_votes carried over")
	vl, e11 := votes.Length()
	zzverif.Assert(e11 == nil && vl == uint64(len(exp.Eth1DataVotes)), "upgrade: eth1_data_votes length")
	di, e12 := st.Eth1DepositIndex()
	zzverif.Assert(e12 == nil && di == exp.Eth1DepositIndex, "upgrade: eth1_deposit_index carried over")
	vals, e13 := st.Validators()
	zzverif.Assert(e13 == nil, "upgrade: validators readable")
	vc, e14 := vals.ValidatorCount()
	zzverif.Assert(e14 == nil && vc == uint64(len(exp.Validators)), "upgrade: validator count carried over")
	for i, w := range exp.Validators {
		v, e := vals.Validator(common.ValidatorIndex(i))
		zzverif.Assert(e == nil, "upgrade: validator readable")
		if e != nil {
			continue
		}
		pk, _ := v.Pubkey()
		wc, _ := v.WithdrawalCredentials()
		eb, _ := v.EffectiveBalance()
		s, _ := v.Slashed()
		ae, _ := v.ActivationEligibilityEpoch()
		a, _ := v.ActivationEpoch()
		x, _ := v.ExitEpoch()
		wd, _ := v.WithdrawableEpoch()
		zzverif.Assert(pk == w.Pubkey && wc == w.WithdrawalCredentials && eb == w.EffectiveBalance && s == w.Slashed, "upgrade: validator identity/balance/slashed carried over")
		zzverif.Assert(ae == w.ActivationEligibilityEpoch && a == w.ActivationEpoch && x == w.ExitEpoch && wd == w.WithdrawableEpoch, "upgrade: validator lifecycle epochs carried over")
	}
	zzverif.Assert(vals.HashTreeRoot(h) == exp.Validators.HashTreeRoot(spec, h), "upgrade: validators registry as a whole")
	bals, e15 := st.Balances()
	zzverif.Assert(e15 == nil, "upgrade: balances readable")
	bl, e16 := bals.Length()
	zzverif.Assert(e16 == nil && bl == uint64(len(exp.Balances)), "upgrade: balances length carried over")
	for i := range exp.Balances {
		b, e := bals.GetBalance(common.ValidatorIndex(i))
		zzverif.Assert(e == nil && b == exp.Balances[i], "upgrade: balances carried over")
	}
	mixes, e17 := st.RandaoMixes()
	zzverif.Assert(e17 == nil, "upgrade: randao_mixes readable")
	for i := range exp.RandaoMixes {
		m, e := mixes.GetRandomMix(common.Epoch(i))
		zzverif.Assert(e == nil && m == exp.RandaoMixes[i], "upgrade: randao_mixes carried over")
	}
	sls, e18 := st.Slashings()
	zzverif.Assert(e18 == nil, "upgrade: slashings readable")
	for i := range exp.Slashings {
		x, e := sls.GetSlashingsValue(common.Epoch(i))
		zzverif.Assert(e == nil && x == exp.Slashings[i], "upgrade: slashings carried over")
	}
	jb, e19 := st.JustificationBits()
	pj, e20 := st.PreviousJustifiedCheckpoint()
	cj, e21 := st.CurrentJustifiedCheckpoint()
	fc, e22 := st.FinalizedCheckpoint()
	zzverif.Assert(e19 == nil && jb == exp.JustificationBits, "upgrade: justification_bits carried over")
	zzverif.Assert(e20 == nil && pj == exp.PreviousJustifiedCheckpoint, "upgrade: previous_justified_checkpoint carried over")
	zzverif.Assert(e21 == nil && cj == exp.CurrentJustifiedCheckpoint, "upgrade: current_justified_checkpoint carried over")
	zzverif.Assert(e22 == nil && fc == exp.FinalizedCheckpoint, "upgrade: finalized_checkpoint carried over")
}
