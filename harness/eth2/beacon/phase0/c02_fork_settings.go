package phase0

import (
	"context"

	"github.com/protolambda/zrnt/eth2/beacon/common"
	"github.com/protolambda/zrnt/eth2/zzverif"
	"github.com/protolambda/ztyp/tree"
	. "github.com/protolambda/ztyp/view"
)

// VA2ForkConsts: the constants of slash_validator / process_slashings that differ between forks, as the consensus spec
// of that fork names them.
type VA2ForkConsts struct {
	MinSlashingPenaltyQuotient     uint64 // MIN_SLASHING_PENALTY_QUOTIENT / _ALTAIR / _BELLATRIX
	ProportionalSlashingMultiplier uint64 // PROPORTIONAL_SLASHING_MULTIPLIER / _ALTAIR / _BELLATRIX
	// false (phase0): proposer_reward = whistleblower_reward // PROPOSER_REWARD_QUOTIENT;
	// true (altair and later): proposer_reward = whistleblower_reward * PROPOSER_WEIGHT // WEIGHT_DENOMINATOR
	AltairProposerShare bool
}

// VA2ForkSpec: the tiny preset with PROPOSER_REWARD_QUOTIENT = 4, so that the phase0 proposer share (1/4) differs from
// the altair one (PROPOSER_WEIGHT / WEIGHT_DENOMINATOR = 8/64); with it the three MIN_SLASHING_PENALTY_QUOTIENTs
// (128/64/32), the three PROPORTIONAL_SLASHING_MULTIPLIERs (1/2/3) and the two proposer shares are pairwise distinct.
func VA2ForkSpec() *common.Spec {
	spec := common.VTinySpec()
	spec.PROPOSER_REWARD_QUOTIENT = 4
	return spec
}

// VA2ForkWorldT: the phase0-era content (struct form) of a state on which either slash_validator (kind 0) or
// process_slashings (kind 1) is run, with the choices made.
//
//	kind 0: epoch 4, second slot (slot 9); 3 validators, all active and not exiting, effective balances 32/17/24 ETH,
//	        not slashed; symbolic balances < 2^40 and slashings vector entries < 2^40; `target` (chosen) is slashed,
//	        whistleblower chosen from {none given, validator 0, validator 2}; validator 1 proposes slot 9, validator 2 slot 8.
//	kind 1: epoch 6, last slot; 3 validators with effective balances 8/24/32 ETH, the third active or (chosen) exited
//	        at epoch 4 (total active balance 64 or 32 ETH); symbolic slashed flags, withdrawable epochs 6..10 (on
//	        either side of epoch + EPOCHS_PER_SLASHINGS_VECTOR/2 = 8), slashings entries < 2^38, balances < 2^40.
type VA2ForkWorldT struct {
	Spec     *common.Spec
	Raw      *BeaconState
	kind     int
	cur      common.Epoch
	target   int
	whistle  int // -1: none given
	prop     int
	v2active bool
}

// Shards: Choose #1 = kind (2); kind 0: #2 = slashed validator (3), #3 = whistleblower (3); kind 1: #2 = third validator active (2).
func VA2ForkWorld(spec *common.Spec) *VA2ForkWorldT {
	const n = 3
	w := &VA2ForkWorldT{Spec: spec, kind: zzverif.Choose(2), prop: 1, whistle: -1}
	raw := vRawState(spec, 0)
	raw.Fork = common.Fork{PreviousVersion: spec.GENESIS_FORK_VERSION, CurrentVersion: spec.GENESIS_FORK_VERSION, Epoch: 0}
	raw.Eth1Data.DepositCount = n
	raw.Eth1DepositIndex = n
	raw.JustificationBits = common.JustificationBits{0}
	raw.PreviousJustifiedCheckpoint.Epoch, raw.CurrentJustifiedCheckpoint.Epoch, raw.FinalizedCheckpoint.Epoch = 2, 3, 2
	spe := uint64(spec.SLOTS_PER_EPOCH)
	var effs [n]common.Gwei
	if w.kind == 0 {
		w.cur = 4
		raw.Slot = common.Slot(uint64(w.cur)*spe + 1)
		w.target = zzverif.Choose(n)
		w.whistle = []int{-1, 0, 2}[zzverif.Choose(3)]
		effs = [n]common.Gwei{32000000000, 17000000000, 24000000000}
	} else {
		w.cur = 6
		raw.Slot = common.Slot(uint64(w.cur)*spe + spe - 1)
		w.v2active = zzverif.Choose(2) == 0
		effs = [n]common.Gwei{8000000000, 24000000000, 32000000000}
	}
	raw.LatestBlockHeader.Slot = raw.Slot.Previous()
	for i := 0; i < n; i++ {
		v := &Validator{}
		v.Pubkey[0] = byte(i + 1)
		v.WithdrawalCredentials[0] = byte(i + 1)
		v.EffectiveBalance = effs[i]
		v.ExitEpoch, v.WithdrawableEpoch = vFarFuture, vFarFuture
		if w.kind == 1 {
			if i == 2 && !w.v2active {
				v.ExitEpoch = 4
			}
			v.Slashed = zzverif.NondetBool()
			wd := zzverif.NondetU8()
			zzverif.Assume(wd >= 6 && wd <= 10)
			v.WithdrawableEpoch = common.Epoch(wd)
		}
		b := zzverif.NondetU64()
		zzverif.Assume(b < 1<<40)
		raw.Validators = append(raw.Validators, v)
		raw.Balances = append(raw.Balances, common.Gwei(b))
	}
	for i := range raw.Slashings {
		s := zzverif.NondetU64()
		if w.kind == 0 {
			zzverif.Assume(s < 1<<40)
		} else {
			zzverif.Assume(s < 1<<38)
		}
		raw.Slashings[i] = common.Gwei(s)
	}
	w.Raw = raw
	return w
}

func (w *VA2ForkWorldT) Base() *VUpBase { return VUpBaseOfPhase0(w.Raw) }

func vA2FieldRoots(cv *ContainerView) []common.Root {
	h := tree.GetHashFn()
	var out []common.Root
	for i := range cv.Fields {
		v, err := cv.Get(uint64(i))
		zzverif.Assert(err == nil, "state field view")
		out = append(out, v.HashTreeRoot(h))
	}
	return out
}

// Check: runs the real phase0.SlashValidator (kind 0) resp. phase0.ProcessEpochSlashings (kind 1) - the code every fork's
// pipeline calls - on `st`, a state view of some fork (container `cv`) holding the world's content, with an epochs
// context assembled by hand (current epoch, active set, proposers), and compares with the spec's slash_validator resp.
// process_slashings evaluated with the constants `c` of that fork.
func (w *VA2ForkWorldT) Check(st common.BeaconState, cv *ContainerView, c VA2ForkConsts) {
	spec, raw := w.Spec, w.Raw
	n := len(raw.Validators)
	cur := w.cur
	sh := &common.ShufflingEpoch{Epoch: cur}
	total := uint64(0)
	var effs []common.Gwei
	for i, v := range raw.Validators {
		effs = append(effs, v.EffectiveBalance)
		if v.ActivationEpoch <= cur && cur < v.ExitEpoch {
			sh.ActiveIndices = append(sh.ActiveIndices, common.ValidatorIndex(i))
			total += uint64(v.EffectiveBalance)
		}
	}
	epc := &common.EpochsContext{Spec: spec, CurrentEpoch: sh, EffectiveBalances: effs, TotalActiveStake: common.Gwei(total)}
	props := make([]common.ValidatorIndex, spec.SLOTS_PER_EPOCH)
	for i := range props {
		props[i] = 2
	}
	props[uint64(raw.Slot)%uint64(spec.SLOTS_PER_EPOCH)] = common.ValidatorIndex(w.prop)
	epc.Proposers = &common.ProposersEpoch{Spec: spec, Epoch: cur, Proposers: props}
	preFields := vA2FieldRoots(cv)
	wantBal := make([]uint64, n)
	for i := range wantBal {
		wantBal[i] = uint64(raw.Balances[i])
	}
	inc := uint64(spec.EFFECTIVE_BALANCE_INCREMENT)

	if w.kind == 0 {
		var wb *common.ValidatorIndex
		if w.whistle >= 0 {
			x := common.ValidatorIndex(w.whistle)
			wb = &x
		}
		zzverif.Reach("fork-quotients slash")
		err := SlashValidator(spec, epc, st, common.ValidatorIndex(w.target), wb)
		zzverif.Assert(err == nil, "SlashValidator succeeds")
		// ---- spec: slash_validator(state, slashed_index, whistleblower_index) ----
		t := w.target
		eff := uint64(raw.Validators[t].EffectiveBalance)
		// initiate_validator_exit: nobody is exiting: exit_queue_epoch = compute_activation_exit_epoch(epoch), churn 0
		exitEpoch := cur + 1 + spec.MAX_SEED_LOOKAHEAD
		wdEpoch := exitEpoch + spec.MIN_VALIDATOR_WITHDRAWABILITY_DELAY
		if cur+spec.EPOCHS_PER_SLASHINGS_VECTOR > wdEpoch {
			wdEpoch = cur + spec.EPOCHS_PER_SLASHINGS_VECTOR
		}
		sidx := uint64(cur) % uint64(spec.EPOCHS_PER_SLASHINGS_VECTOR)
		wantSlashings := uint64(raw.Slashings[sidx]) + eff
		penalty := eff / c.MinSlashingPenaltyQuotient
		if wantBal[t] >= penalty {
			wantBal[t] -= penalty
		} else {
			wantBal[t] = 0
		}
		whistleblower := w.prop
		if w.whistle >= 0 {
			whistleblower = w.whistle
		}
		whistleblowerReward := eff / uint64(spec.WHISTLEBLOWER_REWARD_QUOTIENT)
		var proposerReward uint64
		if c.AltairProposerShare {
			proposerReward = whistleblowerReward * 8 / 64 // PROPOSER_WEIGHT, WEIGHT_DENOMINATOR
		} else {
			proposerReward = whistleblowerReward / uint64(spec.PROPOSER_REWARD_QUOTIENT)
		}
		wantBal[w.prop] += proposerReward
		wantBal[whistleblower] += whistleblowerReward - proposerReward
		// ---- compare ----
		vals, _ := st.Validators()
		for i := 0; i < n; i++ {
			v, e := vals.Validator(common.ValidatorIndex(i))
			zzverif.Assert(e == nil, "validator readable")
			sl, _ := v.Slashed()
			ex, _ := v.ExitEpoch()
			wd, _ := v.WithdrawableEpoch()
			if i == t {
				zzverif.Assert(sl && ex == exitEpoch && wd == wdEpoch, "the slashed validator: slashed, exit queued, withdrawable_epoch = max(., epoch + EPOCHS_PER_SLASHINGS_VECTOR)")
			} else {
				zzverif.Assert(!sl && ex == vFarFuture && wd == vFarFuture, "the other validators' records are untouched")
			}
		}
		sls, _ := st.Slashings()
		for e := uint64(0); e < uint64(spec.EPOCHS_PER_SLASHINGS_VECTOR); e++ {
			got, er := sls.GetSlashingsValue(common.Epoch(e))
			want := uint64(raw.Slashings[e])
			if e == sidx {
				want = wantSlashings
			}
			zzverif.Assert(er == nil && uint64(got) == want, "slashings[epoch % EPOCHS_PER_SLASHINGS_VECTOR] += effective_balance, other entries untouched")
		}
		bals, _ := st.Balances()
		for i := 0; i < n; i++ {
			got, e := bals.GetBalance(common.ValidatorIndex(i))
			zzverif.Assert(e == nil && uint64(got) == wantBal[i], "balances after slash_validator: penalty effective_balance // MIN_SLASHING_PENALTY_QUOTIENT of the fork, proposer share of the fork, whistleblower rest")
		}
		post := vA2FieldRoots(cv)
		for i := range preFields {
			if i != _stateValidators && i != _stateBalances && i != _stateSlashings {
				zzverif.Assert(post[i] == preFields[i], "slash_validator changes no field other than validators, balances, slashings")
			}
		}
		return
	}

	vals, _ := st.Validators()
	flats, err := common.FlattenValidators(vals)
	zzverif.Assert(err == nil, "FlattenValidators")
	zzverif.Reach("fork-quotients slashings")
	err = ProcessEpochSlashings(context.Background(), spec, epc, flats, st)
	zzverif.Assert(err == nil, "ProcessEpochSlashings succeeds")
	// ---- spec: process_slashings ----
	if total < inc {
		total = inc
	}
	sum := uint64(0)
	for _, s := range raw.Slashings {
		sum += uint64(s)
	}
	adjusted := sum * c.ProportionalSlashingMultiplier
	if adjusted > total {
		adjusted = total
	}
	bals, _ := st.Balances()
	for i := 0; i < n; i++ {
		v := raw.Validators[i]
		if v.Slashed && cur+spec.EPOCHS_PER_SLASHINGS_VECTOR/2 == v.WithdrawableEpoch {
			penalty := uint64(v.EffectiveBalance) / inc * adjusted / total * inc
			if wantBal[i] >= penalty {
				wantBal[i] -= penalty
			} else {
				wantBal[i] = 0
			}
		}
		got, e := bals.GetBalance(common.ValidatorIndex(i))
		zzverif.Assert(e == nil && uint64(got) == wantBal[i], "balances after process_slashings: min(sum(slashings) * PROPORTIONAL_SLASHING_MULTIPLIER of the fork, total_balance)")
	}
	post := vA2FieldRoots(cv)
	for i := range preFields {
		if i != _stateBalances {
			zzverif.Assert(post[i] == preFields[i], "process_slashings changes no field other than balances")
		}
	}
}

// VerifHarness_C02_fork_quotients (phase0 state): SlashValidator and ProcessEpochSlashings on a phase0 state use the phase0
// constants: penalty effective_balance // MIN_SLASHING_PENALTY_QUOTIENT (128), proposer_reward = whistleblower_reward //
// PROPOSER_REWARD_QUOTIENT (4 here), PROPORTIONAL_SLASHING_MULTIPLIER (1); everything else as the spec's slash_validator /
// process_slashings (see VA2ForkWorldT for the bounds, VA2ForkSpec for the preset).
// Shards: Choose #1 = kind (2); kind 0: #2 = slashed validator (3), #3 = whistleblower (3); kind 1: #2 = third validator active (2).
func VerifHarness_C02_fork_quotients() {
	spec := VA2ForkSpec()
	w := VA2ForkWorld(spec)
	st, _ := vStateToView(spec, w.Raw)
	w.Check(st, st.ContainerView, VA2ForkConsts{
		MinSlashingPenaltyQuotient:     uint64(spec.MIN_SLASHING_PENALTY_QUOTIENT),
		ProportionalSlashingMultiplier: uint64(spec.PROPORTIONAL_SLASHING_MULTIPLIER),
		AltairProposerShare:            false,
	})
}
