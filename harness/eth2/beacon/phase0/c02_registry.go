package phase0

import (
	"context"

	"github.com/protolambda/zrnt/eth2/beacon/common"
	"github.com/protolambda/zrnt/eth2/zzverif"
)

// vLightEpc: an epochs context holding exactly what the per-operation code reads (current epoch, active set, pubkey
// cache, effective balances, total stake), computed by the harness from the raw state. Its agreement with
// NewEpochsContext is the subject of C08; shuffling/proposers are left out unless a harness fills them in.
func vLightEpc(spec *common.Spec, raw *BeaconState, st *BeaconStateView) *common.EpochsContext {
	cur := spec.SlotToEpoch(raw.Slot)
	vals, _ := st.Validators()
	pc, err := common.NewPubkeyCache(vals)
	zzverif.Assert(err == nil, "NewPubkeyCache")
	epc := &common.EpochsContext{Spec: spec, ValidatorPubkeyCache: pc}
	sh := &common.ShufflingEpoch{Epoch: cur}
	total := common.Gwei(0)
	for i, v := range raw.Validators {
		epc.EffectiveBalances = append(epc.EffectiveBalances, v.EffectiveBalance)
		if v.ActivationEpoch <= cur && cur < v.ExitEpoch {
			sh.ActiveIndices = append(sh.ActiveIndices, common.ValidatorIndex(i))
			total += v.EffectiveBalance
		}
	}
	if total < spec.EFFECTIVE_BALANCE_INCREMENT {
		total = spec.EFFECTIVE_BALANCE_INCREMENT
	}
	epc.CurrentEpoch = sh
	epc.TotalActiveStake = total
	return epc
}

// small symbolic domains for validator lifecycle fields, relative to the current epoch
func vEpochChoice(cur uint64, far bool) common.Epoch {
	k := zzverif.NondetU8()
	zzverif.Assume(k < 6)
	if far && k == 5 {
		return vFarFuture
	}
	return common.Epoch(cur + uint64(k) - 2) // cur-2 .. cur+2 (cur >= 2)
}

type vVal struct {
	elig, act, exit, wd common.Epoch
	eff                 common.Gwei
}

func vRefChurnLimit(spec *common.Spec, vs []vVal, cur common.Epoch) uint64 {
	active := uint64(0)
	for _, v := range vs {
		if v.act <= cur && cur < v.exit {
			active++
		}
	}
	c := active / uint64(spec.CHURN_LIMIT_QUOTIENT)
	if c < uint64(spec.MIN_PER_EPOCH_CHURN_LIMIT) {
		c = uint64(spec.MIN_PER_EPOCH_CHURN_LIMIT)
	}
	return c
}

// spec: initiate_validator_exit
func vRefInitiateExit(spec *common.Spec, vs []vVal, i int, cur common.Epoch) {
	if vs[i].exit != vFarFuture {
		return
	}
	q := cur + 1 + spec.MAX_SEED_LOOKAHEAD
	for _, v := range vs {
		if v.exit != vFarFuture && v.exit > q {
			q = v.exit
		}
	}
	churn := uint64(0)
	for _, v := range vs {
		if v.exit == q {
			churn++
		}
	}
	if churn >= vRefChurnLimit(spec, vs, cur) {
		q++
	}
	vs[i].exit = q
	vs[i].wd = q + spec.MIN_VALIDATOR_WITHDRAWABILITY_DELAY
}

// spec: process_registry_updates (phase0)
func vRefRegistryUpdates(spec *common.Spec, vs []vVal, cur common.Epoch, finalized common.Epoch) {
	pre := append([]vVal(nil), vs...)
	for i := range vs {
		if vs[i].elig == vFarFuture && vs[i].eff == spec.MAX_EFFECTIVE_BALANCE {
			vs[i].elig = cur + 1
		}
		if vs[i].act <= cur && cur < vs[i].exit && vs[i].eff <= spec.EJECTION_BALANCE {
			vRefInitiateExit(spec, vs, i, cur)
		}
	}
	// activation queue: eligible validators ordered by (eligibility epoch, index)
	var queue []int
	for i := range vs {
		if pre[i].elig <= finalized && pre[i].act == vFarFuture {
			queue = append(queue, i)
		}
	}
	for a := 1; a < len(queue); a++ {
		for b := a; b > 0 && pre[queue[b]].elig < pre[queue[b-1]].elig; b-- {
			queue[b], queue[b-1] = queue[b-1], queue[b]
		}
	}
	limit := vRefChurnLimit(spec, pre, cur)
	for k, i := range queue {
		if uint64(k) >= limit {
			break
		}
		vs[i].act = cur + 1 + spec.MAX_SEED_LOOKAHEAD
	}
}

func vLifecycleState(spec *common.Spec, n int, cur uint64) (*BeaconState, []vVal) {
	raw := vNewRaw(spec, n, cur)
	var vs []vVal
	for i := 0; i < n; i++ {
		v := raw.Validators[i]
		v.ActivationEligibilityEpoch = vEpochChoice(cur, true)
		v.ActivationEpoch = vEpochChoice(cur, true)
		v.ExitEpoch = common.Epoch(cur + 2 + uint64(zzverif.NondetU8()))
		var ek uint8
		if i == 0 {
			ek = uint8(zzverif.Choose(5)) // concrete for the first validator: lets the job be sharded
		} else {
			ek = zzverif.NondetU8()
			zzverif.Assume(ek < 5)
		}
		if ek == 4 {
			v.ExitEpoch = vFarFuture
		} else {
			v.ExitEpoch = common.Epoch(cur + 1 + uint64(spec.MAX_SEED_LOOKAHEAD) + uint64(ek)) // queued exits start at the activation-exit epoch
		}
		v.WithdrawableEpoch = vFarFuture
		if v.ExitEpoch != vFarFuture {
			v.WithdrawableEpoch = v.ExitEpoch + spec.MIN_VALIDATOR_WITHDRAWABILITY_DELAY
		}
		bk := zzverif.NondetU8()
		zzverif.Assume(bk < 3)
		v.EffectiveBalance = []common.Gwei{spec.MAX_EFFECTIVE_BALANCE, spec.EJECTION_BALANCE, 20000000000}[bk]
		// lifecycle order of reachable states
		zzverif.Assume(v.ActivationEpoch == vFarFuture || v.ActivationEligibilityEpoch <= v.ActivationEpoch)
		zzverif.Assume(v.ActivationEpoch != vFarFuture || v.ExitEpoch == vFarFuture)
		vs = append(vs, vVal{v.ActivationEligibilityEpoch, v.ActivationEpoch, v.ExitEpoch, v.WithdrawableEpoch, v.EffectiveBalance})
	}
	return raw, vs
}

func vCompareVals(st *BeaconStateView, vs []vVal, what string) {
	vals, _ := st.Validators()
	for i := range vs {
		v, _ := vals.Validator(common.ValidatorIndex(i))
		el, _ := v.ActivationEligibilityEpoch()
		ac, _ := v.ActivationEpoch()
		ex, _ := v.ExitEpoch()
		wd, _ := v.WithdrawableEpoch()
		zzverif.Assert(el == vs[i].elig, what+": activation_eligibility_epoch as the spec")
		zzverif.Assert(ac == vs[i].act, what+": activation_epoch as the spec")
		zzverif.Assert(ex == vs[i].exit, what+": exit_epoch as the spec (exit queue and churn)")
		zzverif.Assert(wd == vs[i].wd, what+": withdrawable_epoch as the spec")
	}
}

// VerifHarness_C02_registry_updates: the real ProcessEpochRegistryUpdates (ejections through the exit queue with
// churn, activation eligibility, activation queue) equals the spec's process_registry_updates for every combination
// of lifecycle fields of n validators drawn from small domains around the current epoch.
func VerifHarness_C02_registry_updates() {
	spec := common.VTinySpec()
	n := zzverif.Param("validators", 3)
	cur := uint64(4)
	raw, vs := vLifecycleState(spec, n, cur)
	fin := zzverif.NondetU8()
	zzverif.Assume(uint64(fin) <= cur)
	raw.FinalizedCheckpoint.Epoch = common.Epoch(fin)
	st, _ := vStateToView(spec, raw)
	epc := vLightEpc(spec, raw, st)
	vals, _ := st.Validators()
	flats, err := common.FlattenValidators(vals)
	zzverif.Assert(err == nil, "FlattenValidators")
	zzverif.Reach("registry")
	err = ProcessEpochRegistryUpdates(context.Background(), spec, epc, flats, st)
	zzverif.Assert(err == nil, "ProcessEpochRegistryUpdates succeeds")
	vRefRegistryUpdates(spec, vs, common.Epoch(cur), common.Epoch(fin))
	vCompareVals(st, vs, "registry updates")
}

// VerifHarness_C01_initiate_exit: the real InitiateValidatorExit equals the spec's initiate_validator_exit.
func VerifHarness_C01_initiate_exit() {
	spec := common.VTinySpec()
	n := zzverif.Param("validators", 3)
	cur := uint64(4)
	raw, vs := vLifecycleState(spec, n, cur)
	st, _ := vStateToView(spec, raw)
	epc := vLightEpc(spec, raw, st)
	i := zzverif.Choose(n)
	zzverif.Reach("initiate-exit")
	err := InitiateValidatorExit(spec, epc, st, common.ValidatorIndex(i))
	zzverif.Assert(err == nil, "InitiateValidatorExit succeeds")
	vRefInitiateExit(spec, vs, i, common.Epoch(cur))
	vCompareVals(st, vs, "initiate exit")
}
