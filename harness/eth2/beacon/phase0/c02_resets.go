package phase0

import (
	"context"

	"github.com/protolambda/zrnt/eth2/beacon/common"
	"github.com/protolambda/zrnt/eth2/zzverif"
	"github.com/protolambda/ztyp/tree"
)

// VerifHarness_C02_resets: the end-of-epoch bookkeeping of phase0 (eth1 data votes reset, slashings reset, randao mix
// carry-over, historical roots accumulator, rotation of the pending attestation lists) applied by the real functions
// to the real state yields exactly the state the spec's process_eth1_data_reset / process_slashings_reset /
// process_randao_mixes_reset / process_historical_roots_update / process_participation_record_updates define
// (whole-state root against the struct form of the expected state), for every epoch position inside the accumulators' periods.
func VerifHarness_C02_resets() {
	spec := common.VTinySpec()
	cur := uint64(2 + zzverif.Choose(6))
	raw := vNewRaw(spec, 1, cur)
	nv := zzverif.Choose(3)
	for i := 0; i < nv; i++ {
		raw.Eth1DataVotes = append(raw.Eth1DataVotes, common.Eth1Data{DepositRoot: vRoot1(), DepositCount: common.DepositIndex(zzverif.NondetU64()), BlockHash: vRoot1()})
	}
	pa := func() *PendingAttestation {
		return &PendingAttestation{AggregationBits: AttestationBits{zzverif.NondetU8()&0x07 | 0x08}, Data: vAttData(), InclusionDelay: common.Slot(zzverif.NondetU64()), ProposerIndex: common.ValidatorIndex(zzverif.NondetU64())}
	}
	for i, k := 0, zzverif.Choose(2); i < k; i++ {
		raw.PreviousEpochAttestations = append(raw.PreviousEpochAttestations, pa())
	}
	for i, k := 0, zzverif.Choose(2); i < k; i++ {
		raw.CurrentEpochAttestations = append(raw.CurrentEpochAttestations, pa())
	}
	st, _ := vStateToView(spec, raw)
	epc := vLightEpc(spec, raw, st)
	next := cur + 1
	epc.NextEpoch = &common.ShufflingEpoch{Epoch: common.Epoch(next)}
	ctx := context.Background()
	zzverif.Reach("resets")
	zzverif.Assert(ProcessEth1DataReset(ctx, spec, epc, st) == nil, "ProcessEth1DataReset")
	zzverif.Assert(ProcessSlashingsReset(ctx, spec, epc, st) == nil, "ProcessSlashingsReset")
	zzverif.Assert(ProcessRandaoMixesReset(ctx, spec, epc, st) == nil, "ProcessRandaoMixesReset")
	zzverif.Assert(ProcessHistoricalRootsUpdate(ctx, spec, epc, st) == nil, "ProcessHistoricalRootsUpdate")
	zzverif.Assert(ProcessParticipationRecordUpdates(ctx, spec, epc, st) == nil, "ProcessParticipationRecordUpdates")
	// the spec's effect on the struct form
	h := tree.GetHashFn()
	if next%uint64(spec.EPOCHS_PER_ETH1_VOTING_PERIOD) == 0 {
		raw.Eth1DataVotes = nil
	}
	raw.Slashings[next%uint64(spec.EPOCHS_PER_SLASHINGS_VECTOR)] = 0
	raw.RandaoMixes[next%uint64(spec.EPOCHS_PER_HISTORICAL_VECTOR)] = raw.RandaoMixes[cur%uint64(spec.EPOCHS_PER_HISTORICAL_VECTOR)]
	if next%(uint64(spec.SLOTS_PER_HISTORICAL_ROOT)/uint64(spec.SLOTS_PER_EPOCH)) == 0 {
		raw.HistoricalRoots = append(raw.HistoricalRoots, h(raw.BlockRoots.HashTreeRoot(spec, h), raw.StateRoots.HashTreeRoot(spec, h)))
	}
	raw.PreviousEpochAttestations = raw.CurrentEpochAttestations
	raw.CurrentEpochAttestations = nil
	zzverif.Assert(st.HashTreeRoot(h) == raw.HashTreeRoot(spec, h), "after the end-of-epoch resets the state is exactly the spec's")
	zzverif.Assert(st.HashTreeRoot(h) == vReroot(spec, st), "no stale cached subtree root after resets and whole-subtree replacement")
}
