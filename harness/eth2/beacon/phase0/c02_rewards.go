package phase0

import (
	"context"

	"github.com/protolambda/zrnt/eth2/beacon/common"
	"github.com/protolambda/zrnt/eth2/zzverif"
)

func vRwIsqrt(n uint64) uint64 {
	x := n
	y := (x + 1) / 2
	for y < x {
		x = y
		y = (x + n/x) / 2
	}
	return x
}

type vRwAtt struct {
	slot     int // index into the previous epoch's slots
	bits     [2]bool
	tmatch   bool
	hmatch   bool
	delay    uint64
	proposer uint64
}

// VerifHarness_C02_rewards: ComputeEpochAttesterData + ProcessEpochRewardsAndPenalties on the real phase0 state equal the
// spec's process_rewards_and_penalties (get_attestation_deltas: source/target/head component deltas, inclusion-delay
// deltas with the earliest inclusion per attester, inactivity-penalty deltas) for every pending-attestation list of
// 0..2 previous-epoch attestations with symbolic participation bits, target/head matches, inclusion delays and
// proposers, symbolic slashed flags and balances, a finality delay on either side of the leak threshold, and a third
// validator that is either active or exited (eligible only while slashed and not yet withdrawable).
// Bounds: 3 validators with concrete, pairwise distinct effective balances 8/24/32 ETH (so base rewards are concrete and the total active
// balance is 64 or 32 increments: the stake ratios divide by a power of two, which keeps the queries cheap), epoch 6 of the
// tiny preset (2 slots per epoch, one committee per slot), inclusion delay 1..2, balances < 2^40.
func VerifHarness_C02_rewards() {
	spec := common.VTinySpec()
	const n = 3
	cur := common.Epoch(6)
	prev := cur - 1
	raw := vRawState(spec, 0)
	raw.Slot = common.Slot(uint64(cur)*uint64(spec.SLOTS_PER_EPOCH) + uint64(spec.SLOTS_PER_EPOCH) - 1)
	raw.LatestBlockHeader.Slot = raw.Slot
	raw.Fork = common.Fork{PreviousVersion: spec.GENESIS_FORK_VERSION, CurrentVersion: spec.GENESIS_FORK_VERSION, Epoch: 0}
	effs := [n]common.Gwei{8000000000, 24000000000, 32000000000}
	v2active := zzverif.Choose(2) == 0
	// narrow=1 (used for the two-attestation shards of the quick tier): slashed flags false, no leak; participation
	// bits, target/head matches, inclusion delays, proposers and balances stay symbolic
	narrow := zzverif.Param("narrow", 0) == 1
	var slashed [n]bool
	var bal [n]uint64
	for i := 0; i < n; i++ {
		v := &Validator{}
		v.Pubkey[0] = byte(i + 1)
		v.WithdrawalCredentials[0] = byte(i + 1)
		v.EffectiveBalance = effs[i]
		v.ActivationEpoch = 0
		v.ExitEpoch = vFarFuture
		v.WithdrawableEpoch = vFarFuture
		if !narrow {
			slashed[i] = zzverif.NondetBool()
		}
		v.Slashed = slashed[i]
		raw.Validators = append(raw.Validators, v)
		b := zzverif.NondetU64()
		zzverif.Assume(b < 1<<40)
		bal[i] = b
		raw.Balances = append(raw.Balances, common.Gwei(b))
	}
	wd2 := vFarFuture
	if !v2active {
		raw.Validators[2].ExitEpoch = 4
		w := zzverif.NondetU8()
		zzverif.Assume(w >= 5 && w <= 8)
		wd2 = common.Epoch(w)
		raw.Validators[2].WithdrawableEpoch = wd2
	}
	fin := zzverif.NondetU8()
	zzverif.Assume(fin <= 4)
	if narrow {
		fin = 4
	}
	raw.FinalizedCheckpoint.Epoch = common.Epoch(fin)
	raw.PreviousJustifiedCheckpoint.Epoch = common.Epoch(fin)
	raw.CurrentJustifiedCheckpoint.Epoch = common.Epoch(fin)
	// block roots of the previous epoch's slots: distinct constants so that "matching" is decided by the harness
	spe := uint64(spec.SLOTS_PER_EPOCH)
	for i := range raw.BlockRoots {
		raw.BlockRoots[i] = common.Root{0xb0, byte(i + 1)}
	}
	prevStart := uint64(prev) * spe
	// committees of the previous epoch: slot 0 -> {2,0} (or {0}), slot 1 -> {1}
	comm0 := []common.ValidatorIndex{2, 0}
	if !v2active {
		comm0 = []common.ValidatorIndex{0}
	}
	comms := [][]common.ValidatorIndex{comm0, {1}}
	k := zzverif.Param("min_atts", 0)
	if mx := zzverif.Param("max_atts", 2); mx > k {
		k += zzverif.Choose(mx - k + 1)
	}
	atts := make([]vRwAtt, k)
	for a := 0; a < k; a++ {
		at := &atts[a]
		at.slot = zzverif.Choose(2)
		at.tmatch, at.hmatch = zzverif.NondetBool(), zzverif.NondetBool()
		d := zzverif.NondetU8()
		zzverif.Assume(d >= 1 && d <= 2)
		at.delay = uint64(d)
		p := zzverif.NondetU8()
		zzverif.Assume(p < n)
		at.proposer = uint64(p)
		c := comms[at.slot]
		bits := byte(0)
		for j := range c {
			at.bits[j] = zzverif.NondetBool()
			if at.bits[j] {
				bits |= 1 << uint(j)
			}
		}
		bits |= 1 << uint(len(c))
		slot := prevStart + uint64(at.slot)
		data := AttestationData{Slot: common.Slot(slot), Index: 0, Source: common.Checkpoint{Epoch: common.Epoch(fin)}, Target: common.Checkpoint{Epoch: prev}}
		if at.tmatch {
			data.Target.Root = raw.BlockRoots[prevStart%uint64(spec.SLOTS_PER_HISTORICAL_ROOT)]
		} else {
			data.Target.Root = common.Root{0xee}
		}
		if at.hmatch {
			data.BeaconBlockRoot = raw.BlockRoots[slot%uint64(spec.SLOTS_PER_HISTORICAL_ROOT)]
		} else {
			data.BeaconBlockRoot = common.Root{0xdd}
		}
		raw.PreviousEpochAttestations = append(raw.PreviousEpochAttestations, &PendingAttestation{
			AggregationBits: AttestationBits{bits}, Data: data, InclusionDelay: common.Slot(at.delay), ProposerIndex: common.ValidatorIndex(at.proposer)})
	}
	st, _ := vStateToView(spec, raw)
	epc := vLightEpc(spec, raw, st)
	epc.PreviousEpoch = &common.ShufflingEpoch{Epoch: prev, Committees: [][][]common.ValidatorIndex{{comm0}, {{1}}}}
	epc.CurrentEpoch.Committees = [][][]common.ValidatorIndex{{comm0}, {{1}}}
	vals, _ := st.Validators()
	flats, _ := common.FlattenValidators(vals)
	zzverif.Reach("rewards")
	data, err := ComputeEpochAttesterData(context.Background(), spec, epc, flats, st)
	zzverif.Assert(err == nil, "ComputeEpochAttesterData succeeds")
	if err != nil {
		return
	}
	err = ProcessEpochRewardsAndPenalties(context.Background(), spec, epc, data, st)
	zzverif.Assert(err == nil, "ProcessEpochRewardsAndPenalties succeeds")

	// ---- the spec, over the raw inputs ----
	var src, tgt, head [n]bool // attesting (regardless of slashing) per matching class
	var minDelay, minProp [n]uint64
	for _, at := range atts {
		for j, vi := range comms[at.slot] {
			if !at.bits[j] {
				continue
			}
			i := int(vi)
			if !src[i] || at.delay < minDelay[i] {
				minDelay[i], minProp[i] = at.delay, at.proposer
			}
			src[i] = true
			if at.tmatch {
				tgt[i] = true
				if at.hmatch {
					head[i] = true
				}
			}
		}
	}
	incr := uint64(spec.EFFECTIVE_BALANCE_INCREMENT)
	total := uint64(effs[0] + effs[1])
	if v2active {
		total += uint64(effs[2])
	}
	sq := vRwIsqrt(total)
	stake := func(set *[n]bool) uint64 {
		s := uint64(0)
		for i := 0; i < n; i++ {
			if set[i] && !slashed[i] {
				s += uint64(effs[i])
			}
		}
		if s < incr {
			s = incr
		}
		return s
	}
	srcStake, tgtStake, headStake := stake(&src), stake(&tgt), stake(&head)
	delay := uint64(prev) - uint64(fin)
	leak := delay > uint64(spec.MIN_EPOCHS_TO_INACTIVITY_PENALTY)
	var rewards, penalties [n]uint64
	for i := 0; i < n; i++ {
		active := i < 2 || v2active // in the previous epoch
		eligible := active || (slashed[i] && prev+1 < wd2 && i == 2)
		base := uint64(effs[i]) * uint64(spec.BASE_REWARD_FACTOR) / sq / common.BASE_REWARDS_PER_EPOCH
		propRew := base / uint64(spec.PROPOSER_REWARD_QUOTIENT)
		comp := func(set *[n]bool, st uint64) {
			if !eligible {
				return
			}
			if set[i] && !slashed[i] {
				if leak {
					rewards[i] += base
				} else {
					rewards[i] += base * (st / incr) / (total / incr)
				}
			} else {
				penalties[i] += base
			}
		}
		comp(&src, srcStake)
		comp(&tgt, tgtStake)
		comp(&head, headStake)
		if src[i] && !slashed[i] {
			for p := 0; p < n; p++ {
				if minProp[i] == uint64(p) {
					rewards[p] += propRew
				}
			}
			if minDelay[i] == 1 {
				rewards[i] += base - propRew
			} else {
				rewards[i] += (base - propRew) / 2
			}
		}
		if leak && eligible {
			penalties[i] += common.BASE_REWARDS_PER_EPOCH*base - propRew
			if !(tgt[i] && !slashed[i]) {
				penalties[i] += uint64(effs[i]) * delay / uint64(spec.INACTIVITY_PENALTY_QUOTIENT)
			}
		}
	}
	bals, _ := st.Balances()
	for i := 0; i < n; i++ {
		want := bal[i] + rewards[i]
		if want >= penalties[i] {
			want -= penalties[i]
		} else {
			want = 0
		}
		got, _ := bals.GetBalance(common.ValidatorIndex(i))
		zzverif.Assert(uint64(got) == want, "balances after process_rewards_and_penalties equal the spec's")
	}
	// the summary the justification step consumes
	zzverif.Assert(uint64(data.PrevEpochUnslashedStake.TargetStake) == tgtStake, "previous-epoch unslashed target stake as the spec")
	zzverif.Assert(uint64(data.PrevEpochUnslashedStake.SourceStake) == srcStake && uint64(data.PrevEpochUnslashedStake.HeadStake) == headStake, "previous-epoch unslashed source/head stake as the spec")
}

// VerifHarness_C02_slashings: ProcessEpochSlashings on the real phase0 state equals the spec's process_slashings: every
// slashed validator whose withdrawable epoch is current_epoch + EPOCHS_PER_SLASHINGS_VECTOR/2 loses
// effective_balance/increment * min(sum(slashings) * PROPORTIONAL_SLASHING_MULTIPLIER, total_balance) / total_balance
// * increment (saturating at 0); every other balance is untouched.
// Bounds: 3 validators with concrete distinct effective balances 8/24/32 ETH (the third active or exited, so the total
// active balance is 64 or 32 ETH), symbolic slashed flags, withdrawable epochs on either side of the selected epoch,
// slashings vector entries < 2^38, balances < 2^40.
func VerifHarness_C02_slashings() {
	spec := common.VTinySpec()
	const n = 3
	cur := common.Epoch(6)
	raw := vRawState(spec, 0)
	raw.Slot = common.Slot(uint64(cur)*uint64(spec.SLOTS_PER_EPOCH) + uint64(spec.SLOTS_PER_EPOCH) - 1)
	raw.LatestBlockHeader.Slot = raw.Slot
	raw.Fork = common.Fork{PreviousVersion: spec.GENESIS_FORK_VERSION, CurrentVersion: spec.GENESIS_FORK_VERSION, Epoch: 0}
	effs := [n]common.Gwei{8000000000, 24000000000, 32000000000}
	v2active := zzverif.Choose(2) == 0
	var slashed [n]bool
	var wd [n]common.Epoch
	var bal [n]uint64
	for i := 0; i < n; i++ {
		v := &Validator{}
		v.Pubkey[0] = byte(i + 1)
		v.WithdrawalCredentials[0] = byte(i + 1)
		v.EffectiveBalance = effs[i]
		v.ExitEpoch = vFarFuture
		if i == 2 && !v2active {
			v.ExitEpoch = 4
		}
		slashed[i] = zzverif.NondetBool()
		v.Slashed = slashed[i]
		w := zzverif.NondetU8()
		zzverif.Assume(w >= 6 && w <= 10)
		wd[i] = common.Epoch(w)
		v.WithdrawableEpoch = wd[i]
		raw.Validators = append(raw.Validators, v)
		b := zzverif.NondetU64()
		zzverif.Assume(b < 1<<40)
		bal[i] = b
		raw.Balances = append(raw.Balances, common.Gwei(b))
	}
	sum := uint64(0)
	for i := range raw.Slashings {
		s := zzverif.NondetU64()
		zzverif.Assume(s < 1<<38)
		raw.Slashings[i] = common.Gwei(s)
		sum += s
	}
	st, _ := vStateToView(spec, raw)
	epc := vLightEpc(spec, raw, st)
	vals, _ := st.Validators()
	flats, _ := common.FlattenValidators(vals)
	zzverif.Reach("slashings")
	err := ProcessEpochSlashings(context.Background(), spec, epc, flats, st)
	zzverif.Assert(err == nil, "ProcessEpochSlashings succeeds")
	// ---- the spec ----
	total := uint64(effs[0] + effs[1])
	if v2active {
		total += uint64(effs[2])
	}
	incr := uint64(spec.EFFECTIVE_BALANCE_INCREMENT)
	adjusted := sum * uint64(spec.PROPORTIONAL_SLASHING_MULTIPLIER)
	if adjusted > total {
		adjusted = total
	}
	bals, _ := st.Balances()
	for i := 0; i < n; i++ {
		want := bal[i]
		if slashed[i] && cur+spec.EPOCHS_PER_SLASHINGS_VECTOR/2 == wd[i] {
			penalty := uint64(effs[i]) / incr * adjusted / total * incr
			if want >= penalty {
				want -= penalty
			} else {
				want = 0
			}
		}
		got, _ := bals.GetBalance(common.ValidatorIndex(i))
		zzverif.Assert(uint64(got) == want, "balances after process_slashings equal the spec's")
	}
}
