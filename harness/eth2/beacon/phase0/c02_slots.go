package phase0

import (
	"context"
	"errors"

	"github.com/protolambda/zrnt/eth2/beacon/common"
	"github.com/protolambda/zrnt/eth2/zzverif"
	"github.com/protolambda/ztyp/tree"
)

// vSlState wraps the real phase0 state view and records (instead of performing) the three fork-specific steps the
// generic transition driver of eth2/beacon/common/transition.go dispatches to: ProcessEpoch, UpgradeMaybe, ProcessBlock.
type vSlEv struct {
	kind   int // 1 ProcessEpoch, 2 UpgradeMaybe, 3 ProcessBlock
	slot   common.Slot
	epcCur common.Epoch
}

type vSlState struct {
	*BeaconStateView
	log       *[]vSlEv
	epochFail bool
	blockFail bool
}

func (s *vSlState) ev(kind int, epc *common.EpochsContext) {
	slot, _ := s.BeaconStateView.Slot()
	e := vFarFuture
	if epc != nil && epc.CurrentEpoch != nil {
		e = epc.CurrentEpoch.Epoch
	}
	*s.log = append(*s.log, vSlEv{kind, slot, e})
}

func (s *vSlState) ProcessEpoch(ctx context.Context, spec *common.Spec, epc *common.EpochsContext) error {
	s.ev(1, epc)
	if s.epochFail {
		return errors.New("epoch processing failed")
	}
	return nil
}

func (s *vSlState) UpgradeMaybe(ctx context.Context, spec *common.Spec, epc *common.EpochsContext) error {
	s.ev(2, epc)
	return nil
}

func (s *vSlState) ProcessBlock(ctx context.Context, spec *common.Spec, epc *common.EpochsContext, benv *common.BeaconBlockEnvelope) error {
	s.ev(3, epc)
	if s.blockFail {
		return errors.New("block processing failed")
	}
	return nil
}

// VerifHarness_C02_process_slots: common.ProcessSlots (the spec's process_slots) for a symbolic target slot up to four
// slots ahead (or behind / equal): refused iff target <= state.slot; otherwise, for every slot passed: process_slot
// first, the epoch transition exactly at the last slot of an epoch and before the slot is incremented, the epochs
// context rotated after the increment and before the fork-upgrade hook, the upgrade hook after every increment; a failing
// epoch transition or a cancelled context stops the loop with an error; the final slot is the target.
// Stubs: ProcessEpoch / UpgradeMaybe are recorded, not executed (their content is the subject of the other C02
// harnesses); shuffling/proposer computation inside RotateEpochs is the override group "c08".
func VerifHarness_C02_process_slots() {
	zzverif.UseOverrides("c08")
	spec := common.VTinySpec()
	raw := vNewRaw(spec, 2, 3) // slot 6 or 7 (chosen)
	st, _ := vStateToView(spec, raw)
	epc, err := common.NewEpochsContext(spec, st)
	zzverif.Assert(err == nil, "NewEpochsContext")
	var log []vSlEv
	w := &vSlState{BeaconStateView: st, log: &log, epochFail: zzverif.NondetBool()}
	start := raw.Slot
	t := zzverif.NondetU8()
	zzverif.Assume(t >= 4 && t <= uint8(start)+4)
	target := common.Slot(t)
	polls := 0
	ctx := vCtx{polls: &polls, failAt: zzverif.Choose(3) - 1}
	h := tree.GetHashFn()
	pre := st.HashTreeRoot(h)
	zzverif.Reach("process-slots")
	err = common.ProcessSlots(ctx, spec, epc, w, target)
	if target <= start {
		zzverif.Assert(err != nil, "process_slots to a slot that is not ahead of the state is refused")
		zzverif.Assert(len(log) == 0 && st.HashTreeRoot(h) == pre, "a refused process_slots leaves the state untouched")
		return
	}
	cancelled := ctx.failAt >= 0 && polls > ctx.failAt
	spe := common.Slot(spec.SLOTS_PER_EPOCH)
	// expected event sequence until the first failure
	var want []vSlEv
	failed := false
	s := start
	for ; s < target && !failed; s++ {
		if (s+1)/spe != s/spe {
			want = append(want, vSlEv{1, s, common.Epoch(s / spe)})
			if w.epochFail {
				failed = true
				break
			}
		}
		want = append(want, vSlEv{2, s + 1, common.Epoch((s + 1) / spe)})
	}
	if cancelled {
		zzverif.Assert(err != nil, "a cancelled context surfaces as an error of process_slots")
		return
	}
	zzverif.Assert((err != nil) == failed, "process_slots fails exactly when an epoch transition on the way fails")
	zzverif.Assert(len(log) == len(want), "epoch transitions and upgrade hooks happen once per epoch end / per slot")
	if len(log) != len(want) {
		return
	}
	for i := range want {
		zzverif.Assert(log[i].kind == want[i].kind && log[i].slot == want[i].slot, "epoch transition runs at the last slot of the epoch before the increment; the upgrade hook after every increment")
		zzverif.Assert(log[i].epcCur == want[i].epcCur, "the epochs context is rotated after the slot increment and before the upgrade hook")
	}
	got, _ := st.Slot()
	if !failed {
		zzverif.Assert(got == target, "process_slots ends at the target slot")
		zzverif.Assert(epc.CurrentEpoch.Epoch == common.Epoch(target/spe), "the epochs context ends in the target's epoch")
	} else {
		zzverif.Assert(got == s, "a failed epoch transition leaves the slot at the epoch's last slot")
	}
	srs, _ := st.StateRoots()
	r0, _ := srs.GetRoot(start % common.Slot(spec.SLOTS_PER_HISTORICAL_ROOT))
	if target-start < common.Slot(spec.SLOTS_PER_HISTORICAL_ROOT) || failed {
		zzverif.Assert(r0 == pre, "process_slot caches the pre-state root for the first slot passed")
	}
}

// VerifHarness_C01_post_slot_transition: common.PostSlotTransition (the block half of state_transition): refused when
// the state is not at the block's slot; with validation on, refused unless the proposer signature verifies under the
// expected proposer's key with the state's current fork version (verify_block_signature) - and then the block is not
// processed at all; a failing ProcessBlock is an error; with validation on, a declared state root different from the
// post-state's root is an error. Accepted exactly otherwise, with ProcessBlock run exactly once.
// Stub: ProcessBlock is recorded, not executed.
func VerifHarness_C01_post_slot_transition() {
	spec := common.VTinySpec()
	raw := vNewRaw(spec, 2, 3)
	vSymFork(spec, raw, 3)
	st, _ := vStateToView(spec, raw)
	epc := vLightEpc(spec, raw, st)
	prop := zzverif.Choose(2)
	epc.Proposers = &common.ProposersEpoch{Spec: spec, Epoch: 3, Proposers: []common.ValidatorIndex{common.ValidatorIndex(prop), common.ValidatorIndex(prop)}}
	var log []vSlEv
	w := &vSlState{BeaconStateView: st, log: &log, blockFail: zzverif.NondetBool()}
	h := tree.GetHashFn()
	pre := st.HashTreeRoot(h)
	benv := &common.BeaconBlockEnvelope{BlockRoot: vRoot1(), Signature: vSig1()}
	benv.Slot = raw.Slot
	if zzverif.NondetBool() {
		benv.Slot = common.Slot(zzverif.NondetU8())
	}
	benv.ProposerIndex = common.ValidatorIndex(zzverif.NondetU8() & 3)
	benv.StateRoot = pre
	if zzverif.NondetBool() {
		benv.StateRoot = vRoot1()
	}
	benv.ForkDigest = common.ComputeForkDigest(raw.Fork.CurrentVersion, raw.GenesisValidatorsRoot)
	validate := zzverif.NondetBool()
	zzverif.Reach("post-slot")
	err := common.PostSlotTransition(context.Background(), spec, epc, w, benv, validate)
	ok := benv.Slot == raw.Slot
	sigOK := true
	if validate {
		dom := common.ComputeDomain(common.DOMAIN_BEACON_PROPOSER, raw.Fork.CurrentVersion, raw.GenesisValidatorsRoot)
		root := common.ComputeSigningRoot(benv.BlockRoot, dom)
		pub := raw.Validators[prop].Pubkey
		sigOK = benv.ProposerIndex == common.ValidatorIndex(prop) && zzverif.BLSPubkeyValid(pub) && zzverif.BLSSigValid(benv.Signature) && zzverif.BLSVerify(pub, root[:], benv.Signature)
	}
	processed := ok && sigOK
	if processed {
		zzverif.Assert(len(log) == 1 && log[0].kind == 3, "the block is processed exactly once when slot and signature check out")
	} else {
		zzverif.Assert(len(log) == 0, "a block at the wrong slot or with an invalid proposer signature is not processed")
	}
	accepted := processed && !w.blockFail && (!validate || benv.StateRoot == pre)
	zzverif.Assert((err == nil) == accepted, "PostSlotTransition accepts exactly: right slot, valid proposer signature (when validating), block processed, declared state root equal to the post-state root (when validating)")
}
