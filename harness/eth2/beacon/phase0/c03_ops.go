package phase0

import (
	"github.com/protolambda/zrnt/eth2/beacon/common"
	"github.com/protolambda/zrnt/eth2/zzverif"
	"github.com/protolambda/ztyp/tree"
)

func vSymFork(spec *common.Spec, raw *BeaconState, cur uint64) {
	fe := zzverif.NondetU8()
	zzverif.Assume(uint64(fe) <= cur)
	raw.Fork = common.Fork{PreviousVersion: common.Version{0, 0, 0, 1}, CurrentVersion: common.Version{1, 0, 0, 1}, Epoch: common.Epoch(fe)}
}

func vVersionAt(raw *BeaconState, epoch common.Epoch) common.Version {
	if epoch < raw.Fork.Epoch {
		return raw.Fork.PreviousVersion
	}
	return raw.Fork.CurrentVersion
}

// VerifHarness_C03_voluntary_exit: ProcessVoluntaryExit accepts exactly the exits the spec's process_voluntary_exit
// accepts (index range, active, not exiting, epoch reached, active long enough, signature by the validator's key over
// the exit under DOMAIN_VOLUNTARY_EXIT with the fork version of the exit's epoch) and then queues the exit as the spec.
func VerifHarness_C03_voluntary_exit() {
	spec := common.VTinySpec()
	n := 2
	cur := uint64(4)
	raw, vs := vLifecycleState(spec, n, cur)
	vSymFork(spec, raw, cur)
	st, _ := vStateToView(spec, raw)
	epc := vLightEpc(spec, raw, st)
	idx := zzverif.NondetU8()
	zzverif.Assume(idx < 4)
	ee := zzverif.NondetU8()
	zzverif.Assume(ee < 8)
	exit := &SignedVoluntaryExit{Message: VoluntaryExit{Epoch: common.Epoch(ee), ValidatorIndex: common.ValidatorIndex(idx)}, Signature: vSig1()}
	zzverif.Reach("voluntary-exit")
	err := ProcessVoluntaryExit(spec, epc, st, exit)
	valid := int(idx) < n
	if valid {
		i := int(zzverif.Concrete(uint64(idx)))
		v := vs[i]
		c := common.Epoch(cur)
		dom := common.ComputeDomain(common.DOMAIN_VOLUNTARY_EXIT, vVersionAt(raw, exit.Message.Epoch), raw.GenesisValidatorsRoot)
		root := common.ComputeSigningRoot(exit.Message.HashTreeRoot(tree.GetHashFn()), dom)
		pub := raw.Validators[i].Pubkey
		valid = v.act <= c && c < v.exit && v.exit == vFarFuture && c >= exit.Message.Epoch && c >= v.act+spec.SHARD_COMMITTEE_PERIOD &&
			zzverif.BLSPubkeyValid(pub) && zzverif.BLSSigValid(exit.Signature) && zzverif.BLSVerify(pub, root[:], exit.Signature)
		if valid {
			vRefInitiateExit(spec, vs, i, c)
		}
	}
	zzverif.Assert((err == nil) == valid, "ProcessVoluntaryExit accepts exactly the exits the spec accepts")
	vCompareVals(st, vs, "voluntary exit")
}

// VerifHarness_C03_domain: Fork.GetDomain selects the previous version strictly before the fork epoch and the current
// version from the fork epoch on, for every epoch and fork epoch.
func VerifHarness_C03_domain() {
	f := common.Fork{PreviousVersion: common.Version(zzverif.NondetBytes4()), CurrentVersion: common.Version(zzverif.NondetBytes4()), Epoch: common.Epoch(zzverif.NondetU64())}
	e := common.Epoch(zzverif.NondetU64())
	gvr := vRoot1()
	dt := common.BLSDomainType(zzverif.NondetBytes4())
	zzverif.Reach("domain")
	d, err := f.GetDomain(dt, gvr, e)
	zzverif.Assert(err == nil, "GetDomain succeeds")
	v := f.CurrentVersion
	if e < f.Epoch {
		v = f.PreviousVersion
	}
	zzverif.Assert(d == common.ComputeDomain(dt, v, gvr), "GetDomain uses previous_version iff epoch < fork.epoch")
}

// VerifHarness_C03_indexed_set: ValidateIndexedAttestationIndicesSet accepts exactly non-empty, strictly increasing
// index lists within the committee-size limit.
func VerifHarness_C03_indexed_set() {
	spec := common.VTinySpec()
	n := zzverif.Choose(int(spec.MAX_VALIDATORS_PER_COMMITTEE) + 2)
	ia := &IndexedAttestation{}
	ok := n > 0 && uint64(n) <= uint64(spec.MAX_VALIDATORS_PER_COMMITTEE)
	for i := 0; i < n; i++ {
		ia.AttestingIndices = append(ia.AttestingIndices, common.ValidatorIndex(zzverif.NondetU64()))
		if i > 0 && !(ia.AttestingIndices[i-1] < ia.AttestingIndices[i]) {
			ok = false
		}
	}
	zzverif.Reach("indexed-set")
	_, err := ValidateIndexedAttestationIndicesSet(spec, ia)
	zzverif.Assert((err == nil) == ok, "indexed attestation indices are accepted iff non-empty, sorted, unique and within the limit")
}

// ---- exported for harnesses of other packages (gossip validation) ----

type VExitWorldT struct {
	Spec  *common.Spec
	Epc   *common.EpochsContext
	State *BeaconStateView
	raw   *BeaconState
	vs    []vVal
	cur   uint64
}

// VExitWorld: a two-validator phase0 world with symbolic lifecycle fields and fork record (see vLifecycleState).
func VExitWorld() *VExitWorldT {
	spec := common.VTinySpec()
	cur := uint64(4)
	raw, vs := vLifecycleState(spec, 2, cur)
	vSymFork(spec, raw, cur)
	st, _ := vStateToView(spec, raw)
	return &VExitWorldT{Spec: spec, Epc: vLightEpc(spec, raw, st), State: st, raw: raw, vs: vs, cur: cur}
}

// RefExitValid is the spec's process_voluntary_exit validity for this world (same formula as VerifHarness_C03_voluntary_exit).
func (w *VExitWorldT) RefExitValid(exit *SignedVoluntaryExit) bool {
	idx := exit.Message.ValidatorIndex
	if int(idx) >= len(w.vs) {
		return false
	}
	i := int(zzverif.Concrete(uint64(idx)))
	v := w.vs[i]
	c := common.Epoch(w.cur)
	dom := common.ComputeDomain(common.DOMAIN_VOLUNTARY_EXIT, vVersionAt(w.raw, exit.Message.Epoch), w.raw.GenesisValidatorsRoot)
	root := common.ComputeSigningRoot(exit.Message.HashTreeRoot(tree.GetHashFn()), dom)
	pub := w.raw.Validators[i].Pubkey
	return v.act <= c && c < v.exit && v.exit == vFarFuture && c >= exit.Message.Epoch && c >= v.act+w.Spec.SHARD_COMMITTEE_PERIOD &&
		zzverif.BLSPubkeyValid(pub) && zzverif.BLSSigValid(exit.Signature) && zzverif.BLSVerify(pub, root[:], exit.Signature)
}

// VSig: a signature with two symbolic bytes.
func VSig() common.BLSSignature { return vSig1() }
