package phase0

import (
	"bytes"

	"github.com/protolambda/zrnt/eth2/beacon/common"
	"github.com/protolambda/zrnt/eth2/zzverif"
	"github.com/protolambda/ztyp/codec"
	"github.com/protolambda/ztyp/tree"
)

func vSig1() (s common.BLSSignature) { s[0] = zzverif.NondetU8(); s[95] = zzverif.NondetU8(); return }

func vAttData() AttestationData {
	return AttestationData{Slot: common.Slot(zzverif.NondetU64()), Index: common.CommitteeIndex(zzverif.NondetU64()), BeaconBlockRoot: vRoot1(),
		Source: common.Checkpoint{Epoch: common.Epoch(zzverif.NondetU64()), Root: vRoot1()}, Target: common.Checkpoint{Epoch: common.Epoch(zzverif.NondetU64()), Root: vRoot1()}}
}

func vHeader() common.SignedBeaconBlockHeader {
	return common.SignedBeaconBlockHeader{Message: common.BeaconBlockHeader{Slot: common.Slot(zzverif.NondetU64()), ProposerIndex: common.ValidatorIndex(zzverif.NondetU64()),
		ParentRoot: vRoot1(), StateRoot: vRoot1(), BodyRoot: vRoot1()}, Signature: vSig1()}
}

func vIndexed(n int) IndexedAttestation {
	ia := IndexedAttestation{Data: vAttData(), Signature: vSig1()}
	for i := 0; i < n; i++ {
		ia.AttestingIndices = append(ia.AttestingIndices, common.ValidatorIndex(zzverif.NondetU64()))
	}
	return ia
}

// vBlock: a signed phase0 block whose operation lists have the given lengths and whose scalar leaves are symbolic.
func vBlock(nPS, nAS, nAtt, nDep, nExit int) *SignedBeaconBlock {
	b := &SignedBeaconBlock{Signature: vSig1()}
	m := &b.Message
	m.Slot = common.Slot(zzverif.NondetU64())
	m.ProposerIndex = common.ValidatorIndex(zzverif.NondetU64())
	m.ParentRoot, m.StateRoot = vRoot1(), vRoot1()
	m.Body.RandaoReveal = vSig1()
	m.Body.Eth1Data = common.Eth1Data{DepositRoot: vRoot1(), DepositCount: common.DepositIndex(zzverif.NondetU64()), BlockHash: vRoot1()}
	m.Body.Graffiti = vRoot1()
	for i := 0; i < nPS; i++ {
		m.Body.ProposerSlashings = append(m.Body.ProposerSlashings, ProposerSlashing{SignedHeader1: vHeader(), SignedHeader2: vHeader()})
	}
	for i := 0; i < nAS; i++ {
		m.Body.AttesterSlashings = append(m.Body.AttesterSlashings, AttesterSlashing{Attestation1: vIndexed(2), Attestation2: vIndexed(1)})
	}
	for i := 0; i < nAtt; i++ {
		bits := AttestationBits{zzverif.NondetU8()&0x07 | 0x08} // three committee bits + delimiter
		m.Body.Attestations = append(m.Body.Attestations, Attestation{AggregationBits: bits, Data: vAttData(), Signature: vSig1()})
	}
	for i := 0; i < nDep; i++ {
		d := common.Deposit{}
		d.Proof[0], d.Proof[32] = vRoot1(), vRoot1()
		d.Data.Pubkey[0] = zzverif.NondetU8()
		d.Data.WithdrawalCredentials = vRoot1()
		d.Data.Amount = common.Gwei(zzverif.NondetU64())
		d.Data.Signature = vSig1()
		m.Body.Deposits = append(m.Body.Deposits, d)
	}
	for i := 0; i < nExit; i++ {
		m.Body.VoluntaryExits = append(m.Body.VoluntaryExits, SignedVoluntaryExit{Message: VoluntaryExit{Epoch: common.Epoch(zzverif.NondetU64()), ValidatorIndex: common.ValidatorIndex(zzverif.NondetU64())}, Signature: vSig1()})
	}
	return b
}

// VerifHarness_C04_block: encoding of a whole signed phase0 block (all operation kinds nested): byte length, round trip,
// agreement of the struct codec with the view (schema) codec, and agreement of struct and view hash-tree-roots.
func VerifHarness_C04_block() {
	spec := common.VTinySpec()
	b := vBlock(zzverif.Choose(2), zzverif.Choose(2), zzverif.Choose(3), zzverif.Choose(2), zzverif.Choose(3))
	var buf bytes.Buffer
	zzverif.Assert(b.Serialize(spec, codec.NewEncodingWriter(&buf)) == nil, "block serializes")
	data := buf.Bytes()
	zzverif.Reach("block")
	zzverif.Assert(uint64(len(data)) == b.ByteLength(spec), "ByteLength equals the number of bytes written")
	zzverif.Assert(b.FixedLength(spec) == 0, "FixedLength is 0 for a variable-size type")
	var b2 SignedBeaconBlock
	err := b2.Deserialize(spec, codec.NewDecodingReader(bytes.NewReader(data), uint64(len(data))))
	zzverif.Assert(err == nil, "own encoding decodes")
	if err != nil {
		return
	}
	h := tree.GetHashFn()
	zzverif.Assert(b2.HashTreeRoot(spec, h) == b.HashTreeRoot(spec, h), "decode(encode(block)) has the root of block (every leaf round-trips)")
	var buf2 bytes.Buffer
	zzverif.Assert(b2.Serialize(spec, codec.NewEncodingWriter(&buf2)) == nil, "decoded block serializes")
	zzverif.Assert(bytes.Equal(buf2.Bytes(), data), "encode(decode(bytes)) == bytes")
	v, err := SignedBeaconBlockType(spec).Deserialize(codec.NewDecodingReader(bytes.NewReader(data), uint64(len(data))))
	zzverif.Assert(err == nil, "the schema (view) codec decodes the struct codec's bytes")
	if err != nil {
		return
	}
	zzverif.Assert(v.HashTreeRoot(h) == b.HashTreeRoot(spec, h), "struct root == view root (SignedBeaconBlock)")
	var buf3 bytes.Buffer
	zzverif.Assert(v.Serialize(codec.NewEncodingWriter(&buf3)) == nil, "view serializes")
	zzverif.Assert(bytes.Equal(buf3.Bytes(), data), "the schema (view) codec produces the same bytes as the struct codec")
	// truncated input is refused
	if len(data) > 0 {
		var b3 SignedBeaconBlock
		zzverif.Assert(b3.Deserialize(spec, codec.NewDecodingReader(bytes.NewReader(data[:len(data)-1]), uint64(len(data)-1))) != nil, "input truncated by one byte is refused")
	}
}

// VerifHarness_C04_limits: a list one element over its preset limit is refused by both codecs.
func VerifHarness_C04_limits() {
	spec := common.VTinySpec()
	var b *SignedBeaconBlock
	k := zzverif.Choose(5)
	switch k {
	case 0:
		b = vBlock(int(spec.MAX_PROPOSER_SLASHINGS)+1, 0, 0, 0, 0)
	case 1:
		b = vBlock(0, int(spec.MAX_ATTESTER_SLASHINGS)+1, 0, 0, 0)
	case 2:
		b = vBlock(0, 0, int(spec.MAX_ATTESTATIONS)+1, 0, 0)
	case 3:
		b = vBlock(0, 0, 0, int(spec.MAX_DEPOSITS)+1, 0)
	case 4:
		b = vBlock(0, 0, 0, 0, int(spec.MAX_VOLUNTARY_EXITS)+1)
	}
	var buf bytes.Buffer
	_ = b.Serialize(spec, codec.NewEncodingWriter(&buf))
	data := buf.Bytes()
	zzverif.Reach("limits")
	var b2 SignedBeaconBlock
	zzverif.Assert(b2.Deserialize(spec, codec.NewDecodingReader(bytes.NewReader(data), uint64(len(data)))) != nil, "struct codec refuses a list over its limit")
	_, err := SignedBeaconBlockType(spec).Deserialize(codec.NewDecodingReader(bytes.NewReader(data), uint64(len(data))))
	zzverif.Assert(err != nil, "schema (view) codec refuses a list over its limit")
}
