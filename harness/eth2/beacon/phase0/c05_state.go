package phase0

import (
	"bytes"

	"github.com/protolambda/zrnt/eth2/beacon/common"
	"github.com/protolambda/zrnt/eth2/zzverif"
	"github.com/protolambda/ztyp/codec"
	"github.com/protolambda/ztyp/tree"
)

func vRoot1() (r common.Root) { r[0] = zzverif.NondetU8(); r[31] = zzverif.NondetU8(); return }

// vRawState: a raw phase0 state of the tiny preset whose scalar leaves are symbolic (N validators).
func vRawState(spec *common.Spec, n int) *BeaconState {
	st := &BeaconState{}
	st.GenesisTime = common.Timestamp(zzverif.NondetU64())
	st.GenesisValidatorsRoot = vRoot1()
	st.Slot = common.Slot(zzverif.NondetU64())
	st.Fork = common.Fork{PreviousVersion: common.Version(zzverif.NondetBytes4()), CurrentVersion: common.Version(zzverif.NondetBytes4()), Epoch: common.Epoch(zzverif.NondetU64())}
	st.LatestBlockHeader = common.BeaconBlockHeader{Slot: common.Slot(zzverif.NondetU64()), ProposerIndex: common.ValidatorIndex(zzverif.NondetU64()), ParentRoot: vRoot1(), StateRoot: vRoot1(), BodyRoot: vRoot1()}
	st.BlockRoots = make([]common.Root, spec.SLOTS_PER_HISTORICAL_ROOT)
	st.StateRoots = make([]common.Root, spec.SLOTS_PER_HISTORICAL_ROOT)
	for i := range st.BlockRoots {
		st.BlockRoots[i] = vRoot1()
		st.StateRoots[i] = vRoot1()
	}
	st.Eth1Data = common.Eth1Data{DepositRoot: vRoot1(), DepositCount: common.DepositIndex(zzverif.NondetU64()), BlockHash: vRoot1()}
	st.Eth1DepositIndex = common.DepositIndex(zzverif.NondetU64())
	for i := 0; i < n; i++ {
		v := &Validator{}
		v.Pubkey[0] = zzverif.NondetU8()
		v.Pubkey[47] = byte(i + 1)
		v.WithdrawalCredentials = vRoot1()
		v.EffectiveBalance = common.Gwei(zzverif.NondetU64())
		v.Slashed = zzverif.NondetBool()
		v.ActivationEligibilityEpoch = common.Epoch(zzverif.NondetU64())
		v.ActivationEpoch = common.Epoch(zzverif.NondetU64())
		v.ExitEpoch = common.Epoch(zzverif.NondetU64())
		v.WithdrawableEpoch = common.Epoch(zzverif.NondetU64())
		st.Validators = append(st.Validators, v)
		st.Balances = append(st.Balances, common.Gwei(zzverif.NondetU64()))
	}
	st.RandaoMixes = make([]common.Root, spec.EPOCHS_PER_HISTORICAL_VECTOR)
	for i := range st.RandaoMixes {
		st.RandaoMixes[i] = vRoot1()
	}
	st.Slashings = make([]common.Gwei, spec.EPOCHS_PER_SLASHINGS_VECTOR)
	for i := range st.Slashings {
		st.Slashings[i] = common.Gwei(zzverif.NondetU64())
	}
	st.JustificationBits = common.JustificationBits{zzverif.NondetU8() & 0x0f}
	st.PreviousJustifiedCheckpoint = common.Checkpoint{Epoch: common.Epoch(zzverif.NondetU64()), Root: vRoot1()}
	st.CurrentJustifiedCheckpoint = common.Checkpoint{Epoch: common.Epoch(zzverif.NondetU64()), Root: vRoot1()}
	st.FinalizedCheckpoint = common.Checkpoint{Epoch: common.Epoch(zzverif.NondetU64()), Root: vRoot1()}
	return st
}

func vStateToView(spec *common.Spec, raw *BeaconState) (*BeaconStateView, []byte) {
	var buf bytes.Buffer
	err := raw.Serialize(spec, codec.NewEncodingWriter(&buf))
	zzverif.Assert(err == nil, "state struct serializes")
	data := buf.Bytes()
	zzverif.Assert(uint64(len(data)) == raw.ByteLength(spec), "ByteLength equals the number of bytes written")
	v, err := AsBeaconStateView(BeaconStateType(spec).Deserialize(codec.NewDecodingReader(bytes.NewReader(data), uint64(len(data)))))
	zzverif.Assert(err == nil, "view form decodes the struct form's bytes")
	return v, data
}

// VerifHarness_C05_state_root: struct-form and view-form hash-tree-roots of a whole phase0 state agree (uninterpreted hash).
func VerifHarness_C05_state_root() {
	spec := common.VTinySpec()
	raw := vRawState(spec, zzverif.Param("validators", 1))
	view, _ := vStateToView(spec, raw)
	zzverif.Reach("state-root")
	h := tree.GetHashFn()
	zzverif.Assert(raw.HashTreeRoot(spec, h) == view.HashTreeRoot(h), "struct root == view root (phase0 BeaconState)")
}
