package phase0

import (
	"encoding/binary"

	"github.com/protolambda/zrnt/eth2/beacon/common"
	"github.com/protolambda/zrnt/eth2/zzverif"
)

// spec: compute_shuffled_index
func vShuffledIndex(index uint64, n uint64, seed common.Root, rounds uint8) uint64 {
	for r := 0; r < int(rounds); r++ {
		var b1 [33]byte
		copy(b1[:32], seed[:])
		b1[32] = byte(r)
		h := zzverif.Hash(b1[:])
		pivot := binary.LittleEndian.Uint64(h[:8]) % n
		flip := (pivot + n - index) % n
		position := index
		if flip > position {
			position = flip
		}
		var b2 [37]byte
		copy(b2[:32], seed[:])
		b2[32] = byte(r)
		binary.LittleEndian.PutUint32(b2[33:], uint32(position/256))
		source := zzverif.Hash(b2[:])
		byt := source[(position%256)/8]
		if (byt>>(position%8))%2 == 1 {
			index = flip
		}
	}
	return index
}

// spec: get_seed
func vGetSeed(spec *common.Spec, raw *BeaconState, epoch uint64, dom common.BLSDomainType) common.Root {
	var buf [44]byte
	copy(buf[0:4], dom[:])
	binary.LittleEndian.PutUint64(buf[4:12], epoch)
	mix := raw.RandaoMixes[(epoch+uint64(spec.EPOCHS_PER_HISTORICAL_VECTOR)-uint64(spec.MIN_SEED_LOOKAHEAD)-1)%uint64(spec.EPOCHS_PER_HISTORICAL_VECTOR)]
	copy(buf[12:], mix[:])
	return common.Root(zzverif.Hash(buf[:]))
}

func vSamplingWorld(n int) (*common.Spec, *BeaconState, *BeaconStateView, []common.ValidatorIndex) {
	spec := common.VTinySpec()
	raw := vNewRaw(spec, n, 3)
	var active []common.ValidatorIndex
	for i := range raw.Validators {
		k := zzverif.NondetU8()
		zzverif.Assume(k >= 16 && k <= 32)
		raw.Validators[i].EffectiveBalance = common.Gwei(k) * spec.EFFECTIVE_BALANCE_INCREMENT
		active = append(active, common.ValidatorIndex(i))
	}
	st, _ := vStateToView(spec, raw)
	return spec, raw, st, active
}

// VerifHarness_C07_sync_indices: ComputeSyncCommitteeIndices equals the spec's get_next_sync_committee_indices (seed,
// candidate walk with wrap-around over a small active set, balance-weighted acceptance), up to the sampling bound.
func VerifHarness_C07_sync_indices() {
	spec, raw, st, active := vSamplingWorld(2)
	base := uint64(spec.SlotToEpoch(raw.Slot)) + 1
	zzverif.StepBudget(zzverif.Param("budget", 60000)) // unwinding assumption: paths needing more candidate draws are outside the bound
	got, err := common.ComputeSyncCommitteeIndices(spec, st, common.Epoch(base), active)
	zzverif.Assert(err == nil, "ComputeSyncCommitteeIndices succeeds")
	seed := vGetSeed(spec, raw, base, common.DOMAIN_SYNC_COMMITTEE)
	var want []uint64
	n := uint64(len(active))
	for i := uint64(0); uint64(len(want)) < uint64(spec.SYNC_COMMITTEE_SIZE); i++ {
		cand := uint64(active[zzverif.Concrete(vShuffledIndex(i%n, n, seed, uint8(spec.SHUFFLE_ROUND_COUNT)))])
		var buf [40]byte
		copy(buf[:32], seed[:])
		binary.LittleEndian.PutUint64(buf[32:], i/32)
		rb := zzverif.Hash(buf[:])[i%32]
		if uint64(raw.Validators[cand].EffectiveBalance)*255 >= uint64(spec.MAX_EFFECTIVE_BALANCE)*uint64(rb) {
			want = append(want, cand)
		}
	}
	zzverif.Reach("sync-indices")
	zzverif.Assert(len(got) == len(want), "sync committee has SYNC_COMMITTEE_SIZE members")
	for i := range want {
		if i < len(got) {
			zzverif.Assert(uint64(got[i]) == want[i], "sync committee member i is the spec's i-th accepted candidate")
		}
	}
}

// VerifHarness_C07_proposer: ComputeProposerIndex equals the spec's compute_proposer_index, up to the sampling bound.
func VerifHarness_C07_proposer() {
	spec, raw, st, active := vSamplingWorld(zzverif.Param("validators", 3))
	var seed common.Root
	seed[0], seed[31] = zzverif.NondetU8(), zzverif.NondetU8()
	vals, _ := st.Validators()
	zzverif.StepBudget(zzverif.Param("budget", 60000))
	got, err := common.ComputeProposerIndex(spec, vals, active, seed)
	zzverif.Assert(err == nil, "ComputeProposerIndex succeeds")
	n := uint64(len(active))
	want := uint64(0)
	for i := uint64(0); ; i++ {
		cand := uint64(active[zzverif.Concrete(vShuffledIndex(i%n, n, seed, uint8(spec.SHUFFLE_ROUND_COUNT)))])
		var buf [40]byte
		copy(buf[:32], seed[:])
		binary.LittleEndian.PutUint64(buf[32:], i/32)
		rb := zzverif.Hash(buf[:])[i%32]
		if uint64(raw.Validators[cand].EffectiveBalance)*255 >= uint64(spec.MAX_EFFECTIVE_BALANCE)*uint64(rb) {
			want = cand
			break
		}
	}
	zzverif.Reach("proposer")
	zzverif.Assert(uint64(got) == want, "proposer == spec's first accepted candidate")
	// and the seed the epoch-level code derives
	s2, err := common.GetSeed(spec, mustMixes(st), common.Epoch(3), common.DOMAIN_BEACON_PROPOSER)
	zzverif.Assert(err == nil && s2 == vGetSeed(spec, raw, 3, common.DOMAIN_BEACON_PROPOSER), "GetSeed == spec get_seed")
}

func mustMixes(st *BeaconStateView) common.RandaoMixes {
	m, _ := st.RandaoMixes()
	return m
}
