package phase0

import (
	"github.com/protolambda/zrnt/eth2/beacon/common"
	"github.com/protolambda/zrnt/eth2/zzverif"
	"github.com/protolambda/ztyp/tree"
)

// group "c08": the integer square root of the (symbolic) total stake is an uninterpreted function (C19 decides it)
const VerifOverrideTarget_c08__isqrt = "github.com/protolambda/zrnt/eth2/util/math.IntegerSquareroot"

func VerifOverride_c08__isqrt(n uint64) uint64 { return zzverif.Opaque64("isqrt", n) }

// the shuffling and proposer sampling themselves are C07's subject: here they are replaced by stubs that keep what
// the context bookkeeping is about (which epoch, which active set, computed from which state)
const VerifOverrideTarget_c08__shuffling = "github.com/protolambda/zrnt/eth2/beacon/common.ComputeShufflingEpoch"

func VerifOverride_c08__shuffling(spec *common.Spec, state common.BeaconState, bounded []common.BoundedIndex, epoch common.Epoch) (*common.ShufflingEpoch, error) {
	act := common.ActiveIndices(bounded, epoch)
	return &common.ShufflingEpoch{Epoch: epoch, ActiveIndices: act, Shuffling: append([]common.ValidatorIndex(nil), act...)}, nil
}

const VerifOverrideTarget_c08__proposers = "github.com/protolambda/zrnt/eth2/beacon/common.ComputeProposers"

func VerifOverride_c08__proposers(spec *common.Spec, state common.BeaconState, epoch common.Epoch, active []common.ValidatorIndex) (*common.ProposersEpoch, error) {
	p := &common.ProposersEpoch{Spec: spec, Epoch: epoch, Proposers: make([]common.ValidatorIndex, spec.SLOTS_PER_EPOCH)}
	if len(active) > 0 {
		p.Proposers[0] = active[0]
	}
	return p, nil
}

func vSameShuffling(a, b *common.ShufflingEpoch, what string) {
	zzverif.Assert(a != nil && b != nil, what+": present")
	if a == nil || b == nil {
		return
	}
	zzverif.Assert(a.Epoch == b.Epoch, what+": epoch")
	zzverif.Assert(len(a.ActiveIndices) == len(b.ActiveIndices) && len(a.Shuffling) == len(b.Shuffling), what+": active set and shuffling sizes")
	if len(a.ActiveIndices) != len(b.ActiveIndices) || len(a.Shuffling) != len(b.Shuffling) {
		return
	}
	for i := range a.ActiveIndices {
		zzverif.Assert(a.ActiveIndices[i] == b.ActiveIndices[i], what+": active indices")
		zzverif.Assert(a.Shuffling[i] == b.Shuffling[i], what+": shuffling")
	}
	zzverif.Assert(len(a.Committees) == len(b.Committees), what+": committees per epoch")
	for s := range a.Committees {
		if s >= len(b.Committees) || len(a.Committees[s]) != len(b.Committees[s]) {
			zzverif.Assert(false, what+": committees per slot")
			return
		}
		for c := range a.Committees[s] {
			zzverif.Assert(len(a.Committees[s][c]) == len(b.Committees[s][c]), what+": committee size")
			for k := range a.Committees[s][c] {
				if k < len(b.Committees[s][c]) {
					zzverif.Assert(a.Committees[s][c][k] == b.Committees[s][c][k], what+": committee members")
				}
			}
		}
	}
}

func vSameContext(live, fresh *common.EpochsContext) {
	vSameShuffling(live.PreviousEpoch, fresh.PreviousEpoch, "previous epoch shuffling")
	vSameShuffling(live.CurrentEpoch, fresh.CurrentEpoch, "current epoch shuffling")
	vSameShuffling(live.NextEpoch, fresh.NextEpoch, "next epoch shuffling")
	zzverif.Assert(live.Proposers != nil && fresh.Proposers != nil && live.Proposers.Epoch == fresh.Proposers.Epoch && len(live.Proposers.Proposers) == len(fresh.Proposers.Proposers), "proposers: epoch")
	for i := range live.Proposers.Proposers {
		zzverif.Assert(live.Proposers.Proposers[i] == fresh.Proposers.Proposers[i], "proposers of the current epoch")
	}
	zzverif.Assert(len(live.EffectiveBalances) == len(fresh.EffectiveBalances), "effective balances: size")
	for i := range live.EffectiveBalances {
		if i < len(fresh.EffectiveBalances) {
			zzverif.Assert(live.EffectiveBalances[i] == fresh.EffectiveBalances[i], "cached effective balances")
		}
	}
	zzverif.Assert(live.TotalActiveStake == fresh.TotalActiveStake, "total active stake")
	zzverif.Assert(live.TotalActiveStakeSqRoot == fresh.TotalActiveStakeSqRoot, "square root of the total active stake")
}

// VerifHarness_C08_rotate: the context maintained across an epoch boundary (RotateEpochs on the post-epoch state) equals
// the context computed from scratch from that state, for validators entering/leaving the active set at the boundary
// and effective balances changed by the epoch transition.
func VerifHarness_C08_rotate() {
	zzverif.UseOverrides("c08")
	spec := common.VTinySpec()
	e := uint64(3)
	raw := vNewRaw(spec, 2, e)
	raw.Slot = common.Slot((e+1)*uint64(spec.SLOTS_PER_EPOCH) - 1)
	v := raw.Validators[1]
	a, x := zzverif.NondetU8(), zzverif.NondetU8()
	zzverif.Assume(a <= 2 && x <= 2)
	v.ActivationEpoch = []common.Epoch{0, common.Epoch(e + 1), common.Epoch(e + 2)}[a]
	v.ExitEpoch = []common.Epoch{common.Epoch(e + 1), common.Epoch(e + 2), vFarFuture}[x]
	st, _ := vStateToView(spec, raw)
	epc, err := common.NewEpochsContext(spec, st)
	zzverif.Assert(err == nil, "NewEpochsContext")
	// the epoch transition: slot advances to the next epoch, effective balances may change
	_ = st.SetSlot(raw.Slot + 1)
	vals, _ := st.Validators()
	v0, _ := vals.Validator(0)
	if zzverif.Choose(2) == 1 {
		_ = v0.SetEffectiveBalance(24000000000)
	}
	zzverif.StepBudget(zzverif.Param("budget", 400000)) // proposer sampling beyond a few rejected candidates is outside the bound
	err = epc.RotateEpochs(st)
	zzverif.Assert(err == nil, "RotateEpochs")
	fresh, err := common.NewEpochsContext(spec, st)
	zzverif.Assert(err == nil, "NewEpochsContext on the post-epoch state")
	zzverif.Reach("rotate")
	vSameContext(epc, fresh)
}

// VerifHarness_C15_context_clone: a cloned context advanced across an epoch boundary on a copied state (whose effective
// balances changed) leaves every observable field of the original context, and the original state, unchanged.
func VerifHarness_C15_context_clone() {
	zzverif.UseOverrides("c08")
	spec := common.VTinySpec()
	e := uint64(3)
	raw := vNewRaw(spec, 2, e)
	raw.Slot = common.Slot((e+1)*uint64(spec.SLOTS_PER_EPOCH) - 1)
	st, _ := vStateToView(spec, raw)
	epc, err := common.NewEpochsContext(spec, st)
	zzverif.Assert(err == nil, "NewEpochsContext")
	var before []common.Gwei
	before = append(before, epc.EffectiveBalances...)
	stake, cur := epc.TotalActiveStake, epc.CurrentEpoch
	h := tree.GetHashFn()
	rootBefore := st.HashTreeRoot(h)
	cpI, err := st.CopyState()
	zzverif.Assert(err == nil, "CopyState")
	cp := cpI.(*BeaconStateView)
	clone := epc.Clone()
	// the sibling advances: effective balance of validator 0 drops, slot enters the next epoch
	vals, _ := cp.Validators()
	v0, _ := vals.Validator(0)
	nb := zzverif.NondetU8()
	zzverif.Assume(nb < 32)
	_ = v0.SetEffectiveBalance(common.Gwei(nb) * spec.EFFECTIVE_BALANCE_INCREMENT)
	_ = cp.SetSlot(raw.Slot + 1)
	zzverif.Assert(clone.RotateEpochs(cp) == nil, "RotateEpochs on the clone")
	zzverif.Reach("context-clone")
	zzverif.Assert(len(epc.EffectiveBalances) == len(before), "original context: effective balances size")
	for i := range before {
		zzverif.Assert(epc.EffectiveBalances[i] == before[i], "original context: cached effective balances unchanged by the sibling")
	}
	zzverif.Assert(epc.TotalActiveStake == stake && epc.CurrentEpoch == cur, "original context: stake and current epoch unchanged by the sibling")
	zzverif.Assert(st.HashTreeRoot(h) == rootBefore, "original state unchanged by mutations of its copy")
}
