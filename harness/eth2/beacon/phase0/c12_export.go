package phase0

import (
	"github.com/protolambda/zrnt/eth2/beacon/common"
	"github.com/protolambda/zrnt/eth2/zzverif"
	"github.com/protolambda/ztyp/tree"
)

// ---- exported for the gossip-validation harnesses (proposer_slashing / attester_slashing topics) ----

// VGoSlashWorldT: an n-validator phase0 world of the tiny preset at epoch 4 with symbolic lifecycle epochs
// (vLifecycleState), symbolic slashed flags and a symbolic fork record (fork epoch <= 4).
type VGoSlashWorldT struct {
	Spec  *common.Spec
	Epc   *common.EpochsContext
	State *BeaconStateView
	N     int
	raw   *BeaconState
	vs    []vVal
	cur   uint64
}

func VGoSlashWorld(n int) *VGoSlashWorldT {
	spec := common.VTinySpec()
	cur := uint64(4)
	raw, vs := vLifecycleState(spec, n, cur)
	vSymFork(spec, raw, cur)
	for i := range raw.Validators {
		raw.Validators[i].Slashed = zzverif.NondetBool()
	}
	st, _ := vStateToView(spec, raw)
	return &VGoSlashWorldT{Spec: spec, Epc: vLightEpc(spec, raw, st), State: st, N: n, raw: raw, vs: vs, cur: cur}
}

// VGoSlashWorldLight: like VGoSlashWorld but built for wider registries: the state is at the first slot of epoch 4,
// each validator has a symbolic slashed flag, activation epoch < 8 and (exit, withdrawable) = (x, x+2) for x < 8 or
// both FAR_FUTURE (chosen by the solver, no path split); the epochs context carries only what the slashing validators
// read (spec, pubkey cache, current epoch number - no active-index list).
func VGoSlashWorldLight(n int) *VGoSlashWorldT {
	spec := common.VTinySpec()
	cur := uint64(4)
	raw := vRawState(spec, 0)
	raw.Slot = common.Slot(cur * uint64(spec.SLOTS_PER_EPOCH))
	raw.LatestBlockHeader.Slot = raw.Slot.Previous()
	var vs []vVal
	for i := 0; i < n; i++ {
		v := &Validator{}
		v.Pubkey[0] = byte(i + 1)
		v.Pubkey[1] = zzverif.NondetU8()
		v.WithdrawalCredentials = vRoot1()
		v.EffectiveBalance = spec.MAX_EFFECTIVE_BALANCE
		v.Slashed = zzverif.NondetBool()
		a, x := zzverif.NondetU8(), zzverif.NondetU8()
		zzverif.Assume(a < 8 && x < 8)
		far := zzverif.NondetBool()
		v.ActivationEpoch = common.Epoch(a)
		v.ExitEpoch = common.Epoch(zzverif.Ite(far, uint64(vFarFuture), uint64(x)))
		v.WithdrawableEpoch = common.Epoch(zzverif.Ite(far, uint64(vFarFuture), uint64(x)+2))
		raw.Validators = append(raw.Validators, v)
		raw.Balances = append(raw.Balances, spec.MAX_EFFECTIVE_BALANCE)
		vs = append(vs, vVal{0, v.ActivationEpoch, v.ExitEpoch, v.WithdrawableEpoch, v.EffectiveBalance})
	}
	raw.Eth1Data.DepositCount = common.DepositIndex(n)
	raw.Eth1DepositIndex = common.DepositIndex(n)
	raw.JustificationBits = common.JustificationBits{0}
	vSymFork(spec, raw, cur)
	st, _ := vStateToView(spec, raw)
	vals, _ := st.Validators()
	pc, err := common.NewPubkeyCache(vals)
	zzverif.Assert(err == nil, "NewPubkeyCache")
	epc := &common.EpochsContext{Spec: spec, ValidatorPubkeyCache: pc, CurrentEpoch: &common.ShufflingEpoch{Epoch: common.Epoch(cur)}}
	return &VGoSlashWorldT{Spec: spec, Epc: epc, State: st, N: n, raw: raw, vs: vs, cur: cur}
}

// VGoProposerSlashing: two signed headers with 8-bit slot, proposer index in 0..3 and one-byte-symbolic roots and
// signatures; slot and proposer of the second header are either those of the first or independent values.
func VGoProposerSlashing() *ProposerSlashing {
	ps := &ProposerSlashing{SignedHeader1: vHeader(), SignedHeader2: vHeader()}
	ps.SignedHeader1.Message.Slot = common.Slot(zzverif.NondetU8())
	ps.SignedHeader1.Message.ProposerIndex = common.ValidatorIndex(zzverif.NondetU8() & 3)
	if zzverif.NondetBool() {
		ps.SignedHeader2.Message.Slot = ps.SignedHeader1.Message.Slot
	}
	if zzverif.NondetBool() {
		ps.SignedHeader2.Message.ProposerIndex = ps.SignedHeader1.Message.ProposerIndex
	}
	return ps
}

// RefLight: the state-independent conditions of process_proposer_slashing (same slot, same proposer, different headers).
func (w *VGoSlashWorldT) RefLight(ps *ProposerSlashing) bool {
	h1, h2 := &ps.SignedHeader1.Message, &ps.SignedHeader2.Message
	return h1.Slot == h2.Slot && h1.ProposerIndex == h2.ProposerIndex && *h1 != *h2
}

// refSlashable: spec is_slashable_validator on the raw inputs.
func (w *VGoSlashWorldT) refSlashable(i int) bool {
	c := common.Epoch(w.cur)
	return !w.raw.Validators[i].Slashed && w.vs[i].act <= c && c < w.vs[i].wd
}

// RefValid: the spec's process_proposer_slashing conditions on this world (same formula as
// VerifHarness_C01_proposer_slashing).
func (w *VGoSlashWorldT) RefValid(ps *ProposerSlashing) bool {
	h1, h2 := &ps.SignedHeader1.Message, &ps.SignedHeader2.Message
	if !(w.RefLight(ps) && int(h1.ProposerIndex) < w.N) {
		return false
	}
	idx := int(zzverif.Concrete(uint64(h1.ProposerIndex)))
	hf := tree.GetHashFn()
	dom := common.ComputeDomain(common.DOMAIN_BEACON_PROPOSER, vVersionAt(w.raw, w.Spec.SlotToEpoch(h1.Slot)), w.raw.GenesisValidatorsRoot)
	r1 := common.ComputeSigningRoot(h1.HashTreeRoot(hf), dom)
	r2 := common.ComputeSigningRoot(h2.HashTreeRoot(hf), dom)
	pub := w.raw.Validators[idx].Pubkey
	return w.refSlashable(idx) &&
		zzverif.BLSPubkeyValid(pub) && zzverif.BLSSigValid(ps.SignedHeader1.Signature) && zzverif.BLSSigValid(ps.SignedHeader2.Signature) &&
		zzverif.BLSVerify(pub, r1[:], ps.SignedHeader1.Signature) && zzverif.BLSVerify(pub, r2[:], ps.SignedHeader2.Signature)
}

// VGoIndexedAtt: an indexed attestation with n attesting indices, each any of 0..3 (3 is outside a 3-validator registry), small
// symbolic source/target epochs and one-byte-symbolic roots and signature.
func VGoIndexedAtt(n int) *IndexedAttestation {
	ia := &IndexedAttestation{Signature: vSig1()}
	se, te := zzverif.NondetU8(), zzverif.NondetU8()
	zzverif.Assume(se < 8 && te < 8)
	ia.Data = AttestationData{Slot: common.Slot(zzverif.NondetU8()), Index: common.CommitteeIndex(zzverif.NondetU8() & 1), BeaconBlockRoot: vRoot1(),
		Source: common.Checkpoint{Epoch: common.Epoch(se), Root: vRoot1()}, Target: common.Checkpoint{Epoch: common.Epoch(te), Root: vRoot1()}}
	for i := 0; i < n; i++ {
		// case-split (not symbolic): symbolic validator indices into the state tree / pubkey cache blow the engine up
		ia.AttestingIndices = append(ia.AttestingIndices, common.ValidatorIndex(zzverif.Concrete(uint64(zzverif.NondetU8()&3))))
	}
	return ia
}

// RefSlashableData: spec is_slashable_attestation_data (double vote or data_1 surrounds data_2).
func (w *VGoSlashWorldT) RefSlashableData(d1, d2 *AttestationData) bool {
	return (*d1 != *d2 && d1.Target.Epoch == d2.Target.Epoch) || (d1.Source.Epoch < d2.Source.Epoch && d2.Target.Epoch < d1.Target.Epoch)
}

// RefIndexSet: the state-independent part of is_valid_indexed_attestation: non-empty, sorted, unique (and within the
// committee-size limit, a bound of the SSZ list type).
func (w *VGoSlashWorldT) RefIndexSet(ia *IndexedAttestation) bool {
	n := len(ia.AttestingIndices)
	if n == 0 || uint64(n) > uint64(w.Spec.MAX_VALIDATORS_PER_COMMITTEE) {
		return false
	}
	for i := 1; i < n; i++ {
		if !(ia.AttestingIndices[i-1] < ia.AttestingIndices[i]) {
			return false
		}
	}
	return true
}

// RefIndexedValid: spec is_valid_indexed_attestation on this world: well-formed index list, every index in the
// registry, FastAggregateVerify of the listed validators' keys over signing_root(data, DOMAIN_BEACON_ATTESTER at the
// target epoch's fork version).
func (w *VGoSlashWorldT) RefIndexedValid(ia *IndexedAttestation) bool {
	if !w.RefIndexSet(ia) {
		return false
	}
	var pubs [][48]byte
	ok := true
	for _, vi := range ia.AttestingIndices {
		if int(vi) >= w.N {
			return false
		}
		p := w.raw.Validators[int(zzverif.Concrete(uint64(vi)))].Pubkey
		ok = ok && zzverif.BLSPubkeyValid(p)
		pubs = append(pubs, [48]byte(p))
	}
	dom := common.ComputeDomain(common.DOMAIN_BEACON_ATTESTER, vVersionAt(w.raw, ia.Data.Target.Epoch), w.raw.GenesisValidatorsRoot)
	root := common.ComputeSigningRoot(ia.Data.HashTreeRoot(tree.GetHashFn()), dom)
	return ok && zzverif.BLSSigValid(ia.Signature) && zzverif.BLSFastAggregateVerify(pubs, root[:], ia.Signature)
}

// RefSlashableOf: the members of `indices` that are in the registry and is_slashable_validator at the current epoch,
// in order.
func (w *VGoSlashWorldT) RefSlashableOf(indices []common.ValidatorIndex) []common.ValidatorIndex {
	var out []common.ValidatorIndex
	for _, vi := range indices {
		if int(vi) < w.N && w.refSlashable(int(zzverif.Concrete(uint64(vi)))) {
			out = append(out, vi)
		}
	}
	return out
}
