package phase0

import (
	"github.com/protolambda/zrnt/eth2/beacon/common"
	"github.com/protolambda/zrnt/eth2/zzverif"
)

// ---- exported for the gossip-validation harnesses (beacon_aggregate_and_proof topic) ----

// VG3WorldT: a phase0 state (tree-backed view decoded from the struct form's SSZ) with n always-active validators
// whose pubkeys have one symbolic byte (byte 0 = index+1 keeps them pairwise distinct), a symbolic genesis validators
// root (two bytes) and a symbolic fork record (previous version 00000001, current version 01000001, 8-bit fork epoch).
// Every other leaf is whatever vRawState produces (symbolic scalars); the gossip validators read only the registry
// length, the fork record and the genesis validators root.
type VG3WorldT struct {
	Spec  *common.Spec
	State *BeaconStateView
	N     int
	raw   *BeaconState
}

func VG3World(spec *common.Spec, n int, slot common.Slot) *VG3WorldT {
	raw := vRawState(spec, 0)
	raw.Slot = slot
	raw.LatestBlockHeader.Slot = 0
	for i := 0; i < n; i++ {
		v := &Validator{}
		v.Pubkey[0] = byte(i + 1)
		if i < 4 {
			v.Pubkey[1] = zzverif.NondetU8()
		}
		v.WithdrawalCredentials[0] = 1
		v.EffectiveBalance = spec.MAX_EFFECTIVE_BALANCE
		v.ActivationEpoch = 0
		v.ExitEpoch = vFarFuture
		v.WithdrawableEpoch = vFarFuture
		raw.Validators = append(raw.Validators, v)
		raw.Balances = append(raw.Balances, spec.MAX_EFFECTIVE_BALANCE)
	}
	raw.Eth1Data.DepositCount = common.DepositIndex(n)
	raw.Eth1DepositIndex = common.DepositIndex(n)
	raw.JustificationBits = common.JustificationBits{0}
	raw.Fork = common.Fork{PreviousVersion: common.Version{0, 0, 0, 1}, CurrentVersion: common.Version{1, 0, 0, 1}, Epoch: common.Epoch(zzverif.NondetU8())}
	st, _ := vStateToView(spec, raw)
	return &VG3WorldT{Spec: spec, State: st, N: n, raw: raw}
}

// Pubkey: state.validators[i].pubkey of the struct form the view was built from.
func (w *VG3WorldT) Pubkey(i int) common.BLSPubkey { return w.raw.Validators[i].Pubkey }

// Domain: spec get_domain(state, typ, epoch) on the struct form: fork.previous_version strictly before fork.epoch,
// fork.current_version from it on; compute_domain with the state's genesis_validators_root.
func (w *VG3WorldT) Domain(typ common.BLSDomainType, epoch common.Epoch) common.BLSDomain {
	return common.ComputeDomain(typ, vVersionAt(w.raw, epoch), w.raw.GenesisValidatorsRoot)
}

// PubkeyCache: index -> pubkey table holding exactly the registry's keys.
func (w *VG3WorldT) PubkeyCache() *common.PubkeyCache {
	vals, _ := w.State.Validators()
	pc, err := common.NewPubkeyCache(vals)
	zzverif.Assert(err == nil, "NewPubkeyCache")
	return pc
}
