package phase0

import (
	"github.com/protolambda/zrnt/eth2/beacon/common"
	"github.com/protolambda/zrnt/eth2/zzverif"
	"github.com/protolambda/ztyp/tree"
)

// spec: is_valid_merkle_branch
func vMerkleBranchOK(leaf common.Root, branch []common.Root, depth uint64, index uint64, root common.Root) bool {
	value := leaf
	for i := uint64(0); i < depth; i++ {
		var buf [64]byte
		if (index>>i)&1 == 1 {
			copy(buf[:32], branch[i][:])
			copy(buf[32:], value[:])
		} else {
			copy(buf[:32], value[:])
			copy(buf[32:], branch[i][:])
		}
		value = common.Root(zzverif.Hash(buf[:]))
	}
	return value == root
}

// VerifHarness_C13_apply_deposit: ProcessDeposit equals the spec's process_deposit / apply_deposit: Merkle proof against
// eth1_data.deposit_root at eth1_deposit_index (block invalid otherwise), index always incremented, new pubkeys need a
// valid proof of possession under the fork-agnostic deposit domain (else skipped), known pubkeys are topped up, new
// validators get the rounded and capped effective balance; a pubkey the shared cache knows only beyond this state's
// registry counts as new; the context's pubkey cache afterwards matches the registry.
func VerifHarness_C13_apply_deposit() {
	spec := common.VTinySpec()
	n := 2
	raw := vNewRaw(spec, n, 3)
	idx := uint8(zzverif.Choose(4)) // concrete deposit index: the branch orientation per level is then concrete on both sides
	raw.Eth1DepositIndex = common.DepositIndex(idx)
	raw.Eth1Data.DepositCount = common.DepositIndex(idx) + 1
	st, _ := vStateToView(spec, raw)
	epc := vLightEpc(spec, raw, st)
	// a sibling branch already registered another validator in the shared cache
	var extra common.BLSPubkey
	extra[0], extra[1] = 9, zzverif.NondetU8()
	withExtra := zzverif.Choose(2) == 1
	if withExtra {
		pc, err := epc.ValidatorPubkeyCache.AddValidator(common.ValidatorIndex(n), extra)
		zzverif.Assert(err == nil, "cache accepts the sibling's validator")
		epc.ValidatorPubkeyCache = pc
	}
	var fresh common.BLSPubkey
	fresh[0], fresh[1] = 7, zzverif.NondetU8()
	dep := &common.Deposit{}
	who := zzverif.Choose(3)
	switch who {
	case 0:
		dep.Data.Pubkey = raw.Validators[zzverif.Choose(n)].Pubkey
	case 1:
		dep.Data.Pubkey = extra
	case 2:
		dep.Data.Pubkey = fresh
	}
	dep.Data.WithdrawalCredentials = vRoot1()
	amt := zzverif.NondetU64()
	zzverif.Assume(amt < 1<<40)
	dep.Data.Amount = common.Gwei(amt)
	dep.Data.Signature = vSig1()
	dep.Proof[0], dep.Proof[1], dep.Proof[32] = vRoot1(), vRoot1(), vRoot1()
	h := tree.GetHashFn()
	zzverif.Reach("apply-deposit")
	err := ProcessDeposit(spec, epc, st, dep, false)
	// reference
	proofOK := vMerkleBranchOK(dep.Data.HashTreeRoot(h), dep.Proof[:], common.DEPOSIT_CONTRACT_TREE_DEPTH+1, uint64(idx), raw.Eth1Data.DepositRoot)
	zzverif.Assert((err == nil) == proofOK, "a deposit is valid exactly when its Merkle proof verifies against eth1_data.deposit_root at eth1_deposit_index")
	gotIdx, _ := st.Eth1DepositIndex()
	vals, _ := st.Validators()
	cnt, _ := vals.ValidatorCount()
	bals, _ := st.Balances()
	if !proofOK {
		zzverif.Assert(uint64(gotIdx) == uint64(idx) && cnt == uint64(n), "an invalid deposit changes nothing")
		return
	}
	zzverif.Assert(uint64(gotIdx) == uint64(idx)+1, "eth1_deposit_index advances for every processed deposit, applied or skipped")
	known := -1
	for i := 0; i < n; i++ {
		if raw.Validators[i].Pubkey == dep.Data.Pubkey {
			known = i
		}
	}
	if known >= 0 {
		zzverif.Assert(cnt == uint64(n), "a repeated pubkey adds no validator")
		b, _ := bals.GetBalance(common.ValidatorIndex(known))
		zzverif.Assert(uint64(b) == uint64(raw.Balances[known])+amt, "a repeated pubkey is a top-up of that validator")
		return
	}
	dom := common.ComputeDomain(common.DOMAIN_DEPOSIT, spec.GENESIS_FORK_VERSION, common.Root{})
	// spec: deposit_message = DepositMessage(pubkey, withdrawal_credentials, amount); the signing root is over ITS root
	msg := common.DepositMessage{Pubkey: dep.Data.Pubkey, WithdrawalCredentials: dep.Data.WithdrawalCredentials, Amount: dep.Data.Amount}
	root := common.ComputeSigningRoot(msg.HashTreeRoot(tree.GetHashFn()), dom)
	pop := zzverif.BLSPubkeyValid(dep.Data.Pubkey) && zzverif.BLSSigValid(dep.Data.Signature) && zzverif.BLSVerify(dep.Data.Pubkey, root[:], dep.Data.Signature)
	if !pop {
		zzverif.Assert(cnt == uint64(n), "a new pubkey without a valid proof of possession is skipped")
		return
	}
	zzverif.Assert(cnt == uint64(n)+1, "a new pubkey with a valid proof of possession becomes a validator (also when a sibling history knows it)")
	if cnt != uint64(n)+1 {
		return
	}
	v, _ := vals.Validator(common.ValidatorIndex(n))
	pk, _ := v.Pubkey()
	wc, _ := v.WithdrawalCredentials()
	eb, _ := v.EffectiveBalance()
	ae, _ := v.ActivationEligibilityEpoch()
	ac, _ := v.ActivationEpoch()
	ex, _ := v.ExitEpoch()
	we, _ := v.WithdrawableEpoch()
	sl, _ := v.Slashed()
	wantEff := amt - amt%uint64(spec.EFFECTIVE_BALANCE_INCREMENT)
	if wantEff > uint64(spec.MAX_EFFECTIVE_BALANCE) {
		wantEff = uint64(spec.MAX_EFFECTIVE_BALANCE)
	}
	zzverif.Assert(pk == dep.Data.Pubkey && wc == dep.Data.WithdrawalCredentials && uint64(eb) == wantEff && !sl &&
		ae == vFarFuture && ac == vFarFuture && ex == vFarFuture && we == vFarFuture, "the new validator is the spec's get_validator_from_deposit")
	b, _ := bals.GetBalance(common.ValidatorIndex(n))
	zzverif.Assert(uint64(b) == amt, "the new validator's balance is the deposit amount")
	// the context's pubkey cache follows the registry of this state
	gi, ok := epc.ValidatorPubkeyCache.ValidatorIndex(dep.Data.Pubkey)
	zzverif.Assert(ok && int(gi) == n, "pubkey cache maps the new pubkey to its index")
	cp, ok := epc.ValidatorPubkeyCache.Pubkey(common.ValidatorIndex(n))
	zzverif.Assert(ok && cp.Compressed == dep.Data.Pubkey, "pubkey cache maps the new index to its pubkey")
}
