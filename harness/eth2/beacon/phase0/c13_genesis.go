package phase0

import (
	"github.com/protolambda/zrnt/eth2/beacon/common"
	"github.com/protolambda/zrnt/eth2/zzverif"
	"github.com/protolambda/ztyp/tree"
)

// VerifHarness_C13_genesis: GenesisFromEth1 (deposit proofs and proofs of possession not checked, as in the kick-start
// path) against the spec's initialize_beacon_state_from_eth1: genesis time, fork, header body root, randao seeding,
// eth1 data with the incremental deposit root and count, deposit index, repeated pubkeys as top-ups, undecodable keys
// and signatures skipped, effective balances recomputed from the final balances, activation of full-balance
// validators, genesis validators root - compared through the whole state root against the struct form of the
// expected state - and IsValidGenesisState against the spec predicate.
func VerifHarness_C13_genesis() {
	zzverif.UseOverrides("c08") // shuffling/proposers of the returned context are C07's subject
	spec := common.VTinySpec()
	nDep := zzverif.Param("deposits", 3)
	var pool [2]common.BLSPubkey
	pool[0][0], pool[1][0] = 1, 2
	pool[0][1], pool[1][1] = zzverif.NondetU8(), zzverif.NondetU8()
	amounts := []common.Gwei{16000000000, 32000000000, 1000000000, 40000000000}
	var deps []common.Deposit
	for i := 0; i < nDep; i++ {
		d := common.Deposit{}
		d.Data.Pubkey = pool[zzverif.Choose(2)]
		d.Data.WithdrawalCredentials = vRoot1()
		d.Data.Amount = amounts[zzverif.Choose(len(amounts))]
		d.Data.Signature = vSig1()
		deps = append(deps, d)
	}
	blockHash := vRoot1()
	t := zzverif.NondetU64()
	zzverif.Assume(t < 1<<40)
	st, epc, err := GenesisFromEth1(spec, blockHash, common.Timestamp(t), deps, true)
	// reference
	h := tree.GetHashFn()
	want := &BeaconState{}
	want.GenesisTime = common.Timestamp(t) + spec.GENESIS_DELAY
	want.Fork = common.Fork{PreviousVersion: spec.GENESIS_FORK_VERSION, CurrentVersion: spec.GENESIS_FORK_VERSION, Epoch: 0}
	empty := BeaconBlockBody{}
	want.LatestBlockHeader = common.BeaconBlockHeader{BodyRoot: empty.HashTreeRoot(spec, h)}
	want.BlockRoots = make([]common.Root, spec.SLOTS_PER_HISTORICAL_ROOT)
	want.StateRoots = make([]common.Root, spec.SLOTS_PER_HISTORICAL_ROOT)
	want.RandaoMixes = make([]common.Root, spec.EPOCHS_PER_HISTORICAL_VECTOR)
	for i := range want.RandaoMixes {
		want.RandaoMixes[i] = blockHash
	}
	want.Slashings = make([]common.Gwei, spec.EPOCHS_PER_SLASHINGS_VECTOR)
	want.JustificationBits = common.JustificationBits{0}
	var leaves []common.Root
	for i := range deps {
		leaves = append(leaves, deps[i].Data.HashTreeRoot(h))
	}
	want.Eth1Data = common.Eth1Data{
		DepositRoot:  h.ComplexListHTR(func(i uint64) tree.HTR { return &leaves[i] }, uint64(len(leaves)), 1<<common.DEPOSIT_CONTRACT_TREE_DEPTH),
		DepositCount: common.DepositIndex(nDep), BlockHash: blockHash}
	want.Eth1DepositIndex = common.DepositIndex(nDep)
	for i := range deps {
		d := &deps[i].Data
		known := -1
		for k, v := range want.Validators {
			if v.Pubkey == d.Pubkey {
				known = k
			}
		}
		if known >= 0 {
			want.Balances[known] += d.Amount
			continue
		}
		if !(zzverif.BLSPubkeyValid(d.Pubkey) && zzverif.BLSSigValid(d.Signature)) {
			continue // undecodable key or signature: skipped
		}
		eff := d.Amount - d.Amount%spec.EFFECTIVE_BALANCE_INCREMENT
		if eff > spec.MAX_EFFECTIVE_BALANCE {
			eff = spec.MAX_EFFECTIVE_BALANCE
		}
		want.Validators = append(want.Validators, &Validator{Pubkey: d.Pubkey, WithdrawalCredentials: d.WithdrawalCredentials, EffectiveBalance: eff,
			ActivationEligibilityEpoch: vFarFuture, ActivationEpoch: vFarFuture, ExitEpoch: vFarFuture, WithdrawableEpoch: vFarFuture})
		want.Balances = append(want.Balances, d.Amount)
	}
	active := 0
	for i, v := range want.Validators {
		b := want.Balances[i]
		v.EffectiveBalance = b - b%spec.EFFECTIVE_BALANCE_INCREMENT
		if v.EffectiveBalance > spec.MAX_EFFECTIVE_BALANCE {
			v.EffectiveBalance = spec.MAX_EFFECTIVE_BALANCE
		}
		if v.EffectiveBalance == spec.MAX_EFFECTIVE_BALANCE {
			v.ActivationEligibilityEpoch, v.ActivationEpoch = 0, 0
			active++
		}
	}
	want.GenesisValidatorsRoot = want.Validators.HashTreeRoot(spec, h)
	zzverif.Reach("genesis")
	enough := uint64(len(want.Validators)) >= uint64(spec.SLOTS_PER_EPOCH)
	if !enough {
		return // the library refuses to build a state with fewer validators than slots per epoch (documented limitation)
	}
	if active == 0 {
		return // no active validator: the context cannot compute proposers; genesis is not triggered in the spec either
	}
	zzverif.Assert(err == nil && st != nil && epc != nil, "GenesisFromEth1 succeeds on decodable deposits")
	if err != nil || st == nil {
		return
	}
	zzverif.Assert(st.HashTreeRoot(h) == want.HashTreeRoot(spec, h), "the genesis state is field-for-field the spec's initialize_beacon_state_from_eth1")
	for i, v := range want.Validators {
		pi, ok := epc.ValidatorPubkeyCache.ValidatorIndex(v.Pubkey)
		zzverif.Assert(ok && int(pi) == i, "the genesis context's pubkey cache follows the registry")
	}
	okGen, gerr := IsValidGenesisState(spec, st)
	zzverif.Assert(gerr == nil && okGen == (want.GenesisTime >= spec.MIN_GENESIS_TIME && uint64(active) >= uint64(spec.MIN_GENESIS_ACTIVE_VALIDATOR_COUNT)), "IsValidGenesisState == spec is_valid_genesis_state")
}
