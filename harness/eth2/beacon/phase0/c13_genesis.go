package phase0

import (
	"github.com/protolambda/zrnt/eth2/beacon/common"
	"github.com/protolambda/zrnt/eth2/zzverif"
	"github.com/protolambda/ztyp/tree"
)

// VerifHarness_C13_genesis: GenesisFromEth1 (deposit proofs and proofs of possession not checked, as in the kick-start
// path) against the spec's initialize_beacon_state_from_eth1: genesis time, fork, header body root, randao seeding,
// eth1 data with the incremental deposit root and count, deposit index, repeated pubkeys as top-ups, undecodable keys
// and signatures skipped, effective balances recomputed from the final balances, activation of full-balance
// validators, genesis validators root - compared through the whole state root against the struct form of the
// expected state - and IsValidGenesisState against the spec predicate.
func VerifHarness_C13_genesis() {
	zzverif.UseOverrides("c08") // shuffling/proposers of the returned context are C07's subject
	spec := common.VTinySpec()
	nDep := zzverif.Param("deposits", 3)
	var pool [2]common.BLSPubkey
	pool[0][0], pool[1][0] = 1, 2
	pool[0][1], pool[1][1] = zzverif.NondetU8(), zzverif.NondetU8()
	amounts := []common.Gwei{16000000000, 32000000000, 1000000000, 40000000000}
	var deps []common.Deposit
	for i := 0; i < nDep; i++ {
		d := common.Deposit{}
		d.Data.Pubkey = pool[zzverif.Choose(2)]
		d.Data.WithdrawalCredentials = vRoot1()
		d.Data.Amount = amounts[zzverif.Choose(len(amounts))]
		d.Data.Signature = vSig1()
		deps = append(deps, d)
	}
	blockHash := vRoot1()
	t := zzverif.NondetU64()
	zzverif.Assume(t < 1<<40)
	st, epc, err := GenesisFromEth1(spec, blockHash, common.Timestamp(t), deps, true)
	// reference
	h := tree.GetHashFn()
	want := &BeaconState{}
	want.GenesisTime = common.Timestamp(t) + spec.GENESIS_DELAY
	want.Fork = common.Fork{PreviousVersion: spec.GENESIS_FORK_VERSION, CurrentVersion: spec.GENESIS_FORK_VERSION, Epoch: 0}
	empty := BeaconBlockBody{}
	want.LatestBlockHeader = common.BeaconBlockHeader{BodyRoot: empty.HashTreeRoot(spec, h)}
	want.BlockRoots = make([]common.Root, spec.SLOTS_PER_HISTORICAL_ROOT)
	want.StateRoots = make([]common.Root, spec.SLOTS_PER_HISTORICAL_ROOT)
	want.RandaoMixes = make([]common.Root, spec.EPOCHS_PER_HISTORICAL_VECTOR)
	for i := range want.RandaoMixes {
		want.RandaoMixes[i] = blockHash
	}
	want.Slashings = make([]common.Gwei, spec.EPOCHS_PER_SLASHINGS_VECTOR)
	want.JustificationBits = common.JustificationBits{0}
	var leaves []common.Root
	for i := range deps {
		leaves = append(leaves, deps[i].Data.HashTreeRoot(h))
	}
	want.Eth1Data = common.Eth1Data{
		DepositRoot:  h.ComplexListHTR(func(i uint64) tree.HTR { return &leaves[i] }, uint64(len(leaves)), 1<<common.DEPOSIT_CONTRACT_TREE_DEPTH),
		DepositCount: common.DepositIndex(nDep), BlockHash: blockHash}
	want.Eth1DepositIndex = common.DepositIndex(nDep)
	for i := range deps {
		d := &deps[i].Data
		known := -1
		for k, v := range want.Validators {
			if v.Pubkey == d.Pubkey {
				known = k
			}
		}
		if known >= 0 {
			want.Balances[known] += d.Amount
			continue
		}
		if !(zzverif.BLSPubkeyValid(d.Pubkey) && zzverif.BLSSigValid(d.Signature)) {
			continue // undecodable key or signature: skipped
		}
		eff := d.Amount - d.Amount%spec.EFFECTIVE_BALANCE_INCREMENT
		if eff > spec.MAX_EFFECTIVE_BALANCE {
			eff = spec.MAX_EFFECTIVE_BALANCE
		}
		want.Validators = append(want.Validators, &Validator{Pubkey: d.Pubkey, WithdrawalCredentials: d.WithdrawalCredentials, EffectiveBalance: eff,
			ActivationEligibilityEpoch: vFarFuture, ActivationEpoch: vFarFuture, ExitEpoch: vFarFuture, WithdrawableEpoch: vFarFuture})
		want.Balances = append(want.Balances, d.Amount)
	}
	active := 0
	for i, v := range want.Validators {
		b := want.Balances[i]
		v.EffectiveBalance = b - b%spec.EFFECTIVE_BALANCE_INCREMENT
		if v.EffectiveBalance > spec.MAX_EFFECTIVE_BALANCE {
			v.EffectiveBalance = spec.MAX_EFFECTIVE_BALANCE
		}
		if v.EffectiveBalance == spec.MAX_EFFECTIVE_BALANCE {
			v.ActivationEligibilityEpoch, v.ActivationEpoch = 0, 0
			active++
		}
	}
	want.GenesisValidatorsRoot = want.Validators.HashTreeRoot(spec, h)
	zzverif.Reach("genesis")
	enough := uint64(len(want.Validators)) >= uint64(spec.SLOTS_PER_EPOCH)
	if !enough {
		return // the library refuses to build a state with fewer validators than slots per epoch (documented limitation)
	}
	if active == 0 {
		return // no active validator: the context cannot compute proposers; genesis is not triggered in the spec either
	}
	zzverif.Assert(err == nil && st != nil && epc != nil, "GenesisFromEth1 succeeds on decodable deposits")
	if err != nil || st == nil {
		return
	}
	zzverif.Assert(st.HashTreeRoot(h) == want.HashTreeRoot(spec, h), "the genesis state is field-for-field the spec's initialize_beacon_state_from_eth1")
	for i, v := range want.Validators {
		pi, ok := epc.ValidatorPubkeyCache.ValidatorIndex(v.Pubkey)
		zzverif.Assert(ok && int(pi) == i, "the genesis context's pubkey cache follows the registry")
	}
	okGen, gerr := IsValidGenesisState(spec, st)
	zzverif.Assert(gerr == nil && okGen == (want.GenesisTime >= spec.MIN_GENESIS_TIME && uint64(active) >= uint64(spec.MIN_GENESIS_ACTIVE_VALIDATOR_COUNT)), "IsValidGenesisState == spec is_valid_genesis_state")
}

func vGpHash2(a, b common.Root) common.Root {
	var buf [64]byte
	copy(buf[:32], a[:])
	copy(buf[32:], b[:])
	return common.Root(zzverif.Hash(buf[:]))
}

// VerifHarness_C13_genesis_proofs: GenesisFromEth1 with signatures and proofs CHECKED (the eth1 path, not the kick-start
// path): as initialize_beacon_state_from_eth1 prescribes, deposit i is verified against the root of the deposit list
// deposits[:i+1] - so a list of 2..3 deposits carrying the incremental Merkle proofs (33 nodes: the depth-32 branch of
// leaf i in the tree of i+1 leaves, then the length mix-in) and valid proofs of possession yields a genesis state with
// one validator per (distinct) pubkey.
// Bounds: 2..3 deposits of distinct pubkeys, 32 ETH each; hash and BLS uninterpreted.
func VerifHarness_C13_genesis_proofs() {
	zzverif.UseOverrides("c08")
	spec := common.VTinySpec()
	n := 2 + zzverif.Choose(2) // the implementation needs at least SLOTS_PER_EPOCH (2) validators
	bad := zzverif.Choose(3) // 0: all proofs valid; 1: sibling at level 0 of the last deposit wrong; 2: its length mix-in wrong
	h := tree.GetHashFn()
	var zero [33]common.Root
	for l := 1; l < 33; l++ {
		zero[l] = vGpHash2(zero[l-1], zero[l-1])
	}
	deps := make([]common.Deposit, n)
	var leaves []common.Root
	for i := 0; i < n; i++ {
		d := &deps[i]
		d.Data.Pubkey[0], d.Data.Pubkey[1] = byte(i+1), zzverif.NondetU8()
		d.Data.WithdrawalCredentials = vRoot1()
		d.Data.Amount = spec.MAX_EFFECTIVE_BALANCE
		d.Data.Signature = vSig1()
		leaves = append(leaves, d.Data.HashTreeRoot(h))
		dom := common.ComputeDomain(common.DOMAIN_DEPOSIT, spec.GENESIS_FORK_VERSION, common.Root{})
		msg := common.DepositMessage{Pubkey: d.Data.Pubkey, WithdrawalCredentials: d.Data.WithdrawalCredentials, Amount: d.Data.Amount}
		sr := common.ComputeSigningRoot(msg.HashTreeRoot(h), dom)
		zzverif.Assume(zzverif.BLSPubkeyValid(d.Data.Pubkey) && zzverif.BLSSigValid(d.Data.Signature) && zzverif.BLSVerify(d.Data.Pubkey, sr[:], d.Data.Signature))
		// branch of leaf i in the tree holding leaves[0..i]
		for l := 0; l < 32; l++ {
			d.Proof[l] = zero[l]
		}
		if i == 1 {
			d.Proof[0] = leaves[0]
		}
		if i == 2 {
			d.Proof[1] = vGpHash2(leaves[0], leaves[1])
		}
		d.Proof[32][0] = byte(i + 1) // length mix-in: i+1 as a little-endian uint256
	}
	last := &deps[n-1]
	switch bad {
	case 1:
		last.Proof[0][5] ^= 1
	case 2:
		last.Proof[32][0] ^= 3
	}
	blockHash := vRoot1()
	zzverif.Reach("genesis-proofs")
	st, _, err := GenesisFromEth1(spec, blockHash, 1000, deps, false)
	if bad != 0 {
		// the corrupted node changes the recomputed root (no hash collision assumed for these two inputs)
		return
	}
	zzverif.Assert(err == nil, "genesis from deposits with valid incremental proofs and signatures succeeds")
	if err != nil {
		return
	}
	vals, _ := st.Validators()
	cnt, _ := vals.ValidatorCount()
	zzverif.Assert(cnt == uint64(n), "every deposit with a valid proof and proof of possession becomes a validator")
	di, _ := st.Eth1DepositIndex()
	zzverif.Assert(uint64(di) == uint64(n), "eth1_deposit_index counts the processed deposits")
	e1, _ := st.Eth1Data()
	zzverif.Assert(uint64(e1.DepositCount) == uint64(n), "eth1_data.deposit_count is the number of deposits")
	for i := 0; i < n; i++ {
		v, _ := vals.Validator(common.ValidatorIndex(i))
		pk, _ := v.Pubkey()
		ae, _ := v.ActivationEpoch()
		zzverif.Assert(pk == deps[i].Data.Pubkey && ae == 0, "validator i is deposit i's key, active from genesis with a full deposit")
	}
}
