package phase0

import (
	"bytes"

	"github.com/protolambda/zrnt/eth2/beacon/common"
	"github.com/protolambda/zrnt/eth2/zzverif"
	"github.com/protolambda/ztyp/codec"
	"github.com/protolambda/ztyp/tree"
)

// VerifHarness_C15_getters: every getter of a state loaded from encoded bytes returns the field of the struct that was encoded.
func VerifHarness_C15_getters() {
	spec := common.VTinySpec()
	raw := vRawState(spec, 2)
	st, _ := vStateToView(spec, raw)
	zzverif.Reach("getters")
	gt, e1 := st.GenesisTime()
	zzverif.Assert(e1 == nil && gt == raw.GenesisTime, "GenesisTime()")
	gvr, e2 := st.GenesisValidatorsRoot()
	zzverif.Assert(e2 == nil && gvr == raw.GenesisValidatorsRoot, "GenesisValidatorsRoot()")
	sl, e3 := st.Slot()
	zzverif.Assert(e3 == nil && sl == raw.Slot, "Slot()")
	fk, e4 := st.Fork()
	zzverif.Assert(e4 == nil && fk == raw.Fork, "Fork()")
	lh, e5 := st.LatestBlockHeader()
	zzverif.Assert(e5 == nil && lh != nil && *lh == raw.LatestBlockHeader, "LatestBlockHeader()")
	ed, e6 := st.Eth1Data()
	zzverif.Assert(e6 == nil && ed == raw.Eth1Data, "Eth1Data()")
	di, e7 := st.Eth1DepositIndex()
	zzverif.Assert(e7 == nil && di == raw.Eth1DepositIndex, "Eth1DepositIndex()")
	jb, e8 := st.JustificationBits()
	zzverif.Assert(e8 == nil && jb == raw.JustificationBits, "JustificationBits()")
	pj, e9 := st.PreviousJustifiedCheckpoint()
	zzverif.Assert(e9 == nil && pj == raw.PreviousJustifiedCheckpoint, "PreviousJustifiedCheckpoint()")
	cj, e10 := st.CurrentJustifiedCheckpoint()
	zzverif.Assert(e10 == nil && cj == raw.CurrentJustifiedCheckpoint, "CurrentJustifiedCheckpoint()")
	fc, e11 := st.FinalizedCheckpoint()
	zzverif.Assert(e11 == nil && fc == raw.FinalizedCheckpoint, "FinalizedCheckpoint()")
	// typed sub-views: element they name
	br, _ := st.BlockRoots()
	sr, _ := st.StateRoots()
	for i := range raw.BlockRoots {
		r, err := br.GetRoot(common.Slot(i))
		zzverif.Assert(err == nil && r == raw.BlockRoots[i], "BlockRoots().GetRoot(slot)")
		r2, err := sr.GetRoot(common.Slot(i))
		zzverif.Assert(err == nil && r2 == raw.StateRoots[i], "StateRoots().GetRoot(slot)")
	}
	mixes, _ := st.RandaoMixes()
	for i := range raw.RandaoMixes {
		m, err := mixes.GetRandomMix(common.Epoch(i))
		zzverif.Assert(err == nil && m == raw.RandaoMixes[i], "RandaoMixes().GetRandomMix(epoch)")
	}
	sls, _ := st.Slashings()
	for i := range raw.Slashings {
		s, err := sls.GetSlashingsValue(common.Epoch(i))
		zzverif.Assert(err == nil && s == raw.Slashings[i], "Slashings().GetSlashingsValue(epoch)")
	}
	vals, _ := st.Validators()
	bals, _ := st.Balances()
	n, err := vals.ValidatorCount()
	zzverif.Assert(err == nil && n == uint64(len(raw.Validators)), "Validators().ValidatorCount()")
	for i, rv := range raw.Validators {
		v, err := vals.Validator(common.ValidatorIndex(i))
		zzverif.Assert(err == nil, "Validators().Validator(i)")
		if err != nil {
			return
		}
		pk, _ := v.Pubkey()
		wc, _ := v.WithdrawalCredentials()
		eb, _ := v.EffectiveBalance()
		sd, _ := v.Slashed()
		ae, _ := v.ActivationEligibilityEpoch()
		ac, _ := v.ActivationEpoch()
		ex, _ := v.ExitEpoch()
		we, _ := v.WithdrawableEpoch()
		zzverif.Assert(pk == rv.Pubkey && wc == rv.WithdrawalCredentials && eb == rv.EffectiveBalance && sd == rv.Slashed &&
			ae == rv.ActivationEligibilityEpoch && ac == rv.ActivationEpoch && ex == rv.ExitEpoch && we == rv.WithdrawableEpoch, "validator sub-view reads the fields of validator i")
		b, err := bals.GetBalance(common.ValidatorIndex(i))
		zzverif.Assert(err == nil && b == raw.Balances[i], "Balances().GetBalance(i)")
	}
	_, err = vals.Validator(common.ValidatorIndex(len(raw.Validators)))
	zzverif.Assert(err != nil, "Validators().Validator(out of range) is an error, not a panic")
}

func vReroot(spec *common.Spec, st *BeaconStateView) common.Root {
	// root of the same content rebuilt from scratch out of its encoding
	var buf bytes.Buffer
	err := st.Serialize(codec.NewEncodingWriter(&buf))
	zzverif.Assert(err == nil, "state view serializes")
	data := buf.Bytes()
	v, err := AsBeaconStateView(BeaconStateType(spec).Deserialize(codec.NewDecodingReader(bytes.NewReader(data), uint64(len(data)))))
	zzverif.Assert(err == nil, "state view bytes decode")
	return v.HashTreeRoot(tree.GetHashFn())
}

// VerifHarness_C15_setters: each setter changes exactly its field: afterwards the getter returns the value, the state's
// root equals the struct-form root of the original content with only that field replaced (frame condition through the
// uninterpreted hash), the root equals the root rebuilt from the encoding (no stale cache), and a copy taken before
// is unchanged.
func VerifHarness_C15_setters() {
	spec := common.VTinySpec()
	raw := vRawState(spec, 2)
	st, _ := vStateToView(spec, raw)
	h := tree.GetHashFn()
	cpI, err := st.CopyState()
	zzverif.Assert(err == nil, "CopyState succeeds")
	cp := cpI.(*BeaconStateView)
	before := raw.HashTreeRoot(spec, h)
	which := zzverif.Choose(14)
	zzverif.Reach("setters")
	switch which {
	case 0:
		x := common.Timestamp(zzverif.NondetU64())
		zzverif.Assert(st.SetGenesisTime(x) == nil, "SetGenesisTime")
		raw.GenesisTime = x
		g, _ := st.GenesisTime()
		zzverif.Assert(g == x, "GenesisTime() returns the stored value")
	case 1:
		x := vRoot1()
		zzverif.Assert(st.SetGenesisValidatorsRoot(x) == nil, "SetGenesisValidatorsRoot")
		raw.GenesisValidatorsRoot = x
		g, _ := st.GenesisValidatorsRoot()
		zzverif.Assert(g == x, "GenesisValidatorsRoot() returns the stored value")
	case 2:
		x := common.Slot(zzverif.NondetU64())
		zzverif.Assert(st.SetSlot(x) == nil, "SetSlot")
		raw.Slot = x
		g, _ := st.Slot()
		zzverif.Assert(g == x, "Slot() returns the stored value")
	case 3:
		x := common.Fork{PreviousVersion: common.Version(zzverif.NondetBytes4()), CurrentVersion: common.Version(zzverif.NondetBytes4()), Epoch: common.Epoch(zzverif.NondetU64())}
		zzverif.Assert(st.SetFork(x) == nil, "SetFork")
		raw.Fork = x
		g, _ := st.Fork()
		zzverif.Assert(g == x, "Fork() returns the stored value")
	case 4:
		x := common.BeaconBlockHeader{Slot: common.Slot(zzverif.NondetU64()), ProposerIndex: common.ValidatorIndex(zzverif.NondetU64()), ParentRoot: vRoot1(), StateRoot: vRoot1(), BodyRoot: vRoot1()}
		zzverif.Assert(st.SetLatestBlockHeader(&x) == nil, "SetLatestBlockHeader")
		raw.LatestBlockHeader = x
		g, _ := st.LatestBlockHeader()
		zzverif.Assert(g != nil && *g == x, "LatestBlockHeader() returns the stored value")
		_ = st.HashTreeRoot(h) // the caller hashes the state, then keeps using its own header value
		x.StateRoot[7] ^= 0x55
		x.Slot++
	case 5:
		x := common.Eth1Data{DepositRoot: vRoot1(), DepositCount: common.DepositIndex(zzverif.NondetU64()), BlockHash: vRoot1()}
		zzverif.Assert(st.SetEth1Data(x) == nil, "SetEth1Data")
		raw.Eth1Data = x
		g, _ := st.Eth1Data()
		zzverif.Assert(g == x, "Eth1Data() returns the stored value")
	case 6:
		zzverif.Assume(raw.Eth1DepositIndex < ^common.DepositIndex(0))
		zzverif.Assert(st.IncrementDepositIndex() == nil, "IncrementDepositIndex")
		raw.Eth1DepositIndex++
	case 7:
		x := common.JustificationBits{zzverif.NondetU8() & 0x0f}
		zzverif.Assert(st.SetJustificationBits(x) == nil, "SetJustificationBits")
		raw.JustificationBits = x
		g, _ := st.JustificationBits()
		zzverif.Assert(g == x, "JustificationBits() returns the stored value")
	case 8:
		x := common.Checkpoint{Epoch: common.Epoch(zzverif.NondetU64()), Root: vRoot1()}
		zzverif.Assert(st.SetPreviousJustifiedCheckpoint(x) == nil, "SetPreviousJustifiedCheckpoint")
		raw.PreviousJustifiedCheckpoint = x
	case 9:
		x := common.Checkpoint{Epoch: common.Epoch(zzverif.NondetU64()), Root: vRoot1()}
		zzverif.Assert(st.SetCurrentJustifiedCheckpoint(x) == nil, "SetCurrentJustifiedCheckpoint")
		raw.CurrentJustifiedCheckpoint = x
	case 10:
		x := common.Checkpoint{Epoch: common.Epoch(zzverif.NondetU64()), Root: vRoot1()}
		zzverif.Assert(st.SetFinalizedCheckpoint(x) == nil, "SetFinalizedCheckpoint")
		raw.FinalizedCheckpoint = x
	case 11:
		i := zzverif.Choose(2)
		x := common.Gwei(zzverif.NondetU64())
		bals, _ := st.Balances()
		zzverif.Assert(bals.SetBalance(common.ValidatorIndex(i), x) == nil, "Balances().SetBalance")
		raw.Balances[i] = x
	case 12:
		i := zzverif.Choose(int(spec.SLOTS_PER_HISTORICAL_ROOT))
		x := vRoot1()
		br, _ := st.BlockRoots()
		zzverif.Assert(br.SetRoot(common.Slot(i), x) == nil, "BlockRoots().SetRoot")
		raw.BlockRoots[i] = x
	case 13:
		i := zzverif.Choose(2)
		x := common.Epoch(zzverif.NondetU64())
		vals, _ := st.Validators()
		v, _ := vals.Validator(common.ValidatorIndex(i))
		zzverif.Assert(v.SetExitEpoch(x) == nil, "validator.SetExitEpoch")
		raw.Validators[i].ExitEpoch = x
	}
	after := st.HashTreeRoot(h)
	zzverif.Assert(after == raw.HashTreeRoot(spec, h), "after a setter the state is the original content with exactly that field replaced")
	zzverif.Assert(after == vReroot(spec, st), "the root after a mutation equals the root rebuilt from the encoding")
	zzverif.Assert(cp.HashTreeRoot(h) == before, "a copy taken before the mutation is unchanged")
}
