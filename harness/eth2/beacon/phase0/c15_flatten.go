package phase0

import (
	"github.com/protolambda/zrnt/eth2/beacon/common"
	"github.com/protolambda/zrnt/eth2/zzverif"
)

// VerifHarness_C15_flatten: the bulk read of the registry (ValidatorView.Flatten via common.FlattenValidators, which
// every epoch transition uses instead of the per-field getters) returns, for every validator, exactly the six fields
// of the struct the state was encoded from - also when all six differ from each other.
// Bounds: tiny preset, 2 validators, every field symbolic (64 bit / bool).
func VerifHarness_C15_flatten() {
	spec := common.VTinySpec()
	raw := vRawState(spec, 2)
	st, _ := vStateToView(spec, raw)
	vals, err := st.Validators()
	zzverif.Assert(err == nil, "Validators()")
	zzverif.Reach("flatten")
	flats, err := common.FlattenValidators(vals)
	zzverif.Assert(err == nil && len(flats) == len(raw.Validators), "FlattenValidators returns one entry per validator")
	if err != nil || len(flats) != len(raw.Validators) {
		return
	}
	for i, v := range raw.Validators {
		f := flats[i]
		zzverif.Assert(f.EffectiveBalance == v.EffectiveBalance && f.Slashed == v.Slashed, "flat validator: effective balance and slashed flag")
		zzverif.Assert(f.ActivationEligibilityEpoch == v.ActivationEligibilityEpoch, "flat validator: activation eligibility epoch")
		zzverif.Assert(f.ActivationEpoch == v.ActivationEpoch, "flat validator: activation epoch")
		zzverif.Assert(f.ExitEpoch == v.ExitEpoch, "flat validator: exit epoch")
		zzverif.Assert(f.WithdrawableEpoch == v.WithdrawableEpoch, "flat validator: withdrawable epoch")
	}
}

// VerifHarness_C08_fresh_context_epochs: a context built from scratch (NewEpochsContext) for a state in epoch e holds
// the shufflings of epochs max(e-1, 0), e and e+1 - for e = 0, 1, 2 (the genesis special case previous == current only
// applies at epoch 0) - and the proposers of epoch e. Shuffling/proposer sampling stubbed (group c08).
func VerifHarness_C08_fresh_context_epochs() {
	zzverif.UseOverrides("c08")
	spec := common.VTinySpec()
	e := uint64(zzverif.Choose(4))
	raw := vNewRaw(spec, 2, e)
	st, _ := vStateToView(spec, raw)
	zzverif.Reach("fresh-context-epochs")
	epc, err := common.NewEpochsContext(spec, st)
	zzverif.Assert(err == nil && epc != nil, "NewEpochsContext succeeds")
	if err != nil || epc == nil {
		return
	}
	prev := e
	if e > 0 {
		prev = e - 1
	}
	zzverif.Assert(epc.PreviousEpoch != nil && uint64(epc.PreviousEpoch.Epoch) == prev, "fresh context: previous epoch shuffling is that of max(epoch-1, 0)")
	zzverif.Assert(epc.CurrentEpoch != nil && uint64(epc.CurrentEpoch.Epoch) == e, "fresh context: current epoch shuffling")
	zzverif.Assert(epc.NextEpoch != nil && uint64(epc.NextEpoch.Epoch) == e+1, "fresh context: next epoch shuffling")
	zzverif.Assert(epc.Proposers != nil && uint64(epc.Proposers.Epoch) == e, "fresh context: proposers of the current epoch")
}
