package phase0

import (
	"github.com/protolambda/zrnt/eth2/beacon/common"
	"github.com/protolambda/zrnt/eth2/zzverif"
)

// VerifHarness_C15_balances_pending: the bulk readers of the phase0 state view return what the state holds:
// Balances().AllBalances() is the balance list in order, Balances().Iter() yields the same sequence and then stops, and
// every entry of PreviousEpochAttestations()/CurrentEpochAttestations() converted back with PendingAttestationView.Raw()
// is the pending attestation of the struct (bits, data, inclusion delay, proposer index), the two lists not confused.
// Bounds: tiny preset, 0..3 validators with symbolic balances, one previous-epoch and one current-epoch pending
// attestation with symbolic data, a symbolic 3-bit aggregation bitlist, symbolic delay and proposer index.
func VerifHarness_C15_balances_pending() {
	spec := common.VTinySpec()
	n := zzverif.Choose(4)
	raw := vRawState(spec, 0)
	for i := 0; i < n; i++ {
		v := &Validator{}
		v.Pubkey[0] = byte(i + 1)
		raw.Validators = append(raw.Validators, v)
		raw.Balances = append(raw.Balances, common.Gwei(zzverif.NondetU64()))
	}
	mk := func() *PendingAttestation {
		b := zzverif.NondetU8()
		return &PendingAttestation{AggregationBits: AttestationBits{b&7 | 8}, Data: vAttData(),
			InclusionDelay: common.Slot(zzverif.NondetU64()), ProposerIndex: common.ValidatorIndex(zzverif.NondetU64())}
	}
	raw.PreviousEpochAttestations = PendingAttestations{mk()}
	raw.CurrentEpochAttestations = PendingAttestations{mk()}
	st, _ := vStateToView(spec, raw)
	if st == nil {
		return
	}
	zzverif.Reach("balances-pending")
	bals, err := st.Balances()
	zzverif.Assert(err == nil, "Balances()")
	if err != nil {
		return
	}
	all, err := bals.AllBalances()
	zzverif.Assert(err == nil && len(all) == n, "AllBalances() returns one balance per validator")
	for i := 0; i < n && i < len(all); i++ {
		zzverif.Assert(all[i] == raw.Balances[i], "AllBalances()[i] is balance i")
	}
	next := bals.Iter()
	for i := 0; i < n; i++ {
		b, ok, err := next()
		zzverif.Assert(err == nil && ok && b == raw.Balances[i], "Balances().Iter() yields balance i as its i-th item")
	}
	_, ok, err := next()
	zzverif.Assert(err == nil && !ok, "Balances().Iter() stops after the last balance")

	check := func(lv *PendingAttestationsView, want *PendingAttestation, what string) {
		ln, err := lv.Length()
		zzverif.Assert(err == nil && ln == 1, what+": one pending attestation")
		if err != nil || ln != 1 {
			return
		}
		pv, err := AsPendingAttestation(lv.Get(0))
		zzverif.Assert(err == nil, what+": entry 0 is a pending attestation view")
		if err != nil {
			return
		}
		got, err := pv.Raw()
		zzverif.Assert(err == nil && got != nil, what+": PendingAttestationView.Raw()")
		if err != nil || got == nil {
			return
		}
		zzverif.Assert(len(got.AggregationBits) == 1 && got.AggregationBits[0] == want.AggregationBits[0], what+": Raw() aggregation bits")
		zzverif.Assert(got.Data == want.Data, what+": Raw() attestation data")
		zzverif.Assert(got.InclusionDelay == want.InclusionDelay, what+": Raw() inclusion delay")
		zzverif.Assert(got.ProposerIndex == want.ProposerIndex, what+": Raw() proposer index")
	}
	pl, e1 := st.PreviousEpochAttestations()
	cl, e2 := st.CurrentEpochAttestations()
	zzverif.Assert(e1 == nil && e2 == nil, "pending attestation lists")
	if e1 != nil || e2 != nil {
		return
	}
	check(pl, raw.PreviousEpochAttestations[0], "previous_epoch_attestations")
	check(cl, raw.CurrentEpochAttestations[0], "current_epoch_attestations")
}
