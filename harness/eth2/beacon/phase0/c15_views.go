package phase0

import (
	"bytes"

	"github.com/protolambda/zrnt/eth2/beacon/common"
	"github.com/protolambda/zrnt/eth2/zzverif"
	"github.com/protolambda/ztyp/codec"
	"github.com/protolambda/ztyp/tree"
)

// VerifHarness_C15_historical_batch_view: the two sub-views of HistoricalBatchView return the vectors of the struct the
// view was decoded from: BlockRoots() the block roots, StateRoots() the state roots (entry by entry and by root), and a
// write through one sub-view does not show in the other.
// Bounds: tiny preset (4 roots per vector), every root with two symbolic bytes.
func VerifHarness_C15_historical_batch_view() {
	spec := common.VTinySpec()
	n := int(spec.SLOTS_PER_HISTORICAL_ROOT)
	x := HistoricalBatch{}
	for i := 0; i < n; i++ {
		x.BlockRoots = append(x.BlockRoots, vRoot1())
		x.StateRoots = append(x.StateRoots, vRoot1())
	}
	var buf bytes.Buffer
	zzverif.Assert(x.Serialize(spec, codec.NewEncodingWriter(&buf)) == nil, "HistoricalBatch serializes")
	data := buf.Bytes()
	v, err := AsHistoricalBatch(HistoricalBatchType(spec).Deserialize(codec.NewDecodingReader(bytes.NewReader(data), uint64(len(data)))))
	zzverif.Assert(err == nil, "HistoricalBatch view decodes")
	if err != nil {
		return
	}
	zzverif.Reach("historical-batch-view")
	h := tree.GetHashFn()
	br, e1 := v.BlockRoots()
	sr, e2 := v.StateRoots()
	zzverif.Assert(e1 == nil && e2 == nil, "HistoricalBatchView sub-views")
	if e1 != nil || e2 != nil {
		return
	}
	for i := 0; i < n; i++ {
		b, eb := br.GetRoot(common.Slot(i))
		s, es := sr.GetRoot(common.Slot(i))
		zzverif.Assert(eb == nil && b == x.BlockRoots[i], "HistoricalBatchView.BlockRoots() reads block_roots")
		zzverif.Assert(es == nil && s == x.StateRoots[i], "HistoricalBatchView.StateRoots() reads state_roots")
	}
	zzverif.Assert(v.HashTreeRoot(h) == x.HashTreeRoot(spec, h), "HistoricalBatch view root equals the struct root")
}
