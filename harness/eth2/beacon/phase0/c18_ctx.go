package phase0

import (
	"context"
	"errors"
	"time"

	"github.com/protolambda/zrnt/eth2/beacon/common"
	"github.com/protolambda/zrnt/eth2/zzverif"
	"github.com/protolambda/ztyp/tree"
)

type vCtx struct {
	polls  *int
	failAt int
}

func (c vCtx) Deadline() (time.Time, bool)       { return time.Time{}, false }
func (c vCtx) Done() <-chan struct{}             { return nil }
func (c vCtx) Value(key interface{}) interface{} { return nil }
func (c vCtx) Err() error {
	*c.polls++
	if c.failAt >= 0 && *c.polls > c.failAt {
		return errors.New("context canceled")
	}
	return nil
}

// VerifHarness_C18_exits_cancel: ProcessVoluntaryExits over two valid exits with the context cancelled at any poll
// (or never): cancellation always surfaces as an error and nothing is processed after it; without cancellation the
// result is the undisturbed one (both exits queued as the spec).
func VerifHarness_C18_exits_cancel() {
	spec := common.VTinySpec()
	cur := uint64(4)
	raw := vNewRaw(spec, 3, cur)
	st, _ := vStateToView(spec, raw)
	epc := vLightEpc(spec, raw, st)
	var ops []SignedVoluntaryExit
	for i := 0; i < 2; i++ {
		ex := SignedVoluntaryExit{Message: VoluntaryExit{Epoch: common.Epoch(cur), ValidatorIndex: common.ValidatorIndex(i)}, Signature: vSig1()}
		dom := common.ComputeDomain(common.DOMAIN_VOLUNTARY_EXIT, raw.Fork.CurrentVersion, raw.GenesisValidatorsRoot)
		root := common.ComputeSigningRoot(ex.Message.HashTreeRoot(tree.GetHashFn()), dom)
		pub := raw.Validators[i].Pubkey
		zzverif.Assume(zzverif.BLSPubkeyValid(pub) && zzverif.BLSSigValid(ex.Signature) && zzverif.BLSVerify(pub, root[:], ex.Signature))
		ops = append(ops, ex)
	}
	polls := 0
	ctx := vCtx{polls: &polls, failAt: zzverif.Choose(4) - 1}
	zzverif.Reach("exits-cancel")
	err := ProcessVoluntaryExits(ctx, spec, epc, st, ops)
	cancelled := ctx.failAt >= 0 && polls > ctx.failAt
	zzverif.Assert((err != nil) == cancelled, "a cancelled context surfaces as an error, a live one as success")
	vals, _ := st.Validators()
	done := 0
	for i := 0; i < 2; i++ {
		v, _ := vals.Validator(common.ValidatorIndex(i))
		e, _ := v.ExitEpoch()
		if e != vFarFuture {
			done++
		}
	}
	if !cancelled {
		zzverif.Assert(done == 2, "without cancellation every exit of the block is processed")
	} else {
		zzverif.Assert(done == ctx.failAt, "after the poll that reported cancellation no further exit is processed")
	}
}

// VerifHarness_C18_epoch_cancel: the epoch sub-transitions that poll the context return an error and leave the state
// untouched when the poll reports cancellation.
func VerifHarness_C18_epoch_cancel() {
	spec := common.VTinySpec()
	raw, _ := vLifecycleState(spec, 2, 4)
	st, _ := vStateToView(spec, raw)
	epc := vLightEpc(spec, raw, st)
	vals, _ := st.Validators()
	flats, _ := common.FlattenValidators(vals)
	h := tree.GetHashFn()
	before := st.HashTreeRoot(h)
	polls := 0
	ctx := vCtx{polls: &polls, failAt: 0}
	which := zzverif.Choose(7)
	zzverif.Reach("epoch-cancel")
	var err error
	switch which {
	case 0:
		err = ProcessEpochRegistryUpdates(ctx, spec, epc, flats, st)
	case 1:
		err = ProcessEffectiveBalanceUpdates(ctx, spec, epc, flats, st)
	case 2:
		err = ProcessEpochJustification(ctx, spec, &JustificationStakeData{CurrentEpoch: 4, TotalActiveStake: 3, PrevEpochUnslashedTargetStake: 3, CurrEpochUnslashedTargetStake: 3}, st)
	case 3:
		err = ProcessEth1DataReset(ctx, spec, epc, st)
	case 4:
		err = ProcessSlashingsReset(ctx, spec, epc, st)
	case 5:
		err = ProcessRandaoMixesReset(ctx, spec, epc, st)
	case 6:
		err = common.ProcessSlot(ctx, spec, st)
	}
	zzverif.Assert(err != nil, "a cancelled context makes the sub-transition return an error")
	zzverif.Assert(st.HashTreeRoot(h) == before, "a cancelled sub-transition leaves the state untouched")
	var bg context.Context = context.Background()
	_ = bg
}
