package phase0

import (
	"github.com/protolambda/zrnt/eth2/beacon/common"
	"github.com/protolambda/zrnt/eth2/zzverif"
	"github.com/protolambda/ztyp/tree"
)

// VerifHarness_probe_state: engine probe - real tree-backed state under the tiny preset.
func VerifHarness_probe_state() {
	spec := common.VTinySpec()
	st := NewBeaconStateView(spec)
	x := zzverif.NondetU64()
	err := st.SetSlot(common.Slot(x))
	zzverif.Assert(err == nil, "set slot ok")
	got, err := st.Slot()
	zzverif.Reach("probe")
	zzverif.Assert(err == nil && uint64(got) == x, "slot roundtrip")
	r1 := st.HashTreeRoot(tree.GetHashFn())
	st2, _ := st.CopyState()
	r2 := st2.(*BeaconStateView).HashTreeRoot(tree.GetHashFn())
	zzverif.Assert(r1 == r2, "copy has same root")
}
