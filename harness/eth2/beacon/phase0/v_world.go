package phase0

import (
	"github.com/protolambda/zrnt/eth2/beacon/common"
	"github.com/protolambda/zrnt/eth2/zzverif"
)

const vFarFuture = ^common.Epoch(0)

// vWorld builds a phase0 state of the tiny preset at a symbolic slot inside epoch `epoch` with n validators and
// the real EpochsContext computed from it. Validators are active with the maximum effective balance unless a
// harness overrides fields before calling finish; roots/mixes are symbolic.
type vWorldT struct {
	spec *common.Spec
	raw  *BeaconState
	st   *BeaconStateView
	epc  *common.EpochsContext
}

func vNewRaw(spec *common.Spec, n int, epoch uint64) *BeaconState {
	raw := vRawState(spec, 0)
	off := uint64(zzverif.Choose(int(spec.SLOTS_PER_EPOCH)))
	raw.Slot = common.Slot(epoch*uint64(spec.SLOTS_PER_EPOCH) + off)
	raw.LatestBlockHeader.Slot = raw.Slot.Previous()
	raw.Fork = common.Fork{PreviousVersion: spec.GENESIS_FORK_VERSION, CurrentVersion: spec.GENESIS_FORK_VERSION, Epoch: 0}
	for i := 0; i < n; i++ {
		v := &Validator{}
		v.Pubkey[0] = byte(i + 1)
		v.Pubkey[1] = zzverif.NondetU8()
		v.WithdrawalCredentials = vRoot1()
		v.EffectiveBalance = spec.MAX_EFFECTIVE_BALANCE
		v.ActivationEligibilityEpoch = 0
		v.ActivationEpoch = 0
		v.ExitEpoch = vFarFuture
		v.WithdrawableEpoch = vFarFuture
		raw.Validators = append(raw.Validators, v)
		raw.Balances = append(raw.Balances, spec.MAX_EFFECTIVE_BALANCE)
	}
	raw.Eth1Data.DepositCount = common.DepositIndex(n)
	raw.Eth1DepositIndex = common.DepositIndex(n)
	raw.PreviousJustifiedCheckpoint.Epoch = 0
	raw.CurrentJustifiedCheckpoint.Epoch = 0
	raw.FinalizedCheckpoint.Epoch = 0
	raw.JustificationBits = common.JustificationBits{0}
	return raw
}

func vFinish(spec *common.Spec, raw *BeaconState) *vWorldT {
	st, _ := vStateToView(spec, raw)
	epc, err := common.NewEpochsContext(spec, st)
	zzverif.Assert(err == nil, "NewEpochsContext succeeds on a well-formed state")
	return &vWorldT{spec: spec, raw: raw, st: st, epc: epc}
}

// VerifHarness_probe_world: engine probe.
func VerifHarness_probe_world() {
	spec := common.VTinySpec()
	w := vFinish(spec, vNewRaw(spec, zzverif.Param("validators", 3), 3))
	zzverif.Reach("world")
	zzverif.Assert(w.epc != nil && w.epc.CurrentEpoch != nil && len(w.epc.CurrentEpoch.ActiveIndices) == len(w.raw.Validators), "all validators active")
}
