package proto

import (
	"context"

	. "github.com/protolambda/zrnt/eth2/forkchoice"
	"github.com/protolambda/zrnt/eth2/zzverif"
)

// vF2Vote: a vote for an existing node, applied to the real fork choice and (by the documented replacement rule: a
// later target epoch replaces, or the first vote at epoch 0) to the shadow.
func (s *vShadow) vF2Vote(fc Forkchoice, v, k int) {
	ok := fc.ProcessAttestation(ValidatorIndex(v), s.pool[s.nodes[k].root], Slot(s.nodes[k].slot))
	zzverif.Assert(ok, "vote for an existing node is accepted")
	ep := uint64(s.nodes[k].slot / s.spe)
	if ep > s.ltEp[v] || (ep == 0 && !s.voted[v]) {
		s.latest[v], s.ltEp[v], s.voted[v] = k, ep, true
	}
}

// vF2NewBalances: a fresh balance list of the given length with symbolic entries below bound, installed in the
// shadow (validators beyond the list weigh 0).
func (s *vShadow) vF2NewBalances(n int, bound uint64) []Gwei {
	out := make([]Gwei, n)
	for v := range s.bal {
		s.bal[v] = 0
	}
	for v := 0; v < n; v++ {
		b := zzverif.NondetU64()
		zzverif.Assume(b < bound)
		out[v] = Gwei(b)
		if v < len(s.bal) {
			s.bal[v] = b
		}
	}
	return out
}

// VerifHarness_C09_balance_changes: histories in which the justified balances change between head computations.
// Fixed tree (SLOTS_PER_EPOCH = 2; the store starts at the genesis checkpoints, pinned at P0@0):
//
//	P0@0 -- P1@1 -- P2@3 -- P4@4      (gap nodes (P0,1), (P1,2), (P1,3), (P2,4); P0,P1: epochs (0,0), the others (1,fe))
//	              \- P3@3
//
// nVal validators in the initial balance list (symbolic balances < bal_bound, 0 included) plus one voter that is not
// in the initial list. History: every validator votes for one of the candidate nodes or not at all; Head(); one
// optional further vote that is still pending when the balances change; UpdateJustified to justified (P1,1) -
// finalized unchanged (pin stays) or finalized (P1,1) as well (prefix pruned, pin cleared) - supplying a NEW balance
// list of length 0..nVal+1 (shorter: validators disappear; longer: the extra voter appears) with new symbolic
// entries; Head(); one optional further vote; Head(). With rounds=2 two blocks P5@5 on P4 and P6@5 on P3 (epochs
// (2,fe)) are added, a second UpdateJustified to justified (P1,2) supplies a third balance list, Head() again.
// At each head computation Head() and FindHead from the competing blocks P2@3 and P3@3 are compared.
// Every Head() must be the LMD-GHOST winner of the from-scratch reference walk with the balance list that is current
// at that time (so the weight of an old vote has been removed with the old balance and re-added with the new one).
//
// Choose order (shards): finalize 2, new length nVal+2, then per validator the vote (candidates+1), [extra voter 2],
// pending move 3, later move 3, [round 2: new length nVal+2].
// Params: validators (2), bal_bound (16), all_nodes (0: vote candidates are P2@3, P3@3, P4@4, (P1,1) (pruned when
// finalizing) or no vote; 1: every node), rounds (1), extra_voter (0: the voter outside the initial list only casts
// the "later" vote; 1: it may also vote for P3@3 at the start), root_order (0: concrete roots ascending with the
// insertion order, 1: descending, -1: symbolic roots).
func VerifHarness_C09_balance_changes() {
	nVal := zzverif.Param("validators", 2)
	bound := uint64(zzverif.Param("bal_bound", 16))
	rounds := zzverif.Param("rounds", 1)
	finalize := zzverif.Choose(2)
	newLen := zzverif.Choose(nVal + 2)

	s, fc, _, _, _ := vF2NewWorldOrdered(7, nVal, bound, zzverif.Param("root_order", 0))
	// the voter outside the initial list
	s.bal = append(s.bal, 0)
	s.latest = append(s.latest, -1)
	s.ltEp = append(s.ltEp, 0)
	s.voted = append(s.voted, false)

	build := func(parent, root, slot int, je, fe uint64) {
		want := s.processBlock(parent, root, slot, je, fe)
		got := fc.ProcessBlock(s.pool[parent], s.pool[root], Slot(slot), Epoch(je), Epoch(fe))
		zzverif.Assert(got == want && got, "tree construction: block accepted")
	}
	build(0, 1, 1, 0, 0)
	fe := uint64(finalize) // the blocks of epoch 1 carry the finalized epoch the store will have (else none stays viable)
	build(1, 2, 3, 1, fe)
	build(1, 3, 3, 1, fe)
	build(2, 4, 4, 1, fe)
	// every head computation: Head() from the pin / justified node, FindHead from the two competing blocks
	check := func() {
		zzverif.MustReturnWithin(600000)
		if s.start < 0 {
			_, herr := fc.Head()
			zzverif.Assert(herr != nil, "Head() errors when the justified node is unknown")
		} else {
			s.vCheckHead(fc)
		}
		for _, at := range []int{s.find(2, 3), s.find(3, 3)} {
			h, ferr := fc.FindHead(s.pool[s.nodes[at].root], Slot(s.nodes[at].slot))
			want, ok := s.headFrom(at)
			zzverif.Assert((ferr == nil) == ok, "FindHead errors exactly when no viable head exists")
			if ferr == nil && ok {
				zzverif.Assert(h == s.vFcRef(want), "FindHead is the LMD-GHOST winner with the current balances")
			}
		}
		zzverif.MustReturnWithin(0)
	}

	var cands []int
	if zzverif.Param("all_nodes", 0) == 1 {
		for i := range s.nodes {
			cands = append(cands, i)
		}
	} else {
		cands = []int{s.find(2, 3), s.find(3, 3), s.find(4, 4), s.find(1, 1)}
	}
	for v := 0; v < nVal; v++ {
		if k := zzverif.Choose(len(cands) + 1); k < len(cands) {
			s.vF2Vote(fc, v, cands[k])
		}
	}
	if zzverif.Param("extra_voter", 0) == 1 && zzverif.Choose(2) == 1 {
		s.vF2Vote(fc, nVal, s.find(3, 3))
	}
	check()

	// a vote that is pending while the balances change (slot 4 = epoch 2 replaces any earlier vote)
	switch zzverif.Choose(3) {
	case 1:
		s.vF2Vote(fc, 0, s.find(4, 4))
	case 2:
		s.vF2Vote(fc, nVal-1, s.find(2, 4))
	}

	// the balance change
	newBal := s.vF2NewBalances(newLen, bound)
	J := Checkpoint{Root: s.pool[1], Epoch: 1}
	F := Checkpoint{Root: s.pool[0], Epoch: 0}
	if finalize == 1 {
		F = J
	}
	zzverif.Reach("balance change")
	zzverif.MustReturnWithin(400000)
	err := fc.UpdateJustified(context.Background(), s.pool[2], J, F, func() ([]Gwei, error) { return newBal, nil })
	zzverif.MustReturnWithin(0)
	zzverif.Assert(err == nil, "a valid update with new balances succeeds")
	if err != nil {
		return
	}
	s.storeJ = 1
	if finalize == 1 {
		s.storeF = 1
		s.start = s.find(1, 2)
	}
	check()

	// one more vote after the change: it must be weighed with the new balance
	switch zzverif.Choose(3) {
	case 1:
		s.vF2Vote(fc, 0, s.find(2, 4))
	case 2:
		s.vF2Vote(fc, nVal, s.find(4, 4))
	}
	check()

	if rounds < 2 {
		return
	}
	// round 2: two more blocks at epoch 2, a third balance list
	newLen2 := zzverif.Choose(nVal + 2)
	build(4, 5, 5, 2, fe)
	build(3, 6, 5, 2, fe)
	newBal2 := s.vF2NewBalances(newLen2, bound)
	J2 := Checkpoint{Root: s.pool[1], Epoch: 2}
	zzverif.MustReturnWithin(400000)
	err = fc.UpdateJustified(context.Background(), s.pool[5], J2, F, func() ([]Gwei, error) { return newBal2, nil })
	zzverif.MustReturnWithin(0)
	zzverif.Assert(err == nil, "a second valid update with new balances succeeds")
	if err != nil {
		return
	}
	s.storeJ = 2
	if finalize == 1 {
		s.start = s.find(1, 4) // the pin is gone and the justified node (P1, slot 4) was never inserted
	}
	check()
}

// VerifHarness_C09_blocks_after_prune: blocks inserted AFTER a finalization prune are linked to the right parents: on the
// chain P0(0) - P1(2) - P2(4) (2 slots per epoch) one validator votes for P2, the store finalizes and justifies (P1,1)
// (the array prefix before it is pruned), then two more blocks arrive - P3 on P2 (at the next slot or one later), and P4
// either on P3 or as a fork on P1 - and Head() is read without any further vote: it is the tip of the voted branch.
// Bounds: this one history shape (4 variants), roots ordered by insertion (second byte symbolic), balance symbolic > 0.
func VerifHarness_C09_blocks_after_prune() {
	s, fcI, _ := vNewWorldSink(5, 1)
	f := fcI.fc
	zzverif.Assume(s.bal[0] > 0)
	// this array keeps a node per (root, slot): the empty-slot node (P2,5) and the block node (P3,5) are siblings that tie
	// at weight 0, and ties go to the greater root. Later roots are made greater, so that the added blocks win their ties.
	for i := range s.pool {
		zzverif.Assume(s.pool[i][0] == byte(i+1))
	}
	spe := s.spe
	f.ProcessBlock(s.pool[0], s.pool[1], Slot(spe), 0, 0)
	f.ProcessBlock(s.pool[1], s.pool[2], Slot(2*spe), 1, 1)
	f.ProcessAttestation(0, s.pool[2], Slot(2*spe))
	h0, err := f.Head()
	zzverif.Assert(err == nil && h0.Root == s.pool[2], "before the update the head is the voted block")
	cp := Checkpoint{Root: s.pool[1], Epoch: 1}
	bal := Gwei(s.bal[0])
	err = f.UpdateJustified(context.Background(), s.pool[2], cp, cp, func() ([]Gwei, error) { return []Gwei{bal}, nil })
	zzverif.Assert(err == nil, "finalizing (P1,1) succeeds")
	gap := zzverif.Choose(2)
	fork := zzverif.Choose(2) == 1
	s3 := 2*spe + 1 + gap
	zzverif.Reach("blocks-after-prune")
	zzverif.Assert(f.ProcessBlock(s.pool[2], s.pool[3], Slot(s3), 1, 1), "a block on the head is accepted after pruning")
	want := s.pool[3]
	if fork {
		zzverif.Assert(f.ProcessBlock(s.pool[1], s.pool[4], Slot(spe+1), 1, 1), "a fork block on the finalized block is accepted after pruning")
	} else {
		zzverif.Assert(f.ProcessBlock(s.pool[3], s.pool[4], Slot(s3+1), 1, 1), "a block on the new block is accepted after pruning")
		want = s.pool[4]
	}
	zzverif.MustReturnWithin(400000)
	h1, err := f.Head()
	zzverif.MustReturnWithin(0)
	zzverif.Assert(err == nil, "Head() succeeds after pruning and new blocks")
	zzverif.Assert(err != nil || h1.Root == want, "after pruning, Head() follows the blocks added on the voted branch")
}
