package proto

import (
	"bytes"

	"github.com/protolambda/zrnt/eth2/beacon/common"
	. "github.com/protolambda/zrnt/eth2/forkchoice"
	"github.com/protolambda/zrnt/eth2/zzverif"
)

// ---- shadow tree: built only from the arguments of the calls, never from the implementation's tables ----

type vNode struct {
	root  int // pool index
	slot  int
	t, f  int // transition parent, fork-choice parent (-1 none)
	je    uint64
	fe    uint64
	block bool
}

type vShadow struct {
	pool   []Root
	nodes  []vNode
	latest []int    // per validator: node index of the latest accepted vote, -1 none
	ltEp   []uint64 // per validator: target epoch of the latest accepted vote
	voted  []bool
	bal    []uint64
	storeJ uint64
	storeF uint64
	start  int // node index of the pinned start node
	spe    int
}

func (s *vShadow) find(root, slot int) int {
	for i, n := range s.nodes {
		if n.root == root && n.slot == slot {
			return i
		}
	}
	return -1
}

func (s *vShadow) first(root int) int {
	best := -1
	for _, n := range s.nodes {
		if n.root == root && (best < 0 || n.slot < best) {
			best = n.slot
		}
	}
	return best
}

func (s *vShadow) known(root int) bool { return s.first(root) >= 0 }

// ProcessSlot as documented: fills the gap between the first node of parent and slot with empty-slot nodes.
func (s *vShadow) processSlot(parent, slot int, je, fe uint64) {
	if s.find(parent, slot) >= 0 {
		return
	}
	fs := s.first(parent)
	prev := s.find(parent, fs)
	for x := fs + 1; x <= slot; x++ {
		if i := s.find(parent, x); i >= 0 {
			prev = i
			continue
		}
		s.nodes = append(s.nodes, vNode{root: parent, slot: x, t: prev, f: prev, je: je, fe: fe})
		prev = len(s.nodes) - 1
	}
}

func (s *vShadow) processBlock(parent, root, slot int, je, fe uint64) bool {
	if s.find(root, slot) >= 0 || s.known(root) {
		return true
	}
	if !s.known(parent) || s.first(parent) >= slot {
		return false
	}
	s.processSlot(parent, slot, je, fe)
	s.nodes = append(s.nodes, vNode{root: root, slot: slot, t: s.find(parent, slot), f: s.find(parent, s.first(parent)), je: je, fe: fe, block: true})
	return true
}

func (s *vShadow) inF(n, anc int) bool {
	for n >= 0 {
		if n == anc {
			return true
		}
		n = s.nodes[n].f
	}
	return false
}

func (s *vShadow) weight(n int) uint64 {
	w := uint64(0)
	for v := range s.latest {
		if s.latest[v] >= 0 && s.inF(s.latest[v], n) {
			w += s.bal[v]
		}
	}
	return w
}

func (s *vShadow) viable(n int) bool {
	x := s.nodes[n]
	return (x.je == s.storeJ || s.storeJ == 0) && (x.fe == s.storeF || s.storeF == 0)
}

func (s *vShadow) children(n int) []int {
	var out []int
	for i, x := range s.nodes {
		if x.f == n {
			out = append(out, i)
		}
	}
	return out
}

// leads: n or the end of its best-child chain is viable.
func (s *vShadow) leads(n int) bool {
	for _, c := range s.children(n) {
		if s.leads(c) {
			return true
		}
	}
	return s.viable(n)
}

// head: repeatedly choose, among children that lead to a viable head, the greatest (weight, root).
func (s *vShadow) head() (int, bool) {
	cur := s.start
	for {
		best := -1
		var bw uint64
		for _, c := range s.children(cur) {
			if !s.leads(c) {
				continue
			}
			w := s.weight(c)
			if best < 0 || w > bw || (w == bw && bytes.Compare(s.pool[s.nodes[c].root][:], s.pool[s.nodes[best].root][:]) > 0) {
				best, bw = c, w
			}
		}
		if best < 0 {
			break
		}
		cur = best
	}
	return cur, s.viable(cur)
}

// vRoot: a root whose first and last byte are symbolic and whose other bytes are zero (stated bound: the
// lexicographic tie-break and all map lookups see 2^16 distinct values per root).
func vRoot() (r Root) {
	r[0] = zzverif.NondetU8()
	r[31] = zzverif.NondetU8()
	return
}

func vNewWorld(nPool, nVal int, storeJ uint64) (*vShadow, Forkchoice, Root) {
	s := &vShadow{spe: 2, storeJ: storeJ}
	s.pool = make([]Root, nPool)
	for i := range s.pool {
		s.pool[i] = vRoot()
		zzverif.Assume(s.pool[i] != Root{}) // a block root is a hash: the all-zero root is the library's "no vote" alias
		for j := 0; j < i; j++ {
			zzverif.Assume(s.pool[i] != s.pool[j])
		}
	}
	anchorParent := vRoot()
	for j := range s.pool {
		zzverif.Assume(anchorParent != s.pool[j])
	}
	bals := make([]Gwei, nVal)
	for v := 0; v < nVal; v++ {
		b := zzverif.NondetU64()
		zzverif.Assume(b < 1<<40)
		s.bal = append(s.bal, b)
		bals[v] = Gwei(b)
		s.latest = append(s.latest, -1)
		s.ltEp = append(s.ltEp, 0)
		s.voted = append(s.voted, false)
	}
	spec := &common.Spec{}
	spec.SLOTS_PER_EPOCH = Slot(s.spe)
	s.nodes = []vNode{{root: 0, slot: 0, t: -1, f: -1, je: storeJ, fe: 0, block: true}}
	s.start = 0
	fc, err := NewProtoForkChoice(spec, Checkpoint{Root: s.pool[0], Epoch: 0}, Checkpoint{Root: s.pool[0], Epoch: Epoch(storeJ)},
		s.pool[0], 0, anchorParent, bals, vSinkOrNil())
	zzverif.Assert(err == nil, "NewProtoForkChoice on a consistent anchor succeeds")
	return s, fc, anchorParent
}

// one nondeterministic history step applied to both the real fork choice and the shadow
func (s *vShadow) vStep(fc Forkchoice, nVal int) {
	var knownRoots []int
	fresh := -1
	for r := range s.pool {
		if s.known(r) {
			knownRoots = append(knownRoots, r)
		} else if fresh < 0 {
			fresh = r
		}
	}
	je := uint64(0)
	if s.storeJ != 0 {
		je = uint64(zzverif.Choose(2))
	}
	switch zzverif.Choose(3) {
	case 0: // block: parent known; root fresh (or already known); slot around the parent's first slot
		parent := knownRoots[zzverif.Choose(len(knownRoots))]
		root := fresh
		if fresh < 0 || zzverif.Choose(4) == 0 {
			root = knownRoots[zzverif.Choose(len(knownRoots))]
		}
		slot := s.first(parent) + zzverif.Choose(3) // +0 is refused (not after the parent)
		want := s.processBlock(parent, root, slot, je, 0)
		got := fc.ProcessBlock(s.pool[parent], s.pool[root], Slot(slot), Epoch(je), 0)
		zzverif.Assert(got == want, "ProcessBlock accepts exactly blocks with a known, earlier parent (or already known blocks)")
	case 1: // empty slot on a known root
		parent := knownRoots[zzverif.Choose(len(knownRoots))]
		slot := s.first(parent) + 1 + zzverif.Choose(2)
		s.processSlot(parent, slot, je, 0)
		fc.ProcessSlot(s.pool[parent], Slot(slot), Epoch(je), 0)
	case 2: // attestation by validator v for an existing node, or (last option) for a root/slot pair that has no node
		v := zzverif.Choose(nVal)
		k := zzverif.Choose(len(s.nodes) + 1)
		var root, slot int
		exists := k < len(s.nodes)
		if exists {
			root, slot = s.nodes[k].root, s.nodes[k].slot
		} else {
			root = knownRoots[zzverif.Choose(len(knownRoots))]
			slot = 0
			for s.find(root, slot) >= 0 {
				slot++
			}
		}
		ok := fc.ProcessAttestation(ValidatorIndex(v), s.pool[root], Slot(slot))
		zzverif.Assert(ok == exists, "ProcessAttestation returns ok exactly when the (root, slot) node exists")
		if exists {
			ep := uint64(slot / s.spe)
			if ep > s.ltEp[v] || (ep == 0 && !s.voted[v]) {
				s.latest[v], s.ltEp[v], s.voted[v] = k, ep, true
			}
		}
	}
}

func (s *vShadow) vCheckHead(fc Forkchoice) {
	h, err := fc.Head()
	want, ok := s.head()
	zzverif.Assert((err == nil) == ok, "Head() errors exactly when no viable head exists")
	if err == nil && ok {
		zzverif.Assert(h.Root == s.pool[s.nodes[want].root] && int(h.Slot) == s.nodes[want].slot, "Head() is the LMD-GHOST winner of the reference walk")
	}
}

// VerifHarness_C09_history: K-step histories of blocks, empty slots and attestations; after every step the reported
// head equals the head of a from-scratch LMD-GHOST walk over the shadow tree.
func VerifHarness_C09_history() {
	K := zzverif.Param("steps", 3)
	nVal := zzverif.Param("validators", 2)
	s, fc, _ := vNewWorld(zzverif.Param("roots", 3), nVal, uint64(zzverif.Param("store_je", 0)))
	s.vCheckHead(fc)
	for i := 0; i < K; i++ {
		zzverif.MustReturnWithin(200000)
		s.vStep(fc, nVal)
		zzverif.Reach("step")
		s.vCheckHead(fc)
		zzverif.MustReturnWithin(0)
	}
}

// VerifHarness_C09_votes: a fixed forked tree (two competing blocks at slot 1, a child two slots later crossing an
// epoch boundary, with its gap-slot nodes), then K steps each either an attestation (any validator, any existing
// node or a non-existing one) or a head query; the head is compared at every query and at the end. Exercises vote
// replacement (later target epoch replaces; equal/older does not; pending vs applied votes).
func VerifHarness_C09_votes() {
	K := zzverif.Param("steps", 3)
	nVal := zzverif.Param("validators", 2)
	s, fc, _ := vNewWorld(4, nVal, 0)
	build := func(parent, root, slot int) {
		want := s.processBlock(parent, root, slot, 0, 0)
		got := fc.ProcessBlock(s.pool[parent], s.pool[root], Slot(slot), 0, 0)
		zzverif.Assert(got == want && got, "tree construction: block accepted")
	}
	build(0, 1, 1)
	build(0, 2, 1)
	build(1, 3, 3)
	for i := 0; i < K; i++ {
		zzverif.MustReturnWithin(200000)
		if zzverif.Choose(3) == 0 {
			s.vCheckHead(fc)
		} else {
			v := zzverif.Choose(nVal)
			k := zzverif.Choose(len(s.nodes) + 1)
			exists := k < len(s.nodes)
			root, slot := 2, 2 // (P2, slot 2) has no node
			if exists {
				root, slot = s.nodes[k].root, s.nodes[k].slot
			}
			ok := fc.ProcessAttestation(ValidatorIndex(v), s.pool[root], Slot(slot))
			zzverif.Assert(ok == exists, "ProcessAttestation returns ok exactly when the (root, slot) node exists")
			if exists {
				ep := uint64(slot / s.spe)
				if ep > s.ltEp[v] || (ep == 0 && !s.voted[v]) {
					s.latest[v], s.ltEp[v], s.voted[v] = k, ep, true
				}
			}
		}
		zzverif.MustReturnWithin(0)
	}
	zzverif.Reach("votes")
	s.vCheckHead(fc)
}

func vSinkOrNil() NodeSink {
	if vSinkGlobal == nil {
		return nil
	}
	return vSinkGlobal
}
