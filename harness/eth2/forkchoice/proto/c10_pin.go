package proto

import (
	"context"

	. "github.com/protolambda/zrnt/eth2/forkchoice"
	"github.com/protolambda/zrnt/eth2/zzverif"
)

// VerifHarness_C10_pin_paths: SetPin to a non-root node, then one UpdateJustified with every kind of trigger and
// every combination of old/new checkpoints, on the fixed tree of VerifHarness_C10_update plus a late sibling:
//
//	P0@0 -- P1@1 -- P3@2 -- P4@3          (P1 has gap nodes at slot 2 and - created by P6 - slot 3; epoch 1 = slot 2)
//	     \       \- P6@3
//	      \- P2@1 -- P5@3
//
// The store starts at the genesis checkpoints, pinned at P0@0 by the constructor. History: one vote; SetPin (first
// Choose) to the block node (P1,1), the block node (P3,2), the empty-slot node (P1,2), the empty-slot node (P1,3)
// (param gap_pins=1; P3@2 is then in the subtree of the pin's ROOT but not of the pinned NODE), or to a node that
// does not exist ((P1,5) / an unknown root: SetPin must error and leave the pin at P0@0); Head(); then
// UpdateJustified(trigger, J, F) with trigger = any of the 7 inserted roots or a never-inserted one (second Choose),
// F = (any root incl. unknown, epoch 0/1), J = F or (any root, same/flipped epoch); Head()/Pin()/Justified()/
// Finalized() afterwards.
//
// Decided: every call returns (MustReturnWithin: self-deadlock on the RWMutex and non-termination are violations);
// older-or-equal checkpoints: nil, nothing changes (whatever the trigger); otherwise the update is refused - error,
// nothing observable changes, nothing is pruned - exactly when the trigger differs from the pin root and is unknown
// or not a descendant of the pinned node, or the justified epoch is below the finalized one, or a changed checkpoint
// has an unknown root, or the new justified root is not in the subtree of the new finalized root; an accepted update
// installs both checkpoints, clears the pin exactly when the finalized checkpoint changed (keeps it otherwise),
// prunes the prefix before the finalized node if that node exists, and Head() afterwards is the LMD-GHOST winner
// from the pin (if kept) or the justified node (error if that node does not exist).
//
// Params: gap_pins (1), root_order (0/1: concrete roots ascending/descending with the insertion order; -1: symbolic),
// bal_bound (16), strict_pin_node (1: trigger must descend from the pinned node; 0: from the first node of the pin's
// root, which is what InSubtree(pin.Root, trigger) decides).
func VerifHarness_C10_pin_paths() {
	gapPins := zzverif.Param("gap_pins", 1)
	pinSel := zzverif.Choose(5 + gapPins)
	s, fc, _, sink, _ := vF2NewWorldOrdered(7, 2, uint64(zzverif.Param("bal_bound", 16)), zzverif.Param("root_order", 0))
	spare := Root{0xfe, 31: 0x01}
	for i := range s.pool {
		zzverif.Assume(s.pool[i] != spare)
	}
	roots := append(append([]Root(nil), s.pool...), spare)
	tr := zzverif.Choose(len(roots))
	build := func(parent, root, slot, e int) {
		want := s.processBlock(parent, root, slot, uint64(e), uint64(e))
		got := fc.ProcessBlock(s.pool[parent], s.pool[root], Slot(slot), Epoch(e), Epoch(e))
		zzverif.Assert(got == want && got, "tree construction: block accepted")
	}
	build(0, 1, 1, 0)
	build(0, 2, 1, 0)
	build(1, 3, 2, 1)
	build(3, 4, 3, 1)
	build(2, 5, 3, 1)
	build(1, 6, 3, 1)
	// one vote
	{
		k := []int{s.find(4, 3), s.find(5, 3), s.find(6, 3)}[zzverif.Choose(3)]
		s.vF2Vote(fc, 0, k)
	}

	// ---- SetPin ----
	type pinT struct {
		root, slot int
		ok         bool
	}
	pins := []pinT{{1, 1, true}, {3, 2, true}, {1, 2, true}, {1, 5, false}, {len(roots) - 1, 0, false}, {1, 3, true}}
	pin := pins[pinSel]
	zzverif.MustReturnWithin(200000)
	perr := fc.SetPin(roots[pin.root], Slot(pin.slot))
	got := fc.Pin()
	zzverif.MustReturnWithin(0)
	zzverif.Assert((perr == nil) == pin.ok, "SetPin succeeds exactly for an existing node")
	pinNode := 0
	if pin.ok {
		pinNode = s.find(pin.root, pin.slot)
		zzverif.Assert(got != nil && *got == s.vFcRef(pinNode), "Pin() is the node given to a successful SetPin")
	} else {
		zzverif.Assert(got != nil && *got == s.vFcRef(0), "a refused SetPin leaves the pin unchanged")
	}
	if (perr == nil) != pin.ok || got == nil {
		return
	}
	s.start = pinNode
	zzverif.MustReturnWithin(400000)
	s.vCheckHead(fc)
	before := vObserve(fc)
	zzverif.MustReturnWithin(0)

	// ---- the update ----
	fr := zzverif.Choose(len(roots))
	fe := zzverif.Choose(2)
	jr := fr
	if zzverif.Choose(2) == 1 {
		jr = zzverif.Choose(len(roots))
	}
	je := fe
	if zzverif.Choose(2) == 1 {
		je = 1 - fe
	}
	newBal := []Gwei{Gwei(s.bal[0]), Gwei(s.bal[1])}
	J := Checkpoint{Root: roots[jr], Epoch: Epoch(je)}
	F := Checkpoint{Root: roots[fr], Epoch: Epoch(fe)}
	zzverif.Reach("pinned update")
	zzverif.MustReturnWithin(400000)
	err := fc.UpdateJustified(context.Background(), roots[tr], J, F, func() ([]Gwei, error) { return newBal, nil })
	zzverif.MustReturnWithin(0)
	zzverif.MustReturnWithin(400000)
	after := vObserve(fc)
	zzverif.MustReturnWithin(0)

	known := func(r int) bool { return r < len(s.pool) && s.known(r) }
	noop := je == 0 && fe == 0
	if noop {
		zzverif.Assert(err == nil, "pinned: older or equal checkpoints: no error, whatever the trigger")
		zzverif.Assert(vSameObs(before, after) && len(sink.calls) == 0, "pinned: older or equal checkpoints change nothing")
		return
	}
	badTrigger := false
	if tr != s.nodes[pinNode].root {
		if !known(tr) {
			badTrigger = true
		} else {
			anc := pinNode
			if zzverif.Param("strict_pin_node", 1) == 0 {
				anc = s.find(s.nodes[pinNode].root, s.first(s.nodes[pinNode].root))
			}
			if !s.inT(s.find(tr, s.first(tr)), anc) {
				badTrigger = true
			}
		}
	}
	bad := false
	if je < fe {
		bad = true
	}
	if !(fr == 0 && fe == 0) && !known(fr) {
		bad = true
	}
	if !(jr == 0 && je == 0) && !known(jr) {
		bad = true
	}
	if !bad && !(jr == 0 && je == 0) && jr != fr && !s.inT(s.find(jr, s.first(jr)), s.find(fr, s.first(fr))) {
		bad = true
	}
	if badTrigger {
		if !known(tr) {
			zzverif.Assert(err != nil, "pinned: an unknown trigger is refused")
		} else if s.inT(s.find(tr, s.first(tr)), s.find(s.nodes[pinNode].root, s.first(s.nodes[pinNode].root))) {
			zzverif.Assert(err != nil, "pinned: a trigger below the pin's root but outside the pinned node's subtree is refused")
		} else {
			zzverif.Assert(err != nil, "pinned: a known trigger outside the pinned subtree is refused")
		}
		zzverif.Assert(vSameObs(before, after) && len(sink.calls) == 0, "pinned: a refused update changes nothing")
		return
	}
	if bad {
		zzverif.Assert(err != nil, "pinned: unknown/outside checkpoints are refused")
		zzverif.Assert(vSameObs(before, after) && len(sink.calls) == 0, "pinned: a refused update changes nothing")
		return
	}
	zzverif.Assert(err == nil, "pinned: a valid update with a trigger inside the pinned subtree succeeds")
	if err != nil {
		return
	}
	zzverif.Assert(after.j == J && after.f == F, "pinned: justified and finalized checkpoints are the new ones")
	changedF := !(fr == 0 && fe == 0)
	if changedF {
		zzverif.Assert(after.pin == nil, "pinned: the pin is cleared when finalization advances")
	} else {
		zzverif.Assert(after.pin != nil && *after.pin == s.vFcRef(pinNode), "pinned: the pin is kept when only the justified checkpoint advances")
		zzverif.Assert(len(sink.calls) == 0, "pinned: nothing is pruned when the finalized checkpoint does not change")
	}
	anchor := -1
	if changedF {
		anchor = s.find(fr, fe*s.spe)
	}
	if anchor > 0 {
		zzverif.Assert(len(sink.calls) == anchor, "pinned: the prefix before the new finalized node is pruned")
		for i, c := range sink.calls {
			if i < len(s.nodes) {
				zzverif.Assert(c.ref == s.vFcRef(i) && c.canonical == s.inT(anchor, i), "pinned: pruned nodes are reported in order with the canonical flag")
			}
		}
	} else {
		zzverif.Assert(len(sink.calls) == 0, "pinned: nothing is pruned when the finalized node is unknown or is the root")
	}
	// head afterwards
	s.storeJ, s.storeF = uint64(je), uint64(fe)
	if changedF {
		s.start = s.find(jr, je*s.spe)
	}
	zzverif.MustReturnWithin(400000)
	if s.start < 0 {
		zzverif.Assert(after.headErr, "pinned: Head() errors when the justified node is unknown")
	} else {
		s.vCheckHead(fc)
		want, ok := s.head()
		zzverif.Assert(after.headErr == !ok && (!ok || after.head == s.vFcRef(want)), "pinned: Head() after the update is the LMD-GHOST winner from the pin or the justified node")
	}
	zzverif.MustReturnWithin(0)
}
