package proto

import (
	"context"
	"errors"

	. "github.com/protolambda/zrnt/eth2/forkchoice"
	"github.com/protolambda/zrnt/eth2/zzverif"
)

type vSinkCall struct {
	ref       NodeRef
	canonical bool
}

type vSink struct {
	calls  []vSinkCall
	failAt int // the call with this index fails (-1: never)
}

func (k *vSink) OnPrunedNode(ctx context.Context, ref NodeRef, canonical bool) error {
	if len(k.calls) == k.failAt {
		return errors.New("sink failure")
	}
	k.calls = append(k.calls, vSinkCall{ref, canonical})
	return nil
}

type vObs struct {
	j, f    Checkpoint
	pin     *NodeRef
	head    NodeRef
	headErr bool
}

func vObserve(fc Forkchoice) vObs {
	h, err := fc.Head()
	return vObs{j: fc.Justified(), f: fc.Finalized(), pin: fc.Pin(), head: h, headErr: err != nil}
}

func vSameObs(a, b vObs) bool {
	if a.j != b.j || a.f != b.f || a.headErr != b.headErr || (!a.headErr && a.head != b.head) {
		return false
	}
	if (a.pin == nil) != (b.pin == nil) {
		return false
	}
	return a.pin == nil || *a.pin == *b.pin
}

// VerifHarness_C10_update: a fixed forked tree with gap slots crossing an epoch boundary and a sibling inserted late,
// one vote, then one UpdateJustified with an arbitrary (trigger, justified, finalized) and a sink that may fail,
// then one more vote and a head query.
func VerifHarness_C10_update() {
	nVal := 2
	s, fcI, _ := vNewWorldSink(6, nVal)
	fc, sink := fcI.fc, fcI.sink
	ep := func(e int) (uint64, uint64) { return uint64(e), uint64(e) }
	build := func(parent, root, slot, e int) {
		je, fe := ep(e)
		want := s.processBlock(parent, root, slot, je, fe)
		got := fc.ProcessBlock(s.pool[parent], s.pool[root], Slot(slot), Epoch(je), Epoch(fe))
		zzverif.Assert(got == want && got, "tree construction: block accepted")
	}
	// P0@0 -- P1@1 -- P3@2 -- P4@3      (P1 has gap node at slot 2; epoch 1 starts at slot 2)
	//      \\- P2@1 -- P5@3 (inserted last: a non-descendant of P1/P3 with a higher index)
	build(0, 1, 1, 0)
	build(0, 2, 1, 0)
	build(1, 3, 2, 1)
	build(3, 4, 3, 1)
	build(2, 5, 3, 1)
	spare := Root{0xfe, 31: 0x01}
	for i := range s.pool {
		zzverif.Assume(s.pool[i] != spare)
	}
	roots := append(append([]Root(nil), s.pool...), spare)
	// one vote
	{
		v := zzverif.Choose(zzverif.Param("vote_validators", 1))
		var k int
		if zzverif.Param("all_nodes", 0) == 1 {
			k = zzverif.Choose(len(s.nodes))
		} else {
			k = []int{s.find(1, 1), s.find(4, 3), s.find(5, 3)}[zzverif.Choose(3)]
		}
		ok := fc.ProcessAttestation(ValidatorIndex(v), s.pool[s.nodes[k].root], Slot(s.nodes[k].slot))
		zzverif.Assert(ok, "vote for an existing node is accepted")
		s.latest[v], s.ltEp[v], s.voted[v] = k, uint64(s.nodes[k].slot/s.spe), true
	}
	before := vObserve(fc)
	// the update
	fr := zzverif.Choose(len(roots))
	fe := zzverif.Choose(2)
	jr := fr
	if zzverif.Choose(2) == 1 {
		jr = zzverif.Choose(len(roots))
	}
	je := fe
	if zzverif.Choose(2) == 1 {
		je = 1 - fe
	}
	tr := jr
	if zzverif.Choose(3) == 0 {
		tr = len(roots) - 1
	}
	sink.failAt = zzverif.Choose(3) - 1
	newBal := []Gwei{Gwei(s.bal[0]), Gwei(s.bal[1])}
	J := Checkpoint{Root: roots[jr], Epoch: Epoch(je)}
	F := Checkpoint{Root: roots[fr], Epoch: Epoch(fe)}
	zzverif.Reach("update")
	zzverif.MustReturnWithin(400000)
	err := fc.UpdateJustified(context.Background(), roots[tr], J, F, func() ([]Gwei, error) { return newBal, nil })
	zzverif.MustReturnWithin(0)

	known := func(r int) bool { return r < len(s.pool) && s.known(r) }
	// reference verdict
	noop := je == 0 && fe == 0 // store is at (0,0): older or equal
	bad := false
	if !noop {
		if tr != 0 && !known(tr) {
			bad = true // pinned at P0: the trigger must be known (every known root descends from P0)
		}
		if je < fe {
			bad = true
		}
		if !(fr == 0 && fe == 0) && !known(fr) {
			bad = true
		}
		if !(jr == 0 && je == 0) && !known(jr) {
			bad = true
		}
		if !bad && !(jr == 0 && je == 0) && jr != fr && !s.inT(s.find(jr, s.first(jr)), s.find(fr, s.first(fr))) {
			bad = true // justified outside the (new) finalized subtree
		}
	}
	after := vObserve(fc)
	if noop {
		zzverif.Assert(err == nil, "older or equal checkpoints: no error")
		zzverif.Assert(vSameObs(before, after) && len(sink.calls) == 0, "older or equal checkpoints change nothing")
		return
	}
	if bad {
		zzverif.Assert(err != nil, "unknown/outside checkpoints or trigger are refused")
		zzverif.Assert(vSameObs(before, after) && len(sink.calls) == 0, "a refused update changes nothing")
		return
	}
	changedF := !(fr == 0 && fe == 0)
	anchor := -1
	if changedF {
		anchor = s.find(fr, fe*s.spe)
	}
	prunes := anchor > 0
	if !(prunes && sink.failAt >= 0) {
		zzverif.Assert(err == nil, "a valid update succeeds")
		if err != nil {
			return
		}
	}
	zzverif.Assert(after.j == J && after.f == F, "justified and finalized checkpoints are the new ones")
	if changedF {
		zzverif.Assert(after.pin == nil, "the pin is cleared when finalization advances")
	}
	if !prunes {
		zzverif.Assert(len(sink.calls) == 0, "nothing is pruned when the finalized node is unknown or is the root")
		return
	}
	// pruning: reported nodes
	seen := map[int]bool{}
	for _, c := range sink.calls {
		idx := -1
		for i, n := range s.nodes {
			if s.pool[n.root] == c.ref.Root && Slot(n.slot) == c.ref.Slot {
				idx = i
			}
		}
		zzverif.Assert(idx >= 0 && !s.inT(idx, anchor), "every pruned node is a known non-descendant of the new finalized node")
		if idx < 0 {
			return
		}
		zzverif.Assert(!seen[idx], "every pruned node is reported once")
		seen[idx] = true
		zzverif.Assert(c.canonical == s.inT(anchor, idx), "the canonical flag marks the ancestors of the new finalized node")
	}
	if sink.failAt >= 0 {
		zzverif.Assert(err != nil, "a sink failure is reported")
		zzverif.Assert(len(sink.calls) == sink.failAt, "a failing sink stops the pruning")
	} else {
		for i := range s.nodes {
			if !s.inT(i, anchor) && i < anchor {
				zzverif.Assert(seen[i], "every non-descendant inserted before the finalized node is pruned and reported")
			}
		}
	}
	// retained / pruned nodes answer accordingly
	for i, n := range s.nodes {
		_, e2 := fc.ClosestToSlot(s.pool[n.root], Slot(n.slot))
		c, _ := fc.ClosestToSlot(s.pool[n.root], Slot(n.slot))
		if seen[i] {
			zzverif.Assert(e2 != nil || int(c.Slot) != n.slot, "a pruned node is not found anymore")
		} else if s.inT(i, anchor) {
			zzverif.Assert(e2 == nil && int(c.Slot) == n.slot, "a retained node is still found")
		} else if sink.failAt >= 0 {
			zzverif.Assert(e2 == nil && int(c.Slot) == n.slot, "a node the failing sink did not receive is not dropped")
		}
	}
	if sink.failAt >= 0 {
		return
	}
	// head stays inside the finalized subtree; one more vote keeps working
	s.storeJ, s.storeF = uint64(je), uint64(fe)
	s.start = s.find(jr, je*s.spe)
	if s.start < 0 {
		_, herr := fc.Head()
		zzverif.Assert(herr != nil, "Head() errors when the justified node is unknown")
		return
	}
	s.vCheckHead(fc)
	{
		// the search query keeps working on the pruned array and lists only retained blocks
		non, canon, serr := fc.Search(NodeRef{Root: s.pool[s.nodes[anchor].root], Slot: Slot(s.nodes[anchor].slot)}, nil, nil)
		zzverif.Assert(serr == nil, "after pruning, Search from the finalized node succeeds")
		for _, r := range append(append([]NodeRef(nil), non...), canon...) {
			idx := -1
			for i, n := range s.nodes {
				if s.pool[n.root] == r.Root && Slot(n.slot) == r.Slot {
					idx = i
				}
			}
			zzverif.Assert(idx >= 0 && s.inT(idx, anchor) && s.nodes[idx].block, "after pruning, Search lists only block nodes retained in the finalized subtree")
		}
	}
	{
		v := nVal - 1 - zzverif.Choose(zzverif.Param("vote_validators", 1))
		var cands []int
		for i := range s.nodes {
			if s.inT(i, anchor) && (zzverif.Param("all_nodes", 0) == 1 || s.nodes[i].block || i == anchor) {
				cands = append(cands, i)
			}
		}
		k := cands[zzverif.Choose(len(cands))]
		zzverif.MustReturnWithin(400000)
		ok := fc.ProcessAttestation(ValidatorIndex(v), s.pool[s.nodes[k].root], Slot(s.nodes[k].slot))
		zzverif.Assert(ok, "after pruning, a vote for a retained node is accepted")
		e := uint64(s.nodes[k].slot / s.spe)
		if e > s.ltEp[v] || (e == 0 && !s.voted[v]) {
			s.latest[v], s.ltEp[v], s.voted[v] = k, e, true
		}
		// votes for pruned nodes no longer count
		for w := range s.latest {
			if s.latest[w] >= 0 && seen[s.latest[w]] {
				s.latest[w] = -1
			}
		}
		s.vCheckHead(fc)
		zzverif.MustReturnWithin(0)
	}
	// last, so that it does not mask the obligations above: the property's "exactly the non-descendants"
	for i := range s.nodes {
		if !s.inT(i, anchor) && i > anchor {
			zzverif.Assert(seen[i], "every non-descendant inserted after the finalized node is pruned and reported")
		}
	}
}

type vFC struct {
	fc   Forkchoice
	sink *vSink
}

func vNewWorldSink(nPool, nVal int) (*vShadow, vFC, Root) {
	vSinkGlobal = &vSink{failAt: -1}
	s, fc, ap := vNewWorld(nPool, nVal, 0)
	return s, vFC{fc, vSinkGlobal}, ap
}

var vSinkGlobal *vSink
