package proto

import (
	"context"

	"github.com/protolambda/zrnt/eth2/beacon/common"
	. "github.com/protolambda/zrnt/eth2/forkchoice"
	"github.com/protolambda/zrnt/eth2/zzverif"
)

// vF2NewWorld: vNewWorld, but the fork choice is assembled with NewForkChoice from a ProtoArray and a vote store the
// harness keeps a handle on (so that the bare ProtoArray can be queried next to the locking wrapper), balances are
// symbolic below balBound, and the sink is the recording vSink.
func vF2NewWorld(nPool, nVal int, balBound uint64) (*vShadow, Forkchoice, *ProtoArray, *vSink, Root) {
	return vF2NewWorldOrdered(nPool, nVal, balBound, -1)
}

// vF2NewWorldOrdered: order < 0: symbolic roots (vF2Root); order 0 / 1: concrete roots whose byte order ascends /
// descends with the pool index (the anchor's parent root is below all of them).
func vF2NewWorldOrdered(nPool, nVal int, balBound uint64, order int) (*vShadow, Forkchoice, *ProtoArray, *vSink, Root) {
	s := &vShadow{spe: 2}
	s.pool = make([]Root, nPool)
	for i := range s.pool {
		switch order {
		case 0:
			s.pool[i] = Root{0: byte(0x10 + i)}
		case 1:
			s.pool[i] = Root{0: byte(0xf0 - i)}
		default:
			s.pool[i] = vF2Root()
		}
		zzverif.Assume(s.pool[i] != Root{})
		for j := 0; j < i; j++ {
			zzverif.Assume(s.pool[i] != s.pool[j])
		}
	}
	anchorParent := Root{0: 0x01}
	if order < 0 {
		anchorParent = vF2Root()
	}
	for j := range s.pool {
		zzverif.Assume(anchorParent != s.pool[j])
	}
	bals := make([]Gwei, nVal)
	for v := 0; v < nVal; v++ {
		b := zzverif.NondetU64()
		zzverif.Assume(b < balBound)
		s.bal = append(s.bal, b)
		bals[v] = Gwei(b)
		s.latest = append(s.latest, -1)
		s.ltEp = append(s.ltEp, 0)
		s.voted = append(s.voted, false)
	}
	spec := &common.Spec{}
	spec.SLOTS_PER_EPOCH = Slot(s.spe)
	s.nodes = []vNode{{root: 0, slot: 0, t: -1, f: -1, block: true}}
	s.start = 0
	sink := &vSink{failAt: -1}
	pa := NewProtoArray(anchorParent, s.pool[0], 0, 0, 0, sink)
	fc, err := NewForkChoice(spec, Checkpoint{Root: s.pool[0], Epoch: 0}, Checkpoint{Root: s.pool[0], Epoch: 0},
		s.pool[0], 0, pa, NewProtoVoteStore(spec), bals)
	zzverif.Assert(err == nil, "NewForkChoice on a consistent anchor succeeds")
	return s, fc, pa, sink, anchorParent
}

// vF2Root: a root whose first byte is symbolic (param root_bytes=2: first and last byte, as vRoot) and whose other
// bytes are zero: every relative order of the roots (the tie-break) and every map lookup is covered.
func vF2Root() (r Root) {
	r[0] = zzverif.NondetU8()
	if zzverif.Param("root_bytes", 1) == 2 {
		r[31] = zzverif.NondetU8()
	}
	return
}

// ---- the shadow tree restricted to the nodes the prefix-pruned array retains (index >= keep) ----

func (s *vShadow) vF2First(keep, root int) int {
	best := -1
	for i, n := range s.nodes {
		if i >= keep && n.root == root && (best < 0 || n.slot < best) {
			best = n.slot
		}
	}
	return best
}

func (s *vShadow) vF2Find(keep, root, slot int) int {
	for i, n := range s.nodes {
		if i >= keep && n.root == root && n.slot == slot {
			return i
		}
	}
	return -1
}

func vF2SameRefs(a, b []NodeRef) bool {
	if len(a) != len(b) {
		return false
	}
	for i := range a {
		if a[i] != b[i] {
			return false
		}
	}
	return true
}

// VerifHarness_C11_after_prune: the fixed tree of VerifHarness_C10_update
//
//	P0@0 -- P1@1 -- P3@2 -- P4@3          (P1 has a gap node at slot 2; epoch 1 starts at slot 2)
//	     \       \- P6@3  (param late=1: inserted last, on P1: a sibling branch of P3 that descends from (P1,2))
//	      \- P2@1 -- P5@3 (inserted after P4: gap nodes (P2,2),(P2,3))
//
// two votes, then one successful, pruning UpdateJustified to finalized (P1,1) / (P3,1) / (P2,1) (first Choose) with
// justified = finalized (param j_child=1 adds justified = (child block, 1): P3 / P4 / P5; that justified node exists
// only for P3). P4 carries epochs (1,1) or (0,0) (second Choose; (0,0) is not viable afterwards; its sibling
// empty-slot node (P3,3) is then inserted first with (1,1) - param stale_best=1: not, so that P3@2 becomes a viable
// node whose children are all non-viable).
// Choose order (shards): finalized 3, P4 epochs 2, vote of validator 0: 4 candidates, query part 3 (param split=1:
// everything but Search / Search from the even anchors / Search from the odd anchors run on separate paths),
// [justified 2 with j_child=1], [vote of validator 1: param votes1 candidates, default 1].
// Then every graph query, for every root of the pool (7 inserted, pruned or retained) plus a never-inserted one and
// every slot 0..maxSlot+1, through the ProtoForkChoice wrapper and on the bare ProtoArray, is compared with a direct
// walk over the list of inserted nodes restricted to the retained ones. "Retained" is what the prefix pruning keeps:
// every node inserted at or after the finalized node (known finding C10-late-siblings-retained), so a retained
// conflicting block is known, answers for itself, but is not in the subtree of the finalized root. Ancestry is the
// real (transition parent) ancestry of the insertions.
//
// Contract of CanonAtSlot/Search: as in VerifHarness_C11_canon_search; additionally (doc of CanonAtSlot: "If true, a
// block node is retrieved, or nil if the slot is empty. If the fork-choice starts at a filled slot node, this node
// cannot be requested with withBlock == false"): at the first known slot of the anchor root, a block node answers
// withBlock and errors for !withBlock; an empty-slot node (the finalized gap-slot node after pruning) answers
// !withBlock and is nil for withBlock.
//
// Search is asked with no filter, each parent root, each slot 1..maxSlot+1, and the (parent root, slot) pairs of the
// inserted blocks, from every retained node, two pruned nodes and an unknown one (bare ProtoArray: when at most one
// filter is given).
//
// Params: late (1), bal_bound (16), canon (1), canon_anchor (1: CanonAtSlot at the first known slot of the anchor is
// checked; 2: only with withBlock; 0: not called), search (1), root_bytes (1; 2: roots symbolic in two bytes),
// strict_leaf / strict_view (0: the two known Search findings of C11_canon_search are relaxed to the implementation's
// behaviour; 1: contract, with the labels of those findings), strict_gap_anchor (1: contract above
// for withBlock at an empty-slot anchor node; 0: the anchor node itself), strict_same_slot (1: InSubtree(A, B) holds
// for the block B built at the slot of A's first retained empty-slot node; 0: the implementation's "false").
func VerifHarness_C11_after_prune() {
	fin := zzverif.Choose(3)
	e4 := zzverif.Choose(2)
	vote0 := zzverif.Choose(4)
	part := 3 // 0: every query but Search; 1 / 2: Search from the even / odd anchors; 3: everything on the same path
	if zzverif.Param("split", 1) == 1 {
		part = zzverif.Choose(3)
	}
	jsel := zzverif.Choose(1 + zzverif.Param("j_child", 0))
	vote1 := zzverif.Choose(zzverif.Param("votes1", 1))
	late := zzverif.Param("late", 1)
	nPool := 6 + late
	s, fc, pa, sink, anchorParent := vF2NewWorld(nPool, 2, uint64(zzverif.Param("bal_bound", 16)))
	spare := Root{0xfe, 31: 0x01}
	for i := range s.pool {
		zzverif.Assume(s.pool[i] != spare)
	}
	zzverif.Assume(anchorParent != spare)
	build := func(parent, root, slot, e int) {
		want := s.processBlock(parent, root, slot, uint64(e), uint64(e))
		got := fc.ProcessBlock(s.pool[parent], s.pool[root], Slot(slot), Epoch(e), Epoch(e))
		zzverif.Assert(got == want && got, "tree construction: block accepted")
	}
	build(0, 1, 1, 0)
	build(0, 2, 1, 0)
	build(1, 3, 2, 1)
	if e4 == 0 && zzverif.Param("stale_best", 0) == 0 {
		// the empty-slot child of P3@2 stays viable: P3@2 keeps a child that leads to a viable head
		s.processSlot(3, 3, 1, 1)
		fc.ProcessSlot(s.pool[3], 3, 1, 1)
	}
	build(3, 4, 3, e4)
	build(2, 5, 3, 1)
	if late == 1 {
		build(1, 6, 3, 1)
	}
	vote := func(v, k int) {
		ok := fc.ProcessAttestation(ValidatorIndex(v), s.pool[s.nodes[k].root], Slot(s.nodes[k].slot))
		zzverif.Assert(ok, "vote for an existing node is accepted")
		s.latest[v], s.ltEp[v], s.voted[v] = k, uint64(s.nodes[k].slot/s.spe), true
	}
	c0 := []int{s.find(4, 3), s.find(5, 3), s.find(3, 3), s.find(1, 1)}
	c1 := []int{s.find(3, 2), s.find(2, 3)}
	if late == 1 {
		c0[3] = s.find(6, 3)
		c1[1] = s.find(1, 3)
	}
	vote(0, c0[vote0])
	vote(1, c1[vote1])

	fr := []int{1, 3, 2}[fin]
	jr := fr
	if jsel == 1 {
		jr = []int{3, 4, 5}[fin] // a child block: under (P1,1) the node (P3,2) exists; (P4,2) and (P5,2) do not
	}
	F := Checkpoint{Root: s.pool[fr], Epoch: 1}
	J := Checkpoint{Root: s.pool[jr], Epoch: 1}
	newBal := []Gwei{Gwei(s.bal[0]), Gwei(s.bal[1])}
	zzverif.MustReturnWithin(400000)
	err := fc.UpdateJustified(context.Background(), s.pool[jr], J, F, func() ([]Gwei, error) { return newBal, nil })
	zzverif.MustReturnWithin(0)
	zzverif.Assert(err == nil, "a valid pruning update succeeds")
	if err != nil {
		return
	}
	keep := s.find(fr, 2)
	zzverif.Assert(keep > 0 && len(sink.calls) == keep, "the prefix before the finalized node is pruned")
	s.storeJ, s.storeF = 1, 1
	s.start = s.find(jr, 2)

	roots := append(append([]Root(nil), s.pool...), spare)
	maxSlot := s.maxSlot()
	known := func(r int) bool { return r < len(s.pool) && s.vF2First(keep, r) >= 0 }
	zzverif.Reach("queries after prune")
	zzverif.MustReturnWithin(8000000)

	// Head of the wrapper (also makes sure no vote is pending)
	if s.start < 0 {
		_, herr := fc.Head()
		zzverif.Assert(herr != nil, "Head() errors when the justified node is unknown")
	} else {
		s.vCheckHead(fc)
	}

	for a := range roots {
		if part == 1 {
			break
		}
		aKnown := known(a)
		// GetSlot
		sl, ok := fc.GetSlot(roots[a])
		sl2, ok2 := pa.GetSlot(roots[a])
		zzverif.Assert(sl == sl2 && ok == ok2, "GetSlot: wrapper and bare ProtoArray agree")
		zzverif.Assert(ok == aKnown, "after pruning, GetSlot knows exactly the retained roots")
		if ok && aKnown {
			zzverif.Assert(int(sl) == s.vF2First(keep, a), "after pruning, GetSlot is the first retained slot of the root")
		}
		// InSubtree
		for r := range roots {
			rKnown := known(r)
			unknown, in := fc.InSubtree(roots[a], roots[r])
			unknown2, in2 := pa.InSubtree(roots[a], roots[r])
			zzverif.Assert(unknown == unknown2 && in == in2, "InSubtree: wrapper and bare ProtoArray agree")
			if a == r {
				zzverif.Assert(!unknown && in, "InSubtree(x, x) holds")
			} else if !aKnown || !rKnown {
				zzverif.Assert(!in, "after pruning, no pruned or never-inserted root is reported in a subtree")
				zzverif.Assert(unknown, "after pruning, InSubtree reports pruned and never-inserted roots as unknown")
			} else {
				want := s.inT(s.vF2Find(keep, r, s.vF2First(keep, r)), s.vF2Find(keep, a, s.vF2First(keep, a)))
				zzverif.Assert(!unknown, "after pruning, retained roots are known to InSubtree")
				if want && s.vF2First(keep, r) == s.vF2First(keep, a) {
					// the block built on the very empty-slot node that is now the first known node of the anchor root
					if zzverif.Param("strict_same_slot", 1) == 1 {
						zzverif.Assert(in, "after pruning, the block built on the first retained (empty-slot) node of the anchor root is in its subtree")
					} else {
						zzverif.Assert(!in, "after pruning, InSubtree refuses the block at the slot of the anchor's first retained node")
					}
				} else if a == fr && !want {
					zzverif.Assert(!in, "a retained conflicting block is not in the subtree of the finalized root")
				} else if a == fr {
					zzverif.Assert(in, "a retained descendant is in the subtree of the finalized root")
				} else {
					zzverif.Assert(in == want, "after pruning, InSubtree(anchor, root) == root descends from anchor in the inserted tree")
				}
			}
		}
		for q := 0; q <= maxSlot+1; q++ {
			// ClosestToSlot
			c, err := fc.ClosestToSlot(roots[a], Slot(q))
			c2, err2 := pa.ClosestToSlot(roots[a], Slot(q))
			zzverif.Assert(c == c2 && (err == nil) == (err2 == nil), "ClosestToSlot: wrapper and bare ProtoArray agree")
			if !aKnown || q < s.vF2First(keep, a) {
				zzverif.Assert(err != nil, "after pruning, ClosestToSlot errors for unknown roots and slots before the first retained node")
			} else {
				best := s.vF2First(keep, a)
				for i, n := range s.nodes {
					if i >= keep && n.root == a && n.slot <= q && n.slot > best {
						best = n.slot
					}
				}
				zzverif.Assert(err == nil && c.Root == roots[a] && int(c.Slot) == best, "after pruning, ClosestToSlot is the latest retained node of the root at or before the slot")
			}
			// FindHead / CanonicalChain from (root, slot)
			h, err := fc.FindHead(roots[a], Slot(q))
			h2, err2 := pa.FindHead(roots[a], Slot(q))
			zzverif.Assert(h == h2 && (err == nil) == (err2 == nil), "FindHead: wrapper and bare ProtoArray agree")
			chain, cerr := fc.CanonicalChain(roots[a], Slot(q))
			chain2, cerr2 := pa.CanonicalChain(roots[a], Slot(q))
			same := len(chain) == len(chain2) && (cerr == nil) == (cerr2 == nil)
			for i := 0; same && i < len(chain); i++ {
				same = chain[i] == chain2[i]
			}
			zzverif.Assert(same, "CanonicalChain: wrapper and bare ProtoArray agree")
			at := -1
			if aKnown {
				at = s.vF2Find(keep, a, q)
			}
			if at < 0 {
				zzverif.Assert(err != nil, "after pruning, FindHead errors for a pruned or unknown anchor node")
				zzverif.Assert(cerr != nil, "after pruning, CanonicalChain errors for a pruned or unknown anchor node")
			} else {
				want, viable := s.headFrom(at)
				zzverif.Assert((err == nil) == viable, "after pruning, FindHead errors exactly when no viable head exists")
				zzverif.Assert((cerr == nil) == viable, "after pruning, CanonicalChain errors exactly when FindHead does")
				if err == nil && viable {
					zzverif.Assert(h == s.vFcRef(want), "after pruning, FindHead(anchor) is the LMD-GHOST winner below the anchor node")
				}
				if cerr == nil && viable {
					n := want
					i := 0
					for ; n >= 0; i++ {
						if i >= len(chain) {
							break
						}
						pidx := s.vFcParentIdx(n)
						proot := anchorParent
						if pidx < len(s.pool) {
							proot = s.pool[pidx]
						}
						if !s.nodes[n].block {
							proot = s.pool[s.nodes[n].root]
						}
						zzverif.Assert(chain[i].NodeRef == s.vFcRef(n), "after pruning, CanonicalChain lists the transition ancestors of the head in order")
						zzverif.Assert(chain[i].ParentRoot == proot, "after pruning, CanonicalChain reports the parent root of every node")
						if n == at {
							i++
							break
						}
						n = s.nodes[n].t
					}
					zzverif.Assert(i == len(chain) && n == at, "after pruning, CanonicalChain ends at the anchor node")
				}
			}
			// CanonAtSlot
			for w := 0; w < 2 && zzverif.Param("canon", 1) == 1; w++ {
				withBlock := w == 1
				first := -1
				if aKnown {
					first = s.vF2First(keep, a)
				}
				if ca := zzverif.Param("canon_anchor", 1); first == q && (ca == 0 || (ca == 2 && !withBlock)) {
					continue
				}
				got, err := fc.CanonAtSlot(roots[a], Slot(q), withBlock)
				got2, err2 := pa.CanonAtSlot(roots[a], Slot(q), withBlock)
				zzverif.Assert(got == got2 && (err == nil) == (err2 == nil), "CanonAtSlot: wrapper and bare ProtoArray agree")
				if !aKnown || q < first {
					zzverif.Assert(err != nil, "after pruning, CanonAtSlot errors for unknown anchors and slots before the anchor")
					continue
				}
				fa := s.vF2Find(keep, a, first)
				if q == first {
					if s.nodes[fa].block {
						if withBlock {
							zzverif.Assert(err == nil && got == s.vFcRef(fa), "after pruning, CanonAtSlot(anchor, anchor slot, withBlock) is the anchor block node")
						} else {
							zzverif.Assert(err != nil, "after pruning, CanonAtSlot(anchor, anchor slot, !withBlock) errors for a block anchor node")
						}
					} else {
						if !withBlock {
							zzverif.Assert(err == nil && got == s.vFcRef(fa), "after pruning, CanonAtSlot(anchor, anchor slot, !withBlock) is the empty-slot anchor node")
						} else if zzverif.Param("strict_gap_anchor", 1) == 1 {
							zzverif.Assert(err == nil && got == (NodeRef{}), "after pruning, CanonAtSlot(anchor, anchor slot, withBlock) is nil for an empty-slot anchor node")
						} else {
							zzverif.Assert(err == nil && got == s.vFcRef(fa), "after pruning, CanonAtSlot(anchor, anchor slot, withBlock) is the anchor node")
						}
					}
					continue
				}
				head, viable := s.headFrom(fa)
				if !viable {
					zzverif.Assert(err != nil, "after pruning, CanonAtSlot errors when there is no viable head below the anchor")
					continue
				}
				if s.nodes[head].slot < q {
					zzverif.Assert(err == nil && got == s.vFcRef(head), "after pruning, CanonAtSlot past the head returns the head")
					continue
				}
				blockAt, slotAt := -1, -1
				for n := head; n >= 0; n = s.nodes[n].t {
					if s.nodes[n].slot == q {
						if s.nodes[n].block {
							blockAt = n
						} else {
							slotAt = n
						}
					}
					if n == fa {
						break
					}
				}
				if withBlock {
					if blockAt >= 0 {
						zzverif.Assert(err == nil && got == s.vFcRef(blockAt), "after pruning, CanonAtSlot(withBlock) is the canonical block node of the slot")
					} else {
						zzverif.Assert(err == nil && got == (NodeRef{}), "after pruning, CanonAtSlot(withBlock) is nil for an empty canonical slot")
					}
				} else {
					zzverif.Assert(slotAt >= 0, "reference: the canonical chain has a slot node at every slot after the anchor")
					if slotAt >= 0 {
						zzverif.Assert(err == nil && got == s.vFcRef(slotAt), "after pruning, CanonAtSlot(!withBlock) is the canonical slot node of the slot")
					}
				}
			}
		}
	}

	// ---- Search ----
	if zzverif.Param("search", 1) == 1 && part != 0 {
		strictView := zzverif.Param("strict_view", 0)
		strictLeaf := zzverif.Param("strict_leaf", 0)
		proots := append(append([]Root(nil), roots...), anchorParent)
		type anc struct {
			ref NodeRef
			at  int
		}
		var ancs []anc
		for n := range s.nodes {
			if n >= keep {
				ancs = append(ancs, anc{s.vFcRef(n), n})
			}
		}
		ancs = append(ancs, anc{s.vFcRef(0), -1})        // pruned node
		ancs = append(ancs, anc{s.vFcRef(keep - 1), -1}) // the last pruned node
		ancs = append(ancs, anc{NodeRef{Root: spare, Slot: 0}, -1})
		for ai, an := range ancs {
			if (part == 1 || part == 2) && ai%2 != part-1 {
				continue
			}
			head, viable := -1, false
			if an.at >= 0 {
				head, viable = s.headFrom(an.at)
			}
			for p := -1; p < len(proots); p++ {
				for q := -1; q <= maxSlot+1; q++ {
					if q == 0 {
						continue // slot 0 is pruned in every case; slot 1 stands for the pruned slots
					}
					if p >= 0 && q >= 0 {
						// both filters: only the (parent root, slot) pairs of an inserted block
						rel := false
						for n := range s.nodes {
							if s.nodes[n].block && s.vFcParentIdx(n) == p && s.nodes[n].slot == q {
								rel = true
							}
						}
						if !rel {
							continue
						}
					}
					var pr *Root
					var sl *Slot
					if p >= 0 {
						x := proots[p]
						pr = &x
					}
					if q >= 0 {
						x := Slot(q)
						sl = &x
					}
					nonCanon, canon, err := fc.Search(an.ref, pr, sl)
					if p < 0 || q < 0 {
						nonCanon2, canon2, err2 := pa.Search(an.ref, pr, sl)
						zzverif.Assert((err == nil) == (err2 == nil) && vF2SameRefs(nonCanon, nonCanon2) && vF2SameRefs(canon, canon2), "Search: wrapper and bare ProtoArray agree")
					}
					if an.at < 0 || !viable {
						zzverif.Assert(err != nil, "after pruning, Search errors for a pruned or unknown anchor node or when no viable head exists")
						continue
					}
					zzverif.Assert(err == nil, "after pruning, Search succeeds when the anchor has a viable head")
					if err != nil {
						continue
					}
					nC, nN := 0, 0
					for n := range s.nodes {
						if n < keep || !s.nodes[n].block || !s.inT(n, an.at) {
							continue
						}
						onAnchorSlot := !s.nodes[an.at].block && n != an.at && s.nodes[n].slot == s.nodes[an.at].slot
						if onAnchorSlot && strictView == 0 {
							continue
						}
						if p < 0 && q < 0 {
							if strictLeaf == 1 {
								hasBlockChild := false
								for m := range s.nodes {
									if s.nodes[m].block && s.nodes[m].f == n {
										hasBlockChild = true
									}
								}
								if hasBlockChild {
									continue
								}
							} else {
								h, _ := s.headFrom(n)
								if s.nodes[h].root != s.nodes[n].root {
									continue
								}
							}
						} else {
							if p >= 0 && s.vFcParentIdx(n) != p {
								continue
							}
							if q >= 0 && s.nodes[n].slot != q {
								continue
							}
						}
						isCanon := s.inT(head, n)
						in := (isCanon && vFcContains(canon, s.vFcRef(n))) || (!isCanon && vFcContains(nonCanon, s.vFcRef(n)))
						if isCanon {
							nC++
						} else {
							nN++
						}
						if onAnchorSlot {
							zzverif.Assert(in, "Search from an empty-slot anchor lists the block built on that very slot node")
						} else if p < 0 && q < 0 && strictLeaf == 1 {
							zzverif.Assert(in, "Search() lists every block without child block as head, in the right class")
						} else if p < 0 && q < 0 {
							zzverif.Assert(in, "after pruning, Search() lists every head block in view, in the right class")
						} else {
							zzverif.Assert(in, "after pruning, Search lists every matching retained block in view, in the right class")
						}
					}
					for _, x := range append(append([]NodeRef(nil), nonCanon...), canon...) {
						idx := -1
						for i := range s.nodes {
							if i >= keep && s.vFcRef(i) == x {
								idx = i
							}
						}
						zzverif.Assert(idx >= 0 && s.inT(idx, an.at), "after pruning, Search lists only retained nodes below the anchor (no conflicting or pruned block)")
					}
					if p < 0 && q < 0 && strictLeaf == 1 {
						zzverif.Assert(len(canon) == nC && len(nonCanon) == nN, "Search() lists nothing but the blocks without child block in view, once each")
					} else if p < 0 && q < 0 {
						zzverif.Assert(len(canon) == nC && len(nonCanon) == nN, "after pruning, Search() lists nothing but the head blocks in view, once each")
					} else {
						zzverif.Assert(len(canon) == nC && len(nonCanon) == nN, "after pruning, Search lists nothing but the matching blocks in view, once each")
					}
				}
			}
		}
	}
	zzverif.MustReturnWithin(0)
}
