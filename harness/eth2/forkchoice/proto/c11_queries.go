package proto

import (
	. "github.com/protolambda/zrnt/eth2/forkchoice"
	"github.com/protolambda/zrnt/eth2/zzverif"
)

func (s *vShadow) inT(n, anc int) bool {
	for n >= 0 {
		if n == anc {
			return true
		}
		n = s.nodes[n].t
	}
	return false
}

// headFrom: the LMD-GHOST walk of the reference starting at an arbitrary node.
func (s *vShadow) headFrom(start int) (int, bool) {
	save := s.start
	s.start = start
	h, ok := s.head()
	s.start = save
	return h, ok
}

func (s *vShadow) maxSlot() int {
	m := 0
	for _, n := range s.nodes {
		if n.slot > m {
			m = n.slot
		}
	}
	return m
}

// VerifHarness_C11_queries: after a K-step insertion/vote history, every navigation query, for every pool root
// (incl. one that was never inserted) and every slot up to one past the highest, equals a direct walk of the shadow tree.
func VerifHarness_C11_queries() {
	K := zzverif.Param("steps", 2)
	nVal := zzverif.Param("validators", 2)
	nRoots := zzverif.Param("roots", 3)
	s, fc, _ := vNewWorld(nRoots+1, nVal, 0) // the last pool root is never inserted (vStep only uses the first fresh one... see below)
	s.pool = s.pool[:nRoots]               // hide the spare root from the history generator
	spare := Root{0xfe, 31: 0x01}
	for i := range s.pool {
		zzverif.Assume(s.pool[i] != spare)
	}
	for i := 0; i < K; i++ {
		s.vStep(fc, nVal)
	}
	zzverif.Reach("queries")
	zzverif.MustReturnWithin(2000000)
	roots := append(append([]Root(nil), s.pool...), spare)
	for a := range roots {
		aKnown := a < len(s.pool) && s.known(a)
		// GetSlot
		sl, ok := fc.GetSlot(roots[a])
		zzverif.Assert(ok == aKnown, "GetSlot knows exactly the inserted roots")
		if ok && aKnown {
			zzverif.Assert(int(sl) == s.first(a), "GetSlot is the first known slot of the root")
		}
		// InSubtree
		for r := range roots {
			rKnown := r < len(s.pool) && s.known(r)
			unknown, in := fc.InSubtree(roots[a], roots[r])
			if a == r {
				zzverif.Assert(!unknown && in, "InSubtree(x, x) holds")
			} else if !aKnown || !rKnown {
				zzverif.Assert(unknown && !in, "InSubtree reports never-inserted roots as unknown")
			} else {
				want := s.inT(s.find(r, s.first(r)), s.find(a, s.first(a)))
				zzverif.Assert(!unknown && in == want, "InSubtree(anchor, root) == root descends from anchor in the inserted tree")
			}
		}
		for q := 0; q <= s.maxSlot()+1; q++ {
			// ClosestToSlot
			c, err := fc.ClosestToSlot(roots[a], Slot(q))
			if !aKnown || q < s.first(a) {
				zzverif.Assert(err != nil, "ClosestToSlot errors for unknown roots and slots before the root")
			} else {
				best := s.first(a)
				for _, n := range s.nodes {
					if n.root == a && n.slot <= q && n.slot > best {
						best = n.slot
					}
				}
				zzverif.Assert(err == nil && c.Root == roots[a] && int(c.Slot) == best, "ClosestToSlot is the latest node of the root at or before the slot")
			}
			// FindHead from (root, slot)
			h, err := fc.FindHead(roots[a], Slot(q))
			at := -1
			if aKnown {
				at = s.find(a, q)
			}
			if at < 0 {
				zzverif.Assert(err != nil, "FindHead errors for an unknown anchor node")
			} else {
				want, viable := s.headFrom(at)
				zzverif.Assert((err == nil) == viable, "FindHead errors exactly when no viable head exists")
				if err == nil && viable {
					zzverif.Assert(h.Root == s.pool[s.nodes[want].root] && int(h.Slot) == s.nodes[want].slot, "FindHead(anchor) is the LMD-GHOST winner below the anchor node")
					// CanonicalChain: from that head back to the anchor node, inclusive
					chain, cerr := fc.CanonicalChain(roots[a], Slot(q))
					zzverif.Assert(cerr == nil, "CanonicalChain succeeds when FindHead does")
					if cerr == nil {
						n := want
						i := 0
						for ; n >= 0; i++ {
							if i >= len(chain) {
								break
							}
							zzverif.Assert(chain[i].Root == s.pool[s.nodes[n].root] && int(chain[i].Slot) == s.nodes[n].slot, "CanonicalChain lists the transition ancestors of the head in order")
							if n == at {
								i++
								break
							}
							n = s.nodes[n].t
						}
						zzverif.Assert(i == len(chain) && n == at, "CanonicalChain ends at the anchor node")
					}
				}
			}
		}
	}
	zzverif.MustReturnWithin(0)
}
