package proto

import (
	. "github.com/protolambda/zrnt/eth2/forkchoice"
	"github.com/protolambda/zrnt/eth2/zzverif"
)

// vFcStep: one history step with the operation kind fixed by the caller (so that the kinds of all steps can be chosen
// up front = shard prefix); the generator of vStep without its refused/duplicate insertions (those are C09's): block
// with a gap of up to one slot, empty slot(s), vote for an existing node.
func (s *vShadow) vFcStep(fc Forkchoice, nVal int, op int, je uint64) {
	var knownRoots []int
	fresh := -1
	for r := range s.pool {
		if s.known(r) {
			knownRoots = append(knownRoots, r)
		} else if fresh < 0 {
			fresh = r
		}
	}
	switch op {
	case 0: // block with a fresh root on a known parent, one or two slots after the parent's first slot (a gap slot node)
		if fresh < 0 {
			return
		}
		parent := knownRoots[zzverif.Choose(len(knownRoots))]
		slot := s.first(parent) + 1 + zzverif.Choose(2)
		want := s.processBlock(parent, fresh, slot, je, 0)
		got := fc.ProcessBlock(s.pool[parent], s.pool[fresh], Slot(slot), Epoch(je), 0)
		zzverif.Assert(got && want, "ProcessBlock accepts a new block on a known, earlier parent")
	case 1: // empty slot(s) on a known root
		parent := knownRoots[zzverif.Choose(len(knownRoots))]
		slot := s.first(parent) + 1 + zzverif.Choose(2)
		s.processSlot(parent, slot, je, 0)
		fc.ProcessSlot(s.pool[parent], Slot(slot), Epoch(je), 0)
	case 2: // vote of validator v for an existing node
		v := zzverif.Choose(nVal)
		k := zzverif.Choose(len(s.nodes))
		root, slot := s.nodes[k].root, s.nodes[k].slot
		ok := fc.ProcessAttestation(ValidatorIndex(v), s.pool[root], Slot(slot))
		zzverif.Assert(ok, "ProcessAttestation accepts a vote for an existing node")
		ep := uint64(slot / s.spe)
		if ep > s.ltEp[v] || (ep == 0 && !s.voted[v]) {
			s.latest[v], s.ltEp[v], s.voted[v] = k, ep, true
		}
	}
}

// index (in pool ++ [spare, anchorParent], all pairwise distinct) of the root of the parent block of a block node
// (reference side: from the arguments of the insertion)
func (s *vShadow) vFcParentIdx(n int) int {
	if s.nodes[n].t < 0 {
		return len(s.pool) + 1
	}
	return s.nodes[s.nodes[n].t].root
}

func (s *vShadow) vFcRef(n int) NodeRef {
	return NodeRef{Root: s.pool[s.nodes[n].root], Slot: Slot(s.nodes[n].slot)}
}

func vFcContains(l []NodeRef, x NodeRef) bool {
	for i := range l {
		if l[i] == x {
			return true
		}
	}
	return false
}

// VerifHarness_C11_canon_search: after a K-step history (blocks with gap slots, empty slots, votes; operation kinds
// chosen up front) CanonAtSlot and Search of the fork choice (wrapper + ProtoArray) are compared, for every argument,
// with a direct walk over the list of inserted nodes.
//
// Contract used (doc comments of ProtoArray.CanonAtSlot / Search):
//   - CanonAtSlot(anchor, slot, withBlock): unknown anchor root or slot before the first node of the anchor root: error.
//     slot == first slot of the anchor root: the anchor block node itself for withBlock, an error for !withBlock (the
//     pre-block node of the anchor is "already pruned"/out of view). Otherwise head := LMD-GHOST head below the anchor
//     block node (error if none is viable); chain := head and its transition ancestors; withBlock: the block node of
//     the chain at that slot, or (NodeRef{}, nil) if the chain has only an empty-slot node there; !withBlock: the
//     empty-slot ("pre-block") node of the chain at that slot. Slot past the head: the head ("closest we have", inline
//     comment).
//   - Search(anchor, parentRoot, slot): error iff FindHead(anchor) fails; otherwise the block nodes in the transition
//     subtree of the anchor node that match the given filters (both nil: blocks without a child block), partitioned
//     into canon (head or transition ancestor of the head) / nonCanon; each exactly once.
//
// Params: steps (2), validators (2), roots (steps+1, incl. the anchor), store_je (0), sync (1: Head() is queried once before the queries, so
// that no votes are pending), canon / search (1: check CanonAtSlot / Search), search_pairs (0: when both filters are
// given, only (parent root, slot) pairs of an inserted block and the slot after it; 1: all pairs). Three switches relax the reference to the behaviour of
// the implementation where it was found to deviate from the contract above (default 1 = contract):
// strict_head=0: at the head's slot CanonAtSlot returns the head whatever withBlock says;
// strict_leaf=0: Search() reports a block as head iff the LMD-GHOST walk from it ends on a node of the same root;
// strict_view=0: from an empty-slot anchor node Search does not see the block built on that very slot node.
func VerifHarness_C11_canon_search() {
	K := zzverif.Param("steps", 2)
	nVal := zzverif.Param("validators", 2)
	nRoots := zzverif.Param("roots", K+1)
	storeJ := uint64(zzverif.Param("store_je", 0))
	ops := make([]int, K)
	for i := range ops {
		ops[i] = zzverif.Choose(3)
	}
	s, fc, anchorParent := vNewWorld(nRoots, nVal, storeJ)
	spare := Root{0xfe, 31: 0x01}
	for i := range s.pool {
		zzverif.Assume(s.pool[i] != spare)
	}
	zzverif.Assume(anchorParent != spare)
	for i := 0; i < K; i++ {
		je := uint64(0)
		if storeJ != 0 && ops[i] != 2 {
			je = uint64(zzverif.Choose(2))
		}
		s.vFcStep(fc, nVal, ops[i], je)
	}
	if zzverif.Param("sync", 1) == 1 {
		_, _ = fc.Head()
	}
	zzverif.Reach("canon_search")
	zzverif.MustReturnWithin(4000000)
	roots := append(append([]Root(nil), s.pool...), spare)
	maxSlot := s.maxSlot()

	// ---- CanonAtSlot ----
	for a := range roots {
		if zzverif.Param("canon", 1) == 0 {
			break
		}
		aKnown := a < len(s.pool) && s.known(a)
		for q := 0; q <= maxSlot+1; q++ {
			for w := 0; w < 2; w++ {
				withBlock := w == 1
				got, err := fc.CanonAtSlot(roots[a], Slot(q), withBlock)
				if !aKnown || q < s.first(a) {
					zzverif.Assert(err != nil, "CanonAtSlot errors for unknown anchors and slots before the anchor")
					continue
				}
				at := s.find(a, s.first(a))
				if q == s.first(a) {
					if withBlock {
						zzverif.Assert(err == nil && got == s.vFcRef(at), "CanonAtSlot(anchor, anchor slot, withBlock) is the anchor block node")
					} else {
						zzverif.Assert(err != nil, "CanonAtSlot(anchor, anchor slot, !withBlock) errors: the pre-block node of the anchor is out of view")
					}
					continue
				}
				head, viable := s.headFrom(at)
				if !viable {
					zzverif.Assert(err != nil, "CanonAtSlot errors when there is no viable head below the anchor")
					continue
				}
				if s.nodes[head].slot < q {
					zzverif.Assert(err == nil && got == s.vFcRef(head), "CanonAtSlot past the head returns the head (closest node)")
					continue
				}
				blockAt, slotAt := -1, -1
				for n := head; n >= 0; n = s.nodes[n].t {
					if s.nodes[n].slot == q {
						if s.nodes[n].block {
							blockAt = n
						} else {
							slotAt = n
						}
					}
					if n == at {
						break
					}
				}
				atHead := s.nodes[head].slot == q
				if atHead && zzverif.Param("strict_head", 1) == 0 {
					zzverif.Assert(err == nil && got == s.vFcRef(head), "CanonAtSlot at the head's slot returns the head")
					continue
				}
				if withBlock {
					if blockAt >= 0 {
						if atHead {
							zzverif.Assert(err == nil && got == s.vFcRef(blockAt), "CanonAtSlot(withBlock) at the head's slot is the head block")
						} else {
							zzverif.Assert(err == nil && got == s.vFcRef(blockAt), "CanonAtSlot(withBlock) is the canonical block node of the slot")
						}
					} else {
						if atHead {
							zzverif.Assert(err == nil && got == (NodeRef{}), "CanonAtSlot(withBlock) at the head's slot is nil when the head is an empty-slot node")
						} else {
							zzverif.Assert(err == nil && got == (NodeRef{}), "CanonAtSlot(withBlock) is nil for an empty canonical slot")
						}
					}
				} else {
					zzverif.Assert(slotAt >= 0, "reference: the canonical chain has a slot node at every slot after the anchor")
					if slotAt >= 0 {
						if atHead {
							zzverif.Assert(err == nil && got == s.vFcRef(slotAt), "CanonAtSlot(!withBlock) at the head's slot is the pre-block node, not the head block")
						} else {
							zzverif.Assert(err == nil && got == s.vFcRef(slotAt), "CanonAtSlot(!withBlock) is the canonical slot (pre-block) node of the slot")
						}
					}
				}
			}
		}
	}

	// ---- Search ----
	strictView := zzverif.Param("strict_view", 1)
	strictLeaf := zzverif.Param("strict_leaf", 1)
	if zzverif.Param("search", 1) == 1 {
		proots := append(append([]Root(nil), roots...), anchorParent)
		// anchors: every node, a never-inserted root, and a known root at a slot without node
		type anc struct {
			ref NodeRef
			at  int
		}
		var ancs []anc
		for n := range s.nodes {
			ancs = append(ancs, anc{s.vFcRef(n), n})
		}
		ancs = append(ancs, anc{NodeRef{Root: spare, Slot: 0}, -1})
		ancs = append(ancs, anc{NodeRef{Root: s.pool[0], Slot: Slot(maxSlot + 3)}, -1})
		for _, an := range ancs {
			head, viable := -1, false
			if an.at >= 0 {
				head, viable = s.headFrom(an.at)
			}
			for p := -1; p < len(proots); p++ {
				for q := -1; q <= maxSlot+1; q++ {
					if p >= 0 && q >= 0 && zzverif.Param("search_pairs", 0) == 0 {
						// both filters: only the pairs (parent root of a block, that block's slot or the slot after)
						rel := false
						for n := range s.nodes {
							if s.nodes[n].block && s.vFcParentIdx(n) == p && (s.nodes[n].slot == q || s.nodes[n].slot+1 == q) {
								rel = true
							}
						}
						if !rel {
							continue
						}
					}
					var pr *Root
					var sl *Slot
					if p >= 0 {
						x := proots[p]
						pr = &x
					}
					if q >= 0 {
						x := Slot(q)
						sl = &x
					}
					nonCanon, canon, err := fc.Search(an.ref, pr, sl)
					if an.at < 0 || !viable {
						zzverif.Assert(err != nil, "Search errors for an unknown anchor node or when no viable head exists")
						continue
					}
					zzverif.Assert(err == nil, "Search succeeds when the anchor has a viable head")
					if err != nil {
						continue
					}
					nC, nN := 0, 0
					for n := range s.nodes {
						if !s.nodes[n].block || !s.inT(n, an.at) {
							continue
						}
						// the block built on the very slot node that is the anchor
						onAnchorSlot := !s.nodes[an.at].block && n != an.at && s.nodes[n].slot == s.nodes[an.at].slot
						if onAnchorSlot && strictView == 0 {
							continue
						}
						if p < 0 && q < 0 {
							if strictLeaf == 1 {
								hasBlockChild := false
								for m := range s.nodes {
									if s.nodes[m].block && s.nodes[m].f == n {
										hasBlockChild = true
									}
								}
								if hasBlockChild {
									continue
								}
							} else {
								// relaxed: the LMD-GHOST walk from the block ends on a node of the same root
								h, _ := s.headFrom(n)
								if s.nodes[h].root != s.nodes[n].root {
									continue
								}
							}
						} else {
							if p >= 0 && s.vFcParentIdx(n) != p {
								continue
							}
							if q >= 0 && s.nodes[n].slot != q {
								continue
							}
						}
						isCanon := s.inT(head, n)
						in := (isCanon && vFcContains(canon, s.vFcRef(n))) || (!isCanon && vFcContains(nonCanon, s.vFcRef(n)))
						if isCanon {
							nC++
						} else {
							nN++
						}
						if onAnchorSlot {
							zzverif.Assert(in, "Search from an empty-slot anchor lists the block built on that very slot node")
						} else if p < 0 && q < 0 {
							zzverif.Assert(in, "Search() lists every block without child block as head, in the right class")
						} else {
							zzverif.Assert(in, "Search lists every matching block in view, in the right class")
						}
					}
					if p < 0 && q < 0 {
						zzverif.Assert(len(canon) == nC && len(nonCanon) == nN, "Search() lists nothing but the blocks without child block in view, once each")
					} else {
						zzverif.Assert(len(canon) == nC && len(nonCanon) == nN, "Search lists nothing but the matching blocks in view, once each")
					}
				}
			}
		}
	}
	zzverif.MustReturnWithin(0)
}
