package proto

import (
	"context"

	. "github.com/protolambda/zrnt/eth2/forkchoice"
	"github.com/protolambda/zrnt/eth2/zzverif"
)

// VerifHarness_C17_forkchoice: lock discipline of every method of the shared ProtoForkChoice. From one common
// pre-state (a small forked tree with a pending vote) each method is run once with representative arguments while
// the engine records, for every access to the shared instance, the locks held; the engine then reports every cell
// that is written and not protected by one common lock held exclusively by its writers. Locks must be free afterwards.
func VerifHarness_C17_forkchoice() {
	s, fc, _ := vNewWorldSink(4, 2)
	f := fc.fc
	f.ProcessBlock(s.pool[0], s.pool[1], 1, 0, 0)
	f.ProcessBlock(s.pool[0], s.pool[2], 1, 0, 0)
	f.ProcessAttestation(0, s.pool[1], 1)
	m := zzverif.Choose(17)
	zzverif.SharedBegin()
	zzverif.Reach("fc-method")
	zzverif.MustReturnWithin(400000)
	switch m {
	case 0:
		f.Head()
	case 1:
		f.FindHead(s.pool[0], 0)
	case 2:
		f.ProcessAttestation(1, s.pool[2], 1)
	case 3:
		f.ProcessBlock(s.pool[1], s.pool[3], 2, 0, 0)
	case 4:
		f.ProcessSlot(s.pool[1], 3, 0, 0)
	case 5:
		f.CanonicalChain(s.pool[0], 0)
	case 6:
		f.ClosestToSlot(s.pool[1], 2)
	case 7:
		f.CanonAtSlot(s.pool[0], 1, true)
	case 8:
		f.GetSlot(s.pool[2])
	case 9:
		f.InSubtree(s.pool[0], s.pool[2])
	case 10:
		f.Search(NodeRef{Root: s.pool[0], Slot: 0}, nil, nil)
	case 11:
		f.Pin()
	case 12:
		f.SetPin(s.pool[1], 1)
	case 13:
		f.Justified()
	case 14:
		f.Finalized()
	case 15:
		f.UpdateJustified(context.Background(), s.pool[1], Checkpoint{Root: s.pool[1], Epoch: 1}, Checkpoint{Root: s.pool[0], Epoch: 0}, func() ([]Gwei, error) { return []Gwei{1, 2}, nil })
	case 16:
		f.UpdateJustified(context.Background(), s.pool[1], Checkpoint{Root: s.pool[1], Epoch: 1}, Checkpoint{Root: s.pool[1], Epoch: 1}, func() ([]Gwei, error) { return []Gwei{1, 2}, nil })
	}
	zzverif.MustReturnWithin(0)
	zzverif.SharedEnd()
	zzverif.Assert(zzverif.LocksHeld() == 0, "every lock is released when the call returns")
}

// VerifHarness_C17_update_interleave: two overlapping UpdateJustified calls (justified epoch 1 and epoch 2 on one
// chain) leave the store as some sequential order of the two leaves it. Call B is run as a whole at the k-th point where
// call A releases the instance's lock (the engine's unlock hook): with the lock held for the whole call there is exactly
// one such point (the end) and the result is the serial A;B; a call that decides "newer than the store" under one
// critical section and writes under another lets B slip in between and ends with the older checkpoint.
// Bounds: chain P0(0) - P1(2) - P2(4) with 2 slots per epoch, one validator, B inserted at unlock point k = 0..3.
func VerifHarness_C17_update_interleave() {
	s, fcI, _ := vNewWorldSink(3, 1)
	f := fcI.fc
	f.ProcessBlock(s.pool[0], s.pool[1], Slot(s.spe), 0, 0)
	f.ProcessBlock(s.pool[1], s.pool[2], Slot(2*s.spe), 0, 0)
	fin := Checkpoint{Root: s.pool[0], Epoch: 0}
	cpA := Checkpoint{Root: s.pool[1], Epoch: 1}
	cpB := Checkpoint{Root: s.pool[2], Epoch: 2}
	bals := func() ([]Gwei, error) { return []Gwei{1}, nil }
	k := zzverif.Choose(4)
	cnt, ran := 0, false
	var errB error
	zzverif.OnUnlock(func() {
		if ran {
			return
		}
		if cnt == k {
			ran = true
			errB = f.UpdateJustified(context.Background(), s.pool[2], cpB, fin, bals)
		}
		cnt++
	})
	zzverif.MustReturnWithin(800000)
	errA := f.UpdateJustified(context.Background(), s.pool[2], cpA, fin, bals)
	zzverif.MustReturnWithin(0)
	zzverif.OnUnlock(nil)
	if !ran {
		return // call A had fewer than k+1 unlock points
	}
	zzverif.Reach("update-interleaved")
	zzverif.Assert(errA == nil && errB == nil, "both overlapping updates return without error")
	zzverif.Assert(f.Justified() == cpB, "after two overlapping UpdateJustified calls the store holds the newer justified checkpoint, as after either sequential order")
	zzverif.Assert(zzverif.LocksHeld() == 0, "no lock is left held")
}
