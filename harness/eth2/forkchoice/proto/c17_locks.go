package proto

import (
	"context"

	. "github.com/protolambda/zrnt/eth2/forkchoice"
	"github.com/protolambda/zrnt/eth2/zzverif"
)

// VerifHarness_C17_forkchoice: lock discipline of every method of the shared ProtoForkChoice. From one common
// pre-state (a small forked tree with a pending vote) each method is run once with representative arguments while
// the engine records, for every access to the shared instance, the locks held; the engine then reports every cell
// that is written and not protected by one common lock held exclusively by its writers. Locks must be free afterwards.
func VerifHarness_C17_forkchoice() {
	s, fc, _ := vNewWorldSink(4, 2)
	f := fc.fc
	f.ProcessBlock(s.pool[0], s.pool[1], 1, 0, 0)
	f.ProcessBlock(s.pool[0], s.pool[2], 1, 0, 0)
	f.ProcessAttestation(0, s.pool[1], 1)
	m := zzverif.Choose(17)
	zzverif.SharedBegin()
	zzverif.Reach("fc-method")
	zzverif.MustReturnWithin(400000)
	switch m {
	case 0:
		f.Head()
	case 1:
		f.FindHead(s.pool[0], 0)
	case 2:
		f.ProcessAttestation(1, s.pool[2], 1)
	case 3:
		f.ProcessBlock(s.pool[1], s.pool[3], 2, 0, 0)
	case 4:
		f.ProcessSlot(s.pool[1], 3, 0, 0)
	case 5:
		f.CanonicalChain(s.pool[0], 0)
	case 6:
		f.ClosestToSlot(s.pool[1], 2)
	case 7:
		f.CanonAtSlot(s.pool[0], 1, true)
	case 8:
		f.GetSlot(s.pool[2])
	case 9:
		f.InSubtree(s.pool[0], s.pool[2])
	case 10:
		f.Search(NodeRef{Root: s.pool[0], Slot: 0}, nil, nil)
	case 11:
		f.Pin()
	case 12:
		f.SetPin(s.pool[1], 1)
	case 13:
		f.Justified()
	case 14:
		f.Finalized()
	case 15:
		f.UpdateJustified(context.Background(), s.pool[1], Checkpoint{Root: s.pool[1], Epoch: 1}, Checkpoint{Root: s.pool[0], Epoch: 0}, func() ([]Gwei, error) { return []Gwei{1, 2}, nil })
	case 16:
		f.UpdateJustified(context.Background(), s.pool[1], Checkpoint{Root: s.pool[1], Epoch: 1}, Checkpoint{Root: s.pool[1], Epoch: 1}, func() ([]Gwei, error) { return []Gwei{1, 2}, nil })
	}
	zzverif.MustReturnWithin(0)
	zzverif.SharedEnd()
	zzverif.Assert(zzverif.LocksHeld() == 0, "every lock is released when the call returns")
}
