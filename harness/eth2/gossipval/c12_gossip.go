package gossipval

import (
	"context"
	"errors"
	"time"

	"github.com/protolambda/zrnt/eth2/beacon"
	"github.com/protolambda/zrnt/eth2/beacon/altair"
	"github.com/protolambda/zrnt/eth2/beacon/common"
	"github.com/protolambda/zrnt/eth2/beacon/phase0"
	"github.com/protolambda/zrnt/eth2/zzverif"
)

// ---- environment stubs: every answer of the node's chain view / clock / caches is a solver or harness choice ----

type vEntry struct {
	epc *common.EpochsContext
	ok  bool
}

func (e *vEntry) Step() common.Step                     { return 0 }
func (e *vEntry) BlockRoot() (common.Root, error)       { return common.Root{}, nil }
func (e *vEntry) ParentRoot() (common.Root, error)      { return common.Root{}, nil }
func (e *vEntry) StateRoot() (common.Root, error)       { return common.Root{}, nil }
func (e *vEntry) State(ctx context.Context) (common.BeaconState, error) { return nil, nil }
func (e *vEntry) EpochsContext(ctx context.Context) (*common.EpochsContext, error) {
	return e.epc, nil
}

type vChain struct {
	known bool
	entry *vEntry
}

func (c *vChain) ByStateRoot(root common.Root) (beacon.ChainEntry, bool) { return nil, false }
func (c *vChain) ByBlock(root common.Root) (beacon.ChainEntry, bool)     { return nil, false }
func (c *vChain) ByBlockSlot(root common.Root, slot common.Slot) (beacon.ChainEntry, bool) {
	if !c.known {
		return nil, false
	}
	return c.entry, true
}
func (c *vChain) Search(parentRoot *common.Root, slot *common.Slot) ([]beacon.SearchEntry, error) {
	return nil, nil
}
func (c *vChain) Closest(fromBlockRoot common.Root, toSlot common.Slot) (beacon.ChainEntry, bool) {
	return nil, false
}
func (c *vChain) InSubtree(anchor common.Root, root common.Root) (bool, bool) { return true, false }
func (c *vChain) ByCanonStep(step common.Step) (beacon.ChainEntry, bool)   { return nil, false }
func (c *vChain) Iter() (beacon.ChainIter, error)                          { return nil, nil }
func (c *vChain) JustifiedCheckpoint() common.Checkpoint                   { return common.Checkpoint{} }
func (c *vChain) FinalizedCheckpoint() common.Checkpoint                   { return common.Checkpoint{} }
func (c *vChain) Justified() (beacon.ChainEntry, error)                    { return nil, nil }
func (c *vChain) Finalized() (beacon.ChainEntry, error)                    { return nil, nil }
func (c *vChain) Head() (beacon.ChainEntry, error)                         { return nil, nil }
func (c *vChain) Towards(ctx context.Context, fromBlockRoot common.Root, toSlot common.Slot) (beacon.ChainEntry, error) {
	return nil, nil
}
func (c *vChain) Genesis() beacon.GenesisInfo { return beacon.GenesisInfo{} }

type vBackend struct {
	spec           *common.Spec
	chain          *vChain
	minSlot        common.Slot // clock - disparity
	maxSlot        common.Slot // clock + disparity
	gvr            common.Root
	version        common.Version
	seen           bool
	marks          int
	markedVal      common.ValidatorIndex
	markedSlot     common.Slot
	markedSubnet   uint64
}

func (b *vBackend) Spec() *common.Spec  { return b.spec }
func (b *vBackend) Chain() beacon.Chain { return b.chain }
func (b *vBackend) SlotAfter(delta time.Duration) common.Slot {
	if delta < 0 {
		return b.minSlot
	}
	return b.maxSlot
}
func (b *vBackend) GetDomain(typ common.BLSDomainType, epoch common.Epoch) (common.BLSDomain, error) {
	return common.ComputeDomain(typ, b.version, b.gvr), nil
}
func (b *vBackend) SeenSyncCommMsg(v common.ValidatorIndex, slot common.Slot, subnet uint64) bool {
	return b.seen
}
func (b *vBackend) MarkSyncCommMsg(v common.ValidatorIndex, slot common.Slot, subnet uint64) {
	b.marks++
	b.markedVal, b.markedSlot, b.markedSubnet = v, slot, subnet
}

// VerifHarness_C12_slot_span: CheckSlotSpan accepts exactly slot <= max and slot+span >= min (no wrap), for all values.
func VerifHarness_C12_slot_span() {
	b := &vBackend{minSlot: common.Slot(zzverif.NondetU64()), maxSlot: common.Slot(zzverif.NondetU64())}
	zzverif.Assume(b.minSlot <= b.maxSlot)
	slot, span := zzverif.NondetU64(), zzverif.NondetU64()
	zzverif.Reach("slot-span")
	err := CheckSlotSpan(b.SlotAfter, common.Slot(slot), common.Slot(span))
	wraps := slot+span < slot
	ok := !wraps && slot+span >= uint64(b.minSlot) && slot <= uint64(b.maxSlot)
	zzverif.Assert((err == nil) == ok, "CheckSlotSpan accepts exactly min <= slot+span (without wrap) and slot <= max")
}

// VerifHarness_C12_sync_subnet: ValidateSyncCommitteeSubnet returns ACCEPT exactly when every p2p condition holds,
// IGNORE when only timing/knowledge conditions fail, never ACCEPT otherwise, and marks the seen-cache only on ACCEPT.
func VerifHarness_C12_sync_subnet() {
	spec := common.VTinySpec()
	spec.SYNC_COMMITTEE_SIZE = 8 // two members per subnet
	// sync committee of 8 slots drawn from 3 validators; pubkey cache of 3
	pc := common.EmptyPubkeyCache()
	var pubs [3]common.BLSPubkey
	for i := range pubs {
		pubs[i][0] = byte(i + 1)
		pubs[i][1] = zzverif.NondetU8()
		pc.AddValidator(common.ValidatorIndex(i), pubs[i])
	}
	isc := &common.IndexedSyncCommittee{}
	for i := 0; i < 8; i++ {
		m := zzverif.NondetU8()
		zzverif.Assume(m < 3)
		isc.Indices = append(isc.Indices, common.ValidatorIndex(m))
	}
	epc := &common.EpochsContext{Spec: spec, ValidatorPubkeyCache: pc, CurrentSyncCommittee: isc}
	b := &vBackend{spec: spec, chain: &vChain{known: zzverif.NondetBool(), entry: &vEntry{epc: epc}}, gvr: common.Root{1}, version: common.Version{1, 0, 0, 1}, seen: zzverif.NondetBool()}
	cs := zzverif.NondetU8()
	b.minSlot, b.maxSlot = common.Slot(cs), common.Slot(cs)+common.Slot(zzverif.Choose(2))
	subnet := uint64(zzverif.Choose(5)) // 4 is out of range
	msg := &altair.SyncCommitteeMessage{Slot: common.Slot(zzverif.NondetU8()), ValidatorIndex: common.ValidatorIndex(zzverif.Choose(4))}
	msg.BeaconBlockRoot[0] = zzverif.NondetU8()
	msg.Signature[0] = zzverif.NondetU8()
	zzverif.Reach("sync-subnet")
	_, res := ValidateSyncCommitteeSubnet(context.Background(), subnet, msg, b)
	// p2p conditions
	timing := msg.Slot >= b.minSlot && msg.Slot <= b.maxSlot // sync_committee_message.slot == current_slot within the clock disparity
	known := b.chain.known
	inSubnet := false
	if subnet < 4 {
		for i := subnet * 2; i < subnet*2+2; i++ {
			if isc.Indices[i] == msg.ValidatorIndex {
				inSubnet = true
			}
		}
	}
	sigOK := false
	if int(msg.ValidatorIndex) < 3 {
		dom := common.ComputeDomain(common.DOMAIN_SYNC_COMMITTEE, b.version, b.gvr)
		root := common.ComputeSigningRoot(msg.BeaconBlockRoot, dom)
		p := pubs[int(zzverif.Concrete(uint64(msg.ValidatorIndex)))]
		sigOK = zzverif.BLSPubkeyValid(p) && zzverif.BLSSigValid(msg.Signature) && zzverif.BLSVerify(p, root[:], msg.Signature)
	}
	all := timing && known && inSubnet && !b.seen && sigOK
	zzverif.Assert((res.Result == ACCEPT) == all, "ACCEPT exactly when every condition of the p2p spec holds")
	if !timing || (timing && !known) || (timing && known && inSubnet && b.seen) {
		zzverif.Assert(res.Result == IGNORE, "conditions an honest sender can fail through timing alone yield IGNORE")
	}
	if res.Result == ACCEPT {
		zzverif.Assert(b.marks == 1 && b.markedVal == msg.ValidatorIndex && b.markedSlot == msg.Slot && b.markedSubnet == subnet, "on ACCEPT exactly this (validator, slot, subnet) is marked seen")
	} else {
		zzverif.Assert(b.marks == 0, "the seen-cache is marked only on ACCEPT")
	}
}

type vExitBackend struct {
	w       *phase0.VExitWorldT
	seen    bool
	headErr bool
	marks   int
	marked  common.ValidatorIndex
}

func (b *vExitBackend) Spec() *common.Spec { return b.w.Spec }
func (b *vExitBackend) HeadInfo(ctx context.Context) (beacon.ChainEntry, *common.EpochsContext, common.BeaconState, error) {
	if b.headErr {
		return nil, nil, nil, errors.New("no head")
	}
	return nil, b.w.Epc, b.w.State, nil
}
func (b *vExitBackend) SeenExit(index common.ValidatorIndex) bool { return b.seen }
func (b *vExitBackend) MarkExit(index common.ValidatorIndex)      { b.marks++; b.marked = index }

// VerifHarness_C12_voluntary_exit: the voluntary_exit topic validator: IGNORE for an already seen validator or an
// unavailable head, ACCEPT exactly when process_voluntary_exit's conditions hold on the head state, REJECT otherwise;
// the seen-cache is marked only on ACCEPT, with the exiting validator.
func VerifHarness_C12_voluntary_exit() {
	w := phase0.VExitWorld()
	b := &vExitBackend{w: w, seen: zzverif.NondetBool(), headErr: zzverif.NondetBool()}
	idx := zzverif.NondetU8()
	zzverif.Assume(idx < 4)
	ee := zzverif.NondetU8()
	zzverif.Assume(ee < 8)
	exit := &phase0.SignedVoluntaryExit{Message: phase0.VoluntaryExit{Epoch: common.Epoch(ee), ValidatorIndex: common.ValidatorIndex(idx)}, Signature: phase0.VSig()}
	zzverif.Reach("gossip-exit")
	res := ValidateVoluntaryExit(context.Background(), exit, b)
	if b.seen || b.headErr {
		zzverif.Assert(res.Result == IGNORE, "already seen validator / no head available yields IGNORE")
		zzverif.Assert(b.marks == 0, "the seen-cache is marked only on ACCEPT")
		return
	}
	valid := w.RefExitValid(exit)
	zzverif.Assert((res.Result == ACCEPT) == valid, "ACCEPT exactly when all process_voluntary_exit conditions hold on the head state")
	if !valid {
		zzverif.Assert(res.Result == REJECT, "an invalid exit is REJECTed")
		zzverif.Assert(b.marks == 0, "the seen-cache is marked only on ACCEPT")
	} else {
		zzverif.Assert(b.marks == 1 && b.marked == exit.Message.ValidatorIndex, "on ACCEPT exactly the exiting validator is marked seen")
	}
}
