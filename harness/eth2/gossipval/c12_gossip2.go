package gossipval

import (
	"context"
	"errors"
	"time"

	"github.com/protolambda/zrnt/eth2/beacon"
	"github.com/protolambda/zrnt/eth2/beacon/common"
	"github.com/protolambda/zrnt/eth2/beacon/phase0"
	"github.com/protolambda/zrnt/eth2/zzverif"
)

// ---- beacon_block topic: stubs ----

type vGoEntry struct {
	slot   common.Slot
	epc    *common.EpochsContext
	epcErr bool
}

func (e *vGoEntry) Step() common.Step                                     { return common.AsStep(e.slot, true) }
func (e *vGoEntry) BlockRoot() (common.Root, error)                       { return common.Root{}, nil }
func (e *vGoEntry) ParentRoot() (common.Root, error)                      { return common.Root{}, nil }
func (e *vGoEntry) StateRoot() (common.Root, error)                       { return common.Root{}, nil }
func (e *vGoEntry) State(ctx context.Context) (common.BeaconState, error) { return nil, nil }
func (e *vGoEntry) EpochsContext(ctx context.Context) (*common.EpochsContext, error) {
	if e.epcErr {
		return nil, errors.New("no epochs context")
	}
	return e.epc, nil
}

// vGoChain: the node's chain view as far as ValidateBeaconBlock consults it. The remaining Chain methods are those of
// vChain (never reached by the validator; they return zero values).
type vGoChain struct {
	vChain
	parentRoot   common.Root // the only root ByBlock / InSubtree / Towards are expected to be asked about
	parentKnown  bool
	parent       *vGoEntry
	fin          common.Checkpoint
	subUnknown   bool
	subIn        bool
	towardsErr   bool
	towardsEntry *vGoEntry
	towardsSlot  common.Slot
	towardsCalls int
	badQuery     bool // set when the validator asks about another root than the block's parent / the finalized root
}

func (c *vGoChain) ByBlock(root common.Root) (beacon.ChainEntry, bool) {
	if root != c.parentRoot {
		c.badQuery = true
	}
	if !c.parentKnown {
		return nil, false
	}
	return c.parent, true
}
func (c *vGoChain) FinalizedCheckpoint() common.Checkpoint { return c.fin }
func (c *vGoChain) InSubtree(anchor common.Root, root common.Root) (bool, bool) {
	if anchor != c.fin.Root || root != c.parentRoot {
		c.badQuery = true
	}
	return c.subUnknown, c.subIn
}
func (c *vGoChain) Towards(ctx context.Context, fromBlockRoot common.Root, toSlot common.Slot) (beacon.ChainEntry, error) {
	if fromBlockRoot != c.parentRoot {
		c.badQuery = true
	}
	c.towardsCalls++
	c.towardsSlot = toSlot
	if c.towardsErr {
		return nil, errors.New("cannot transition towards slot")
	}
	return c.towardsEntry, nil
}

type vGoBlockBackend struct {
	spec       *common.Spec
	chain      *vGoChain
	maxSlot    common.Slot // clock + MAXIMUM_GOSSIP_CLOCK_DISPARITY
	minSlot    common.Slot // clock - MAXIMUM_GOSSIP_CLOCK_DISPARITY (maxSlot or maxSlot-1)
	gvr        common.Root
	seen       bool
	seenAsked  int
	seenSlot   common.Slot
	seenProp   common.ValidatorIndex
	marks      int
	markedSlot common.Slot
	markedProp common.ValidatorIndex
}

func (b *vGoBlockBackend) Spec() *common.Spec  { return b.spec }
func (b *vGoBlockBackend) Chain() beacon.Chain { return b.chain }
func (b *vGoBlockBackend) SlotAfter(delta time.Duration) common.Slot {
	if delta < 0 {
		return b.minSlot // clock - disparity: may still be the previous slot
	}
	return b.maxSlot
}
func (b *vGoBlockBackend) GenesisValidatorsRoot() common.Root { return b.gvr }
func (b *vGoBlockBackend) SeenBlock(slot common.Slot, proposer common.ValidatorIndex) bool {
	b.seenAsked++
	b.seenSlot, b.seenProp = slot, proposer
	return b.seen
}
func (b *vGoBlockBackend) MarkBlock(slot common.Slot, proposer common.ValidatorIndex) {
	b.marks++
	b.markedSlot, b.markedProp = slot, proposer
}

func vGoProposers(spec *common.Spec, epoch common.Epoch) *common.ProposersEpoch {
	pe := &common.ProposersEpoch{Spec: spec, Epoch: epoch}
	for i := 0; i < int(spec.SLOTS_PER_EPOCH); i++ {
		pe.Proposers = append(pe.Proposers, common.ValidatorIndex(zzverif.NondetU8()&3))
	}
	return pe
}

// VerifHarness_C12_beacon_block: the beacon_block topic validator against the p2p-interface verdict table.
//
// World (all stubs; everything is a solver or harness choice): tiny preset (2 slots per epoch) with a symbolic Altair
// fork epoch < 8 (so the signing version depends on the slot); 8-bit block slot, parent slot and clock max slot;
// finalized epoch < 8; the chain answers "parent known", InSubtree (unknown / in / not in), EpochsContext
// availability, and - mode 1 only - Towards (error or an entry at the start slot of the block's epoch) symbolically;
// the parent's EpochsContext has a 3-entry pubkey cache (block proposer index ranges over 0..3: 3 has no key) and a
// hand-built proposers table for the parent's epoch with symbolic entries in 0..3 (the table of the entry returned by
// Towards is for the block's epoch). The envelope's fork digest is either the digest of the slot's fork or arbitrary;
// the envelope's signature check refuses a wrong digest, which is counted under "signature invalid".
// Choose #1 (mode): 0 = parent in the same epoch as the block (whenever the parent slot is lower than the block slot);
// 1 = parent in any earlier or equal epoch: the catch-up branch (context.WithTimeout + Chain.Towards) is included; the
// engine replaces context.WithTimeout by "the parent context, no-op cancel" (assumption: the 2 s catch-up timeout does
// not fire during the call; the stub chain's Towards does not look at its context).
//
// Asserted: ACCEPT exactly when slot <= max slot, not seen, parent known, parent slot < slot, slot > start slot of
// the finalized epoch, subtree relation known and finalized is an ancestor, epochs context(s) available, proposer key
// known, signature valid for the slot's fork, proposer == expected proposer of the slot. If exactly one condition
// fails: IGNORE for future slot / seen / unknown parent / parent not older / not after finalized / node cannot answer
// (subtree unknown, no context, Towards fails); REJECT for not descendant of finalized / bad signature / wrong
// proposer; (unknown proposer key: not ACCEPT - the code says IGNORE). In general REJECT is returned only if some
// REJECT-class condition fails and IGNORE only if some IGNORE-class condition fails. MarkBlock is called at most
// once, only after every earlier condition and the signature check passed, with (slot, proposer); SeenBlock is asked
// about (slot, proposer); the chain is asked only about the block's parent root and the finalized root; Towards is
// asked for the start slot of the block's epoch.
func VerifHarness_C12_beacon_block() {
	mode := zzverif.Choose(2)
	spec := common.VTinySpec()
	af := zzverif.NondetU8()
	zzverif.Assume(af < 8)
	spec.ALTAIR_FORK_EPOCH = common.Epoch(af)

	var pubs [3]common.BLSPubkey
	mkCache := func() *common.PubkeyCache {
		pc := common.EmptyPubkeyCache()
		for i := range pubs {
			pc.AddValidator(common.ValidatorIndex(i), pubs[i])
		}
		return pc
	}
	for i := range pubs {
		pubs[i][0] = byte(i + 1)
		pubs[i][1] = zzverif.NondetU8()
	}

	env := &common.BeaconBlockEnvelope{}
	env.Slot = common.Slot(zzverif.NondetU8())
	env.ProposerIndex = common.ValidatorIndex(zzverif.NondetU8() & 3)
	env.ParentRoot[0], env.ParentRoot[31] = 1, zzverif.NondetU8()
	env.BlockRoot[0], env.BlockRoot[31] = 2, zzverif.NondetU8()
	env.Signature = phase0.VSig()

	gvr := common.Root{7}
	gvr[31] = zzverif.NondetU8()
	version := spec.GENESIS_FORK_VERSION
	if uint64(env.Slot)/2 >= uint64(af) {
		version = spec.ALTAIR_FORK_VERSION
	}
	env.ForkDigest = common.ComputeForkDigest(version, gvr)
	if zzverif.NondetBool() {
		env.ForkDigest = common.ForkDigest(zzverif.NondetBytes4())
	}

	parentSlot := common.Slot(zzverif.NondetU8())
	if mode == 0 {
		zzverif.Assume(parentSlot >= env.Slot || uint64(parentSlot)/2 == uint64(env.Slot)/2)
	}
	parentEpoch := common.Epoch(uint64(parentSlot) / 2)
	blockEpoch := common.Epoch(uint64(env.Slot) / 2)
	parentEpc := &common.EpochsContext{Spec: spec, ValidatorPubkeyCache: mkCache(), Proposers: vGoProposers(spec, parentEpoch)}
	ch := &vGoChain{parentRoot: env.ParentRoot, parentKnown: zzverif.NondetBool(),
		parent:     &vGoEntry{slot: parentSlot, epc: parentEpc, epcErr: zzverif.NondetBool()},
		subUnknown: zzverif.NondetBool(), subIn: zzverif.NondetBool()}
	fe := zzverif.NondetU8()
	zzverif.Assume(fe < 8)
	ch.fin = common.Checkpoint{Epoch: common.Epoch(fe), Root: common.Root{3, zzverif.NondetU8()}}
	var towardsEpc *common.EpochsContext
	if mode == 1 {
		towardsEpc = &common.EpochsContext{Spec: spec, ValidatorPubkeyCache: mkCache(), Proposers: vGoProposers(spec, blockEpoch)}
		ch.towardsErr = zzverif.NondetBool()
		ch.towardsEntry = &vGoEntry{slot: common.Slot(uint64(blockEpoch) * 2), epc: towardsEpc, epcErr: zzverif.NondetBool()}
	}
	b := &vGoBlockBackend{spec: spec, chain: ch, maxSlot: common.Slot(zzverif.NondetU8()), gvr: gvr, seen: zzverif.NondetBool()}
	b.minSlot = b.maxSlot
	if zzverif.NondetBool() && b.maxSlot > 0 {
		b.minSlot = b.maxSlot - 1 // within the disparity of a slot boundary
	}

	zzverif.Reach("gossip-beacon-block")
	res := ValidateBeaconBlock(context.Background(), env, b)

	// ---- p2p-interface conditions, over the raw inputs ----
	notFuture := env.Slot <= b.maxSlot
	notSeen := !b.seen
	parentKnown := ch.parentKnown
	parentOlder := parentSlot < env.Slot
	afterFin := uint64(env.Slot) > uint64(fe)*2
	subKnown := !ch.subUnknown
	descendant := ch.subIn
	catchUp := parentEpoch != blockEpoch // only meaningful when parentOlder
	ctxAvail := !ch.parent.epcErr
	if catchUp && mode == 1 {
		ctxAvail = ctxAvail && !ch.towardsErr && !ch.towardsEntry.epcErr
	}
	keyKnown := int(env.ProposerIndex) < 3
	sigOK := false
	if keyKnown {
		p := pubs[int(zzverif.Concrete(uint64(env.ProposerIndex)))]
		dom := common.ComputeDomain(common.DOMAIN_BEACON_PROPOSER, version, gvr)
		root := common.ComputeSigningRoot(env.BlockRoot, dom)
		sigOK = env.ForkDigest == common.ComputeForkDigest(version, gvr) &&
			zzverif.BLSPubkeyValid(p) && zzverif.BLSSigValid(env.Signature) && zzverif.BLSVerify(p, root[:], env.Signature)
	}
	table := parentEpc.Proposers.Proposers
	if catchUp && mode == 1 {
		table = towardsEpc.Proposers.Proposers
	}
	expected := table[int(zzverif.Concrete(uint64(env.Slot)%2))]
	rightProposer := env.ProposerIndex == expected

	f := func(c bool) uint64 { return zzverif.Ite(c, 0, 1) } // 1 when the condition fails (no path split)
	nIgnFail := f(notFuture) + f(notSeen) + f(parentKnown) + f(parentOlder) + f(afterFin) + f(subKnown) + f(ctxAvail)
	nRejFail := f(descendant) + f(sigOK) + f(rightProposer)
	all := nIgnFail == 0 && nRejFail == 0 && keyKnown
	zzverif.Assert((res.Result == ACCEPT) == all, "ACCEPT exactly when every beacon_block condition of the p2p spec holds")
	if keyKnown && nIgnFail == 1 && nRejFail == 0 {
		zzverif.Assert(res.Result == IGNORE, "a single failing IGNORE-class condition yields IGNORE")
	}
	if keyKnown && nIgnFail == 0 && nRejFail == 1 {
		zzverif.Assert(res.Result == REJECT, "a single failing REJECT-class condition yields REJECT")
	}
	if res.Result == REJECT {
		zzverif.Assert(nRejFail > 0, "REJECT only when a REJECT-class condition fails")
	}
	if res.Result == IGNORE {
		zzverif.Assert(nIgnFail > 0 || !keyKnown, "IGNORE only when an IGNORE-class condition fails")
	}
	// seen-cache discipline
	zzverif.Assert(b.marks <= 1, "MarkBlock is called at most once")
	if b.marks > 0 {
		zzverif.Assert(notFuture && notSeen && parentKnown && parentOlder && afterFin && subKnown && descendant && keyKnown && sigOK,
			"MarkBlock only after the signature (and every earlier condition) was verified")
		zzverif.Assert(b.markedSlot == env.Slot && b.markedProp == env.ProposerIndex, "MarkBlock is called with the block's (slot, proposer)")
	}
	if res.Result == ACCEPT {
		zzverif.Assert(b.marks == 1, "an accepted block is marked seen")
	}
	if b.seenAsked > 0 {
		zzverif.Assert(b.seenSlot == env.Slot && b.seenProp == env.ProposerIndex, "SeenBlock is asked about the block's (slot, proposer)")
	}
	zzverif.Assert(!ch.badQuery, "the chain is asked only about the block's parent root and the finalized root")
	if ch.towardsCalls > 0 {
		zzverif.Assert(mode == 1 && ch.towardsCalls == 1 && uint64(ch.towardsSlot) == uint64(blockEpoch)*2, "Towards is asked once, for the start slot of the block's epoch")
	}
}

// ---- proposer_slashing topic ----

type vGoPropSlashBackend struct {
	w       *phase0.VGoSlashWorldT
	seen    bool
	seenArg common.ValidatorIndex
	asked   int
	headErr bool
	marks   int
	marked  common.ValidatorIndex
}

func (b *vGoPropSlashBackend) Spec() *common.Spec { return b.w.Spec }
func (b *vGoPropSlashBackend) HeadInfo(ctx context.Context) (beacon.ChainEntry, *common.EpochsContext, common.BeaconState, error) {
	if b.headErr {
		return nil, nil, nil, errors.New("no head")
	}
	return nil, b.w.Epc, b.w.State, nil
}
func (b *vGoPropSlashBackend) SeenProposerSlashing(proposer common.ValidatorIndex) bool {
	b.asked++
	b.seenArg = proposer
	return b.seen
}
func (b *vGoPropSlashBackend) MarkProposerSlashing(index common.ValidatorIndex) {
	b.marks++
	b.marked = index
}

// VerifHarness_C12_proposer_slashing: the proposer_slashing topic validator. World: phase0.VGoSlashWorld(2) (two
// validators, epoch 4, symbolic lifecycle epochs / slashed flags / fork record), a slashing whose headers have 8-bit
// slot, proposer index 0..3 and one-byte symbolic roots/signatures; SeenProposerSlashing and the availability of the
// head are symbolic. Asserted: a slashing failing the state-independent conditions (same slot, same proposer,
// different headers) is REJECTed whatever the caches say; otherwise IGNORE when already seen for that proposer or the
// head is unavailable; otherwise ACCEPT exactly when every process_proposer_slashing condition holds on the head
// state (index in range, slashable, both signatures under DOMAIN_BEACON_PROPOSER of the header epoch's fork version)
// and REJECT if not; the seen-cache is asked about / marked with the slashed proposer, marked only on ACCEPT.
func VerifHarness_C12_proposer_slashing() {
	w := phase0.VGoSlashWorld(2)
	b := &vGoPropSlashBackend{w: w, seen: zzverif.NondetBool(), headErr: zzverif.NondetBool()}
	ps := phase0.VGoProposerSlashing()
	zzverif.Reach("gossip-proposer-slashing")
	res := ValidateProposerSlashing(context.Background(), ps, b)
	proposer := ps.SignedHeader1.Message.ProposerIndex
	if b.asked > 0 {
		zzverif.Assert(b.asked == 1 && b.seenArg == proposer, "the seen-cache is asked about the slashed proposer")
	}
	if !w.RefLight(ps) {
		zzverif.Assert(res.Result == REJECT, "headers with different slot/proposer or identical headers are REJECTed")
		zzverif.Assert(b.marks == 0, "the seen-cache is marked only on ACCEPT")
		return
	}
	if b.seen || b.headErr {
		zzverif.Assert(res.Result == IGNORE, "already seen proposer / no head available yields IGNORE")
		zzverif.Assert(b.marks == 0, "the seen-cache is marked only on ACCEPT")
		return
	}
	valid := w.RefValid(ps)
	zzverif.Assert((res.Result == ACCEPT) == valid, "ACCEPT exactly when all process_proposer_slashing conditions hold on the head state")
	if !valid {
		zzverif.Assert(res.Result == REJECT, "an invalid proposer slashing is REJECTed")
		zzverif.Assert(b.marks == 0, "the seen-cache is marked only on ACCEPT")
	} else {
		zzverif.Assert(b.marks == 1 && b.marked == proposer, "on ACCEPT exactly the slashed proposer is marked seen")
	}
}

// ---- attester_slashing topic ----

type vGoAttSlashBackend struct {
	w        *phase0.VGoSlashWorldT
	allSeen  bool
	asked    int
	askedSet []common.ValidatorIndex
	headErr  bool
	marks    int
	marked   []common.ValidatorIndex
}

func (b *vGoAttSlashBackend) Spec() *common.Spec { return b.w.Spec }
func (b *vGoAttSlashBackend) HeadInfo(ctx context.Context) (beacon.ChainEntry, *common.EpochsContext, common.BeaconState, error) {
	if b.headErr {
		return nil, nil, nil, errors.New("no head")
	}
	return nil, b.w.Epc, b.w.State, nil
}
func (b *vGoAttSlashBackend) AttesterSlashableAllSeen(indices []common.ValidatorIndex) bool {
	b.asked++
	b.askedSet = append([]common.ValidatorIndex{}, indices...) // snapshot: the validator filters the slice in place later
	return b.allSeen
}
func (b *vGoAttSlashBackend) MarkAttesterSlashings(indices []common.ValidatorIndex) {
	b.marks++
	b.marked = append([]common.ValidatorIndex{}, indices...)
}

func vGoSameSet(a, b []common.ValidatorIndex) bool {
	if len(a) != len(b) {
		return false
	}
	for i := range a {
		if a[i] != b[i] {
			return false
		}
	}
	return true
}

// VerifHarness_C12_attester_slashing: the attester_slashing topic validator. World: phase0.VGoSlashWorldLight(3)
// (three validators, epoch 4, symbolic slashed flags / activation / withdrawable epochs / fork record); two indexed
// attestations with n1, n2 in 0..Param("maxidx",2) attesting indices (Choose #1, #2), index values 0..3 (3 is outside
// the registry), source/target epochs < 8, one-byte symbolic roots and signatures; AttesterSlashableAllSeen and head
// availability are symbolic.
// Asserted: REJECT whatever the caches say when the data pair is not slashable or an index list is empty / unsorted /
// has duplicates; otherwise AttesterSlashableAllSeen is asked once, about exactly the sorted intersection of the two
// index lists; IGNORE when it answers true or the head is unavailable; otherwise ACCEPT exactly when
// process_attester_slashing's conditions hold on the head state (both attestations is_valid_indexed_attestation:
// indices in the registry, aggregate signature under DOMAIN_BEACON_ATTESTER of the target epoch's fork version; at
// least one member of the intersection is_slashable_validator) and REJECT if not; MarkAttesterSlashings is called only
// on ACCEPT, once, with exactly the slashable members of the intersection.
func VerifHarness_C12_attester_slashing() {
	w := phase0.VGoSlashWorldLight(3)
	maxIdx := zzverif.Param("maxidx", 2)
	n1 := zzverif.Choose(maxIdx + 1)
	n2 := zzverif.Choose(maxIdx + 1)
	as := &phase0.AttesterSlashing{Attestation1: *phase0.VGoIndexedAtt(n1), Attestation2: *phase0.VGoIndexedAtt(n2)}
	b := &vGoAttSlashBackend{w: w, allSeen: zzverif.NondetBool(), headErr: zzverif.NondetBool()}
	// the inputs as sent (the validator may reorder nothing, but keep the reference independent of aliasing)
	in1 := append([]common.ValidatorIndex{}, as.Attestation1.AttestingIndices...)
	in2 := append([]common.ValidatorIndex{}, as.Attestation2.AttestingIndices...)
	zzverif.Reach("gossip-attester-slashing")
	res := ValidateAttesterSlashing(context.Background(), as, b)
	zzverif.Assert(vGoSameSet(in1, as.Attestation1.AttestingIndices) && vGoSameSet(in2, as.Attestation2.AttestingIndices), "the message is not modified by validation")
	light := w.RefSlashableData(&as.Attestation1.Data, &as.Attestation2.Data) && w.RefIndexSet(&as.Attestation1) && w.RefIndexSet(&as.Attestation2)
	if !light {
		zzverif.Assert(res.Result == REJECT, "non-slashable data or malformed index lists are REJECTed")
		zzverif.Assert(b.marks == 0 && b.asked == 0, "no cache is consulted or marked for a malformed slashing")
		return
	}
	// intersection of two strictly increasing lists, increasing
	var inter []common.ValidatorIndex
	for _, x := range in1 {
		for _, y := range in2 {
			if x == y {
				inter = append(inter, x)
			}
		}
	}
	zzverif.Assert(b.asked == 1 && vGoSameSet(b.askedSet, inter), "AttesterSlashableAllSeen is asked about exactly the sorted intersection of the two index sets")
	if b.allSeen || b.headErr {
		zzverif.Assert(res.Result == IGNORE, "all slashable indices seen / no head available yields IGNORE")
		zzverif.Assert(b.marks == 0, "the seen-cache is marked only on ACCEPT")
		return
	}
	slashable := w.RefSlashableOf(inter)
	valid := w.RefIndexedValid(&as.Attestation1) && w.RefIndexedValid(&as.Attestation2) && len(slashable) > 0
	zzverif.Assert((res.Result == ACCEPT) == valid, "ACCEPT exactly when all process_attester_slashing conditions hold on the head state")
	if !valid {
		zzverif.Assert(res.Result == REJECT, "an invalid attester slashing is REJECTed")
		zzverif.Assert(b.marks == 0, "the seen-cache is marked only on ACCEPT")
	} else {
		zzverif.Assert(b.marks == 1 && vGoSameSet(b.marked, slashable), "on ACCEPT exactly the slashable members of the intersection are marked")
	}
}
