package gossipval

import (
	"context"
	"errors"
	"time"

	"github.com/protolambda/zrnt/eth2/beacon"
	"github.com/protolambda/zrnt/eth2/beacon/altair"
	"github.com/protolambda/zrnt/eth2/beacon/common"
	"github.com/protolambda/zrnt/eth2/beacon/phase0"
	"github.com/protolambda/zrnt/eth2/zzverif"
	"github.com/protolambda/ztyp/tree"
	"github.com/protolambda/ztyp/view"
)

// ---- override group "c12": phase0.IsAggregator hashes with sha256.New()/Write/Sum, which the engine cannot execute;
// the replacement computes the same rule from the uninterpreted SHA-256 the rest of the model uses ----

const VerifOverrideTarget_c12__isagg = "github.com/protolambda/zrnt/eth2/beacon/phase0.IsAggregator"

func VerifOverride_c12__isagg(spec *common.Spec, commSize uint64, proof common.BLSSignature) bool {
	modulo := commSize / common.TARGET_AGGREGATORS_PER_COMMITTEE
	if modulo == 0 {
		modulo = 1
	}
	h := zzverif.Hash(proof[:])
	return vG3LE64(h)%modulo == 0
}

// vG3LE64: bytes_to_uint64(h[0:8]) (little endian).
func vG3LE64(h [32]byte) uint64 {
	return uint64(h[0]) | uint64(h[1])<<8 | uint64(h[2])<<16 | uint64(h[3])<<24 |
		uint64(h[4])<<32 | uint64(h[5])<<40 | uint64(h[6])<<48 | uint64(h[7])<<56
}

// ---- stubs: chain view, entries ----

type vG3Entry struct {
	slot   common.Slot
	epc    *common.EpochsContext
	epcErr bool
	st     common.BeaconState
	stErr  bool
}

func (e *vG3Entry) Step() common.Step                { return common.AsStep(e.slot, true) }
func (e *vG3Entry) BlockRoot() (common.Root, error)  { return common.Root{}, nil }
func (e *vG3Entry) ParentRoot() (common.Root, error) { return common.Root{}, nil }
func (e *vG3Entry) StateRoot() (common.Root, error)  { return common.Root{}, nil }
func (e *vG3Entry) State(ctx context.Context) (common.BeaconState, error) {
	if e.stErr {
		return nil, errors.New("no state")
	}
	return e.st, nil
}
func (e *vG3Entry) EpochsContext(ctx context.Context) (*common.EpochsContext, error) {
	if e.epcErr {
		return nil, errors.New("no epochs context")
	}
	return e.epc, nil
}

// vG3Chain: the node's chain view as far as the attestation / aggregate validators consult it. Every answer is a
// solver choice; the remaining Chain methods are those of vChain (never reached).
type vG3Chain struct {
	vChain
	blockRoot    common.Root // data.beacon_block_root: the only root ByBlock / InSubtree(_, root) may be asked about
	targetRoot   common.Root // data.target.root: the only root Towards may be asked about
	targetAnchor bool        // InSubtree(target root, block root) is an expected question (attestation topic only)
	fin          common.Checkpoint
	blockKnown   bool
	block        *vG3Entry
	tUnknown     bool
	tIn          bool
	fUnknown     bool
	fIn          bool
	towardsErr   bool
	towardsEntry *vG3Entry
	towardsCalls int
	towardsSlot  common.Slot
	badQuery     bool
}

func (c *vG3Chain) ByBlock(root common.Root) (beacon.ChainEntry, bool) {
	if root != c.blockRoot {
		c.badQuery = true
	}
	if !c.blockKnown {
		return nil, false
	}
	return c.block, true
}
func (c *vG3Chain) FinalizedCheckpoint() common.Checkpoint { return c.fin }
func (c *vG3Chain) InSubtree(anchor common.Root, root common.Root) (bool, bool) {
	if root != c.blockRoot {
		c.badQuery = true
	}
	if c.targetAnchor && anchor == c.targetRoot {
		return c.tUnknown, c.tIn
	}
	if anchor == c.fin.Root {
		return c.fUnknown, c.fIn
	}
	c.badQuery = true
	return true, false
}
func (c *vG3Chain) Towards(ctx context.Context, fromBlockRoot common.Root, toSlot common.Slot) (beacon.ChainEntry, error) {
	if fromBlockRoot != c.targetRoot {
		c.badQuery = true
	}
	c.towardsCalls++
	c.towardsSlot = toSlot
	if c.towardsErr {
		return nil, errors.New("cannot transition towards slot")
	}
	return c.towardsEntry, nil
}

// vG3Tables: hand-built committee tables (slot in epoch -> committee index -> members) for three validators: two
// committees per slot, sizes 2 and 1, members not sorted; the previous / next epoch of the context use different
// tables so that a lookup in the wrong epoch is visible.
func vG3Tables() (prev, cur, next [][][]common.ValidatorIndex) {
	prev = [][][]common.ValidatorIndex{{{1}, {0, 2}}, {{0}, {2, 1}}}
	cur = [][][]common.ValidatorIndex{{{2, 0}, {1}}, {{1, 2}, {0}}}
	next = [][][]common.ValidatorIndex{{{0}, {1, 2}}, {{2}, {1, 0}}}
	return
}

// vG3Epc: the epochs context of the entry at the first slot of epoch te: pubkey cache + the committee tables of te-1
// (te itself at genesis: then, as in the real context, the same table as te), te, te+1.
func vG3Epc(spec *common.Spec, pc *common.PubkeyCache, te common.Epoch, cur [][][]common.ValidatorIndex) *common.EpochsContext {
	prev, _, next := vG3Tables()
	prevE := te - 1
	if te == 0 {
		prevE = 0
		prev = cur
	}
	return &common.EpochsContext{Spec: spec, ValidatorPubkeyCache: pc,
		PreviousEpoch: &common.ShufflingEpoch{Epoch: prevE, Committees: prev},
		CurrentEpoch:  &common.ShufflingEpoch{Epoch: te, Committees: cur},
		NextEpoch:     &common.ShufflingEpoch{Epoch: te + 1, Committees: next}}
}

// vG3Bits: a well-formed SSZ bitlist of bitLen bits; bits 0..2 (those below bitLen) are symbolic, the others zero.
// Also returns the participation bits (bit k = member k of the committee participates).
func vG3Bits(bitLen int) (phase0.AttestationBits, uint8) {
	bits := make(phase0.AttestationBits, bitLen/8+1)
	low := bitLen
	if low > 3 {
		low = 3
	}
	part := zzverif.NondetU8() & (uint8(1)<<uint(low) - 1)
	bits[0] = part
	bits[bitLen/8] |= uint8(1) << uint(bitLen%8)
	return bits, part
}

// vG3Root: a root with one symbolic byte; roots built with the same tag are equal exactly when that byte is.
func vG3Root(tag byte) (r common.Root) {
	r[0] = tag
	r[31] = zzverif.NondetU8()
	return
}

// ---- beacon_aggregate_and_proof topic ----

type vG3AggBackend struct {
	spec             *common.Spec
	chain            *vG3Chain
	minSlot          common.Slot // clock - MAXIMUM_GOSSIP_CLOCK_DISPARITY
	maxSlot          common.Slot // clock + MAXIMUM_GOSSIP_CLOCK_DISPARITY
	bad              bool
	badArgOK         bool
	seenAggregator   bool
	seenAggregate    bool
	aggregatorAsked  int
	aggregateAsked   int
	askedEpoch       common.Epoch
	askedIdx         common.ValidatorIndex
	askedRoot        common.Root
	marksAggregate   int
	marksAggregator  int
	markedRoot       common.Root
	markedEpoch      common.Epoch
	markedAggregator common.ValidatorIndex
}

func (b *vG3AggBackend) Spec() *common.Spec  { return b.spec }
func (b *vG3AggBackend) Chain() beacon.Chain { return b.chain }
func (b *vG3AggBackend) SlotAfter(delta time.Duration) common.Slot {
	if delta < 0 {
		return b.minSlot
	}
	return b.maxSlot
}
func (b *vG3AggBackend) IsBadBlock(root common.Root) bool {
	if root != b.chain.blockRoot {
		b.badArgOK = false
	}
	return b.bad
}
func (b *vG3AggBackend) SeenAggregate(aggRoot common.Root) bool {
	b.aggregateAsked++
	b.askedRoot = aggRoot
	return b.seenAggregate
}
func (b *vG3AggBackend) MarkAggregate(aggRoot common.Root) {
	b.marksAggregate++
	b.markedRoot = aggRoot
}
func (b *vG3AggBackend) SeenAggregator(targetEpoch common.Epoch, aggregator common.ValidatorIndex) bool {
	b.aggregatorAsked++
	b.askedEpoch, b.askedIdx = targetEpoch, aggregator
	return b.seenAggregator
}
func (b *vG3AggBackend) MarkAggregator(targetEpoch common.Epoch, aggregator common.ValidatorIndex) {
	b.marksAggregator++
	b.markedEpoch, b.markedAggregator = targetEpoch, aggregator
}

// VerifHarness_C12_aggregate: the beacon_aggregate_and_proof topic validator against the p2p-interface verdict table.
//
// World: tiny preset (2 slots per epoch); a real phase0 state view (phase0.VG3World: 3 always-active validators whose
// keys have one symbolic byte, symbolic genesis validators root and fork record) standing for the state at the first
// slot of the target epoch; a hand-built epochs context for that epoch (vG3Tables: two committees per slot of sizes 2
// and 1; pubkey cache of the registry); registry keys are assumed to be valid BLS keys (registry invariant). The
// message: 8-bit slot and target epoch, committee index 0..3, aggregator index 0..3 (3 is outside the registry;
// chosen), a well-formed bitlist of chosen length 0..3 with symbolic participation bits, roots with one symbolic
// byte, signatures with two. The node: symbolic clock window [min, min+0/1] (8-bit), SeenAggregator / SeenAggregate /
// IsBadBlock symbolic, finalized checkpoint with 8-bit epoch and a root equal to the voted block root or not,
// InSubtree unknown / in / not in, Towards / EpochsContext / State fail or answer. Param bigcomm=1: registry of 32,
// committee (even slot, index 0) has 32 members and bitlist length 32 (Choose 0) so that the selection modulus is 2.
// The engine replaces context.WithTimeout by "parent context, no-op cancel" (assumption: the catch-up timeout does
// not fire during the call); phase0.IsAggregator is replaced by override group c12 (same rule over the uninterpreted
// SHA-256). Unless Param stale_final=1 the world excludes "voted block == finalized block while finalized epoch >
// target epoch" (with a propagation range of at most one epoch an honest node's finalized epoch is below every
// target epoch that passes the slot window; the implementation REJECTs there, the p2p spec has no such rule).
//
// Conditions (phase0 p2p spec, beacon_aggregate_and_proof). IGNORE class: slot window (slot + 32 >= min, slot <= max),
// aggregator not seen for the target epoch, aggregate root not seen, finalized checkpoint is an ancestor of the voted
// block (voted root == finalized root, or subtree relation known and in: "not yet / no longer in the finalized
// subtree" is IGNOREd), node can answer (Towards, EpochsContext, State). REJECT class: target epoch == epoch(slot),
// at least one participant, voted block not bad, selection (committee exists, aggregator in registry and committee,
// is_aggregator(len(committee), proof), proof is a valid signature of the slot under DOMAIN_SELECTION_PROOF), outer
// signature over compute_signing_root(aggregate_and_proof, DOMAIN_AGGREGATE_AND_PROOF), aggregate signature
// (bitlist length == committee size, FastAggregateVerify of the sorted participants' keys over
// compute_signing_root(data, DOMAIN_BEACON_ATTESTER at the target epoch)).
//
// Asserted. (1) When an early condition (everything before the three signature steps) fails: never ACCEPT, REJECT
// only if an early REJECT-class condition fails, IGNORE only if an early IGNORE-class one fails, nothing marked.
// (2) Otherwise, selection failing: REJECT (a selection proof that is not a well-formed signature: never ACCEPT; the
// code says IGNORE, asserted REJECT only under Param strict=1); aggregate signature failing: never ACCEPT and only
// REJECT. (3) Separate label: with every other condition satisfied the verdict is ACCEPT exactly when the outer
// signature verifies over the signing root - Param outer_sig_prefix=0: the full 32-byte root (spec), =1: its first two
// bytes (as implemented) - and REJECT otherwise. (4) Seen-caches: asked about (target epoch, aggregator) and
// hash_tree_root(aggregate); marked exactly once each, with these values, exactly on ACCEPT; the chain is asked only
// about the voted root / finalized root / target root; Towards for the start slot of the target epoch; on ACCEPT the
// slot's committee is returned.
// Shards: Choose #1 = bitlist length (4), Choose #2 = aggregator index (4).
func VerifHarness_C12_aggregate() {
	c := zzverif.Choose(4)
	aggChoice := zzverif.Choose(4)
	prefix := zzverif.Param("outer_sig_prefix", 0)
	strict := zzverif.Param("strict", 0)
	stale := zzverif.Param("stale_final", 0)
	big := zzverif.Param("bigcomm", 0)
	zzverif.UseOverrides("c12")
	spec := common.VTinySpec()
	n := 3
	_, cur, _ := vG3Tables()
	bitLen := c
	if big == 1 {
		n = 32
		spec.MAX_VALIDATORS_PER_COMMITTEE = 64
		spec.VALIDATOR_REGISTRY_LIMIT = 64
		comm := []common.ValidatorIndex{2, 0, 1}
		for i := 3; i < n; i++ {
			comm = append(comm, common.ValidatorIndex(i))
		}
		cur[0][0] = comm
		if c == 0 {
			bitLen = 32
		}
	}

	// the message
	sa := &phase0.SignedAggregateAndProof{Signature: phase0.VSig()}
	sa.Message.AggregatorIndex = common.ValidatorIndex(aggChoice)
	sa.Message.SelectionProof = phase0.VSig()
	att := &sa.Message.Aggregate
	var part uint8
	att.AggregationBits, part = vG3Bits(bitLen)
	att.Signature = phase0.VSig()
	slot := common.Slot(zzverif.NondetU8())
	te := common.Epoch(zzverif.NondetU8())
	idx := common.CommitteeIndex(zzverif.NondetU8() & 3)
	att.Data = phase0.AttestationData{Slot: slot, Index: idx, BeaconBlockRoot: vG3Root(1),
		Source: common.Checkpoint{Epoch: common.Epoch(zzverif.NondetU8()), Root: vG3Root(4)},
		Target: common.Checkpoint{Epoch: te, Root: vG3Root(2)}}
	agg := sa.Message.AggregatorIndex
	bbr := att.Data.BeaconBlockRoot

	// the node
	w := phase0.VG3World(spec, n, common.Slot(uint64(te)*2))
	for i := 0; i < n && i < 4; i++ {
		zzverif.Assume(zzverif.BLSPubkeyValid(w.Pubkey(i)))
	}
	epc := vG3Epc(spec, w.PubkeyCache(), te, cur)
	ch := &vG3Chain{blockRoot: bbr, targetRoot: att.Data.Target.Root,
		fin:      common.Checkpoint{Epoch: common.Epoch(zzverif.NondetU8()), Root: vG3Root(1)},
		fUnknown: zzverif.NondetBool(), fIn: zzverif.NondetBool(), towardsErr: zzverif.NondetBool(),
		towardsEntry: &vG3Entry{slot: common.Slot(uint64(te) * 2), epc: epc, epcErr: zzverif.NondetBool(), st: w.State, stErr: zzverif.NondetBool()}}
	if stale == 0 {
		zzverif.Assume(!(bbr == ch.fin.Root && ch.fin.Epoch > te))
	}
	b := &vG3AggBackend{spec: spec, chain: ch, minSlot: common.Slot(zzverif.NondetU8()), bad: zzverif.NondetBool(), badArgOK: true,
		seenAggregator: zzverif.NondetBool(), seenAggregate: zzverif.NondetBool()}
	b.maxSlot = b.minSlot + common.Slot(zzverif.NondetU8()&1)
	hf := tree.GetHashFn()
	aggRoot := att.HashTreeRoot(spec, hf)

	zzverif.Reach("gossip-aggregate")
	retComm, res := ValidateAggregateAndProof(context.Background(), sa, b)

	// ---- seen-cache / chain-query discipline (whatever the verdict) ----
	zzverif.Assert(b.marksAggregate <= 1 && b.marksAggregator <= 1 && b.marksAggregate == b.marksAggregator, "MarkAggregate and MarkAggregator are called together, at most once")
	if res.Result == ACCEPT {
		zzverif.Assert(b.marksAggregate == 1 && b.markedRoot == aggRoot && b.markedEpoch == te && b.markedAggregator == agg,
			"on ACCEPT hash_tree_root(aggregate) and (target epoch, aggregator) are marked seen")
	} else {
		zzverif.Assert(b.marksAggregate == 0 && b.marksAggregator == 0, "the seen-caches are marked only on ACCEPT")
	}
	if b.aggregatorAsked > 0 {
		zzverif.Assert(b.askedEpoch == te && b.askedIdx == agg, "SeenAggregator is asked about (target epoch, aggregator index)")
	}
	if b.aggregateAsked > 0 {
		zzverif.Assert(b.askedRoot == aggRoot, "SeenAggregate is asked about hash_tree_root(aggregate)")
	}
	zzverif.Assert(!ch.badQuery && b.badArgOK, "the chain / bad-block filter are asked only about the voted root, the finalized root and the target root")
	if ch.towardsCalls > 0 {
		zzverif.Assert(ch.towardsCalls == 1 && uint64(ch.towardsSlot) == uint64(te)*2, "Towards is asked once, for the start slot of the target epoch")
	}

	// ---- p2p conditions over the raw inputs: the early ones ----
	f := func(c bool) uint64 { return zzverif.Ite(c, 0, 1) } // 1 when the condition fails (no path split)
	timing := uint64(slot)+32 >= uint64(b.minSlot) && slot <= b.maxSlot
	epochOK := te == common.Epoch(uint64(slot)/2)
	hasBits := part != 0
	finOK := bbr == ch.fin.Root || (!ch.fUnknown && ch.fIn)
	nodeOK := !ch.towardsErr && !ch.towardsEntry.epcErr && !ch.towardsEntry.stErr
	nIgn := f(timing) + f(!b.seenAggregator) + f(!b.seenAggregate) + f(finOK) + f(nodeOK)
	nRej := f(epochOK) + f(hasBits) + f(!b.bad)
	if nIgn+nRej > 0 {
		zzverif.Assert(res.Result != ACCEPT, "never ACCEPT when an early condition (window, epoch, seen, participants, bad block, finalized ancestor, node state) fails")
		if res.Result == REJECT {
			zzverif.Assert(nRej > 0, "REJECT before the signature steps only when an early REJECT-class condition fails")
		}
		if res.Result == IGNORE {
			zzverif.Assert(nIgn > 0, "IGNORE before the signature steps only when an early IGNORE-class condition fails")
		}
		return
	}

	// ---- selection, outer signature, aggregate signature ----
	selEpoch := common.Epoch(uint64(slot) / 2) // compute_epoch_at_slot(aggregate.data.slot)
	var comm []common.ValidatorIndex
	if idx < 2 { // get_committee_count_per_slot == 2
		comm = cur[int(zzverif.Concrete(uint64(slot)%2))][int(zzverif.Concrete(uint64(idx)&1))]
	}
	inReg := int(agg) < n
	inComm := false
	for _, m := range comm {
		if m == agg {
			inComm = true
		}
	}
	modulo := uint64(len(comm)) / common.TARGET_AGGREGATORS_PER_COMMITTEE
	if modulo < 1 {
		modulo = 1
	}
	isAgg := vG3LE64(zzverif.Hash(sa.Message.SelectionProof[:]))%modulo == 0
	proofFormed := zzverif.BLSSigValid(sa.Message.SelectionProof)
	selSig, outerOK := false, false
	if inReg {
		pub := w.Pubkey(int(agg))
		selRoot := common.ComputeSigningRoot(slot.HashTreeRoot(hf), w.Domain(common.DOMAIN_SELECTION_PROOF, selEpoch))
		selSig = proofFormed && zzverif.BLSVerify(pub, selRoot[:], sa.Message.SelectionProof)
		outerRoot := common.ComputeSigningRoot(sa.Message.HashTreeRoot(spec, hf), w.Domain(common.DOMAIN_AGGREGATE_AND_PROOF, selEpoch))
		msg := outerRoot[:]
		if prefix == 1 {
			msg = outerRoot[:2]
		}
		outerOK = zzverif.BLSSigValid(sa.Signature) && zzverif.BLSVerify(pub, msg, sa.Signature)
	}
	selOK := idx < 2 && inReg && inComm && isAgg && selSig
	aggOK := false
	if idx < 2 && len(comm) == bitLen {
		// get_indexed_attestation: sorted(get_attesting_indices); is_valid_indexed_attestation
		var pubs [][48]byte
		for v := 0; v < n; v++ {
			for k, m := range comm {
				if k < 3 && int(m) == v && (part>>uint(k))&1 == 1 {
					pubs = append(pubs, [48]byte(w.Pubkey(v)))
				}
			}
		}
		root := common.ComputeSigningRoot(att.Data.HashTreeRoot(hf), w.Domain(common.DOMAIN_BEACON_ATTESTER, te))
		aggOK = zzverif.BLSSigValid(att.Signature) && zzverif.BLSFastAggregateVerify(pubs, root[:], att.Signature)
	}

	if !selOK {
		zzverif.Assert(res.Result != ACCEPT, "never ACCEPT when the aggregator is not selected / not in the committee / the selection proof is not its signature of the slot")
		if idx < 2 && inReg && inComm && isAgg && !proofFormed {
			if strict == 1 {
				zzverif.Assert(res.Result == REJECT, "a selection proof that is not a well-formed signature is REJECTed")
			}
		} else {
			zzverif.Assert(res.Result == REJECT, "a failing selection condition is REJECTed")
		}
		return
	}
	if !aggOK {
		zzverif.Assert(res.Result == REJECT, "an aggregate whose bitlist does not fit the committee or whose aggregate signature is invalid is REJECTed")
		return
	}
	if outerOK {
		zzverif.Assert(res.Result == ACCEPT, "outer signature: with every other condition satisfied, ACCEPT exactly when signed_aggregate_and_proof.signature verifies over the signing root, else REJECT")
		same := len(retComm) == len(comm)
		for i := 0; same && i < len(comm); i++ {
			same = retComm[i] == comm[i]
		}
		if res.Result == ACCEPT {
			zzverif.Assert(same, "on ACCEPT the committee of (slot, index) is returned")
		}
	} else {
		zzverif.Assert(res.Result == REJECT, "outer signature: with every other condition satisfied, ACCEPT exactly when signed_aggregate_and_proof.signature verifies over the signing root, else REJECT")
	}
}

// ---- beacon_attestation_{subnet_id} topic ----

type vG3AttBackend struct {
	spec        *common.Spec
	chain       *vG3Chain
	minSlot     common.Slot
	maxSlot     common.Slot
	bad         bool
	badArgOK    bool
	gvr         common.Root
	forkEpoch   common.Epoch // the node's fork schedule: version 00000001 before, 01000001 from this epoch on
	domErr      bool
	domAsked    int
	domTyp      common.BLSDomainType
	domEpoch    common.Epoch
	seen        bool
	seenAsked   int
	seenEpoch   common.Epoch
	seenVal     common.ValidatorIndex
	marks       int
	markedEpoch common.Epoch
	markedVal   common.ValidatorIndex
}

func (b *vG3AttBackend) Spec() *common.Spec  { return b.spec }
func (b *vG3AttBackend) Chain() beacon.Chain { return b.chain }
func (b *vG3AttBackend) SlotAfter(delta time.Duration) common.Slot {
	if delta < 0 {
		return b.minSlot
	}
	return b.maxSlot
}
func (b *vG3AttBackend) IsBadBlock(root common.Root) bool {
	if root != b.chain.blockRoot {
		b.badArgOK = false
	}
	return b.bad
}
func (b *vG3AttBackend) version(epoch common.Epoch) common.Version {
	if epoch < b.forkEpoch {
		return common.Version{0, 0, 0, 1}
	}
	return common.Version{1, 0, 0, 1}
}
func (b *vG3AttBackend) GetDomain(typ common.BLSDomainType, epoch common.Epoch) (common.BLSDomain, error) {
	b.domAsked++
	b.domTyp, b.domEpoch = typ, epoch
	if b.domErr {
		return common.BLSDomain{}, errors.New("no domain")
	}
	return common.ComputeDomain(typ, b.version(epoch), b.gvr), nil
}
func (b *vG3AttBackend) SeenAttestation(targetEpoch common.Epoch, voter common.ValidatorIndex) bool {
	b.seenAsked++
	b.seenEpoch, b.seenVal = targetEpoch, voter
	return b.seen
}
func (b *vG3AttBackend) MarkAttestation(targetEpoch common.Epoch, voter common.ValidatorIndex) {
	b.marks++
	b.markedEpoch, b.markedVal = targetEpoch, voter
}

// vG3Keys: three keys with one symbolic byte each (byte 0 keeps them distinct), assumed valid BLS keys, and the
// index -> key cache holding them.
func vG3Keys() ([3]common.BLSPubkey, *common.PubkeyCache) {
	pc := common.EmptyPubkeyCache()
	var pubs [3]common.BLSPubkey
	for i := range pubs {
		pubs[i][0] = byte(i + 1)
		pubs[i][1] = zzverif.NondetU8()
		zzverif.Assume(zzverif.BLSPubkeyValid(pubs[i]))
		pc.AddValidator(common.ValidatorIndex(i), pubs[i])
	}
	return pubs, pc
}

// VerifHarness_C12_attestation: the beacon_attestation_{subnet_id} topic validator against the p2p-interface verdict
// table.
//
// World: tiny preset; the epochs context of the entry Towards returns (first slot of the target epoch) is hand-built
// (vG3Tables: two committees per slot of sizes 2 and 1; cache of three valid keys with one symbolic byte). Message:
// 8-bit slot / target epoch / subnet id, committee index 0..3, a well-formed bitlist of chosen length 0..3 with
// symbolic participation bits, voted / target / finalized roots with one symbolic byte (any of them may coincide),
// signature with two. Node: symbolic clock window, IsBadBlock, ByBlock known or not with an 8-bit block slot,
// InSubtree(target, voted) and InSubtree(finalized, voted) unknown / in / not in, finalized epoch 8-bit, Towards /
// EpochsContext fail or answer, SeenAttestation symbolic, GetDomain fails or answers from a fork schedule with a
// symbolic fork epoch. context.WithTimeout is replaced by the parent context (the catch-up timeout does not fire).
// Unless Param stale_final=1 the world excludes "voted block == finalized block while finalized epoch > target epoch"
// (see VerifHarness_C12_aggregate).
//
// Conditions. IGNORE class: slot window, voted block known, subtree relation target/voted known, finalized checkpoint
// is an ancestor of the voted block (equal, or relation known and in), node can answer (Towards, EpochsContext,
// domain), (target epoch, voter) not seen. REJECT class: target epoch == epoch(slot), exactly one participant, voted
// block not bad, voted block's slot <= attestation slot (fork-choice validate_on_attestation rule, enforced here),
// voted block in the subtree of the target root, committee index < committees per slot, subnet ==
// (committees_per_slot * (slot % SLOTS_PER_EPOCH) + index) % ATTESTATION_SUBNET_COUNT, bitlist length == committee
// size, signature of the single participant over compute_signing_root(data, DOMAIN_BEACON_ATTESTER at the target
// epoch).
//
// Asserted. When a condition checked before the committee is known fails: never ACCEPT, REJECT only if one of those of
// the REJECT class fails, IGNORE only if one of the IGNORE class fails. Otherwise: index out of range / wrong subnet /
// wrong bitlist length: REJECT; otherwise ACCEPT exactly when not seen, domain available and signature valid; exactly
// one failing class decides the verdict; REJECT only with an invalid signature, IGNORE only when seen / no domain.
// SeenAttestation is asked about and MarkAttestation called with (target epoch, the single participant), the latter
// exactly once and exactly on ACCEPT; GetDomain is asked for (DOMAIN_BEACON_ATTESTER, target epoch); the chain is asked
// only about the voted / target / finalized roots, Towards for the start slot of the target epoch; on ACCEPT the
// committee is returned.
// Shards: Choose #1 = bitlist length (4).
func VerifHarness_C12_attestation() {
	bitLen := zzverif.Choose(4)
	stale := zzverif.Param("stale_final", 0)
	spec := common.VTinySpec()
	_, cur, _ := vG3Tables()
	pubs, pc := vG3Keys()

	att := &phase0.Attestation{Signature: phase0.VSig()}
	var part uint8
	att.AggregationBits, part = vG3Bits(bitLen)
	slot := common.Slot(zzverif.NondetU8())
	te := common.Epoch(zzverif.NondetU8())
	idx := common.CommitteeIndex(zzverif.NondetU8() & 3)
	subnet := uint64(zzverif.NondetU8())
	att.Data = phase0.AttestationData{Slot: slot, Index: idx, BeaconBlockRoot: vG3Root(1),
		Source: common.Checkpoint{Epoch: common.Epoch(zzverif.NondetU8()), Root: vG3Root(4)},
		Target: common.Checkpoint{Epoch: te, Root: vG3Root(1)}}
	bbr, troot := att.Data.BeaconBlockRoot, att.Data.Target.Root

	epc := vG3Epc(spec, pc, te, cur)
	blockSlot := common.Slot(zzverif.NondetU8())
	ch := &vG3Chain{blockRoot: bbr, targetRoot: troot, targetAnchor: true,
		fin:        common.Checkpoint{Epoch: common.Epoch(zzverif.NondetU8()), Root: vG3Root(1)},
		blockKnown: zzverif.NondetBool(), block: &vG3Entry{slot: blockSlot},
		tUnknown: zzverif.NondetBool(), tIn: zzverif.NondetBool(), fUnknown: zzverif.NondetBool(), fIn: zzverif.NondetBool(),
		towardsErr: zzverif.NondetBool(), towardsEntry: &vG3Entry{slot: common.Slot(uint64(te) * 2), epc: epc, epcErr: zzverif.NondetBool()}}
	if stale == 0 {
		zzverif.Assume(!(bbr == ch.fin.Root && ch.fin.Epoch > te))
	}
	b := &vG3AttBackend{spec: spec, chain: ch, minSlot: common.Slot(zzverif.NondetU8()), bad: zzverif.NondetBool(), badArgOK: true,
		gvr: vG3Root(7), forkEpoch: common.Epoch(zzverif.NondetU8()), domErr: zzverif.NondetBool(), seen: zzverif.NondetBool()}
	b.maxSlot = b.minSlot + common.Slot(zzverif.NondetU8()&1)

	zzverif.Reach("gossip-attestation")
	retComm, res := ValidateAttestation(context.Background(), subnet, att, b)

	// ---- cache / query discipline ----
	zzverif.Assert(b.marks <= 1, "MarkAttestation is called at most once")
	if res.Result != ACCEPT {
		zzverif.Assert(b.marks == 0, "the seen-cache is marked only on ACCEPT")
	}
	zzverif.Assert(!ch.badQuery && b.badArgOK, "the chain / bad-block filter are asked only about the voted, target and finalized roots")
	if ch.towardsCalls > 0 {
		zzverif.Assert(ch.towardsCalls == 1 && uint64(ch.towardsSlot) == uint64(te)*2, "Towards is asked once, for the start slot of the target epoch")
	}
	if b.domAsked > 0 {
		zzverif.Assert(b.domTyp == common.DOMAIN_BEACON_ATTESTER && b.domEpoch == te, "GetDomain is asked for (DOMAIN_BEACON_ATTESTER, target epoch)")
	}

	// ---- conditions that do not need the committee ----
	f := func(c bool) uint64 { return zzverif.Ite(c, 0, 1) }
	timing := uint64(slot)+32 >= uint64(b.minSlot) && slot <= b.maxSlot
	epochOK := te == common.Epoch(uint64(slot)/2)
	oneBit := part == 1 || part == 2 || part == 4
	notFuture := blockSlot <= slot
	sameAnchor := troot == ch.fin.Root // then both questions are the same question
	fUnknown := (sameAnchor && ch.tUnknown) || (!sameAnchor && ch.fUnknown)
	fIn := (sameAnchor && ch.tIn) || (!sameAnchor && ch.fIn)
	finOK := bbr == ch.fin.Root || (!fUnknown && fIn)
	nodeOK := !ch.towardsErr && !ch.towardsEntry.epcErr
	nIgn := f(timing) + f(ch.blockKnown) + f(!ch.tUnknown) + f(finOK) + f(nodeOK)
	nRej := f(epochOK) + f(oneBit) + f(!b.bad) + f(notFuture) + f(ch.tIn)
	if nIgn+nRej > 0 {
		zzverif.Assert(res.Result != ACCEPT, "never ACCEPT when a condition on window / epoch / participants / voted block / target / finalized / node state fails")
		if res.Result == REJECT {
			zzverif.Assert(nRej > 0, "REJECT before the committee steps only when a REJECT-class condition fails")
		}
		if res.Result == IGNORE {
			zzverif.Assert(nIgn > 0, "IGNORE before the committee steps only when an IGNORE-class condition fails")
		}
		return
	}

	// ---- committee, subnet, bitlist, seen, signature ----
	structural := idx < 2 // data.index < get_committee_count_per_slot(state, data.target.epoch) == 2
	var comm []common.ValidatorIndex
	if structural {
		comm = cur[int(zzverif.Concrete(uint64(slot)%2))][int(zzverif.Concrete(uint64(idx)&1))]
		structural = subnet == (2*(uint64(slot)%2)+uint64(idx))%common.ATTESTATION_SUBNET_COUNT && len(comm) == bitLen
	}
	if !structural {
		zzverif.Assert(res.Result == REJECT, "committee index out of range, wrong subnet or bitlist length != committee size is REJECTed")
		return
	}
	voter := comm[0]
	if part == 2 && len(comm) > 1 {
		voter = comm[1]
	}
	voter = common.ValidatorIndex(zzverif.Concrete(uint64(voter)))
	if b.seenAsked > 0 {
		zzverif.Assert(b.seenAsked == 1 && b.seenEpoch == te && b.seenVal == voter, "SeenAttestation is asked about (target epoch, the single participant)")
	}
	root := common.ComputeSigningRoot(att.Data.HashTreeRoot(tree.GetHashFn()), common.ComputeDomain(common.DOMAIN_BEACON_ATTESTER, b.version(te), b.gvr))
	sigOK := zzverif.BLSSigValid(att.Signature) && zzverif.BLSVerify(pubs[int(voter)], root[:], att.Signature)
	nIgn = f(!b.seen) + f(!b.domErr)
	nRej = f(sigOK)
	zzverif.Assert((res.Result == ACCEPT) == (nIgn+nRej == 0), "ACCEPT exactly when every beacon_attestation condition of the p2p spec holds")
	if res.Result == REJECT {
		zzverif.Assert(nRej > 0, "REJECT at the signature step only when the signature is invalid")
	}
	if res.Result == IGNORE {
		zzverif.Assert(nIgn > 0, "IGNORE at the signature step only when the vote was seen or the domain is unavailable")
	}
	if res.Result == ACCEPT {
		zzverif.Assert(b.marks == 1 && b.markedEpoch == te && b.markedVal == voter, "on ACCEPT exactly (target epoch, the single participant) is marked seen")
		same := len(retComm) == len(comm)
		for i := 0; same && i < len(comm); i++ {
			same = retComm[i] == comm[i]
		}
		zzverif.Assert(same, "on ACCEPT the committee of (slot, index) is returned")
	}
}

// ---- sync_committee_contribution_and_proof topic (altair) ----

type vG3SyncChain struct {
	vChain
	root   common.Root
	slot   common.Slot
	entry  *vG3Entry
	badArg bool
}

func (c *vG3SyncChain) ByBlockSlot(root common.Root, slot common.Slot) (beacon.ChainEntry, bool) {
	if root != c.root || slot != c.slot {
		c.badArg = true
	}
	if !c.known {
		return nil, false
	}
	return c.entry, true
}

type vG3SyncBackend struct {
	spec         *common.Spec
	chain        *vG3SyncChain
	minSlot      common.Slot
	maxSlot      common.Slot
	gvr          common.Root
	forkEpoch    common.Epoch
	seen         bool
	seenAsked    int
	seenVal      common.ValidatorIndex
	seenSlot     common.Slot
	seenSubnet   uint64
	marks        int
	markedVal    common.ValidatorIndex
	markedSlot   common.Slot
	markedSubnet uint64
}

func (b *vG3SyncBackend) Spec() *common.Spec  { return b.spec }
func (b *vG3SyncBackend) Chain() beacon.Chain { return b.chain }
func (b *vG3SyncBackend) SlotAfter(delta time.Duration) common.Slot {
	if delta < 0 {
		return b.minSlot
	}
	return b.maxSlot
}
func (b *vG3SyncBackend) version(epoch common.Epoch) common.Version {
	if epoch < b.forkEpoch {
		return common.Version{1, 0, 0, 1}
	}
	return common.Version{2, 0, 0, 1}
}
func (b *vG3SyncBackend) GetDomain(typ common.BLSDomainType, epoch common.Epoch) (common.BLSDomain, error) {
	return common.ComputeDomain(typ, b.version(epoch), b.gvr), nil
}
func (b *vG3SyncBackend) SeenContribution(aggregator common.ValidatorIndex, slot common.Slot, subnet uint64) bool {
	b.seenAsked++
	b.seenVal, b.seenSlot, b.seenSubnet = aggregator, slot, subnet
	return b.seen
}
func (b *vG3SyncBackend) MarkContribution(aggregator common.ValidatorIndex, slot common.Slot, subnet uint64) {
	b.marks++
	b.markedVal, b.markedSlot, b.markedSubnet = aggregator, slot, subnet
}

// vG3SyncVerdict: the verdict-table obligations for a count of failing IGNORE-class / REJECT-class conditions; the
// labels carry a prefix so that a region of the input space can be reported under its own obligations.
func vG3SyncVerdict(pre string, res GossipValidatorCode, nIgn, nRej uint64) {
	zzverif.Assert((res == ACCEPT) == (nIgn+nRej == 0), pre+"ACCEPT exactly when every sync_committee_contribution_and_proof condition of the p2p spec holds")
	if res == REJECT {
		zzverif.Assert(nRej > 0, pre+"REJECT only when a REJECT-class condition fails")
	}
	if res == IGNORE {
		zzverif.Assert(nIgn > 0, pre+"IGNORE only when an IGNORE-class condition fails")
	}
}

// VerifHarness_C12_sync_contribution: the sync_committee_contribution_and_proof topic validator (altair) against the
// p2p-interface verdict table.
//
// World: tiny preset with SYNC_COMMITTEE_SIZE = Param sync_size (default 128: subcommittees of 32, selection modulus
// 2, four bitvector bytes; 8: subcommittees of 2, modulus 1, one byte); three valid keys with one symbolic byte; the
// current sync committee lists validator i%3 at position i except the first and the last position of the declared
// subcommittee, which are symbolic members (case-split); the contribution's bitvector has symbolic bits for the
// positions 0, 1 and last of the subcommittee (the others are zero); 8-bit slot, subcommittee index 0..4 (4 is out of
// range; Choose #1), aggregator index 0..3 (3 has no key; Choose #2), block root with one symbolic byte, the three
// signatures with two symbolic bytes each. Node: symbolic clock window [min, min+0/1], ByBlockSlot known or not,
// EpochsContext fails or answers, SeenContribution symbolic, domains from a fork schedule with symbolic fork epoch.
//
// Conditions. IGNORE class: contribution.slot within [min, max] (current slot with clock disparity), block / context
// known, (aggregator, slot, subcommittee) not seen. REJECT class: subcommittee index < 4, any(aggregation_bits),
// is_sync_committee_aggregator(selection_proof) (bytes_to_uint64(hash(proof)[0:8]) % max(1, SIZE/4/16) == 0),
// aggregator is a member of the subcommittee, selection proof = signature over SyncAggregatorSelectionData(slot,
// subcommittee) under DOMAIN_SYNC_COMMITTEE_SELECTION_PROOF, outer signature over the ContributionAndProof under
// DOMAIN_CONTRIBUTION_AND_PROOF, aggregate signature of the participants' keys (subcommittee order) over the block
// root under DOMAIN_SYNC_COMMITTEE; all domains at epoch(slot).
//
// Asserted: ACCEPT exactly when all hold; REJECT only if a REJECT-class condition fails; IGNORE only if an IGNORE-class
// condition fails; the seen-cache is asked about / marked with (aggregator, slot, subcommittee), marked once, exactly
// on ACCEPT; ByBlockSlot is asked about (block root, slot); on ACCEPT the subcommittee's indices are returned.
// Inputs whose participation bits are non-empty for the spec but empty for SSZ-bitlist counting (the highest set bit of
// the last byte taken as a length delimiter) are reported under labels prefixed "participants (bitvector read as
// bitlist): "; Param ones_as_bitlist=1 makes the expected verdict follow the bitlist reading there.
// Shards: Choose #1 = subcommittee index (5), Choose #2 = aggregator index (4).
func VerifHarness_C12_sync_contribution() {
	sub := uint64(zzverif.Choose(5))
	agg := common.ValidatorIndex(zzverif.Choose(4))
	size := zzverif.Param("sync_size", 128)
	asBitlist := zzverif.Param("ones_as_bitlist", 0)
	spec := common.VTinySpec()
	spec.SYNC_COMMITTEE_SIZE = view.Uint64View(size)
	subSize := size / 4
	pubs, pc := vG3Keys()
	isc := &common.IndexedSyncCommittee{}
	for i := 0; i < size; i++ {
		m := uint64(i % 3)
		if sub < 4 && uint64(i/subSize) == sub && (i%subSize == 0 || i%subSize == subSize-1) {
			x := zzverif.NondetU8()
			zzverif.Assume(x < 3)
			m = zzverif.Concrete(uint64(x))
		}
		cp, _ := pc.Pubkey(common.ValidatorIndex(m))
		isc.Indices = append(isc.Indices, common.ValidatorIndex(m))
		isc.CachedPubkeys = append(isc.CachedPubkeys, cp)
	}
	epc := &common.EpochsContext{Spec: spec, ValidatorPubkeyCache: pc, CurrentSyncCommittee: isc}

	nBytes := (subSize + 7) / 8
	bits := make(altair.SyncCommitteeSubnetBits, nBytes)
	positions := []int{0, 1}
	bits[0] = zzverif.NondetU8() & 3
	if subSize > 2 {
		positions = append(positions, subSize-1)
		bits[nBytes-1] |= zzverif.NondetU8() & (uint8(1) << uint((subSize-1)%8))
	}
	sc := &altair.SignedContributionAndProof{Signature: phase0.VSig()}
	sc.Message.AggregatorIndex = agg
	sc.Message.SelectionProof = phase0.VSig()
	contrib := &sc.Message.Contribution
	slot := common.Slot(zzverif.NondetU8())
	*contrib = altair.SyncCommitteeContribution{Slot: slot, BeaconBlockRoot: vG3Root(1), SubcommitteeIndex: view.Uint64View(sub),
		AggregationBits: bits, Signature: phase0.VSig()}

	ch := &vG3SyncChain{root: contrib.BeaconBlockRoot, slot: slot, entry: &vG3Entry{slot: slot, epc: epc, epcErr: zzverif.NondetBool()}}
	ch.known = zzverif.NondetBool()
	b := &vG3SyncBackend{spec: spec, chain: ch, minSlot: common.Slot(zzverif.NondetU8()), gvr: vG3Root(7),
		forkEpoch: common.Epoch(zzverif.NondetU8()), seen: zzverif.NondetBool()}
	b.maxSlot = b.minSlot + common.Slot(zzverif.NondetU8()&1)

	zzverif.Reach("gossip-sync-contribution")
	retIdx, res := ValidateSyncContribAndProof(context.Background(), sc, b)

	// ---- cache / query discipline ----
	zzverif.Assert(b.marks <= 1, "MarkContribution is called at most once")
	if res.Result == ACCEPT {
		zzverif.Assert(b.marks == 1 && b.markedVal == agg && b.markedSlot == slot && b.markedSubnet == sub, "on ACCEPT exactly (aggregator, slot, subcommittee) is marked seen")
	} else {
		zzverif.Assert(b.marks == 0, "the seen-cache is marked only on ACCEPT")
	}
	if b.seenAsked > 0 {
		zzverif.Assert(b.seenAsked == 1 && b.seenVal == agg && b.seenSlot == slot && b.seenSubnet == sub, "SeenContribution is asked about (aggregator, slot, subcommittee)")
	}
	zzverif.Assert(!ch.badArg, "ByBlockSlot is asked about (contribution.beacon_block_root, contribution.slot)")

	// ---- p2p conditions ----
	f := func(c bool) uint64 { return zzverif.Ite(c, 0, 1) }
	hf := tree.GetHashFn()
	timing := slot >= b.minSlot && slot <= b.maxSlot
	subOK := sub < common.SYNC_COMMITTEE_SUBNET_COUNT
	anyBits := false
	for _, x := range bits {
		anyBits = anyBits || x != 0
	}
	// the same bits counted as an SSZ bitlist: the highest set bit of the last byte is a delimiter, not a member
	last := bits[nBytes-1]
	asListNonEmpty := last&(last-1) != 0 // more than one bit set in the last byte
	for _, x := range bits[:nBytes-1] {
		asListNonEmpty = asListNonEmpty || x != 0
	}
	modulo := uint64(size) / common.SYNC_COMMITTEE_SUBNET_COUNT / common.TARGET_AGGREGATORS_PER_SYNC_SUBCOMMITTEE
	if modulo < 1 {
		modulo = 1
	}
	isAgg := vG3LE64(zzverif.Hash(sc.Message.SelectionProof[:]))%modulo == 0
	nodeOK := ch.known && !ch.entry.epcErr
	epoch := common.Epoch(uint64(slot) / 2)
	inSub, selOK, outerOK, aggOK := true, true, true, true
	if subOK {
		members := isc.Indices[int(sub)*subSize : (int(sub)+1)*subSize]
		inSub = false
		for _, m := range members {
			if m == agg {
				inSub = true
			}
		}
		selOK, outerOK = false, false
		if int(agg) < 3 {
			sd := altair.SyncAggregatorSelectionData{Slot: slot, SubcommitteeIndex: view.Uint64View(sub)}
			selRoot := common.ComputeSigningRoot(sd.HashTreeRoot(hf), common.ComputeDomain(common.DOMAIN_SYNC_COMMITTEE_SELECTION_PROOF, b.version(epoch), b.gvr))
			selOK = zzverif.BLSSigValid(sc.Message.SelectionProof) && zzverif.BLSVerify(pubs[int(agg)], selRoot[:], sc.Message.SelectionProof)
			outerRoot := common.ComputeSigningRoot(sc.Message.HashTreeRoot(spec, hf), common.ComputeDomain(common.DOMAIN_CONTRIBUTION_AND_PROOF, b.version(epoch), b.gvr))
			outerOK = zzverif.BLSSigValid(sc.Signature) && zzverif.BLSVerify(pubs[int(agg)], outerRoot[:], sc.Signature)
		}
		if anyBits {
			var keys [][48]byte
			for _, p := range positions {
				if (bits[p/8]>>uint(p%8))&1 == 1 {
					keys = append(keys, [48]byte(pubs[int(members[p])]))
				}
			}
			root := common.ComputeSigningRoot(contrib.BeaconBlockRoot, common.ComputeDomain(common.DOMAIN_SYNC_COMMITTEE, b.version(epoch), b.gvr))
			aggOK = zzverif.BLSSigValid(contrib.Signature) && zzverif.BLSFastAggregateVerify(keys, root[:], contrib.Signature)
		}
	}
	nIgn := f(timing) + f(nodeOK) + f(!b.seen)
	nRejRest := f(subOK) + f(isAgg) + f(inSub) + f(selOK) + f(outerOK) + f(aggOK)
	if anyBits && !asListNonEmpty {
		// any(aggregation_bits) holds, but only through the highest set bit of the last byte
		if asBitlist == 1 {
			vG3SyncVerdict("participants (bitvector read as bitlist): ", res.Result, nIgn, nRejRest+1)
		} else {
			vG3SyncVerdict("participants (bitvector read as bitlist): ", res.Result, nIgn, nRejRest)
		}
		return
	}
	vG3SyncVerdict("", res.Result, nIgn, nRejRest+f(anyBits))
	if res.Result == ACCEPT && subOK {
		members := isc.Indices[int(sub)*subSize : (int(sub)+1)*subSize]
		same := len(retIdx) == len(members)
		for i := 0; same && i < len(members); i++ {
			same = retIdx[i] == members[i]
		}
		zzverif.Assert(same, "on ACCEPT the subcommittee's validator indices are returned")
	}
}
