package pool

import (
	"context"

	"github.com/protolambda/zrnt/eth2/beacon/altair"
	"github.com/protolambda/zrnt/eth2/beacon/common"
	"github.com/protolambda/zrnt/eth2/beacon/phase0"
	"github.com/protolambda/zrnt/eth2/zzverif"
)

// VerifHarness_C17_pools: lock discipline of every method of the five shared pools (see the fork-choice variant).
func VerifHarness_C17_pools() {
	spec := &common.Spec{}
	spec.SYNC_COMMITTEE_SIZE = 4
	ctx := context.Background()
	ap := NewAttestationPool(spec)
	committee := common.CommitteeIndices{1, 2, 3}
	var d phase0.AttestationData
	d.Target.Epoch = 1
	ap.AddAttestation(ctx, &phase0.Attestation{AggregationBits: phase0.AttestationBits{0x0b}, Data: d}, committee)
	ap.AddAttestation(ctx, &phase0.Attestation{AggregationBits: phase0.AttestationBits{0x09}, Data: d}, committee)
	ep := NewVoluntaryExitPool(spec)
	ep.AddVoluntaryExit(ctx, &phase0.SignedVoluntaryExit{Message: phase0.VoluntaryExit{ValidatorIndex: 1}})
	pp := NewProposerSlashingPool(spec)
	pp.AddProposerSlashing(ctx, &phase0.ProposerSlashing{})
	as := NewAttesterSlashingPool(spec)
	sp := NewSyncCommitteePool(spec)
	sp.Reset(5)
	sp.AddSyncCommitteeMessage(ctx, &altair.SyncCommitteeMessage{Slot: 5, ValidatorIndex: 1})
	m := zzverif.Choose(16)
	zzverif.SharedBegin()
	zzverif.Reach("pool-method")
	zzverif.MustReturnWithin(400000)
	switch m {
	case 0:
		ap.AddAttestation(ctx, &phase0.Attestation{AggregationBits: phase0.AttestationBits{0x0e}, Data: d}, committee)
	case 1:
		ap.AddAttestation(ctx, &phase0.Attestation{AggregationBits: phase0.AttestationBits{0x0a}, Data: d}, committee)
	case 2:
		ap.Search()
	case 3:
		ap.Prune(4)
	case 4:
		ep.AddVoluntaryExit(ctx, &phase0.SignedVoluntaryExit{Message: phase0.VoluntaryExit{ValidatorIndex: 2}})
	case 5:
		ep.All()
	case 6:
		pp.AddProposerSlashing(ctx, &phase0.ProposerSlashing{SignedHeader1: common.SignedBeaconBlockHeader{Message: common.BeaconBlockHeader{ProposerIndex: 3}}})
	case 7:
		pp.All()
	case 8:
		as.All()
	case 9:
		sp.AddSyncCommitteeMessage(ctx, &altair.SyncCommitteeMessage{Slot: 6, ValidatorIndex: 2})
	case 10:
		sp.AddSyncCommitteeContribution(ctx, &altair.SyncCommitteeContribution{Slot: 5, SubcommitteeIndex: 1})
	case 11:
		sp.Reset(6)
	case 12:
		sp.Reset(9)
	case 13:
		sp.PackContribution(ctx, 5, common.Root{}, 0, nil)
	case 14:
		sp.PackAggregate(ctx, 5, common.Root{}, nil)
	case 15:
		sp.Reset(4)
	}
	zzverif.MustReturnWithin(0)
	zzverif.SharedEnd()
	zzverif.Assert(zzverif.LocksHeld() == 0, "every lock is released when the call returns")
}

// VerifHarness_C17_pool_interleave: two overlapping "add" calls for the same key on the exit pool and on the
// proposer-slashing pool behave like one of the two sequential orders: exactly one of them is accepted and that one is
// what the pool holds. The second call is run as a whole at the k-th point where the first releases the pool's lock
// (a check made under one critical section and a store made under another lets both succeed).
func VerifHarness_C17_pool_interleave() {
	spec := &common.Spec{}
	ctx := context.Background()
	kind := zzverif.Choose(2)
	k := zzverif.Choose(3)
	cnt, ran := 0, false
	var errA, errB error
	ea := &phase0.SignedVoluntaryExit{Message: phase0.VoluntaryExit{Epoch: common.Epoch(zzverif.NondetU8()), ValidatorIndex: 5}}
	eb := &phase0.SignedVoluntaryExit{Message: phase0.VoluntaryExit{Epoch: common.Epoch(zzverif.NondetU8()), ValidatorIndex: 5}}
	ea.Signature[0], eb.Signature[0] = 1, 2
	sa, sb := &phase0.ProposerSlashing{}, &phase0.ProposerSlashing{}
	sa.SignedHeader1.Message.ProposerIndex, sb.SignedHeader1.Message.ProposerIndex = 7, 7
	sa.SignedHeader2.Message.ProposerIndex, sb.SignedHeader2.Message.ProposerIndex = 7, 7
	sa.SignedHeader1.Signature[0], sb.SignedHeader1.Signature[0] = 1, 2
	ep := NewVoluntaryExitPool(spec)
	pp := NewProposerSlashingPool(spec)
	zzverif.OnUnlock(func() {
		if ran {
			return
		}
		if cnt == k {
			ran = true
			if kind == 0 {
				errB = ep.AddVoluntaryExit(ctx, eb)
			} else {
				errB = pp.AddProposerSlashing(ctx, sb)
			}
		}
		cnt++
	})
	zzverif.MustReturnWithin(200000)
	if kind == 0 {
		errA = ep.AddVoluntaryExit(ctx, ea)
	} else {
		errA = pp.AddProposerSlashing(ctx, sa)
	}
	zzverif.MustReturnWithin(0)
	zzverif.OnUnlock(nil)
	if !ran {
		return
	}
	zzverif.Reach("pool-interleaved")
	zzverif.Assert((errA == nil) != (errB == nil), "of two overlapping adds for the same key exactly one is accepted")
	if kind == 0 {
		all := ep.All()
		zzverif.Assert(len(all) == 1 && ((errA == nil && all[0] == ea) || (errB == nil && all[0] == eb)), "the pool holds the accepted exit")
	} else {
		all := pp.All()
		zzverif.Assert(len(all) == 1 && ((errA == nil && all[0] == sa) || (errB == nil && all[0] == sb)), "the pool holds the accepted proposer slashing")
	}
	zzverif.Assert(zzverif.LocksHeld() == 0, "no lock is left held")
}
