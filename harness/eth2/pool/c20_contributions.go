package pool

import (
	"context"

	"github.com/protolambda/zrnt/eth2/beacon/altair"
	"github.com/protolambda/zrnt/eth2/beacon/common"
	"github.com/protolambda/zrnt/eth2/zzverif"
	. "github.com/protolambda/ztyp/view"
)

// vM2Contrib: one accepted contribution of the shadow model. The structural part of its key (slot offset, which root of
// the pool of two, which of the two subcommittee values) is concrete, the content symbolic.
type vM2Contrib struct {
	off  int // slot = base + off - 2
	root int
	sub  int
	bits byte
	sig  common.BLSSignature
}

// VerifHarness_C20_contributions: every history of K (<= 3) operations - Reset(slot) / AddSyncCommitteeContribution -
// on a fresh SyncCommitteePool (NewSyncCommitteePool), against a shadow list of accepted contributions keyed by
// absolute slot. Decided after every step, by looking into the three unexported buffers:
//   - no panic (also before the first Reset, where the pool sits at slot 2^64-1 and its window wraps to slot 0; any
//     64-bit subcommittee index, in or out of range; empty buffers);
//   - a contribution is accepted (nil error) exactly when its slot is the previous, current or next slot of the pool;
//   - the buffer of every window slot holds, under (block root, subcommittee index), exactly the accepted contributions
//     with that key, in arrival order, aggregation bits and signature unaltered, and nothing else (so nothing is stored
//     for a refused contribution, nothing is lost while the slot stays in the window and everything is gone once the
//     window moved past the slot);
//   - Reset to a slot that is not the previous/current/next one empties all three buffers (the pool's documented
//     "rotate by one or start over" behaviour; this is the model's reading, not derived from a specification).
//
// Bounds: slots base-2..base+2 for a symbolic base in 2..257 (base = 2 reaches slot 0, the wrapped "next" slot of the
// fresh pool); two block roots with a symbolic byte each; two distinct symbolic 64-bit subcommittee indices (any value:
// the pool does not range-check them, which is part of what is shown not to panic); symbolic bits byte and signature
// byte; single goroutine. The K operation kinds are the first K Choose calls (shard shape [2]^K); then per step the
// slot offset (5) and, for an add, root (2) and subcommittee (2).
func VerifHarness_C20_contributions() {
	K := zzverif.Param("steps", 3)
	ops := make([]int, K)
	for i := range ops {
		ops[i] = zzverif.Choose(2)
	}
	spec := &common.Spec{}
	spec.SYNC_COMMITTEE_SIZE = 4
	sp := NewSyncCommitteePool(spec)
	cur := ^uint64(0) // the fresh pool sits at slot 2^64-1; the model's slot arithmetic wraps like the pool's
	if zzverif.Param("zero", 0) == 1 {
		// probe, not part of the registered claim: a pool that did not come from the constructor (zero value: slot 0,
		// nil buffers)
		sp = &SyncCommitteePool{spec: spec}
		cur = 0
	}
	ctx := context.Background()
	base := uint64(zzverif.NondetU8()) + 2
	var roots [2]common.Root
	for i := range roots {
		roots[i][0] = zzverif.NondetU8()
		roots[i][31] = byte(i + 1)
	}
	subs := [2]uint64{zzverif.NondetU64(), zzverif.NondetU64()}
	zzverif.Assume(subs[0] != subs[1])
	var model []vM2Contrib
	slotOf := func(off int) uint64 { return base + uint64(off) - 2 }
	inWin := func(s uint64) bool { return s == cur || s+1 == cur || s == cur+1 }
	for step := 0; step < K; step++ {
		zzverif.Reach("contributions-step")
		zzverif.MustReturnWithin(200000)
		off := zzverif.Choose(5)
		slot := slotOf(off)
		switch ops[step] {
		case 0:
			sp.Reset(common.Slot(slot))
			if !inWin(slot) {
				model = nil
			}
			cur = slot
			kept := model[:0:0]
			for _, m := range model {
				if inWin(slotOf(m.off)) {
					kept = append(kept, m)
				}
			}
			model = kept
		case 1:
			m := vM2Contrib{off: off, root: zzverif.Choose(2), sub: zzverif.Choose(2), bits: zzverif.NondetU8()}
			m.sig[0], m.sig[95] = zzverif.NondetU8(), zzverif.NondetU8()
			c := &altair.SyncCommitteeContribution{
				Slot:              common.Slot(slot),
				BeaconBlockRoot:   roots[m.root],
				SubcommitteeIndex: Uint64View(subs[m.sub]),
				AggregationBits:   altair.SyncCommitteeSubnetBits{m.bits},
				Signature:         m.sig,
			}
			err := sp.AddSyncCommitteeContribution(ctx, c)
			zzverif.Assert((err == nil) == inWin(slot), "a contribution is accepted exactly when its slot is previous/current/next")
			if err == nil {
				model = append(model, m)
			}
		}
		zzverif.MustReturnWithin(0)
		// the three buffers hold exactly the model's contributions of their slots
		type vM2Buf struct {
			slot uint64
			buf  SyncCommitteeContributions
		}
		for _, b := range []vM2Buf{{cur - 1, sp.prevContribs}, {cur, sp.currentContribs}, {cur + 1, sp.nextContribs}} {
			zzverif.Assert(b.buf != nil, "the window buffers exist")
			total := 0
			for _, bySub := range b.buf {
				for _, lst := range bySub {
					total += len(lst)
				}
			}
			want := 0
			for _, m := range model {
				if slotOf(m.off) == b.slot {
					want++
				}
			}
			zzverif.Assert(total == want, "each window buffer holds as many contributions as were accepted for its slot")
			for r := 0; r < 2; r++ {
				for s := 0; s < 2; s++ {
					var lst []*SubnetContrib
					if bySub, ok := b.buf[roots[r]]; ok {
						lst = bySub[subs[s]]
					}
					k := 0
					for _, m := range model {
						if slotOf(m.off) != b.slot || m.root != r || m.sub != s {
							continue
						}
						ok := k < len(lst) && lst[k] != nil && len(lst[k].AggregationBits) == 1 && lst[k].AggregationBits[0] == m.bits && lst[k].Signature == m.sig
						zzverif.Assert(ok, "an accepted contribution is kept unaltered under its (slot, root, subcommittee), in arrival order")
						k++
					}
					zzverif.Assert(len(lst) == k, "nothing but the accepted contributions is stored under a (slot, root, subcommittee)")
				}
			}
		}
	}
}
