package pool

import (
	"context"

	"github.com/protolambda/zrnt/eth2/beacon/altair"
	"github.com/protolambda/zrnt/eth2/beacon/common"
	"github.com/protolambda/zrnt/eth2/beacon/phase0"
	"github.com/protolambda/zrnt/eth2/zzverif"
	"github.com/protolambda/ztyp/tree"
)

type vAdded struct {
	d    int
	bits byte
	sig  common.BLSSignature
	must bool // must be returned by Search until pruned
}

func vSig() (s common.BLSSignature) {
	s[0] = zzverif.NondetU8()
	return
}

// VerifHarness_C20_attpool: K-step histories of AddAttestation (single and aggregate, two attestation datas, one
// committee of three), Search (no filter / slot filter) and Prune on a fresh AttestationPool.
func VerifHarness_C20_attpool() {
	K := zzverif.Param("steps", 3)
	spec := &common.Spec{}
	ap := NewAttestationPool(spec)
	ctx := context.Background()
	var datas [2]phase0.AttestationData
	var ep [2]int
	for i := range datas {
		ep[i] = zzverif.Choose(3) // target epoch 0..2
		datas[i].Slot = common.Slot(zzverif.NondetU8())
		datas[i].Index = common.CommitteeIndex(zzverif.NondetU8())
		datas[i].Target.Epoch = common.Epoch(ep[i])
		datas[i].BeaconBlockRoot[0] = byte(i + 1)
	}
	roots := [2]common.Root{datas[0].HashTreeRoot(tree.GetHashFn()), datas[1].HashTreeRoot(tree.GetHashFn())}
	zzverif.Assume(roots[0] != roots[1]) // distinct data have distinct roots (uninterpreted hash: stated, not derived)
	committee := common.CommitteeIndices{common.ValidatorIndex(zzverif.NondetU8()), common.ValidatorIndex(zzverif.NondetU8()), common.ValidatorIndex(zzverif.NondetU8())}
	zzverif.Assume(committee[0] != committee[1] && committee[0] != committee[2] && committee[1] != committee[2])
	var added []vAdded
	// single votes: (member, epoch) -> data
	single := map[[2]int]int{}
	for step := 0; step < K; step++ {
		zzverif.Reach("attpool-step")
		zzverif.MustReturnWithin(400000)
		switch zzverif.Choose(3) {
		case 0: // add
			d := zzverif.Choose(2)
			pat := byte(zzverif.Choose(7) + 1) // participation of the three members, at least one
			sig := vSig()
			att := &phase0.Attestation{AggregationBits: phase0.AttestationBits{pat | 0x08}, Data: datas[d], Signature: sig}
			err := ap.AddAttestation(ctx, att, committee)
			ones := int(pat&1) + int(pat>>1&1) + int(pat>>2&1)
			if ones == 1 {
				m := 0
				for pat>>uint(m)&1 == 0 {
					m++
				}
				key := [2]int{m, ep[d]}
				if prev, ok := single[key]; ok {
					if prev != d {
						zzverif.Assert(err != nil, "a conflicting second single vote by the same validator in the same epoch is reported")
					} else {
						zzverif.Assert(err == nil, "an exact duplicate single vote is absorbed")
					}
				} else {
					zzverif.Assert(err == nil, "a first single vote is stored")
					single[key] = d
				}
			} else if err == nil {
				// an accepted aggregate that adds participants to what Search already returns must be returned from now on
				var union byte
				dup := false
				for _, a := range added {
					if a.d == d && a.must {
						union |= a.bits
					}
					if a.d == d && a.bits == pat && a.sig == sig {
						dup = true
					}
				}
				added = append(added, vAdded{d: d, bits: pat, sig: sig, must: pat&^union != 0 && !dup})
			}
		case 1: // prune
			e := zzverif.Choose(4)
			ap.Prune(common.Epoch(e))
			min := e - 1
			if e == 0 {
				min = 0
			}
			kept := added[:0:0]
			for _, a := range added {
				if ep[a.d] >= min {
					kept = append(kept, a)
				}
			}
			added = kept
			for k := range single {
				if k[1] < min {
					delete(single, k)
				}
			}
		case 2: // search
			bySlot := zzverif.Choose(2) == 1
			var out []*phase0.Attestation
			var want common.Slot
			if bySlot {
				want = datas[zzverif.Choose(2)].Slot
				out = ap.Search(WithSlot(want))
			} else {
				out = ap.Search()
			}
			for _, o := range out {
				zzverif.Assert(o != nil && len(o.AggregationBits) == 1, "Search returns well-formed attestations")
				if o == nil || len(o.AggregationBits) != 1 {
					return
				}
				found := false
				for _, a := range added {
					if o.Data == datas[a.d] && o.AggregationBits[0] == a.bits|0x08 && o.Signature == a.sig {
						found = true
					}
				}
				zzverif.Assert(found, "everything Search returns was added, unaltered")
				if bySlot {
					zzverif.Assert(o.Data.Slot == want, "everything Search returns matches the slot filter")
				}
			}
			for _, a := range added {
				if !a.must || (bySlot && datas[a.d].Slot != want) {
					continue
				}
				found := false
				for _, o := range out {
					if o != nil && len(o.AggregationBits) == 1 && o.Data == datas[a.d] && o.AggregationBits[0] == a.bits|0x08 && o.Signature == a.sig {
						found = true
					}
				}
				zzverif.Assert(found, "every stored aggregate that added participants is returned until pruned")
			}
		}
		zzverif.MustReturnWithin(0)
	}
}

// VerifHarness_C20_simple: exit / proposer-slashing / attester-slashing pools: add, duplicate, All().
func VerifHarness_C20_simple() {
	spec := &common.Spec{}
	ctx := context.Background()
	zzverif.Reach("simple")
	{
		p := NewVoluntaryExitPool(spec)
		a := &phase0.SignedVoluntaryExit{Message: phase0.VoluntaryExit{Epoch: common.Epoch(zzverif.NondetU8()), ValidatorIndex: common.ValidatorIndex(zzverif.NondetU8())}, Signature: vSig()}
		b := &phase0.SignedVoluntaryExit{Message: phase0.VoluntaryExit{Epoch: common.Epoch(zzverif.NondetU8()), ValidatorIndex: common.ValidatorIndex(zzverif.NondetU8())}, Signature: vSig()}
		zzverif.Assert(p.AddVoluntaryExit(ctx, a) == nil, "first exit of a validator is stored")
		eb := p.AddVoluntaryExit(ctx, b)
		same := a.Message.ValidatorIndex == b.Message.ValidatorIndex
		zzverif.Assert((eb != nil) == same, "a second exit of the same validator is reported, of another validator stored")
		all := p.All()
		n := 2
		if same {
			n = 1
		}
		zzverif.Assert(len(all) == n, "All() returns every stored exit")
		for _, x := range all {
			zzverif.Assert(x != nil && (*x == *a || *x == *b), "All() returns only exits that were added, unaltered")
		}
		if same && len(all) == 1 && all[0] != nil {
			zzverif.Assert(*all[0] == *a, "the exit that was accepted first stays in the pool")
		}
	}
	{
		p := NewProposerSlashingPool(spec)
		mk := func() *phase0.ProposerSlashing {
			s := &phase0.ProposerSlashing{}
			s.SignedHeader1.Message.ProposerIndex = common.ValidatorIndex(zzverif.NondetU8())
			s.SignedHeader1.Message.Slot = common.Slot(zzverif.NondetU8())
			s.SignedHeader2.Message.ProposerIndex = s.SignedHeader1.Message.ProposerIndex
			s.SignedHeader2.Message.Slot = s.SignedHeader1.Message.Slot
			s.SignedHeader2.Message.BodyRoot[0] = 1
			return s
		}
		a, b := mk(), mk()
		zzverif.Assert(p.AddProposerSlashing(ctx, a) == nil, "first slashing of a proposer is stored")
		eb := p.AddProposerSlashing(ctx, b)
		same := a.SignedHeader1.Message.ProposerIndex == b.SignedHeader1.Message.ProposerIndex
		zzverif.Assert((eb != nil) == same, "a second slashing of the same proposer is reported, of another proposer stored")
		all := p.All()
		n := 2
		if same {
			n = 1
		}
		zzverif.Assert(len(all) == n, "All() returns every stored proposer slashing")
		for _, x := range all {
			zzverif.Assert(x != nil && (*x == *a || *x == *b), "All() returns only proposer slashings that were added, unaltered")
		}
	}
}

// VerifHarness_C20_syncpool: K-step histories of Reset / AddSyncCommitteeMessage / AddSyncCommitteeContribution on a
// fresh SyncCommitteePool against a three-slot window model keyed by absolute slot.
func VerifHarness_C20_syncpool() {
	K := zzverif.Param("steps", 3)
	spec := &common.Spec{}
	spec.SYNC_COMMITTEE_SIZE = 4
	sp := NewSyncCommitteePool(spec)
	ctx := context.Background()
	base := uint64(zzverif.NondetU8()) + 2 // slots base-2 .. base+3 are used
	cur := ^uint64(0)                      // model: current slot of the window
	initialised := true // the fresh pool sits at slot 2^64-1; slot arithmetic wraps exactly like the pool's
	// model content: slot -> validator -> message root marker
	msgs := map[uint64]map[uint64]byte{}
	for step := 0; step < K; step++ {
		zzverif.Reach("syncpool-step")
		zzverif.MustReturnWithin(200000)
		switch zzverif.Choose(2) {
		case 0:
			slot := base + uint64(zzverif.Choose(5)) - 2
			sp.Reset(common.Slot(slot))
			if !initialised || !(slot == cur || slot+1 == cur || slot == cur+1) {
				msgs = map[uint64]map[uint64]byte{}
			}
			cur = slot
			for s := range msgs {
				if !(s == cur || s+1 == cur || s == cur+1) {
					delete(msgs, s)
				}
			}
		case 1:
			slot := base + uint64(zzverif.Choose(5)) - 2
			vi := uint64(zzverif.Choose(2))
			mark := zzverif.NondetU8()
			m := &altair.SyncCommitteeMessage{Slot: common.Slot(slot), ValidatorIndex: common.ValidatorIndex(vi)}
			m.BeaconBlockRoot[0] = mark
			err := sp.AddSyncCommitteeMessage(ctx, m)
			inWindow := initialised && (slot == cur || slot+1 == cur || slot == cur+1)
			if initialised { // before the first Reset only panic-freedom is claimed
				zzverif.Assert((err == nil) == inWindow, "a sync-committee message is stored exactly when its slot is previous/current/next")
			}
			if err == nil && inWindow {
				if msgs[slot] == nil {
					msgs[slot] = map[uint64]byte{}
				}
				msgs[slot][vi] = mark
			}
		}
		zzverif.MustReturnWithin(0)
		if !initialised {
			continue
		}
		// the three buffers hold exactly the model's messages of their slots
		bufs := map[uint64]SyncCommitteeMessages{cur - 1: sp.prevMsgs, cur: sp.currentMsgs, cur + 1: sp.nextMsgs}
		for s, buf := range bufs {
			want := msgs[s]
			zzverif.Assert(len(buf) == len(want), "each window buffer holds exactly the messages added for its slot")
			for vi, mark := range want {
				got, ok := buf[common.ValidatorIndex(vi)]
				zzverif.Assert(ok && got != nil && uint64(got.Slot) == s && got.BeaconBlockRoot[0] == mark, "a stored sync-committee message is kept unaltered in the buffer of its slot")
			}
		}
	}
}
