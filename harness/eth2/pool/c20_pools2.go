package pool

import (
	"context"

	"github.com/protolambda/zrnt/eth2/beacon/common"
	"github.com/protolambda/zrnt/eth2/beacon/phase0"
	"github.com/protolambda/zrnt/eth2/zzverif"
	"github.com/protolambda/ztyp/tree"
)

// one indexed attestation with n symbolic (8-bit) attesting indices - any values, also unsorted / repeated -, symbolic
// slot (8 bits) and one symbolic signature byte; everything else zero
func vFcIndexed(n int) (out phase0.IndexedAttestation) {
	out.AttestingIndices = make(common.CommitteeIndices, n)
	for i := range out.AttestingIndices {
		out.AttestingIndices[i] = common.ValidatorIndex(zzverif.NondetU8())
	}
	out.Data.Slot = common.Slot(zzverif.NondetU8())
	out.Signature[0] = zzverif.NondetU8()
	return
}

// content equality, field by field (only the fields vFcIndexed makes symbolic can differ; the others are zero in every
// slashing of the harness)
func vFcSameIndexed(a, b *phase0.IndexedAttestation) bool {
	if len(a.AttestingIndices) != len(b.AttestingIndices) {
		return false
	}
	for i := range a.AttestingIndices {
		if a.AttestingIndices[i] != b.AttestingIndices[i] {
			return false
		}
	}
	return a.Data.Slot == b.Data.Slot && a.Signature[0] == b.Signature[0]
}

func vFcSameSlashing(a, b *phase0.AttesterSlashing) bool {
	return vFcSameIndexed(&a.Attestation1, &b.Attestation1) && vFcSameIndexed(&a.Attestation2, &b.Attestation2)
}

func vFcCopySlashing(a *phase0.AttesterSlashing) *phase0.AttesterSlashing {
	out := *a
	out.Attestation1.AttestingIndices = append(common.CommitteeIndices(nil), a.Attestation1.AttestingIndices...)
	out.Attestation2.AttestingIndices = append(common.CommitteeIndices(nil), a.Attestation2.AttestingIndices...)
	return &out
}

type vFcStored struct {
	ptr  *phase0.AttesterSlashing // what was handed to the pool
	copy *phase0.AttesterSlashing // private copy of its content at that time
}

// VerifHarness_C20_attester_slashings: every history of K (<= 3) operations on a fresh AttesterSlashingPool - add a new
// slashing (two indexed attestations with 0..maxidx symbolic attesting indices each, incl. empty / unsorted / repeated;
// symbolic data and signature byte), add a content-equal copy of an earlier one, query (All, then Pack, then All) -
// against a shadow list. Decided at every step: no panic; AddAttesterSlashing errors exactly for a slashing whose
// content equals one already stored (the pool's documented key: the hash-tree-root of the slashing) and stores every
// other one; All() returns exactly the stored pointers, once each, content unaltered; whatever Pack returns was stored,
// is at most n items and is removed, everything else is retained. The operation kinds are the first K Choose calls
// (shard [3]^K), followed by the two list lengths of every new slashing.
//
// Assumed: slashings with different content have different hash-tree-roots (uninterpreted hash: stated, not derived);
// lists within the preset limit (MAX_VALIDATORS_PER_COMMITTEE=4); single goroutine.
func VerifHarness_C20_attester_slashings() {
	K := zzverif.Param("steps", 3)
	maxIdx := zzverif.Param("maxidx", 2)
	ops := make([]int, K)
	for i := range ops {
		ops[i] = zzverif.Choose(3)
	}
	// the list lengths of the new slashings: chosen next, so that deeper shard prefixes split the heavy histories
	lens := make([][2]int, K)
	for i := range ops {
		if ops[i] == 0 {
			lens[i] = [2]int{zzverif.Choose(maxIdx + 1), zzverif.Choose(maxIdx + 1)}
		}
	}
	spec := common.VTinySpec()
	p := NewAttesterSlashingPool(spec)
	ctx := context.Background()
	var stored []vFcStored
	var roots []common.Root
	var offered []*phase0.AttesterSlashing // private copies of everything ever offered
	checkAll := func() {
		all := p.All()
		zzverif.Assert(len(all) == len(stored), "All() returns as many slashings as were stored")
		for _, s := range stored {
			n := 0
			for _, x := range all {
				if x == s.ptr {
					n++
				}
			}
			zzverif.Assert(n == 1, "All() returns every stored slashing exactly once")
			zzverif.Assert(vFcSameSlashing(s.ptr, s.copy), "a stored slashing is kept unaltered")
		}
	}
	for step := 0; step < K; step++ {
		zzverif.Reach("attester-slashing-step")
		zzverif.MustReturnWithin(2000000)
		switch ops[step] {
		case 0, 1:
			var sl *phase0.AttesterSlashing
			if ops[step] == 1 {
				if len(offered) == 0 {
					break // nothing to copy yet: this history is the one without the step
				}
				// a content-equal copy (fresh pointer, fresh backing arrays) of something offered earlier
				sl = vFcCopySlashing(offered[zzverif.Choose(len(offered))])
			} else {
				sl = &phase0.AttesterSlashing{}
				sl.Attestation1 = vFcIndexed(lens[step][0])
				sl.Attestation2 = vFcIndexed(lens[step][1])
			}
			dup := false
			root := sl.HashTreeRoot(spec, tree.GetHashFn())
			for i, s := range stored {
				if vFcSameSlashing(s.copy, sl) {
					dup = true
				} else {
					zzverif.Assume(roots[i] != root) // collision freedom of the (uninterpreted) hash
				}
			}
			offered = append(offered, vFcCopySlashing(sl))
			err := p.AddAttesterSlashing(ctx, sl)
			if dup {
				zzverif.Assert(err != nil, "a slashing whose content is already stored is reported as duplicate")
			} else {
				zzverif.Assert(err == nil, "a slashing with new content is stored")
				stored = append(stored, vFcStored{ptr: sl, copy: vFcCopySlashing(sl)})
				roots = append(roots, root)
			}
		case 2:
			checkAll()
			n := zzverif.Choose(3)
			calls := 0
			packed := p.Pack(func(sl *phase0.AttesterSlashing) int {
				calls++
				return int(int8(zzverif.NondetU8()))
			}, uint(n))
			zzverif.Assert(len(packed) <= n, "Pack returns at most n slashings")
			for i, x := range packed {
				at := -1
				for j, s := range stored {
					if s.ptr == x {
						at = j
					}
				}
				zzverif.Assert(at >= 0, "Pack returns only stored slashings")
				for j := 0; j < i; j++ {
					zzverif.Assert(packed[j] != x, "Pack returns no slashing twice")
				}
				if at >= 0 {
					// packed slashings leave the pool (and its shadow)
					stored = append(stored[:at:at], stored[at+1:]...)
					roots = append(roots[:at:at], roots[at+1:]...)
				}
			}
		}
		checkAll()
		zzverif.MustReturnWithin(0)
	}
}
