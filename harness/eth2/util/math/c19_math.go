package math

import "github.com/protolambda/zrnt/eth2/zzverif"

func popcount(x uint64) uint64 {
	x = x - ((x >> 1) & 0x5555555555555555)
	x = (x & 0x3333333333333333) + ((x >> 2) & 0x3333333333333333)
	x = (x + (x >> 4)) & 0x0f0f0f0f0f0f0f0f
	return (x * 0x0101010101010101) >> 56
}

// VerifHarness_C19_pow2: IsPowerOfTwo / NextPowerOfTwo over the full 64-bit domain.
func VerifHarness_C19_pow2() {
	n := zzverif.NondetU64()
	zzverif.Reach("pow2")
	zzverif.Assert(IsPowerOfTwo(n) == (popcount(n) == 1), "IsPowerOfTwo == (popcount == 1)")
	if n >= 1 && n <= 1<<63 {
		p := NextPowerOfTwo(n)
		zzverif.Assert(popcount(p) == 1, "NextPowerOfTwo result is a power of two")
		zzverif.Assert(p >= n, "NextPowerOfTwo result >= input")
		zzverif.Assert(p/2 < n, "NextPowerOfTwo result is the least such power")
	}
	if n == 0 {
		zzverif.Assert(NextPowerOfTwo(n) == 0, "NextPowerOfTwo(0) == 0 (repo test row)")
	}
}

// VerifHarness_C19_minmax: MinU64 / MaxU64.
func VerifHarness_C19_minmax() {
	a, b := zzverif.NondetU64(), zzverif.NondetU64()
	zzverif.Reach("minmax")
	mn, mx := MinU64(a, b), MaxU64(a, b)
	zzverif.Assert(mn <= a && mn <= b && (mn == a || mn == b), "MinU64 is the minimum")
	zzverif.Assert(mx >= a && mx >= b && (mx == a || mx == b), "MaxU64 is the maximum")
}

// VerifHarness_C19_isqrt_nopanic: the real IntegerSquareroot on the full 64-bit domain; the Newton loop is cut
// after the first iterations (StepBudget), so this decides panic-freedom (division by zero) of loop entry and
// the first steps for every input, not functional correctness.
func VerifHarness_C19_isqrt_nopanic() {
	n := zzverif.NondetU64()
	zzverif.Reach("isqrt-entry")
	zzverif.StepBudget(zzverif.Param("isqrt_steps", 40))
	_ = IntegerSquareroot(n)
}

// VerifHarness_C19_isqrt_exact: the real IntegerSquareroot (whole loop) is the floor square root for n < 2^bits.
func VerifHarness_C19_isqrt_exact() {
	n := zzverif.NondetU64()
	bits := uint(zzverif.Param("isqrt_bits", 10))
	n %= 1 << bits
	zzverif.Reach("isqrt-exact")
	r := IntegerSquareroot(n)
	zzverif.Assert(r*r <= n, "isqrt(n)^2 <= n")
	zzverif.Assert((r+1)*(r+1) > n, "(isqrt(n)+1)^2 > n")
}

// VerifHarness_C19_isqrt_top: the real function on the top window [2^64-2^k, 2^64-1] where x+1 can wrap.
func VerifHarness_C19_isqrt_top() {
	n := zzverif.NondetU64()
	k := uint(zzverif.Param("isqrt_top_bits", 4))
	zzverif.Assume(n >= -(uint64(1) << k))
	zzverif.Reach("isqrt-top")
	r := IntegerSquareroot(zzverif.Concrete(n))
	zzverif.Assert(r == 4294967295, "isqrt of the top window is 2^32-1")
}
