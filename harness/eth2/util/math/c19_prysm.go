package math

import "github.com/protolambda/zrnt/eth2/zzverif"

// vPrysmPoints: inputs around which a float64-based square root goes wrong: the top of the domain, the largest square,
// k^2-1 / k^2 / k^2+1 for k just above 2^26 (n just above 2^52, where float64(n) starts to round), for k near
// sqrt(2^53) and for k = 2^31, and the table entries' neighbours.
var vPrysmPoints = []uint64{
	1<<64 - 1, 1<<64 - 2, 1<<64 - 16, (1<<32 - 1) * (1<<32 - 1), (1<<32-1)*(1<<32-1) - 1, (1<<32-1)*(1<<32-1) + 1,
	67108865*67108865 - 1, 67108865 * 67108865, 67108865*67108865 + 1, 1<<52 - 1, 1 << 52, 1<<52 + 1,
	94906267*94906267 - 1, 94906267 * 94906267, 1<<62 - 1, 1 << 62, 1<<63 - 1, 1 << 63, 3037000500*3037000500 - 1,
	0, 1, 2, 3, 4, 5, 15, 16, 17, 4194303, 4194304, 4194305,
}

// VerifHarness_C19_isqrt_prysm: IntegerSquareRootPrysm (table lookup, else a float64 square-root estimate) returns the
// floor square root. The symbolic FloatingPoint query (fp.sqrt over a 64-bit to float64 conversion) is beyond the solvers
// here (both z3 versions give up within seconds), so this harness is NOT a solver verdict over a range: it executes the
// real function on each of the 31 listed boundary inputs (one per path, float arithmetic folded with Go's own), which is
// what the evidence says. On the pinned tree it failed for n = 2^64-1 (result 2^32), and for k^2-1 with k = 2^26+1.
func VerifHarness_C19_isqrt_prysm() {
	i := zzverif.Choose(len(vPrysmPoints))
	n := vPrysmPoints[i]
	zzverif.Reach("isqrt-prysm")
	r := IntegerSquareRootPrysm(n)
	zzverif.Assert(r <= 1<<32-1 && r*r <= n, "IntegerSquareRootPrysm(n)^2 <= n")
	zzverif.Assert(r == 1<<32-1 || (r+1)*(r+1) > n, "(IntegerSquareRootPrysm(n)+1)^2 > n")
}
