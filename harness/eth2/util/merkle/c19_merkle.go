package merkle

import (
	"github.com/protolambda/zrnt/eth2/zzverif"
	"github.com/protolambda/ztyp/tree"
)

func vMkRoot() (r tree.Root) { r[0] = zzverif.NondetU8(); r[31] = zzverif.NondetU8(); return }

// VerifHarness_C19_merkle_branch: VerifyMerkleBranch equals the spec's is_valid_merkle_branch for every depth 0..3,
// every index (bits above the depth are ignored) and every branch of at least `depth` nodes (nodes beyond the depth
// are ignored: the depth, not the slice length, says how many levels are hashed); both verdicts are reachable (the
// claimed root is either the recomputed one or arbitrary).
// Bounds: depth <= 3, up to 2 surplus branch nodes, nodes with two symbolic bytes; SHA-256 uninterpreted.
func VerifHarness_C19_merkle_branch() {
	depth := zzverif.Choose(4)
	extra := zzverif.Choose(3)
	low := zzverif.Choose(1 << uint(depth)) // the index bits that matter, concrete per path
	index := uint64(low) | uint64(zzverif.NondetU8())<<uint(depth)
	leaf := vMkRoot()
	branch := make([]tree.Root, depth+extra)
	for i := range branch {
		branch[i] = vMkRoot()
	}
	// spec: is_valid_merkle_branch
	value := leaf
	for i := 0; i < depth; i++ {
		var buf [64]byte
		if (low>>uint(i))&1 == 1 {
			copy(buf[:32], branch[i][:])
			copy(buf[32:], value[:])
		} else {
			copy(buf[:32], value[:])
			copy(buf[32:], branch[i][:])
		}
		value = tree.Root(zzverif.Hash(buf[:]))
	}
	root := value
	if zzverif.NondetBool() {
		root = vMkRoot()
	}
	zzverif.Reach("merkle-branch")
	got := VerifyMerkleBranch(leaf, branch, uint64(depth), index, root)
	zzverif.Assert(got == (value == root), "VerifyMerkleBranch is the spec's is_valid_merkle_branch (depth levels, index bits below the depth)")
}
